import Corerad.Model.Sysctl
namespace Driver.Sysctl
open Corerad Corerad.Model.Sysctl

def pContent : P (Option Nat) := do
  let i ← P.int
  pure (if i < 0 then none else some i.toNat)

def pOp : P Op := do
  let t ← P.tok
  match t with
  | "ga" => pure .getAutoconf
  | "gf" => pure .getForwarding
  | "s0" => pure (.setAutoconf false)
  | "s1" => pure (.setAutoconf true)
  | _ => failure

def resTok : Option Bool → String
  | none => "err" | some true => "1" | some false => "0"

def contTok : Option Nat → String
  | none => "-1" | some n => toString n

/-- `sc autoconf forwarding n op* | (result)* autoconf' forwarding'` — the real sysctl functions
    over a scratch directory (contents as codes: 0 "0\n", 1 "1\n", 2 not an integer, 3 another non-zero integer, 4 another zero, -1 missing; after a
    write the harness renders the file as the kernel would) -/
def sc (c impl : List String) : Option Verdict := do
  let (a, f, ops) ← P.run (do let a ← pContent; let f ← pContent; let l ← P.list pOp; pure (a, f, l)) c
  let (d, outs) := ops.foldl (fun (acc : Dir × List String) op =>
      let (d', r) := apply acc.1 op
      (d', acc.2 ++ [resTok r])) ((a, f), [])
  let model := outs ++ [contTok d.1, contTok d.2]
  let ok := impl == model
  pure { model := " ".intercalate model, oracle := ok,
         nontrivial := ops.any (fun o => match o with | .setAutoconf _ => true | _ => false) && ops.length ≥ 2,
         note := if ok then "" else "sysctl glue: a boolean reads true iff the file holds a non-zero integer (forwarding = 2 forwards), false iff zero, error iff unreadable or not an integer, enable writes \"1\" / disable \"0\" to the autoconf file only, forwarding reads the forwarding file" }

/-- `scc readers reads | wrong`: concurrent readers of one shared `State`, each of its own
    interface: no read may return another interface's value -/
def scc (_c impl : List String) : Option Verdict :=
  pure { model := "0", oracle := impl == ["0"], nontrivial := true,
         note := if impl == ["0"] then "" else "a reader of the shared State saw a value that is not its own interface's (or an error): forwarding / autoconfiguration state read wrongly under concurrency" }

end Driver.Sysctl
