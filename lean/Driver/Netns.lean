import Corerad.Basic
namespace Driver.Netns
open Corerad

/-- the observations of the end-to-end run in a private network namespace (real advertiser, real
    socket, real kernel; harness/corerad/zz_verif_netns_test.go), segment by segment, against what
    the properties call for:
      init    the initial RA goes to all-nodes with hop limit 255 from a link-local source, carries
              the configured lifetime (vf0 forwards), the prefix and the source link-layer option  (C01, C07)
      rs      a valid solicitation is answered by a unicast RA, well within a second              (C07)
      badhop  the same solicitation with hop limit 64 is not answered and is counted invalid once  (C09)
      nsol    a neighbor solicitation never reaches the advertiser (ICMPv6 filter)                 (C09)
      fwd     once vf0 no longer forwards, the solicited RA has router lifetime 0                  (C04)
      final   termination: one final multicast RA with lifetime 0, nothing after it, Run = nil     (C08) -/
def expected : List (String × List String) :=
  [("init", ["1", "255", "1", "1800", "2", "1"]), ("rs", ["1", "1"]), ("badhop", ["0", "1"]),
   ("nsol", ["0", "0"]), ("fwd", ["0"]), ("final", ["1", "0", "nil"])]

def why : String → String
  | "init" => "the initial RA is not a multicast RA with hop limit 255 from a link-local source carrying the configured lifetime, the prefix and the source link-layer address"
  | "rs" => "a valid router solicitation was not answered by a unicast RA in time"
  | "badhop" => "a solicitation with hop limit 64 was answered, or was not counted as invalid exactly once"
  | "nsol" => "a neighbor solicitation reached the advertiser (ICMPv6 filter) or was answered"
  | "fwd" => "the RA sent while the interface does not forward does not have router lifetime 0"
  | "final" => "termination: no final zero-lifetime RA, something after it, or Run did not return nil"
  | s => s

/-- split the flat token list at the segment names -/
def segments (names : List String) (toks : List String) : List (String × List String) :=
  (toks.foldl (fun (acc : List (String × List String)) t =>
    if names.contains t then (t, []) :: acc
    else match acc with
      | (n, vs) :: rest => (n, vs ++ [t]) :: rest
      | [] => []) []).reverse

/-- `ns ran | segments…` -/
def ns (c impl : List String) : Option Verdict :=
  match c with
  | ["0"] => some { model := "skip", oracle := true, nontrivial := false }
  | ["1"] =>
    let got := segments (expected.map (·.1)) impl
    let bad := expected.filter fun e => !got.contains e
    let model := " ".intercalate (expected.flatMap fun e => e.1 :: e.2)
    some { model := model, oracle := bad.isEmpty, nontrivial := true,
           note := match bad with
             | [] => ""
             | e :: _ => why e.1 }
  | _ => none

end Driver.Netns
