import Corerad.Basic
namespace Driver.Netns
open Corerad

/-- the observations of the end-to-end run in a private network namespace (real advertiser, real
    socket, real kernel; harness/corerad/zz_verif_netns_test.go), segment by segment, against what
    the properties call for:
      init    the initial RA goes to all-nodes with hop limit 255 from a link-local source, carries
              the configured lifetime (vf0 forwards), the prefix and the source link-layer option  (C01, C07)
      rs      a valid solicitation is answered by a unicast RA, well within a second              (C07)
      badhop  the same solicitation with hop limit 64 is not answered and is counted invalid once  (C09)
      nsol    a neighbor solicitation never reaches the advertiser (ICMPv6 filter)                 (C09)
      fwd     once vf0 no longer forwards, the solicited RA has router lifetime 0                  (C04)
      autoconf the real sysctl: 1 before, 0 while the connection is held                          (C11)
      relink  link down (real rtnetlink event through the Watcher) then up: autoconf put back while
              the connection is gone, then the interface is served again                           (C10, C11, C19)
      final   termination: one final multicast RA with lifetime 0, nothing after it, Run = nil     (C08)
      restored the real sysctl has its initial value after Run returned                            (C11) -/
def expected : List (String × List String) :=
  [("init", ["1", "255", "1", "1800", "2", "1"]), ("rs", ["1", "1"]), ("badhop", ["0", "1"]),
   ("nsol", ["0", "0"]), ("fwd", ["0"]), ("autoconf", ["1", "0"]), ("relink", ["1", "1", "1800"]),
   ("final", ["1", "0", "nil"]), ("restored", ["1"])]

def why : String → String
  | "init" => "the initial RA is not a multicast RA with hop limit 255 from a link-local source carrying the configured lifetime, the prefix and the source link-layer address"
  | "rs" => "a valid router solicitation was not answered by a unicast RA in time"
  | "badhop" => "a solicitation with hop limit 64 was answered, or was not counted as invalid exactly once"
  | "nsol" => "a neighbor solicitation reached the advertiser (ICMPv6 filter) or was answered"
  | "fwd" => "the RA sent while the interface does not forward does not have router lifetime 0"
  | "autoconf" => "the interface's IPv6 autoconfiguration is not disabled while the advertiser holds its connection (real sysctl)"
  | "relink" => "after the link went down and came back the interface was not served again (no fresh multicast RA with the configured lifetime), or autoconfiguration was not put back while the connection was gone"
  | "restored" => "after Run returned the interface's IPv6 autoconfiguration does not have its initial value (real sysctl)"
  | "final" => "termination: no final zero-lifetime RA, something after it, or Run did not return nil"
  | s => s

/-- split the flat token list at the segment names -/
def segments (names : List String) (toks : List String) : List (String × List String) :=
  (toks.foldl (fun (acc : List (String × List String)) t =>
    if names.contains t then (t, []) :: acc
    else match acc with
      | (n, vs) :: rest => (n, vs ++ [t]) :: rest
      | [] => []) []).reverse

/-- `ns ran | segments…` -/
def ns (c impl : List String) : Option Verdict :=
  match c with
  | ["0"] => some { model := "skip", oracle := true, nontrivial := false }
  | ["1"] =>
    let got := segments (expected.map (·.1)) impl
    let bad := expected.filter fun e => !got.contains e
    let model := " ".intercalate (expected.flatMap fun e => e.1 :: e.2)
    some { model := model, oracle := bad.isEmpty, nontrivial := true,
           note := match bad with
             | [] => ""
             | e :: _ => why e.1 }
  | _ => none

/-- `nsw ran | …`: the real Watcher on real rtnetlink link messages (vf0 taken down and up) — a
    subscriber receives exactly the changes its mask asks for, of its interface only (C19):
    (vf0, any) sees the down and the up, (vf0, down) only something at the down, (vf0, up) only
    something at the up, (lo, any) nothing; every channel is closed when the watch ends -/
def nsw (c impl : List String) : Option Verdict :=
  let want := "down a+D d+ u0 o0 up a+U d0 u+ o0 closed 4 nil"
  match c with
  | ["0"] => some { model := "skip", oracle := true, nontrivial := false }
  | ["1"] =>
    let got := " ".intercalate impl
    some { model := want, oracle := got == want, nontrivial := true,
           note := if got == want then "" else
             "real rtnetlink link events: a subscriber did not receive exactly the changes of its interface that intersect its mask (a+ any, d+ down only, u+ up only, o0 other interface), or the channels were not all closed at the end of the watch" }
  | _ => none

/-- `nsa ran | …`: the real addresser on real rtnetlink dumps (C13–C15 OS glue): the configured
    global addresses of vf0 with their flags (deprecated / temporary / tentative / valid-forever),
    no IPv4 address, and the two routes put on the loopback interface -/
def nsa (c impl : List String) : Option Verdict :=
  let want := "addrs 3 2001:db8:1::1/64 0001 2001:db8:2::1/64 1000 fd00:0:0:3::1/56 0000 routes 2 2001:db8:f00:1::/64 2001:db8:f00::/48"
  match c with
  | ["0"] => some { model := "skip", oracle := true, nontrivial := false }
  | ["1"] =>
    let got := " ".intercalate impl
    some { model := want, oracle := got == want, nontrivial := true,
           note := if got == want then "" else
             "real rtnetlink dumps: AddressesByIndex / LoopbackRoutes did not report the addresses of vf0 (with Deprecated for preferred_lft 0 and ValidForever for an unlimited lifetime, no IPv4) and the two loopback routes" }
  | _ => none

/-- `nsb ran what | …`: what the kernel itself hands the real addresser for an address with a peer
    (`ip addr add A peer B/64`), an IPv4-mapped address on the interface and an IPv4-mapped route
    on the loopback interface (C13–C15; findings F-27, F-28) -/
def nsb (c impl : List String) : Option Verdict :=
  match c with
  | ["0"] => some { model := "skip", oracle := true, nontrivial := false }
  | ["1", "peer"] =>
    some { model := "own", oracle := impl == ["own"], nontrivial := true,
           note := if impl == ["own"] then "" else if impl == ["peer"] then
             "class=peer-address-as-own real rtnetlink dump of `ip addr add 2001:db8:5::1 peer 2001:db8:6::2/64 dev vf0`: AddressesByIndex reports the peer's address 2001:db8:6::2 as the interface's, not 2001:db8:5::1"
           else "real rtnetlink dump of an address with a peer: AddressesByIndex must report the interface's own address" }
  | ["1", "mapaddr"] =>
    some { model := "ok", oracle := impl == ["ok"], nontrivial := true,
           note := if impl == ["ok"] then "" else if impl == ["panic"] then
             "class=v4mapped-address-panics real rtnetlink dump with `ip -6 addr add ::ffff:192.0.2.9/128 dev vf0`: AddressesByIndex panics"
           else "real rtnetlink dump with an IPv4-mapped address: AddressesByIndex must still report the IPv6 addresses of the interface" }
  | ["1", "maproute"] =>
    some { model := "ok", oracle := impl == ["ok"], nontrivial := true,
           note := if impl == ["ok"] then "" else if impl == ["panic"] then
             "class=v4mapped-route-panics real rtnetlink dump with `ip -6 route add unreachable ::ffff:0.0.0.0/96 dev lo`: LoopbackRoutes panics"
           else "real rtnetlink dump with an IPv4-mapped loopback route: LoopbackRoutes must still report the IPv6 routes" }
  | _ => none

end Driver.Netns
