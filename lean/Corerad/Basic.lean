/-
  Corerad.Basic — shared vocabulary of the model.

  Durations and times are `Int` nanoseconds on one timeline (DESIGN §3).  Go library
  semantics that the model relies on (`Duration.Round`, `Duration.Truncate`, truncating
  integer division, `netip` predicates) are transcribed here; they are *modelled, not
  verified* and are validated by the correspondence checks.

  Core Lean only: this file is linked into the `vfdriver` executable.
-/

namespace Corerad

/-- Durations and instants are plain `Int` nanoseconds (notations, so that `omega` sees `Int`). -/
notation "Dur" => Int
notation "Time" => Int

def ns : Dur := 1
def us : Dur := 1000
def ms : Dur := 1000000
def second : Dur := 1000000000
def minute : Dur := 60 * second
def hour : Dur := 3600 * second

/-- `ndp.Infinity = time.Duration(math.MaxUint32) * time.Second`. -/
def infinity : Dur := 4294967295 * second

/-- Go's `%` on signed integers truncates toward zero. -/
def goMod (a b : Int) : Int := Int.tmod a b
/-- Go's `/` on signed integers truncates toward zero. -/
def goDiv (a b : Int) : Int := Int.tdiv a b

/-- `time.Duration.Truncate(m)`: `d - d % m` for `m > 0`, else `d`. -/
def truncateDur (d m : Dur) : Dur := if m ≤ 0 then d else d - goMod d m

/-- `time.Duration.Round(m)` for the non-overflowing range (|d| + m < 2^63): round half away
    from zero.  Transcribed from `time.Duration.Round`. -/
def roundDur (d m : Dur) : Dur :=
  if m ≤ 0 then d
  else
    let r := goMod d m
    if d < 0 then
      let r := -r
      if r + r < m then d + r else d - m + r
    else
      if r + r < m then d - r else d + m - r

/-- `int(d.Seconds())` for |d| below 2^53 ns·10⁹: truncation toward zero of d / 1 s. -/
def wholeSeconds (d : Dur) : Int := goDiv d second

/-! ### Addresses (`netip.Addr` without zones) -/

/-- A zone-free `netip.Addr`: `v4` family with a 32-bit value or `v6` with a 128-bit value.
    `valid = false` is the zero `netip.Addr{}`. -/
structure IP where
  valid : Bool := true
  v4 : Bool := false
  val : Nat := 0
deriving DecidableEq, Repr, Inhabited

namespace IP

def zero : IP := { valid := false, v4 := false, val := 0 }

def is4 (a : IP) : Bool := a.valid && a.v4
def is6 (a : IP) : Bool := a.valid && !a.v4
/-- `::ffff:a.b.c.d` -/
def is4In6 (a : IP) : Bool := a.is6 && a.val / 2^32 == 0xffff
def isUnspecified (a : IP) : Bool := a.valid && a.val == 0
def bitLen (a : IP) : Nat := if !a.valid then 0 else if a.v4 then 32 else 128

/-- the IPv4 address embedded in an IPv4-mapped IPv6 address (`Unmap`) -/
def unmap (a : IP) : IP := if a.is4In6 then { valid := true, v4 := true, val := a.val % 2^32 } else a

def isLinkLocalUnicast (a : IP) : Bool :=
  let a := a.unmap
  if a.is4 then a.val / 2^16 == 0xa9fe            -- 169.254.0.0/16
  else if a.is6 then a.val / 2^118 == 0x3fa       -- fe80::/10
  else false

def isMulticast (a : IP) : Bool :=
  let a := a.unmap
  if a.is4 then a.val / 2^28 == 0xe               -- 224.0.0.0/4
  else if a.is6 then a.val / 2^120 == 0xff        -- ff00::/8
  else false

def isLoopback (a : IP) : Bool :=
  let a := a.unmap
  if a.is4 then a.val / 2^24 == 127
  else if a.is6 then a.val == 1
  else false

def isPrivate (a : IP) : Bool :=
  let a := a.unmap
  if a.is4 then
    a.val / 2^24 == 10 || a.val / 2^20 == 0xac1 || a.val / 2^16 == 0xc0a8
  else if a.is6 then a.val / 2^121 == 0x7e        -- fc00::/7
  else false

def isGlobalUnicast (a : IP) : Bool :=
  let a := a.unmap
  if a.is4 then
    a.val != 0 && a.val != 0xffffffff && !a.isLoopback && !a.isMulticast && !a.isLinkLocalUnicast
  else if a.is6 then
    a.val != 0 && !a.isLoopback && !a.isMulticast && !a.isLinkLocalUnicast
  else false

/-- `netip.Addr.Compare` (zone-free): by bit length, then by value. -/
def compare (a b : IP) : Ordering :=
  if a.bitLen < b.bitLen then .lt
  else if a.bitLen > b.bitLen then .gt
  else if a.val < b.val then .lt
  else if a.val > b.val then .gt
  else .eq

def less (a b : IP) : Bool := compare a b == .lt

/-- 16 bytes of an IPv6 address, byte `i` (0 = most significant). -/
def byte16 (a : IP) (i : Nat) : Nat := (a.val / 2^(8*(15-i))) % 256

end IP

/-- `netip.Prefix`: address and bit length; `valid=false` is the zero prefix. -/
structure Prefix where
  addr : IP := {}
  bits : Nat := 0
deriving DecidableEq, Repr, Inhabited

namespace Prefix

def isValid (p : Prefix) : Bool := p.addr.valid && p.bits ≤ p.addr.bitLen

/-- keep the top `bits` bits of a `len`-bit value -/
def maskVal (len bits val : Nat) : Nat :=
  if bits ≥ len then val else (val / 2^(len - bits)) * 2^(len - bits)

def masked (p : Prefix) : Prefix :=
  { p with addr := { p.addr with val := maskVal p.addr.bitLen p.bits p.addr.val } }

def isSingleIP (p : Prefix) : Bool := p.isValid && p.bits == p.addr.bitLen

/-- `Prefix.Contains(ip)`: same family (after no unmapping: 4in6 is not contained in a v4
    prefix), and the top `bits` bits agree. -/
def contains (p : Prefix) (a : IP) : Bool :=
  p.isValid && a.valid && (p.addr.v4 == a.v4) &&
    maskVal a.bitLen p.bits a.val == maskVal p.addr.bitLen p.bits p.addr.val

/-- `Prefix.Overlaps(o)`: same family and agreement on the shorter prefix length. -/
def overlaps (p o : Prefix) : Bool :=
  p.isValid && o.isValid && (p.addr.v4 == o.addr.v4) &&
    (let m := min p.bits o.bits
     maskVal p.addr.bitLen m p.addr.val == maskVal o.addr.bitLen m o.addr.val)

end Prefix

/-! ### Token protocol helpers (driver side) -/

abbrev P := StateT (List String) Option

namespace P

def tok : P String := fun s => match s with
  | [] => none
  | t :: ts => some (t, ts)

def int : P Int := do
  let t ← tok
  match t.toInt? with
  | some i => pure i
  | none => failure

def nat : P Nat := do
  let t ← tok
  match t.toNat? with
  | some i => pure i
  | none => failure

def bool : P Bool := do
  let n ← nat
  pure (n != 0)

def expect (s : String) : P Unit := do
  let t ← tok
  if t == s then pure () else failure

def listN (p : P α) : Nat → P (List α)
  | 0 => pure []
  | n+1 => do
    let x ← p
    let xs ← listN p n
    pure (x :: xs)

/-- length-prefixed list -/
def list (p : P α) : P (List α) := do
  let n ← nat
  listN p n

def eof : P Unit := fun s => match s with
  | [] => some ((), [])
  | _ => none

/-- IP token triple: `valid v4 val` compressed as family tag `0` (invalid), `4`, `6` then value -/
def ip : P IP := do
  let f ← nat
  let v ← nat
  match f with
  | 0 => pure IP.zero
  | 4 => pure { valid := true, v4 := true, val := v }
  | _ => pure { valid := true, v4 := false, val := v }

def prefix_ : P Prefix := do
  let a ← ip
  let b ← nat
  pure { addr := a, bits := b }

def run (p : P α) (toks : List String) : Option α :=
  match (do let x ← p; eof; pure x : P α) toks with
  | some (x, _) => some x
  | none => none

end P

def boolTok (b : Bool) : String := if b then "1" else "0"

def ipToks (a : IP) : String :=
  if !a.valid then "0 0" else if a.v4 then s!"4 {a.val}" else s!"6 {a.val}"

def prefixToks (p : Prefix) : String := s!"{ipToks p.addr} {p.bits}"

def splitToks (s : String) : List String :=
  (s.splitOn " ").filter (· ≠ "")

/-- The outcome of running one correspondence line through the model. -/
structure Verdict where
  /-- canonical model output (compared with the implementation's output as strings) -/
  model : String
  /-- did `Spec.holds` accept the *implementation's* output for this case -/
  oracle : Bool
  /-- is the case non-trivial by the property's stated rule -/
  nontrivial : Bool
  /-- free text: which clause of the oracle failed -/
  note : String := ""
  /-- set when agreement is decided by a relation other than token equality (e.g. the model
      is nondeterministic and the implementation matched one of its allowed outcomes) -/
  agreeOverride : Option Bool := none

end Corerad
