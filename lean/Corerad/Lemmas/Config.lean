/-
  Helper lemmas for C02 (`Props/C02.lean`): the refinement of the procedural configuration
  parser (`Model/Config.lean`) to the declarative specification (`Spec/C02.lean`).
  Input well-formedness (`wfPfx`, `wfIface`), the elementary parsers against their documented
  readings, the `rdnss` server loop, `mapM'`/`anyPair`/`pairwiseNot`, and the split of
  `docAdvertising` into its scalar and plugin conjuncts (`docScalars`, `docPlugins`).
-/
import Corerad.Spec.C02

namespace Corerad.Props.C02

open Corerad Corerad.Model Corerad.Spec.C02

/-- input well-formedness: a successfully parsed `netip.Prefix` has at most 128 bits -/
def wfPfx : PfxStr → Bool
  | .ok p => decide (p.bits ≤ 128)
  | _ => true

theorem parseDuration_eq (s : DurStr) (d : Dur) : parseDuration s d = resolve s d := by
  cases s <;> rfl

theorem parsePreference_eq (c : Nat) : parsePreference c = prefCode c :=
  match c with
  | 0 | 1 | 2 | 3 => rfl
  | _ + 4 => rfl

theorem is6_isValid (p : Prefix) (h6 : p.addr.is6 = true) (hb : p.bits ≤ 128) : p.isValid = true := by
  unfold IP.is6 at h6
  unfold Prefix.isValid IP.bitLen
  simp only [Bool.and_eq_true, Bool.not_eq_true'] at h6
  simp [h6.1, h6.2, hb]

theorem is6_isSingleIP (p : Prefix) (h6 : p.addr.is6 = true) (hb : p.bits ≤ 128) :
    p.isSingleIP = (p.bits == 128) := by
  unfold Prefix.isSingleIP
  rw [is6_isValid p h6 hb]
  unfold IP.is6 at h6
  simp only [Bool.and_eq_true, Bool.not_eq_true'] at h6
  unfold IP.bitLen
  simp [h6.1, h6.2]

/-- the three outcomes of `parseIPPrefix` followed by the wildcard substitution, against `pfxOf` -/
theorem pfx_cases (wild : Prefix) (hw6 : wild.addr.is6 = true) (hwb : wild.bits ≤ 128)
    (s : PfxStr) (hwf : wfPfx s = true) :
    (parseIPPrefix s = none ∧ pfxOf wild s = none) ∨
    ∃ p0 q, parseIPPrefix s = some p0 ∧ (if (!p0.isValid) = true then wild else p0) = q ∧
      pfxOf wild s = some q ∧ q.addr.is6 = true ∧ q.bits ≤ 128 := by
  cases s with
  | empty => exact .inr ⟨Prefix.zero, wild, rfl, rfl, rfl, hw6, hwb⟩
  | bad => exact .inl ⟨rfl, rfl⟩
  | ok p =>
    simp only [wfPfx, decide_eq_true_eq] at hwf
    simp only [parseIPPrefix, pfxOf, canonical6]
    by_cases hm : p.masked = p
    · by_cases h6 : p.addr.is6 = true
      · by_cases h4 : p.addr.is4In6 = true
        · simp [hm, h6, h4]
        · have := is6_isValid p h6 hwf
          simp [hm, h6, h4, this, hwf]
      · simp [hm, h6]
    · simp [hm]

theorem maxLifetime_val : maxLifetime = 4294967295000000000 := by decide

/-- the static (non-wildcard) servers of an `rdnss` stanza, in input order -/
def specs (l : List AddrStr) : List IP := (l.map serverAddr).filter (fun a => !a.isUnspecified)

/-- the `::` wildcard entries -/
def unspecs (l : List AddrStr) : List IP := (l.map serverAddr).filter (·.isUnspecified)

theorem all_not_contains_snoc (l acc : List IP) (ip : IP) :
    l.all (fun x => !(acc ++ [ip]).contains x) = (l.all (fun x => !acc.contains x) && !l.contains ip) := by
  rw [Bool.eq_iff_iff]
  simp only [List.all_eq_true, Bool.and_eq_true, Bool.not_eq_true', List.contains_eq_mem,
    decide_eq_false_iff_not, List.mem_append, List.mem_singleton]
  constructor
  · intro h; exact ⟨fun x hx hm => h x hx (Or.inl hm), fun hm => h ip hm (Or.inr rfl)⟩
  · rintro ⟨h1, h2⟩ x hx (hm | rfl)
    · exact h1 x hx hm
    · exact h2 hx

theorem parseServers_eq (l : List AddrStr) (auto : Bool) (acc : List IP) :
    parseServers l auto acc =
      if l.all serverOk && decide ((unspecs l).length + (if auto then 1 else 0) ≤ 1) &&
          nodupIP (specs l) && (specs l).all (fun x => !acc.contains x)
      then some (auto || (l.map serverAddr).any (·.isUnspecified), acc ++ specs l) else none := by
  induction l generalizing auto acc with
  | nil => simp [parseServers, unspecs, specs, nodupIP]; cases auto <;> simp
  | cons a rest ih =>
    cases a with
    | bad => simp [parseServers, serverOk]
    | ok ip =>
      simp only [parseServers]
      by_cases h6 : (!ip.is6 || ip.is4In6) = true
      · rw [if_pos h6]
        have : serverOk (.ok ip) = false := by
          simp only [serverOk]; revert h6; cases ip.is6 <;> cases ip.is4In6 <;> simp
        simp [this]
      · rw [if_neg h6]
        have hok : serverOk (.ok ip) = true := by
          simp only [serverOk]; revert h6; cases ip.is6 <;> cases ip.is4In6 <;> simp
        by_cases hu : ip.isUnspecified = true
        · rw [if_pos hu]
          have h1 : unspecs (.ok ip :: rest) = ip :: unspecs rest := by
            simp [unspecs, serverAddr, hu]
          have h2 : specs (.ok ip :: rest) = specs rest := by
            simp [specs, serverAddr, hu]
          rw [h1, h2]
          cases auto with
          | true => simp
          | false =>
            simp only [Bool.false_eq_true, if_false, ih, List.all_cons, hok, Bool.true_and, List.length_cons,
              List.map_cons, List.any_cons, serverAddr, hu, Bool.true_or, Bool.or_true, if_true, Nat.add_zero]
        · rw [if_neg hu]
          have h1 : unspecs (.ok ip :: rest) = unspecs rest := by
            simp [unspecs, serverAddr, hu]
          have h2 : specs (.ok ip :: rest) = ip :: specs rest := by
            simp [specs, serverAddr, hu]
          rw [h1, h2]
          by_cases hc : acc.contains ip = true
          · rw [if_pos hc]; simp only [List.contains_eq_mem, decide_eq_true_eq] at hc; simp [hc]
          · rw [if_neg hc, ih, all_not_contains_snoc]
            simp only [Bool.not_eq_true] at hc hu
            simp only [List.all_cons, hok, Bool.true_and, nodupIP, hc, Bool.not_false, List.map_cons,
              List.any_cons, serverAddr, hu, Bool.false_or, List.append_assoc, List.singleton_append]
            congr 1
            cases (rest.all serverOk) <;> cases (nodupIP (specs rest)) <;> cases ((specs rest).contains ip) <;> simp

theorem hasDup_eq (l : List Nat) : hasDup l = !nodupNat l := by
  induction l with
  | nil => rfl
  | cons x xs ih => simp only [hasDup, nodupNat, ih, Bool.not_and, Bool.not_not]

theorem mapM'_eq {α β : Type} {f : α → Option β} {d : α → Bool} {e : α → β} (l : List α)
    (h : ∀ x ∈ l, f x = if d x then some (e x) else none) :
    mapM' f l = if l.all d then some (l.map e) else none := by
  induction l with
  | nil => rfl
  | cons x xs ih =>
    have hx := h x List.mem_cons_self
    have ih' := ih (fun y hy => h y (List.mem_cons_of_mem _ hy))
    simp only [mapM', hx, ih', List.all_cons, List.map_cons]
    cases d x <;> cases xs.all d <;> rfl

theorem all_congr_mem {α : Type} {p q : α → Bool} (l : List α) (h : ∀ y ∈ l, p y = q y) :
    l.all p = l.all q := by
  induction l with
  | nil => rfl
  | cons x xs ih =>
    simp only [List.all_cons, h x List.mem_cons_self, ih (fun y hy => h y (List.mem_cons_of_mem _ hy))]

theorem any_eq_not_all {α : Type} (p q : α → Bool) (l : List α) (h : ∀ y, p y = !q y) :
    l.any p = !l.all q := by
  induction l with
  | nil => rfl
  | cons x xs ih => simp only [List.any_cons, List.all_cons, ih, h, Bool.not_and]

theorem anyPair_eq {α : Type} (bad : α → α → Bool) (l : List α) :
    anyPair bad l = !pairwiseNot bad l := by
  induction l with
  | nil => rfl
  | cons x xs ih =>
    simp only [anyPair, pairwiseNot, ih, Bool.not_and]
    congr 1
    apply any_eq_not_all
    intro y
    simp only [Bool.not_and, Bool.not_not]

theorem pairwiseNot_map {α β : Type} (e : α → β) (bad : β → β → Bool) (bad' : α → α → Bool) (l : List α)
    (h : ∀ a ∈ l, ∀ b ∈ l, bad (e a) (e b) = bad' a b) :
    pairwiseNot bad (l.map e) = pairwiseNot bad' l := by
  induction l with
  | nil => rfl
  | cons x xs ih =>
    simp only [List.map_cons, pairwiseNot, List.all_map]
    rw [ih (fun a ha b hb => h a (List.mem_cons_of_mem _ ha) b (List.mem_cons_of_mem _ hb))]
    congr 1
    apply all_congr_mem
    intro y hy
    simp only [Function.comp]
    rw [h x List.mem_cons_self y (List.mem_cons_of_mem _ hy), h y (List.mem_cons_of_mem _ hy) x List.mem_cons_self]

def overlapPrefixes (a b : RawPrefix) : Bool :=
  match pfxOf wildPrefix a.pstr, pfxOf wildPrefix b.pstr with
  | some p, some q => p.overlaps q | _, _ => false

def overlapRoutes (a b : RawRoute) : Bool :=
  match pfxOf wildRoute a.pstr, pfxOf wildRoute b.pstr with
  | some p, some q => p != wildRoute && q != wildRoute && p.overlaps q | _, _ => false

/-- the plugin part of `docAdvertising` (the last ten conjuncts), for a given MaxRtrAdvInterval -/
def docPlugins (i : RawInterface) (maxI : Dur) : Bool :=
  i.prefixes.all docPrefix && pairwiseNot overlapPrefixes i.prefixes &&
  i.routes.all docRoute && pairwiseNot overlapRoutes i.routes &&
  i.rdnss.all (docRDNSS maxI) && i.dnssl.all (docDNSSL maxI) &&
  decide (0 ≤ i.mtu) && decide (i.mtu ≤ 65536) &&
  portalOk i.captivePortal &&
  i.pref64.all docPref64

/-- the scalar part of `docAdvertising` (the first eight conjuncts) -/
def docScalars (i : RawInterface) (maxI : Dur) : Bool :=
  decide (4 * second ≤ maxI) && decide (maxI ≤ 1800 * second) &&
  (minOf i.minInterval maxI).isSome &&
  within 0 hour (plainDur i.reachable 0) && within 0 hour (plainDur i.retransmit 0) &&
  (match i.hopLimit with | none => true | some h => decide (0 ≤ h) && decide (h ≤ 255)) &&
  (lifetimeOf i.defaultLifetime maxI).isSome &&
  (prefCode i.preference).isSome

/-- input well-formedness of a stanza: every successfully parsed prefix has at most 128 bits -/
def wfIface (i : RawInterface) : Bool :=
  i.prefixes.all (fun p => wfPfx p.pstr) && i.routes.all (fun r => wfPfx r.pstr)

theorem docPrefix_some (p : RawPrefix) (h : docPrefix p = true) :
    ∃ q, pfxOf wildPrefix p.pstr = some q := by
  unfold docPrefix at h
  cases hq : pfxOf wildPrefix p.pstr with
  | none => rw [hq] at h; simp at h
  | some q => exact ⟨q, rfl⟩

theorem docRoute_some (r : RawRoute) (h : docRoute r = true) :
    ∃ q, pfxOf wildRoute r.pstr = some q := by
  unfold docRoute at h
  cases hq : pfxOf wildRoute r.pstr with
  | none => rw [hq] at h; simp at h
  | some q => exact ⟨q, rfl⟩

end Corerad.Props.C02
