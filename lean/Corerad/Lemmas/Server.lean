/-
  Helper vocabulary and lemmas for C20 (Props/C20.lean).

  `Step` is the transition relation of Model/Server.lean written as an inductive predicate (one
  constructor per enabled step); `step_of_step?` shows the executable `step?` only makes such
  steps.  Three invariants link a reachable state to the trace that led to it (`InvCtx`: the
  context and the recorded error; `InvSig`: the signal task; `InvTask`: readiness and returns of
  the caller's tasks); `reach_ind` is induction over the traces of the system.
-/
import Corerad.Spec.C20
namespace Corerad.Model.Server
open Corerad Corerad.Spec.C20

theorem run?_append (s : State) (a b : List Event) :
    run? s (a ++ b) = (run? s a).bind (fun s' => run? s' b) := by
  induction a generalizing s with
  | nil => simp [run?]
  | cons e a ih =>
    simp only [List.cons_append, run?]
    cases step? s e <;> simp [ih]

theorem run?_snoc {s st st' : State} {tr : List Event} {e : Event}
    (h : run? s tr = some st) (he : step? st e = some st') : run? s (tr ++ [e]) = some st' := by
  simp [run?_append, h, run?, he]

theorem run?_split {s st : State} {pre post : List Event} {e : Event}
    (h : run? s (pre ++ e :: post) = some st) :
    ∃ s1 s2, run? s pre = some s1 ∧ step? s1 e = some s2 ∧ run? s2 post = some st := by
  rw [run?_append] at h
  cases h1 : run? s pre with
  | none => simp [h1] at h
  | some s1 =>
    simp only [h1, Option.bind_some, run?] at h
    cases h2 : step? s1 e with
    | none => simp [h2] at h
    | some s2 => simp only [h2] at h; exact ⟨s1, s2, rfl, h2, h⟩

theorem reach_ind {n : Nat} (P : List Event → State → Prop)
    (h0 : P [] (init n))
    (hs : ∀ tr st e st', run? (init n) tr = some st → P tr st → step? st e = some st' →
      P (tr ++ [e]) st') :
    ∀ tr st, run? (init n) tr = some st → P tr st := by
  have key : ∀ post pre s0, run? (init n) pre = some s0 → P pre s0 →
      ∀ st, run? s0 post = some st → P (pre ++ post) st := by
    intro post
    induction post with
    | nil => intro pre s0 _ hp st h; simp [run?] at h; subst h; simpa using hp
    | cons e post ih =>
      intro pre s0 hr hp st h
      simp only [run?] at h
      cases h2 : step? s0 e with
      | none => simp [h2] at h
      | some s2 =>
        simp only [h2] at h
        have := ih (pre ++ [e]) s2 (run?_snoc hr h2) (hs pre s0 e s2 hr hp h2) st h
        simpa using this
  intro tr st h
  simpa using key tr [] (init n) rfl h0 st h

inductive Step : State → Event → State → Prop
  | start {st : State} {k : Nat} {t : Task} : st.tasks[k]? = some t → t.pc = .notStarted →
      Step st (.start k) (setPc st k t .running)
  | ready {st : State} {k : Nat} {t : Task} : st.tasks[k]? = some t → t.pc = .running → t.ready = false →
      Step st (.ready k) { st with tasks := st.tasks.set k { t with ready := true } }
  | fail {st : State} {k : Nat} {t : Task} : st.tasks[k]? = some t → t.pc = .running →
      Step st (.fail k)
        { setPc st k t (.returned true) with ctxDone := true, firstErr := st.firstErr.or (some k) }
  | earlyNil {st : State} {k : Nat} {t : Task} : st.tasks[k]? = some t → t.pc = .running →
      Step st (.earlyNil k) (setPc st k t (.returned false))
  | signal {st : State} {s : Sig} : Step st (.signal s) { st with pending := st.pending.or (some s) }
  | recvSig {st : State} {s : Sig} : st.sigPc = .waiting → st.pending = some s →
      Step st .recvSig { st with sigPc := .got s false false false, pending := none }
  | setTerm {st : State} {s : Sig} {n c : Bool} : st.sigPc = .got s false n c →
      (setFirst = true ∨ c = true) →
      Step st .setTerm { st with sigPc := .got s true n c, term := some (isTerminal s) }
  | notifyStopping {st : State} {s : Sig} {d c : Bool} : st.sigPc = .got s d false c →
      (notifyFirst = true ∨ c = true) →
      Step st .notifyStopping { st with sigPc := .got s d true c }
  | cancel {st : State} {s : Sig} {d n : Bool} : st.sigPc = .got s d n false →
      (setFirst = true → d = true) → (notifyFirst = true → n = true) →
      Step st .cancel { st with sigPc := .got s d n true, ctxDone := true }
  | sigReturnW {st : State} : st.sigPc = .waiting → st.ctxDone = true →
      Step st .sigReturn { st with sigPc := .returned }
  | sigReturnG {st : State} {s : Sig} : st.sigPc = .got s true true true →
      Step st .sigReturn { st with sigPc := .returned }
  | observeCancel {st : State} {k : Nat} {t : Task} {b : Bool} : st.tasks[k]? = some t →
      t.pc = .running → st.ctxDone = true → b = st.terminate →
      Step st (.observeCancel k b) (setPc st k t .sawCancel)
  | ret {st : State} {k : Nat} {t : Task} {err : Bool} : st.tasks[k]? = some t → t.pc = .sawCancel →
      Step st (.ret k err)
        { setPc st k t (.returned err) with
          firstErr := if err then st.firstErr.or (some k) else st.firstErr }
  | announceReady {st : State} : st.readyAnnounced = false → allReady st = true →
      Step st .announceReady { st with readyAnnounced := true }
  | serveReturn {st : State} : st.served = none → allReturned st = true → st.sigPc = .returned →
      Step st (.serveReturn st.firstErr) { st with served := some st.firstErr }

theorem step_of_step? {st st' : State} {e : Event} (h : step? st e = some st') : Step st e st' := by
  cases e <;> simp only [step?] at h
  case start k =>
    split at h
    · split at h
      · simp at h; subst h; exact .start ‹_› ‹_›
      · simp at h
    · simp at h
  case ready k =>
    split at h
    · split at h
      · simp at h; subst h; exact .ready ‹_› (‹_ ∧ _›).1 (‹_ ∧ _›).2
      · simp at h
    · simp at h
  case fail k =>
    split at h
    · split at h
      · cases h; exact .fail ‹_› ‹_›
      · simp at h
    · simp at h
  case earlyNil k =>
    split at h
    · split at h
      · simp at h; subst h; exact .earlyNil ‹_› ‹_›
      · simp at h
    · simp at h
  case signal s => cases h; exact .signal
  case recvSig =>
    split at h
    · simp at h; subst h; exact .recvSig ‹_› ‹_›
    · simp at h
  case setTerm =>
    split at h
    · split at h
      · simp at h; subst h; exact .setTerm ‹_› ‹_›
      · simp at h
    · simp at h
  case notifyStopping =>
    split at h
    · split at h
      · simp at h; subst h; exact .notifyStopping ‹_› ‹_›
      · simp at h
    · simp at h
  case cancel =>
    split at h
    · split at h
      · simp at h; subst h; exact .cancel ‹_› (‹_ ∧ _›).1 (‹_ ∧ _›).2
      · simp at h
    · simp at h
  case sigReturn =>
    split at h
    · split at h
      · simp at h; subst h; exact .sigReturnW ‹_› ‹_›
      · simp at h
    · simp at h; subst h; exact .sigReturnG ‹_›
    · simp at h
  case observeCancel k b =>
    split at h
    · split at h
      · simp at h; subst h
        rename_i hg
        exact .observeCancel ‹_› hg.1 hg.2.1 hg.2.2
      · simp at h
    · simp at h
  case ret k err =>
    split at h
    · split at h
      · cases h; exact .ret ‹_› ‹_›
      · simp at h
    · simp at h
  case announceReady =>
    split at h
    · simp at h; subst h; rename_i hg; exact .announceReady hg.1 hg.2
    · simp at h
  case serveReturn e =>
    split at h
    · simp at h; subst h; rename_i hg
      obtain ⟨h1, h2, h3, h4⟩ := hg
      subst h4
      exact .serveReturn h1 h2 h3
    · simp at h


theorem setFirst_true : setFirst = true := by decide
theorem notifyFirst_true : notifyFirst = true := by decide

/-! ### invariants linking the state to the trace that led to it -/

structure InvCtx (n : Nat) (tr : List Event) (st : State) : Prop where
  len : st.tasks.length = n
  cause : st.ctxDone = true → (∃ k, Event.fail k ∈ tr) ∨ Event.cancel ∈ tr
  failCtx : ∀ k, Event.fail k ∈ tr → st.ctxDone = true
  cancelCtx : Event.cancel ∈ tr → st.ctxDone = true
  ferr : st.firstErr = firstErrOf tr

theorem InvCtx.init (n : Nat) : InvCtx n [] (init n) := by
  constructor <;> simp [Model.Server.init, firstErrOf]

theorem InvCtx.step {n : Nat} {tr : List Event} {st st' : State} {e : Event}
    (hi : InvCtx n tr st) (hs : Step st e st') : InvCtx n (tr ++ [e]) st' := by
  obtain ⟨h1, h2, h3, h4, h5⟩ := hi
  cases hs
  case ret k t err ha hb =>
    cases err <;> constructor <;>
      (try simp_all [setPc, firstErrOf, errOf, List.findSome?_append]) <;> (try assumption)
  all_goals
    constructor <;>
      (try simp_all [setPc, firstErrOf, errOf, List.findSome?_append]) <;> (try assumption)

structure InvSig (tr : List Event) (st : State) : Prop where
  wait : st.sigPc = .waiting → st.pending = firstSignal tr
  got : ∀ s d n c, st.sigPc = .got s d n c →
    firstSignal tr = some s ∧ (d = true → Event.setTerm ∈ tr ∧ st.term = some (isTerminal s)) ∧
      (c = true → st.ctxDone = true)
  retd : st.sigPc = .returned → st.ctxDone = true

theorem InvSig.init (n : Nat) : InvSig [] (init n) := by
  constructor <;> simp [Model.Server.init, firstSignal]

theorem InvSig.step {tr : List Event} {st st' : State} {e : Event}
    (hi : InvSig tr st) (hs : Step st e st') : InvSig (tr ++ [e]) st' := by
  obtain ⟨h1, h2, h3⟩ := hi
  cases hs <;> constructor <;>
    (try simp_all [setPc, firstSignal, sigOf, List.findSome?_append]) <;> (try assumption)

/-- `Run` of task `k` has returned somewhere in `tr` -/
def Exited (k : Nat) (tr : List Event) : Prop :=
  (∃ e, Event.ret k e ∈ tr) ∨ Event.fail k ∈ tr ∨ Event.earlyNil k ∈ tr

structure InvTask (tr : List Event) (st : State) : Prop where
  ready : ∀ k t, st.tasks[k]? = some t → t.ready = true → Event.ready k ∈ tr
  retd : ∀ k t, st.tasks[k]? = some t → t.pc.isReturned = true → Exited k tr

theorem InvTask.init (n : Nat) : InvTask [] (init n) := by
  constructor
  · intro k t h hr
    simp [Model.Server.init, List.getElem?_replicate] at h
    obtain ⟨_, rfl⟩ := h
    simp at hr
  · intro k t h hr
    simp [Model.Server.init, List.getElem?_replicate] at h
    obtain ⟨_, rfl⟩ := h
    simp [Pc.isReturned] at hr

theorem Exited.mono {k : Nat} {tr : List Event} (e : Event) (h : Exited k tr) : Exited k (tr ++ [e]) := by
  rcases h with ⟨x, h⟩ | h | h
  · exact .inl ⟨x, by simp [h]⟩
  · exact .inr (.inl (by simp [h]))
  · exact .inr (.inr (by simp [h]))

theorem InvTask.step {tr : List Event} {st st' : State} {e : Event}
    (hi : InvTask tr st) (hs : Step st e st') : InvTask (tr ++ [e]) st' := by
  obtain ⟨h1, h2⟩ := hi
  have m1 : ∀ k t, st.tasks[k]? = some t → t.ready = true → Event.ready k ∈ tr ++ [e] :=
    fun k t a b => by simp [h1 k t a b]
  have m2 : ∀ k t, st.tasks[k]? = some t → t.pc.isReturned = true → Exited k (tr ++ [e]) :=
    fun k t a b => (h2 k t a b).mono e
  cases hs
  case signal | recvSig | setTerm | notifyStopping | cancel | sigReturnW | sigReturnG | announceReady | serveReturn =>
    exact ⟨m1, m2⟩
  all_goals
    rename_i k t _ _
    constructor
    · intro j u hj hr
      simp only [setPc, List.getElem?_set] at hj
      split at hj
      · split at hj
        · cases hj; subst_vars; first | (simp_all; done) | exact m1 _ _ ‹_› (by simpa using hr)
        · simp at hj
      · exact m1 j u hj hr
    · intro j u hj hr
      simp only [setPc, List.getElem?_set] at hj
      split at hj
      · split at hj
        · cases hj; subst_vars
          first
            | (simp_all [Pc.isReturned]; done)
            | exact .inl ⟨_, List.mem_append_right _ (List.mem_singleton.mpr rfl)⟩
            | (refine .inr (.inl ?_); simp; done)
            | (refine .inr (.inr ?_); simp; done)
        · simp at hj
      · exact m2 j u hj hr

structure Inv (n : Nat) (tr : List Event) (st : State) : Prop where
  ctx : InvCtx n tr st
  sig : InvSig tr st
  task : InvTask tr st

theorem inv_of_run {n : Nat} {tr : List Event} {st : State} (h : run? (init n) tr = some st) :
    Inv n tr st := by
  refine reach_ind (n := n) (fun tr st => Inv n tr st) ⟨.init n, .init n, .init n⟩ ?_ tr st h
  intro tr st e st' _ hi hs
  have hs := step_of_step? hs
  exact ⟨hi.ctx.step hs, hi.sig.step hs, hi.task.step hs⟩

/-- the terminator holds `v` and `t.t.set` cannot run (again) -/
def TermFixed (st : State) (v : Bool) : Prop :=
  st.term = some v ∧ st.sigPc ≠ .waiting ∧ ∀ s n c, st.sigPc ≠ .got s false n c

theorem TermFixed.step {st st' : State} {e : Event} {v : Bool}
    (h : TermFixed st v) (hs : Step st e st') : TermFixed st' v := by
  obtain ⟨h1, h2, h3⟩ := h
  cases hs
  case notifyStopping s d c ha hb =>
    refine ⟨h1, by simp, ?_⟩
    intro s' n' c' hc
    simp only [SigPc.got.injEq] at hc
    obtain ⟨rfl, rfl, _, rfl⟩ := hc
    exact h3 _ _ _ ha
  all_goals (try simp_all [TermFixed, setPc]) <;> (try exact ⟨h1, h2, h3⟩)

theorem TermFixed.run {st st' : State} {l : List Event} {v : Bool}
    (h : TermFixed st v) (hr : run? st l = some st') : TermFixed st' v := by
  induction l generalizing st with
  | nil => simp [run?] at hr; subst hr; exact h
  | cons e l ih =>
    simp only [run?] at hr
    cases h2 : step? st e with
    | none => simp [h2] at hr
    | some s2 => simp only [h2] at hr; exact ih (h.step (step_of_step? h2)) hr

/-- split a run from the initial state at an event: the state before it and the step -/
theorem run_at {n : Nat} {pre post : List Event} {e : Event} {st : State}
    (h : run? (init n) (pre ++ e :: post) = some st) :
    ∃ s1 s2, run? (init n) pre = some s1 ∧ Inv n pre s1 ∧ Step s1 e s2 ∧ run? s2 post = some st := by
  obtain ⟨s1, s2, h1, h2, h3⟩ := run?_split h
  exact ⟨s1, s2, h1, inv_of_run h1, step_of_step? h2, h3⟩

theorem allReady_get {st : State} (h : allReady st = true) {k : Nat} (hk : k < st.tasks.length) :
    ∃ t, st.tasks[k]? = some t ∧ t.ready = true := by
  refine ⟨st.tasks[k], by simp, ?_⟩
  simp only [allReady, List.all_eq_true] at h
  exact h _ (List.getElem_mem hk)

theorem allReturned_get {st : State} (h : allReturned st = true) {k : Nat} (hk : k < st.tasks.length) :
    ∃ t, st.tasks[k]? = some t ∧ t.pc.isReturned = true := by
  refine ⟨st.tasks[k], by simp, ?_⟩
  simp only [allReturned, List.all_eq_true] at h
  exact h _ (List.getElem_mem hk)

theorem firstErrOf_eq_none {tr : List Event} :
    firstErrOf tr = none ↔ (∀ k, Event.fail k ∉ tr) ∧ (∀ k, Event.ret k true ∉ tr) := by
  simp only [firstErrOf, List.findSome?_eq_none_iff]
  constructor
  · intro h
    exact ⟨fun k hk => by simpa [errOf] using h _ hk, fun k hk => by simpa [errOf] using h _ hk⟩
  · rintro ⟨h1, h2⟩ x hx
    cases x <;> simp [errOf]
    case fail k => exact h1 k hx
    case ret k err => cases err <;> simp; exact h2 k hx

theorem firstSignal_mem {tr : List Event} {s : Sig} (h : firstSignal tr = some s) :
    Event.signal s ∈ tr := by
  simp only [firstSignal] at h
  obtain ⟨x, hx, hs⟩ := List.exists_of_findSome?_eq_some h
  cases x <;> simp [sigOf] at hs
  subst hs; exact hx

/-! ### the oracle's quantifier, the projection to observable events, the τ-closure -/

theorem allPrefix_iff (p : List Event → Event → Bool) (acc tr : List Event) :
    allPrefix p acc tr = true ↔ ∀ pre e post, tr = pre ++ e :: post → p (acc ++ pre) e = true := by
  induction tr generalizing acc with
  | nil => simp [allPrefix]
  | cons x r ih =>
    simp only [allPrefix, Bool.and_eq_true, ih]
    constructor
    · rintro ⟨h0, h1⟩ pre e post heq
      cases pre with
      | nil => simp at heq; obtain ⟨rfl, rfl⟩ := heq; simpa using h0
      | cons y pre =>
        simp at heq; obtain ⟨rfl, rfl⟩ := heq
        simpa using h1 pre e post rfl
    · intro h
      refine ⟨by simpa using h [] x r rfl, ?_⟩
      intro pre e post heq
      subst heq
      simpa using h (x :: pre) e post rfl

theorem findSome?_filter_of {α β : Type} (f : α → Option β) (p : α → Bool)
    (hp : ∀ a, p a = false → f a = none) (l : List α) :
    (l.filter p).findSome? f = l.findSome? f := by
  induction l with
  | nil => rfl
  | cons a l ih =>
    by_cases h : p a = true
    · simp [h, List.findSome?_cons, ih]
    · have h' : p a = false := by simpa using h
      simp [h', ih, hp a h']

theorem any_filter_of {α : Type} (q p : α → Bool) (hp : ∀ a, p a = false → q a = false) (l : List α) :
    (l.filter p).any q = l.any q := by
  induction l with
  | nil => rfl
  | cons a l ih =>
    by_cases h : p a = true
    · simp [h, ih]
    · have h' : p a = false := by simpa using h
      simp [h', ih, hp a h']

theorem clause_filter (n : Nat) (pre : List Event) (e : Event) :
    clause n (pre.filter Event.observable) e = clause n pre e := by
  have hex : ∀ k, (pre.filter Event.observable).any (isExitOf k) = pre.any (isExitOf k) :=
    fun k => any_filter_of _ _ (fun a h => by cases a <;> simp_all [Event.observable, isExitOf]) pre
  have hfail : (pre.filter Event.observable).any isFail = pre.any isFail :=
    any_filter_of _ _ (fun a h => by cases a <;> simp_all [Event.observable, isFail]) pre
  have herr : firstErrOf (pre.filter Event.observable) = firstErrOf pre :=
    findSome?_filter_of _ _ (fun a h => by cases a <;> simp_all [Event.observable, errOf]) pre
  have hsig : firstSignal (pre.filter Event.observable) = firstSignal pre :=
    findSome?_filter_of _ _ (fun a h => by cases a <;> simp_all [Event.observable, sigOf]) pre
  have hrd : ∀ k, (pre.filter Event.observable).contains (Event.ready k) = pre.contains (Event.ready k) := by
    intro k
    rw [Bool.eq_iff_iff]
    simp [List.mem_filter, Event.observable]
  cases e <;> simp only [clause, hex, hfail, herr, hsig, hrd]

theorem tauRound_sound {ss : List State} {x : State} (h : x ∈ tauRound ss) :
    ∃ s, s ∈ ss ∧ ∃ l, (∀ e ∈ l, Event.observable e = false) ∧ run? s l = some x := by
  simp only [tauRound, List.mem_eraseDups, List.mem_append, List.mem_flatMap, List.mem_filterMap] at h
  rcases h with h | ⟨s, hs, e, he, hx⟩
  · exact ⟨x, h, [], by simp, rfl⟩
  · refine ⟨s, hs, [e], ?_, by simp [run?, hx]⟩
    intro e' he'
    simp at he'; subst he'
    simp [taus] at he
    rcases he with rfl | rfl | rfl | rfl <;> rfl

theorem tau_chain {ss : List State} {x : State}
    (h : ∃ s, s ∈ tauRound ss ∧ ∃ l, (∀ e ∈ l, Event.observable e = false) ∧ run? s l = some x) :
    ∃ s, s ∈ ss ∧ ∃ l, (∀ e ∈ l, Event.observable e = false) ∧ run? s l = some x := by
  obtain ⟨s, hs, l, hl, hr⟩ := h
  obtain ⟨s0, hs0, l0, hl0, hr0⟩ := tauRound_sound hs
  refine ⟨s0, hs0, l0 ++ l, ?_, by simp [run?_append, hr0, hr]⟩
  intro e he
  rcases List.mem_append.mp he with h | h
  · exact hl0 e h
  · exact hl e h

theorem tauClose_sound {ss : List State} {x : State} (h : x ∈ tauClose ss) :
    ∃ s, s ∈ ss ∧ ∃ l, (∀ e ∈ l, Event.observable e = false) ∧ run? s l = some x := by
  unfold tauClose at h
  exact tau_chain (tau_chain (tau_chain (tauRound_sound h)))

theorem filter_taus {l : List Event} (h : ∀ e ∈ l, Event.observable e = false) :
    l.filter Event.observable = [] := by
  simp [List.filter_eq_nil_iff]
  intro a ha; simp [h a ha]

theorem rejectedAt_sound (obs : List Event) (hobs : ∀ e ∈ obs, Event.observable e = true) :
    ∀ (ss : List State) (i : Nat), ss ≠ [] → rejectedAt ss i obs = none →
      ∃ s, s ∈ ss ∧ ∃ tr st, run? s tr = some st ∧ tr.filter Event.observable = obs := by
  induction obs with
  | nil =>
    intro ss i hne _
    cases ss with
    | nil => exact absurd rfl hne
    | cons s _ => exact ⟨s, by simp, [], s, rfl, rfl⟩
  | cons e es ih =>
    intro ss i _ h
    simp only [rejectedAt] at h
    split at h
    · simp at h
    · rename_i ss' hne'
      have hne'' : obsStep ss e ≠ [] := hne'
      obtain ⟨s', hs', tr', st, hr', hf'⟩ :=
        ih (fun x hx => hobs x (List.mem_cons_of_mem _ hx)) (obsStep ss e) (i + 1) hne'' h
      simp only [obsStep, List.mem_eraseDups, List.mem_filterMap] at hs'
      obtain ⟨s'', hs'', hstep⟩ := hs'
      obtain ⟨s, hs, l, hl, hr⟩ := tauClose_sound hs''
      refine ⟨s, hs, l ++ e :: tr', st, ?_, ?_⟩
      · simp [run?_append, hr, run?, hstep, hr']
      · have he : Event.observable e = true := hobs e (by simp)
        simp [List.filter_append, filter_taus hl, he, hf']
end Corerad.Model.Server
