import Corerad.Model.ListUtil

set_option linter.unusedSectionVars false

namespace Corerad.Model

variable {α : Type} [DecidableEq α]

@[simp] theorem mem_dedupe {x : α} {l : List α} : x ∈ dedupe l ↔ x ∈ l := by
  induction l with
  | nil => simp [dedupe]
  | cons y ys ih =>
    simp only [dedupe, List.mem_cons, List.mem_filter, ih, decide_eq_true_eq]
    by_cases h : x = y <;> simp [h]

theorem nodup_dedupe (l : List α) : (dedupe l).Nodup := by
  induction l with
  | nil => simp [dedupe]
  | cons y ys ih =>
    simp only [dedupe, List.nodup_cons, List.mem_filter, decide_eq_true_eq]
    exact ⟨fun h => h.2 rfl, List.Pairwise.filter _ ih⟩

@[simp] theorem mem_insertBy {key : α → Nat} {x y : α} {l : List α} :
    y ∈ insertBy key x l ↔ y = x ∨ y ∈ l := by
  induction l with
  | nil => simp [insertBy]
  | cons z zs ih =>
    simp only [insertBy]
    split
    · simp
    · simp only [List.mem_cons, ih]
      constructor
      · rintro (h | h | h) <;> simp [h]
      · rintro (h | h | h) <;> simp [h]

@[simp] theorem mem_sortBy {key : α → Nat} {y : α} {l : List α} : y ∈ sortBy key l ↔ y ∈ l := by
  induction l with
  | nil => simp [sortBy]
  | cons z zs ih => simp [sortBy, ih]

theorem insertBy_perm (key : α → Nat) (x : α) (l : List α) : (insertBy key x l).Perm (x :: l) := by
  induction l with
  | nil => simp [insertBy]
  | cons z zs ih =>
    simp only [insertBy]
    split
    · exact List.Perm.refl _
    · exact (List.Perm.cons z ih).trans (List.Perm.swap x z zs)

theorem sortBy_perm (key : α → Nat) (l : List α) : (sortBy key l).Perm l := by
  induction l with
  | nil => simp [sortBy]
  | cons z zs ih => exact (insertBy_perm key z _).trans (List.Perm.cons z ih)

theorem nodup_sortBy {key : α → Nat} {l : List α} (h : l.Nodup) : (sortBy key l).Nodup :=
  (sortBy_perm key l).nodup_iff.mpr h

theorem sorted_insertBy {key : α → Nat} {x : α} {l : List α}
    (h : l.Pairwise (fun a b => key a ≤ key b)) :
    (insertBy key x l).Pairwise (fun a b => key a ≤ key b) := by
  induction l with
  | nil => simp [insertBy]
  | cons z zs ih =>
    simp only [insertBy]
    rw [List.pairwise_cons] at h
    split
    · rename_i hle
      rw [List.pairwise_cons]
      refine ⟨?_, List.pairwise_cons.mpr h⟩
      intro a ha
      rcases List.mem_cons.mp ha with rfl | ha
      · exact hle
      · exact Nat.le_trans hle (h.1 a ha)
    · rename_i hnle
      rw [List.pairwise_cons]
      refine ⟨?_, ih h.2⟩
      intro a ha
      rcases mem_insertBy.mp ha with rfl | ha
      · omega
      · exact h.1 a ha

theorem sorted_sortBy (key : α → Nat) (l : List α) :
    (sortBy key l).Pairwise (fun a b => key a ≤ key b) := by
  induction l with
  | nil => simp [sortBy]
  | cons z zs ih => exact sorted_insertBy ih

/-- A sorted list without duplicates whose key is injective on its elements is strictly
    sorted. -/
theorem strict_of_sorted_nodup {key : α → Nat} {l : List α}
    (hs : l.Pairwise (fun a b => key a ≤ key b)) (hn : l.Nodup)
    (hinj : ∀ a ∈ l, ∀ b ∈ l, key a = key b → a = b) :
    l.Pairwise (fun a b => key a < key b) := by
  induction l with
  | nil => simp
  | cons z zs ih =>
    rw [List.pairwise_cons] at hs ⊢
    rw [List.nodup_cons] at hn
    refine ⟨?_, ih hs.2 hn.2 (fun a ha b hb => hinj a (List.mem_cons_of_mem _ ha) b (List.mem_cons_of_mem _ hb))⟩
    intro a ha
    have hle := hs.1 a ha
    have hne : key z ≠ key a := fun h =>
      hn.1 (by rw [hinj z (List.mem_cons_self) a (List.mem_cons_of_mem _ ha) h]; exact ha)
    omega

/-- Two strictly sorted lists with the same elements are equal. -/
theorem eq_of_strict_sorted {key : α → Nat} :
    ∀ {l₁ l₂ : List α}, l₁.Pairwise (fun a b => key a < key b) →
      l₂.Pairwise (fun a b => key a < key b) → (∀ x, x ∈ l₁ ↔ x ∈ l₂) → l₁ = l₂
  | [], [], _, _, _ => rfl
  | [], y :: ys, _, _, h => absurd ((h y).mpr List.mem_cons_self) (by simp)
  | x :: xs, [], _, _, h => absurd ((h x).mp List.mem_cons_self) (by simp)
  | x :: xs, y :: ys, h₁, h₂, h => by
    rw [List.pairwise_cons] at h₁ h₂
    have hxy : x = y := by
      have hx := (h x).mp List.mem_cons_self
      have hy := (h y).mpr List.mem_cons_self
      rcases List.mem_cons.mp hx with hx | hx
      · exact hx
      · rcases List.mem_cons.mp hy with hy | hy
        · exact hy.symm
        · have := h₂.1 x hx
          have := h₁.1 y hy
          omega
    subst hxy
    congr 1
    apply eq_of_strict_sorted h₁.2 h₂.2
    intro z
    constructor
    · intro hz
      have := (h z).mp (List.mem_cons_of_mem _ hz)
      rcases List.mem_cons.mp this with rfl | h'
      · have := h₁.1 z hz; omega
      · exact h'
    · intro hz
      have := (h z).mpr (List.mem_cons_of_mem _ hz)
      rcases List.mem_cons.mp this with rfl | h'
      · have := h₂.1 z hz; omega
      · exact h'

end Corerad.Model
