/-
  Helper vocabulary and lemmas for C19 (Props/C19.lean).

  The model visits the subscriber list once per change (`List.map`); everything about one
  subscriber is obtained by projecting the run onto its index: `notify` is `map (deliverSet · cs)`,
  `endWatch` is a `map`, `subscribe` appends at the end, `drain` sets one index.
-/
import Corerad.Spec.C19

namespace Corerad.Model.Watcher

open Corerad Corerad.Spec.C19

/-! ### vocabulary used in the statements -/

/-- one subscriber, all changes of one interface entry of a change set -/
def deliverList (i : Nat) (s : Sub) (l : List Nat) : Sub := l.foldl (fun s c => deliver i c s) s

/-- one subscriber, one whole `notify` call -/
def deliverSet (s : Sub) (cs : List (Nat × List Nat)) : Sub :=
  cs.foldl (fun s e => deliverList e.1 s e.2) s

/-- the matching changes for a subscriber `(iface, mask)` in a history, in order of occurrence -/
def offered (iface mask : Nat) : List Op → List Nat
  | [] => []
  | .notify cs :: ops => (cs.flatMap fun e => e.2.filter (wants iface mask e.1)) ++ offered iface mask ops
  | .subscribe _ _ :: ops => offered iface mask ops
  | .drain _ _ :: ops => offered iface mask ops
  | .endWatch :: ops => offered iface mask ops

/-- everything subscriber `j` received in the `drain` operations of `ops` (observations `obs`) -/
def receivedBy (j : Nat) : List Op → List Obs → List Nat
  | [], _ => []
  | .drain id _ :: ops, o :: obs => (if id = j then o.got else []) ++ receivedBy j ops obs
  | .drain _ _ :: ops, [] => receivedBy j ops []
  | .subscribe _ _ :: ops, obs => receivedBy j ops obs
  | .notify _ :: ops, obs => receivedBy j ops obs
  | .endWatch :: ops, obs => receivedBy j ops obs

/-- what is still buffered for subscriber `j` -/
def bufAt (j : Nat) (st : State) : List Nat := (st[j]?.map (·.buf)).getD []

/-- number of `subscribe` operations -/
def nsubs : List Op → Nat
  | [] => 0
  | .subscribe _ _ :: ops => nsubs ops + 1
  | _ :: ops => nsubs ops

/-- per subscriber, how often its channel has been closed -/
def closesOf (st : State) : List Nat := st.map (·.closes)

theorem cap_eq : cap = 8 := rfl

/-! ### `deliver` -/

theorem wants_iff (iface mask i c : Nat) :
    wants iface mask i c = true ↔ iface = i ∧ mask &&& c ≠ 0 := by
  unfold wants
  simp only [Bool.and_eq_true, beq_iff_eq, bne_iff_ne, ne_eq]
  constructor
  · rintro ⟨h, h'⟩; exact ⟨h.symm, h'⟩
  · rintro ⟨h, h'⟩; exact ⟨h.symm, h'⟩

theorem deliver_of_not_wants {i c : Nat} {s : Sub} (h : wants s.iface s.mask i c = false) :
    deliver i c s = s := by
  unfold deliver
  by_cases h1 : s.iface = i
  · by_cases h2 : s.mask &&& c = 0
    · simp [h1, h2]
    · have : wants s.iface s.mask i c = true := (wants_iff _ _ _ _).mpr ⟨h1, h2⟩
      simp [this] at h
  · simp [h1]

theorem deliver_of_wants {i c : Nat} {s : Sub} (h : wants s.iface s.mask i c = true) :
    deliver i c s = if s.buf.length < 8 then { s with buf := s.buf ++ [c] } else s := by
  obtain ⟨h1, h2⟩ := (wants_iff _ _ _ _).mp h
  unfold deliver
  simp [h1, h2, cap_eq]

@[simp] theorem deliver_iface (i c : Nat) (s : Sub) : (deliver i c s).iface = s.iface := by
  unfold deliver
  by_cases h1 : s.iface ≠ i <;> by_cases h2 : s.mask &&& c = 0 <;> by_cases h3 : s.buf.length < cap <;>
    simp [h1, h2, h3]

@[simp] theorem deliver_mask (i c : Nat) (s : Sub) : (deliver i c s).mask = s.mask := by
  unfold deliver
  by_cases h1 : s.iface ≠ i <;> by_cases h2 : s.mask &&& c = 0 <;> by_cases h3 : s.buf.length < cap <;>
    simp [h1, h2, h3]

@[simp] theorem deliver_closes (i c : Nat) (s : Sub) : (deliver i c s).closes = s.closes := by
  unfold deliver
  by_cases h1 : s.iface ≠ i <;> by_cases h2 : s.mask &&& c = 0 <;> by_cases h3 : s.buf.length < cap <;>
    simp [h1, h2, h3]

theorem deliver_buf (i c : Nat) (s : Sub) :
    (deliver i c s).buf = s.buf ++ [c] ∨ (deliver i c s).buf = s.buf := by
  unfold deliver
  by_cases h1 : s.iface ≠ i <;> by_cases h2 : s.mask &&& c = 0 <;> by_cases h3 : s.buf.length < cap <;>
    simp [h1, h2, h3]

theorem deliver_bounded (i c : Nat) (s : Sub) (h : s.buf.length ≤ 8) : (deliver i c s).buf.length ≤ 8 := by
  unfold deliver
  split
  · exact h
  · split
    · exact h
    · split
      · rename_i h3; rw [cap_eq] at h3; simp; omega
      · exact h

@[simp] theorem closed_deliver (i c : Nat) (s : Sub) : (deliver i c s).closed = s.closed := by
  unfold Sub.closed; rw [deliver_closes]

/-! ### `deliverList`, `deliverSet` -/

@[simp] theorem deliverList_nil (i : Nat) (s : Sub) : deliverList i s [] = s := rfl
@[simp] theorem deliverList_cons (i c : Nat) (s : Sub) (l : List Nat) :
    deliverList i s (c :: l) = deliverList i (deliver i c s) l := rfl
@[simp] theorem deliverSet_nil (s : Sub) : deliverSet s [] = s := rfl
@[simp] theorem deliverSet_cons (s : Sub) (e : Nat × List Nat) (cs : List (Nat × List Nat)) :
    deliverSet s (e :: cs) = deliverSet (deliverList e.1 s e.2) cs := rfl

@[simp] theorem deliverList_iface (i : Nat) (s : Sub) (l : List Nat) : (deliverList i s l).iface = s.iface := by
  induction l generalizing s with
  | nil => rfl
  | cons c l ih => simp [ih]

@[simp] theorem deliverList_mask (i : Nat) (s : Sub) (l : List Nat) : (deliverList i s l).mask = s.mask := by
  induction l generalizing s with
  | nil => rfl
  | cons c l ih => simp [ih]

@[simp] theorem deliverList_closes (i : Nat) (s : Sub) (l : List Nat) : (deliverList i s l).closes = s.closes := by
  induction l generalizing s with
  | nil => rfl
  | cons c l ih => simp [ih]

@[simp] theorem deliverSet_iface (s : Sub) (cs : List (Nat × List Nat)) : (deliverSet s cs).iface = s.iface := by
  induction cs generalizing s with
  | nil => rfl
  | cons e cs ih => simp [ih]

@[simp] theorem deliverSet_mask (s : Sub) (cs : List (Nat × List Nat)) : (deliverSet s cs).mask = s.mask := by
  induction cs generalizing s with
  | nil => rfl
  | cons e cs ih => simp [ih]

@[simp] theorem deliverSet_closes (s : Sub) (cs : List (Nat × List Nat)) : (deliverSet s cs).closes = s.closes := by
  induction cs generalizing s with
  | nil => rfl
  | cons e cs ih => simp [ih]

theorem deliverList_bounded (i : Nat) (s : Sub) (l : List Nat) (h : s.buf.length ≤ 8) :
    (deliverList i s l).buf.length ≤ 8 := by
  induction l generalizing s with
  | nil => exact h
  | cons c l ih => exact ih _ (deliver_bounded i c s h)

theorem deliverSet_bounded (s : Sub) (cs : List (Nat × List Nat)) (h : s.buf.length ≤ 8) :
    (deliverSet s cs).buf.length ≤ 8 := by
  induction cs generalizing s with
  | nil => exact h
  | cons e cs ih => exact ih _ (deliverList_bounded e.1 s e.2 h)

/-- one interface entry appends a subsequence of its matching changes -/
theorem deliverList_sublist (i : Nat) (s : Sub) (l : List Nat) :
    ∃ l₁, l₁.Sublist (l.filter (wants s.iface s.mask i)) ∧ (deliverList i s l).buf = s.buf ++ l₁ := by
  induction l generalizing s with
  | nil => exact ⟨[], List.Sublist.refl _, by simp⟩
  | cons c l ih =>
    obtain ⟨l₁, hsub, hbuf⟩ := ih (deliver i c s)
    rw [deliver_iface, deliver_mask] at hsub
    rw [deliverList_cons, hbuf]
    by_cases hw : wants s.iface s.mask i c = true
    · rw [List.filter_cons_of_pos hw]
      rcases deliver_buf i c s with hb | hb
      · exact ⟨c :: l₁, hsub.cons_cons c, by rw [hb]; simp⟩
      · exact ⟨l₁, hsub.cons c, by rw [hb]⟩
    · have hw' : wants s.iface s.mask i c = false := by simpa using hw
      rw [List.filter_cons_of_neg hw, deliver_of_not_wants hw']
      exact ⟨l₁, hsub, rfl⟩

/-- the matching changes of one `notify` call for a subscriber -/
def offeredSet (iface mask : Nat) (cs : List (Nat × List Nat)) : List Nat :=
  cs.flatMap fun e => e.2.filter (wants iface mask e.1)

theorem deliverSet_sublist (s : Sub) (cs : List (Nat × List Nat)) :
    ∃ l₁, l₁.Sublist (offeredSet s.iface s.mask cs) ∧ (deliverSet s cs).buf = s.buf ++ l₁ := by
  induction cs generalizing s with
  | nil => exact ⟨[], List.Sublist.refl _, by simp⟩
  | cons e cs ih =>
    obtain ⟨l₂, hsub₂, hbuf₂⟩ := ih (deliverList e.1 s e.2)
    obtain ⟨l₁, hsub₁, hbuf₁⟩ := deliverList_sublist e.1 s e.2
    rw [deliverList_iface, deliverList_mask] at hsub₂
    refine ⟨l₁ ++ l₂, ?_, ?_⟩
    · unfold offeredSet; rw [List.flatMap_cons]; exact hsub₁.append hsub₂
    · rw [deliverSet_cons, hbuf₂, hbuf₁, List.append_assoc]

/-- if room is left afterwards, nothing was dropped -/
theorem deliverList_exact (i : Nat) (s : Sub) (l : List Nat) (h : (deliverList i s l).buf.length < 8) :
    (deliverList i s l).buf = s.buf ++ l.filter (wants s.iface s.mask i) := by
  induction l generalizing s with
  | nil => simp
  | cons c l ih =>
    rw [deliverList_cons] at h ⊢
    have h1 := ih _ h
    rw [deliver_iface, deliver_mask] at h1
    obtain ⟨l₁, _, hb⟩ := deliverList_sublist i (deliver i c s) l
    have hlen : (deliver i c s).buf.length < 8 := by rw [hb] at h; simp at h; omega
    by_cases hw : wants s.iface s.mask i c = true
    · rw [List.filter_cons_of_pos hw, h1]
      have hs : s.buf.length < 8 := by
        rcases deliver_buf i c s with hb' | hb' <;> rw [hb'] at hlen <;> (try simp at hlen) <;> omega
      rw [deliver_of_wants hw]; simp [hs]
    · have hw' : wants s.iface s.mask i c = false := by simpa using hw
      rw [List.filter_cons_of_neg hw, h1, deliver_of_not_wants hw']

theorem deliverSet_exact (s : Sub) (cs : List (Nat × List Nat)) (h : (deliverSet s cs).buf.length < 8) :
    (deliverSet s cs).buf = s.buf ++ offeredSet s.iface s.mask cs := by
  induction cs generalizing s with
  | nil => simp [offeredSet]
  | cons e cs ih =>
    rw [deliverSet_cons] at h ⊢
    have h1 := ih _ h
    rw [deliverList_iface, deliverList_mask] at h1
    obtain ⟨l₁, _, hb⟩ := deliverSet_sublist (deliverList e.1 s e.2) cs
    have hlen : (deliverList e.1 s e.2).buf.length < 8 := by rw [hb] at h; simp at h; omega
    rw [h1, deliverList_exact e.1 s e.2 hlen]
    unfold offeredSet; rw [List.flatMap_cons, List.append_assoc]

/-! ### the operations as maps over the subscriber list -/

theorem notifyIface_eq_map (st : State) (e : Nat × List Nat) :
    notifyIface st e = st.map (fun s => deliverList e.1 s e.2) := by
  obtain ⟨i, l⟩ := e
  unfold notifyIface
  simp only
  induction l generalizing st with
  | nil => simp
  | cons c l ih =>
    rw [List.foldl_cons, ih]
    unfold notifyChange
    rw [List.map_map]
    rfl

theorem notify_eq_map (st : State) (cs : List (Nat × List Nat)) :
    notify st cs = st.map (fun s => deliverSet s cs) := by
  unfold notify
  induction cs generalizing st with
  | nil => simp
  | cons e cs ih =>
    rw [List.foldl_cons, ih, notifyIface_eq_map, List.map_map]
    rfl

theorem drain_length (st : State) (id n : Nat) : (drain st id n).1.length = st.length := by
  unfold drain; split <;> simp

theorem step_length_of_not_subscribe (st : State) (op : Op) (h : ∀ i m, op ≠ .subscribe i m) :
    (step st op).1.length = st.length := by
  cases op with
  | subscribe i m => exact absurd rfl (h i m)
  | notify cs => simp [step, notify_eq_map]
  | drain id n => simp [step, drain_length]
  | endWatch => simp [step, endWatch]

theorem run_cons (st : State) (op : Op) (ops : List Op) :
    run st (op :: ops) = ((run (step st op).1 ops).1, (step st op).2 ++ (run (step st op).1 ops).2) := rfl

theorem run_append (st : State) (a b : List Op) :
    run st (a ++ b) = ((run (run st a).1 b).1, (run st a).2 ++ (run (run st a).1 b).2) := by
  induction a generalizing st with
  | nil => simp [run]
  | cons op a ih => simp only [List.cons_append, run_cons, ih, List.append_assoc]

/-- subscriber `j` across one `drain` -/
theorem drain_getElem? (st : State) (id n j : Nat) (s : Sub) (h : st[j]? = some s) :
    (drain st id n).1[j]? = some (if id = j then (drainSub n s).1 else s) ∧
    (id = j → (drain st id n).2 = (drainSub n s).2) := by
  unfold drain
  by_cases hid : id = j
  · subst hid
    have hlt : id < st.length := by
      rcases List.getElem?_eq_some_iff.mp h with ⟨hlt, _⟩; exact hlt
    simp [h, List.getElem?_set_self hlt]
  · cases hs : st[id]? with
    | none => simp [hid, h]
    | some s' => simp [hid, List.getElem?_set_ne hid, h]

/-! ### bounded buffers -/

def Bounded (st : State) : Prop := ∀ s ∈ st, s.buf.length ≤ 8

theorem step_bounded (st : State) (op : Op) (h : Bounded st) : Bounded (step st op).1 := by
  cases op with
  | subscribe i m =>
    intro s hs
    simp only [step, subscribe, List.mem_append, List.mem_singleton] at hs
    rcases hs with hs | rfl
    · exact h s hs
    · simp
  | notify cs =>
    intro s hs
    simp only [step, notify_eq_map, List.mem_map] at hs
    obtain ⟨s₀, hs₀, rfl⟩ := hs
    exact deliverSet_bounded s₀ cs (h s₀ hs₀)
  | drain id n =>
    intro s hs
    simp only [step, drain] at hs
    split at hs
    · exact h s hs
    · rename_i s₀ hs₀
      rcases List.mem_or_eq_of_mem_set hs with hs | rfl
      · exact h s hs
      · have := h s₀ (List.mem_of_getElem? hs₀)
        simp [drainSub]; omega
  | endWatch =>
    intro s hs
    simp only [step, endWatch, List.mem_map] at hs
    obtain ⟨s₀, hs₀, rfl⟩ := hs
    exact h s₀ hs₀

theorem run_bounded (st : State) (ops : List Op) (h : Bounded st) : Bounded (run st ops).1 := by
  induction ops generalizing st with
  | nil => exact h
  | cons op ops ih => exact ih _ (step_bounded st op h)

/-! ### close counts -/

theorem closesOf_step (st : State) (op : Op) :
    closesOf (step st op).1 =
      match op with
      | .subscribe _ _ => closesOf st ++ [0]
      | .endWatch => (closesOf st).map (· + 1)
      | _ => closesOf st := by
  cases op with
  | subscribe i m => simp [step, subscribe, closesOf]
  | notify cs => simp [step, notify_eq_map, closesOf, List.map_map, Function.comp_def]
  | drain id n =>
    simp only [step, drain, closesOf]
    split
    · rfl
    · rename_i s₀ hs₀
      rw [List.map_set]
      obtain ⟨hlt, hget⟩ := List.getElem?_eq_some_iff.mp hs₀
      have : (List.map (·.closes) st)[id]'(by simpa using hlt) = (drainSub n s₀).1.closes := by
        simp [drainSub, hget]
      rw [← this, List.set_getElem_self]
  | endWatch => simp [step, endWatch, closesOf, List.map_map, Function.comp_def]

theorem closesOf_run_of_no_end (st : State) (ops : List Op) (h : Op.endWatch ∉ ops) :
    closesOf (run st ops).1 = closesOf st ++ List.replicate (nsubs ops) 0 := by
  induction ops generalizing st with
  | nil => simp [run, nsubs]
  | cons op ops ih =>
    have hop : op ≠ .endWatch := fun e => h (e ▸ List.mem_cons_self)
    have hops : Op.endWatch ∉ ops := fun e => h (List.mem_cons_of_mem _ e)
    rw [run_cons]
    simp only
    rw [ih _ hops, closesOf_step]
    cases op with
    | subscribe i m => simp [nsubs, List.replicate_succ]
    | notify cs => simp [nsubs]
    | drain id n => simp [nsubs]
    | endWatch => exact absurd rfl hop

/-! ### one subscriber along a run: what it receives -/

theorem sub_track (j : Nat) (ops : List Op) : ∀ (st : State) (s : Sub), st[j]? = some s →
    ∃ s', (run st ops).1[j]? = some s' ∧ s'.iface = s.iface ∧ s'.mask = s.mask ∧
      ∃ l, l.Sublist (offered s.iface s.mask ops) ∧
        receivedBy j ops (run st ops).2 ++ s'.buf = s.buf ++ l := by
  induction ops with
  | nil => intro st s h; exact ⟨s, h, rfl, rfl, [], List.Sublist.refl _, by simp [receivedBy]⟩
  | cons op ops ih =>
    intro st s h
    rw [run_cons]
    cases op with
    | subscribe i m =>
      have hlt : j < st.length := (List.getElem?_eq_some_iff.mp h).1
      have h1 : (step st (.subscribe i m)).1[j]? = some s := by
        simp only [step, subscribe]; rw [List.getElem?_append_left hlt]; exact h
      obtain ⟨s', hs', hi, hm, l, hl, heq⟩ := ih _ s h1
      exact ⟨s', hs', hi, hm, l, hl, by simpa [step, receivedBy, offered] using heq⟩
    | notify cs =>
      have h1 : (step st (.notify cs)).1[j]? = some (deliverSet s cs) := by
        simp [step, notify_eq_map, h]
      obtain ⟨s', hs', hi, hm, l, hl, heq⟩ := ih _ _ h1
      obtain ⟨l₁, hl₁, hb₁⟩ := deliverSet_sublist s cs
      simp only [deliverSet_iface, deliverSet_mask] at hi hm hl
      refine ⟨s', hs', hi, hm, l₁ ++ l, ?_, ?_⟩
      · simp only [offered]; exact hl₁.append hl
      · simp only [step, receivedBy, List.nil_append]
        simp only [step] at heq
        rw [heq, hb₁, List.append_assoc]
    | drain id n =>
      obtain ⟨h1, h2⟩ := drain_getElem? st id n j s h
      obtain ⟨s', hs', hi, hm, l, hl, heq⟩ := ih _ _ h1
      by_cases hid : id = j
      · simp only [hid, if_true] at hi hm hl heq hs' ⊢
        refine ⟨s', by simpa [step, hid] using hs', hi, hm, l, by simpa [offered, drainSub] using hl, ?_⟩
        have h2' := h2 hid
        simp only [step, receivedBy, List.singleton_append, if_true] at heq ⊢
        rw [hid] at h2'
        rw [h2', List.append_assoc, heq]
        simp [drainSub, ← List.append_assoc, List.take_append_drop]
      · simp only [hid, if_false] at hi hm hl heq hs' ⊢
        refine ⟨s', by simpa [step] using hs', hi, hm, l, by simpa [offered] using hl, ?_⟩
        simpa [step, receivedBy, hid] using heq
    | endWatch =>
      have h1 : (step st .endWatch).1[j]? = some { s with closes := s.closes + 1 } := by
        simp [step, endWatch, h]
      obtain ⟨s', hs', hi, hm, l, hl, heq⟩ := ih _ _ h1
      exact ⟨s', hs', hi, hm, l, by simpa [offered] using hl, by simpa [step, receivedBy] using heq⟩

theorem sub_track_exact (j : Nat) (ops : List Op) : ∀ (st : State) (s : Sub), st[j]? = some s →
    (∀ pre post, ops = pre ++ post → (bufAt j (run st pre).1).length < 8) →
    receivedBy j ops (run st ops).2 ++ bufAt j (run st ops).1 = s.buf ++ offered s.iface s.mask ops := by
  induction ops with
  | nil => intro st s h _; simp [receivedBy, run, bufAt, h, offered]
  | cons op ops ih =>
    intro st s h hroom
    have hroom' : ∀ pre post, ops = pre ++ post → (bufAt j (run (step st op).1 pre).1).length < 8 := by
      intro pre post e
      have := hroom (op :: pre) post (by rw [e]; rfl)
      rwa [run_cons] at this
    have hnow : (bufAt j (step st op).1).length < 8 := by
      have := hroom [op] ops rfl
      rwa [run_cons] at this
    rw [run_cons]
    cases op with
    | subscribe i m =>
      have hlt : j < st.length := (List.getElem?_eq_some_iff.mp h).1
      have h1 : (step st (.subscribe i m)).1[j]? = some s := by
        simp only [step, subscribe]; rw [List.getElem?_append_left hlt]; exact h
      simpa [step, receivedBy, offered] using ih _ s h1 hroom'
    | notify cs =>
      have h1 : (step st (.notify cs)).1[j]? = some (deliverSet s cs) := by
        simp [step, notify_eq_map, h]
      have := ih _ _ h1 hroom'
      rw [deliverSet_iface, deliverSet_mask] at this
      simp only [bufAt, h1, Option.map_some, Option.getD_some] at hnow
      rw [deliverSet_exact s cs hnow] at this
      simp only [step, receivedBy, offered, List.nil_append]
      simp only [step] at this
      rw [this, List.append_assoc]
      rfl
    | drain id n =>
      obtain ⟨h1, h2⟩ := drain_getElem? st id n j s h
      have := ih _ _ h1 hroom'
      by_cases hid : id = j
      · simp only [hid, if_true] at this
        have h2' := h2 hid
        rw [hid] at h2'
        simp only [step, receivedBy, List.singleton_append, hid, if_true, offered] at this ⊢
        rw [h2', List.append_assoc, this]
        simp [drainSub, ← List.append_assoc, List.take_append_drop]
      · simp only [hid, if_false] at this
        simpa [step, receivedBy, hid, offered] using this
    | endWatch =>
      have h1 : (step st .endWatch).1[j]? = some { s with closes := s.closes + 1 } := by
        simp [step, endWatch, h]
      simpa [step, receivedBy, offered] using ih _ _ h1 hroom'

/-- with room for every matching change of the entry, none is dropped -/
theorem deliverList_all (i : Nat) (s : Sub) (l : List Nat)
    (h : s.buf.length + (l.filter (wants s.iface s.mask i)).length ≤ 8) :
    (deliverList i s l).buf = s.buf ++ l.filter (wants s.iface s.mask i) := by
  induction l generalizing s with
  | nil => simp
  | cons c l ih =>
    rw [deliverList_cons]
    by_cases hw : wants s.iface s.mask i c = true
    · rw [List.filter_cons_of_pos hw] at h ⊢
      simp only [List.length_cons] at h
      have hs : s.buf.length < 8 := by omega
      have hd : deliver i c s = { s with buf := s.buf ++ [c] } := by
        rw [deliver_of_wants hw]; simp [hs]
      have := ih (deliver i c s) (by rw [deliver_iface, deliver_mask, hd]; simp; omega)
      rw [this, deliver_iface, deliver_mask, hd]
      simp
    · have hw' : wants s.iface s.mask i c = false := by simpa using hw
      rw [List.filter_cons_of_neg hw] at h ⊢
      rw [deliver_of_not_wants hw']
      exact ih s h

theorem deliverSet_all (s : Sub) (cs : List (Nat × List Nat))
    (h : s.buf.length + (offeredSet s.iface s.mask cs).length ≤ 8) :
    (deliverSet s cs).buf = s.buf ++ offeredSet s.iface s.mask cs := by
  induction cs generalizing s with
  | nil => simp [offeredSet]
  | cons e cs ih =>
    unfold offeredSet at h ⊢
    rw [List.flatMap_cons, List.length_append] at h
    have h1 := deliverList_all e.1 s e.2 (by omega)
    have h2 := ih (deliverList e.1 s e.2) (by
      rw [deliverList_iface, deliverList_mask, h1, List.length_append]; unfold offeredSet; omega)
    rw [deliverSet_cons, h2, deliverList_iface, deliverList_mask, h1, List.flatMap_cons, List.append_assoc]
    rfl

theorem sub_track_all (j : Nat) (ops : List Op) : ∀ (st : State) (s : Sub), st[j]? = some s →
    s.buf.length + (offered s.iface s.mask ops).length ≤ 8 →
    receivedBy j ops (run st ops).2 ++ bufAt j (run st ops).1 = s.buf ++ offered s.iface s.mask ops := by
  induction ops with
  | nil => intro st s h _; simp [receivedBy, run, bufAt, h, offered]
  | cons op ops ih =>
    intro st s h hroom
    rw [run_cons]
    cases op with
    | subscribe i m =>
      have hlt : j < st.length := (List.getElem?_eq_some_iff.mp h).1
      have h1 : (step st (.subscribe i m)).1[j]? = some s := by
        simp only [step, subscribe]; rw [List.getElem?_append_left hlt]; exact h
      simpa [step, receivedBy, offered] using ih _ s h1 (by simpa [offered] using hroom)
    | notify cs =>
      have h1 : (step st (.notify cs)).1[j]? = some (deliverSet s cs) := by
        simp [step, notify_eq_map, h]
      simp only [offered, List.length_append] at hroom
      have hall := deliverSet_all s cs (by unfold offeredSet; omega)
      have := ih _ _ h1 (by
        rw [deliverSet_iface, deliverSet_mask, hall, List.length_append]; unfold offeredSet; omega)
      rw [deliverSet_iface, deliverSet_mask, hall] at this
      simp only [step, receivedBy, offered, List.nil_append]
      simp only [step] at this
      rw [this, List.append_assoc]
      rfl
    | drain id n =>
      obtain ⟨h1, h2⟩ := drain_getElem? st id n j s h
      by_cases hid : id = j
      · simp only [hid, if_true] at h1
        have := ih _ _ h1 (by simp [drainSub]; simp only [offered] at hroom; omega)
        have h2' := h2 hid
        rw [hid] at h2'
        simp only [step, receivedBy, List.singleton_append, hid, if_true, offered] at this ⊢
        rw [h2', List.append_assoc, this]
        simp [drainSub, ← List.append_assoc, List.take_append_drop]
      · simp only [hid, if_false] at h1
        have := ih _ _ h1 (by simpa [offered] using hroom)
        simpa [step, receivedBy, hid, offered] using this
    | endWatch =>
      have h1 : (step st .endWatch).1[j]? = some { s with closes := s.closes + 1 } := by
        simp [step, endWatch, h]
      simpa [step, receivedBy, offered] using ih _ _ h1 (by simpa [offered] using hroom)

/-! ### one subscriber along a run: the oracle's counters -/

/-- the oracle's counters agree with the subscriber's channel -/
def Inv (a : Acc) (s : Sub) : Prop :=
  a.ok = true ∧ a.pend = s.buf.length ∧ a.closed = s.closed ∧ a.accepted = a.received ++ s.buf

theorem inv_deliverList (i : Nat) (l : List Nat) : ∀ (a : Acc) (s : Sub), Inv a s →
    Inv (((l.filter (wants s.iface s.mask i)).map Ev.offer).foldl stepEv a) (deliverList i s l) := by
  induction l with
  | nil => intro a s h; exact h
  | cons c l ih =>
    intro a s h
    by_cases hw : wants s.iface s.mask i c = true
    · rw [List.filter_cons_of_pos hw, List.map_cons, List.foldl_cons, deliverList_cons]
      have := ih (stepEv a (.offer c)) (deliver i c s)
      rw [deliver_iface, deliver_mask] at this
      apply this
      obtain ⟨hok, hp, hc, hacc⟩ := h
      rw [deliver_of_wants hw]
      unfold stepEv
      by_cases hlt : s.buf.length < 8
      · have : a.pend < 8 := by omega
        simp only [this, hlt, if_true]
        exact ⟨hok, by simp [hp], by simpa [Sub.closed] using hc, by simp [hacc, List.append_assoc]⟩
      · have : ¬ a.pend < 8 := by omega
        simp only [this, hlt, if_false]
        exact ⟨hok, hp, hc, hacc⟩
    · have hw' : wants s.iface s.mask i c = false := by simpa using hw
      rw [List.filter_cons_of_neg hw, deliverList_cons, deliver_of_not_wants hw']
      exact ih a s h

theorem inv_deliverSet (cs : List (Nat × List Nat)) : ∀ (a : Acc) (s : Sub), Inv a s →
    Inv ((cs.flatMap fun e => (e.2.filter (wants s.iface s.mask e.1)).map Ev.offer).foldl stepEv a)
      (deliverSet s cs) := by
  induction cs with
  | nil => intro a s h; exact h
  | cons e cs ih =>
    intro a s h
    rw [List.flatMap_cons, List.foldl_append, deliverSet_cons]
    have := ih _ _ (inv_deliverList e.1 e.2 a s h)
    rwa [deliverList_iface, deliverList_mask] at this

theorem sub_inv (j i m : Nat) (ops : List Op) : ∀ (st : State) (s : Sub) (a : Acc) (e : Bool),
    st[j]? = some s → s.iface = i → s.mask = m → Inv a s → wf e ops = true →
    (e = false → s.closes = 0) →
    ∃ s', (run st ops).1[j]? = some s' ∧ Inv ((view j i m ops (run st ops).2).foldl stepEv a) s' := by
  induction ops with
  | nil => intro st s a e h _ _ hinv _ _; exact ⟨s, h, hinv⟩
  | cons op ops ih =>
    intro st s a e h hi hm hinv hwf hc
    rw [run_cons]
    cases op with
    | subscribe i' m' =>
      have hlt : j < st.length := (List.getElem?_eq_some_iff.mp h).1
      have h1 : (step st (.subscribe i' m')).1[j]? = some s := by
        simp only [step, subscribe]; rw [List.getElem?_append_left hlt]; exact h
      simpa [step, view] using ih _ s a e h1 hi hm hinv (by simpa [wf] using hwf) hc
    | notify cs =>
      have h1 : (step st (.notify cs)).1[j]? = some (deliverSet s cs) := by
        simp [step, notify_eq_map, h]
      simp only [wf, Bool.and_eq_true, Bool.not_eq_true'] at hwf
      have hinv' := inv_deliverSet cs a s hinv
      rw [hi, hm] at hinv'
      have := ih _ _ _ e h1 (by simp [hi]) (by simp [hm]) hinv' hwf.2 (by simpa using hc)
      simpa [step, view, List.foldl_append] using this
    | drain id n =>
      obtain ⟨h1, h2⟩ := drain_getElem? st id n j s h
      simp only [wf] at hwf
      by_cases hid : id = j
      · simp only [hid, if_true] at h1
        have h2' := h2 hid
        rw [hid] at h2'
        have hinv' : Inv (stepEv a (.take n (drainSub n s).2)) (drainSub n s).1 := by
          obtain ⟨hok, hp, hcl, hacc⟩ := hinv
          unfold stepEv drainSub
          refine ⟨?_, ?_, ?_, ?_⟩
          · simp [hok, hp, hcl, List.length_take]
          · simp [hp, List.length_take]; omega
          · simpa [Sub.closed] using hcl
          · simp [hacc, List.append_assoc, List.take_append_drop]
        have := ih _ _ _ e h1 (by simpa [drainSub] using hi) (by simpa [drainSub] using hm) hinv' hwf
          (by simpa [drainSub] using hc)
        simpa [step, view, hid, h2'] using this
      · simp only [hid, if_false] at h1
        have := ih _ _ _ e h1 hi hm hinv hwf hc
        simpa [step, view, hid] using this
    | endWatch =>
      have h1 : (step st .endWatch).1[j]? = some { s with closes := s.closes + 1 } := by
        simp [step, endWatch, h]
      simp only [wf, Bool.and_eq_true, Bool.not_eq_true'] at hwf
      have hc0 := hc hwf.1
      have hinv' : Inv (stepEv a .close) { s with closes := s.closes + 1 } := by
        obtain ⟨hok, hp, hcl, hacc⟩ := hinv
        have : a.closed = false := by rw [hcl]; simp [Sub.closed, hc0]
        unfold stepEv
        exact ⟨by simp [hok, this], hp, by simp [Sub.closed], hacc⟩
      have := ih _ _ _ true h1 hi hm hinv' hwf.2 (by simp)
      simpa [step, view] using this

end Corerad.Model.Watcher
