/-
  Lemmas that relate the LOOP form of the wildcard expansions — a left fold whose state is the pair
  (`prefixes` slice, `seen` set), as regenerated from the Go source by tools/extract/translate_loop.go —
  to the declarative form of the model (`dedupe ∘ map ∘ filter`, `sortBy`).
-/
import Corerad.Model.ListUtil
import Corerad.Lemmas.ListUtil

namespace Corerad.Lemmas.LoopFold

open Corerad.Model

variable {α β : Type}

/-- the body of the `seen`-set loops: skip, or look the key up, or record and append it -/
def step [DecidableEq β] (skip : α → Bool) (f : α → β) (st : List β × List β) (a : α) : List β × List β :=
  if skip a = true then st
  else if decide (f a ∈ st.2) = true then st
  else (st.1 ++ [f a], f a :: st.2)

theorem filter_ne_of_filter_notin [DecidableEq β] (y : β) (seen l : List β) (hy : y ∈ seen) :
    (l.filter (· ≠ y)).filter (fun z => decide (z ∉ seen)) = l.filter (fun z => decide (z ∉ seen)) := by
  rw [List.filter_filter]
  apply List.filter_congr
  intro z _
  by_cases hz : z ∈ seen
  · simp [hz]
  · have : z ≠ y := fun h => hz (h ▸ hy)
    simp [hz, this]

/-- The fold started from any `(ps, seen)` appends, in first-occurrence order, the keys of the
    non-skipped elements that `seen` does not hold yet. -/
theorem foldl_step_fst [DecidableEq β] (skip : α → Bool) (f : α → β) (l : List α) (ps seen : List β) :
    (l.foldl (step skip f) (ps, seen)).1
      = ps ++ (dedupe ((l.filter (fun a => !skip a)).map f)).filter (fun z => decide (z ∉ seen)) := by
  induction l generalizing ps seen with
  | nil => simp [dedupe]
  | cons a l ih =>
    simp only [List.foldl_cons]
    by_cases hs : skip a = true
    · simp [step, hs, ih]
    · have hs' : skip a = false := by simpa using hs
      by_cases hm : f a ∈ seen
      · have : step skip f (ps, seen) a = (ps, seen) := by simp [step, hs', hm]
        rw [this, ih]
        simp only [List.filter_cons, hs', Bool.not_false, if_true, List.map_cons, dedupe]
        simp only [hm, not_true_eq_false, decide_false, Bool.false_eq_true, if_false]
        rw [filter_ne_of_filter_notin _ _ _ hm]
      · have : step skip f (ps, seen) a = (ps ++ [f a], f a :: seen) := by simp [step, hs', hm]
        rw [this, ih]
        simp only [List.filter_cons, hs', Bool.not_false, if_true, List.map_cons, dedupe]
        simp only [hm, not_false_eq_true, decide_true, if_true]
        rw [List.filter_filter, List.append_assoc]
        congr 1
        simp only [List.singleton_append, List.cons.injEq, true_and]
        apply List.filter_congr
        intro z _
        by_cases hz : z = f a <;> by_cases hz2 : z ∈ seen <;> simp [hz, hz2, hm]

/-- from the empty state: exactly `dedupe ∘ map f ∘ filter (¬ skip)` -/
theorem foldl_step_nil [DecidableEq β] (skip : α → Bool) (f : α → β) (l : List α) :
    (l.foldl (step skip f) ([], [])).1 = dedupe ((l.filter (fun a => !skip a)).map f) := by
  rw [foldl_step_fst]
  simp

/-- `dedupe` commutes with the identity map (used when the key is the element itself) -/
theorem map_id_filter (l : List α) (p : α → Bool) : (l.filter p).map id = l.filter p := by simp

/-! ### `slices.SortStableFunc` with a comparator that orders by a `Nat` key -/

theorem insertCmp_eq_insertBy (cmp : α → α → Int) (key : α → Nat) (x : α) (l : List α)
    (h : ∀ y ∈ l, (cmp x y ≤ 0 ↔ key x ≤ key y)) :
    insertCmp cmp x l = insertBy key x l := by
  induction l with
  | nil => rfl
  | cons y ys ih =>
    have hy := h y (by simp)
    have ih' := ih (fun z hz => h z (by simp [hz]))
    simp only [insertCmp, insertBy]
    by_cases hc : cmp x y ≤ 0
    · simp [hc, hy.mp hc]
    · have : ¬ key x ≤ key y := fun hk => hc (hy.mpr hk)
      simp [hc, this, ih']

theorem sortStableFunc_eq_sortBy [DecidableEq α] (cmp : α → α → Int) (key : α → Nat) (l : List α)
    (h : ∀ x ∈ l, ∀ y ∈ l, (cmp x y ≤ 0 ↔ key x ≤ key y)) :
    sortStableFunc cmp l = sortBy key l := by
  induction l with
  | nil => rfl
  | cons x xs ih =>
    have ih' := ih (fun a ha b hb => h a (by simp [ha]) b (by simp [hb]))
    simp only [sortStableFunc, sortBy, ih']
    apply insertCmp_eq_insertBy
    intro y hy
    have hy' : y ∈ xs := Corerad.Model.mem_sortBy.mp hy
    exact h x (by simp) y (by simp [hy'])

/-! ### a fold that skips elements is the fold over the filtered list -/

theorem foldl_skip (skip : α → Bool) (g : β → α → β) (l : List α) (b : β) :
    l.foldl (fun b a => if skip a = true then b else g b a) b = (l.filter (fun a => !skip a)).foldl g b := by
  induction l generalizing b with
  | nil => rfl
  | cons a l ih =>
    by_cases hs : skip a = true
    · simp [List.foldl_cons, hs, ih]
    · have hs' : skip a = false := by simpa using hs
      simp [List.foldl_cons, hs', ih]

/-- two loop bodies that agree on the elements of the list compute the same fold -/
theorem foldl_congr_mem (f g : β → α → β) (l : List α) (b : β)
    (h : ∀ b, ∀ a ∈ l, f b a = g b a) : l.foldl f b = l.foldl g b := by
  induction l generalizing b with
  | nil => rfl
  | cons a l ih =>
    simp only [List.foldl_cons]
    rw [h b a (by simp)]
    exact ih _ (fun b x hx => h b x (by simp [hx]))

end Corerad.Lemmas.LoopFold
