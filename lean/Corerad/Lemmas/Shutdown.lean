/-
  Helper lemmas for C08 (Props/C08.lean): one inversion lemma per event of the shutdown
  transition system, `shRun` over `cons` / `append`, and the monotone quantities of a run
  (`terminate` constant; `final`, `returned`, `cancelled` only ever move forward).
-/
import Corerad.Spec.C08

namespace Corerad.Model

open Corerad

/-! ### one inversion lemma per event -/

theorem shStep_writeBegin (a : Bool) (s s' : ShState) :
    shStep a s .writeBegin = some s' ↔
      (s.final = 0 ∧ s.returned = false) ∧ s' = { s with inflight := s.inflight + 1 } := by
  show (if s.final = 0 ∧ (!s.returned) = true then some { s with inflight := s.inflight + 1 } else none)
      = some s' ↔ _
  by_cases hf : s.final = 0
  · cases hr : s.returned
    · simp [hf, eq_comm]
    · simp [hf]
  · simp [hf]

theorem shStep_writeEnd (a : Bool) (s s' : ShState) :
    shStep a s .writeEnd = some s' ↔
      0 < s.inflight ∧ s' = { s with inflight := s.inflight - 1 } := by
  show (if 0 < s.inflight then some { s with inflight := s.inflight - 1 } else none) = some s' ↔ _
  by_cases h : 0 < s.inflight
  · simp [h, eq_comm]
  · simp [h]

theorem shStep_cancel (a : Bool) (s s' : ShState) :
    shStep a s .cancel = some s' ↔
      (s.cancelled = false ∧ s.returned = false) ∧ s' = { s with cancelled := true } := by
  show (if (!s.cancelled) = true ∧ (!s.returned) = true then some { s with cancelled := true } else none)
      = some s' ↔ _
  cases hc : s.cancelled <;> cases hr : s.returned <;> simp [eq_comm]

theorem shStep_finalBegin (a : Bool) (s s' : ShState) :
    shStep a s .finalBegin = some s' ↔
      (s.cancelled = true ∧ s.terminate = true ∧ s.final = 0 ∧ s.returned = false ∧
        (a = true → s.inflight = 0)) ∧ s' = { s with final := 1 } := by
  show (if s.cancelled = true ∧ s.terminate = true ∧ s.final = 0 ∧ (!s.returned) = true ∧
        (a = true → s.inflight = 0) then some { s with final := 1 } else none) = some s' ↔ _
  by_cases h : s.cancelled = true ∧ s.terminate = true ∧ s.final = 0 ∧ (!s.returned) = true ∧
        (a = true → s.inflight = 0)
  · rw [if_pos h]
    obtain ⟨h1, h2, h3, h4, h5⟩ := h
    have h4' : s.returned = false := by cases hr : s.returned <;> simp_all
    constructor
    · intro e; exact ⟨⟨h1, h2, h3, h4', h5⟩, (Option.some.inj e).symm⟩
    · rintro ⟨_, rfl⟩; rfl
  · rw [if_neg h]
    constructor
    · intro e; cases e
    · rintro ⟨⟨h1, h2, h3, h4, h5⟩, _⟩
      exact absurd ⟨h1, h2, h3, by simp [h4], h5⟩ h

theorem shStep_finalEnd (a : Bool) (s s' : ShState) :
    shStep a s .finalEnd = some s' ↔ s.final = 1 ∧ s' = { s with final := 2 } := by
  show (if s.final = 1 then some { s with final := 2 } else none) = some s' ↔ _
  by_cases h : s.final = 1
  · simp [h, eq_comm]
  · simp [h]

theorem shStep_runReturn (a : Bool) (s s' : ShState) :
    shStep a s .runReturn = some s' ↔
      (s.cancelled = true ∧ s.returned = false ∧ (a = true → s.inflight = 0) ∧
        s.final = (if s.terminate = true then 2 else 0)) ∧ s' = { s with returned := true } := by
  show (if s.cancelled = true ∧ (!s.returned) = true ∧ (a = true → s.inflight = 0) ∧
        s.final = (if s.terminate = true then 2 else 0) then some { s with returned := true } else none)
      = some s' ↔ _
  by_cases h : s.cancelled = true ∧ (!s.returned) = true ∧ (a = true → s.inflight = 0) ∧
        s.final = (if s.terminate = true then 2 else 0)
  · rw [if_pos h]
    obtain ⟨h1, h2, h3, h4⟩ := h
    have h2' : s.returned = false := by cases hr : s.returned <;> simp_all
    constructor
    · intro e; exact ⟨⟨h1, h2', h3, h4⟩, (Option.some.inj e).symm⟩
    · rintro ⟨_, rfl⟩; rfl
  · rw [if_neg h]
    constructor
    · intro e; cases e
    · rintro ⟨⟨h1, h2, h3, h4⟩, _⟩
      exact absurd ⟨h1, by simp [h2], h3, h4⟩ h

/-! ### runs -/

@[simp] theorem shRun_nil (a : Bool) (s s' : ShState) : shRun a s [] = some s' ↔ s = s' := by
  simp [shRun]

theorem shRun_cons (a : Bool) (s s' : ShState) (e : ShEv) (es : List ShEv) :
    shRun a s (e :: es) = some s' ↔ ∃ s1, shStep a s e = some s1 ∧ shRun a s1 es = some s' := by
  cases h : shStep a s e with
  | none => simp [shRun, h]
  | some s1 => simp [shRun, h]

theorem shRun_append (a : Bool) : ∀ (xs ys : List ShEv) (s s' : ShState),
    shRun a s (xs ++ ys) = some s' ↔ ∃ m, shRun a s xs = some m ∧ shRun a m ys = some s'
  | [], ys, s, s' => by simp
  | x :: xs, ys, s, s' => by
    rw [List.cons_append, shRun_cons]
    constructor
    · rintro ⟨s1, h1, h2⟩
      obtain ⟨m, h3, h4⟩ := (shRun_append a xs ys s1 s').mp h2
      exact ⟨m, (shRun_cons a s m x xs).mpr ⟨s1, h1, h3⟩, h4⟩
    · rintro ⟨m, h1, h2⟩
      obtain ⟨s1, h3, h4⟩ := (shRun_cons a s m x xs).mp h1
      exact ⟨s1, h3, (shRun_append a xs ys s1 s').mpr ⟨m, h4, h2⟩⟩

theorem shAccepts_iff (a t : Bool) (tr : List ShEv) :
    shAccepts a t tr = true ↔ ∃ s', shRun a { terminate := t } tr = some s' := by
  unfold shAccepts
  exact Option.isSome_iff_exists

/-! ### what one step does to each component -/

/-- The complete effect of one step on the components other than `inflight`. -/
theorem shStep_effect (a : Bool) (s s' : ShState) (e : ShEv) (h : shStep a s e = some s') :
    s'.terminate = s.terminate ∧
    (s'.final = s.final ∧ e ≠ .finalBegin ∧ e ≠ .finalEnd ∨
      e = .finalBegin ∧ s.final = 0 ∧ s'.final = 1 ∨ e = .finalEnd ∧ s.final = 1 ∧ s'.final = 2) ∧
    (s'.returned = s.returned ∧ e ≠ .runReturn ∨
      e = .runReturn ∧ s.returned = false ∧ s'.returned = true) ∧
    (s'.cancelled = s.cancelled ∧ e ≠ .cancel ∨
      e = .cancel ∧ s.cancelled = false ∧ s'.cancelled = true) := by
  cases e with
  | writeBegin =>
    obtain ⟨_, rfl⟩ := (shStep_writeBegin a s s').mp h
    exact ⟨rfl, .inl ⟨rfl, by decide, by decide⟩, .inl ⟨rfl, by decide⟩, .inl ⟨rfl, by decide⟩⟩
  | writeEnd =>
    obtain ⟨_, rfl⟩ := (shStep_writeEnd a s s').mp h
    exact ⟨rfl, .inl ⟨rfl, by decide, by decide⟩, .inl ⟨rfl, by decide⟩, .inl ⟨rfl, by decide⟩⟩
  | cancel =>
    obtain ⟨⟨hc, _⟩, rfl⟩ := (shStep_cancel a s s').mp h
    exact ⟨rfl, .inl ⟨rfl, by decide, by decide⟩, .inl ⟨rfl, by decide⟩, .inr ⟨rfl, hc, rfl⟩⟩
  | finalBegin =>
    obtain ⟨⟨_, _, hf, _, _⟩, rfl⟩ := (shStep_finalBegin a s s').mp h
    exact ⟨rfl, .inr (.inl ⟨rfl, hf, rfl⟩), .inl ⟨rfl, by decide⟩, .inl ⟨rfl, by decide⟩⟩
  | finalEnd =>
    obtain ⟨hf, rfl⟩ := (shStep_finalEnd a s s').mp h
    exact ⟨rfl, .inr (.inr ⟨rfl, hf, rfl⟩), .inl ⟨rfl, by decide⟩, .inl ⟨rfl, by decide⟩⟩
  | runReturn =>
    obtain ⟨⟨_, hr, _, _⟩, rfl⟩ := (shStep_runReturn a s s').mp h
    exact ⟨rfl, .inl ⟨rfl, by decide, by decide⟩, .inr ⟨rfl, hr, rfl⟩, .inl ⟨rfl, by decide⟩⟩

/-! ### quantities along a run -/

/-- `terminate` never changes -/
theorem shRun_terminate (a : Bool) : ∀ (tr : List ShEv) (s s' : ShState),
    shRun a s tr = some s' → s'.terminate = s.terminate
  | [], s, s', h => by rw [(shRun_nil a s s').mp h]
  | e :: es, s, s', h => by
    obtain ⟨s1, h1, h2⟩ := (shRun_cons a s s' e es).mp h
    rw [shRun_terminate a es s1 s' h2, (shStep_effect a s s1 e h1).1]

/-- if the final RA has not started at the end of a run, it was not started during the run -/
theorem shRun_final_zero (a : Bool) : ∀ (tr : List ShEv) (s s' : ShState),
    shRun a s tr = some s' → s'.final = 0 → s.final = 0 ∧ ShEv.finalBegin ∉ tr
  | [], s, s', h, h0 => by rw [(shRun_nil a s s').mp h]; exact ⟨h0, List.not_mem_nil⟩
  | e :: es, s, s', h, h0 => by
    obtain ⟨s1, h1, h2⟩ := (shRun_cons a s s' e es).mp h
    obtain ⟨hs1, hnot⟩ := shRun_final_zero a es s1 s' h2 h0
    rcases (shStep_effect a s s1 e h1).2.1 with ⟨hsame, hne, _⟩ | ⟨_, _, h⟩ | ⟨_, _, h⟩
    · refine ⟨by omega, ?_⟩
      intro hm
      rcases List.mem_cons.mp hm with hm | hm
      · exact hne hm.symm
      · exact hnot hm
    · omega
    · omega

/-- if `Run` has not returned at the end of a run, it did not return during the run -/
theorem shRun_not_returned (a : Bool) : ∀ (tr : List ShEv) (s s' : ShState),
    shRun a s tr = some s' → s'.returned = false → s.returned = false ∧ ShEv.runReturn ∉ tr
  | [], s, s', h, h0 => by rw [(shRun_nil a s s').mp h]; exact ⟨h0, List.not_mem_nil⟩
  | e :: es, s, s', h, h0 => by
    obtain ⟨s1, h1, h2⟩ := (shRun_cons a s s' e es).mp h
    obtain ⟨hs1, hnot⟩ := shRun_not_returned a es s1 s' h2 h0
    rcases (shStep_effect a s s1 e h1).2.2.1 with ⟨hsame, hne⟩ | ⟨_, _, h⟩
    · refine ⟨by rw [← hsame]; exact hs1, ?_⟩
      intro hm
      rcases List.mem_cons.mp hm with hm | hm
      · exact hne hm.symm
      · exact hnot hm
    · rw [h] at hs1; cases hs1

/-- the context is cancelled only by a `cancel` event -/
theorem shRun_cancelled (a : Bool) : ∀ (tr : List ShEv) (s s' : ShState),
    shRun a s tr = some s' → s.cancelled = false → s'.cancelled = true → ShEv.cancel ∈ tr
  | [], s, s', h, h0, h1 => by
    rw [(shRun_nil a s s').mp h] at h0; rw [h0] at h1; cases h1
  | e :: es, s, s', h, h0, hc => by
    obtain ⟨s1, h1, h2⟩ := (shRun_cons a s s' e es).mp h
    rcases (shStep_effect a s s1 e h1).2.2.2 with ⟨hsame, _⟩ | ⟨he, _, _⟩
    · exact List.mem_cons_of_mem _ (shRun_cancelled a es s1 s' h2 (by rw [hsame]; exact h0) hc)
    · rw [he]; exact List.mem_cons_self

/-! ### counting -/

open Spec.C08 in
theorem count_cons (e x : ShEv) (xs : List ShEv) :
    count e (x :: xs) = count e xs + (if x = e then 1 else 0) := by
  unfold count
  by_cases h : x = e
  · simp [h]
  · simp [h]

end Corerad.Model
