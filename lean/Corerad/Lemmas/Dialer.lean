/-
  Helper lemmas for the dialer model (C10 dialer part, C11): the run past the end of the script
  always returns; the induction principle "a fold over the trace of `goRun`" used by every
  trace theorem; and, for each oracle automaton, the invariant of its state at the loop heads
  of `Dial`/`init` together with the proof that one iteration preserves it.
-/
import Corerad.Spec.C10Dialer
import Corerad.Spec.C11

set_option linter.unusedSimpArgs false

namespace Corerad.Model.Dialer

/-- past the end of the script the dial succeeds without faults and the task returns nil -/
theorem default_next (leak : Bool) (cfg : Cfg) (ph : Phase) (st : St) :
    ∃ e, (stepAttempt leak cfg ph st {}).next = .inl e := by
  have h : ∀ st ph, ∃ e, (afterDial leak cfg ph st {}).next = .inl e := by
    intro st ph
    cases hadv : cfg.adv <;> simp [afterDial, dialFn, doneFn, TaskOut.next, hadv]
  cases ph with
  | first => exact h st _
  | retry i =>
    unfold stepAttempt
    simp only
    split
    · exact ⟨_, rfl⟩
    · exact h _ _

theorem goRun_nil (leak : Bool) (cfg : Cfg) (ph : Phase) (st : St) (e : Ret)
    (h : (stepAttempt leak cfg ph st {}).next = .inl e) :
    goRun leak cfg ph st [] = finish (stepAttempt leak cfg ph st {}) e := by
  rw [goRun]; simp only [h]

theorem goRun_cons_inl (leak : Bool) (cfg : Cfg) (ph : Phase) (st : St) (a : Attempt)
    (as : List Attempt) (e : Ret) (h : (stepAttempt leak cfg ph st a).next = .inl e) :
    goRun leak cfg ph st (a :: as) = finish (stepAttempt leak cfg ph st a) e := by
  rw [goRun]; simp only [h]

theorem goRun_cons_inr (leak : Bool) (cfg : Cfg) (ph : Phase) (st : St) (a : Attempt)
    (as : List Attempt) (ph' : Phase) (h : (stepAttempt leak cfg ph st a).next = .inr ph') :
    goRun leak cfg ph st (a :: as) =
      { goRun leak cfg ph' (stepAttempt leak cfg ph st a).st as with
        evs := (stepAttempt leak cfg ph st a).evs ++
               (goRun leak cfg ph' (stepAttempt leak cfg ph st a).st as).evs } := by
  rw [goRun]; simp only [h]

/-- Induction over the fused loop: an invariant `Inv` of the fold state at every loop head that
    each iteration preserves, and that yields `Fin` when the iteration returns, yields `Fin` for
    the whole run. -/
theorem goRun_induct (leak : Bool) (cfg : Cfg) {σ : Type} (f : σ → Ev → σ)
    (Inv : Phase → St → σ → Prop) (Fin : σ → Ret → Bool → Prop)
    (hstep : ∀ ph st a s, Inv ph st s →
      match (stepAttempt leak cfg ph st a).next with
      | .inr ph' => Inv ph' (stepAttempt leak cfg ph st a).st
                      ((stepAttempt leak cfg ph st a).evs.foldl f s)
      | .inl e => Fin (f ((stepAttempt leak cfg ph st a).evs.foldl f s) (.ret e)) e
                      (stepAttempt leak cfg ph st a).st.ac) :
    ∀ (script : List Attempt) (ph : Phase) (st : St) (s : σ), Inv ph st s →
      Fin ((goRun leak cfg ph st script).evs.foldl f s) (goRun leak cfg ph st script).ret
          (goRun leak cfg ph st script).ac := by
  intro script
  induction script with
  | nil =>
    intro ph st s h
    have hs := hstep ph st {} s h
    obtain ⟨e, he⟩ := default_next leak cfg ph st
    rw [he] at hs
    rw [goRun_nil _ _ _ _ _ he]
    simpa [finish, List.foldl_append] using hs
  | cons a as ih =>
    intro ph st s h
    have hs := hstep ph st a s h
    cases hn : (stepAttempt leak cfg ph st a).next with
    | inl e =>
      rw [hn] at hs
      rw [goRun_cons_inl _ _ _ _ _ _ _ hn]
      simpa [finish, List.foldl_append] using hs
    | inr ph' =>
      rw [hn] at hs
      rw [goRun_cons_inr _ _ _ _ _ _ _ hn]
      simp only [List.foldl_append]
      exact ih _ _ _ hs

/-! ### C10 (dialer part): the policy automaton -/

section C10
open Corerad.Spec.C10Dialer

/-- events the C10 oracle does not look at -/
def quiet : Ev → Bool
  | .open _ => true
  | .getAutoconf _ _ => true
  | .setAutoconf _ _ => true
  | .leave _ => true
  | .cleanup _ => true
  | _ => false

theorem dialFn_quiet (leak adv : Bool) (k : Nat) (ac : Bool) (a : Attempt) :
    ∀ e ∈ (dialFn leak adv k ac a).evs, quiet e = true := by
  obtain ⟨pre, get, set, rst, task⟩ := a
  cases pre <;> cases adv <;> cases get <;> cases set <;> cases leak <;>
    simp [dialFn, closeEvs, errTail, quiet]

theorem doneFn_quiet (k : Nat) (r : Option Bool) (f : Fault) (ac : Bool) :
    ∀ e ∈ (doneFn k r f ac).evs, quiet e = true := by
  cases r <;> simp [doneFn, closeEvs, quiet]

/-- the shape of one iteration after the wait, as far as C10 is concerned -/
theorem afterDial_shape (leak : Bool) (cfg : Cfg) (ph : Phase) (st : St) (a : Attempt) :
    ∃ (q1 q2 : List Ev) (o : DialOut) (failed : Bool),
      (∀ e ∈ q1, quiet e = true) ∧ (∀ e ∈ q2, quiet e = true) ∧
      (afterDial leak cfg ph st a).evs =
        Ev.dial st.k :: q1 ++ [Ev.dialRet st.k o] ++
          (if o = .ok then [Ev.fnStart st.k, Ev.fnReturn st.k a.task] ++ q2 else []) ∧
      (afterDial leak cfg ph st a).next =
        (if o = .ok then (if failed then .inl (.cleanup st.k) else a.task.next st.k)
         else match ph with
           | .first => o.next st.k
           | .retry i => enterRetry (i + 1)) := by
  refine ⟨(dialFn leak cfg.adv st.k st.ac a).evs,
    (doneFn st.k (dialFn leak cfg.adv st.k st.ac a).restore a.rst (dialFn leak cfg.adv st.k st.ac a).ac).evs,
    (dialFn leak cfg.adv st.k st.ac a).out,
    (doneFn st.k (dialFn leak cfg.adv st.k st.ac a).restore a.rst (dialFn leak cfg.adv st.k st.ac a).ac).failed,
    dialFn_quiet _ _ _ _ _, doneFn_quiet _ _ _ _, ?_, ?_⟩ <;>
  · unfold afterDial
    cases hout : (dialFn leak cfg.adv st.k st.ac a).out <;> simp [hout] <;> cases ph <;> rfl

theorem attempts_eq : attempts = 50 := by decide

theorem delay_eq (i : Nat) : delay i = backoff i := by
  unfold delay backoff step maxDelay
  simp only [Gen.Dialer.step, Gen.Dialer.maxDelay]
  by_cases h0 : i = 0
  · subst h0; decide
  · simp only [h0, if_false]
    by_cases h1 : (i : Int) * 250000000 > 3000000000
    · simp only [h1, if_true]; omega
    · simp only [h1, if_false]; omega

theorem step_quiet (a : Acc) (e : Ev) (h : quiet e = true) : Spec.C10Dialer.step a e = a := by
  cases e <;> simp_all [quiet, Spec.C10Dialer.step]

theorem foldl_quiet (l : List Ev) (a : Acc) (h : ∀ e ∈ l, quiet e = true) :
    l.foldl Spec.C10Dialer.step a = a := by
  induction l generalizing a with
  | nil => rfl
  | cons e l ih =>
    rw [List.foldl_cons, step_quiet a e (h e (by simp))]
    exact ih a (fun e' he' => h e' (by simp [he']))

/-- the oracle's state at a loop head -/
def Inv10 (cfg : Cfg) : Phase → St → Acc → Prop
  | .first, st, a => a = {} ∧ ∀ T, cfg.cancelAt = some T → st.now ≤ (T : Int)
  | .retry i, st, a =>
    a.inRetry = true ∧ a.i = i ∧ i < 50 ∧ a.slept = 0 ∧ a.cancelled = false ∧ a.expect = none ∧
    a.done = false ∧ a.first = false ∧
    a.okClass = true ∧ a.okBackoff = true ∧ a.okAttempts = true ∧ a.okCancel = true ∧
    ∀ T, cfg.cancelAt = some T → st.now ≤ (T : Int)

def Fin10 (a : Acc) (_ : Ret) (_ : Bool) : Prop :=
  a.done = true ∧ a.okClass = true ∧ a.okBackoff = true ∧ a.okAttempts = true ∧ a.okCancel = true

theorem enterRetry_zero : enterRetry 0 = .inr (.retry 0) := by
  simp [enterRetry, attempts_eq]

theorem afterDial_now (leak : Bool) (cfg : Cfg) (ph : Phase) (st : St) (a : Attempt) :
    (afterDial leak cfg ph st a).st.now = st.now := by
  unfold afterDial
  cases hout : (dialFn leak cfg.adv st.k st.ac a).out <;> simp [hout]

theorem step10 (leak : Bool) (cfg : Cfg) (ph : Phase) (st : St) (a : Attempt) (s : Acc)
    (h : Inv10 cfg ph st s) :
    match (stepAttempt leak cfg ph st a).next with
    | .inr ph' => Inv10 cfg ph' (stepAttempt leak cfg ph st a).st
                    ((stepAttempt leak cfg ph st a).evs.foldl Spec.C10Dialer.step s)
    | .inl e => Fin10 (Spec.C10Dialer.step ((stepAttempt leak cfg ph st a).evs.foldl Spec.C10Dialer.step s) (.ret e)) e
                    (stepAttempt leak cfg ph st a).st.ac := by
  cases ph with
  | first =>
    obtain ⟨q1, q2, o, failed, hq1, hq2, hevs, hnext⟩ := afterDial_shape leak cfg .first st a
    obtain ⟨h, hT⟩ := h
    subst h
    have hnow := afterDial_now leak cfg .first st a
    simp only [stepAttempt, hevs, hnext]
    cases o <;> cases failed <;> cases a.task <;>
      simp [List.foldl_append, foldl_quiet _ _ hq1, foldl_quiet _ _ hq2, Spec.C10Dialer.step,
        dialClass, taskClass, taskCancels, DialOut.next, TaskOut.next, enterRetry_zero, Inv10, Fin10,
        hnow] <;> exact hT
  | retry i =>
    obtain ⟨hr, hi, hlt, hsl, hc, hex, hd, hf, h1, h2, h3, h4, hT⟩ := h
    obtain ⟨first, inRetry, i', slept, cancelled, expect, afterTask, done, okClass, okBackoff, okAttempts, okCancel⟩ := s
    simp only at hr hi hsl hc hex hd hf h1 h2 h3 h4
    subst hr hi hsl hc hex hd hf h1 h2 h3 h4
    by_cases hcan : cancelledBefore cfg (st.now + delay i') = true
    · -- cancelled during the wait
      simp only [stepAttempt, hcan, if_true]
      unfold cancelledBefore at hcan
      unfold cancelInstant
      cases hTe : cfg.cancelAt with
      | none => simp [hTe] at hcan
      | some T =>
        simp only [hTe, decide_eq_true_eq] at hcan
        have h1 : (T : Int) - st.now < backoff i' := by rw [← delay_eq]; omega
        have h2 : st.now ≤ (T : Int) := hT T hTe
        simp [Spec.C10Dialer.step, Fin10, h1, h2]
    · obtain ⟨q1, q2, o, failed, hq1, hq2, hevs, hnext⟩ :=
        afterDial_shape leak cfg (.retry i') { st with now := st.now + delay i' } a
      have hnow := afterDial_now leak cfg (.retry i') { st with now := st.now + delay i' } a
      have hT' : ∀ T, cfg.cancelAt = some T → st.now + delay i' ≤ (T : Int) := by
        intro T hTe
        simp only [cancelledBefore, hTe, decide_eq_true_eq] at hcan
        omega
      simp only [stepAttempt, hcan, hevs, hnext]
      simp only [delay_eq] at hnow hT' ⊢
      have hb : 0 ≤ backoff i' := by unfold backoff; omega
      by_cases h49 : i' + 1 < 50
      · have hne : ¬ (i' + 1 = 50) := by omega
        cases o <;> cases failed <;> cases a.task <;>
          simp [List.foldl_append, foldl_quiet _ _ hq1, foldl_quiet _ _ hq2, Spec.C10Dialer.step,
            taskClass, taskCancels, TaskOut.next, enterRetry_zero, Inv10, Fin10,
            hb, maxAttempts, hlt, hnow, enterRetry, attempts_eq, h49, hne] <;> exact hT'
      · have heq : i' + 1 = 50 := by omega
        cases o <;> cases failed <;> cases a.task <;>
          simp [List.foldl_append, foldl_quiet _ _ hq1, foldl_quiet _ _ hq2, Spec.C10Dialer.step,
            taskClass, taskCancels, TaskOut.next, enterRetry_zero, Inv10, Fin10,
            hb, maxAttempts, hlt, hnow, enterRetry, attempts_eq, h49, heq] <;> exact hT'

end C10

/-! ### C11: the bracket and autoconf automata -/

section C11
open Corerad.Spec.C11

def InvB (st : St) (b : BAcc) : Prop :=
  b.cur = none ∧ b.nextId ≤ st.k ∧ b.done = false ∧ b.ok = true

theorem afterDial_bracket (cfg : Cfg) (ph : Phase) (st : St) (a : Attempt) (b : BAcc)
    (h : InvB st b) :
    InvB (afterDial false cfg ph st a).st ((afterDial false cfg ph st a).evs.foldl bStep b) := by
  obtain ⟨cur, nextId, done, ok⟩ := b
  obtain ⟨hc, hn, hd, hok⟩ := h
  simp only at hc hn hd hok
  subst hc hd hok
  obtain ⟨pre, get, set, rst, task⟩ := a
  cases hadv : cfg.adv <;> cases pre <;> cases get <;> cases set <;>
    simp [afterDial, dialFn, doneFn, closeEvs, errTail, bStep, InvB, hadv, hn] <;> omega

/-- the autoconf oracle's state at a loop head (and, with `must`, after an iteration) -/
def InvA (st : St) (must : Option Nat) (x : AAcc) : Prop :=
  x.pending = none ∧ x.mustRet = must ∧ x.value = st.ac ∧ (x.setFailed = false → x.value = x.init) ∧
  x.okHeld = true ∧ x.okRestore = true ∧ x.okErrors = true ∧ x.okRestored = true

/-- what an iteration's `next` says about a pending clean-up error -/
def mustOf : Sum Ret Phase → Option Nat
  | .inl (.cleanup k) => some k
  | _ => none

theorem mustOf_cleanup (k : Nat) : mustOf (.inl (.cleanup k)) = some k := rfl

theorem mustOf_enterRetry (i : Nat) : mustOf (enterRetry i) = none := by
  unfold enterRetry; split <;> rfl

theorem TaskOut.mustOf_next (t : TaskOut) (k : Nat) : mustOf (t.next k) = none := by
  cases t <;> first | rfl | exact mustOf_enterRetry 0

theorem DialOut.mustOf_next (o : DialOut) (k : Nat) : mustOf (o.next k) = none := by
  cases o <;> first | rfl | exact mustOf_enterRetry 0

theorem afterDial_autoconf (leak : Bool) (cfg : Cfg) (ph : Phase) (st : St) (a : Attempt) (x : AAcc)
    (h : InvA st none x) :
    InvA (afterDial leak cfg ph st a).st (mustOf (afterDial leak cfg ph st a).next)
      ((afterDial leak cfg ph st a).evs.foldl aStep x) := by
  obtain ⟨init, value, setFailed, fresh, prev, disabled, pending, mustRet, okHeld, okRestore, okErrors, okRestored⟩ := x
  obtain ⟨hp, hm, hv, hsf, h1, h2, h3, h4⟩ := h
  simp only at hp hm hv hsf h1 h2 h3 h4
  subst hp hm hv h1 h2 h3 h4
  obtain ⟨pre, get, set, rst, task⟩ := a
  cases hadv : cfg.adv
  · cases pre <;> cases ph <;>
      simp [afterDial, dialFn, doneFn, closeEvs, errTail, aStep, aPre, InvA, hadv,
        TaskOut.mustOf_next, DialOut.mustOf_next, mustOf_enterRetry] <;> exact hsf
  · cases pre
    case ok =>
      cases get <;> cases set <;> cases rst <;> cases leak <;> cases ph <;>
        simp [afterDial, dialFn, doneFn, closeEvs, errTail, aStep, aPre, InvA, hadv,
          TaskOut.mustOf_next, DialOut.mustOf_next, mustOf_enterRetry, mustOf_cleanup]
      all_goals exact hsf
    all_goals
      cases ph <;>
      simp [afterDial, dialFn, doneFn, closeEvs, errTail, aStep, aPre, InvA, hadv,
        TaskOut.mustOf_next, DialOut.mustOf_next, mustOf_enterRetry] <;> exact hsf

/-- a whole iteration (with the `select` of the retry loop) keeps the bracket invariant when
    `dial()` closes the socket on its error path -/
theorem stepAttempt_bracket (cfg : Cfg) (ph : Phase) (st : St) (a : Attempt) (b : BAcc)
    (h : InvB st b) :
    InvB (stepAttempt false cfg ph st a).st ((stepAttempt false cfg ph st a).evs.foldl bStep b) := by
  cases ph with
  | first => exact afterDial_bracket cfg _ st a b h
  | retry i =>
    obtain ⟨cur, nextId, done, ok⟩ := b
    obtain ⟨hc, hn, hd, hok⟩ := h
    simp only at hc hn hd hok
    subst hc hd hok
    by_cases hcan : cancelledBefore cfg (st.now + delay i) = true
    · simp [stepAttempt, hcan, bStep, InvB, hn]
    · simp only [stepAttempt, hcan, List.foldl_cons]
      have := afterDial_bracket cfg (.retry i) { st with now := st.now + delay i } a
        (bStep { cur := none, nextId := nextId, done := false, ok := true } (.wait (delay i)))
        (by simp [bStep, InvB, hn])
      simpa using this

/-- a whole iteration keeps the autoconf invariant, whichever way `dial()` treats its error
    path -/
theorem stepAttempt_autoconf (leak : Bool) (cfg : Cfg) (ph : Phase) (st : St) (a : Attempt)
    (x : AAcc) (h : InvA st none x) :
    InvA (stepAttempt leak cfg ph st a).st (mustOf (stepAttempt leak cfg ph st a).next)
      ((stepAttempt leak cfg ph st a).evs.foldl aStep x) := by
  cases ph with
  | first => exact afterDial_autoconf leak cfg _ st a x h
  | retry i =>
    by_cases hcan : cancelledBefore cfg (st.now + delay i) = true
    · obtain ⟨hp, hm, hv, hsf, h1, h2, h3, h4⟩ := h
      simp [stepAttempt, hcan, aStep, aPre, InvA, hp, hm, hv, h1, h2, h3, h4, mustOf]
      exact hv ▸ hsf
    · simp only [stepAttempt, hcan, Bool.false_eq_true, ↓reduceIte, List.foldl_cons]
      have hw : aStep x (.wait (delay i)) = x := by
        obtain ⟨hp, hm, _⟩ := h
        simp [aStep, aPre, hp, hm]
      rw [hw]
      exact afterDial_autoconf leak cfg (.retry i) { st with now := st.now + delay i } a x h

/-- an attempt whose writes do not fail leaves the setting as it found it -/
theorem stepAttempt_ac (leak : Bool) (cfg : Cfg) (ph : Phase) (st : St) (a : Attempt)
    (h : a.set = .none ∧ a.rst = .none) : (stepAttempt leak cfg ph st a).st.ac = st.ac := by
  obtain ⟨pre, get, set, rst, task⟩ := a
  obtain ⟨h1, h2⟩ := h
  simp only at h1 h2
  subst h1 h2
  have : ∀ st : St, (afterDial leak cfg ph st ⟨pre, get, .none, .none, task⟩).st.ac = st.ac := by
    intro st
    cases hadv : cfg.adv <;> cases pre <;> cases get <;> simp [afterDial, dialFn, doneFn, hadv]
  cases ph with
  | first => exact this st
  | retry i =>
    by_cases hcan : cancelledBefore cfg (st.now + delay i) = true
    · simp [stepAttempt, hcan]
    · simp only [stepAttempt, hcan, Bool.false_eq_true, ↓reduceIte]
      exact this _

end C11

end Corerad.Model.Dialer
