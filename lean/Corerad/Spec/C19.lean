/-
  C19 oracle — what every subscriber of the link-state watcher must observe, stated per
  subscriber over the history and the *observed* results, by counting only (no channel is
  simulated):

    * a change `c` on interface `i` is OFFERED to a subscriber iff `i` is its interface and its
      mask intersects `c`;
    * an offered change is ACCEPTED iff fewer than 8 accepted-but-not-yet-received changes are
      pending for that subscriber at that moment (pending = accepted so far − received so far,
      the latter taken from the observations themselves);
    * each `drain n` received exactly `min n pending` values and reported "closed" iff the watch
      had ended, the channel was registered before that, and fewer than `n` were pending;
    * everything the subscriber received over the whole history (all drains, then the final
      read-out) is exactly the accepted changes, in order;
    * the channel is closed at most once, and at the end it is closed iff it was registered
      before the end of the watch.

  The literal 8 is the documented buffer size (tied to the source by `Props.C19.gen_subscriberBuf`).
-/
import Corerad.Model.Watcher

namespace Corerad.Spec.C19

open Corerad Corerad.Model.Watcher

/-- the history as one subscriber sees it -/
inductive Ev where
  | offer (c : Nat)
  | take (n : Nat) (o : Obs)
  | close
deriving DecidableEq, Repr

/-- a change `c` on interface `i` concerns the subscriber `(iface, mask)` -/
def wants (iface mask i c : Nat) : Bool := i == iface && (mask &&& c) != 0

/-- the events that concern subscriber `j = (iface, mask)` in the operations after its
    registration; `obs` are the observations of the `drain` operations of `ops`, in order -/
def view (j iface mask : Nat) : List Op → List Obs → List Ev
  | [], _ => []
  | .subscribe _ _ :: ops, obs => view j iface mask ops obs
  | .notify cs :: ops, obs =>
    (cs.flatMap fun e => (e.2.filter (wants iface mask e.1)).map Ev.offer) ++ view j iface mask ops obs
  | .drain id n :: ops, o :: obs =>
    (if id = j then [Ev.take n o] else []) ++ view j iface mask ops obs
  | .drain _ _ :: ops, [] => view j iface mask ops []
  | .endWatch :: ops, obs => Ev.close :: view j iface mask ops obs

/-- counters kept along one subscriber's view -/
structure Acc where
  /-- accepted and not yet received -/
  pend : Nat := 0
  closed : Bool := false
  /-- every accepted change so far, in order -/
  accepted : List Nat := []
  /-- every received value so far, in order -/
  received : List Nat := []
  ok : Bool := true
deriving DecidableEq, Repr

def stepEv (a : Acc) : Ev → Acc
  | .offer c => if a.pend < 8 then { a with pend := a.pend + 1, accepted := a.accepted ++ [c] } else a
  | .take n o =>
    { a with
      pend := a.pend - o.got.length
      received := a.received ++ o.got
      ok := a.ok && o.got.length == min n a.pend && o.closed == (a.closed && decide (a.pend < n)) }
  | .close => { a with closed := true, ok := a.ok && !a.closed }

/-- subscriber `j = (iface, mask)`, registered just before `ops`, with final read-out `f` -/
def holdsSub (j iface mask : Nat) (ops : List Op) (obs : List Obs) (f : Obs) : Bool :=
  let a := (view j iface mask ops obs).foldl stepEv {}
  a.ok && f.got.length == a.pend && f.closed == a.closed && a.received ++ f.got == a.accepted

/-- subscribers are numbered in registration order from `j`; `obs` has one entry per `drain`,
    `fin` one final read-out per `subscribe` -/
def holdsFrom : Nat → List Op → List Obs → List Obs → Bool
  | _, [], obs, fin => obs.isEmpty && fin.isEmpty
  | j, .subscribe i m :: ops, obs, f :: fin => holdsSub j i m ops obs f && holdsFrom (j + 1) ops obs fin
  | _, .subscribe _ _ :: _, _, [] => false
  | j, .drain _ _ :: ops, _ :: obs, fin => holdsFrom j ops obs fin
  | _, .drain _ _ :: _, [], _ => false
  | j, .notify _ :: ops, obs, fin => holdsFrom j ops obs fin
  | j, .endWatch :: ops, obs, fin => holdsFrom j ops obs fin

def holds (ops : List Op) (obs fin : List Obs) : Bool := holdsFrom 0 ops obs fin

end Corerad.Spec.C19
