/-
  C17 oracle — what a Prometheus scrape and a debug-API request must report.

  Declarative reading of the property (no plugin loop, no accumulator, no registry):

  * The RA "that would be sent at that moment" by an interface is stated per stanza
    (`optionsOf`): a static prefix is one Prefix Information option, `::/64` is C13's set,
    a static route one Route Information option, `::/0` C15's set, RDNSS with `::` C14's choice
    first, DNSSL, MTU, the link-layer address iff the interface has one, the captive portal,
    PREF64; deprecated stanzas carry `max 0 (epoch + L − now)` (C16); the router lifetime is
    the configured one iff the interface forwards, else 0 (C04).
  * A scrape reports, per interface, the four gauges, the misconfiguration gauge iff the
    interface does not forward although a non-zero lifetime is configured, and one sample per
    PI (four series), RI, RDNSS and DNSSL option with its lifetime in seconds (here: ns).
  * The API reports every interface; for an advertising one the RA with every option kind.
  * It must never be `panic`.  An error is acceptable only when a sysctl read failed, when the
    RA cannot be generated (a wildcard's source failed / no eligible RDNSS address), or for an
    advertising interface that has never been initialised.  For such an interface a result is
    acceptable too when no stanza needs a source; it is then the static RA without the
    link-layer address (nothing has told the daemon the interface's MAC yet).
  * Two samples of one family with equal labels cannot be exposed by Prometheus at all; the
    resulting scrape error is *not* acceptable, and is tagged `class=dup-metric-labels` when
    it is the only reason (DESIGN §6 F-14).
  * `/metrics` is served iff `debug.prometheus`, `/debug/pprof/…` iff `debug.pprof`.
-/
import Corerad.Model.Observe

namespace Corerad.Spec.C17

open Corerad Corerad.Model Corerad.Model.Observe

/-! ### the RA an interface's stanzas call for -/

/-- remaining lifetime of a (possibly deprecated) stanza at `sys.now` -/
def lifetimeNow (dep : Bool) (sys : SysState) (l : Dur) : Dur :=
  if dep then max 0 (sys.epoch + l - sys.now) else l

/-- options called for by one parsed stanza; `none` = they cannot be determined (the source of
    a wildcard failed, or no interface address is eligible as DNS server) -/
def optionsOf (sys : SysState) : Plugin → Option (List Opt)
  | .pfx auto p onLink autonomous valid preferred dep =>
    let mk := fun (q : Prefix) =>
      Opt.pi q.addr q.bits onLink autonomous (lifetimeNow dep sys valid) (lifetimeNow dep sys preferred)
    if auto then sys.addrs.map fun as => (currentPrefixes p.bits as).map mk else some [mk p]
  | .route auto p preference lifetime dep =>
    let mk := fun (q : Prefix) => Opt.ri q.addr q.bits preference (lifetimeNow dep sys lifetime)
    if auto then sys.routes.map fun rs => (currentRoutes rs).map mk else some [mk p]
  | .rdnss auto lifetime servers =>
    if auto then
      match sys.addrs with
      | none => none
      | some as => (currentRDNSS as).map fun ip => [Opt.rdnss lifetime (ip :: servers)]
    else some [Opt.rdnss lifetime servers]
  | .dnssl lifetime names => some [Opt.dnssl lifetime names]
  | .mtu m => some [Opt.mtu m]
  | .lla => some (match sys.mac with | none => [] | some (len, mac) => [Opt.lla len mac])
  | .captivePortal uri len => some [Opt.captivePortal uri len]
  | .pref64 p lifetime => some [Opt.pref64 p lifetime]

def concatOpts : List (Option (List Opt)) → Option (List Opt)
  | [] => some []
  | none :: _ => none
  | some a :: rest => (concatOpts rest).map (a ++ ·)

def expectedOptions (ifi : Interface) (sys : SysState) : Option (List Opt) :=
  concatOpts (ifi.plugins.map (optionsOf sys))

/-- the RA the interface would send now, with forwarding state `fw` -/
def expectedRA (ifi : Interface) (sys : SysState) (fw : Bool) : Option RA :=
  (expectedOptions ifi sys).map fun opts =>
    { hopLimit := ifi.hopLimit, managed := ifi.managed, other := ifi.otherConfig,
      preference := ifi.preference, routerLifetime := if fw then ifi.defaultLifetime else 0,
      reachable := ifi.reachable, retransmit := ifi.retransmit, options := opts }

/-- C04's condition for the misconfiguration gauge -/
def misconfigured (ifi : Interface) (fw : Bool) : Bool := !fw && decide (0 < ifi.defaultLifetime)

/-- the stanza reads a source that exists only after `Prepare` -/
def needsSource : Plugin → Bool
  | .pfx auto _ _ _ _ _ dep => auto || dep
  | .route auto _ _ _ dep => auto || dep
  | .rdnss auto _ _ => auto
  | _ => false

/-- what the parser guarantees about an interface and that the renderers rely on: preferences
    are Low/Medium/High, the configured router lifetime is not negative -/
def prefOK (p : Nat) : Bool := p == prefMedium || p == prefHigh || p == prefLow

def pluginOK : Plugin → Bool
  | .route _ _ preference _ _ => prefOK preference
  | _ => true

def ifaceOK (ifi : Interface) : Bool :=
  prefOK ifi.preference && decide (0 ≤ ifi.defaultLifetime) && ifi.plugins.all pluginOK

/-! ### samples -/

/-- the series of one advertised option (lifetimes in ns = seconds × 10⁹) -/
def optSeries (name : Nat) : Opt → List Sample
  | .pi a len onLink autonomous valid preferred =>
    [⟨.prefixAutonomous, .cidr name a len, b2v autonomous⟩,
     ⟨.prefixOnLink, .cidr name a len, b2v onLink⟩,
     ⟨.prefixValid, .cidr name a len, valid⟩,
     ⟨.prefixPreferred, .cidr name a len, preferred⟩]
  | .ri a len _ lifetime => [⟨.routeLifetime, .cidr name a len, lifetime⟩]
  | .rdnss lifetime servers => [⟨.rdnssLifetime, .servers name servers, lifetime⟩]
  | .dnssl lifetime names => [⟨.dnsslLifetime, .domains name names, lifetime⟩]
  | _ => []

/-- every sample of one interface -/
def ifaceSamples (ifi : Interface) (autoconf fw : Bool) (ra : Option RA) : List Sample :=
  [⟨.advertising, .iface ifi.name, b2v ifi.advertise⟩, ⟨.monitoring, .iface ifi.name, b2v ifi.monitor⟩,
   ⟨.autoconfiguration, .iface ifi.name, b2v autoconf⟩, ⟨.forwarding, .iface ifi.name, b2v fw⟩] ++
  match ra with
  | none => []
  | some ra =>
    (if misconfigured ifi fw then [⟨.misconfiguration, .details ifi.name, second⟩] else []) ++
    ra.options.flatMap (optSeries ifi.name)

/-- what is acceptable for one interface / for the whole scrape or request -/
inductive Want (α : Type) where
  | mustErr            -- only an error is acceptable
  | okOrErr (x : α)    -- this result, or an error (never-initialised interface)
  | mustOk (x : α)     -- only this result is acceptable
deriving Repr

/-- combine the per-interface expectations of one scrape/request -/
def Want.seq (f : α → β → β) : Want α → Want β → Want β
  | .mustErr, _ => .mustErr
  | _, .mustErr => .mustErr
  | .okOrErr a, .okOrErr b => .okOrErr (f a b)
  | .okOrErr a, .mustOk b => .okOrErr (f a b)
  | .mustOk a, .okOrErr b => .okOrErr (f a b)
  | .mustOk a, .mustOk b => .mustOk (f a b)

/-- the RA to report for an advertising interface at its lifecycle point -/
def wantRA (ifi : Interface) (e : IfEnv) (fw : Bool) : Want RA :=
  if e.lifecycle.prepared then
    match expectedRA ifi e.sys fw with
    | none => .mustErr
    | some ra => .mustOk ra
  else if ifi.plugins.any needsSource then .mustErr
  else match expectedRA ifi (unpreparedSys e.sys) fw with
    | none => .mustErr
    | some ra => .okOrErr ra

def Want.map (f : α → β) : Want α → Want β
  | .mustErr => .mustErr
  | .okOrErr x => .okOrErr (f x)
  | .mustOk x => .mustOk (f x)

def wantIfaceSamples (ifi : Interface) (e : IfEnv) : Want (List Sample) :=
  match e.autoconf, e.forwarding with
  | some auto, some fw =>
    if ifi.advertise then (wantRA ifi e fw).map fun ra => ifaceSamples ifi auto fw (some ra)
    else .mustOk (ifaceSamples ifi auto fw none)
  | _, _ => .mustErr

def wantSamples : List (Interface × IfEnv) → Want (List Sample)
  | [] => .mustOk []
  | (ifi, e) :: rest => (wantIfaceSamples ifi e).seq (· ++ ·) (wantSamples rest)

/-- F-14's class: the samples the property calls for cannot be exposed — two of them belong to
    one family and carry equal label values -/
def dupClass (ss : List Sample) : Bool := hasDup ss

/-- the oracle for one scrape: `status ∈ {ok, err, panic}` and, for `ok`, the samples -/
def holdsScrape (envs : List (Interface × IfEnv)) (status : String) (samples : List Sample) : Bool × String :=
  let want := wantSamples envs
  match status with
  | "panic" =>
    (false, if envs.any (fun (ifi, e) => ifi.advertise && !e.lifecycle.prepared && ifi.plugins.any needsSource)
      then "scrape panicked: a stanza of a never-initialised interface reached a source that only Prepare sets"
      else "scrape panicked")
  | "err" =>
    match want with
    | .mustErr => (true, "")
    | .okOrErr _ => (true, "")
    | .mustOk ss =>
      if dupClass ss then
        (false, "class=dup-metric-labels the scrape fails although every interface is initialised and readable: two samples of one family carry equal label values")
      else (false, "scrape failed although every interface is initialised, its state readable and its RA can be generated")
  | "ok" =>
    match want with
    | .mustErr => (false, "scrape succeeded although a state read failed / an RA cannot be generated / a never-initialised stanza needs its source")
    | .okOrErr ss => if canon samples == canon ss then (true, "") else (false, "samples differ from the render of the current RA")
    | .mustOk ss => if canon samples == canon ss then (true, "") else (false, "samples differ from the render of the current RA")
  | _ => (false, "unknown status")

/-! ### JSON -/

/-- the JSON rendering that covers every option kind, one comprehension per field -/
def jsonOptionsOf (opts : List Opt) : JOptions :=
  { dnssl := opts.filterMap fun | .dnssl lt names => some (wholeSeconds lt, names) | _ => none,
    mtu := ((opts.filterMap fun | .mtu m => some m | _ => none).getLast?).getD 0,
    prefixes := opts.filterMap fun
      | .pi a len ol au v p => some ⟨a, len, ol, au, wholeSeconds v, wholeSeconds p⟩ | _ => none,
    rdnss := opts.filterMap fun | .rdnss lt servers => some (wholeSeconds lt, servers) | _ => none,
    routes := opts.filterMap fun | .ri a len pref lt => some ⟨a, len, pref, wholeSeconds lt⟩ | _ => none,
    lla := (opts.filterMap fun | .lla len mac => some (len, mac) | _ => none).getLast?,
    captivePortal := (opts.filterMap fun | .captivePortal u l => some (u, l) | _ => none).getLast?,
    pref64 := opts.filterMap fun | .pref64 p lt => some (p, wholeSeconds lt) | _ => none }

def jsonOf (ra : RA) : JRA :=
  { hopLimit := ra.hopLimit, managed := ra.managed, other := ra.other, preference := ra.preference,
    routerLifetimeSeconds := wholeSeconds ra.routerLifetime, reachableMs := wholeMs ra.reachable,
    retransmitMs := wholeMs ra.retransmit, options := jsonOptionsOf ra.options }

def wantIfaceJson (ifi : Interface) (e : IfEnv) : Want JIface :=
  if !ifi.advertise then .mustOk { name := ifi.name, advertise := false, advertisement := none }
  else match e.forwarding with
    | none => .mustErr
    | some fw => (wantRA ifi e fw).map fun ra =>
        { name := ifi.name, advertise := true, advertisement := some (jsonOf ra) }

def wantJson : List (Interface × IfEnv) → Want (List JIface)
  | [] => .mustOk []
  | (ifi, e) :: rest => (wantIfaceJson ifi e).seq (· :: ·) (wantJson rest)

/-- the oracle for one `GET /_/api/interfaces` -/
def holdsApi (envs : List (Interface × IfEnv)) (status : String) (body : List JIface) : Bool × String :=
  match status with
  | "panic" =>
    (false, if envs.any (fun (ifi, e) => ifi.advertise && !e.lifecycle.prepared && ifi.plugins.any needsSource)
      then "request panicked: a stanza of a never-initialised interface reached a source that only Prepare sets"
      else if envs.any (fun (ifi, _) => ifi.advertise && ifi.plugins.any fun | .pref64 .. => true | _ => false)
      then "request panicked: the RA carries a PREF64 option (option kind not rendered)"
      else "request panicked")
  | "err" =>
    match wantJson envs with
    | .mustOk _ => (false, "request failed although every advertising interface is initialised, its state readable and its RA can be generated")
    | _ => (true, "")
  | "ok" =>
    match wantJson envs with
    | .mustErr => (false, "request succeeded although a state read failed / an RA cannot be generated / a never-initialised stanza needs its source")
    | .okOrErr b => if body == b then (true, "") else (false, "JSON differs from the rendering of the current RA")
    | .mustOk b => if body == b then (true, "") else (false, "JSON differs from the rendering of the current RA")
  | _ => (false, "unknown status")

/-! ### gating -/

/-- observed "answered by a handler" bits for `/`, `/_/api/interfaces`, `/metrics`,
    `/debug/pprof/`, `/debug/pprof/cmdline`, an unknown path -/
def holdsRoutes (prometheus pprof : Bool) (obs : List Bool) : Bool × String :=
  match obs with
  | [root, ifs, metrics, pidx, pcmd, unknown] =>
    if !root then (false, "/ not served")
    else if !ifs then (false, "/_/api/interfaces not served")
    else if metrics != prometheus then
      (false, if metrics then "/metrics served although debug.prometheus is off" else "/metrics not served although debug.prometheus is on")
    else if pidx != pprof || pcmd != pprof then
      (false, if pprof then "/debug/pprof/ not served although debug.pprof is on" else "/debug/pprof/ served although debug.pprof is off")
    else if unknown then (false, "an unregistered path is served")
    else (true, "")
  | _ => (false, "malformed observation")

end Corerad.Spec.C17
