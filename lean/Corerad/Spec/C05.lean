/-
  C05 oracle: the decidable predicate the C05 theorems are about.  It is evaluated by the
  driver on the *implementation's* chosen wait for every generated case.
-/
import Corerad.Basic

namespace Corerad.Spec.C05

open Corerad

/-- Is `d` an acceptable wait for advertisement index `i` with interval bounds `min`, `max`?
    RFC literals on purpose (3 initial advertisements, 16 s cap). -/
def holds (i : Nat) (min max d : Dur) : Bool :=
  d % second == 0 &&
  decide (second ≤ d) &&
  decide (d ≤ roundDur max second) &&
  (if 3 ≤ i then decide (roundDur min second ≤ d)
   else decide (d ≤ 16 * second) && (decide (roundDur min second ≤ d) || d == 16 * second))

/-- A sequence of waits chosen by the multicast loop (index = position). -/
def holdsSeq (min max : Dur) : Nat → List Dur → Bool
  | _, [] => true
  | i, d :: ds => holds i min max d && holdsSeq min max (i+1) ds

end Corerad.Spec.C05
