/-
  C15 oracle — what `::/0` must expand to, stated declaratively over the route dump.
-/
import Corerad.Model.Wild

namespace Corerad.Spec.C15

open Corerad Corerad.Model

/-- `q` is a different, strictly shorter route containing `p` -/
def covers (q p : Prefix) : Bool := decide (q.bits < p.bits) && q.contains p.addr

/-- IPv6, not a /128 host route, not covered by a shorter route of the dump -/
def wanted (rs : List Prefix) (p : Prefix) : Bool :=
  !p.addr.is4 && !p.isSingleIP && !rs.any (fun q => covers q p)

def strictAsc : List Prefix → Bool
  | [] => true
  | [_] => true
  | p :: q :: r => decide (addrKey p.addr < addrKey q.addr) && strictAsc (q :: r)

def noOverlap : List Prefix → Bool
  | [] => true
  | p :: r => r.all (fun q => !p.overlaps q) && noOverlap r

def holds (rs : List Prefix) (out : List Prefix) : Bool :=
  out.all (fun p => rs.contains p && wanted rs p) &&
  rs.all (fun p => !wanted rs p || out.contains p) &&
  strictAsc out && noOverlap out

end Corerad.Spec.C15
