/-
  C19 oracle, OS-glue part — what `process` must make of a batch of route-netlink messages,
  stated declaratively over the message list with the documented literals (no `Gen` constant,
  no fold):

    * the state table: operational state Up ↔ LinkUp (1), Down ↔ LinkDown (2), Testing ↔
      LinkTesting (4), Unknown ↔ LinkUnknown (8), Dormant ↔ LinkDormant (16), NotPresent ↔
      LinkNotPresent (32), LowerLayerDown ↔ LinkLowerLayerDown (64); numeric states are those
      of if.h (`IF_OPER_*`): Unknown 0, NotPresent 1, Down 2, LowerLayerDown 3, Testing 4,
      Dormant 5, Up 6;
    * a message COUNTS iff it is a link message, has attributes and its state is in the table;
    * the change set has exactly one entry per interface with at least one counting message;
      the entry is the changes of that interface's counting messages, in message order.

  `out` is the implementation's change set rendered with interfaces ascending.
-/
import Corerad.Model.Process

namespace Corerad.Spec.C19Process

open Corerad Corerad.Model.Process

/-- (operational state, Change) — RFC 2863 states against the bits of change.go, as documented -/
def stateTable : List (Nat × Nat) :=
  [(6, 1), (2, 2), (4, 4), (0, 8), (5, 16), (1, 32), (3, 64)]

def changeOf (s : Nat) : Option Nat := stateTable.lookup s

def counts (m : Msg) : Bool := m.kind == 0 && m.hasAttrs && (changeOf m.oper).isSome

/-- the changes of interface `i`, in message order -/
def changesFor (msgs : List Msg) (i : Nat) : List Nat :=
  (msgs.filter fun m => counts m && m.iface == i).filterMap fun m => changeOf m.oper

def strictAsc : List Nat → Bool
  | [] => true
  | [_] => true
  | a :: b :: r => decide (a < b) && strictAsc (b :: r)

def holds (msgs : List Msg) (out : ChangeSet) : Bool :=
  -- a map rendered ascending: every interface at most once
  strictAsc (keys out) &&
  -- every entry is non-empty and is exactly that interface's changes, in order
  out.all (fun e => !e.2.isEmpty && e.2 == changesFor msgs e.1) &&
  -- every interface with a counting message has an entry
  msgs.all (fun m => !counts m || (keys out).contains m.iface)

/-- `operStateChange` alone: `out` is `(change, ok)` -/
def holdsState (s : Nat) (out : Nat × Bool) : Bool :=
  match changeOf s with
  | some c => out == (c, true)
  | none => out == (0, false)

end Corerad.Spec.C19Process
