/-
  C10 oracle, OS-glue part — what `checkInterface` must answer, stated declaratively over the
  interface's flags and address list:

    * the interface is down                                  → link not ready (recoverable)
    * listing the addresses failed                           → that error, passed through
                                                               wrapped: a system-call error
                                                               stays a system-call error, a
                                                               permission error a permission
                                                               error, anything else unrecoverable
    * some address is an IPv6 link-local unicast address     → nil
    * otherwise                                              → link not ready (recoverable)

  "IPv6 link-local unicast address": a `*net.IPNet` whose 16-byte address lies in fe80::/10.
  An IPv4 address is not one, in whichever form it is held (4 bytes, or the 16-byte
  IPv4-mapped form `::ffff:a.b.c.d` that package net uses).

  Finding class `v4mapped-link-local`: the implementation answers nil although the only
  "link-local" addresses of the interface are IPv4-mapped 169.254.0.0/16 ones — the listener
  then fails in `ndp.Listen` with an unclassified (fatal) error instead of the recoverable
  link-not-ready outcome.
-/
import Corerad.Model.CheckIface

namespace Corerad.Spec.C10Check

open Corerad Corerad.Model.Dialer Corerad.Model.CheckIface

/-- fe80::/10, and not an IPv4-mapped address -/
def isV6LinkLocal (ip : IP) : Bool :=
  ip.valid && !ip.v4 && ip.val / 2^118 == 0x3fa

def hasV6LinkLocal (as : List NetAddr) : Bool := as.any fun a => a.isIPNet && isV6LinkLocal a.ip

/-- the documented answer -/
def expected (i : Iface) : Res :=
  if !i.up then { out := .linkNotReady }
  else match i.addrs with
    | .error .syscall => { out := .syscall, wrapsAddrErr := true }
    | .error .permission => { out := .permission, wrapsAddrErr := true }
    | .error .other => { out := .other, wrapsAddrErr := true }
    | .ok as => if hasV6LinkLocal as then { out := .ok } else { out := .linkNotReady }

def holds (i : Iface) (r : Res) : Bool := r == expected i

/-- IPv4-mapped 169.254.0.0/16 -/
def isMappedV4LinkLocal (ip : IP) : Bool :=
  ip.valid && !ip.v4 && ip.val / 2^32 == 0xffff && (ip.val % 2^32) / 2^16 == 0xa9fe

/-- class predicate of finding `v4mapped-link-local`: up, addresses listed, no IPv6 link-local
    address, some `*net.IPNet` holds an IPv4-mapped 169.254/16 address, and the answer was nil -/
def v4MappedClass (i : Iface) (r : Res) : Bool :=
  i.up && r == { out := .ok } &&
  match i.addrs with
  | .ok as => !hasV6LinkLocal as && as.any fun a => a.isIPNet && isMappedV4LinkLocal a.ip
  | .error _ => false

/-- `lookupInterface`: an interface that does not exist (yet) is link-not-ready; any other
    failure of the lookup is unrecoverable -/
def expectedLookup (err : Option OpErr) : DialOut :=
  match err with
  | none => .ok
  | some e =>
    if e.isOpError && e.opRoute && e.netIPNet && e.msgNoSuch then .linkNotReady else .other

end Corerad.Spec.C10Check
