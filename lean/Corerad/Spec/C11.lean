/-
  C11 oracle — connection clean-up and the autoconf setting, judged on an observed trace: the
  call log of the recording `system.State` (`getAutoconf`, `setAutoconf`), of the connections
  (`open` when the socket exists, `leave`/`cleanup` for LeaveGroup/Close), of the task
  (`fnStart`/`fnReturn`) and the return of `Dial`.

  Two automata, read independently.

  Bracket (`BAcc`): projected to the connection events the trace is
      (open k · [fnStart k · fnReturn k] · leave k · cleanup k)*  ·  ret
  with strictly increasing k: a connection is cleaned up exactly once, after its task has
  returned, before the next one is opened and before `Dial` returns; nothing happens after the
  return.

  Autoconf (`AAcc`), three verdicts:
    held      every write of the setting is either the *disabling* write — value `false`, issued
              on a connection that is open and not yet handed to the task, after its previous
              value was read — or the *restoring* write below.  So the setting is forced off
              only while a connection is held.
    restore   an *advertising connection* is one whose disabling write was issued and did not
              make `dial` fail (it succeeded, or failed with permission-denied, which is
              tolerated).  The event right after `cleanup k` of an advertising connection is a
              write of exactly the value read on that connection, and such a write occurs
              nowhere else.
    errors    a restoring write that fails with permission-denied or not-exist is tolerated:
              the run goes on as if it had succeeded; any other failure is returned at once as
              the clean-up error of that connection, and that error is returned in no other
              situation.
    restored  if no write failed, the value at the return (replaying the successful writes
              from the initial value) is the initial value; and that replay agrees with the
              value the recording state reports at the end.
-/
import Corerad.Model.Dialer

namespace Corerad.Spec.C11

open Corerad Corerad.Model.Dialer

/-! ### bracket -/

inductive Stage where
  | opened | started | returned | left
deriving DecidableEq, Repr

structure BAcc where
  /-- the connection currently open and how far it has got -/
  cur : Option (Nat × Stage) := none
  /-- smallest id the next connection may carry -/
  nextId : Nat := 0
  done : Bool := false
  ok : Bool := true
deriving DecidableEq, Repr

def bStep (b : BAcc) : Ev → BAcc
  | .open k =>
    { b with cur := some (k, .opened), nextId := k + 1,
             ok := b.ok && !b.done && b.cur.isNone && decide (b.nextId ≤ k) }
  | .fnStart k =>
    { b with cur := some (k, .started), ok := b.ok && !b.done && b.cur == some (k, .opened) }
  | .fnReturn k _ =>
    { b with cur := some (k, .returned), ok := b.ok && !b.done && b.cur == some (k, .started) }
  | .leave k =>
    { b with cur := some (k, .left),
             ok := b.ok && !b.done && (b.cur == some (k, .opened) || b.cur == some (k, .returned)) }
  | .cleanup k =>
    { b with cur := none, ok := b.ok && !b.done && b.cur == some (k, .left) }
  | .ret _ =>
    { b with done := true, ok := b.ok && !b.done && b.cur.isNone }
  | _ => { b with ok := b.ok && !b.done }

def bRun (evs : List Ev) : BAcc := evs.foldl bStep {}

def bracketOk (evs : List Ev) : Bool := (bRun evs).ok && (bRun evs).done

/-! ### autoconf -/

structure AAcc where
  /-- the initial value -/
  init : Bool
  /-- the value implied by the successful writes so far -/
  value : Bool
  /-- some write failed -/
  setFailed : Bool := false
  /-- a connection is open and has not been handed to the task -/
  fresh : Bool := false
  /-- the value read on the current connection -/
  prev : Option Bool := none
  /-- the current connection is an advertising connection -/
  disabled : Bool := false
  /-- `cleanup k` of an advertising connection has just happened: the write of this value is due -/
  pending : Option (Nat × Bool) := none
  /-- the restoring write on connection `k` failed with an error that is not tolerated -/
  mustRet : Option Nat := none
  okHeld : Bool := true
  okRestore : Bool := true
  okErrors : Bool := true
  okRestored : Bool := true
deriving DecidableEq, Repr

/-- the checks every event is subject to: a due restore must be the very next event; a failed
    restore must be returned at once -/
def aPre (a : AAcc) (isSet isRet : Bool) : AAcc :=
  let a := if !isSet && a.pending.isSome then { a with okRestore := false, pending := none } else a
  if !isRet && a.mustRet.isSome then { a with okErrors := false, mustRet := none } else a

def aStep (a : AAcc) : Ev → AAcc
  | .open _ =>
    let a := aPre a false false
    { a with fresh := true, prev := none, disabled := false }
  | .getAutoconf v r =>
    let a := aPre a false false
    { a with prev := if r = .none then some v else none }
  | .setAutoconf v r =>
    let a := aPre a true false
    match a.pending with
    | some (k, p) =>
      -- the restoring write
      { a with pending := none
               value := if r = .none then v else a.value
               setFailed := a.setFailed || r != .none
               mustRet := if r = .other then some k else none
               okRestore := a.okRestore && v == p }
    | none =>
      -- must be the disabling write
      { a with disabled := r == .none || r == .permission
               value := if r = .none then v else a.value
               setFailed := a.setFailed || r != .none
               okHeld := a.okHeld && v == false && a.fresh && a.prev.isSome && !a.disabled }
  | .fnStart _ =>
    let a := aPre a false false
    { a with fresh := false }
  | .cleanup k =>
    let a := aPre a false false
    { a with fresh := false, disabled := false, prev := none,
             pending := if a.disabled then a.prev.map (fun p => (k, p)) else none }
  | .ret e =>
    let a := aPre a false true
    { a with mustRet := none
             okErrors := a.okErrors &&
               (match e with | .cleanup k => a.mustRet == some k | _ => a.mustRet.isNone)
             okRestored := a.okRestored && (a.setFailed || a.value == a.init) }
  | _ => aPre a false false

def aRun (ac0 : Bool) (evs : List Ev) : AAcc := evs.foldl aStep { init := ac0, value := ac0 }

def autoconfOk (ac0 : Bool) (evs : List Ev) (final : Bool) : Bool :=
  let a := aRun ac0 evs
  a.okHeld && a.okRestore && a.okErrors && a.okRestored && a.value == final

def holds (ac0 : Bool) (evs : List Ev) (final : Bool) : Bool :=
  bracketOk evs && autoconfOk ac0 evs final

def why (ac0 : Bool) (evs : List Ev) (final : Bool) : String :=
  let b := bRun evs
  let a := aRun ac0 evs
  if !b.ok then "bracket: a connection was not cleaned up exactly once before the next open / the return (open without cleanup, cleanup twice, or out of order)"
  else if !b.done then "the trace does not end with a return"
  else if !a.okHeld then "held: autoconf written outside the disabling write on a freshly opened connection and the restoring write after its cleanup"
  else if !a.okRestore then "restore: the cleanup of an advertising connection is not followed by a write of the value read on that connection"
  else if !a.okErrors then "errors: a restore failure other than permission/not-exist was not returned, or a clean-up error was returned without one"
  else if !a.okRestored then "restored: no write failed but the value at the return differs from the initial value"
  else if a.value != final then "recording state: the final value differs from the replay of the successful writes"
  else ""

end Corerad.Spec.C11
