/-
  C02 oracle — the *documented* constraints on a configuration (reference.toml and the property
  statement, DESIGN Appendix A), as one decidable predicate per stanza kind, and the documented
  defaults.  RFC/reference literals on purpose: nothing here reads `Gen.*`.

  Readings (DESIGN §7): prefix/route lifetimes in (0, 2^32−1 s]; RDNSS/DNSSL lifetimes in
  [0, 2^32−1 s]; the `::/0` route wildcard is exempt from the overlap rule; monitor stanzas are
  accepted whatever their advertising keys contain; `pref64` must be a canonical IPv6 prefix of
  a NAT64 length; a captive-portal URI must be accepted by `ndp.NewCaptivePortal` and fit the
  option's 8-bit length (≤ 246 bytes).
-/
import Corerad.Model.Config

namespace Corerad.Spec.C02

open Corerad Corerad.Model

def maxLifetime : Dur := 4294967295 * second

/-- the special strings of a duration key resolve as documented -/
def resolve (s : DurStr) (dflt : Dur) : Option Dur :=
  match s with
  | .unset | .auto => some dflt
  | .infinite => some maxLifetime
  | .empty => some 0
  | .lit d => some d
  | .bad => none

/-- a canonical IPv6 CIDR (not IPv4, not IPv4-mapped) -/
def canonical6 (p : Prefix) : Bool := p.masked == p && p.addr.is6 && !p.addr.is4In6

def wildPrefix : Prefix := { addr := { val := 0 }, bits := 64 }
def wildRoute : Prefix := { addr := { val := 0 }, bits := 0 }

/-- the prefix a `prefix`/`route` key denotes (empty = the wildcard) -/
def pfxOf (wild : Prefix) (s : PfxStr) : Option Prefix :=
  match s with
  | .empty => some wild
  | .bad => none
  | .ok p => if canonical6 p then some p else none

def inPos (d : Dur) : Bool := decide (0 < d) && decide (d ≤ maxLifetime)
def inNonneg (d : Dur) : Bool := decide (0 ≤ d) && decide (d ≤ maxLifetime)

def docPrefix (p : RawPrefix) : Bool :=
  match pfxOf wildPrefix p.pstr, resolve p.valid (24 * hour), resolve p.preferred (4 * hour) with
  | some q, some v, some pr =>
    !(q.bits == 128) && (!q.addr.isUnspecified || q.bits == 64) &&
    inPos v && inPos pr && decide (pr ≤ v) &&
    (!p.deprecated || (v != maxLifetime && pr != maxLifetime))
  | _, _, _ => false

def prefCode (c : Nat) : Option Nat :=
  match c with
  | 0 | 2 => some 0        -- "" / "medium"
  | 1 => some 3            -- "low"
  | 3 => some 1            -- "high"
  | _ => none

def docRoute (r : RawRoute) : Bool :=
  match pfxOf wildRoute r.pstr, resolve r.lifetime (24 * hour), prefCode r.preference with
  | some q, some l, some _ =>
    (!q.addr.isUnspecified || q.bits == 0) && inPos l && (!r.deprecated || l != maxLifetime)
  | _, _, _ => false

def serverOk : AddrStr → Bool
  | .bad => false
  | .ok a => a.is6 && !a.is4In6

def serverAddr : AddrStr → IP
  | .bad => IP.zero
  | .ok a => a

def nodupIP : List IP → Bool
  | [] => true
  | x :: xs => !xs.contains x && nodupIP xs

def docRDNSS (maxI : Dur) (d : RawRDNSS) : Bool :=
  match resolve d.lifetime (3 * maxI) with
  | none => false
  | some l =>
    inNonneg l && d.servers.all serverOk &&
    decide (((d.servers.map serverAddr).filter (·.isUnspecified)).length ≤ 1) &&
    nodupIP ((d.servers.map serverAddr).filter (fun a => !a.isUnspecified))

def nodupNat : List Nat → Bool
  | [] => true
  | x :: xs => !xs.contains x && nodupNat xs

def docDNSSL (maxI : Dur) (d : RawDNSSL) : Bool :=
  match resolve d.lifetime (3 * maxI) with
  | none => false
  | some l => inNonneg l && !d.names.isEmpty && !d.names.contains 0 && nodupNat d.names   -- name id 0 = the empty string

def nat64Len (b : Nat) : Bool := b == 96 || b == 64 || b == 56 || b == 48 || b == 40 || b == 32

def wellKnown64 : Prefix := { addr := { val := 0x0064ff9b000000000000000000000000 }, bits := 96 }

def pref64Of : RawPref64 → Option Prefix
  | .unset | .empty | .str .empty => some wellKnown64
  | .str .bad => none
  | .str (.ok p) => if canonical6 p then some p else none

def docPref64 (p : RawPref64) : Bool :=
  match pref64Of p with
  | none => false
  | some q => nat64Len q.bits

/-- no two entries at distinct positions satisfy `bad` -/
def pairwiseNot (bad : α → α → Bool) : List α → Bool
  | [] => true
  | x :: xs => xs.all (fun y => !bad x y && !bad y x) && pairwiseNot bad xs

def plainDur (s : DurStr) (dflt : Dur) : Option Dur :=
  match s with
  | .empty => some dflt
  | .lit d => some d
  | _ => none

/-- 0.75·max truncated to a whole second -/
def minUpper (maxI : Dur) : Dur := truncateDur (mul075 maxI) second
/-- 0.33·max truncated to a whole second, or max itself when max < 9 s -/
def minDefault (maxI : Dur) : Dur := if 9 * second ≤ maxI then truncateDur (mul033 maxI) second else maxI

def minOf (s : DurStr) (maxI : Dur) : Option Dur :=
  match s with
  | .empty | .auto | .unset => some (minDefault maxI)
  | .lit d => if 3 * second ≤ d ∧ d ≤ minUpper maxI then some d else none
  | _ => none

def lifetimeOf (s : DurStr) (maxI : Dur) : Option Dur :=
  match resolve s (3 * maxI) with
  | none => none
  | some l => if l = 0 ∨ (maxI ≤ l ∧ l ≤ 9000 * second) then some l else none

def within (lo hi : Dur) (d : Option Dur) : Bool :=
  match d with
  | none => false
  | some d => decide (lo ≤ d) && decide (d ≤ hi)

def portalOk : CPStr → Bool
  | .empty => true
  | .bad => false
  | .ok _ len => decide (len ≤ 246)

/-- the advertising part of a stanza satisfies every documented constraint -/
def docAdvertising (i : RawInterface) : Bool :=
  match plainDur i.maxInterval (600 * second) with
  | none => false
  | some maxI =>
    decide (4 * second ≤ maxI) && decide (maxI ≤ 1800 * second) &&
    (minOf i.minInterval maxI).isSome &&
    within 0 hour (plainDur i.reachable 0) && within 0 hour (plainDur i.retransmit 0) &&
    (match i.hopLimit with | none => true | some h => decide (0 ≤ h) && decide (h ≤ 255)) &&
    (lifetimeOf i.defaultLifetime maxI).isSome &&
    (prefCode i.preference).isSome &&
    i.prefixes.all docPrefix &&
    pairwiseNot (fun a b => match pfxOf wildPrefix a.pstr, pfxOf wildPrefix b.pstr with
        | some p, some q => p.overlaps q | _, _ => false) i.prefixes &&
    i.routes.all docRoute &&
    pairwiseNot (fun a b => match pfxOf wildRoute a.pstr, pfxOf wildRoute b.pstr with
        | some p, some q => p != wildRoute && q != wildRoute && p.overlaps q | _, _ => false) i.routes &&
    i.rdnss.all (docRDNSS maxI) && i.dnssl.all (docDNSSL maxI) &&
    decide (0 ≤ i.mtu) && decide (i.mtu ≤ 65536) &&
    portalOk i.captivePortal &&
    i.pref64.all docPref64

def docInterface (i : RawInterface) : Bool :=
  !(i.monitor && i.advertise) && (i.monitor || docAdvertising i)

/-- the interface names a stanza stands for; `none` unless exactly one of name/names is given -/
def stanzaNames (i : RawInterface) : Option (List Nat) :=
  if i.name != 0 && !i.names.isEmpty then none
  else if i.name != 0 then some [i.name]
  else if !i.names.isEmpty then some i.names
  else none

def allNames : List RawInterface → Option (List Nat)
  | [] => some []
  | i :: is => match stanzaNames i, allNames is with
    | some a, some b => some (a ++ b)
    | _, _ => none

/-- **Documented**: the configuration satisfies every documented constraint. -/
def documented (c : RawConfig) : Bool :=
  !c.interfaces.isEmpty &&
  (c.debugAddr == 0 || c.debugAddr == 1) &&
  c.interfaces.all docInterface &&
  (match allNames c.interfaces with
   | none => false
   | some ns => nodupNat ns)

/-! ### documented defaults: the resolved configuration -/

def ceil8 (n : Int) : Int := ((n + 7) / 8) * 8

/-- round a duration up to a multiple of 8 s -/
def ceil8s (d : Dur) : Dur := ((d + (8 * second - 1)) / (8 * second)) * (8 * second)

/-- PREF64 lifetime: 3·MaxRtrAdvInterval rounded up to a multiple of 8 s, capped at 65528 s
    (RFC 8781 §4.1; for a whole-second `max_interval`: `ceil8 (3·seconds)` seconds) -/
def pref64Lifetime (maxI : Dur) : Dur := min (65528 * second) (ceil8s (3 * maxI))

def expPrefix (p : RawPrefix) : Plugin :=
  let q := (pfxOf wildPrefix p.pstr).getD wildPrefix
  .pfx (q == wildPrefix) q (p.onLink.getD true) (p.autonomous.getD true)
    ((resolve p.valid (24 * hour)).getD 0) ((resolve p.preferred (4 * hour)).getD 0) p.deprecated

def expRoute (r : RawRoute) : Plugin :=
  let q := (pfxOf wildRoute r.pstr).getD wildRoute
  .route (q == wildRoute) q ((prefCode r.preference).getD 0) ((resolve r.lifetime (24 * hour)).getD 0) r.deprecated

def expRDNSS (maxI : Dur) (d : RawRDNSS) : Plugin :=
  let addrs := d.servers.map serverAddr
  .rdnss (d.servers.isEmpty || addrs.any (·.isUnspecified)) ((resolve d.lifetime (3 * maxI)).getD 0)
    (sortBy addrKey (addrs.filter (fun a => !a.isUnspecified)))

def expDNSSL (maxI : Dur) (d : RawDNSSL) : Plugin :=
  .dnssl ((resolve d.lifetime (3 * maxI)).getD 0) d.names

def expPlugins (i : RawInterface) (maxI : Dur) : List Plugin :=
  i.prefixes.map expPrefix ++ i.routes.map expRoute ++ i.rdnss.map (expRDNSS maxI) ++
  i.dnssl.map (expDNSSL maxI) ++
  (if i.mtu != 0 then [Plugin.mtu i.mtu] else []) ++
  (if i.sourceLLA.getD true then [Plugin.lla] else []) ++
  (match i.captivePortal with | .ok u l => [Plugin.captivePortal u l] | _ => []) ++
  i.pref64.map (fun p => Plugin.pref64 ((pref64Of p).getD wellKnown64) (pref64Lifetime maxI))

/-- the resolved interface for a documented stanza -/
def expInterface (name : Nat) (i : RawInterface) : Interface :=
  if i.monitor then { name := name, monitor := true, verbose := i.verbose }
  else
    let maxI := (plainDur i.maxInterval (600 * second)).getD 0
    { name := name, monitor := false, advertise := i.advertise, verbose := i.verbose,
      minInterval := (minOf i.minInterval maxI).getD 0, maxInterval := maxI,
      managed := i.managed, otherConfig := i.otherConfig,
      reachable := (plainDur i.reachable 0).getD 0, retransmit := (plainDur i.retransmit 0).getD 0,
      hopLimit := (i.hopLimit.getD 64).toNat,
      defaultLifetime := (lifetimeOf i.defaultLifetime maxI).getD 0,
      unicastOnly := i.unicastOnly, preference := (prefCode i.preference).getD 0,
      plugins := expPlugins i maxI }

def expConfig (c : RawConfig) : Config :=
  { interfaces := c.interfaces.flatMap (fun i => ((stanzaNames i).getD []).map (fun n => expInterface n i)),
    debugAddr := c.debugAddr,
    prometheus := if c.debugAddr == 0 then false else c.prometheus,
    pprof := if c.debugAddr == 0 then false else c.pprof }

def cfgEq (a b : Config) : Bool :=
  a.interfaces == b.interfaces && a.debugAddr == b.debugAddr && a.prometheus == b.prometheus && a.pprof == b.pprof

/-- the oracle: accepted iff documented, and on acceptance the documented resolution -/
def holds (c : RawConfig) (res : Option Config) : Bool × String :=
  match res with
  | none => if documented c then (false, "rejected although every documented constraint holds") else (true, "")
  | some cfg =>
    if !documented c then (false, "accepted although a documented constraint is violated")
    else if cfgEq cfg (expConfig c) then (true, "")
    else (false, "accepted, but a resolved value differs from the documented default/value")

end Corerad.Spec.C02
