/-
  C10 (dialer part) oracle — the recovery policy of `Dialer.Dial`, judged on an observed trace
  of events at the seams (`DialFunc` calls and the class of what they returned, task
  invocations and the class of what they returned, virtual time slept between them, the
  cancellation of the context, the return value).  Four independent verdicts:

    classification  the *cause* of a (re-)initialisation is the error of the very first
                    `DialFunc` call or the error the task returned.  A recoverable cause
                    (link-not-ready, link-change, a system-call error that is not a permission
                    error) is followed by re-dialling; any other cause ends the run: no further
                    `DialFunc` call, no waiting, and `Dial` returns exactly that error.  A task
                    that returns nil (or was cancelled) ends the run with nil.  Errors of
                    `DialFunc` *inside* a re-initialisation are not causes: whatever their
                    class the loop goes on (DESIGN §5 C10: "inside the retry loop only
                    ok/not-ok matters").
    back-off        the i-th `DialFunc` call of a re-initialisation (i = 0, 1, …) is preceded
                    by exactly `min (i · 250 ms) 3 s` of waiting — 0, 250 ms, 500 ms, …, 3 s,
                    3 s, … — and nothing else ever waits; a cancelled wait is strictly shorter.
    attempts        a re-initialisation makes at most 50 `DialFunc` calls; after the 50th
                    failure `Dial` returns the time-out error at once (no 51st call, no further
                    wait), and it returns that error in no other situation.
    cancellation    once the context is cancelled (during a wait, or while the task runs and
                    the task returns) there is no further `DialFunc` call and no further wait,
                    and `Dial` returns nil (or the clean-up error of the connection it held).

  A failing `done()` ("failed to clean up connection") may replace the return value right
  after a task returned; whether that is justified is C11's business.

  The literals 50, 250 ms, 3 s are the documented ones (tied to the source by
  `Props.C10Dialer.gen_constants`).
-/
import Corerad.Model.Dialer

namespace Corerad.Spec.C10Dialer

open Corerad Corerad.Model.Dialer

/-- the documented back-off before the i-th re-dial of a re-initialisation -/
def backoff (i : Nat) : Int := min ((i : Int) * 250000000) 3000000000

/-- the documented bound on `DialFunc` calls per re-initialisation -/
def maxAttempts : Nat := 50

inductive Class where
  | fine | recoverable | fatal
deriving DecidableEq, Repr

/-- recoverable ⇔ link-not-ready ∨ non-permission system-call error -/
def dialClass : DialOut → Class
  | .ok => .fine
  | .linkNotReady => .recoverable
  | .syscall => .recoverable
  | .permission => .fatal
  | .other => .fatal

/-- recoverable ⇔ link-change ∨ non-permission system-call error; nil and cancellation end the
    run cleanly -/
def taskClass : TaskOut → Class
  | .nil => .fine
  | .cancelled => .fine
  | .cancelledErr => .fine
  | .linkChange => .recoverable
  | .syscall => .recoverable
  | .permission => .fatal
  | .retries => .fatal
  | .other => .fatal

def taskCancels : TaskOut → Bool
  | .cancelled => true
  | .cancelledErr => true
  | _ => false

structure Acc where
  /-- no `DialFunc` call has returned yet -/
  first : Bool := true
  /-- inside a re-initialisation -/
  inRetry : Bool := false
  /-- `DialFunc` calls made in the current re-initialisation -/
  i : Nat := 0
  /-- virtual time slept since the last `DialFunc` call / task return -/
  slept : Int := 0
  cancelled : Bool := false
  /-- the run must end now, with this value -/
  expect : Option Ret := none
  /-- the task on connection `k` has just returned (its `done()` may fail) -/
  afterTask : Option Nat := none
  done : Bool := false
  okClass : Bool := true
  okBackoff : Bool := true
  okAttempts : Bool := true
  okCancel : Bool := true
deriving DecidableEq, Repr

def step (a : Acc) : Ev → Acc
  | .wait d =>
    { a with
      slept := a.slept + d
      afterTask := none
      okClass := a.okClass && a.expect.isNone && !a.done
      okBackoff := a.okBackoff && a.inRetry && decide (0 ≤ d)
      okAttempts := a.okAttempts && a.expect != some .timeout
      okCancel := a.okCancel && !a.cancelled }
  | .ctxDone =>
    { a with
      cancelled := true
      expect := some .nil
      okClass := a.okClass && a.expect.isNone && !a.done
      okBackoff := a.okBackoff && a.inRetry && decide (a.slept < backoff a.i)
      okAttempts := a.okAttempts && a.expect != some .timeout }
  | .dial _ =>
    { a with
      slept := 0
      afterTask := none
      okClass := a.okClass && a.expect.isNone && !a.done && (a.inRetry || a.first)
      okBackoff := a.okBackoff && decide (a.slept = if a.inRetry then backoff a.i else 0)
      okAttempts := a.okAttempts && (!a.inRetry || decide (a.i < maxAttempts))
      okCancel := a.okCancel && !a.cancelled }
  | .dialRet k o =>
    if a.inRetry then
      if o = .ok then { a with i := a.i + 1, inRetry := false }
      else if a.i + 1 = maxAttempts then { a with i := a.i + 1, expect := some .timeout }
      else { a with i := a.i + 1 }
    else
      match dialClass o with
      | .fine => { a with first := false }
      | .recoverable => { a with first := false, inRetry := true, i := 0 }
      | .fatal => { a with first := false, expect := some (.dial k) }
  | .fnReturn k t =>
    match taskClass t with
    | .fine =>
      { a with afterTask := some k, slept := 0, expect := some .nil,
               cancelled := a.cancelled || taskCancels t }
    | .recoverable => { a with afterTask := some k, slept := 0, inRetry := true, i := 0 }
    | .fatal => { a with afterTask := some k, slept := 0, expect := some (.task k) }
  | .ret e =>
    { a with
      done := true
      okClass := a.okClass && !a.done &&
        (a.expect == some e || (match e with | .cleanup k => a.afterTask == some k | _ => false))
      okBackoff := a.okBackoff && (a.cancelled || decide (a.slept = 0))
      okAttempts := a.okAttempts &&
        (match e with | .timeout => a.inRetry && decide (a.i = maxAttempts) | _ => true)
      okCancel := a.okCancel &&
        (!a.cancelled || (match e with | .nil => true | .cleanup k => a.afterTask == some k | _ => false)) }
  | _ => a

def run (evs : List Ev) : Acc := evs.foldl step {}

/-- all four verdicts, and the trace ends with the return -/
def holds (evs : List Ev) : Bool :=
  let a := run evs
  a.done && a.okClass && a.okBackoff && a.okAttempts && a.okCancel

/-- which verdict fails first (for the replay note) -/
def why (evs : List Ev) : String :=
  let a := run evs
  if !a.done then "the trace does not end with a return"
  else if !a.okAttempts then "attempts: more than 50 DialFunc calls in one re-initialisation, or the time-out error returned before the 50th failure"
  else if !a.okClass then "classification: a recoverable cause must be followed by re-dialling, any other by exactly that error and no further DialFunc call"
  else if !a.okBackoff then "back-off: the waits before the re-dials of one re-initialisation are not 0, 250ms, 500ms, ... capped at 3s"
  else if !a.okCancel then "cancellation: a DialFunc call or a wait after the context was cancelled, or a non-nil return"
  else ""

end Corerad.Spec.C10Dialer
