/-
  C12 oracle — the inconsistencies of RFC 4861 §6.2.7 and the documented extensions, stated
  as comprehensions over the two RAs (no loops, no early exits).  Durations are compared at
  the precision the wire carries.  The oracle compares *which* (field, details) labels are
  reported and how often; report order is not part of the property.
-/
import Corerad.Model.Verify

namespace Corerad.Spec.C12

open Corerad Corerad.Model

/-- what a lifetime / timer field carries: Go's truncation to the field unit (for the
    non-negative durations of a wire-safe RA this is `d - d % unit`, see `Props.C12.sec_nonneg`) -/
def sec (d : Dur) : Dur := truncateDur d second
def msec (d : Dur) : Dur := truncateDur d ms

/-- both specified (non-zero on the wire) and different -/
def timerDiffers (a b : Dur) : Bool := msec a != 0 && msec b != 0 && msec a != msec b

/-- RFC 4861 §6.2.7: "Cur Hop Limit values (except for the unspecified value of zero)" — a router
    that leaves the hop limit unspecified is consistent with any value (finding F-24: the pinned
    tree compared the raw bytes and reported such a neighbour on every RA) -/
def hopDiffers (a b : Nat) : Bool := a != 0 && b != 0 && a != b

def header (a b : RA) : List Problem :=
  (if hopDiffers a.hopLimit b.hopLimit then [{ field := .hopLimit }] else []) ++
  (if a.managed != b.managed then [{ field := .managed }] else []) ++
  (if a.other != b.other then [{ field := .other }] else []) ++
  (if timerDiffers a.reachable b.reachable then [{ field := .reachable }] else []) ++
  (if timerDiffers a.retransmit b.retransmit then [{ field := .retransmit }] else [])

/-- every pair (own PI, received PI) advertising the same prefix -/
def prefixProblems (a b : RA) : List Problem :=
  (pickPI a.options).flatMap fun x => (pickPI b.options).flatMap fun y =>
    if x.1 == y.1 && x.2.1 == y.2.1 then
      (if sec x.2.2.2 != sec y.2.2.2 then [{ field := .piPreferred, details := some (x.1, x.2.1) }] else []) ++
      (if sec x.2.2.1 != sec y.2.2.1 then [{ field := .piValid, details := some (x.1, x.2.1) }] else [])
    else []

/-- every pair of route options for the same prefix with equal preference -/
def routeProblems (a b : RA) : List Problem :=
  (pickRI a.options).flatMap fun x => (pickRI b.options).flatMap fun y =>
    if x.1 == y.1 && x.2.1 == y.2.1 && x.2.2.1 == y.2.2.1 && sec x.2.2.2 != sec y.2.2.2 then
      [{ field := .riLifetime, details := some (x.1, x.2.1) }]
    else []

/-- RDNSS / DNSSL: absent on either side ⇒ nothing; different option counts ⇒ one count
    problem; otherwise index-wise lifetime and contents -/
def dnsProblems [DecidableEq α] (fCount fLifetime fItems : Field) (xs ys : List (Dur × List α)) : List Problem :=
  if xs.isEmpty || ys.isEmpty then []
  else if xs.length != ys.length then [{ field := fCount }]
  else (xs.zip ys).flatMap fun (x, y) =>
    (if sec x.1 != sec y.1 then [{ field := fLifetime }] else []) ++
    (if x.2 != y.2 then [{ field := fItems }] else [])

def specProblems (a b : RA) : List Problem :=
  header a b ++
  (match firstMTU a.options, firstMTU b.options with
   | some x, some y => if x != y then [{ field := .mtu }] else []
   | _, _ => []) ++
  prefixProblems a b ++ routeProblems a b ++
  dnsProblems .rdnssCount .rdnssLifetime .rdnssServers (pickRDNSS a.options) (pickRDNSS b.options) ++
  dnsProblems .dnsslCount .dnsslLifetime .dnsslNames (pickDNSSL a.options) (pickDNSSL b.options) ++
  (match firstPortal a.options, firstPortal b.options with
   | some x, some y => if x != y then [{ field := .captivePortal }] else []
   | _, _ => [])

def fieldCode : Field → Nat
  | .hopLimit => 0 | .managed => 1 | .other => 2 | .reachable => 3 | .retransmit => 4 | .mtu => 5
  | .piPreferred => 6 | .piValid => 7 | .riLifetime => 8 | .rdnssCount => 9 | .rdnssLifetime => 10
  | .rdnssServers => 11 | .dnsslCount => 12 | .dnsslLifetime => 13 | .dnsslNames => 14 | .captivePortal => 15

/-- `xs` and `ys` report the same labels the same number of times -/
def sameCounts (xs ys : List Problem) : Bool :=
  xs.length == ys.length && xs.all (fun p => xs.count p == ys.count p)

/-- the oracle: reported problems (as label multiset) = spec; hook fired iff any -/
def holds (a b : RA) (reported : List Problem) (hookFired : Bool) : Bool :=
  sameCounts (specProblems a b) reported && hookFired == !reported.isEmpty

/-- no two PI / RI options of one RA share prefix and length with different lifetimes -/
def coherent (a : RA) : Bool :=
  (pickPI a.options).all (fun x => (pickPI a.options).all fun y =>
    !(x.1 == y.1 && x.2.1 == y.2.1) || (sec x.2.2.1 == sec y.2.2.1 && sec x.2.2.2 == sec y.2.2.2)) &&
  (pickRI a.options).all (fun x => (pickRI a.options).all fun y =>
    !(x.1 == y.1 && x.2.1 == y.2.1 && x.2.2.1 == y.2.2.1) || sec x.2.2.2 == sec y.2.2.2)

end Corerad.Spec.C12
