/-
  C20 oracle — what an observed run of `Serve` must look like, stated directly on the event trace
  the harness recorded (no state machine is run): for every position of the trace, a condition on
  the events that precede it.

    * `serveReturn e`   — every one of the `n` tasks has returned before (after a cancellation,
                          by failing, or by returning nil on its own), and `e` is the error of the
                          first task that returned a non-nil error before (nil if none did) —
                          errors that arrive after a shutdown signal included;
    * `observeCancel k b` — a task sees its context cancelled only with a cause: a task failed
                          before, or a signal was delivered before; and when no task failed
                          before, the value `b` it reads from `terminate()` is already the one the
                          (first) signal calls for: `true` unless the signal is SIGHUP;
    * `announceReady`   — every one of the `n` tasks has reported ready before;
    * completeness (the harness observes a run until `Serve` returned or nothing can happen any
      more): if a task failed or a signal was delivered, `Serve` did return.

  The literals here (SIGHUP is the one non-terminal signal) are the property's; they are tied to
  the source by `Props.C20.gen_isTerminalExpr` and to the model by
  `Props.C20.terminal_iff_not_sighup`.
-/
import Corerad.Model.Server

namespace Corerad.Spec.C20

open Corerad Corerad.Model.Server

/-- the task whose `Run` returns a non-nil error at this event -/
def errOf : Event → Option Nat
  | .fail k => some k
  | .ret k true => some k
  | _ => none

/-- the first task that returned a non-nil error -/
def firstErrOf (tr : List Event) : Option Nat := tr.findSome? errOf

def sigOf : Event → Option Sig
  | .signal s => some s
  | _ => none

/-- the first signal delivered (the one the signal task takes; `sigC` is read once) -/
def firstSignal (tr : List Event) : Option Sig := tr.findSome? sigOf

def isFail : Event → Bool
  | .fail _ => true
  | _ => false

/-- `Run` of task `k` returns at this event -/
def isExitOf (k : Nat) : Event → Bool
  | .ret j _ => j == k
  | .fail j => j == k
  | .earlyNil j => j == k
  | _ => false

def isServeReturn : Event → Bool
  | .serveReturn _ => true
  | _ => false

def isSignal : Event → Bool
  | .signal _ => true
  | _ => false

/-- the documented rule: anything but SIGHUP means terminate -/
def terminal (s : Sig) : Bool := decide (s ≠ .hup)

/-- the condition on the events `pre` that precede one event, `n` tasks -/
def clause (n : Nat) (pre : List Event) : Event → Bool
  | .serveReturn e =>
    (List.range n).all (fun k => pre.any (isExitOf k)) && e == firstErrOf pre
  | .observeCancel _ b =>
    pre.any isFail ||
      (match firstSignal pre with
       | some s => b == terminal s
       | none => false)
  | .announceReady => (List.range n).all fun k => pre.contains (.ready k)
  | _ => true

/-- `p pre e` for every split `tr = pre ++ e :: post` (with `acc` already behind us) -/
def allPrefix (p : List Event → Event → Bool) : List Event → List Event → Bool
  | _, [] => true
  | acc, e :: r => p acc e && allPrefix p (acc ++ [e]) r

/-- the safety part: holds on every prefix of a run -/
def safe (n : Nat) (tr : List Event) : Bool := allPrefix (clause n) [] tr

/-- index of the first event that breaks its clause -/
def firstBad (n : Nat) : List Event → List Event → Option Nat
  | _, [] => none
  | acc, e :: r => if clause n acc e then firstBad n (acc ++ [e]) r else some acc.length

/-- the completeness part, for a run observed to its end -/
def live (tr : List Event) : Bool :=
  !(tr.any isFail || tr.any isSignal) || tr.any isServeReturn

def holds (n : Nat) (tr : List Event) : Bool := safe n tr && live tr

/-! ### BuildTasks -/

/-- the documented task list: per interface, in order, an advertiser or a monitor (nothing for an
    interface that does neither), then the debug HTTP server iff an address is configured, then
    the link watcher -/
def wantTasks (ifs : List IfaceKind) (debug watcher : Bool) : List TaskKind :=
  (ifs.zipIdx.filterMap fun p =>
      match p.1 with
      | .adv => some (TaskKind.advertiser p.2)
      | .mon => some (TaskKind.monitor p.2)
      | .neither => none) ++
    (if debug then [.http] else []) ++ (if watcher then [.watcher] else [])

def holdsTasks (ifs : List IfaceKind) (debug watcher : Bool) (got : List TaskKind) : Bool :=
  got == wantTasks ifs debug watcher

end Corerad.Spec.C20
