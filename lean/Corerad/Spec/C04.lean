/-
  C04 oracle (single generation): router lifetime 0 iff not forwarding, everything else
  unchanged, misconfiguration reported iff the configured lifetime had to be zeroed.
-/
import Corerad.Spec.C01

namespace Corerad.Spec.C04

open Corerad Corerad.Model Corerad.Spec.C02

def holds (i : RawInterface) (sys : SysState) (fw : Bool) (status : String) (ra : Option RA) (mis : Bool) : Bool × String :=
  if status != "ok" then (status == "rej" || status == "err", "")
  else match ra, Spec.C01.expectedRA i sys true with
    | some got, some full =>
      let cfgLt := full.routerLifetime
      if fw then
        if got.routerLifetime != cfgLt then (false, "forwarding enabled but the configured router lifetime was not sent")
        else if mis then (false, "misconfiguration reported although forwarding is enabled")
        else (got == full, "content differs")
      else
        if got.routerLifetime != 0 then (false, "not forwarding but router lifetime is non-zero")
        else if got != { full with routerLifetime := 0 } then (false, "content other than the router lifetime changed")
        else if mis != decide (0 < cfgLt) then (false, "interface_not_forwarding misconfiguration reported incorrectly")
        else (true, "")
    | _, _ => (true, "")

end Corerad.Spec.C04
