/-
  C08 oracle — on the observed event trace of one advertiser being stopped.
-/
import Corerad.Model.Shutdown

namespace Corerad.Spec.C08

open Corerad Corerad.Model

def count (e : ShEv) (tr : List ShEv) : Nat := (tr.filter (· == e)).length

/-- nothing but `finalEnd` / `runReturn` after the final RA has started -/
def finalIsLast : List ShEv → Bool
  | [] => true
  | .finalBegin :: rest => rest.all fun e => e == .finalEnd || e == .runReturn
  | _ :: rest => finalIsLast rest

/-- nothing at all after `Run` returned -/
def nothingAfterReturn : List ShEv → Bool
  | [] => true
  | .runReturn :: rest => rest.isEmpty
  | _ :: rest => nothingAfterReturn rest

/-- the trace of a run that was asked to stop and has returned -/
def holds (terminate : Bool) (tr : List ShEv) : Bool :=
  count .runReturn tr == 1 &&
  count .finalBegin tr == (if terminate then 1 else 0) &&
  count .finalEnd tr == count .finalBegin tr &&
  finalIsLast tr && nothingAfterReturn tr

end Corerad.Spec.C08
