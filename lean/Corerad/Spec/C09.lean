/-
  C09 oracle — on what a listener did with a script of reads.
-/
import Corerad.Model.Listener

namespace Corerad.Spec.C09

open Corerad Corerad.Model

def isMsg : Read → Bool
  | .msg .. => true
  | _ => false

def validOf : List Read → List (Nat × Nat)
  | [] => []
  | .msg k hop h :: r => if hop == 255 then (k, h) :: validOf r else validOf r
  | _ :: r => validOf r

def invalidOf : List Read → List Nat
  | [] => []
  | .msg k hop _ :: r => if hop != 255 then k :: invalidOf r else invalidOf r
  | _ :: r => invalidOf r

/-- For a script of messages only: every valid message is delivered, in order; every invalid
    one is counted and nothing else happens; the listener is still running. -/
def holdsMessagesOnly (script : List Read) (o : ListenOut) : Bool :=
  !script.all isMsg ||
  (o.delivered == validOf script && o.invalid == invalidOf script && o.waits.isEmpty && o.result == .running)

end Corerad.Spec.C09
