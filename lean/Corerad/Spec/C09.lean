/-
  C09 oracle — on what a listener did with a script of reads.

  The oracle judges the observation on EVERY script (any mix of valid messages, messages with a
  bad hop limit, receive timeouts and read errors).  It is stated on the script alone and does
  not consult the model:

    * invalid messages are erased (`erase`): what is left decides the result —
      `retriesExhausted` iff the erased script has `retries` consecutive timeouts before any
      error, `readError` iff it has an error and no such run before it, `running` otherwise
      (`expectedResult`, a search over the erased script, no attempt counter);
    * the reads the listener consumed (`consumed`: up to and including the read that stopped it)
      decide the rest — delivered = the valid messages of that prefix, in order; invalid = its
      messages with a bad hop limit, in order; waits = one back-off per timeout of the prefix,
      `k · backoffUnit` for the k-th timeout in a row (k = 0, 1, …; a delivered message starts a
      new row, an invalid message does not).

  `Props/C09.lean` proves that the model's output is the ONLY observation this oracle accepts
  (`holds_iff`, `model_eq_expected`) and validates `consumed` (`consumed_least`: the shortest
  prefix on which the result is decided).
-/
import Corerad.Model.Listener

namespace Corerad.Spec.C09

open Corerad Corerad.Model

/-- the statement's constants: five receive attempts, back-off in steps of 50 ms
    (`Props.C09.gen_constants` ties the source's constants to them) -/
def retries : Nat := 5
def backoffUnit : Dur := 50 * ms

def isMsg : Read → Bool
  | .msg .. => true
  | _ => false

/-- a message that fails validation: IPv6 hop limit other than 255 -/
def isInvalid : Read → Bool
  | .msg _ hop _ => hop != 255
  | _ => false

def validOf : List Read → List (Nat × Nat)
  | [] => []
  | .msg k hop h :: r => if hop == 255 then (k, h) :: validOf r else validOf r
  | _ :: r => validOf r

def invalidOf : List Read → List Nat
  | [] => []
  | .msg k hop _ :: r => if hop != 255 then k :: invalidOf r else invalidOf r
  | _ :: r => invalidOf r

/-- the script with every invalid message removed -/
def erase (script : List Read) : List Read := script.filter (fun r => !isInvalid r)

/-- the part of a script before its first read error -/
def beforeErr (script : List Read) : List Read := script.takeWhile (fun r => r != Read.err)

/-- some `n` consecutive reads of the script are timeouts -/
def hasTimeoutRun (n : Nat) : List Read → Bool
  | [] => n == 0
  | x :: r => (List.replicate n Read.timeout).isPrefixOf (x :: r) || hasTimeoutRun n r

/-- The result, decided by the erased script: exhausted iff `n` consecutive timeouts occur
    before any error; a read error iff there is an error (and no such run before it). -/
def expectedResultN (n : Nat) (script : List Read) : ListenResult :=
  if hasTimeoutRun n (beforeErr (erase script)) then .retriesExhausted
  else if (erase script).contains Read.err then .readError
  else .running

def expectedResult (script : List Read) : ListenResult := expectedResultN retries script

/-- How many reads of the script the listener consumes (`c`: timeouts in a row so far): it stops
    at the first error and at the `n`-th timeout in a row; an invalid message neither counts as
    a timeout nor interrupts the row; a valid message starts a new row. -/
def consumed (n : Nat) : List Read → Nat → Nat
  | [], _ => 0
  | .err :: _, _ => 1
  | .timeout :: r, c => if c + 1 ≥ n then 1 else consumed n r (c + 1) + 1
  | .msg _ hop _ :: r, c => (if hop == 255 then consumed n r 0 else consumed n r c) + 1

/-- the reads the listener consumed -/
def consumedPrefix (script : List Read) : List Read := script.take (consumed retries script 0)

/-- the back-off after every timeout of a (consumed) script: `c · unit` for the timeout that
    follows `c` timeouts in a row -/
def backoffs (unit : Dur) : List Read → Nat → List Dur
  | [], _ => []
  | .timeout :: r, c => (c * unit) :: backoffs unit r (c + 1)
  | .msg _ hop _ :: r, c => if hop == 255 then backoffs unit r 0 else backoffs unit r c
  | .err :: r, c => backoffs unit r c

/-- the one observation the property allows on a script -/
def expected (script : List Read) : ListenOut :=
  { delivered := validOf (consumedPrefix script)
    invalid := invalidOf (consumedPrefix script)
    waits := backoffs backoffUnit (consumedPrefix script) 0
    result := expectedResult script }

/-! ### the clauses of the oracle -/

/-- no message was delivered that is not a valid (hop limit 255) message of the script -/
def noInvalidDelivered (script : List Read) (o : ListenOut) : Bool :=
  o.delivered.all (fun d => script.contains (Read.msg d.1 255 d.2))

/-- delivered = the valid messages among the consumed reads, in order -/
def deliveredOk (script : List Read) (o : ListenOut) : Bool :=
  o.delivered == validOf (consumedPrefix script)

/-- counted invalid = the invalid messages among the consumed reads, in order -/
def invalidOk (script : List Read) (o : ListenOut) : Bool :=
  o.invalid == invalidOf (consumedPrefix script)

/-- the result is the one decided by the script with its invalid messages erased -/
def resultOk (script : List Read) (o : ListenOut) : Bool :=
  o.result == expectedResult script

/-- one back-off per consumed timeout, growing by `backoffUnit` within a row of timeouts;
    invalid messages neither add a wait nor restart or advance the row -/
def waitsOk (script : List Read) (o : ListenOut) : Bool :=
  o.waits == backoffs backoffUnit (consumedPrefix script) 0

/-- The C09 oracle, on every script. -/
def holds (script : List Read) (o : ListenOut) : Bool :=
  noInvalidDelivered script o && deliveredOk script o && invalidOk script o &&
  resultOk script o && waitsOk script o

/-- which clause rejects the observation (empty when `holds`) -/
def failedClause (script : List Read) (o : ListenOut) : String :=
  if !noInvalidDelivered script o then
    "a message was delivered that is not a valid (hop limit 255) message of the script: invalid messages must never be delivered"
  else if !deliveredOk script o then
    "the delivered messages must be exactly the valid messages among the reads consumed, in order"
  else if !invalidOk script o then
    "the invalid counter must count exactly the messages with a bad hop limit among the reads consumed"
  else if !resultOk script o then
    "the result must be the one decided by the script without its invalid messages: exhausted iff 5 timeouts in a row before any error, a read error iff an error comes first, running otherwise"
  else if !waitsOk script o then
    "the back-offs must be one per timeout, k*50ms for the k-th timeout in a row (k from 0), unaffected by invalid messages"
  else ""

/-- The former oracle, which constrained scripts of messages only (kept: `Props.C09.holds_messagesOnly`
    shows that `holds` implies it): every valid message is delivered, in order; every invalid
    one is counted and nothing else happens; the listener is still running. -/
def holdsMessagesOnly (script : List Read) (o : ListenOut) : Bool :=
  !script.all isMsg ||
  (o.delivered == validOf script && o.invalid == invalidOf script && o.waits.isEmpty && o.result == .running)

end Corerad.Spec.C09
