/-
  C13 oracle — what `::/64` must expand to, stated declaratively over the address list.
-/
import Corerad.Model.Wild

namespace Corerad.Spec.C13

open Corerad Corerad.Model

/-- IPv6, not link-local, prefix length 64 (the stanza's), not temporary, not tentative. -/
def eligible (bits : Nat) (a : SysIP) : Bool :=
  a.addr.isValid && !a.addr.addr.is4 && !a.addr.addr.isLinkLocalUnicast && a.addr.bits == bits &&
  !a.temporary && !a.tentative

def strictAsc : List Prefix → Bool
  | [] => true
  | [_] => true
  | p :: q :: r => decide (addrKey p.addr < addrKey q.addr) && strictAsc (q :: r)

/-- `out` is exactly the set of distinct networks of the eligible addresses, ascending. -/
def holds (bits : Nat) (as : List SysIP) (out : List Prefix) : Bool :=
  out.all (fun p => as.any fun a => eligible bits a && a.addr.masked == p) &&
  as.all (fun a => !eligible bits a || out.contains a.addr.masked) &&
  strictAsc out

end Corerad.Spec.C13
