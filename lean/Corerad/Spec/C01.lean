/-
  C01 oracle — the RA a documented stanza calls for, stated per raw stanza (what the user
  wrote) rather than per parsed plugin: header fields, then the options of every prefix,
  route, RDNSS, DNSSL stanza, MTU, source link-layer address, captive portal, PREF64 — in
  that order and nothing else.  The wildcard expansions are the functions proved correct in
  C13/C14/C15; deprecated lifetimes are C16's.
-/
import Corerad.Spec.C02

namespace Corerad.Spec.C01

open Corerad Corerad.Model Corerad.Spec.C02

def lifetimeNow (dep : Bool) (sys : SysState) (l : Dur) : Dur :=
  if dep then max 0 (sys.epoch + l - sys.now) else l

/-- options called for by one `prefix` stanza -/
def prefixOpts (sys : SysState) (p : RawPrefix) : Option (List Opt) :=
  let q := (pfxOf wildPrefix p.pstr).getD wildPrefix
  let v := lifetimeNow p.deprecated sys ((resolve p.valid (24 * hour)).getD 0)
  let pr := lifetimeNow p.deprecated sys ((resolve p.preferred (4 * hour)).getD 0)
  let mk := fun (x : Prefix) => Opt.pi x.addr x.bits (p.onLink.getD true) (p.autonomous.getD true) v pr
  if q == wildPrefix then sys.addrs.map (fun as => (currentPrefixes 64 as).map mk)
  else some [mk q]

def routeOpts (sys : SysState) (r : RawRoute) : Option (List Opt) :=
  let q := (pfxOf wildRoute r.pstr).getD wildRoute
  let l := lifetimeNow r.deprecated sys ((resolve r.lifetime (24 * hour)).getD 0)
  let mk := fun (x : Prefix) => Opt.ri x.addr x.bits ((prefCode r.preference).getD 0) l
  if q == wildRoute then sys.routes.map (fun rs => (currentRoutes rs).map mk)
  else some [mk q]

def rdnssOpts (sys : SysState) (maxI : Dur) (d : RawRDNSS) : Option (List Opt) :=
  let addrs := d.servers.map serverAddr
  let static := sortBy addrKey (addrs.filter (fun a => !a.isUnspecified))
  let l := (resolve d.lifetime (3 * maxI)).getD 0
  if d.servers.isEmpty || addrs.any (·.isUnspecified) then
    match sys.addrs with
    | none => none
    | some as => (currentRDNSS as).map (fun ip => [Opt.rdnss l (ip :: static)])
  else some [Opt.rdnss l static]

def concatOpts : List (Option (List Opt)) → Option (List Opt)
  | [] => some []
  | none :: _ => none
  | some a :: rest => (concatOpts rest).map (a ++ ·)

/-- every option the stanza calls for, in the documented order; `none` = generation fails
    (a wildcard's source failed, or no eligible RDNSS address) -/
def expectedOptions (i : RawInterface) (sys : SysState) (maxI : Dur) : Option (List Opt) :=
  concatOpts (
    i.prefixes.map (prefixOpts sys) ++ i.routes.map (routeOpts sys) ++ i.rdnss.map (rdnssOpts sys maxI) ++
    i.dnssl.map (fun d => some [Opt.dnssl ((resolve d.lifetime (3 * maxI)).getD 0) d.names]) ++
    [some (if i.mtu != 0 then [Opt.mtu i.mtu] else [])] ++
    [some (if i.sourceLLA.getD true then (match sys.mac with | none => [] | some (l, m) => [Opt.lla l m]) else [])] ++
    [some (match i.captivePortal with | .ok u l => [Opt.captivePortal u l] | _ => [])] ++
    i.pref64.map (fun p => some [Opt.pref64 ((pref64Of p).getD wellKnown64) (Spec.C02.pref64Lifetime maxI)]))

/-- the RA an accepted advertising stanza calls for with forwarding state `fw` -/
def expectedRA (i : RawInterface) (sys : SysState) (fw : Bool) : Option RA :=
  let maxI := (plainDur i.maxInterval (600 * second)).getD 0
  (expectedOptions i sys maxI).map fun opts =>
    { hopLimit := (i.hopLimit.getD 64).toNat, managed := i.managed, other := i.otherConfig,
      preference := (prefCode i.preference).getD 0,
      routerLifetime := if fw then (lifetimeOf i.defaultLifetime maxI).getD 0 else 0,
      reachable := (plainDur i.reachable 0).getD 0, retransmit := (plainDur i.retransmit 0).getD 0,
      options := opts }

/-- the oracle on one build: `status` is the implementation's outcome (`rej`, `err`, `ok`, or a
    harness-detected anomaly: `panic`, `unstable`, `config-mutated`) -/
def holds (i : RawInterface) (sys : SysState) (fw : Bool) (status : String) (ra : Option RA) : Bool × String :=
  if !docInterface i then (status == "rej", if status == "rej" then "" else "stanza violates a documented constraint but was accepted")
  else if status == "rej" then (false, "documented stanza rejected")
  else match expectedRA i sys fw with
    | none => (status == "err", if status == "err" then "" else "generation must fail (wildcard source failed / no eligible address)")
    | some want =>
      if status != "ok" then (false, s!"expected an RA, implementation reported {status}")
      else match ra with
        | none => (false, "no RA")
        | some got =>
          if got == want then (true, "")
          else if got.options != want.options then (false, "options differ from what the stanza calls for")
          else (false, "header differs from the configuration")

end Corerad.Spec.C01
