/-
  C18 oracle: the `corerad_monitor_*` series observed after a sequence of delivered messages
  describe that sequence exactly.

  Declarative reading of the property (no metric operations, no store):

  * `received{host,type}` = number of messages of that type from that host (absent if 0);
  * `flag_managed/other{router}` = the flag of the *last* RA from that router;
  * `default_route{router}` = ⌊(receipt + lifetime)/1 s⌋ of the last RA from that router with
    a non-zero router lifetime (an RA with lifetime 0 does not touch the gauge);
  * the four `prefix_*{prefix,router}` gauges = the values of the last Prefix Information
    option for that prefix in the last RA from that router which carries that prefix;
  * nothing else exists: messages other than RAs are only counted, options other than PI
    are ignored.

  `holds evs obs`: the observed list has no duplicate label tuples, every observed sample is
  the expected one, and every expected series is observed.
-/
import Corerad.Model.Monitor

namespace Corerad.Spec.C18

open Corerad Corerad.Model.Monitor

/-- the Prefix Information options of an RA, in wire order -/
def prefixesOf (ra : RA) : List PI :=
  ra.options.filterMap fun | .pi p => some p | .other _ => none

/-- expiry timestamp in whole seconds: the floor of `(now + lt) / 1 s` -/
def expiry (now : Time) (lt : Dur) : Int := (now + lt) / second

/-- last Prefix Information option for `(addr,len)` in a list (later options override) -/
def lastPI? (a l : Nat) : List PI → Option PI
  | [] => none
  | p :: r =>
    match lastPI? a l r with
    | some q => some q
    | none => if p.addr = a ∧ p.len = l then some p else none

/-- the sender a series is labelled with -/
def seriesHost : Series → Nat
  | .received h _ => h
  | .flagManaged h => h
  | .flagOther h => h
  | .defaultRoute h => h
  | .prefixAutonomous _ _ h => h
  | .prefixOnLink _ _ h => h
  | .prefixPreferred _ _ h => h
  | .prefixValid _ _ h => h

/-- What an RA received at `now` says about gauge `s` of its own sender (`none`: nothing). -/
def raGauge (ra : RA) (now : Time) : Series → Option Int
  | .received _ _ => none
  | .flagManaged _ => some (b2i ra.managed)
  | .flagOther _ => some (b2i ra.other)
  | .defaultRoute _ =>
    if ra.routerLifetime ≠ 0 then some (expiry now ra.routerLifetime) else none
  | .prefixAutonomous a l _ => (lastPI? a l (prefixesOf ra)).map fun p => b2i p.autonomous
  | .prefixOnLink a l _ => (lastPI? a l (prefixesOf ra)).map fun p => b2i p.onLink
  | .prefixPreferred a l _ => (lastPI? a l (prefixesOf ra)).map fun p => expiry now p.preferred
  | .prefixValid a l _ => (lastPI? a l (prefixesOf ra)).map fun p => expiry now p.valid

/-- What one delivered message says about gauge `s`. -/
def eventGauge (e : Event) (s : Series) : Option Int :=
  match e.msg with
  | .ra ra => if seriesHost s = e.host then raGauge ra e.now s else none
  | .other _ => none

/-- value of gauge `s` after the sequence: that of the last message which says anything -/
def lastWrite? (s : Series) : List Event → Option Int
  | [] => none
  | e :: rest =>
    match lastWrite? s rest with
    | some v => some v
    | none => eventGauge e s

/-- number of messages of type `t` from host `h` -/
def countOf (evs : List Event) (h t : Nat) : Nat :=
  evs.countP fun e => e.host == h && e.msg.typ == t

/-- the expected sample of every series (`none`: the series must not exist) -/
def expected (evs : List Event) : Series → Option Int
  | .received h t => if countOf evs h t = 0 then none else some (countOf evs h t : Int)
  | s => lastWrite? s evs

/-- the series one message can give rise to -/
def touchedBy (e : Event) : List Series :=
  .received e.host e.msg.typ ::
  match e.msg with
  | .ra ra =>
    [.flagManaged e.host, .flagOther e.host] ++
    (if ra.routerLifetime ≠ 0 then [.defaultRoute e.host] else []) ++
    (prefixesOf ra).flatMap fun p =>
      [.prefixAutonomous p.addr p.len e.host, .prefixOnLink p.addr p.len e.host,
       .prefixPreferred p.addr p.len e.host, .prefixValid p.addr p.len e.host]
  | .other _ => []

def touched (evs : List Event) : List Series := evs.flatMap touchedBy

def keys (obs : List (Series × Int)) : List Series := obs.map Prod.fst

/-- no label tuple reported twice -/
def uniqueKeys (obs : List (Series × Int)) : Bool := decide (keys obs).Nodup

/-- every observed sample is the expected one (in particular: no unexpected series) -/
def sound (evs : List Event) (obs : List (Series × Int)) : Bool :=
  obs.all fun (s, v) => expected evs s == some v

/-- every series the sequence gives rise to is observed -/
def complete (evs : List Event) (obs : List (Series × Int)) : Bool :=
  (touched evs).all fun s => (keys obs).contains s

def holds (evs : List Event) (obs : List (Series × Int)) : Bool :=
  uniqueKeys obs && sound evs obs && complete evs obs

end Corerad.Spec.C18
