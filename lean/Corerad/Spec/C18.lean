/-
  C18 oracle: the `corerad_monitor_*` series observed after a sequence of delivered messages
  describe that sequence exactly.

  Declarative reading of the property (no metric operations, no store):

  * `received{host,type}` = number of messages of that type from that host (absent if 0);
  * `flag_managed/other{router}` = the flag of the *last* RA from that router;
  * `default_route{router}` = ⌊(receipt + lifetime)/1 s⌋ of the last RA from that router with
    a non-zero router lifetime (an RA with lifetime 0 does not touch the gauge);
  * the four `prefix_*{prefix,router}` gauges = the values of the last Prefix Information
    option for that prefix in the last RA from that router which carries that prefix;
  * nothing else exists: messages other than RAs are only counted, options other than PI
    are ignored.

  `holds evs obs`: the observed list has no duplicate label tuples, every observed sample is
  the expected one, and every expected series is observed.

  ## Prefix Information options with a malformed length (129..255)

  The statement says "labelled by the prefix in CIDR form".  A length byte above 128 — which
  `ndp` v1.1.0 decodes without complaint, so any on-link host can deliver one — denotes no IPv6
  prefix and has no CIDR form; the statement cannot be met for such an option and does not say
  what is to happen with it.  DECISION: such an option is OUTSIDE "prefix in CIDR form".  The
  oracle therefore neither demands a series for it nor forbids the one the present code writes
  (the literal label `invalid Prefix`, `PLabel.invalid`; all malformed options of one router
  collide on it, the last one written wins — that is the *model's* business,
  `Model.monitorHandle`, and is compared with the implementation sample by sample by the
  correspondence check, not by this oracle).  What `holds` requires in their presence, exactly:

   1. No crash.  (A panic never produces an observation: the harness records the scenario as
      pending before running it and `check` reports it as the failing input.  In the model,
      `Props.C18.never_fails` has no length hypothesis.)
   2. Every series that is NOT one of the four prefix gauges under `PLabel.invalid` is bound
      exactly as above: the message counters count the RA, the flag and default-route gauges
      follow it, and every well-formed option of the same RA (also one with the same address as
      a malformed one) is reported with exactly its values under its own `addr/len` label; none
      of these may be missing, wrong or duplicated, and no other series may exist.  In
      particular a series labelled `addr/len` with `len > 128` must not exist
      (`expected = none`: no option ever has that label), and a well-formed series must not be
      overwritten by a malformed option.
   3. A prefix gauge under `PLabel.invalid` for router `r` MAY exist, with any value, but only
      if `r` did send a Prefix Information option with a malformed length (`sentMalformed`);
      otherwise it is a series that describes nothing and is rejected like any other.  It is
      never required: an implementation that skips or rejects malformed options satisfies the
      oracle as well.

  `expected`, `raGauge`, `lastPI?` and `touched` are nevertheless defined for `PLabel.invalid`
  too, where they describe what the present code does (last malformed option wins); the
  theorems of `Props/C18.lean` use them to state the model's behaviour in full.  `holds` does
  not consult them for those series (`outOfScope`).

  For sequences in which every Prefix Information length is ≤ 128 (`wellFormedLens`) none of
  this applies: `sentMalformed` is false everywhere, `PLabel.invalid` series are rejected, and
  `holds` is the exact oracle it was (`Props.C18.holds_unique_wellFormed`).

  Route Information options are not read by the monitor at all; one with length > 128 is
  rejected by the decoder together with the whole message (the message is then not "received").
-/
import Corerad.Model.Monitor

namespace Corerad.Spec.C18

open Corerad Corerad.Model.Monitor

/-- the Prefix Information options of an RA, in wire order -/
def prefixesOf (ra : RA) : List PI :=
  ra.options.filterMap fun | .pi p => some p | .other _ => none

/-- every Prefix Information length of the RA denotes an IPv6 prefix (≤ 128) -/
def wellFormedRA (ra : RA) : Bool := (prefixesOf ra).all fun p => !p.malformed

/-- … of the message (anything but an RA carries no such option) -/
def wellFormedMsg : Msg → Bool
  | .ra ra => wellFormedRA ra
  | .other _ => true

/-- … of every message of the sequence: the inputs for which "the prefix in CIDR form" exists
    throughout -/
def wellFormedLens (evs : List Event) : Bool := evs.all fun e => wellFormedMsg e.msg

/-- expiry timestamp in whole seconds: the floor of `(now + lt) / 1 s` -/
def expiry (now : Time) (lt : Dur) : Int := (now + lt) / second

/-- last Prefix Information option labelled `pl` in a list (later options override).
    For `pl = .cidr a l` these are the options with address `a` and length `l ≤ 128`
    (`Props.C18.label_eq_cidr_iff`); for `.invalid`, all malformed ones. -/
def lastPI? (pl : PLabel) : List PI → Option PI
  | [] => none
  | p :: r =>
    match lastPI? pl r with
    | some q => some q
    | none => if p.label = pl then some p else none

/-- the sender a series is labelled with -/
def seriesHost : Series → Nat
  | .received h _ => h
  | .flagManaged h => h
  | .flagOther h => h
  | .defaultRoute h => h
  | .prefixAutonomous _ h => h
  | .prefixOnLink _ h => h
  | .prefixPreferred _ h => h
  | .prefixValid _ h => h

/-- the series the statement does not speak about: prefix gauges under the literal label
    `invalid Prefix` -/
def outOfScope : Series → Bool
  | .prefixAutonomous .invalid _ => true
  | .prefixOnLink .invalid _ => true
  | .prefixPreferred .invalid _ => true
  | .prefixValid .invalid _ => true
  | _ => false

/-- What an RA received at `now` says about gauge `s` of its own sender (`none`: nothing). -/
def raGauge (ra : RA) (now : Time) : Series → Option Int
  | .received _ _ => none
  | .flagManaged _ => some (b2i ra.managed)
  | .flagOther _ => some (b2i ra.other)
  | .defaultRoute _ =>
    if ra.routerLifetime ≠ 0 then some (expiry now ra.routerLifetime) else none
  | .prefixAutonomous pl _ => (lastPI? pl (prefixesOf ra)).map fun p => b2i p.autonomous
  | .prefixOnLink pl _ => (lastPI? pl (prefixesOf ra)).map fun p => b2i p.onLink
  | .prefixPreferred pl _ => (lastPI? pl (prefixesOf ra)).map fun p => expiry now p.preferred
  | .prefixValid pl _ => (lastPI? pl (prefixesOf ra)).map fun p => expiry now p.valid

/-- What one delivered message says about gauge `s`. -/
def eventGauge (e : Event) (s : Series) : Option Int :=
  match e.msg with
  | .ra ra => if seriesHost s = e.host then raGauge ra e.now s else none
  | .other _ => none

/-- value of gauge `s` after the sequence: that of the last message which says anything -/
def lastWrite? (s : Series) : List Event → Option Int
  | [] => none
  | e :: rest =>
    match lastWrite? s rest with
    | some v => some v
    | none => eventGauge e s

/-- number of messages of type `t` from host `h` -/
def countOf (evs : List Event) (h t : Nat) : Nat :=
  evs.countP fun e => e.host == h && e.msg.typ == t

/-- the expected sample of every series (`none`: the series must not exist) -/
def expected (evs : List Event) : Series → Option Int
  | .received h t => if countOf evs h t = 0 then none else some (countOf evs h t : Int)
  | s => lastWrite? s evs

/-- the series one message can give rise to -/
def touchedBy (e : Event) : List Series :=
  .received e.host e.msg.typ ::
  match e.msg with
  | .ra ra =>
    [.flagManaged e.host, .flagOther e.host] ++
    (if ra.routerLifetime ≠ 0 then [.defaultRoute e.host] else []) ++
    (prefixesOf ra).flatMap fun p =>
      [.prefixAutonomous p.label e.host, .prefixOnLink p.label e.host,
       .prefixPreferred p.label e.host, .prefixValid p.label e.host]
  | .other _ => []

def touched (evs : List Event) : List Series := evs.flatMap touchedBy

/-- router `r` sent an RA with a Prefix Information option of malformed length -/
def sentMalformed (evs : List Event) (r : Nat) : Bool :=
  evs.any fun e => e.host == r && !wellFormedMsg e.msg

def keys (obs : List (Series × Int)) : List Series := obs.map Prod.fst

/-- no label tuple reported twice -/
def uniqueKeys (obs : List (Series × Int)) : Bool := decide (keys obs).Nodup

/-- every observed sample is the expected one (in particular: no unexpected series); an
    `invalid Prefix` series is tolerated, with any value, iff its router sent a malformed option -/
def sound (evs : List Event) (obs : List (Series × Int)) : Bool :=
  obs.all fun (s, v) =>
    if outOfScope s then sentMalformed evs (seriesHost s) else expected evs s == some v

/-- every series the sequence gives rise to — save the `invalid Prefix` ones — is observed -/
def complete (evs : List Event) (obs : List (Series × Int)) : Bool :=
  (touched evs).all fun s => outOfScope s || (keys obs).contains s

def holds (evs : List Event) (obs : List (Series × Int)) : Bool :=
  uniqueKeys obs && sound evs obs && complete evs obs

end Corerad.Spec.C18
