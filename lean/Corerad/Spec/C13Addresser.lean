/-
  C13/C14/C15 oracle, OS-glue part — what `AddressesByIndex` / `routesByIndex` must make of an
  rtnetlink dump, stated declaratively, message by message, with the bit *positions* of
  linux/if_addr.h (the model uses the masks):

      IFA_F_TEMPORARY       bit 0      IFA_F_DEPRECATED     bit 5     IFA_F_TENTATIVE  bit 6
      IFA_F_MANAGETEMPADDR  bit 8      IFA_F_STABLE_PRIVACY bit 11

    * a failing request, or an empty dump, yields `(nil, err)`;
    * a message that is not an AF_INET6 address message with attributes and a 16-byte,
      non-IPv4-mapped address is a broken invariant: the call panics;
    * otherwise the result has exactly one entry per message, in dump order; entry `k` has the
      address and prefix length of message `k`, each boolean is its flag bit, and
      `ValidForever` ⇔ the cache-info valid lifetime is 2³²−1.
-/
import Corerad.Model.Addresser

namespace Corerad.Spec.C13Addresser

open Corerad Corerad.Model Corerad.Model.Addresser

def wellFormedAddr (m : AddrMsg) : Bool :=
  m.isAddr && m.family == 10 && m.hasAttrs && m.ip.valid && !m.ip.v4 && m.ip.val / 2^32 != 0xffff

/-- entry `a` is message `m`, field by field -/
def entryOf (m : AddrMsg) (a : SysIP) : Bool :=
  a.addr.addr == m.ip && a.addr.bits == m.plen &&
  a.temporary == m.flags.testBit 0 &&
  a.deprecated == m.flags.testBit 5 &&
  a.tentative == m.flags.testBit 6 &&
  a.manageTemp == m.flags.testBit 8 &&
  a.stablePrivacy == m.flags.testBit 11 &&
  a.validForever == (m.valid == 4294967295)

def zipAll : List AddrMsg → List SysIP → Bool
  | [], [] => true
  | m :: ms, a :: as => entryOf m a && zipAll ms as
  | _, _ => false

def holdsAddrs (msgs : List AddrMsg) (failed : Bool) (r : Res SysIP) : Bool :=
  if failed || msgs.isEmpty then r == .nil failed
  else if !msgs.all wellFormedAddr then r == .panic
  else match r with
    | .ok l => zipAll msgs l
    | _ => false

/-! ### the documented behaviour (what the properties ask of the wildcards, at this layer)

  C13 and C15 list IPv4 addresses and routes among what the wildcards *exclude*, and C14 asks for
  "an IPv6 address currently on the interface". The kernel delivers IPv4-mapped IPv6 addresses and
  routes in AF_INET6 dumps (`ip -6 addr add ::ffff:192.0.2.9/128 dev eth0`, the
  `unreachable ::ffff:0.0.0.0/96 dev lo` route many distributions install) and, for an address
  with a peer, the interface's own address in IFA_LOCAL. So, at this layer:

    * an IPv4-mapped entry is not a broken invariant: it is left out or passed on (the plug-ins
      exclude it); the call does not panic (finding F-27: it does, and the pinned suite's
      `invalid_IPv4` cases demand exactly that);
    * the address of an entry is the interface's own (IFA_LOCAL when present) (finding F-28). -/

def mapped (ip : IP) : Bool := ip.valid && !ip.v4 && ip.val / 2^32 == 0xffff

def wellFormedAddrDoc (m : AddrMsg) : Bool :=
  m.isAddr && m.family == 10 && m.hasAttrs && m.ip.valid && !m.ip.v4 &&
  (match m.loc with | some l => l.valid && !l.v4 | none => true)

/-- the interface's own address -/
def ownAddr (m : AddrMsg) : IP := m.loc.getD m.ip

def entryOfDoc (m : AddrMsg) (a : SysIP) : Bool :=
  entryOf { m with ip := ownAddr m } a

/-- one entry per message in dump order; an IPv4-mapped one may be left out -/
def zipAllDoc : List AddrMsg → List SysIP → Bool
  | [], [] => true
  | [], _ :: _ => false
  | m :: ms, [] => mapped (ownAddr m) && zipAllDoc ms []
  | m :: ms, a :: as =>
    (entryOfDoc m a && zipAllDoc ms as) || (mapped (ownAddr m) && zipAllDoc ms (a :: as))

def holdsAddrsDoc (msgs : List AddrMsg) (failed : Bool) (r : Res SysIP) : Bool :=
  if failed || msgs.isEmpty then r == .nil failed
  else if !msgs.all wellFormedAddrDoc then r == .panic
  else match r with
    | .ok l => zipAllDoc msgs l
    | .nil e => !e && zipAllDoc msgs []      -- every message was IPv4-mapped and left out
    | .panic => false

/-- class of finding F-27 (addresses): an otherwise well-formed dump contains an IPv4-mapped
    address and the implementation panicked -/
def mappedAddrClass (msgs : List AddrMsg) (failed : Bool) (r : Res SysIP) : Bool :=
  !failed && msgs.all wellFormedAddrDoc && msgs.any (fun m => mapped m.ip || mapped (ownAddr m)) && r == .panic

/-- class of finding F-28: a well-formed dump contains an address with a peer and the result is
    what the source-faithful reading gives — the peer's address in place of the interface's own -/
def peerClass (msgs : List AddrMsg) (failed : Bool) (r : Res SysIP) : Bool :=
  !failed && msgs.all wellFormedAddr && msgs.all wellFormedAddrDoc &&
  msgs.any (fun m => ownAddr m != m.ip) && holdsAddrs msgs failed r

def wellFormedRoute (m : RouteMsg) : Bool :=
  m.isRoute && m.family == 10 && m.dst.valid && !m.dst.v4 && m.dst.val / 2^32 != 0xffff

def routeOf (m : RouteMsg) (r : SysRoute) : Bool :=
  r.pfx.addr == m.dst && r.pfx.bits == m.dlen && r.index == m.oif &&
  r.preference == (match m.pref with | some p => p | none => 0)

def zipAllR : List RouteMsg → List SysRoute → Bool
  | [], [] => true
  | m :: ms, a :: as => routeOf m a && zipAllR ms as
  | _, _ => false

def holdsRoutes (msgs : List RouteMsg) (failed : Bool) (r : Res SysRoute) : Bool :=
  if failed || msgs.isEmpty then r == .nil failed
  else if !msgs.all wellFormedRoute then r == .panic
  else match r with
    | .ok l => zipAllR msgs l
    | _ => false

/-- the documented behaviour: a route message without destination attribute and with destination
    length 0 is the default route `::/0` (and is a route like any other) -/
def holdsRoutesDocStrict (msgs : List RouteMsg) (failed : Bool) (r : Res SysRoute) : Bool :=
  holdsRoutes (msgs.map (normRoute true)) failed r

def wellFormedRouteDoc (m : RouteMsg) : Bool := m.isRoute && m.family == 10 && m.dst.valid && !m.dst.v4

/-- one entry per message in dump order; an IPv4-mapped route may be left out -/
def zipAllRDoc : List RouteMsg → List SysRoute → Bool
  | [], [] => true
  | [], _ :: _ => false
  | m :: ms, [] => mapped m.dst && zipAllRDoc ms []
  | m :: ms, a :: as =>
    (routeOf m a && zipAllRDoc ms as) || (mapped m.dst && zipAllRDoc ms (a :: as))

/-- …and an IPv4-mapped route (`unreachable ::ffff:0.0.0.0/96 dev lo`) is not a broken invariant -/
def holdsRoutesDoc (msgs : List RouteMsg) (failed : Bool) (r : Res SysRoute) : Bool :=
  let ms := msgs.map (normRoute true)
  if failed || ms.isEmpty then r == .nil failed
  else if !ms.all wellFormedRouteDoc then r == .panic
  else match r with
    | .ok l => zipAllRDoc ms l
    | .nil e => !e && zipAllRDoc ms []
    | .panic => false

/-- class of finding F-27 (routes) -/
def mappedRouteClass (msgs : List RouteMsg) (failed : Bool) (r : Res SysRoute) : Bool :=
  let ms := msgs.map (normRoute true)
  !failed && ms.all wellFormedRouteDoc && ms.any (fun m => mapped m.dst) && r == .panic

/-- class of finding F-18: the dump is otherwise well formed and contains a default route
    without `RTA_DST`, and the implementation panicked -/
def defaultRouteClass (msgs : List RouteMsg) (failed : Bool) (r : Res SysRoute) : Bool :=
  !failed && msgs.any (fun m => m.dstAbsent && m.dlen == 0) &&
    (msgs.map (normRoute true)).all wellFormedRoute && r == .panic

end Corerad.Spec.C13Addresser
