/-
  C13/C14/C15 oracle, OS-glue part — what `AddressesByIndex` / `routesByIndex` must make of an
  rtnetlink dump, stated declaratively, message by message, with the bit *positions* of
  linux/if_addr.h (the model uses the masks):

      IFA_F_TEMPORARY       bit 0      IFA_F_DEPRECATED     bit 5     IFA_F_TENTATIVE  bit 6
      IFA_F_MANAGETEMPADDR  bit 8      IFA_F_STABLE_PRIVACY bit 11

    * a failing request, or an empty dump, yields `(nil, err)`;
    * a message that is not an AF_INET6 address message with attributes and a 16-byte,
      non-IPv4-mapped address is a broken invariant: the call panics;
    * otherwise the result has exactly one entry per message, in dump order; entry `k` has the
      address and prefix length of message `k`, each boolean is its flag bit, and
      `ValidForever` ⇔ the cache-info valid lifetime is 2³²−1.
-/
import Corerad.Model.Addresser

namespace Corerad.Spec.C13Addresser

open Corerad Corerad.Model Corerad.Model.Addresser

def wellFormedAddr (m : AddrMsg) : Bool :=
  m.isAddr && m.family == 10 && m.hasAttrs && m.ip.valid && !m.ip.v4 && m.ip.val / 2^32 != 0xffff

/-- entry `a` is message `m`, field by field -/
def entryOf (m : AddrMsg) (a : SysIP) : Bool :=
  a.addr.addr == m.ip && a.addr.bits == m.plen &&
  a.temporary == m.flags.testBit 0 &&
  a.deprecated == m.flags.testBit 5 &&
  a.tentative == m.flags.testBit 6 &&
  a.manageTemp == m.flags.testBit 8 &&
  a.stablePrivacy == m.flags.testBit 11 &&
  a.validForever == (m.valid == 4294967295)

def zipAll : List AddrMsg → List SysIP → Bool
  | [], [] => true
  | m :: ms, a :: as => entryOf m a && zipAll ms as
  | _, _ => false

def holdsAddrs (msgs : List AddrMsg) (failed : Bool) (r : Res SysIP) : Bool :=
  if failed || msgs.isEmpty then r == .nil failed
  else if !msgs.all wellFormedAddr then r == .panic
  else match r with
    | .ok l => zipAll msgs l
    | _ => false

def wellFormedRoute (m : RouteMsg) : Bool :=
  m.isRoute && m.family == 10 && m.dst.valid && !m.dst.v4 && m.dst.val / 2^32 != 0xffff

def routeOf (m : RouteMsg) (r : SysRoute) : Bool :=
  r.pfx.addr == m.dst && r.pfx.bits == m.dlen && r.index == m.oif &&
  r.preference == (match m.pref with | some p => p | none => 0)

def zipAllR : List RouteMsg → List SysRoute → Bool
  | [], [] => true
  | m :: ms, a :: as => routeOf m a && zipAllR ms as
  | _, _ => false

def holdsRoutes (msgs : List RouteMsg) (failed : Bool) (r : Res SysRoute) : Bool :=
  if failed || msgs.isEmpty then r == .nil failed
  else if !msgs.all wellFormedRoute then r == .panic
  else match r with
    | .ok l => zipAllR msgs l
    | _ => false

/-- the documented behaviour: a route message without destination attribute and with destination
    length 0 is the default route `::/0` (and is a route like any other) -/
def holdsRoutesDoc (msgs : List RouteMsg) (failed : Bool) (r : Res SysRoute) : Bool :=
  holdsRoutes (msgs.map (normRoute true)) failed r

/-- class of finding F-18: the dump is otherwise well formed and contains a default route
    without `RTA_DST`, and the implementation panicked -/
def defaultRouteClass (msgs : List RouteMsg) (failed : Bool) (r : Res SysRoute) : Bool :=
  !failed && msgs.any (fun m => m.dstAbsent && m.dlen == 0) &&
    (msgs.map (normRoute true)).all wellFormedRoute && r == .panic

end Corerad.Spec.C13Addresser
