/-
  C06 oracle — on the observed multicast transmissions of one (re)initialised interface.
-/
import Corerad.Basic

namespace Corerad.Spec.C06

open Corerad

/-- consecutive instants at least `gap` apart -/
def spaced (gap : Dur) : List Time → Bool
  | [] => true
  | [_] => true
  | a :: b :: r => decide (a + gap ≤ b) && spaced gap (b :: r)

/-- every trigger at `t` (before the stop instant minus the gap) is followed by a multicast RA
    within `[t, t + gap]` -/
def served (gap : Dur) (stop : Time) (triggers sends : List Time) : Bool :=
  triggers.all fun t => decide (stop < t + gap) || sends.any fun s => decide (t ≤ s) && decide (s ≤ t + gap)

/-- `sends` = instants of every all-nodes RA including the initial one, ascending; the RFC
    literal 3 s on purpose -/
def holds (stop : Time) (triggers sends : List Time) : Bool :=
  spaced (3 * second) sends && served (3 * second) stop triggers sends

end Corerad.Spec.C06
