/-
  C16 oracle: lifetimes advertised for a deprecated prefix/route over a non-decreasing
  sequence of clock readings.
-/
import Corerad.Basic

namespace Corerad.Spec.C16

open Corerad

/-- time remaining until `epoch + L`, clamped at zero -/
def remaining (epoch : Time) (L : Dur) (now : Time) : Dur := max 0 (epoch + L - now)

/-- One observation `(now, valid, pref)` of a prefix stanza. -/
def prefixObsOk (deprecated : Bool) (epoch : Time) (V P : Dur) (o : Time × Dur × Dur) : Bool :=
  let (now, v, p) := o
  if deprecated then
    v == remaining epoch V now && p == remaining epoch P now && decide (0 ≤ v) && decide (0 ≤ p) &&
      decide (p ≤ v) && (decide (now < epoch + V) || v == 0) && (decide (now < epoch + P) || p == 0)
  else v == V && p == P

/-- consecutive observations never increase (clock readings are non-decreasing) -/
def antitone : List (Time × Dur × Dur) → Bool
  | [] => true
  | [_] => true
  | (t1, v1, p1) :: (t2, v2, p2) :: rest =>
    (decide (t2 < t1) || (decide (v2 ≤ v1) && decide (p2 ≤ p1))) && antitone ((t2, v2, p2) :: rest)

def holdsPrefix (deprecated : Bool) (epoch : Time) (V P : Dur) (obs : List (Time × Dur × Dur)) : Bool :=
  obs.all (prefixObsOk deprecated epoch V P) && (!deprecated || antitone obs)

def routeObsOk (deprecated : Bool) (epoch : Time) (L : Dur) (o : Time × Dur) : Bool :=
  let (now, l) := o
  if deprecated then l == remaining epoch L now && decide (0 ≤ l) && (decide (now < epoch + L) || l == 0)
  else l == L

def antitoneR : List (Time × Dur) → Bool
  | [] => true
  | [_] => true
  | (t1, l1) :: (t2, l2) :: rest => (decide (t2 < t1) || decide (l2 ≤ l1)) && antitoneR ((t2, l2) :: rest)

def holdsRoute (deprecated : Bool) (epoch : Time) (L : Dur) (obs : List (Time × Dur)) : Bool :=
  obs.all (routeObsOk deprecated epoch L) && (!deprecated || antitoneR obs)

/-! ### observations over a span of clock readings

When the implementation reads the injected clock more than once while it builds one RA, the
harness's clock moves between the reads: the readings lie in `[lo, hi]`. The property then
pins each lifetime between the remaining times at `hi` and at `lo` (hence zero once `lo` has
reached the deadline and positive while `hi` has not), and still demands `preferred ≤ valid`,
non-negativity and antitonicity from one RA to the next. For `lo = hi` this is
`prefixObsOk` / `routeObsOk` (`Props.C16.span_point_*`). -/

def prefixSpanOk (deprecated : Bool) (epoch : Time) (V P : Dur) (o : Time × Time × Dur × Dur) : Bool :=
  let (lo, hi, v, p) := o
  if deprecated then
    decide (remaining epoch V hi ≤ v) && decide (v ≤ remaining epoch V lo) &&
    decide (remaining epoch P hi ≤ p) && decide (p ≤ remaining epoch P lo) &&
    decide (0 ≤ v) && decide (0 ≤ p) && decide (p ≤ v)
  else v == V && p == P

def routeSpanOk (deprecated : Bool) (epoch : Time) (L : Dur) (o : Time × Time × Dur) : Bool :=
  let (lo, hi, l) := o
  if deprecated then decide (remaining epoch L hi ≤ l) && decide (l ≤ remaining epoch L lo) && decide (0 ≤ l)
  else l == L

def holdsPrefixSpan (deprecated : Bool) (epoch : Time) (V P : Dur) (obs : List (Time × Time × Dur × Dur)) : Bool :=
  obs.all (prefixSpanOk deprecated epoch V P) &&
    (!deprecated || antitone (obs.map fun (lo, _, v, p) => (lo, v, p)))

def holdsRouteSpan (deprecated : Bool) (epoch : Time) (L : Dur) (obs : List (Time × Time × Dur)) : Bool :=
  obs.all (routeSpanOk deprecated epoch L) &&
    (!deprecated || antitoneR (obs.map fun (lo, _, l) => (lo, l)))

end Corerad.Spec.C16
