/-
  C03 oracle — field-level model of the RA wire format (RFC 4861/4191/8106/8781/8910 as
  implemented by mdlayher/ndp): which RAs encode, and what decoding returns.
-/
import Corerad.Model.RA

namespace Corerad.Spec.C03

open Corerad Corerad.Model

/-- `0 ≤ d` and `d / unit` fits `bits` bits -/
def fits (d unit : Dur) (bits : Nat) : Bool := decide (0 ≤ d) && decide (d / unit < 2^bits)

def canonical6 (a : IP) (len : Nat) : Bool :=
  a.is6 && decide (len ≤ 128) && Prefix.maskVal 128 len a.val == a.val && decide (a.val < 2^128)

def nat64Len (b : Nat) : Bool := b == 96 || b == 64 || b == 56 || b == 48 || b == 40 || b == 32

def encodable : Opt → Bool
  | .pi a len _ _ v p => canonical6 a len && fits v second 32 && fits p second 32
  | .ri a len pref l => canonical6 a len && (pref == 0 || pref == 1 || pref == 3) && fits l second 32
  | .rdnss l servers => !servers.isEmpty && decide (servers.length ≤ 127) && servers.all (·.is6) && fits l second 32
  | .dnssl l names => !names.isEmpty && !names.contains 0 && fits l second 32   -- id 0: the empty name ends the list on the wire (F-25)
  | .mtu m => decide (0 ≤ m) && decide (m < 2^32)
  | .lla len _ => len == 6
  | .captivePortal _ len => decide (1 ≤ len) && decide (len ≤ 246)
  | .pref64 p l =>
    p.addr.is6 && !p.addr.is4In6 && nat64Len p.bits && p.masked == p &&
    decide (0 ≤ l) && l % (8 * second) == 0 && decide (l / (8 * second) ≤ 8191)

/-- every duration within its field's range and every option encodable -/
def wireSafe (ra : RA) : Bool :=
  decide (ra.hopLimit ≤ 255) && (ra.preference == 0 || ra.preference == 1 || ra.preference == 3) &&
  fits ra.routerLifetime second 16 && fits ra.reachable ms 32 && fits ra.retransmit ms 32 &&
  ra.options.all encodable

def trunc (d unit : Dur) : Dur := d - d % unit

def truncOpt : Opt → Opt
  | .pi a len ol au v p => .pi a len ol au (trunc v second) (trunc p second)
  | .ri a len pref l => .ri a len pref (trunc l second)
  | .rdnss l s => .rdnss (trunc l second) s
  | .dnssl l n => .dnssl (trunc l second) n
  | o => o

/-- what decoding the encoded RA returns: every duration truncated to its field's unit -/
def truncateRA (ra : RA) : RA :=
  { ra with routerLifetime := trunc ra.routerLifetime second, reachable := trunc ra.reachable ms,
            retransmit := trunc ra.retransmit ms, options := ra.options.map truncOpt }

/-! ### the codec's unit conversion, exactly

`mdlayher/ndp` writes a lifetime as `uint32(d.Seconds())`, and `time.Duration.Seconds` is
`float64(d / Second) + float64(d % Second) / 1e9`. Both conversions to `float64` are exact (the values
are below 2^53); the division and the addition each round to the nearest double, ties to even. The
functions below compute that value exactly, in integer arithmetic: `d.Seconds()` can come out as the
*next* whole second when the fraction is within half an ulp of 1 (finding K-1). -/

def bitLen (n : Nat) : Nat := if n = 0 then 0 else n.log2 + 1

/-- round `n / 2^shift` to the nearest integer, ties to even -/
def shiftRoundEven (n shift : Nat) : Nat :=
  if shift = 0 then n
  else
    let q := n / 2^shift
    let r := n % 2^shift
    let half := 2^(shift - 1)
    if r > half ∨ (r = half ∧ q % 2 = 1) then q + 1 else q

/-- `float64(num) / float64(den)` for `0 < num < den < 2^53`, as `(m, k)` with value `m / 2^k`
    (`m ≤ 2^53`): the quotient rounded to a 53-bit significand, ties to even -/
def divRound (num den : Nat) : Nat × Nat :=
  if num = 0 ∨ den = 0 then (0, 0)
  else
    let k0 := 52 + bitLen den - bitLen num
    let k := if num * 2^k0 / den < 2^52 then k0 + 1 else if num * 2^k0 / den ≥ 2^53 then k0 - 1 else k0
    let t := num * 2^k
    let m := t / den
    let r := t % den
    if 2 * r > den ∨ (2 * r = den ∧ m % 2 = 1) then (m + 1, k) else (m, k)

/-- `uint32(d.Seconds())` for `0 ≤ d`, in seconds (before the conversion to `uint32`, which is the
    identity within the field's range) -/
def floatSeconds (d : Dur) : Int :=
  let n := d.toNat
  let sec := n / 1000000000
  let nsec := n % 1000000000
  let (m, k) := divRound nsec 1000000000
  -- sec + m / 2^k = N / 2^k, rounded to 53 bits, then truncated
  let N := sec * 2^k + m
  let b := bitLen N
  let shift := b - 53
  let N' := shiftRoundEven N shift
  ((N' * 2^shift) / 2^k : Nat)

/-- `got` is `orig` truncated to a second, or what the float64 conversion makes of it -/
def secOk (orig got : Dur) : Bool :=
  got == trunc orig second || (decide (0 ≤ orig) && got == floatSeconds orig * second)

/-- does the float64 conversion differ from truncation for this lifetime (K-1) -/
def floatRoundsUp (d : Dur) : Bool := decide (0 ≤ d) && floatSeconds d * second != trunc d second

def optFloatOk : Opt → Opt → Bool
  | .pi a len ol au v p, .pi a' len' ol' au' v' p' =>
    a == a' && len == len' && ol == ol' && au == au' && secOk v v' && secOk p p'
  | .ri a len pref l, .ri a' len' pref' l' => a == a' && len == len' && pref == pref' && secOk l l'
  | .rdnss l s, .rdnss l' s' => secOk l l' && s == s'
  | .dnssl l n, .dnssl l' n' => secOk l l' && n == n'
  | o, o' => o == o'

def optsFloatOk : List Opt → List Opt → Bool
  | [], [] => true
  | o :: os, o' :: os' => optFloatOk o o' && optsFloatOk os os'
  | _, _ => false

/-- equal to the truncation except that second-fields may carry the float64 conversion's value -/
def eqUpToFloatRounding (ra got : RA) : Bool :=
  let t := truncateRA ra
  { got with options := [] } == { t with options := [] } && optsFloatOk ra.options got.options

/-- The oracle on one accepted configuration × system state for which generation succeeded:
    the RA must be wire safe, encoding must succeed, and decoding must return the truncation. -/
def holds (status : String) (ra : Option RA) (wire : String) (decoded : Option RA) : Bool × String :=
  if status == "rej" || status == "err" then (true, "")
  else if status != "ok" then (false, s!"implementation reported {status}")
  else match ra with
    | none => (false, "no RA")
    | some ra =>
      if !wireSafe ra then (false, "RA of an accepted configuration is not wire safe (a duration out of range or an option that cannot be encoded)")
      else if wire != "wire" then (false, s!"encoding/decoding failed: {wire}")
      else match decoded with
        | none => (false, "no decoded RA")
        | some d =>
          if d == truncateRA ra then (true, "")
          else if eqUpToFloatRounding ra d then
            (false, "class=float-seconds-rounding a lifetime is rounded up to the next whole second, not truncated, by the codec's float64 Seconds() conversion (exactly the value float64 arithmetic yields)")
          else (false, "decoded RA differs from the advertisement beyond truncation to the field unit")

end Corerad.Spec.C03
