/-
  C07 oracle — on the observed transmissions and counters of one advertiser run.
-/
import Corerad.Basic

namespace Corerad.Spec.C07

open Corerad

/-- remove the first element satisfying `p` -/
def removeFirst (p : α → Bool) : List α → Option (List α)
  | [] => none
  | x :: xs => if p x then some xs else (removeFirst p xs).map (x :: ·)

/-- Greedy matching of unicast transmissions (in time order) to solicitations (in time order):
    every transmission `(tw, h)` must answer a distinct solicitation `(t, h)` with
    `t ≤ tw < t + 500 ms`; returns the solicitations left unanswered. -/
def matchWrites : List (Time × Nat) → List (Time × Nat) → Option (List (Time × Nat))
  | rs, [] => some rs
  | rs, (tw, h) :: ws =>
    match removeFirst (fun (r : Time × Nat) => r.2 == h && decide (r.1 ≤ tw) && decide (tw < r.1 + 500 * ms)) rs with
    | none => none
    | some rs' => matchWrites rs' ws

/-- `rs`: valid solicitations from specified sources `(arrival, host)`, time-ordered;
    `writes`: unicast transmissions `(instant, host)`, time-ordered; `stop`: the instant the
    interface was stopped (solicitations whose 500 ms window reaches `stop` may stay
    unanswered). -/
def unicastExactlyOnce (stop : Time) (rs writes : List (Time × Nat)) : Bool :=
  match matchWrites rs writes with
  | none => false           -- a transmission that answers no solicitation, or answers one twice
  | some left => left.all fun r => decide (stop < r.1 + 500 * ms)

structure Counters where
  sentUnicast : Nat
  sentMulticast : Nat
  errorsTransmit : Nat
  recv : List Nat          -- by message type
  invalid : List Nat
deriving DecidableEq, Repr

end Corerad.Spec.C07
