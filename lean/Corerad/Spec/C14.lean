/-
  C14 oracle — the documented ranking for the `::` RDNSS wildcard.
-/
import Corerad.Model.Wild

namespace Corerad.Spec.C14

open Corerad Corerad.Model

/-- IPv6 and not deprecated, temporary or tentative -/
def eligible (a : SysIP) : Bool :=
  !a.addr.addr.is4 && !a.deprecated && !a.temporary && !a.tentative

/-- documented order: unique-local, then global unicast, then link-local, then anything else -/
def addrClass (ip : IP) : Nat :=
  if ip.isPrivate then 0 else if ip.isGlobalUnicast then 1 else if ip.isLinkLocalUnicast then 2 else 3

/-- total ranking key (smaller is better): stability first, then class, then the address -/
def rank (a : SysIP) : Nat :=
  (if isStable a then 0 else 1) * 2^140 + addrClass a.addr.addr * 2^136 + addrKey a.addr.addr

/-- `res = some (chosen :: static)` with `chosen` the address of a rank-minimal eligible
    entry; `res = none` (RA generation fails) iff no entry is eligible. -/
def holds (static : List IP) (as : List SysIP) (res : Option (List IP)) : Bool :=
  match res with
  | none => as.all (fun a => !eligible a)
  | some [] => false
  | some (ip :: rest) =>
    rest == static &&
    as.any (fun a => eligible a && a.addr.addr == ip && as.all (fun b => !eligible b || decide (rank a ≤ rank b)))

end Corerad.Spec.C14
