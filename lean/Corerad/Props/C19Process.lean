/-
  C19, OS-glue part — `process` / `operStateChange` of internal/netstate/watcher_linux.go, and
  their composition with the verified `notify`.

  All list theorems quantify over every batch of messages (any length, any mix of message
  types, nil attributes, any `uint8` state and beyond, any interface names) and are proved by
  induction on the batch.  Model: Model/Process.lean; oracle evaluated on the implementation's
  change set: Spec/C19Process.lean; `notify` and its theorems: Model/Watcher.lean, Props/C19.lean.
-/
import Corerad.Spec.C19Process
import Corerad.Props.C19
import Corerad.Lemmas.ListUtil

namespace Corerad.Props.C19Process

open Corerad Corerad.Model Corerad.Model.Process Corerad.Spec.C19Process

/-! ### the state table -/

/-- The `switch` of `operStateChange` is the documented table, for every numeric state (the
    regenerated bit values of change.go on the left, RFC literals on the right). -/
theorem mapping_eq_table (s : Nat) : operStateChange s = changeOf s := by
  match s with
  | 0 | 1 | 2 | 3 | 4 | 5 | 6 => decide
  | n + 7 =>
    simp [operStateChange, changeOf, stateTable, List.lookup]
    repeat' (first | omega | constructor)

/-- Every known operational state (0 … 6) has a Change, and nothing else has. -/
theorem mapping_total_on_known :
    (∀ s : Fin 7, (operStateChange s.val).isSome = true) ∧
    (∀ s, 7 ≤ s → operStateChange s = none) := by
  refine ⟨by decide, ?_⟩
  intro s hs
  obtain ⟨n, rfl⟩ : ∃ n, s = n + 7 := ⟨s - 7, by omega⟩
  rfl

/-- Up ↔ LinkUp, Down ↔ LinkDown, Testing, Unknown, Dormant, NotPresent, LowerLayerDown: the
    table by name, and its image is exactly the seven `Link*` bits. -/
theorem mapping_table :
    operStateChange 6 = some 1 ∧ operStateChange 2 = some 2 ∧ operStateChange 4 = some 4 ∧
    operStateChange 0 = some 8 ∧ operStateChange 5 = some 16 ∧ operStateChange 1 = some 32 ∧
    operStateChange 3 = some 64 ∧
    ∀ k : Fin 7, ∃ s : Fin 7, operStateChange s.val = some (2 ^ k.val) := by
  decide

/-- Two states with the same Change are the same state. -/
theorem mapping_injective (a b c : Nat) (ha : operStateChange a = some c)
    (hb : operStateChange b = some c) : a = b := by
  have key : ∀ a b : Fin 7, ∀ c, operStateChange a.val = some c → operStateChange b.val = some c →
      a = b := by decide
  have la : a < 7 := by
    apply Decidable.byContradiction; intro h
    rw [mapping_total_on_known.2 a (by omega)] at ha; cases ha
  have lb : b < 7 := by
    apply Decidable.byContradiction; intro h
    rw [mapping_total_on_known.2 b (by omega)] at hb; cases hb
  have := key ⟨a, la⟩ ⟨b, lb⟩ c ha hb
  exact congrArg Fin.val this

/-- A recognised state never maps to the zero Change (so every delivered value is a real bit). -/
theorem mapping_nonzero (s c : Nat) (h : operStateChange s = some c) : c ≠ 0 ∧ c &&& 127 = c := by
  have key : ∀ s : Fin 7, ∀ c, operStateChange s.val = some c → c ≠ 0 ∧ c &&& 127 = c := by decide
  have ls : s < 7 := by
    apply Decidable.byContradiction; intro hn
    rw [mapping_total_on_known.2 s (by omega)] at h; cases h
  exact key ⟨s, ls⟩ c h

/-! ### one message -/

/-- what message `m` adds for interface `i` -/
def sel (i : Nat) (m : Msg) : Option Nat :=
  match contrib m with
  | some p => if p.1 = i then some p.2 else none
  | none => none

/-- A message contributes iff it is a link message with attributes and a recognised state; the
    contribution is then `(its interface, the table's Change)`.  Non-link messages, nil
    attributes and unrecognised states contribute nothing. -/
theorem contrib_iff (m : Msg) (p : Nat × Nat) :
    contrib m = some p ↔
      m.kind = 0 ∧ m.hasAttrs = true ∧ p.1 = m.iface ∧ changeOf m.oper = some p.2 := by
  unfold contrib
  rw [← mapping_eq_table]
  by_cases hk : m.kind = 0 <;> cases ha : m.hasAttrs <;> cases ho : operStateChange m.oper <;>
    simp [hk]
  · constructor
    · rintro rfl; exact ⟨rfl, rfl⟩
    · rintro ⟨h1, h2⟩; exact Prod.ext h1.symm h2

theorem contrib_none_iff (m : Msg) : contrib m = none ↔ counts m = false := by
  unfold contrib counts
  rw [← mapping_eq_table]
  by_cases hk : m.kind = 0 <;> cases ha : m.hasAttrs <;> cases ho : operStateChange m.oper <;>
    simp [hk]

theorem sel_eq (i : Nat) (m : Msg) :
    sel i m = if (counts m && m.iface == i) = true then changeOf m.oper else none := by
  unfold sel
  cases hc : contrib m with
  | none =>
    have := (contrib_none_iff m).mp hc
    simp [this]
  | some p =>
    obtain ⟨h1, h2, h3, h4⟩ := (contrib_iff m p).mp hc
    have hcnt : counts m = true := by simp [counts, h1, h2, h4]
    by_cases hi : m.iface = i
    · simp [hcnt, hi, h3, h4]
    · have : ¬ p.1 = i := by rw [h3]; exact hi
      simp [hcnt, hi, this]

/-! ### the change set -/

theorem lookup_addChange (cs : ChangeSet) (j c i : Nat) :
    lookup (addChange cs j c) i = if j = i then lookup cs i ++ [c] else lookup cs i := by
  induction cs with
  | nil => by_cases h : j = i <;> simp [addChange, lookup, h]
  | cons e cs ih =>
    unfold addChange
    by_cases he : e.1 = j
    · by_cases hji : j = i
      · simp [he, hji, lookup]
      · have : ¬ e.1 = i := by rw [he]; exact hji
        simp [he, hji, lookup]
    · by_cases hei : e.1 = i
      · have hji : ¬ j = i := fun h => he (by rw [hei, h])
        have hij : ¬ i = j := fun h => hji h.symm
        simp [hei, lookup, hji, hij]
      · simp [he, hei, lookup, ih]

theorem keys_addChange (cs : ChangeSet) (j c : Nat) :
    keys (addChange cs j c) = if j ∈ keys cs then keys cs else keys cs ++ [j] := by
  induction cs with
  | nil => simp [addChange, keys]
  | cons e cs ih =>
    unfold addChange
    by_cases he : e.1 = j
    · simp [he, keys]
    · have hne : ¬ j = e.1 := fun h => he h.symm
      unfold keys at ih
      by_cases hm : j ∈ List.map (·.1) cs
      · simp [he, keys, hne, hm, ih]
      · simp [he, keys, hne, hm, ih]

/-- a change set as `process` builds it: a map (every interface once), no empty entry, and
    every entry is what `lookup` finds -/
def Good (cs : ChangeSet) : Prop :=
  (keys cs).Nodup ∧ ∀ e ∈ cs, e.2 ≠ [] ∧ lookup cs e.1 = e.2

theorem good_addChange (cs : ChangeSet) (j c : Nat) (h : Good cs) : Good (addChange cs j c) := by
  induction cs with
  | nil =>
    refine ⟨by simp [addChange, keys], ?_⟩
    intro e he
    simp only [addChange, List.mem_singleton] at he
    subst he
    simp [addChange, lookup]
  | cons e cs ih =>
    obtain ⟨hnd, hent⟩ := h
    have hnd' : e.1 ∉ keys cs ∧ (keys cs).Nodup := by simpa [keys] using hnd
    have hgood : Good cs := by
      refine ⟨hnd'.2, ?_⟩
      intro f hf
      have := hent f (List.mem_cons_of_mem _ hf)
      have hne : ¬ e.1 = f.1 := fun h => hnd'.1 (by rw [h]; exact List.mem_map.mpr ⟨f, hf, rfl⟩)
      simpa [lookup, hne] using this
    refine ⟨?_, ?_⟩
    · rw [keys_addChange]; split
      · exact hnd
      · rename_i hm
        rw [List.nodup_append]
        refine ⟨hnd, by simp, ?_⟩
        intro a ha b hb
        simp only [List.mem_singleton] at hb
        subst hb
        exact fun h => hm (h ▸ ha)
    · intro f hf
      unfold addChange at hf ⊢
      by_cases he : e.1 = j
      · simp only [he, if_true, List.mem_cons] at hf ⊢
        rcases hf with rfl | hf
        · simp [lookup]
        · have := hent f (List.mem_cons_of_mem _ hf)
          have hne : ¬ e.1 = f.1 := fun h => hnd'.1 (by rw [h]; exact List.mem_map.mpr ⟨f, hf, rfl⟩)
          have hne' : ¬ j = f.1 := by rw [← he]; exact hne
          simpa [lookup, hne, hne'] using this
      · simp only [he, if_false, List.mem_cons] at hf ⊢
        rcases hf with rfl | hf
        · have := hent f List.mem_cons_self
          simpa [lookup] using this
        · obtain ⟨_, hent'⟩ := ih hgood
          have := hent' f hf
          have hne : ¬ e.1 = f.1 := by
            intro h
            have hk : f.1 ∈ keys (addChange cs j c) := List.mem_map.mpr ⟨f, hf, rfl⟩
            rw [keys_addChange] at hk
            split at hk
            · exact hnd'.1 (h ▸ hk)
            · rcases List.mem_append.mp hk with hk | hk
              · exact hnd'.1 (h ▸ hk)
              · simp only [List.mem_singleton] at hk
                exact he (h.trans hk)
          simpa [lookup, hne] using this

theorem good_stepMsg (cs : ChangeSet) (m : Msg) (h : Good cs) : Good (stepMsg cs m) := by
  unfold stepMsg
  cases contrib m with
  | none => exact h
  | some p => exact good_addChange cs p.1 p.2 h

theorem good_foldl (msgs : List Msg) (cs : ChangeSet) (h : Good cs) : Good (msgs.foldl stepMsg cs) := by
  induction msgs generalizing cs with
  | nil => exact h
  | cons m msgs ih => exact ih _ (good_stepMsg cs m h)

theorem lookup_stepMsg (cs : ChangeSet) (m : Msg) (i : Nat) :
    lookup (stepMsg cs m) i = lookup cs i ++ (sel i m).toList := by
  unfold stepMsg sel
  cases contrib m with
  | none => simp
  | some p =>
    simp only [lookup_addChange]
    by_cases h : p.1 = i <;> simp [h]

theorem lookup_foldl (msgs : List Msg) (cs : ChangeSet) (i : Nat) :
    lookup (msgs.foldl stepMsg cs) i = lookup cs i ++ msgs.filterMap (sel i) := by
  induction msgs generalizing cs with
  | nil => simp
  | cons m msgs ih =>
    rw [List.foldl_cons, ih, lookup_stepMsg, List.append_assoc]
    congr 1
    cases h : sel i m <;> simp [h]

/-- **process_exact.**  For every batch and every interface: the interface's list in the change
    set is the filter-map of the message list — one Change per link message of that interface
    with attributes and a recognised state, in message order; every other message adds
    nothing, to this or to any other interface. -/
theorem process_exact (msgs : List Msg) (i : Nat) :
    lookup (process msgs) i = msgs.filterMap (sel i) := by
  unfold process
  rw [lookup_foldl]
  simp [lookup]

theorem filterMap_sel (msgs : List Msg) (i : Nat) : msgs.filterMap (sel i) = changesFor msgs i := by
  unfold changesFor
  induction msgs with
  | nil => rfl
  | cons m msgs ih =>
    rw [List.filterMap_cons, sel_eq]
    by_cases h : (counts m && m.iface == i) = true
    · simp only [List.filter_cons, h, if_true, List.filterMap_cons]
      cases changeOf m.oper <;> simp [ih]
    · simp only [List.filter_cons, h]
      simpa using ih

/-- …the same against the documented table (the oracle's `changesFor`). -/
theorem process_exact_spec (msgs : List Msg) (i : Nat) :
    lookup (process msgs) i = changesFor msgs i := by
  rw [process_exact, filterMap_sel]

/-- Exactly one Change per counting message: the total number of changes in the set, summed
    over an interface, is the number of that interface's counting messages. -/
theorem process_count (msgs : List Msg) (i : Nat) :
    (lookup (process msgs) i).length = (msgs.filter fun m => counts m && m.iface == i).length := by
  rw [process_exact_spec]
  unfold changesFor
  induction msgs with
  | nil => rfl
  | cons m msgs ih =>
    by_cases h : (counts m && m.iface == i) = true
    · have hc : (changeOf m.oper).isSome = true := by
        simp only [counts, Bool.and_eq_true] at h; exact h.1.2
      obtain ⟨c, hc⟩ := Option.isSome_iff_exists.mp hc
      simp only [List.filter_cons, h, if_true, List.filterMap_cons, hc, List.length_cons]
      rw [ih]
    · simp only [List.filter_cons, h]; exact ih

/-- The change set is a map: every interface appears at most once, no entry is empty, and each
    entry is that interface's list. -/
theorem process_good (msgs : List Msg) : Good (process msgs) :=
  good_foldl msgs [] ⟨by simp [keys], by simp⟩

theorem mem_keys_of_lookup {cs : ChangeSet} {i : Nat} (h : lookup cs i ≠ []) : i ∈ keys cs := by
  induction cs with
  | nil => simp [lookup] at h
  | cons e cs ih =>
    by_cases he : e.1 = i
    · simp [keys, he]
    · simp only [lookup, he, if_false] at h
      have := ih h
      simp only [keys, List.map_cons, List.mem_cons]
      exact Or.inr this

/-- An interface has an entry iff at least one of its messages counts. -/
theorem mem_keys_iff (msgs : List Msg) (i : Nat) :
    i ∈ keys (process msgs) ↔ ∃ m ∈ msgs, counts m = true ∧ m.iface = i := by
  constructor
  · intro hi
    obtain ⟨e, he, rfl⟩ := List.mem_map.mp hi
    obtain ⟨hne, hl⟩ := (process_good msgs).2 e he
    rw [process_exact_spec] at hl
    have : changesFor msgs e.1 ≠ [] := by rw [hl]; exact hne
    unfold changesFor at this
    have hf : (msgs.filter fun m => counts m && m.iface == e.1) ≠ [] := by
      intro h; rw [h] at this; exact this rfl
    obtain ⟨m, hm⟩ := List.exists_mem_of_ne_nil _ hf
    rw [List.mem_filter] at hm
    simp only [Bool.and_eq_true, beq_iff_eq] at hm
    exact ⟨m, hm.1, hm.2.1, hm.2.2⟩
  · rintro ⟨m, hm, hc, rfl⟩
    apply mem_keys_of_lookup
    intro h
    have := process_count msgs m.iface
    rw [h] at this
    have hmem : m ∈ msgs.filter fun m' => counts m' && m'.iface == m.iface := by
      rw [List.mem_filter]; simp [hm, hc]
    have h2 := List.length_pos_of_mem hmem
    rw [List.length_nil] at this
    omega

/-! ### the model meets the oracle -/

private theorem strictAsc_of_pairwise :
    ∀ l : List Nat, l.Pairwise (· < ·) → strictAsc l = true
  | [], _ => rfl
  | [_], _ => rfl
  | a :: b :: r, h => by
    rw [List.pairwise_cons] at h
    simp only [strictAsc, Bool.and_eq_true, decide_eq_true_eq]
    exact ⟨h.1 b List.mem_cons_self, strictAsc_of_pairwise (b :: r) h.2⟩

private theorem inj_of_nodup_map : ∀ (l : ChangeSet), (l.map (·.1)).Nodup →
    ∀ a ∈ l, ∀ b ∈ l, a.1 = b.1 → a = b
  | [], _, a, ha, _, _, _ => by cases ha
  | e :: l, h, a, ha, b, hb, hab => by
    rw [List.map_cons, List.nodup_cons] at h
    rcases List.mem_cons.mp ha with rfl | ha' <;> rcases List.mem_cons.mp hb with rfl | hb'
    · rfl
    · exact absurd (List.mem_map.mpr ⟨b, hb', hab.symm⟩) h.1
    · exact absurd (List.mem_map.mpr ⟨a, ha', hab⟩) h.1
    · exact inj_of_nodup_map l h.2 a ha' b hb' hab

theorem keys_canon_strict (msgs : List Msg) :
    (keys (canon (process msgs))).Pairwise (· < ·) := by
  obtain ⟨hnd, _⟩ := process_good msgs
  have hnd' : (process msgs).Nodup := by
    unfold keys at hnd
    exact List.Pairwise.of_map (fun e : Nat × List Nat => e.1) (fun a b h e => h (congrArg _ e)) hnd
  have hinj : ∀ a ∈ canon (process msgs), ∀ b ∈ canon (process msgs), a.1 = b.1 → a = b := by
    intro a ha b hb hab
    unfold canon at ha hb
    rw [mem_sortBy] at ha hb
    unfold keys at hnd
    exact inj_of_nodup_map _ hnd a ha b hb hab
  have := strict_of_sorted_nodup (key := fun e : Nat × List Nat => e.1)
    (sorted_sortBy _ (process msgs)) (nodup_sortBy hnd') hinj
  unfold keys canon
  rw [List.pairwise_map]
  exact this

/-- The model's change set, rendered canonically, satisfies the oracle the check evaluates on
    the implementation's change set. -/
theorem holds_model (msgs : List Msg) : holds msgs (canon (process msgs)) = true := by
  unfold holds
  simp only [Bool.and_eq_true, List.all_eq_true, Bool.or_eq_true, Bool.not_eq_true',
    List.contains_eq_mem, decide_eq_true_eq, beq_iff_eq]
  refine ⟨⟨strictAsc_of_pairwise _ (keys_canon_strict msgs), ?_⟩, ?_⟩
  · intro e he
    unfold canon at he
    rw [mem_sortBy] at he
    obtain ⟨hne, hl⟩ := (process_good msgs).2 e he
    rw [process_exact_spec] at hl
    refine ⟨?_, hl.symm⟩
    cases h : e.2 with
    | nil => exact absurd h hne
    | cons _ _ => rfl
  · intro m hm
    by_cases hc : counts m = true
    · right
      have := (mem_keys_iff msgs m.iface).mpr ⟨m, hm, hc, rfl⟩
      obtain ⟨e, he, hk⟩ := List.mem_map.mp this
      unfold keys canon
      exact List.mem_map.mpr ⟨e, mem_sortBy.mpr he, hk⟩
    · left; simpa using hc

/-! ### `process` then `notify` -/

open Corerad.Model.Watcher

/-- the changes of interface `i` in the batch that intersect mask `m`, in message order -/
def matching (msgs : List Msg) (i m : Nat) : List Nat :=
  (changesFor msgs i).filter fun c => m &&& c != 0

theorem offeredSet_of_good (cs : ChangeSet) (h : (keys cs).Nodup) (i m : Nat) :
    offeredSet i m cs = (lookup cs i).filter fun c => m &&& c != 0 := by
  induction cs with
  | nil => simp [offeredSet, lookup]
  | cons e cs ih =>
    have hnd : e.1 ∉ keys cs ∧ (keys cs).Nodup := by simpa [keys] using h
    have ih' := ih hnd.2
    unfold offeredSet at ih' ⊢
    rw [List.flatMap_cons, ih']
    by_cases he : e.1 = i
    · have hl : lookup cs i = [] := by
        apply Decidable.byContradiction; intro hne
        exact hnd.1 (he ▸ mem_keys_of_lookup hne)
      simp only [lookup, he, if_true, hl, List.filter_nil, List.append_nil]
      apply List.filter_congr
      intro c _
      simp [Spec.C19.wants]
    · have hw : ∀ c, Spec.C19.wants i m e.1 c = false := by
        intro c; simp [Spec.C19.wants, he]
      simp [lookup, he, hw]

/-- What `notify(process(msgs))` offers to a subscriber `(i, m)`: exactly the changes of its
    interface whose bit intersects its mask, in message order. -/
theorem process_offers (msgs : List Msg) (i m : Nat) :
    offeredSet i m (process msgs) = matching msgs i m := by
  rw [offeredSet_of_good _ (process_good msgs).1, process_exact_spec]; rfl

theorem deliverList_take (i : Nat) (s : Sub) (l : List Nat) (h : s.buf.length ≤ 8) :
    (deliverList i s l).buf =
      s.buf ++ (l.filter (Spec.C19.wants s.iface s.mask i)).take (8 - s.buf.length) := by
  induction l generalizing s with
  | nil => simp
  | cons c l ih =>
    rw [deliverList_cons, ih _ (deliver_bounded i c s h), deliver_iface, deliver_mask]
    by_cases hw : Spec.C19.wants s.iface s.mask i c = true
    · rw [List.filter_cons_of_pos hw, deliver_of_wants hw]
      by_cases hlt : s.buf.length < 8
      · simp only [hlt, if_true, List.length_append, List.length_singleton]
        have : 8 - s.buf.length = (8 - (s.buf.length + 1)) + 1 := by omega
        rw [this, List.take_succ_cons]
        simp
      · have : 8 - s.buf.length = 0 := by omega
        simp [hlt, this]
    · have hw' : Spec.C19.wants s.iface s.mask i c = false := by simpa using hw
      rw [List.filter_cons_of_neg hw, deliver_of_not_wants hw']

theorem deliverSet_take (s : Sub) (cs : List (Nat × List Nat)) (h : s.buf.length ≤ 8) :
    (deliverSet s cs).buf = s.buf ++ (offeredSet s.iface s.mask cs).take (8 - s.buf.length) := by
  induction cs generalizing s with
  | nil => simp [offeredSet]
  | cons e cs ih =>
    rw [deliverSet_cons, ih _ (deliverList_bounded e.1 s e.2 h), deliverList_iface, deliverList_mask,
      deliverList_take e.1 s e.2 h]
    unfold offeredSet
    rw [List.flatMap_cons, List.take_append, List.append_assoc]
    congr 2
    simp only [List.length_append, List.length_take]
    congr 1
    omega

/-- **process then notify.**  A subscriber to interface `i` with mask `m` whose channel is empty
    receives from `notify(process(msgs))` exactly the changes of the batch on `i` whose bit
    intersects `m`, in message order — up to the 8 the channel holds; later ones are dropped. -/
theorem process_notify_delivers (st : State) (i m : Nat) (msgs : List Msg) :
    bufAt st.length (notify (subscribe st i m) (process msgs)) = (matching msgs i m).take 8 := by
  have h0 : (subscribe st i m)[st.length]? = some { iface := i, mask := m } := by
    simp [subscribe]
  rw [notify_eq_map]
  unfold bufAt
  rw [List.getElem?_map, h0]
  simp only [Option.map_some, Option.getD_some]
  rw [deliverSet_take _ _ (by simp)]
  simp [process_offers]

/-- …all of them when at most 8 match (the usual case: one message per interface and batch). -/
theorem process_notify_exact (st : State) (i m : Nat) (msgs : List Msg)
    (h : (matching msgs i m).length ≤ 8) :
    bufAt st.length (notify (subscribe st i m) (process msgs)) = matching msgs i m := by
  rw [process_notify_delivers, List.take_of_length_le h]

/-- A subscriber with pending events receives a prefix of the matching changes after what it
    already holds, and nothing else; other subscribers' interface, mask and closed-ness are
    untouched (`Props.C19.notify_frame`). -/
theorem process_notify_general (st : State) (j : Nat) (s : Sub) (msgs : List Msg)
    (hs : st[j]? = some s) (hb : s.buf.length ≤ 8) :
    bufAt j (notify st (process msgs)) =
      s.buf ++ (matching msgs s.iface s.mask).take (8 - s.buf.length) := by
  rw [notify_eq_map]
  unfold bufAt
  rw [List.getElem?_map, hs]
  simp only [Option.map_some, Option.getD_some]
  rw [deliverSet_take _ _ hb, process_offers]

/-- A change reaches the subscriber only through the table: what is delivered for a message of
    state `s` is `LinkX` for the documented `X` — e.g. a subscriber to `LinkDown` (2) alone is
    woken by exactly the messages with operational state Down (2). -/
theorem matching_single_bit (msgs : List Msg) (i : Nat) (k : Fin 7) :
    matching msgs i (2 ^ k.val) =
      (changesFor msgs i).filter fun c => c == 2 ^ k.val := by
  unfold matching
  apply List.filter_congr
  intro c hc
  unfold changesFor at hc
  obtain ⟨m, _, hm⟩ := List.mem_filterMap.mp hc
  have key : ∀ (s : Fin 7) (k : Fin 7) (c : Nat), operStateChange s.val = some c →
      ((2 ^ k.val &&& c != 0) = (c == 2 ^ k.val)) := by decide
  rw [← mapping_eq_table] at hm
  have ls : m.oper < 7 := by
    apply Decidable.byContradiction; intro hn
    rw [mapping_total_on_known.2 m.oper (by omega)] at hm; cases hm
  exact key ⟨m.oper, ls⟩ k c hm

/-! ### non-vacuity -/

/-- A batch with two interfaces, a non-link message, a link message without attributes and an
    out-of-range state: two entries, message order kept per interface; the oracle accepts the
    model's rendering and rejects a lost change, a swapped order, a wrong bit, an extra entry. -/
example :
    let msgs : List Msg :=
      [⟨0, true, 1, 6⟩, ⟨1, true, 1, 6⟩, ⟨0, false, 0, 0⟩, ⟨0, true, 0, 2⟩, ⟨0, true, 1, 2⟩,
       ⟨0, true, 1, 7⟩, ⟨0, true, 0, 255⟩, ⟨0, true, 1, 6⟩]
    process msgs = [(1, [1, 2, 1]), (0, [2])] ∧
    canon (process msgs) = [(0, [2]), (1, [1, 2, 1])] ∧
    holds msgs (canon (process msgs)) = true ∧
    holds msgs [(0, [2]), (1, [1, 2])] = false ∧
    holds msgs [(0, [2]), (1, [2, 1, 1])] = false ∧
    holds msgs [(0, [8]), (1, [1, 2, 1])] = false ∧
    holds msgs [(1, [1, 2, 1])] = false ∧
    holds msgs [(0, [2]), (1, [1, 2, 1]), (2, [])] = false ∧
    matching msgs 1 2 = [2] ∧ matching msgs 1 127 = [1, 2, 1] := by
  decide

end Corerad.Props.C19Process
