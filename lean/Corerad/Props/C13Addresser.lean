/-
  C13 / C14 / C15, OS-glue part — `AddressesByIndex` and `routesByIndex` of
  internal/system/addresser_linux.go, and their composition with the verified wildcard
  expansions (`currentPrefixes`, `currentRDNSS`, `currentRoutes` of Model/Wild.lean).

  All theorems quantify over every dump (any length, any order, any message type and family,
  nil attributes, address slices of any length, every 32-bit flag word and beyond, every
  cache-info value) and both outcomes of the request.  Model: Model/Addresser.lean; oracle
  evaluated on the real functions' results: Spec/C13Addresser.lean.
-/
import Corerad.Spec.C13Addresser
import Corerad.Props.C13
import Corerad.Props.C14
import Corerad.Props.C15

namespace Corerad.Props.C13Addresser

open Corerad Corerad.Model Corerad.Model.Addresser Corerad.Spec.C13Addresser

/-! ### the flag word -/

/-- the IFA_F_* masks are single bits: 0, 5, 6, 8, 11 (linux/if_addr.h) -/
theorem masks_are_bits :
    ifaFTemporary = 2 ^ 0 ∧ ifaFDeprecated = 2 ^ 5 ∧ ifaFTentative = 2 ^ 6 ∧
    ifaFManageTempAddr = 2 ^ 8 ∧ ifaFStablePrivacy = 2 ^ 11 ∧ maxUint32 = 2 ^ 32 - 1 ∧ afInet6 = 10 := by
  decide

/-- `f & (1<<k) != 0` is bit `k` of `f`, for every natural `f` -/
theorem and_two_pow_ne_zero (f k : Nat) : (f &&& 2 ^ k != 0) = f.testBit k := by
  cases hb : f.testBit k
  · have : f &&& 2 ^ k = 0 := by
      apply Nat.eq_of_testBit_eq
      intro i
      rw [Nat.testBit_and, Nat.testBit_two_pow, Nat.zero_testBit]
      by_cases hki : k = i
      · subst hki; simp [hb]
      · simp [hki]
    simp [this]
  · have : (f &&& 2 ^ k).testBit k = true := by
      rw [Nat.testBit_and, Nat.testBit_two_pow_self, hb]; rfl
    have hne : f &&& 2 ^ k ≠ 0 := by
      intro h0; rw [h0, Nat.zero_testBit] at this; cases this
    simp [hne]

/-- **flags_exact.**  Each boolean of the `system.IP` is exactly its flag bit — Temporary ⇔ bit 0
    (IFA_F_TEMPORARY), Deprecated ⇔ bit 5, Tentative ⇔ bit 6, ManageTemporaryAddresses ⇔ bit 8,
    StablePrivacy ⇔ bit 11 — for every flag word, whatever its other bits; ValidForever ⇔ the
    valid lifetime is 2³²−1; the address and the prefix length are the message's. -/
theorem flags_exact (m : AddrMsg) :
    (mkIP m).temporary = m.flags.testBit 0 ∧
    (mkIP m).deprecated = m.flags.testBit 5 ∧
    (mkIP m).tentative = m.flags.testBit 6 ∧
    (mkIP m).manageTemp = m.flags.testBit 8 ∧
    (mkIP m).stablePrivacy = m.flags.testBit 11 ∧
    ((mkIP m).validForever = true ↔ m.valid = 4294967295) ∧
    (mkIP m).addr = { addr := m.ip, bits := m.plen } := by
  refine ⟨?_, ?_, ?_, ?_, ?_, ?_, rfl⟩
  · exact and_two_pow_ne_zero m.flags 0
  · exact and_two_pow_ne_zero m.flags 5
  · exact and_two_pow_ne_zero m.flags 6
  · exact and_two_pow_ne_zero m.flags 8
  · exact and_two_pow_ne_zero m.flags 11
  · simp [mkIP, maxUint32]

/-- The five booleans are independent: every combination of the five bits (with any of the
    other assigned IFA_F_* bits set as noise) decodes to exactly that combination. -/
theorem flags_table :
    ∀ t d n g s : Bool, ∀ noise : Fin 4,
      let f := t.toNat * 0x1 + d.toNat * 0x20 + n.toNat * 0x40 + g.toNat * 0x100 + s.toNat * 0x800 +
               [0, 0x80, 0x200 + 0x2, 0x400 + 0x80 + 0x10 + 0x8 + 0x4][noise.val]!
      let a := mkIP { flags := f }
      a.temporary = t ∧ a.deprecated = d ∧ a.tentative = n ∧ a.manageTemp = g ∧ a.stablePrivacy = s := by
  decide

/-! ### the dump, message by message -/

/-- the panic conditions of the source are the oracle's well-formedness, negated -/
theorem addrMsgOK_eq (m : AddrMsg) : addrMsgOK m = wellFormedAddr m := by
  unfold addrMsgOK wellFormedAddr ipOK IP.is4In6 IP.is6 afInet6
  cases m.isAddr <;> cases m.hasAttrs <;> cases m.ip.valid <;> cases m.ip.v4 <;> simp [bne]

theorem decodeAddrs_eq (msgs : List AddrMsg) :
    decodeAddrs msgs = if msgs.all addrMsgOK then some (msgs.map mkIP) else none := by
  induction msgs with
  | nil => rfl
  | cons m ms ih =>
    unfold decodeAddrs decodeAddr
    rw [ih]
    cases h1 : addrMsgOK m <;> cases h2 : ms.all addrMsgOK <;> simp [h1, h2]

/-- The three outcomes of `AddressesByIndex`, exhaustively:
    a failing request or an empty dump ⇒ `(nil, err)`;
    some message breaks an invariant ⇒ panic;
    otherwise the list `map mkIP` of the dump. -/
theorem addresses_cases (msgs : List AddrMsg) (failed : Bool) :
    addressesByIndex msgs failed =
      if failed || msgs.isEmpty then .nil failed
      else if msgs.all addrMsgOK then .ok (msgs.map mkIP) else .panic := by
  unfold addressesByIndex
  rw [decodeAddrs_eq]
  cases failed <;> cases msgs.isEmpty <;> cases msgs.all addrMsgOK <;> rfl

/-- **count_exact** and **order_preserved.**  When `AddressesByIndex` returns a list it has
    exactly one `system.IP` per dumped message, and entry `k` is the decoding of message `k`:
    the dump order is the result order. -/
theorem order_preserved (msgs : List AddrMsg) (failed : Bool) (l : List SysIP)
    (h : addressesByIndex msgs failed = .ok l) :
    l = msgs.map mkIP ∧ l.length = msgs.length ∧
    ∀ k (hk : k < msgs.length), l[k]? = some (mkIP msgs[k]) := by
  rw [addresses_cases] at h
  split at h
  · cases h
  · split at h
    · cases h
      refine ⟨rfl, by simp, ?_⟩
      intro k hk
      simp [hk]
    · cases h

theorem count_exact (msgs : List AddrMsg) (failed : Bool) (l : List SysIP)
    (h : addressesByIndex msgs failed = .ok l) : l.length = msgs.length :=
  (order_preserved msgs failed l h).2.1

/-- `(nil, err)` ⇔ the request failed or the dump is empty; the error is the request's. -/
theorem nil_iff (msgs : List AddrMsg) (failed e : Bool) :
    addressesByIndex msgs failed = .nil e ↔ (failed = true ∨ msgs = []) ∧ e = failed := by
  rw [addresses_cases]
  cases failed
  · cases msgs with
    | nil =>
      simp only [Bool.false_or, List.isEmpty_nil, if_true, Res.nil.injEq, or_true, true_and]
      exact eq_comm
    | cons m ms =>
      simp only [Bool.false_or, List.isEmpty_cons, Bool.false_eq_true, if_false]
      split <;> simp
  · simp only [Bool.true_or, if_true, Res.nil.injEq, true_or, true_and]
    exact eq_comm

/-- panic ⇔ the request succeeded with a non-empty dump in which some message is not an
    AF_INET6 address message with attributes and a 16-byte, non-IPv4-mapped address. -/
theorem panic_iff (msgs : List AddrMsg) (failed : Bool) :
    addressesByIndex msgs failed = .panic ↔
      failed = false ∧ msgs ≠ [] ∧ ∃ m ∈ msgs, wellFormedAddr m = false := by
  rw [addresses_cases]
  cases failed
  · cases msgs with
    | nil => simp
    | cons m ms =>
      simp only [Bool.false_or, List.isEmpty_cons, Bool.false_eq_true, if_false]
      by_cases h : (m :: ms).all addrMsgOK = true
      · rw [if_pos h]
        constructor
        · intro hh; cases hh
        · rintro ⟨_, _, x, hx, hb⟩
          have := List.all_eq_true.mp h x hx
          rw [addrMsgOK_eq] at this
          rw [this] at hb; cases hb
      · rw [if_neg h]
        refine ⟨fun _ => ⟨by simp, by simp, ?_⟩, fun _ => rfl⟩
        apply Decidable.byContradiction
        intro hne
        apply h
        rw [List.all_eq_true]
        intro x hx
        rw [addrMsgOK_eq]
        cases hw : wellFormedAddr x
        · exact absurd ⟨x, hx, hw⟩ hne
        · rfl
  · simp

theorem entryOf_mkIP (m : AddrMsg) : entryOf m (mkIP m) = true := by
  obtain ⟨h0, h5, h6, h8, h11, _, _⟩ := flags_exact m
  unfold entryOf
  rw [h0, h5, h6, h8, h11]
  simp [mkIP, maxUint32]

theorem zipAll_map (msgs : List AddrMsg) : zipAll msgs (msgs.map mkIP) = true := by
  induction msgs with
  | nil => rfl
  | cons m ms ih => simp [zipAll, entryOf_mkIP, ih]

/-- The model meets the oracle that the check evaluates on the real `AddressesByIndex`. -/
theorem holds_model_addrs (msgs : List AddrMsg) (failed : Bool) :
    holdsAddrs msgs failed (addressesByIndex msgs failed) = true := by
  unfold holdsAddrs
  rw [addresses_cases]
  have hall : msgs.all wellFormedAddr = msgs.all addrMsgOK := by
    congr 1; funext m; exact (addrMsgOK_eq m).symm
  by_cases h1 : (failed || msgs.isEmpty) = true
  · simp [h1]
  · simp only [h1, hall]
    cases h2 : msgs.all addrMsgOK
    · simp
    · simp [zipAll_map]

/-! ### routes -/

theorem routeMsgOK_eq (m : RouteMsg) : routeMsgOK m = wellFormedRoute m := by
  unfold routeMsgOK wellFormedRoute ipOK IP.is4In6 IP.is6 afInet6
  cases m.isRoute <;> cases m.dst.valid <;> cases m.dst.v4 <;> simp [bne]

theorem decodeRoutes_eq (msgs : List RouteMsg) :
    decodeRoutes msgs = if msgs.all routeMsgOK then some (msgs.map mkRoute) else none := by
  induction msgs with
  | nil => rfl
  | cons m ms ih =>
    unfold decodeRoutes decodeRoute
    rw [ih]
    cases h1 : routeMsgOK m <;> cases h2 : ms.all routeMsgOK <;> simp [h1, h2]

theorem routes_cases (msgs : List RouteMsg) (failed : Bool) :
    routesByIndex msgs failed =
      if failed || msgs.isEmpty then .nil failed
      else if msgs.all routeMsgOK then .ok (msgs.map mkRoute) else .panic := by
  unfold routesByIndex
  rw [decodeRoutes_eq]
  cases failed <;> cases msgs.isEmpty <;> cases msgs.all routeMsgOK <;> rfl

/-- Each `RouteMessage` maps to exactly one `system.Route`, in dump order, with
    `Prefix = (Dst, DstLength)`, the out-interface index and the NDP preference (Medium when
    the attribute is absent). -/
theorem routes_exact (msgs : List RouteMsg) (failed : Bool) (l : List SysRoute)
    (h : routesByIndex msgs failed = .ok l) :
    l = msgs.map mkRoute ∧ l.length = msgs.length ∧
    ∀ k (hk : k < msgs.length), (l[k]?.map (·.pfx)) = some { addr := msgs[k].dst, bits := msgs[k].dlen } := by
  rw [routes_cases] at h
  split at h
  · cases h
  · split at h
    · cases h
      refine ⟨rfl, by simp, ?_⟩
      intro k hk
      simp [hk, mkRoute]
    · cases h

theorem zipAllR_map (msgs : List RouteMsg) : zipAllR msgs (msgs.map mkRoute) = true := by
  induction msgs with
  | nil => rfl
  | cons m ms ih =>
    have : routeOf m (mkRoute m) = true := by
      unfold routeOf mkRoute Model.Addresser.prefMedium; cases m.pref <;> simp
    simp [zipAllR, this, ih]

/-- The model meets the oracle that the check evaluates on the real `routesByIndex`. -/
theorem holds_model_routes (msgs : List RouteMsg) (failed : Bool) :
    holdsRoutes msgs failed (routesByIndex msgs failed) = true := by
  unfold holdsRoutes
  rw [routes_cases]
  have hall : msgs.all wellFormedRoute = msgs.all routeMsgOK := by
    congr 1; funext m; exact (routeMsgOK_eq m).symm
  by_cases h1 : (failed || msgs.isEmpty) = true
  · simp [h1]
  · simp only [h1, hall]
    cases h2 : msgs.all routeMsgOK
    · simp
    · simp [zipAllR_map]

/-! ### end to end: the dump determines what is advertised -/

/-- **C13 end to end.**  Whatever the kernel dumps, if `AddressesByIndex` returns, the prefixes
    the `::/64` wildcard expands to satisfy the C13 oracle with respect to the decoded dump
    (`Props.C13.holds_model` composed with the decoding). -/
theorem prefixes_from_dump (msgs : List AddrMsg) (ps : List Prefix)
    (h : advertisedPrefixes msgs false = some ps) :
    ∃ as, addrsSeen (addressesByIndex msgs false) = some as ∧
      (as = msgs.map mkIP ∨ (msgs = [] ∧ as = [])) ∧
      ps = currentPrefixes 64 as ∧ Spec.C13.holds 64 as ps = true := by
  unfold advertisedPrefixes at h
  cases hs : addrsSeen (addressesByIndex msgs false) with
  | none => simp [hs] at h
  | some as =>
    simp only [hs, Option.map_some, Option.some.injEq] at h
    subst h
    refine ⟨as, rfl, ?_, rfl, Props.C13.holds_model 64 as⟩
    rw [addresses_cases] at hs
    cases msgs with
    | nil => right; simpa [addrsSeen] using hs.symm
    | cons m ms =>
      left
      simp only [Bool.false_or, List.isEmpty_cons, Bool.false_eq_true, if_false] at hs
      split at hs
      · simpa [addrsSeen] using hs.symm
      · simp [addrsSeen] at hs

/-- …spelled out on the raw dump: a prefix is advertised for `::/64` iff some dumped message has
    prefix length 64, an address outside fe80::/10, flag bits 0 (IFA_F_TEMPORARY) and 6
    (IFA_F_TENTATIVE) clear, and that network.  Deprecated, manage-temp, stable-privacy and the
    lifetimes play no part. -/
theorem advertised_prefix_iff (msgs : List AddrMsg) (hok : msgs.all addrMsgOK = true)
    (hne : msgs ≠ []) (p : Prefix) :
    (∃ ps, advertisedPrefixes msgs false = some ps ∧ p ∈ ps) ↔
      ∃ m ∈ msgs, m.plen = 64 ∧ m.ip.isLinkLocalUnicast = false ∧
        m.flags.testBit 0 = false ∧ m.flags.testBit 6 = false ∧
        ({ addr := m.ip, bits := m.plen } : Prefix).masked = p := by
  have hadv : advertisedPrefixes msgs false = some (currentPrefixes 64 (msgs.map mkIP)) := by
    unfold advertisedPrefixes
    rw [addresses_cases]
    cases msgs with
    | nil => exact absurd rfl hne
    | cons m ms => simp [hok, addrsSeen]
  rw [hadv]
  simp only [Option.some.injEq, exists_eq_left']
  rw [Props.C13.mem_iff]
  have hel : ∀ m ∈ msgs, (Spec.C13.eligible 64 (mkIP m) = true ↔
      m.plen = 64 ∧ m.ip.isLinkLocalUnicast = false ∧ m.flags.testBit 0 = false ∧
        m.flags.testBit 6 = false) := by
    intro m hm
    have hm' := List.all_eq_true.mp hok m hm
    obtain ⟨h0, _, h6, _, _, _, ha⟩ := flags_exact m
    unfold Spec.C13.eligible
    rw [h0, h6, ha]
    simp only [addrMsgOK, ipOK, Bool.and_eq_true] at hm'
    obtain ⟨_, ⟨hv, h6'⟩, _⟩ := hm'
    have h4 : m.ip.is4 = false := by
      unfold IP.is4 IP.is6 at *; cases hvv : m.ip.v4 <;> simp_all
    have hbl : m.ip.bitLen = 128 := by
      unfold IP.bitLen IP.is6 at *; cases hvv : m.ip.v4 <;> simp_all
    simp only [Prefix.isValid, hv, hbl, h4, Bool.true_and, Bool.not_false, Bool.and_eq_true,
      decide_eq_true_eq, Bool.not_eq_true', beq_iff_eq]
    constructor
    · rintro ⟨⟨⟨⟨_, h2⟩, h3⟩, h4'⟩, h5⟩; exact ⟨h3, h2, h4', h5⟩
    · rintro ⟨h3, h2, h4', h5⟩; exact ⟨⟨⟨⟨⟨by omega, trivial⟩, h2⟩, h3⟩, h4'⟩, h5⟩
  constructor
  · rintro ⟨a, ha, he, hp⟩
    obtain ⟨m, hm, rfl⟩ := List.mem_map.mp ha
    obtain ⟨h1, h2, h3, h4⟩ := (hel m hm).mp he
    exact ⟨m, hm, h1, h2, h3, h4, by simpa [mkIP] using hp⟩
  · rintro ⟨m, hm, h1, h2, h3, h4, hp⟩
    exact ⟨mkIP m, List.mem_map.mpr ⟨m, hm, rfl⟩, (hel m hm).mpr ⟨h1, h2, h3, h4⟩,
      by simpa [mkIP] using hp⟩

/-- A failing request fails RA generation for `::/64` and for `::` (the plugins' `Addrs` error
    path); an empty dump advertises no prefix and leaves `::` without a usable address. -/
theorem failing_or_empty_dump (static : List IP) (msgs : List AddrMsg) :
    advertisedPrefixes msgs true = none ∧ advertisedRDNSS static msgs true = none ∧
    advertisedPrefixes [] false = some [] ∧ advertisedRDNSS static [] false = none := by
  refine ⟨?_, ?_, by decide, ?_⟩
  · simp [advertisedPrefixes, addresses_cases, addrsSeen]
  · simp [advertisedRDNSS, addresses_cases, addrsSeen, applyRDNSS]
  · simp [advertisedRDNSS, addresses_cases, addrsSeen, applyRDNSS, currentRDNSS, SysIP.zero, IP.zero]

/-- what the kernel guarantees of an RTM_GETADDR dump for AF_INET6: prefix lengths up to 128,
    16-byte addresses -/
def DumpWF (msgs : List AddrMsg) : Prop := ∀ m ∈ msgs, m.plen ≤ 128 ∧ m.ip.val < 2 ^ 128

/-- **C14 end to end.**  On every well-formed dump for which `AddressesByIndex` returns a list,
    the server list of a `::` stanza satisfies the C14 oracle with respect to the decoded dump
    (`Props.C14.holds_model` composed with the decoding). -/
theorem rdnss_from_dump (static : List IP) (msgs : List AddrMsg) (l : List SysIP)
    (hwf : DumpWF msgs) (h : addressesByIndex msgs false = .ok l) :
    advertisedRDNSS static msgs false = applyRDNSS true static (some l) ∧
    Spec.C14.holds static l (applyRDNSS true static (some l)) = true := by
  refine ⟨by simp [advertisedRDNSS, h, addrsSeen], ?_⟩
  apply Props.C14.holds_model
  obtain ⟨hl, _, _⟩ := order_preserved msgs false l h
  rw [addresses_cases] at h
  have hok : msgs.all addrMsgOK = true := by
    split at h
    · cases h
    · split at h
      · assumption
      · cases h
  intro a ha
  rw [hl] at ha
  obtain ⟨m, hm, rfl⟩ := List.mem_map.mp ha
  have hm' := List.all_eq_true.mp hok m hm
  simp only [addrMsgOK, ipOK, Bool.and_eq_true] at hm'
  obtain ⟨_, ⟨hv, h6'⟩, _⟩ := hm'
  have hbl : m.ip.bitLen = 128 := by
    unfold IP.bitLen IP.is6 at *; cases hvv : m.ip.v4 <;> simp_all
  obtain ⟨hp, hval⟩ := hwf m hm
  refine ⟨?_, hval⟩
  simp [mkIP, Prefix.isValid, hv, hbl, hp]

/-- what the kernel guarantees of an RTM_GETROUTE dump for AF_INET6: canonical destinations -/
def RouteDumpWF (msgs : List RouteMsg) : Prop :=
  ∀ m ∈ msgs, m.dlen ≤ 128 ∧ ({ addr := m.dst, bits := m.dlen } : Prefix).masked = { addr := m.dst, bits := m.dlen }

/-- **C15 end to end.**  On every well-formed route dump for which `routesByIndex` returns a
    list, the routes the `::/0` wildcard expands to satisfy the C15 oracle with respect to the
    decoded dump (`Props.C15.holds_model` composed with the decoding). -/
theorem routes_from_dump (msgs : List RouteMsg) (l : List SysRoute)
    (hwf : RouteDumpWF msgs) (h : routesByIndex msgs false = .ok l) :
    advertisedRoutes msgs false = some (currentRoutes (l.map (·.pfx))) ∧
    Spec.C15.holds (l.map (·.pfx)) (currentRoutes (l.map (·.pfx))) = true := by
  refine ⟨by simp [advertisedRoutes, h, routesSeen], ?_⟩
  apply Props.C15.holds_model
  obtain ⟨hl, _, _⟩ := routes_exact msgs false l h
  rw [routes_cases] at h
  have hok : msgs.all routeMsgOK = true := by
    split at h
    · cases h
    · split at h
      · assumption
      · cases h
  intro r hr
  rw [hl, List.map_map] at hr
  obtain ⟨m, hm, rfl⟩ := List.mem_map.mp hr
  have hm' := List.all_eq_true.mp hok m hm
  simp only [routeMsgOK, ipOK, Bool.and_eq_true] at hm'
  obtain ⟨_, ⟨hv, h6'⟩, _⟩ := hm'
  have hbl : m.dst.bitLen = 128 := by
    unfold IP.bitLen IP.is6 at *; cases hvv : m.dst.v4 <;> simp_all
  obtain ⟨hp, hcanon⟩ := hwf m hm
  refine ⟨?_, by simpa [mkRoute] using hcanon⟩
  simp [mkRoute, Prefix.isValid, hv, hbl, hp]

/-! ### non-vacuity -/

/-- A dump as the kernel produces it: a static ULA address (valid for ever), a temporary privacy
    address in the same /64, a tentative address in another /64, the link-local address — one
    entry each, in order, and `::/64` expands to the single ULA network.  The oracle accepts the
    model's result and rejects a swapped flag, a reordering and a dropped entry. -/
example :
    let ula : IP := { val := 0xfd000000000000010000000000000001 }
    let tmp : IP := { val := 0xfd00000000000001aaaabbbbccccdddd }
    let tent : IP := { val := 0x20010db8000000020000000000000001 }
    let ll : IP := { val := 0xfe800000000000000000000000000001 }
    let dump : List AddrMsg :=
      [{ ip := ula, flags := 0x80, valid := 4294967295 }, { ip := tmp, flags := 0x1, valid := 600 },
       { ip := tent, flags := 0x40 ||| 0x100, valid := 86400 }, { ip := ll, flags := 0x80, valid := 4294967295 }]
    let want : List SysIP :=
      [{ addr := ⟨ula, 64⟩, validForever := true }, { addr := ⟨tmp, 64⟩, temporary := true },
       { addr := ⟨tent, 64⟩, tentative := true, manageTemp := true }, { addr := ⟨ll, 64⟩, validForever := true }]
    addressesByIndex dump false = .ok want ∧
    holdsAddrs dump false (.ok want) = true ∧
    advertisedPrefixes dump false = some [⟨{ val := 0xfd000000000000010000000000000000 }, 64⟩] ∧
    holdsAddrs dump false (.ok (want.map fun a => { a with temporary := a.tentative, tentative := a.temporary })) = false ∧
    holdsAddrs dump false (.ok want.reverse) = false ∧
    holdsAddrs dump false (.ok want.tail) = false ∧
    holdsAddrs dump true (.ok want) = false ∧ holdsAddrs dump true (.nil true) = true ∧
    holdsAddrs [] false (.nil false) = true ∧
    addressesByIndex ({ family := 2 } :: dump) false = .panic ∧
    addressesByIndex ({ ip := { val := 0xffffc0000201 } } :: dump) false = .panic := by
  decide

/-! ### the default route (finding F-18) -/

/-- With the default route given its destination (`normRoute true`: what a repaired source does,
    `Gen.Plugin.routeDefaultWithoutDst`), the model meets the documented oracle on every dump. -/
theorem holds_model_routes_doc_strict (msgs : List RouteMsg) (failed : Bool) :
    Spec.C13Addresser.holdsRoutesDocStrict msgs failed (routesByIndex (msgs.map (normRoute true)) failed) = true := by
  unfold Spec.C13Addresser.holdsRoutesDocStrict
  exact holds_model_routes _ failed

/-! ### IPv4-mapped entries and peer addresses (findings F-27, F-28)

  The documented oracles (`holdsAddrsDoc`, `holdsRoutesDoc`) do not count an IPv4-mapped entry
  as a broken invariant and take the interface's own address from IFA_LOCAL. The model — which
  mirrors the source — meets them on every dump *without* such entries; the witnesses below show
  it failing on the smallest dumps with one, which is what the check reports against the real
  functions (known findings, see known_findings.txt). -/

theorem wellFormedRoute_split (m : RouteMsg) :
    wellFormedRoute m = (wellFormedRouteDoc m && !mapped m.dst) := by
  unfold wellFormedRoute wellFormedRouteDoc mapped
  cases m.isRoute <;> cases m.dst.valid <;> cases m.dst.v4 <;> simp [bne]

theorem zipAllR_doc (ms : List RouteMsg) (l : List SysRoute) (h : zipAllR ms l = true) :
    zipAllRDoc ms l = true := by
  induction ms generalizing l with
  | nil => cases l with
    | nil => rfl
    | cons _ _ => simp [zipAllR] at h
  | cons m ms ih => cases l with
    | nil => simp [zipAllR] at h
    | cons a as =>
      simp only [zipAllR, Bool.and_eq_true] at h
      simp only [zipAllRDoc, Bool.or_eq_true, Bool.and_eq_true]
      exact Or.inl ⟨h.1, ih as h.2⟩

/-- On a dump without IPv4-mapped routes the model meets the documented oracle. -/
theorem holds_model_routes_doc (msgs : List RouteMsg) (failed : Bool)
    (hm : (msgs.map (normRoute true)).all (fun m => !mapped m.dst) = true) :
    Spec.C13Addresser.holdsRoutesDoc msgs failed (routesByIndex (msgs.map (normRoute true)) failed) = true := by
  have hs := holds_model_routes (msgs.map (normRoute true)) failed
  unfold Spec.C13Addresser.holdsRoutesDoc
  unfold holdsRoutes at hs
  generalize msgs.map (normRoute true) = ms at hm hs ⊢
  have hall : ms.all wellFormedRoute = ms.all wellFormedRouteDoc := by
    rw [List.all_eq_true] at hm
    rw [Bool.eq_iff_iff, List.all_eq_true, List.all_eq_true]
    constructor <;> intro h m hmem <;> have := h m hmem <;>
      rw [wellFormedRoute_split, hm m hmem, Bool.and_true] at * <;> assumption
  simp only [hall] at hs
  simp only
  by_cases h1 : (failed || ms.isEmpty) = true
  · simpa [h1] using hs
  · simp only [h1] at hs ⊢
    cases h2 : ms.all wellFormedRouteDoc
    · simpa [h2] using hs
    · simp only [h2, Bool.not_true, Bool.false_eq_true, if_false] at hs ⊢
      cases hr : routesByIndex ms failed with
      | ok l => rw [hr] at hs; exact zipAllR_doc ms l hs
      | nil e => rw [hr] at hs; cases hs
      | panic => rw [hr] at hs; cases hs

theorem wellFormedAddr_split (m : AddrMsg) (hl : m.loc = none) :
    wellFormedAddr m = (wellFormedAddrDoc m && !mapped m.ip) := by
  unfold wellFormedAddr wellFormedAddrDoc mapped
  rw [hl]
  cases m.isAddr <;> cases m.hasAttrs <;> cases m.ip.valid <;> cases m.ip.v4 <;> simp [bne]

theorem zipAll_doc (ms : List AddrMsg) (l : List SysIP) (hl : ∀ m ∈ ms, m.loc = none)
    (h : zipAll ms l = true) : zipAllDoc ms l = true := by
  induction ms generalizing l with
  | nil => cases l with
    | nil => rfl
    | cons _ _ => simp [zipAll] at h
  | cons m ms ih => cases l with
    | nil => simp [zipAll] at h
    | cons a as =>
      simp only [zipAll, Bool.and_eq_true] at h
      simp only [zipAllDoc, Bool.or_eq_true, Bool.and_eq_true]
      refine Or.inl ⟨?_, ih as (fun m hm => hl m (List.mem_cons_of_mem _ hm)) h.2⟩
      have : ({ m with ip := ownAddr m } : AddrMsg) = m := by
        have hloc := hl m (List.mem_cons_self ..)
        cases m with
        | mk _ _ _ _ _ _ _ loc => simp only at hloc; subst hloc; rfl
      unfold entryOfDoc; rw [this]; exact h.1

/-- On a dump without peer addresses and IPv4-mapped addresses the model meets the documented
    oracle. -/
theorem holds_model_addrs_doc (msgs : List AddrMsg) (failed : Bool)
    (hl : ∀ m ∈ msgs, m.loc = none) (hm : msgs.all (fun m => !mapped m.ip) = true) :
    holdsAddrsDoc msgs failed (addressesByIndex msgs failed) = true := by
  have hs := holds_model_addrs msgs failed
  unfold holdsAddrsDoc
  unfold holdsAddrs at hs
  have hall : msgs.all wellFormedAddr = msgs.all wellFormedAddrDoc := by
    rw [List.all_eq_true] at hm
    rw [Bool.eq_iff_iff, List.all_eq_true, List.all_eq_true]
    constructor <;> intro h m hmem <;> have := h m hmem <;>
      rw [wellFormedAddr_split m (hl m hmem), hm m hmem, Bool.and_true] at * <;> assumption
  simp only [hall] at hs
  by_cases h1 : (failed || msgs.isEmpty) = true
  · simpa [h1] using hs
  · simp only [h1] at hs ⊢
    cases h2 : msgs.all wellFormedAddrDoc
    · simpa [h2] using hs
    · simp only [h2, Bool.not_true, Bool.false_eq_true, if_false] at hs ⊢
      cases hr : addressesByIndex msgs failed with
      | ok l => rw [hr] at hs; exact zipAll_doc msgs l hl hs
      | nil e => rw [hr] at hs; cases hs
      | panic => rw [hr] at hs; cases hs

/-- F-27: an IPv4-mapped address on the interface (`ip -6 addr add ::ffff:192.0.2.9/128 dev eth0`)
    or an IPv4-mapped route on the loopback interface (`unreachable ::ffff:0.0.0.0/96 dev lo`):
    the documented answer leaves it out or passes it on; the source panics. -/
theorem v4mapped_witness :
    let a : AddrMsg := { ip := { val := 0xffffc0000209 }, plen := 128 }
    let g : AddrMsg := { ip := { val := 0x20010db8000000010000000000000001 } }
    let r : RouteMsg := { dst := { val := 0xffff00000000 }, dlen := 96, oif := 1 }
    addressesByIndex [g, a] false = .panic ∧
    holdsAddrsDoc [g, a] false .panic = false ∧ mappedAddrClass [g, a] false .panic = true ∧
    holdsAddrsDoc [g, a] false (.ok [mkIP g]) = true ∧ holdsAddrsDoc [g, a] false (.ok [mkIP g, mkIP a]) = true ∧
    routesByIndex [r] false = .panic ∧
    holdsRoutesDoc [r] false .panic = false ∧ mappedRouteClass [r] false .panic = true ∧
    holdsRoutesDoc [r] false (.nil false) = true ∧ holdsRoutesDoc [r] false (.ok [mkRoute r]) = true := by
  decide

/-- F-28: an address with a peer (`ip addr add 2001:db8:5::1 peer 2001:db8:6::2/64 dev eth0`):
    the interface's own address is the IFA_LOCAL one; the source reports the peer's. -/
theorem peer_witness :
    let own : IP := { val := 0x20010db8000500000000000000000001 }
    let peer : IP := { val := 0x20010db8000600000000000000000002 }
    let m : AddrMsg := { ip := peer, plen := 64, loc := some own }
    addressesByIndex [m] false = .ok [{ addr := ⟨peer, 64⟩ }] ∧
    holdsAddrsDoc [m] false (.ok [{ addr := ⟨peer, 64⟩ }]) = false ∧
    peerClass [m] false (.ok [{ addr := ⟨peer, 64⟩ }]) = true ∧
    holdsAddrsDoc [m] false (.ok [{ addr := ⟨own, 64⟩ }]) = true ∧
    advertisedRDNSS [] [m] false = some [peer] := by
  decide

/-- The kernel's default route — no destination attribute, destination length 0 — on the
    loopback interface: the documented answer is the route `::/0`; the pinned source (no special
    treatment) panics on it, which the oracle rejects and classifies as F-18. -/
theorem default_route_witness :
    let d : RouteMsg := { dst := IP.zero, dlen := 0, oif := 1, dstAbsent := true }
    routesByIndex ([d].map (normRoute true)) false =
      .ok [{ pfx := { addr := v6Unspecified, bits := 0 }, index := 1, preference := Model.Addresser.prefMedium }] ∧
    routesByIndex ([d].map (normRoute false)) false = .panic ∧
    Spec.C13Addresser.holdsRoutesDoc [d] false .panic = false ∧
    Spec.C13Addresser.defaultRouteClass [d] false .panic = true := by
  decide

/-- A missing destination attribute with a non-zero length stays a broken invariant. -/
example :
    let m : RouteMsg := { dst := IP.zero, dlen := 64, oif := 1, dstAbsent := true }
    routesByIndex ([m].map (normRoute true)) false = .panic := by decide


end Corerad.Props.C13Addresser
