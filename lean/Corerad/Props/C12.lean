import Corerad.Spec.C12
namespace Corerad.Props.C12
theorem placeholder : True := trivial
end Corerad.Props.C12
