/-
  C12 — other routers' RAs: exactly the RFC 4861 §6.2.7 inconsistencies are reported.
  All theorems quantify over every pair of RAs (arbitrary option lists of any length).
-/
import Corerad.Spec.C12
import Corerad.Spec.C03

namespace Corerad.Props.C12

open Corerad Corerad.Model Corerad.Spec.C12

theorem checkDurations_eq (a b : Dur) : (!checkDurations ms a b) = timerDiffers a b := by
  unfold checkDurations timerDiffers msec
  simp only
  generalize truncateDur a ms = x
  generalize truncateDur b ms = y
  by_cases hx : x = 0 <;> by_cases hy : y = 0 <;> by_cases hxy : x = y <;> simp [hx, hy, hxy]

theorem hopDiffers_iff (a b : Nat) : hopDiffers a b = true ↔ a ≠ 0 ∧ b ≠ 0 ∧ a ≠ b := by
  unfold hopDiffers
  simp only [Bool.and_eq_true, bne_iff_ne, ne_eq, and_assoc]

@[simp] theorem hopDiffers_self (a : Nat) : hopDiffers a a = false := by
  unfold hopDiffers; simp

theorem checkRAs_eq (a b : RA) : checkRAs a b = header a b := by
  unfold checkRAs header
  simp only [checkDurations_eq, bne_iff_ne, ne_eq, ite_not, hopDiffers_iff]

/-- RFC 4861 §6.2.7: a router that leaves Cur Hop Limit unspecified (zero) — on either side — is
    never reported for its hop limit (F-24: the pinned tree reported it on every RA) -/
theorem unspecified_hop_limit_consistent (a b : RA) (h : a.hopLimit = 0 ∨ b.hopLimit = 0) (p : Problem)
    (hp : p ∈ checkRAs a b) : p.field ≠ .hopLimit := by
  rw [checkRAs_eq] at hp
  unfold header at hp
  have hz : hopDiffers a.hopLimit b.hopLimit = false := by
    unfold hopDiffers; rcases h with h | h <;> simp [h]
  simp only [hz, Bool.false_eq_true, if_false, List.nil_append, List.mem_append] at hp
  rcases hp with ((hp | hp) | hp) | hp <;> split at hp <;> simp at hp <;> simp [hp]

private theorem inner_pi (x : IP × Nat × Dur × Dur) (ys : List (IP × Nat × Dur × Dur)) :
    checkPrefixInner x ys = ys.flatMap fun y =>
      if x.1 == y.1 && x.2.1 == y.2.1 then
        (if sec x.2.2.2 != sec y.2.2.2 then [{ field := .piPreferred, details := some (x.1, x.2.1) }] else []) ++
        (if sec x.2.2.1 != sec y.2.2.1 then [{ field := .piValid, details := some (x.1, x.2.1) }] else [])
      else [] := by
  induction ys with
  | nil => rfl
  | cons y ys ih =>
    simp only [checkPrefixInner, List.flatMap_cons, ih]
    congr 1
    by_cases h1 : x.1 = y.1 <;> by_cases h2 : x.2.1 = y.2.1 <;>
      simp [h1, h2, wireSec, sec, bne_iff_ne]

private theorem outer_pi (xs ys : List (IP × Nat × Dur × Dur)) :
    checkPrefixOuter ys xs = xs.flatMap fun x => ys.flatMap fun y =>
      if x.1 == y.1 && x.2.1 == y.2.1 then
        (if sec x.2.2.2 != sec y.2.2.2 then [{ field := .piPreferred, details := some (x.1, x.2.1) }] else []) ++
        (if sec x.2.2.1 != sec y.2.2.1 then [{ field := .piValid, details := some (x.1, x.2.1) }] else [])
      else [] := by
  induction xs with
  | nil => rfl
  | cons x xs ih => simp only [checkPrefixOuter, List.flatMap_cons, ih, inner_pi]

theorem checkPrefixes_eq (a b : RA) : checkPrefixes a.options b.options = prefixProblems a b := by
  unfold checkPrefixes prefixProblems
  simp only [outer_pi]
  cases ha : pickPI a.options with
  | nil => simp
  | cons x xs =>
    cases hb : pickPI b.options with
    | nil => simp
    | cons y ys => simp

private theorem inner_ri (x : IP × Nat × Nat × Dur) (ys : List (IP × Nat × Nat × Dur)) :
    checkRouteInner x ys = ys.flatMap fun y =>
      if x.1 == y.1 && x.2.1 == y.2.1 && x.2.2.1 == y.2.2.1 && sec x.2.2.2 != sec y.2.2.2 then
        [{ field := .riLifetime, details := some (x.1, x.2.1) }]
      else [] := by
  induction ys with
  | nil => rfl
  | cons y ys ih =>
    simp only [checkRouteInner, List.flatMap_cons, ih]
    congr 1
    by_cases h1 : x.1 = y.1 <;> by_cases h2 : x.2.1 = y.2.1 <;> by_cases h3 : x.2.2.1 = y.2.2.1 <;>
      simp [h1, h2, h3, wireSec, sec, bne_iff_ne]

private theorem outer_ri (xs ys : List (IP × Nat × Nat × Dur)) :
    checkRouteOuter ys xs = xs.flatMap fun x => ys.flatMap fun y =>
      if x.1 == y.1 && x.2.1 == y.2.1 && x.2.2.1 == y.2.2.1 && sec x.2.2.2 != sec y.2.2.2 then
        [{ field := .riLifetime, details := some (x.1, x.2.1) }]
      else [] := by
  induction xs with
  | nil => rfl
  | cons x xs ih => simp only [checkRouteOuter, List.flatMap_cons, ih, inner_ri]

theorem checkRoutes_eq (a b : RA) : checkRoutes a.options b.options = routeProblems a b := by
  unfold checkRoutes routeProblems
  simp only [outer_ri]
  cases ha : pickRI a.options with
  | nil => simp
  | cons x xs =>
    cases hb : pickRI b.options with
    | nil => simp
    | cons y ys => simp

private theorem dnsPairs_eq {α : Type} [DecidableEq α] (fl fi : Field) :
    ∀ (xs ys : List (Dur × List α)), xs.length = ys.length →
      checkDNSPairs fl fi xs ys = (xs.zip ys).flatMap fun (x, y) =>
        (if sec x.1 != sec y.1 then [{ field := fl }] else []) ++
        (if x.2 != y.2 then [{ field := fi }] else [])
  | [], [], _ => rfl
  | [], _ :: _, h => by simp at h
  | _ :: _, [], h => by simp at h
  | x :: xs, y :: ys, h => by
    simp only [checkDNSPairs, List.zip_cons_cons, List.flatMap_cons]
    rw [dnsPairs_eq fl fi xs ys (by simpa using h)]
    congr 1
    congr 1
    · by_cases hh : truncateDur x.1 second = truncateDur y.1 second <;> simp [wireSec, sec, bne_iff_ne, hh]
    · by_cases hl : x.2.length = y.2.length
      · by_cases he : x.2 = y.2 <;> simp [hl, he]
      · have : x.2 ≠ y.2 := fun e => hl (by rw [e])
        simp [hl, this]

theorem checkDNS_eq {α : Type} [DecidableEq α] (fc fl fi : Field) (xs ys : List (Dur × List α)) :
    checkDNS fc fl fi xs ys = dnsProblems fc fl fi xs ys := by
  unfold checkDNS dnsProblems
  by_cases he : (xs.isEmpty || ys.isEmpty) = true
  · simp [he]
  · simp only [he, Bool.false_eq_true, if_false]
    by_cases hl : xs.length = ys.length
    · simp [hl, dnsPairs_eq fl fi xs ys hl]
    · simp [hl]

/-- **Soundness and completeness**: the checker reports exactly the inconsistencies of the
    specification — same labels, same multiplicities, even the same order. -/
theorem verify_eq_spec (a b : RA) : verifyRAs a b = specProblems a b := by
  unfold verifyRAs specProblems
  rw [checkRAs_eq, checkPrefixes_eq, checkRoutes_eq, checkDNS_eq, checkDNS_eq]
  unfold checkMTUs checkCaptivePortal
  congr 1
  · congr 1
    · congr 1
      · congr 1
        · congr 1
          · congr 1
            cases firstMTU a.options <;> cases firstMTU b.options <;> simp
  · cases firstPortal a.options <;> cases firstPortal b.options <;> simp

/-- The oracle the check evaluates accepts the model's report. -/
theorem holds_model (a b : RA) :
    Spec.C12.holds a b (handleRA a b).1 (handleRA a b).2 = true := by
  unfold Spec.C12.holds handleRA sameCounts
  simp only [verify_eq_spec, beq_self_eq_true, Bool.true_and, Bool.and_true, List.all_eq_true]
  intro p _; trivial

/-- Each inconsistency is counted once under its labels and the hook fires iff there is one. -/
theorem hook_iff (a b : RA) : (handleRA a b).2 = true ↔ verifyRAs a b ≠ [] := by
  unfold handleRA
  cases verifyRAs a b <;> simp

/-- What is logged and counted is exactly the specification's list: one entry per differing
    (own option, received option) pair and label — so a label's count is the number of such pairs
    (for an own or received RA that repeats a prefix, route or DNS option this is more than one
    per option: see the recorded finding on self-inconsistent RAs). -/
theorem reports_are_spec (a b : RA) : (handleRA a b).1 = specProblems a b := by
  unfold handleRA; exact verify_eq_spec a b

/-! ### nothing for a field or option absent on either side -/

private theorem header_fields (a b : RA) (p : Problem) (hp : p ∈ header a b) :
    p.field = .hopLimit ∨ p.field = .managed ∨ p.field = .other ∨
    (p.field = .reachable ∧ timerDiffers a.reachable b.reachable = true) ∨
    (p.field = .retransmit ∧ timerDiffers a.retransmit b.retransmit = true) := by
  unfold header at hp
  simp only [List.mem_append] at hp
  rcases hp with (((hp | hp) | hp) | hp) | hp <;> split at hp <;> simp at hp <;> subst hp <;> simp_all

private theorem prefix_fields (a b : RA) (p : Problem) (hp : p ∈ prefixProblems a b) :
    (p.field = .piPreferred ∨ p.field = .piValid) ∧ pickPI a.options ≠ [] ∧ pickPI b.options ≠ [] := by
  unfold prefixProblems at hp
  simp only [List.mem_flatMap] at hp
  obtain ⟨x, hx, y, hy, hp⟩ := hp
  refine ⟨?_, List.ne_nil_of_mem hx, List.ne_nil_of_mem hy⟩
  split at hp
  · simp only [List.mem_append] at hp
    rcases hp with hp | hp <;> split at hp <;> simp at hp <;> subst hp <;> simp
  · simp at hp

private theorem route_fields (a b : RA) (p : Problem) (hp : p ∈ routeProblems a b) :
    p.field = .riLifetime ∧ pickRI a.options ≠ [] ∧ pickRI b.options ≠ [] := by
  unfold routeProblems at hp
  simp only [List.mem_flatMap] at hp
  obtain ⟨x, hx, y, hy, hp⟩ := hp
  refine ⟨?_, List.ne_nil_of_mem hx, List.ne_nil_of_mem hy⟩
  split at hp <;> simp at hp
  subst hp; rfl

private theorem dns_fields {α : Type} [DecidableEq α] (fc fl fi : Field) (xs ys : List (Dur × List α))
    (p : Problem) (hp : p ∈ dnsProblems fc fl fi xs ys) :
    (p.field = fc ∨ p.field = fl ∨ p.field = fi) ∧ xs ≠ [] ∧ ys ≠ [] := by
  unfold dnsProblems at hp
  split at hp
  · simp at hp
  · rename_i he
    have hne : xs ≠ [] ∧ ys ≠ [] := by
      cases xs <;> cases ys <;> simp_all
    refine ⟨?_, hne⟩
    split at hp
    · simp at hp; subst hp; simp
    · simp only [List.mem_flatMap, List.mem_append] at hp
      obtain ⟨_, _, hp⟩ := hp
      rcases hp with hp | hp <;> split at hp <;> simp at hp <;> subst hp <;> simp

/-- **Nothing is reported for a field or option that is absent on either side**: a reported
    problem about the MTU, a prefix, a route, RDNSS, DNSSL or the captive portal implies both
    RAs carry such an option; one about a timer implies both timers are non-zero on the wire. -/
theorem absent_silent (a b : RA) (p : Problem) (hp : p ∈ verifyRAs a b) :
    (p.field = .mtu → (firstMTU a.options).isSome ∧ (firstMTU b.options).isSome) ∧
    (p.field = .piPreferred ∨ p.field = .piValid → pickPI a.options ≠ [] ∧ pickPI b.options ≠ []) ∧
    (p.field = .riLifetime → pickRI a.options ≠ [] ∧ pickRI b.options ≠ []) ∧
    (p.field = .rdnssCount ∨ p.field = .rdnssLifetime ∨ p.field = .rdnssServers →
        pickRDNSS a.options ≠ [] ∧ pickRDNSS b.options ≠ []) ∧
    (p.field = .dnsslCount ∨ p.field = .dnsslLifetime ∨ p.field = .dnsslNames →
        pickDNSSL a.options ≠ [] ∧ pickDNSSL b.options ≠ []) ∧
    (p.field = .captivePortal → (firstPortal a.options).isSome ∧ (firstPortal b.options).isSome) ∧
    (p.field = .reachable → msec a.reachable ≠ 0 ∧ msec b.reachable ≠ 0) ∧
    (p.field = .retransmit → msec a.retransmit ≠ 0 ∧ msec b.retransmit ≠ 0) := by
  rw [verify_eq_spec] at hp
  unfold specProblems at hp
  simp only [List.mem_append] at hp
  rcases hp with (((((hp | hp) | hp) | hp) | hp) | hp) | hp
  · have h := header_fields a b p hp
    unfold timerDiffers at h
    simp only [Bool.and_eq_true, bne_iff_ne, ne_eq] at h
    rcases h with h | h | h | ⟨h, h2⟩ | ⟨h, h2⟩ <;> simp [h] <;> simp_all
  · cases ha : firstMTU a.options <;> cases hb : firstMTU b.options <;> simp only [ha, hb] at hp <;>
      (try (simp at hp; done))
    split at hp <;> simp at hp
    subst hp; simp
  · obtain ⟨h, h1, h2⟩ := prefix_fields a b p hp
    rcases h with h | h <;> simp [h, h1, h2]
  · obtain ⟨h, h1, h2⟩ := route_fields a b p hp
    simp [h, h1, h2]
  · obtain ⟨h, h1, h2⟩ := dns_fields _ _ _ _ _ p hp
    rcases h with h | h | h <;> simp [h, h1, h2]
  · obtain ⟨h, h1, h2⟩ := dns_fields _ _ _ _ _ p hp
    rcases h with h | h | h <;> simp [h, h1, h2]
  · cases ha : firstPortal a.options <;> cases hb : firstPortal b.options <;> simp only [ha, hb] at hp <;>
      (try (simp at hp; done))
    split at hp <;> simp at hp
    subst hp; simp

/-! ### an RA equal to CoreRAD's own produces no report -/

private theorem zip_self_flatMap {α β : Type} (f : α × α → List β) (h : ∀ x, f (x, x) = []) :
    ∀ xs : List α, (xs.zip xs).flatMap f = []
  | [] => rfl
  | x :: xs => by simp only [List.zip_cons_cons, List.flatMap_cons, h x, zip_self_flatMap f h xs, List.append_nil]

private theorem dns_refl {α : Type} [DecidableEq α] (fc fl fi : Field) (xs : List (Dur × List α)) :
    dnsProblems fc fl fi xs xs = [] := by
  unfold dnsProblems
  split
  · rfl
  · simp only [bne_self_eq_false, Bool.false_eq_true, if_false]
    exact zip_self_flatMap _ (fun x => by simp) xs

/-- The hypothesis `coherent` of `verify_refl` is needed, and acceptance does not imply it (F-21):
    an RA that carries 2001:db8:0:1::/64 twice — 1 h / 1 h from a static stanza, 24 h / 4 h from a
    `::/64` wildcard expanding onto the same /64 — is reported against itself, four times. -/
theorem self_inconsistent_witness :
    let p : IP := { val := 0x20010db8000000010000000000000000 }
    let ra : RA := { hopLimit := 64, routerLifetime := 1800 * second,
                     options := [.pi p 64 true true hour hour, .pi p 64 true true (24 * hour) (4 * hour)] }
    coherent ra = false ∧ (verifyRAs ra ra).length = 4 := by
  decide

/-- A coherent RA compared with itself yields no report. -/
theorem verify_refl (a : RA) (hc : coherent a = true) : verifyRAs a a = [] := by
  rw [verify_eq_spec]
  unfold coherent at hc
  simp only [Bool.and_eq_true, List.all_eq_true, Bool.or_eq_true, Bool.not_eq_true', beq_iff_eq] at hc
  have hpi : prefixProblems a a = [] := by
    unfold prefixProblems
    simp only [List.flatMap_eq_nil_iff]
    intro x hx y hy
    rcases hc.1 x hx y hy with h | h
    · simp [h]
    · simp [h.1, h.2]
  have hri : routeProblems a a = [] := by
    unfold routeProblems
    simp only [List.flatMap_eq_nil_iff]
    intro x hx y hy
    rcases hc.2 x hx y hy with h | h
    · simp [h]
    · simp [h]
  unfold specProblems header timerDiffers
  simp only [hpi, hri, dns_refl, hopDiffers_self, bne_self_eq_false, Bool.and_false, Bool.false_eq_true, if_false,
    List.append_nil, List.nil_append]
  cases firstMTU a.options <;> cases firstPortal a.options <;> simp

/-! ### …also after a wire round trip -/

theorem sec_nonneg (d : Dur) (h : 0 ≤ d) : sec d = d - d % second := by
  unfold sec truncateDur goMod
  have : ¬ (second ≤ 0) := by decide
  simp only [this, if_false, Int.tmod_eq_emod_of_nonneg h]

theorem msec_nonneg (d : Dur) (h : 0 ≤ d) : msec d = d - d % ms := by
  unfold msec truncateDur goMod
  have : ¬ (ms ≤ 0) := by decide
  simp only [this, if_false, Int.tmod_eq_emod_of_nonneg h]

private theorem sec_trunc (d : Dur) (h : 0 ≤ d) : sec (Spec.C03.trunc d second) = sec d := by
  have h2 : 0 ≤ Spec.C03.trunc d second := by unfold Spec.C03.trunc second; omega
  rw [sec_nonneg _ h2, sec_nonneg _ h]
  unfold Spec.C03.trunc second; omega

private theorem msec_trunc (d : Dur) (h : 0 ≤ d) : msec (Spec.C03.trunc d ms) = msec d := by
  have h2 : 0 ≤ Spec.C03.trunc d ms := by unfold Spec.C03.trunc ms; omega
  rw [msec_nonneg _ h2, msec_nonneg _ h]
  unfold Spec.C03.trunc ms; omega

private theorem pickPI_trunc (l : List Opt) :
    pickPI (l.map Spec.C03.truncOpt) =
      (pickPI l).map fun x => (x.1, x.2.1, Spec.C03.trunc x.2.2.1 second, Spec.C03.trunc x.2.2.2 second) := by
  induction l with
  | nil => rfl
  | cons o l ih => cases o <;> simp [pickPI, Spec.C03.truncOpt, ih]

private theorem pickRI_trunc (l : List Opt) :
    pickRI (l.map Spec.C03.truncOpt) =
      (pickRI l).map fun x => (x.1, x.2.1, x.2.2.1, Spec.C03.trunc x.2.2.2 second) := by
  induction l with
  | nil => rfl
  | cons o l ih => cases o <;> simp [pickRI, Spec.C03.truncOpt, ih]

private theorem pickRDNSS_trunc (l : List Opt) :
    pickRDNSS (l.map Spec.C03.truncOpt) = (pickRDNSS l).map fun x => (Spec.C03.trunc x.1 second, x.2) := by
  induction l with
  | nil => rfl
  | cons o l ih => cases o <;> simp [pickRDNSS, Spec.C03.truncOpt, ih]

private theorem pickDNSSL_trunc (l : List Opt) :
    pickDNSSL (l.map Spec.C03.truncOpt) = (pickDNSSL l).map fun x => (Spec.C03.trunc x.1 second, x.2) := by
  induction l with
  | nil => rfl
  | cons o l ih => cases o <;> simp [pickDNSSL, Spec.C03.truncOpt, ih]

private theorem firstMTU_trunc (l : List Opt) : firstMTU (l.map Spec.C03.truncOpt) = firstMTU l := by
  induction l with
  | nil => rfl
  | cons o l ih => cases o <;> simp [firstMTU, Spec.C03.truncOpt, ih]

private theorem firstPortal_trunc (l : List Opt) : firstPortal (l.map Spec.C03.truncOpt) = firstPortal l := by
  induction l with
  | nil => rfl
  | cons o l ih => cases o <;> simp [firstPortal, Spec.C03.truncOpt, ih]

/-- every lifetime / timer of the RA is non-negative (implied by `Spec.C03.wireSafe`) -/
def NonNeg (a : RA) : Prop :=
  0 ≤ a.reachable ∧ 0 ≤ a.retransmit ∧
  (∀ x ∈ pickPI a.options, 0 ≤ x.2.2.1 ∧ 0 ≤ x.2.2.2) ∧ (∀ x ∈ pickRI a.options, 0 ≤ x.2.2.2) ∧
  (∀ x ∈ pickRDNSS a.options, 0 ≤ x.1) ∧ (∀ x ∈ pickDNSSL a.options, 0 ≤ x.1)

private theorem mem_pick_of (l : List Opt) :
    (∀ x ∈ pickPI l, ∃ ol au, Opt.pi x.1 x.2.1 ol au x.2.2.1 x.2.2.2 ∈ l) ∧
    (∀ x ∈ pickRI l, Opt.ri x.1 x.2.1 x.2.2.1 x.2.2.2 ∈ l) ∧
    (∀ x ∈ pickRDNSS l, Opt.rdnss x.1 x.2 ∈ l) ∧ (∀ x ∈ pickDNSSL l, Opt.dnssl x.1 x.2 ∈ l) := by
  induction l with
  | nil => simp [pickPI, pickRI, pickRDNSS, pickDNSSL]
  | cons o l ih =>
    obtain ⟨h1, h2, h3, h4⟩ := ih
    refine ⟨?_, ?_, ?_, ?_⟩
    · intro x hx
      cases o <;> simp only [pickPI, List.mem_cons] at hx
      case pi a len ol au v p =>
        rcases hx with rfl | hx
        · exact ⟨ol, au, List.mem_cons_self⟩
        · obtain ⟨ol', au', h⟩ := h1 x hx; exact ⟨ol', au', List.mem_cons_of_mem _ h⟩
      all_goals (obtain ⟨ol', au', h⟩ := h1 x hx; exact ⟨ol', au', List.mem_cons_of_mem _ h⟩)
    · intro x hx
      cases o <;> simp only [pickRI, List.mem_cons] at hx
      case ri a len pr lt =>
        rcases hx with rfl | hx
        · exact List.mem_cons_self
        · exact List.mem_cons_of_mem _ (h2 x hx)
      all_goals exact List.mem_cons_of_mem _ (h2 x hx)
    · intro x hx
      cases o <;> simp only [pickRDNSS, List.mem_cons] at hx
      case rdnss lt sv =>
        rcases hx with rfl | hx
        · exact List.mem_cons_self
        · exact List.mem_cons_of_mem _ (h3 x hx)
      all_goals exact List.mem_cons_of_mem _ (h3 x hx)
    · intro x hx
      cases o <;> simp only [pickDNSSL, List.mem_cons] at hx
      case dnssl lt nm =>
        rcases hx with rfl | hx
        · exact List.mem_cons_self
        · exact List.mem_cons_of_mem _ (h4 x hx)
      all_goals exact List.mem_cons_of_mem _ (h4 x hx)

theorem nonneg_of_wireSafe (a : RA) (h : Spec.C03.wireSafe a = true) : NonNeg a := by
  unfold Spec.C03.wireSafe Spec.C03.fits at h
  simp only [Bool.and_eq_true, decide_eq_true_eq, List.all_eq_true] at h
  obtain ⟨⟨⟨⟨⟨_, _⟩, _⟩, ⟨hr, _⟩⟩, ⟨ht, _⟩⟩, hopts⟩ := h
  obtain ⟨m1, m2, m3, m4⟩ := mem_pick_of a.options
  refine ⟨hr, ht, ?_, ?_, ?_, ?_⟩
  · intro x hx
    obtain ⟨ol, au, hm⟩ := m1 x hx
    have := hopts _ hm
    simp only [Spec.C03.encodable, Spec.C03.fits, Bool.and_eq_true, decide_eq_true_eq] at this
    exact ⟨this.1.2.1, this.2.1⟩
  · intro x hx
    have := hopts _ (m2 x hx)
    simp only [Spec.C03.encodable, Spec.C03.fits, Bool.and_eq_true, decide_eq_true_eq] at this
    exact this.2.1
  · intro x hx
    have := hopts _ (m3 x hx)
    simp only [Spec.C03.encodable, Spec.C03.fits, Bool.and_eq_true, decide_eq_true_eq] at this
    exact this.2.1
  · intro x hx
    have := hopts _ (m4 x hx)
    simp only [Spec.C03.encodable, Spec.C03.fits, Bool.and_eq_true, decide_eq_true_eq] at this
    exact this.2.1

private theorem zip_trunc_flatMap {α : Type} [DecidableEq α] (fl fi : Field) :
    ∀ (xs : List (Dur × List α)), (∀ x ∈ xs, 0 ≤ x.1) →
      ((xs.zip (xs.map fun x => (Spec.C03.trunc x.1 second, x.2))).flatMap fun (x, y) =>
        (if sec x.1 != sec y.1 then [({ field := fl } : Problem)] else []) ++
        (if x.2 != y.2 then [{ field := fi }] else [])) = []
  | [], _ => rfl
  | x :: xs, h => by
    simp only [List.map_cons, List.zip_cons_cons, List.flatMap_cons]
    rw [zip_trunc_flatMap fl fi xs (fun y hy => h y (List.mem_cons_of_mem _ hy))]
    simp [sec_trunc x.1 (h x List.mem_cons_self)]

private theorem dns_trunc {α : Type} [DecidableEq α] (fc fl fi : Field) (xs : List (Dur × List α))
    (h : ∀ x ∈ xs, 0 ≤ x.1) :
    dnsProblems fc fl fi xs (xs.map fun x => (Spec.C03.trunc x.1 second, x.2)) = [] := by
  unfold dnsProblems
  split
  · rfl
  · simp only [List.length_map, bne_self_eq_false, Bool.false_eq_true, if_false]
    exact zip_trunc_flatMap fl fi xs h

/-- **An RA equal to CoreRAD's own after a wire round trip produces no report**: a coherent RA
    with non-negative durations (in particular a wire-safe one) is consistent with its own
    truncation to the wire units. -/
theorem verify_roundtrip (a : RA) (hn : NonNeg a) (hc : coherent a = true) :
    verifyRAs a (Spec.C03.truncateRA a) = [] := by
  rw [verify_eq_spec]
  obtain ⟨hr, ht, hpi, hri, hrd, hds⟩ := hn
  unfold coherent at hc
  simp only [Bool.and_eq_true, List.all_eq_true, Bool.or_eq_true, Bool.not_eq_true', beq_iff_eq] at hc
  have hpiP : prefixProblems a (Spec.C03.truncateRA a) = [] := by
    unfold prefixProblems Spec.C03.truncateRA
    simp only [pickPI_trunc, List.flatMap_eq_nil_iff, List.mem_map]
    rintro x hx _ ⟨y, hy, rfl⟩
    simp only [sec_trunc _ (hpi y hy).1, sec_trunc _ (hpi y hy).2]
    rcases hc.1 x hx y hy with h | h
    · simp [h]
    · simp [h.1, h.2]
  have hriP : routeProblems a (Spec.C03.truncateRA a) = [] := by
    unfold routeProblems Spec.C03.truncateRA
    simp only [pickRI_trunc, List.flatMap_eq_nil_iff, List.mem_map]
    rintro x hx _ ⟨y, hy, rfl⟩
    simp only [sec_trunc _ (hri y hy)]
    rcases hc.2 x hx y hy with h | h
    · simp [h]
    · simp [h]
  unfold specProblems header timerDiffers
  rw [hpiP, hriP]
  simp only [Spec.C03.truncateRA, pickRDNSS_trunc, pickDNSSL_trunc, firstMTU_trunc, firstPortal_trunc,
    dns_trunc _ _ _ _ hrd, dns_trunc _ _ _ _ hds, msec_trunc _ hr, msec_trunc _ ht,
    hopDiffers_self, bne_self_eq_false, Bool.and_false, Bool.false_eq_true, if_false, List.append_nil, List.nil_append]
  cases firstMTU a.options <;> cases firstPortal a.options <;> simp

/-- Non-vacuity: a concrete pair with a differing prefix lifetime, a differing MTU and an RDNSS
    option absent on one side reports exactly the two comparable differences. -/
example :
    let p : IP := { val := 0x20010db8000000010000000000000000 }
    let own : RA := { hopLimit := 64, options := [.pi p 64 true true (2 * hour) hour, .mtu 1500, .rdnss hour [p]] }
    let got : RA := { hopLimit := 64, options := [.mtu 1280, .pi p 64 true true (3 * hour) hour] }
    verifyRAs own got = [{ field := .mtu }, { field := .piValid, details := some (p, 64) }] ∧
    coherent own = true ∧ verifyRAs own own = [] := by
  decide

end Corerad.Props.C12
