/-
  C10 — failures tear the interface task down, recover per policy; never half-alive.
  This file: the goroutine-group part (every failure stops every activity of the task
  together).  The dialer part (classification, back-off, ≤ 50 attempts, prompt cancellation)
  is in Props/C10Dialer.lean; receive timeouts are in Props/C09.lean (`timeouts_general`).
-/
import Corerad.Model.Group

namespace Corerad.Props.C10

open Corerad Corerad.Model.Group

/-- `Listen` cancels its interrupt goroutine before waiting for it (extracted from the order of
    the deferred calls; fails to build on a tree with the old order) -/
theorem gen_cancel_before_wait : Gen.Listener.cancelBeforeWait = true := by decide

/-- inductive invariant of the group with the repaired defer order -/
structure Inv (x : St) : Prop where
  i_dl : x.i = true → x.dl = true
  cw_ctx : x.l = .cancelWait → x.ctxDone = true
  done_ctx : x.l = .done → x.ctxDone = true
  ew_lctx : x.l = .errWait → x.lctx = true
  ret_all : x.ret = true → x.l = .done ∧ x.i = true ∧ x.s = true ∧ x.m = true ∧ x.w = true

theorem inv_init (mon uo : Bool) : Inv (init mon uo) :=
  ⟨by simp [init], by simp [init], by simp [init], by simp [init], by simp [init]⟩

theorem inv_step (x y : St) (e : Ev) (h : Inv x) (hs : step true x e = some y) : Inv y := by
  obtain ⟨h1, h2, h3, h4, h5⟩ := h
  cases e <;> simp only [step] at hs <;> split at hs <;> (try (cases hs; done)) <;>
    rename_i hc <;> simp only [Option.some.injEq] at hs <;> subst hs <;>
    constructor <;> simp_all [St.ctxDone]

theorem inv_run : ∀ (es : List Ev) (x y : St), Inv x → run true x es = some y → Inv y
  | [], x, y, h, hr => by simp only [run, Option.some.injEq] at hr; subst hr; exact h
  | e :: es, x, y, h, hr => by
    simp only [run] at hr
    split at hr
    · cases hr
    · rename_i x1 hx1
      exact inv_run es x1 y (inv_step x x1 e h hx1) hr

/-- **Never half-alive**: in every reachable state of an advertiser's or monitor's group, if
    something has failed or the task was cancelled and no internal step is possible any more,
    then every goroutine has returned and the group itself has returned. -/
theorem no_half_alive (mon uo : Bool) (es : List Ev) (x : St)
    (hr : run true (init mon uo) es = some x) (hq : quiescent true x = true) (ht : triggered x = true) :
    x.ret = true ∧ x.l = .done ∧ x.i = true ∧ x.s = true ∧ x.m = true ∧ x.w = true := by
  have hinv := inv_run es _ x (inv_init mon uo) hr
  obtain ⟨h1, h2, h3, h4, _⟩ := hinv
  simp only [quiescent, internal, List.all_cons, List.all_nil, Bool.and_true, Bool.and_eq_true,
    Option.isNone_iff_eq_none] at hq
  obtain ⟨q1, q2, q3, q4, q5, q6, q7, q8, q9⟩ := hq
  simp only [step] at q1 q2 q3 q4 q5 q6 q7 q8 q9
  have g1 : ¬ ((!x.i) = true ∧ (x.ctxDone || x.lctx) = true) := fun h => by rw [if_pos h] at q1; cases q1
  have g2 : ¬ (x.l = .reading ∧ x.ctxDone = true ∧ x.dl = true) := fun h => by rw [if_pos h] at q2; cases q2
  have g3 : ¬ (x.l = .cancelWait ∧ x.i = true) := fun h => by rw [if_pos h] at q3; cases q3
  have g4 : ¬ (x.l = .errPath) := fun h => by rw [if_pos h] at q4; cases q4
  have g5 : ¬ (x.l = .errWait ∧ x.i = true) := fun h => by rw [if_pos h] at q5; cases q5
  have g6 : ¬ ((!x.s) = true ∧ x.ctxDone = true) := fun h => by rw [if_pos h] at q6; cases q6
  have g7 : ¬ ((!x.m) = true ∧ x.ctxDone = true) := fun h => by rw [if_pos h] at q7; cases q7
  have g8 : ¬ ((!x.w) = true ∧ x.ctxDone = true) := fun h => by rw [if_pos h] at q8; cases q8
  have g9 : ¬ (x.l = .done ∧ x.i = true ∧ x.s = true ∧ x.m = true ∧ x.w = true ∧ (!x.ret) = true) :=
    fun h => by rw [if_pos h] at q9; cases q9
  simp only [triggered, Bool.or_eq_true, bne_iff_ne, ne_eq] at ht
  by_cases hc : x.ctxDone = true
  · -- the context is cancelled: everything winds down
    have hi : x.i = true := by
      cases hi : x.i
      · exact absurd ⟨by simp [hi], by simp [hc]⟩ g1
      · rfl
    have hdl := h1 hi
    have hl : x.l = .done := by
      cases hl : x.l
      · exact absurd ⟨hl, hc, hdl⟩ g2
      · exact absurd hl g4
      · exact absurd ⟨hl, hi⟩ g5
      · exact absurd ⟨hl, hi⟩ g3
      · rfl
    have hs : x.s = true := by
      cases hs : x.s
      · exact absurd ⟨by simp [hs], hc⟩ g6
      · rfl
    have hm : x.m = true := by
      cases hm : x.m
      · exact absurd ⟨by simp [hm], hc⟩ g7
      · rfl
    have hw : x.w = true := by
      cases hw : x.w
      · exact absurd ⟨by simp [hw], hc⟩ g8
      · rfl
    have hret : x.ret = true := by
      cases hret : x.ret
      · exact absurd ⟨hl, hi, hs, hm, hw, by simp [hret]⟩ g9
      · rfl
    exact ⟨hret, hl, hi, hs, hm, hw⟩
  · -- not cancelled: the listener must be on its error path, which always makes progress
    exfalso
    have hnc : x.parent = false ∧ x.eg = false := by
      simp only [St.ctxDone, Bool.or_eq_true, not_or, Bool.not_eq_true] at hc; exact hc
    have hl : x.l ≠ .reading := by
      rcases ht with (h | h) | h
      · simp [hnc.1] at h
      · simp [hnc.2] at h
      · exact h
    cases hl' : x.l
    · exact hl hl'
    · exact g4 hl'
    · have hlctx := h4 hl'
      cases hi : x.i
      · exact g1 ⟨by simp [hi], by simp [hlctx]⟩
      · exact g5 ⟨hl', hi⟩
    · exact hc (h2 hl')
    · exact hc (h3 hl')

/-- every internal step strictly decreases the remaining work: teardown terminates -/
theorem teardown_terminates (cbw : Bool) (x y : St) (e : Ev) (he : e ∈ internal)
    (hs : step cbw x e = some y) : work y < work x := by
  simp only [internal, List.mem_cons, List.mem_nil_iff, or_false] at he
  rcases he with rfl | rfl | rfl | rfl | rfl | rfl | rfl | rfl | rfl <;>
    simp only [step] at hs <;> split at hs <;> (try (cases hs; done)) <;>
    rename_i hc <;> simp only [Option.some.injEq] at hs <;> subst hs <;>
    simp_all [work]

/-- The unrepaired defer order (F-7): after a single read error the group is quiescent with the
    listener stuck, the scheduler and the multicast loop still running — half-alive. -/
theorem half_alive_witness :
    ∃ y, run false (init false false) [.readErr, .lErrDefer] = some y ∧
      quiescent false y = true ∧ triggered y = true ∧ y.ret = false ∧ y.s = false ∧ y.m = false := by
  refine ⟨_, rfl, ?_⟩
  decide

/-- Non-vacuity: with the repaired order the same fault runs to completion. -/
example :
    ∃ y, run true (init false false)
      [.readErr, .lErrDefer, .iRun, .lErrWaitDone, .sRet, .mRet, .wRet, .groupReturn] = some y ∧
      quiescent true y = true ∧ triggered y = true ∧ y.ret = true := by
  refine ⟨_, rfl, ?_⟩
  decide

end Corerad.Props.C10
