/-
  C10, OS-glue part — `checkInterface`, `lookupInterface`, `isNoSuchInterface` of
  internal/system/conn.go, and the link to the dialer's recovery policy.

  All theorems quantify over every interface state: up or down, an address listing that fails
  in any of the three ways `Dialer.init` tells apart, or any address list (any length; entries
  that are not `*net.IPNet`, byte slices of the wrong length, IPv4 in 4-byte and in IPv4-mapped
  16-byte form, IPv6 of any kind).  Model: Model/CheckIface.lean; oracle evaluated on the real
  `checkInterface`'s answer: Spec/C10Check.lean; dialer model and policy oracle:
  Model/Dialer.lean, Spec/C10Dialer.lean, Props/C10Dialer.lean.

  Finding F-16 (see `gap_iff`, `finding_witness`; repaired in /repo, `current_meets_spec`): with
  the address test of the pinned source (`codeExcludes4In6 = false`) an interface whose only
  link-local address is an IPv4-mapped 169.254.0.0/16 one was reported ready.
-/
import Corerad.Spec.C10Check
import Corerad.Props.C10Dialer

namespace Corerad.Props.C10Check

open Corerad Corerad.Model.Dialer Corerad.Model.CheckIface Corerad.Spec.C10Check
open Corerad.Spec.C10Dialer (dialClass)

/-! ### the address test -/

/-- With `!ip.Is4In6()` the source's test is the documented one: a 16-byte address in
    fe80::/10. -/
theorem addrTest_strict (ip : IP) : addrTest true ip = isV6LinkLocal ip := by
  unfold addrTest isV6LinkLocal IP.isLinkLocalUnicast IP.unmap IP.is4In6 IP.is6 IP.is4
  cases hv : ip.valid <;> cases h4 : ip.v4 <;> simp
  by_cases hm : ip.val / 2 ^ 32 = 65535
  · have : ¬ ip.val / 2 ^ 118 = 1018 := by omega
    simp [hm, this]
  · simp [hm, hv, h4]

/-- Without it (the pinned source) the test also accepts IPv4-mapped 169.254.0.0/16:
    `Is6` is true for an IPv4-mapped address and `IsLinkLocalUnicast` unmaps it. -/
theorem addrTest_loose (ip : IP) :
    addrTest false ip = (isV6LinkLocal ip || isMappedV4LinkLocal ip) := by
  unfold addrTest isV6LinkLocal isMappedV4LinkLocal IP.isLinkLocalUnicast IP.unmap IP.is4In6 IP.is6 IP.is4
  cases hv : ip.valid <;> cases h4 : ip.v4 <;> simp
  by_cases hm : ip.val / 2 ^ 32 = 65535
  · have : ¬ ip.val / 2 ^ 118 = 1018 := by omega
    simp [hm, this]
  · simp [hm, hv, h4]

/-- the two tests differ exactly on IPv4-mapped 169.254.0.0/16 -/
theorem addrTest_differ_iff (ip : IP) :
    addrTest false ip ≠ addrTest true ip ↔ isMappedV4LinkLocal ip = true := by
  rw [addrTest_loose, addrTest_strict]
  have hex : isV6LinkLocal ip = true → isMappedV4LinkLocal ip = false := by
    unfold isV6LinkLocal isMappedV4LinkLocal
    cases ip.valid <;> cases ip.v4 <;> simp
    intro h1 h2
    omega
  cases h1 : isV6LinkLocal ip <;> cases h2 : isMappedV4LinkLocal ip <;> simp
  exact absurd (hex h1) (by simp [h2])

/-! ### `checkInterface` -/

/-- **check_ok_iff.**  `checkInterface` returns nil iff the interface is up, its addresses could
    be listed, and one of them is a `*net.IPNet` that passes the address test. -/
theorem check_ok_iff (strict : Bool) (i : Iface) :
    (checkWith strict i).out = .ok ↔
      i.up = true ∧ ∃ as, i.addrs = .ok as ∧ ∃ a ∈ as, a.isIPNet = true ∧ addrTest strict a.ip = true := by
  unfold checkWith
  cases hu : i.up
  · simp
  · cases ha : i.addrs with
    | error f => cases f <;> simp [AddrFail.out]
    | ok as =>
      by_cases hm : as.any (entryMatches strict) = true
      · simp only [Bool.not_true, Bool.false_eq_true, if_false, hm, if_true, true_and]
        simp only [List.any_eq_true, entryMatches, Bool.and_eq_true] at hm
        obtain ⟨a, ha', h1, h2⟩ := hm
        simp only [Except.ok.injEq, exists_eq_left', true_iff]
        exact ⟨a, ha', h1, h2⟩
      · simp only [Bool.not_true, Bool.false_eq_true, if_false, hm, true_and]
        simp only [List.any_eq_true, entryMatches, Bool.and_eq_true, not_exists, not_and] at hm
        simp only [Except.ok.injEq, exists_eq_left', reduceCtorEq, false_iff, not_exists, not_and]
        intro a ha' h1 h2
        exact hm a ha' h1 h2

/-- …with the documented test: nil ⇔ up ∧ some address is an IPv6 link-local unicast address. -/
theorem check_ok_iff_documented (i : Iface) :
    (checkWith true i).out = .ok ↔
      i.up = true ∧ ∃ as, i.addrs = .ok as ∧ ∃ a ∈ as, a.isIPNet = true ∧ isV6LinkLocal a.ip = true := by
  rw [check_ok_iff]; simp only [addrTest_strict]

/-- …with the pinned source's test: nil ⇔ up ∧ some address is an IPv6 link-local unicast
    address *or an IPv4-mapped 169.254.0.0/16 address*. -/
theorem check_ok_iff_pinned (i : Iface) :
    (checkWith false i).out = .ok ↔
      i.up = true ∧ ∃ as, i.addrs = .ok as ∧
        ∃ a ∈ as, a.isIPNet = true ∧ (isV6LinkLocal a.ip = true ∨ isMappedV4LinkLocal a.ip = true) := by
  rw [check_ok_iff]; simp only [addrTest_loose, Bool.or_eq_true]

/-- **not_ready_iff.**  `checkInterface` returns an error wrapping `ErrLinkNotReady` iff the
    interface is down, or it is up, its addresses could be listed, and none passes the test. -/
theorem not_ready_iff (strict : Bool) (i : Iface) :
    (checkWith strict i).out = .linkNotReady ↔
      i.up = false ∨
      (∃ as, i.addrs = .ok as ∧ ∀ a ∈ as, ¬ (a.isIPNet = true ∧ addrTest strict a.ip = true)) := by
  unfold checkWith
  cases hu : i.up
  · simp
  · cases ha : i.addrs with
    | error f => cases f <;> simp [AddrFail.out]
    | ok as =>
      by_cases hm : as.any (entryMatches strict) = true
      · simp only [Bool.not_true, Bool.false_eq_true, if_false, hm, if_true]
        simp only [List.any_eq_true, entryMatches, Bool.and_eq_true] at hm
        obtain ⟨a, ha', h1, h2⟩ := hm
        simp only [Except.ok.injEq, exists_eq_left', reduceCtorEq, false_iff]
        rintro (h | h)
        · cases h
        · exact h a ha' ⟨h1, h2⟩
      · simp only [Bool.not_true, Bool.false_eq_true, if_false, hm, true_iff]
        simp only [List.any_eq_true, entryMatches, Bool.and_eq_true, not_exists, not_and] at hm
        exact Or.inr ⟨as, rfl, fun a ha' h => hm a ha' h.1 h.2⟩

/-- An address-listing failure on an interface that is up is passed through wrapped (`%w`):
    the error keeps its class — a system-call error stays a system-call error, a permission
    error stays a permission error — and `errors.Is` still finds the original error. -/
theorem addr_error_passthrough (strict : Bool) (i : Iface) (f : AddrFail)
    (hu : i.up = true) (ha : i.addrs = .error f) :
    checkWith strict i = { out := f.out, wrapsAddrErr := true } ∧
    (f = .syscall → (checkWith strict i).out = .syscall) ∧
    (f = .permission → (checkWith strict i).out = .permission) ∧
    (f = .other → (checkWith strict i).out = .other) := by
  have h : checkWith strict i = { out := f.out, wrapsAddrErr := true } := by
    simp [checkWith, hu, ha]
  refine ⟨h, ?_, ?_, ?_⟩ <;> (rintro rfl; rw [h]; rfl)

/-- Nothing else: apart from a passed-through listing failure the answer is nil or
    link-not-ready, and it wraps no foreign error. -/
theorem check_classes (strict : Bool) (i : Iface) :
    (∃ f, i.up = true ∧ i.addrs = .error f) ∨
    (checkWith strict i = { out := .ok } ∨ checkWith strict i = { out := .linkNotReady }) := by
  unfold checkWith
  cases hu : i.up
  · right; right; simp
  · cases ha : i.addrs with
    | error f => left; exact ⟨f, rfl, rfl⟩
    | ok as =>
      right
      by_cases hm : as.any (entryMatches strict) = true <;> simp [hm]

/-- A down interface is never asked for its addresses (`addrFunc` is not called): the answer
    does not depend on the address list. -/
theorem down_ignores_addrs (strict : Bool) (i j : Iface) (hi : i.up = false) (hj : j.up = false) :
    checkWith strict i = checkWith strict j := by
  simp [checkWith, hi, hj]

/-- With the documented address test the model is the oracle's `expected`, for every interface. -/
theorem strict_meets_spec (i : Iface) : checkWith true i = expected i := by
  unfold checkWith expected hasV6LinkLocal
  cases i.up
  · rfl
  · cases i.addrs with
    | error f => cases f <;> rfl
    | ok as =>
      have : as.any (entryMatches true) = as.any (fun a => a.isIPNet && isV6LinkLocal a.ip) := by
        congr 1; funext a; simp [entryMatches, addrTest_strict]
      simp [this]

private theorem any_or {α : Type} (p q : α → Bool) (l : List α) :
    l.any (fun a => p a || q a) = (l.any p || l.any q) := by
  induction l with
  | nil => rfl
  | cons a l ih =>
    simp only [List.any_cons, ih]
    cases p a <;> cases q a <;> cases l.any p <;> cases l.any q <;> rfl

/-- With the pinned source's test the model differs from the documented answer exactly on the
    finding's class: up, addresses listed, no IPv6 link-local address, some IPv4-mapped
    169.254.0.0/16 address, and nil returned. -/
theorem gap_iff (i : Iface) :
    checkWith false i ≠ expected i ↔ v4MappedClass i (checkWith false i) = true := by
  unfold checkWith expected v4MappedClass hasV6LinkLocal
  cases hu : i.up
  · simp
  · cases ha : i.addrs with
    | error f => cases f <;> simp [AddrFail.out]
    | ok as =>
      have hloose : as.any (entryMatches false) =
          (as.any (fun a => a.isIPNet && isV6LinkLocal a.ip) ||
           as.any (fun a => a.isIPNet && isMappedV4LinkLocal a.ip)) := by
        rw [← any_or]
        congr 1; funext a
        simp only [entryMatches, addrTest_loose]
        cases a.isIPNet <;> simp
      simp only [Bool.not_true, Bool.false_eq_true, if_false, hloose]
      cases h1 : as.any (fun a => a.isIPNet && isV6LinkLocal a.ip) <;>
        cases h2 : as.any (fun a => a.isIPNet && isMappedV4LinkLocal a.ip) <;> simp

/-- Hence on every interface without an IPv4-mapped 169.254.0.0/16 address the pinned source
    answers as documented. -/
theorem pinned_meets_spec_of_no_mapped (i : Iface)
    (h : ∀ as, i.addrs = .ok as → ∀ a ∈ as, ¬ (a.isIPNet = true ∧ isMappedV4LinkLocal a.ip = true)) :
    checkWith false i = expected i := by
  apply Decidable.byContradiction
  intro hne
  have hc := (gap_iff i).mp hne
  unfold v4MappedClass at hc
  cases ha : i.addrs with
  | error f => simp [ha] at hc
  | ok as =>
    simp only [ha, Bool.and_eq_true, List.any_eq_true] at hc
    obtain ⟨_, _, a, ha', h1, h2⟩ := hc
    exact h as ha a ha' ⟨h1, h2⟩

/-- The finding's witness: `eth0` is up and holds 169.254.7.9/16 (as package net reports it:
    `::ffff:169.254.7.9`) and the global address 2001:db8::1, no fe80:: address.  The documented
    answer is link-not-ready; the pinned source's test answers nil. -/
theorem finding_witness :
    let i : Iface := ⟨true, .ok
      ([⟨true, { val := 0xffffa9fe0709 }⟩, ⟨true, { val := 0x20010db8000000000000000000000001 }⟩])⟩
    expected i = { out := .linkNotReady } ∧ checkWith false i = { out := .ok } ∧
    checkWith true i = { out := .linkNotReady } ∧ v4MappedClass i (checkWith false i) = true := by
  decide

/-! ### the current source (regenerated facts) -/

/-- The address test of `checkInterface` as it stands in conn.go now (regenerated on every run):
    a 16-byte address that is not IPv4-mapped and is link-local unicast. -/
theorem gen_addr_test :
    Gen.Dialer.checkAddrConjuncts = ["ok", "ip.Is6()", "!ip.Is4In6()", "ip.IsLinkLocalUnicast()"] := by
  decide

theorem gen_excludes_4in6 : codeExcludes4In6 = true := by decide

/-- Hence the current source answers as documented on every interface state (F-16 repaired). -/
theorem current_meets_spec (i : Iface) : check i = expected i := by
  unfold check
  rw [gen_excludes_4in6]
  exact strict_meets_spec i

/-! ### `lookupInterface` -/

/-- `lookupInterface` answers as documented: an interface that does not exist yet is
    link-not-ready (recoverable), any other lookup failure is unrecoverable. -/
theorem lookup_meets_spec (err : Option OpErr) : lookup err = expectedLookup err := by
  cases err with
  | none => rfl
  | some e => simp [lookup, expectedLookup, isNoSuchInterface]

theorem lookup_not_ready_iff (err : Option OpErr) :
    lookup err = .linkNotReady ↔
      ∃ e, err = some e ∧ e.isOpError = true ∧ e.opRoute = true ∧ e.netIPNet = true ∧ e.msgNoSuch = true := by
  cases err with
  | none => simp [lookup]
  | some e =>
    unfold lookup isNoSuchInterface
    cases e.isOpError <;> cases e.opRoute <;> cases e.netIPNet <;> cases e.msgNoSuch <;> simp

/-! ### the link to the dialer's recovery policy (Spec/C10Dialer.lean) -/

/-- Which `DialOutcome` each answer is, for the policy of `Dialer.init`:
    nil ↦ fine; down / no link-local address / interface does not exist ↦ `linkNotReady`,
    recoverable; listing failed with a system-call error ↦ `syscall`, recoverable; with a
    permission error ↦ `permission`, fatal; with anything else ↦ `other`, fatal. -/
theorem outcome_classes :
    dialClass DialOut.ok = .fine ∧ dialClass DialOut.linkNotReady = .recoverable ∧
    dialClass AddrFail.syscall.out = .recoverable ∧ dialClass AddrFail.permission.out = .fatal ∧
    dialClass AddrFail.other.out = .fatal := by
  decide

/-- **Recoverability matches the policy.**  The answer of `checkInterface` is a recoverable
    cause for `Dialer.init` iff the interface is down, or has no address passing the test, or
    listing its addresses failed with a system-call error that is not a permission error. -/
theorem recoverable_iff (strict : Bool) (i : Iface) :
    dialClass (checkWith strict i).out = .recoverable ↔
      i.up = false ∨ i.addrs = .error .syscall ∨
      (∃ as, i.addrs = .ok as ∧ ∀ a ∈ as, ¬ (a.isIPNet = true ∧ addrTest strict a.ip = true)) := by
  constructor
  · intro h
    have : (checkWith strict i).out = .linkNotReady ∨ (checkWith strict i).out = .syscall := by
      cases hc : (checkWith strict i).out <;> simp [hc, dialClass] at h ⊢
    rcases this with h' | h'
    · rcases (not_ready_iff strict i).mp h' with h'' | h''
      · exact Or.inl h''
      · exact Or.inr (Or.inr h'')
    · unfold checkWith at h'
      cases hu : i.up
      · exact Or.inl rfl
      · cases ha : i.addrs with
        | error f => cases f <;> simp [hu, ha, AddrFail.out] at h' ⊢
        | ok as =>
          simp only [hu, ha, Bool.not_true, Bool.false_eq_true, if_false] at h'
          split at h' <;> cases h'
  · rintro (h | h | h)
    · rw [(not_ready_iff strict i).mpr (Or.inl h)]; rfl
    · cases hu : i.up
      · rw [(not_ready_iff strict i).mpr (Or.inl hu)]; rfl
      · rw [(addr_error_passthrough strict i .syscall hu h).1]; rfl
    · rw [(not_ready_iff strict i).mpr (Or.inr h)]; rfl

/-- A link-not-ready answer is never fatal and never "fine": `errors.Is(err, ErrLinkNotReady)`
    puts `init` on its re-dial path. -/
theorem not_ready_next (k : Nat) : DialOut.linkNotReady.next k = .inr (.retry 0) := by
  simp [DialOut.next, enterRetry_zero]

/-- Run level: when the first `dial()` of a `Dialer.Dial` fails in `checkInterface` (or in
    `lookupInterface`) with link-not-ready, `Dial` does not return: it goes on re-dialling with
    the first re-dial due at once (`retry 0`, wait 0) — whatever the mode, the cancellation
    instant and the rest of the script. -/
theorem not_ready_redials (leak : Bool) (cfg : Cfg) (a : Attempt) (as : List Attempt)
    (h : a.pre = .linkNotReady) :
    dialRunWith leak cfg (a :: as) =
      { goRun leak cfg (.retry 0) { k := 1, now := 0, ac := cfg.ac0 } as with
        evs := [.dial 0, .dialRet 0 .linkNotReady] ++
               (goRun leak cfg (.retry 0) { k := 1, now := 0, ac := cfg.ac0 } as).evs } := by
  unfold dialRunWith
  have hs : stepAttempt leak cfg .first { k := 0, now := 0, ac := cfg.ac0 } a =
      { evs := [.dial 0, .dialRet 0 .linkNotReady], st := { k := 1, now := 0, ac := cfg.ac0 },
        next := .inr (.retry 0) } := by
    simp [stepAttempt, afterDial, dialFn, h, not_ready_next]
  rw [goRun_cons_inr leak cfg .first _ a as (.retry 0) (by rw [hs])]
  rw [hs]

/-- …and a passed-through permission error, or any non-system-call listing failure, ends `Dial`
    at once with exactly that error (`Props.C10Dialer.first_dial_fatal`). -/
theorem fatal_returns (leak : Bool) (cfg : Cfg) (i : Iface) (f : AddrFail) (as : List Attempt)
    (hu : i.up = true) (ha : i.addrs = .error f) (hf : f = .permission ∨ f = .other) :
    dialRunWith leak cfg ({ pre := (check i).out } :: as) =
      { evs := [.dial 0, .dialRet 0 f.out, .ret (.dial 0)], ret := .dial 0, ac := cfg.ac0 } := by
  have : (check i).out = f.out := by
    unfold check; rw [(addr_error_passthrough _ i f hu ha).1]
  rw [this]
  apply Props.C10Dialer.first_dial_fatal
  rcases hf with rfl | rfl
  · left; rfl
  · right; rfl

/-- Every run of `Dial` whose `DialFunc` outcomes come from `lookupInterface`/`checkInterface`
    on any sequence of interface states satisfies the recovery-policy oracle of C10
    (instance of `Props.C10Dialer.holds_model`: the policy is proved for every script). -/
theorem dial_over_check_holds (cfg : Cfg) (states : List (Option OpErr × Iface)) (rest : List Attempt) :
    Spec.C10Dialer.holds
      (dialRun cfg (states.map (fun s => { pre := lookupThenCheck s.1 s.2 }) ++ rest)).evs = true :=
  Props.C10Dialer.holds_model _ _

end Corerad.Props.C10Check
