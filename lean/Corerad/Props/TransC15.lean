/-
  TransC15 — `(*Route).current` (internal/plugin/plugin.go) tied to `Model.currentRoutes` by
  REGENERATION (tools/extract/translate_loop.go; see Props/TransC13.lean for the scheme).

  The labelled loop `outer: for _, rt := range routes` becomes a left fold over the route dump
  with the state (`prefixes`, `seen`); the inner loop
  `for _, rt2 := range routes { if rt2.Prefix.Bits() < rt.Prefix.Bits() && rt2.Prefix.Contains(rt.Prefix.Addr()) { continue outer } }`
  becomes `List.any routes …` guarding the unchanged state.  `Route_current_equiv` states, for EVERY
  dump of valid prefixes, equality with the declarative model
  `sortBy addrKey ∘ dedupe ∘ filter (routeKept dump)` — the function the C15 theorems (maximal,
  non-overlapping, duplicate-free, ascending, permutation-invariant) are about.  Comparing `≤`
  instead of `<`, testing containment the other way round, looking the covering route up among the
  kept ones instead of the whole dump, dropping the /128 or IPv4 exclusion, recording `seen` before
  the covering test: each changes the translated definition and the proof stops checking.
-/
import Corerad.Gen.Trans
import Corerad.Model.Wild
import Corerad.Lemmas.LoopFold
import Corerad.Props.TransC13

namespace Corerad.Props.TransC15

open Corerad Corerad.Model Corerad.Lemmas.LoopFold Corerad.Props.TransC13

/-- what the operating system hands over: valid prefixes of well-formed addresses -/
def WF (rs : List Prefix) : Prop := ∀ r ∈ rs, r.isValid = true ∧ r.addr.val < 2^128

/-- the `continue` tests of the loop other than the `seen` test, joined -/
def skip (rs : List Prefix) (r : Prefix) : Bool :=
  (r.addr.is4 || r.isSingleIP) || rs.any (fun q => decide (q.bits < r.bits) && q.contains r.addr)

theorem skip_eq (rs : List Prefix) (r : Prefix) : (!skip rs r) = routeKept rs r := by
  unfold skip routeKept
  cases (r.addr.is4 || r.isSingleIP) <;> simp

theorem goBits_valid (p : Prefix) (h : p.isValid = true) : goBits p = (p.bits : Int) := by
  simp [goBits, h]

/-- **`(*Route).current()` as translated from the source is `Model.currentRoutes`**, for every
    route dump (any length, order, multiplicity) of valid prefixes. -/
theorem Route_current_equiv (rs : List Prefix) (hwf : WF rs) :
    Gen.Trans.Route_current (recv_Routes := some rs) (Route_Prefix := fun (r : Prefix) => r)
        (Prefix_Addr := fun p => p.addr) (Addr_Is4 := IP.is4) (Prefix_IsSingleIP := Prefix.isSingleIP)
        (Prefix_Bits := goBits) (Prefix_Contains := Prefix.contains) (Addr_Compare := compareInt)
      = some (currentRoutes rs) := by
  unfold Gen.Trans.Route_current currentRoutes
  simp only [Option.some.injEq]
  have hbody : ∀ (st : List Prefix × List Prefix), ∀ rt ∈ rs,
      (if (rt.addr.is4 || rt.isSingleIP) = true then (st.1, st.2)
        else if decide (rt ∈ st.2) = true then (st.1, st.2)
        else if (List.any rs (fun rt2 => decide (goBits rt2 < goBits rt) && rt2.contains rt.addr)) = true then (st.1, st.2)
        else (st.1 ++ [rt], rt :: st.2))
      = step (skip rs) (fun r => r) st rt := by
    intro st rt hrt
    have hany : List.any rs (fun rt2 => decide (goBits rt2 < goBits rt) && rt2.contains rt.addr)
        = List.any rs (fun q => decide (q.bits < rt.bits) && q.contains rt.addr) := by
      apply List.any_congr rfl
      intro q
      by_cases hq : q.isValid = true
      · rw [goBits_valid q hq, goBits_valid rt (hwf rt hrt).1]
        congr 1
        exact decide_eq_decide.mpr Int.ofNat_lt
      · have hq' : q.isValid = false := by simpa using hq
        have : q.contains rt.addr = false := by simp [Prefix.contains, hq']
        simp [this]
    rw [hany]
    unfold step skip
    cases h1 : (rt.addr.is4 || rt.isSingleIP) <;>
      cases h2 : (List.any rs (fun q => decide (q.bits < rt.bits) && q.contains rt.addr)) <;>
      by_cases h3 : rt ∈ st.2 <;> simp [h3]
  rw [foldl_congr_mem _ (step (skip rs) (fun r => r)) rs _ hbody, foldl_step_nil]
  have hf : rs.filter (fun a => !skip rs a) = rs.filter (routeKept rs) := by
    apply List.filter_congr
    intro a _
    exact skip_eq rs a
  rw [hf, List.map_id']
  apply sortStableFunc_eq_sortBy
  intro x hx y hy
  have hval : ∀ z ∈ dedupe (rs.filter (routeKept rs)), z.addr.val < 2^128 := by
    intro z hz
    rw [mem_dedupe] at hz
    exact (hwf z (List.mem_filter.mp hz).1).2
  exact compareInt_le_iff _ _ (hval x hx) (hval y hy)

/-- non-vacuity: nested routes sharing a base, a duplicate, a /128 and a default route's child -/
example :
    Gen.Trans.Route_current
        (recv_Routes := some [
          (⟨{ val := 0xfd000000000000000000000000000000 }, 64⟩ : Prefix),
          ⟨{ val := 0xfd000000000000000000000000000000 }, 48⟩,
          ⟨{ val := 0x20010db8000000000000000000000000 }, 32⟩,
          ⟨{ val := 0xfd000000000000000000000000000000 }, 48⟩,
          ⟨{ val := 0x20010db8000000000000000000000001 }, 128⟩ ])
        (Route_Prefix := fun (r : Prefix) => r)
        (Prefix_Addr := fun p => p.addr) (Addr_Is4 := IP.is4) (Prefix_IsSingleIP := Prefix.isSingleIP)
        (Prefix_Bits := goBits) (Prefix_Contains := Prefix.contains) (Addr_Compare := compareInt)
      = some [⟨{ val := 0x20010db8000000000000000000000000 }, 32⟩,
              ⟨{ val := 0xfd000000000000000000000000000000 }, 48⟩] := by
  decide +kernel

example : WF [⟨{ val := 0xfd000000000000000000000000000000 }, 64⟩, ⟨{ val := 0x20010db8000000000000000000000000 }, 32⟩] := by
  intro r hr
  simp only [List.mem_cons, List.mem_nil_iff, or_false] at hr
  rcases hr with rfl | rfl <;> decide

end Corerad.Props.TransC15
