/-
  C13 — the `::/64` wildcard expands to exactly the interface's eligible /64 networks.
  All theorems quantify over every address list (any length, any order, any multiplicity).
-/
import Corerad.Spec.C13
import Corerad.Model.RA
import Corerad.Lemmas.ListUtil

namespace Corerad.Props.C13

open Corerad Corerad.Model

/-- The skip conditions in the code are exactly the documented eligibility predicate. -/
theorem eligible_eq (bits : Nat) (a : SysIP) : prefixEligible bits a = Spec.C13.eligible bits a := by
  unfold prefixEligible Spec.C13.eligible
  cases a.addr.isValid <;> cases a.addr.addr.is4 <;> cases a.addr.addr.isLinkLocalUnicast <;>
    cases a.temporary <;> cases a.tentative <;> by_cases h : a.addr.bits = bits <;> simp [h, bne]

/-- Membership: a prefix is advertised iff it is the network of some eligible address. -/
theorem mem_iff (bits : Nat) (as : List SysIP) (p : Prefix) :
    p ∈ currentPrefixes bits as ↔ ∃ a ∈ as, Spec.C13.eligible bits a = true ∧ a.addr.masked = p := by
  unfold currentPrefixes
  simp only [mem_sortBy, mem_dedupe, List.mem_map, List.mem_filter, eligible_eq]
  constructor
  · rintro ⟨a, ⟨ha, he⟩, rfl⟩; exact ⟨a, ha, he, rfl⟩
  · rintro ⟨a, ha, he, rfl⟩; exact ⟨a, ⟨ha, he⟩, rfl⟩

private theorem out_shape (bits : Nat) (as : List SysIP) (p : Prefix) (hp : p ∈ currentPrefixes bits as) :
    p.addr.valid = true ∧ p.addr.v4 = false ∧ p.bits = bits := by
  obtain ⟨a, _, he, rfl⟩ := (mem_iff bits as p).mp hp
  unfold Spec.C13.eligible Prefix.isValid IP.is4 at he
  simp only [Bool.and_eq_true, Bool.not_eq_true', beq_iff_eq, decide_eq_true_eq] at he
  unfold Prefix.masked
  obtain ⟨⟨⟨⟨⟨⟨hv, _⟩, h4⟩, _⟩, hb⟩, _⟩, _⟩ := he
  refine ⟨hv, ?_, hb⟩
  simpa [hv] using h4

/-- Each network once, in strictly ascending address order. -/
theorem sorted_strict (bits : Nat) (as : List SysIP) :
    (currentPrefixes bits as).Pairwise (fun p q => addrKey p.addr < addrKey q.addr) := by
  apply strict_of_sorted_nodup
  · exact sorted_sortBy _ _
  · exact nodup_sortBy (nodup_dedupe _)
  · intro p hp q hq hk
    obtain ⟨pv, p4, pb⟩ := out_shape bits as p hp
    obtain ⟨qv, q4, qb⟩ := out_shape bits as q hq
    unfold addrKey IP.bitLen at hk
    simp only [pv, qv, p4, q4, Bool.not_true, Bool.false_eq_true, if_false] at hk
    have hval : p.addr.val = q.addr.val := by omega
    cases p with | mk pa pbits => cases q with | mk qa qbits =>
    cases pa with | mk a1 a2 a3 => cases qa with | mk b1 b2 b3 =>
    simp_all

theorem nodup (bits : Nat) (as : List SysIP) : (currentPrefixes bits as).Nodup :=
  nodup_sortBy (nodup_dedupe _)

/-- The result depends only on *which* addresses the operating system lists — not on their
    order and not on how often each is listed. -/
theorem ext_invariant (bits : Nat) (as bs : List SysIP) (h : ∀ a, a ∈ as ↔ a ∈ bs) :
    currentPrefixes bits as = currentPrefixes bits bs := by
  apply eq_of_strict_sorted (sorted_strict bits as) (sorted_strict bits bs)
  intro p
  rw [mem_iff, mem_iff]
  constructor
  · rintro ⟨a, ha, r⟩; exact ⟨a, (h a).mp ha, r⟩
  · rintro ⟨a, ha, r⟩; exact ⟨a, (h a).mpr ha, r⟩

theorem perm_invariant (bits : Nat) (as bs : List SysIP) (h : as.Perm bs) :
    currentPrefixes bits as = currentPrefixes bits bs :=
  ext_invariant bits as bs (fun _ => h.mem_iff)

theorem multiplicity_invariant (bits : Nat) (as : List SysIP) :
    currentPrefixes bits (as ++ as) = currentPrefixes bits as :=
  ext_invariant bits _ _ (fun a => by simp)

private theorem strictAsc_of_pairwise :
    ∀ (l : List Prefix), l.Pairwise (fun p q => addrKey p.addr < addrKey q.addr) → Spec.C13.strictAsc l = true
  | [], _ => rfl
  | [_], _ => rfl
  | p :: q :: r, h => by
    rw [List.pairwise_cons] at h
    simp only [Spec.C13.strictAsc, Bool.and_eq_true, decide_eq_true_eq]
    exact ⟨h.1 q List.mem_cons_self, strictAsc_of_pairwise (q :: r) h.2⟩

/-- The model meets the oracle that the check evaluates on the implementation's output. -/
theorem holds_model (bits : Nat) (as : List SysIP) :
    Spec.C13.holds bits as (currentPrefixes bits as) = true := by
  unfold Spec.C13.holds
  simp only [Bool.and_eq_true, List.all_eq_true, List.any_eq_true, Bool.or_eq_true,
    Bool.not_eq_true', List.contains_eq_mem, decide_eq_true_eq, beq_iff_eq]
  refine ⟨⟨?_, ?_⟩, strictAsc_of_pairwise _ (sorted_strict bits as)⟩
  · intro p hp
    obtain ⟨a, ha, he, hm⟩ := (mem_iff bits as p).mp hp
    exact ⟨a, ha, he, hm⟩
  · intro a ha
    by_cases he : Spec.C13.eligible bits a = true
    · right; exact (mem_iff bits as _).mpr ⟨a, ha, he, rfl⟩
    · left; simpa using he

/-- Every option the wildcard stanza yields is a Prefix Information option for one of the
    expanded prefixes, with the stanza's on-link and autonomous flags and the stanza's (possibly
    counted-down) valid and preferred lifetimes — and every expanded prefix gets one, in order.
    Stated of the model's `Plugin.apply` (the transcription of `(*Prefix).Apply`/`apply`, tied to
    the source by the differential runs of this check). -/
theorem uniform_stanza (sys : SysState) (p : Prefix) (onLink autonomous : Bool) (valid pref : Dur)
    (dep : Bool) (as : List SysIP) (hs : sys.addrs = some as) :
    Plugin.apply sys (.pfx true p onLink autonomous valid pref dep) =
      some ((currentPrefixes p.bits as).map fun q =>
        Opt.pi q.addr q.bits onLink autonomous
          (prefixLifetimes dep sys.epoch valid pref sys.now).1
          (prefixLifetimes dep sys.epoch valid pref sys.now).2) := by
  simp [Plugin.apply, hs]

/-- …and a failing address source fails the stanza (no option is invented). -/
theorem wildcard_fails_with_source (sys : SysState) (p : Prefix) (onLink autonomous : Bool)
    (valid pref : Dur) (dep : Bool) (hs : sys.addrs = none) :
    Plugin.apply sys (.pfx true p onLink autonomous valid pref dep) = none := by
  simp [Plugin.apply, hs]

/-- Non-vacuity: two hosts of one /64 (one listed twice), a temporary address in another /64
    and a link-local address expand to exactly one prefix. -/
example :
    let h1 : SysIP := { addr := { addr := { val := 0xfd000000000000010000000000000001 }, bits := 64 } }
    let h2 : SysIP := { addr := { addr := { val := 0xfd000000000000010000000000000002 }, bits := 64 }, stablePrivacy := true }
    let t  : SysIP := { addr := { addr := { val := 0x20010db8000000020000000000000001 }, bits := 64 }, temporary := true }
    let ll : SysIP := { addr := { addr := { val := 0xfe800000000000000000000000000001 }, bits := 64 } }
    currentPrefixes 64 [h2, ll, t, h1, h2] = [{ addr := { val := 0xfd000000000000010000000000000000 }, bits := 64 }] := by
  decide

end Corerad.Props.C13
