/-
  TransC05 — the Go → Lean translation of `multicastDelay` (internal/corerad/advertise.go),
  regenerated into `Corerad.Gen.Trans` from the current source text on every run, equals the
  hand-written model `Corerad.Model.multicastDelay` for ALL inputs.

  Only equivalence theorems live here.  A source change that alters the behaviour of the Go
  function changes the translated definition and one of these proofs stops checking.  The proofs
  are case splits closed by `simp_all`/`omega`, so they survive behaviour-preserving rewrites of
  the source (renamed locals, reordered independent statements, early return ↔ if/else).
-/
import Corerad.Gen.Trans
import Corerad.Model.Delay

namespace Corerad.Props.TransC05

open Corerad

/-- `multicastDelay(r, i, min, max)` as translated from the source = the model, for every index,
    every interval pair and every PRNG draw. -/
theorem multicastDelay_equiv (i : Nat) (min max : Dur) (draw : Int) :
    Gen.Trans.multicastDelay (i := i) (min := min) (max := max) (draw0 := draw)
      = Model.multicastDelay draw i min max := by
  simp only [Gen.Trans.multicastDelay, Model.multicastDelay, Gen.Advertise.maxInitialAdv,
    Gen.Advertise.maxInitialAdvInterval, ns, Int.mul_one]
  repeat' split
  all_goals first | omega | (simp_all; done) | (simp_all; omega) | (simp_all; intros; omega) | rfl | (try simp at *; omega)

/-- The argument handed to `r.Int63n` is `max - min` (the model's draw ranges over `[0, max-min)`). -/
theorem multicastDelay_drawBound_equiv (i : Int) (min max : Dur) :
    Gen.Trans.multicastDelay_drawBound0 (i := i) (min := min) (max := max) = max - min := by
  simp only [Gen.Trans.multicastDelay_drawBound0]

/-- non-trivial instance: 4th wait (index 3 is past the initial phase), 200 s..600 s, draw 123.4 s -/
example : Gen.Trans.multicastDelay (i := 3) (min := 200 * second) (max := 600 * second) (draw0 := 123400000000)
    = 323 * second ∧ Model.multicastDelay 123400000000 3 (200 * second) (600 * second) = 323 * second := by
  decide

/-- … and the same draw during the initial phase is capped at 16 s on both sides -/
example : Gen.Trans.multicastDelay (i := 2) (min := 200 * second) (max := 600 * second) (draw0 := 123400000000)
    = 16 * second ∧ Model.multicastDelay 123400000000 2 (200 * second) (600 * second) = 16 * second := by
  decide

end Corerad.Props.TransC05
