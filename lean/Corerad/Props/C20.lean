/-
  C20 — server supervision: one task per interface, fail together, stop on signal.

  The trace theorems quantify over every trace of the transition system of `Serve`
  (Model/Server.lean; DESIGN Appendix B.3): any number `n` of caller tasks, any behaviour of
  each task (which of its enabled events happens, and when, is the environment's choice), any
  number of signals at any point.  A trace is a list of events `tr` with
  `run? (init n) tr = some st`; "X at this position is preceded by Y" is written
  `tr = pre ++ X :: post → Y ∈ pre`.  Proofs are by induction over the trace with the invariants
  of Lemmas/Server.lean.

  The order `t.t.set(sig)` → `Notify(Stopping)` → `t.cancel()` inside `signalTask.Run` is not
  written in the model: it is read from `Gen.Server` (regenerated from /repo on every check), so
  `gen_setBeforeCancel` and every theorem that needs the order stop checking when the source
  changes it.

  Residue (not theorems): which interleavings the Go runtime can produce; data-race freedom of
  the terminator (a `sync.Mutex`); `serve`'s HTTP listener retry loop (real sockets; its constant
  is tied by `gen_serveAttempts` only).
-/
import Corerad.Spec.C20
import Corerad.Lemmas.Server
import Corerad.Gen.Main

namespace Corerad.Props.C20

/-- `BuildTasks` wires every interface task as the properties assume (argument expressions of
    the calls, regenerated): the link-state channel is the watcher's subscription for *this*
    interface's `LinkDown` events and is the one handed to the task, the dialer is created for this
    interface in the task's mode with the server's shared state, and the advertiser's terminate
    function is the server's terminator. -/
theorem gen_build_wiring :
    Gen.Server.subscribeArgs = ["ifi.Name", "netstate.LinkDown"] ∧
    Gen.Server.newAdvertiserArgs = ["s.cctx", "ifi", "dialer", "watchC", "s.t.terminate"] ∧
    Gen.Server.newMonitorArgs = ["s.cctx", "ifi.Name", "dialer", "watchC", "ifi.Verbose"] ∧
    Gen.Server.advDialerArgs = ["ifi.Name", "s.cctx.state", "system.Advertise", "s.cctx.ll"] ∧
    Gen.Server.monDialerArgs = ["ifi.Name", "s.cctx.state", "system.Monitor", "s.cctx.ll"] := by
  decide

/-- How main uses the server: `Serve` runs exactly the tasks `BuildTasks` derives from the parsed
    configuration, and the signals which stop it are `Signals()` = SIGINT, SIGTERM, SIGHUP. -/
theorem gen_main_serves_built_tasks :
    Gen.Main.serveRunsBuildTasks = true ∧ Gen.Main.signalsFromSignals = true ∧
    Gen.Main.signalChanBuffered = true ∧
    Gen.Main.signals = ["os.Interrupt", "syscall.SIGTERM", "syscall.SIGHUP"] := by decide

open Corerad Corerad.Model.Server Corerad.Spec.C20

/-! ### regenerated facts -/

/-- `signalTask.Run`: `t.t.set(sig)` precedes `t.cancel()` -/
theorem gen_setBeforeCancel : Gen.Server.signalSetBeforeCancel = true := by decide

/-- `signalTask.Run`: `Notify(…, Stopping)` precedes `t.cancel()` -/
theorem gen_notifyBeforeCancel : Gen.Server.signalNotifyBeforeCancel = true := by decide

/-- `terminator.set`: `t.term = isTerminal(s)` -/
theorem gen_termIsIsTerminal : Gen.Server.termIsIsTerminal = true := by decide

/-- `isTerminal` returns `s != syscall.SIGHUP` -/
theorem gen_isTerminalExpr : Gen.Server.isTerminalExpr = "s != syscall.SIGHUP" := by decide

/-- `Serve` calls `eg.Wait()` (all tasks) and `wg.Wait()` (before READY) -/
theorem gen_serveWaitsAll : Gen.Server.serveWaitsAll = true := by decide

/-- `serve`: 40 listen attempts (residue: the loop itself is not exercised) -/
theorem gen_serveAttempts : Gen.Server.serveAttempts = 40 := by decide

/-! ### BuildTasks -/

private theorem ifaceTasks_eq (i : Nat) (ifs : List IfaceKind) :
    ifaceTasks i ifs = (ifs.zipIdx i).filterMap fun p =>
      match p.1 with
      | .adv => some (TaskKind.advertiser p.2)
      | .mon => some (TaskKind.monitor p.2)
      | .neither => none := by
  induction ifs generalizing i with
  | nil => simp [ifaceTasks]
  | cons k r ih => cases k <;> simp [ifaceTasks, List.zipIdx_cons, ih]

/-- The task list is exactly: per interface in configuration order an advertiser (`Advertise`)
    or a monitor (`Monitor`) carrying that interface's index and nothing for an interface that
    does neither; then the debug HTTP task iff an address is configured; then the link watcher
    (iff the server has one — `NewServer` always creates it). -/
theorem tasks_exact (ifs : List IfaceKind) (debug watcher : Bool) :
    buildTasks ifs debug watcher = wantTasks ifs debug watcher := by
  simp only [buildTasks, wantTasks, ifaceTasks_eq]
  rfl

private theorem ifaceTasks_length (i : Nat) (ifs : List IfaceKind) :
    (ifaceTasks i ifs).length = (ifs.filter (· ≠ .neither)).length := by
  induction ifs generalizing i with
  | nil => simp [ifaceTasks]
  | cons k r ih => cases k <;> simp [ifaceTasks, ih]

/-- …so there are as many tasks as interfaces that advertise or monitor, plus one for the debug
    server when configured, plus one for the watcher. -/
theorem tasks_count (ifs : List IfaceKind) (debug watcher : Bool) :
    (buildTasks ifs debug watcher).length =
      (ifs.filter (· ≠ .neither)).length + (if debug then 1 else 0) + (if watcher then 1 else 0) := by
  cases debug <;> cases watcher <;> simp [buildTasks, ifaceTasks_length]

private theorem mem_ifaceTasks (i : Nat) (ifs : List IfaceKind) (t : TaskKind) :
    t ∈ ifaceTasks i ifs ↔
      ∃ j, (ifs[j]? = some .adv ∧ t = .advertiser (i + j)) ∨ (ifs[j]? = some .mon ∧ t = .monitor (i + j)) := by
  induction ifs generalizing i with
  | nil => simp [ifaceTasks]
  | cons k r ih =>
    have shift : (∃ j, (r[j]? = some IfaceKind.adv ∧ t = .advertiser (i + 1 + j)) ∨
          (r[j]? = some IfaceKind.mon ∧ t = .monitor (i + 1 + j))) ↔
        ∃ j, ((k :: r)[j + 1]? = some IfaceKind.adv ∧ t = .advertiser (i + (j + 1))) ∨
          ((k :: r)[j + 1]? = some IfaceKind.mon ∧ t = .monitor (i + (j + 1))) := by
      constructor <;> rintro ⟨j, h⟩ <;> refine ⟨j, ?_⟩ <;>
        simpa [Nat.add_assoc, Nat.add_comm 1 j] using h
    have split : (∃ j, ((k :: r)[j]? = some IfaceKind.adv ∧ t = .advertiser (i + j)) ∨
          ((k :: r)[j]? = some IfaceKind.mon ∧ t = .monitor (i + j))) ↔
        ((k = .adv ∧ t = .advertiser i) ∨ (k = .mon ∧ t = .monitor i)) ∨
        ∃ j, ((k :: r)[j + 1]? = some IfaceKind.adv ∧ t = .advertiser (i + (j + 1))) ∨
          ((k :: r)[j + 1]? = some IfaceKind.mon ∧ t = .monitor (i + (j + 1))) := by
      constructor
      · rintro ⟨j, h⟩
        cases j with
        | zero => left; simpa using h
        | succ j => right; exact ⟨j, h⟩
      · rintro (h | ⟨j, h⟩)
        · exact ⟨0, by simpa using h⟩
        · exact ⟨j + 1, h⟩
    rw [split, ← shift, ← ih]
    cases k <;> simp [ifaceTasks]

/-- Interface `i` gets an advertiser iff it advertises, a monitor iff it monitors — and an
    interface that does neither gets no task at all. -/
theorem tasks_per_interface (ifs : List IfaceKind) (debug watcher : Bool) (i : Nat) :
    (TaskKind.advertiser i ∈ buildTasks ifs debug watcher ↔ ifs[i]? = some .adv) ∧
    (TaskKind.monitor i ∈ buildTasks ifs debug watcher ↔ ifs[i]? = some .mon) ∧
    (TaskKind.http ∈ buildTasks ifs debug watcher ↔ debug = true) ∧
    (TaskKind.watcher ∈ buildTasks ifs debug watcher ↔ watcher = true) := by
  cases debug <;> cases watcher <;> simp [buildTasks, mem_ifaceTasks]

/-! ### a failure cancels everything -/

/-- After any task has failed the shared context is done — in every later state of every run. -/
theorem fail_cancels_all {n : Nat} {tr : List Event} {st : State}
    (h : run? (init n) tr = some st) {k : Nat} (hk : Event.fail k ∈ tr) : st.ctxDone = true :=
  (inv_of_run h).ctx.failCtx k hk

/-- …and once it is done, every task that is still running can see it: `observeCancel` is
    enabled (with the value `terminate()` has at that moment). -/
theorem cancelled_enables_observe {st : State} (hc : st.ctxDone = true) {k : Nat} {t : Task}
    (hk : st.tasks[k]? = some t) (hr : t.pc = .running) :
    step? st (.observeCancel k st.terminate) = some (setPc st k t .sawCancel) := by
  simp [step?, hk, hr, hc]

/-- A task sees a cancellation only with a cause: some task failed before, or the signal task
    called `cancel()` before. -/
theorem observe_has_cause {n : Nat} {pre post : List Event} {k : Nat} {b : Bool} {st : State}
    (h : run? (init n) (pre ++ .observeCancel k b :: post) = some st) :
    (∃ j, Event.fail j ∈ pre) ∨ Event.cancel ∈ pre := by
  obtain ⟨s1, s2, _, hi, hs, _⟩ := run_at h
  cases hs with
  | observeCancel _ _ hc _ => exact hi.ctx.cause hc

/-! ### Serve returns last, and returns the first error -/

/-- `serveReturn` is preceded by the return of every one of the `n` tasks. -/
theorem return_after_all {n : Nat} {pre post : List Event} {e : Option Nat} {st : State}
    (h : run? (init n) (pre ++ .serveReturn e :: post) = some st) :
    ∀ k, k < n → Exited k pre := by
  obtain ⟨s1, s2, _, hi, hs, _⟩ := run_at h
  intro k hk
  cases hs with
  | serveReturn _ hall _ =>
    obtain ⟨t, ht, hr⟩ := allReturned_get hall (k := k) (by rw [hi.ctx.len]; exact hk)
    exact hi.task.retd k t ht hr

/-- `Serve` returns the first error recorded: the error of the first task whose `Run` returned
    non-nil — whether it failed on its own or returned an error after a shutdown signal had
    already cancelled it — and nil if there is none (errgroup: `Wait` returns the first non-nil
    error). -/
theorem first_error_returned {n : Nat} {pre post : List Event} {e : Option Nat} {st : State}
    (h : run? (init n) (pre ++ .serveReturn e :: post) = some st) : e = firstErrOf pre := by
  obtain ⟨s1, s2, _, hi, hs, _⟩ := run_at h
  cases hs with
  | serveReturn _ _ _ => exact hi.ctx.ferr

/-- `Serve` returns at most once. -/
theorem serve_returns_once {n : Nat} {pre post : List Event} {e e' : Option Nat} {st : State}
    (h : run? (init n) (pre ++ .serveReturn e :: post) = some st) : Event.serveReturn e' ∉ post := by
  obtain ⟨s1, s2, _, _, hs, h3⟩ := run_at h
  have served : s2.served ≠ none := by cases hs with | serveReturn _ _ _ => simp
  intro hm
  obtain ⟨p1, p2, rfl⟩ := List.append_of_mem hm
  obtain ⟨s3, s4, h4, h5, _⟩ := run?_split h3
  have keep : ∀ (l : List Event) (a b : State), run? a l = some b → a.served ≠ none → b.served ≠ none := by
    intro l
    induction l with
    | nil => intro a b hr; simp [run?] at hr; subst hr; exact id
    | cons x l ih =>
      intro a b hr ha
      simp only [run?] at hr
      cases hx : step? a x with
      | none => simp [hx] at hr
      | some c =>
        simp only [hx] at hr
        refine ih c b hr ?_
        have := step_of_step? hx
        cases this <;> simp_all [setPc]
  have := keep p1 s2 s3 h4 served
  cases step_of_step? h5 with
  | serveReturn h0 _ _ => exact this h0

/-! ### a shutdown signal -/

/-- Anything but SIGHUP means terminate. -/
theorem terminal_iff_not_sighup (s : Sig) : isTerminal s = true ↔ s ≠ .hup := by
  cases s <;> simp [isTerminal]

/-- What `t.t.set(sig)` records is that rule applied to the first signal delivered (the one the
    signal task took from `sigC`), and from then on the terminator never changes. -/
theorem set_records_terminal {n : Nat} {pre post : List Event} {st : State}
    (h : run? (init n) (pre ++ .setTerm :: post) = some st) :
    ∃ s, firstSignal pre = some s ∧ st.term = some (decide (s ≠ .hup)) := by
  obtain ⟨s1, s2, _, hi, hs, h3⟩ := run_at h
  cases hs with
  | @setTerm s n c hg _ =>
    refine ⟨s, (hi.sig.got _ _ _ _ hg).1, ?_⟩
    have fixed : TermFixed { s1 with sigPc := .got s true n c, term := some (isTerminal s) } (isTerminal s) :=
      ⟨rfl, by simp, by simp⟩
    exact (fixed.run h3).1

/-- `t.cancel()` is preceded by `t.t.set(sig)` (the order is the source's, via `Gen.Server`). -/
theorem set_before_cancel {n : Nat} {pre post : List Event} {st : State}
    (h : run? (init n) (pre ++ .cancel :: post) = some st) : Event.setTerm ∈ pre := by
  obtain ⟨s1, s2, _, hi, hs, _⟩ := run_at h
  cases hs with
  | cancel hg hd _ => exact ((hi.sig.got _ _ _ _ hg).2.1 (hd setFirst_true)).1

/-- Whether the signal means terminate or reload is recorded before any task observes the
    cancellation it causes: if task `k` sees its context cancelled and no task has failed before
    (so the cancellation is the signal task's), then `cancel()` happened before, `set` happened
    before that, the signal was delivered before that, and the value `b` the task reads from
    `terminate()` is `isTerminal` of that signal. -/
theorem term_before_cancel {n : Nat} {pre post : List Event} {k : Nat} {b : Bool} {st : State}
    (h : run? (init n) (pre ++ .observeCancel k b :: post) = some st)
    (hnf : ∀ j, Event.fail j ∉ pre) :
    ∃ s p1 p2, pre = p1 ++ .cancel :: p2 ∧ Event.setTerm ∈ p1 ∧ firstSignal p1 = some s ∧
      b = isTerminal s := by
  obtain ⟨s1, s2, h1, hi, hs, _⟩ := run_at h
  cases hs with
  | observeCancel _ _ hc hb =>
    have hcancel : Event.cancel ∈ pre := by
      rcases hi.ctx.cause hc with ⟨j, hj⟩ | hc
      · exact absurd hj (hnf j)
      · exact hc
    obtain ⟨p1, p2, rfl⟩ := List.append_of_mem hcancel
    obtain ⟨s0, s0', _, hi0, hs0, h03⟩ := run_at h1
    cases hs0 with
    | @cancel s d m hg hd _ =>
      obtain ⟨hsig, hset, _⟩ := hi0.sig.got _ _ _ _ hg
      obtain ⟨hmem, hterm⟩ := hset (hd setFirst_true)
      have hd' : d = true := hd setFirst_true
      subst hd'
      have fixed : TermFixed { s0 with sigPc := .got s true m true, ctxDone := true } (isTerminal s) :=
        ⟨hterm, by simp, by simp⟩
      have := (fixed.run h03).1
      refine ⟨s, p1, p2, rfl, hmem, hsig, ?_⟩
      simp [hb, State.terminate, this]

/-- If every task keeps the Task contract (none fails, none returns an error after having been
    cancelled), `Serve` can only return nil, and only after a signal was delivered and the signal
    task cancelled the tasks. -/
theorem signal_success {n : Nat} {pre post : List Event} {e : Option Nat} {st : State}
    (h : run? (init n) (pre ++ .serveReturn e :: post) = some st)
    (hnf : ∀ k, Event.fail k ∉ pre) (hne : ∀ k, Event.ret k true ∉ pre) :
    e = none ∧ Event.cancel ∈ pre ∧ ∃ s, Event.signal s ∈ pre := by
  have he : e = none := by
    rw [first_error_returned h]; exact firstErrOf_eq_none.mpr ⟨hnf, hne⟩
  obtain ⟨s1, s2, h1, hi, hs, _⟩ := run_at h
  cases hs with
  | serveReturn _ _ hsig =>
    have hcancel : Event.cancel ∈ pre := by
      rcases hi.ctx.cause (hi.sig.retd hsig) with ⟨j, hj⟩ | hc
      · exact absurd hj (hnf j)
      · exact hc
    refine ⟨he, hcancel, ?_⟩
    obtain ⟨p1, p2, rfl⟩ := List.append_of_mem hcancel
    obtain ⟨s0, s0', _, hi0, hs0, _⟩ := run_at h1
    cases hs0 with
    | cancel hg _ _ =>
      exact ⟨_, List.mem_append_left _ (firstSignal_mem (hi0.sig.got _ _ _ _ hg).1)⟩

/-! ### readiness -/

/-- READY is announced only after every one of the `n` tasks has reported ready. -/
theorem ready_after_all {n : Nat} {pre post : List Event} {st : State}
    (h : run? (init n) (pre ++ .announceReady :: post) = some st) :
    ∀ k, k < n → Event.ready k ∈ pre := by
  obtain ⟨s1, s2, _, hi, hs, _⟩ := run_at h
  intro k hk
  cases hs with
  | announceReady _ hall =>
    obtain ⟨t, ht, hr⟩ := allReady_get hall (k := k) (by rw [hi.ctx.len]; exact hk)
    exact hi.task.ready k t ht hr

/-! ### the oracle the check evaluates, and the acceptance test of observed traces -/

/-- Every trace of the transition system satisfies the safety part of the oracle
    (`Spec.C20.safe`: the clauses for `serveReturn`, `observeCancel`, `announceReady` at every
    position). -/
theorem lts_safe {n : Nat} {tr : List Event} {st : State} (h : run? (init n) tr = some st) :
    safe n tr = true := by
  rw [safe, allPrefix_iff]
  intro pre e post heq
  subst heq
  simp only [List.nil_append]
  cases e <;> try rfl
  case serveReturn e =>
    simp only [clause, Bool.and_eq_true, List.all_eq_true, List.mem_range, beq_iff_eq]
    refine ⟨fun k hk => ?_, first_error_returned h⟩
    rcases return_after_all h k hk with ⟨x, hx⟩ | hx | hx <;>
      exact List.any_eq_true.mpr ⟨_, hx, by simp [isExitOf]⟩
  case observeCancel k b =>
    simp only [clause, Bool.or_eq_true]
    by_cases hf : ∃ j, Event.fail j ∈ pre
    · obtain ⟨j, hj⟩ := hf
      exact .inl (List.any_eq_true.mpr ⟨_, hj, rfl⟩)
    · obtain ⟨s, p1, p2, rfl, _, hsig, hb⟩ :=
        term_before_cancel h (fun j hj => hf ⟨j, hj⟩)
      right
      have : firstSignal (p1 ++ Event.cancel :: p2) = some s := by
        simp only [firstSignal, List.findSome?_append] at hsig ⊢
        simp [hsig]
      simp [this, hb, terminal, isTerminal]
  case announceReady =>
    simp only [clause, List.all_eq_true, List.mem_range, List.contains_iff_mem]
    exact fun k hk => ready_after_all h k hk

/-- …and so does what the harness can see of it: the oracle does not look at the signal task's
    internal steps. -/
theorem observed_safe {n : Nat} {tr : List Event} {st : State} (h : run? (init n) tr = some st) :
    safe n (tr.filter Event.observable) = true := by
  have hs := lts_safe h
  rw [safe, allPrefix_iff] at hs ⊢
  intro pre e post heq
  simp only [List.nil_append] at hs ⊢
  obtain ⟨l1, l2, rfl, h1, h2⟩ := List.filter_eq_append_iff.mp heq
  obtain ⟨m1, m2, rfl, hm, _, _⟩ := List.filter_eq_cons_iff.mp h2
  have hpre : (l1 ++ m1).filter Event.observable = pre := by
    rw [List.filter_append, h1]
    have : m1.filter Event.observable = [] := by
      simp only [List.filter_eq_nil_iff]; exact hm
    simp [this]
  have := hs (l1 ++ m1) e m2 (by simp)
  rw [← hpre, clause_filter]; exact this

/-- The acceptance test of the driver is sound: an observed trace it accepts is the projection
    (internal steps of the signal task removed) of a trace of the transition system — so every
    theorem above applies to what was observed. -/
theorem acceptsObs_sound {n : Nat} {obs : List Event} (h : acceptsObs n obs = true) :
    ∃ tr st, run? (init n) tr = some st ∧ tr.filter Event.observable = obs := by
  simp only [acceptsObs, Bool.and_eq_true, List.all_eq_true, Option.isNone_iff_eq_none] at h
  obtain ⟨s, hs, tr, st, hr, hf⟩ := rejectedAt_sound obs h.1 [init n] 0 (by simp) h.2
  simp at hs; subst hs
  exact ⟨tr, st, hr, hf⟩

/-- …in particular an accepted observation satisfies the safety part of the oracle. -/
theorem accepted_safe {n : Nat} {obs : List Event} (h : acceptsObs n obs = true) :
    safe n obs = true := by
  obtain ⟨tr, st, hr, rfl⟩ := acceptsObs_sound h
  exact observed_safe hr

/-! ### non-vacuity: the hypotheses are met by concrete runs -/

/-- SIGTERM while two tasks run: set, notify, cancel, both tasks see `terminate() = true`,
    return nil, `Serve` returns nil — a trace of the system. -/
example : accepts 2
    [.start 0, .start 1, .ready 0, .ready 1, .announceReady, .signal .term, .recvSig, .setTerm,
     .notifyStopping, .cancel, .observeCancel 1 true, .observeCancel 0 true, .ret 0 false,
     .sigReturn, .ret 1 false, .serveReturn none] = true := by decide

/-- SIGHUP: the tasks read `terminate() = false`; reading `true` is not a trace. -/
example : accepts 1
    [.start 0, .signal .hup, .recvSig, .setTerm, .notifyStopping, .cancel, .observeCancel 0 false,
     .ret 0 false, .sigReturn, .serveReturn none] = true ∧
    accepts 1
    [.start 0, .signal .hup, .recvSig, .setTerm, .notifyStopping, .cancel, .observeCancel 0 true] = false := by
  decide

/-- Task 1 fails; task 0 is cancelled, returns an error too, later; the signal that follows is
    never taken; `Serve` returns task 1's error — and not before task 0 has returned. -/
example : accepts 2
    [.start 0, .start 1, .fail 1, .observeCancel 0 false, .sigReturn, .signal .int, .ret 0 true,
     .serveReturn (some 1)] = true ∧
    accepts 2
    [.start 0, .start 1, .fail 1, .observeCancel 0 false, .sigReturn, .serveReturn (some 1)] = false ∧
    accepts 2
    [.start 0, .start 1, .fail 1, .observeCancel 0 false, .sigReturn, .ret 0 true,
     .serveReturn (some 0)] = false := by
  decide

/-- A task returns an error after the signal cancelled it: `Serve` returns that error, not nil. -/
example : accepts 1
    [.start 0, .signal .term, .recvSig, .setTerm, .notifyStopping, .cancel, .observeCancel 0 true,
     .ret 0 true, .sigReturn, .serveReturn (some 0)] = true ∧
    accepts 1
    [.start 0, .signal .term, .recvSig, .setTerm, .notifyStopping, .cancel, .observeCancel 0 true,
     .ret 0 true, .sigReturn, .serveReturn none] = false := by
  decide

/-- `cancel()` before `set`, and READY before every task is ready, are not traces. -/
example : accepts 1 [.start 0, .signal .term, .recvSig, .cancel] = false ∧
    accepts 2 [.start 0, .start 1, .ready 0, .announceReady] = false := by
  decide

/-- the same SIGTERM run as the harness sees it is accepted through the τ-closure, and satisfies
    the whole oracle -/
example : acceptsObs 2
    [.start 0, .start 1, .ready 0, .ready 1, .announceReady, .signal .term, .notifyStopping,
     .observeCancel 1 true, .observeCancel 0 true, .ret 0 false, .ret 1 false, .serveReturn none] = true ∧
    holds 2
    [.start 0, .start 1, .ready 0, .ready 1, .announceReady, .signal .term, .notifyStopping,
     .observeCancel 1 true, .observeCancel 0 true, .ret 0 false, .ret 1 false, .serveReturn none] = true := by
  decide

/-- BuildTasks on the configuration of the repository's own "full" test -/
example : buildTasks [.mon, .adv, .neither] true true = [.monitor 0, .advertiser 1, .http, .watcher] := by
  decide

end Corerad.Props.C20
