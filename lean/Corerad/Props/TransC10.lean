/-
  TransC10 — the back-off arithmetic of `(*Dialer).init` (internal/system/dialer.go) as translated
  from the current source text (`Corerad.Gen.Trans.Dialer_init_*`: the loop header
  `for i := 0; i < attempts; i++`, `var delay time.Duration`, the argument of `time.After(delay)`
  and the body of that select case, `delay = time.Duration(i+1) * 250 * time.Millisecond; if delay >
  maxDelay { delay = maxDelay }`) equals what the dialer model uses: `Model.Dialer.delay i` is the
  wait before the `i`-th `DialFunc` call of a re-initialisation, `Model.Dialer.attempts` the bound.
-/
import Corerad.Gen.Trans
import Corerad.Model.Dialer

namespace Corerad.Props.TransC10

open Corerad

/-- the first wait is the zero value of `var delay time.Duration` -/
theorem dialer_delayInit_equiv : Gen.Trans.Dialer_init_delayInit = Model.Dialer.delay 0 := by
  decide

/-- `time.After` waits for the current value of `delay`, nothing else -/
theorem dialer_after_equiv (d : Dur) : Gen.Trans.Dialer_init_after (d) = d := by
  simp only [Gen.Trans.Dialer_init_after]

/-- in iteration `i` the case body computes the wait of iteration `i + 1`, whatever `delay` was -/
theorem dialer_afterBody_equiv (i : Nat) (d : Dur) :
    Gen.Trans.Dialer_init_afterBody (i := i) (delay := d) = Model.Dialer.delay (i + 1) := by
  simp only [Gen.Trans.Dialer_init_afterBody, Model.Dialer.delay, Model.Dialer.step, Model.Dialer.maxDelay,
    Gen.Dialer.step, Gen.Dialer.maxDelay, ms]
  repeat' split
  all_goals first | omega | (simp_all; done) | (simp_all; omega) | (simp_all; intros; omega) | rfl | (try simp at *; omega)

/-- the loop header: `i` runs 0, 1, 2, … while `i < attempts` -/
theorem dialer_loopStep_equiv (i : Nat) :
    Gen.Trans.Dialer_init_loopInit = 0 ∧ Gen.Trans.Dialer_init_loopPost (i : Int) = (i : Int) + 1 := by
  simp only [Gen.Trans.Dialer_init_loopInit, Gen.Trans.Dialer_init_loopPost, and_self]

/-- at most `attempts` iterations, i.e. `DialFunc` calls, per re-initialisation -/
theorem dialer_loopCond_equiv (i : Nat) :
    Gen.Trans.Dialer_init_loopCond (i : Int) = decide (i < Model.Dialer.attempts) := by
  rw [Bool.eq_iff_iff]
  simp only [Gen.Trans.Dialer_init_loopCond, decide_eq_true_eq]
  simp only [Model.Dialer.attempts, Gen.Dialer.attempts]
  constructor <;> (intro _; omega)

/-- the value of `delay` at the `time.After` of iteration `n`, following the translated loop -/
def waitSeq : Nat → Dur
  | 0 => Gen.Trans.Dialer_init_delayInit
  | n + 1 => Gen.Trans.Dialer_init_afterBody (i := n) (delay := waitSeq n)

/-- the whole wait sequence of the translated loop is the model's `delay` -/
theorem dialer_waitSeq_equiv (n : Nat) :
    Gen.Trans.Dialer_init_after (waitSeq n) = Model.Dialer.delay n := by
  cases n with
  | zero => simp only [waitSeq, dialer_after_equiv, dialer_delayInit_equiv]
  | succ n => simp only [waitSeq, dialer_after_equiv, dialer_afterBody_equiv]

/-- non-trivial instance: the wait before the 12th call is capped (12 · 250 ms = 3 s is not above
    the cap, 13 · 250 ms is), on both sides; 50 calls at most -/
example : Gen.Trans.Dialer_init_after (waitSeq 12) = 3 * second ∧ Model.Dialer.delay 12 = 3 * second
    ∧ Gen.Trans.Dialer_init_after (waitSeq 11) = 2750 * ms ∧ Model.Dialer.delay 11 = 2750 * ms
    ∧ Gen.Trans.Dialer_init_after (waitSeq 13) = 3 * second ∧ Model.Dialer.delay 13 = 3 * second
    ∧ Gen.Trans.Dialer_init_loopCond 49 = true ∧ Gen.Trans.Dialer_init_loopCond 50 = false
    ∧ Model.Dialer.attempts = 50 := by
  decide

end Corerad.Props.TransC10
