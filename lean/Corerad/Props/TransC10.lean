/-
  TransC10 — the back-off arithmetic of `(*Dialer).init` (internal/system/dialer.go) as translated
  from the current source text (`Corerad.Gen.Trans.Dialer_init_*`: the loop header
  `for i := 0; i < attempts; i++`, `var delay time.Duration`, the argument of `time.After(delay)`
  and the body of that select case, `delay = time.Duration(i+1) * 250 * time.Millisecond; if delay >
  maxDelay { delay = maxDelay }`) equals what the dialer model uses: `Model.Dialer.delay i` is the
  wait before the `i`-th `DialFunc` call of a re-initialisation, `Model.Dialer.attempts` the bound.
-/
import Corerad.Gen.Trans
import Corerad.Model.Dialer

namespace Corerad.Props.TransC10

open Corerad

/-- the first wait is the zero value of `var delay time.Duration` -/
theorem dialer_delayInit_equiv : Gen.Trans.Dialer_init_delayInit = Model.Dialer.delay 0 := by
  decide

/-- `time.After` waits for the current value of `delay`, nothing else -/
theorem dialer_after_equiv (d : Dur) : Gen.Trans.Dialer_init_after (d) = d := by
  simp only [Gen.Trans.Dialer_init_after]

/-- in iteration `i` the case body computes the wait of iteration `i + 1`, whatever `delay` was -/
theorem dialer_afterBody_equiv (i : Nat) (d : Dur) :
    Gen.Trans.Dialer_init_afterBody (i := i) (delay := d) = Model.Dialer.delay (i + 1) := by
  simp only [Gen.Trans.Dialer_init_afterBody, Model.Dialer.delay, Model.Dialer.step, Model.Dialer.maxDelay,
    Gen.Dialer.step, Gen.Dialer.maxDelay, ms]
  repeat' split
  all_goals first | omega | (simp_all; done) | (simp_all; omega) | (simp_all; intros; omega) | rfl | (try simp at *; omega)

/-- the loop header: `i` runs 0, 1, 2, … while `i < attempts` -/
theorem dialer_loopStep_equiv (i : Nat) :
    Gen.Trans.Dialer_init_loopInit = 0 ∧ Gen.Trans.Dialer_init_loopPost (i : Int) = (i : Int) + 1 := by
  simp only [Gen.Trans.Dialer_init_loopInit, Gen.Trans.Dialer_init_loopPost, and_self]

/-- at most `attempts` iterations, i.e. `DialFunc` calls, per re-initialisation -/
theorem dialer_loopCond_equiv (i : Nat) :
    Gen.Trans.Dialer_init_loopCond (i : Int) = decide (i < Model.Dialer.attempts) := by
  rw [Bool.eq_iff_iff]
  simp only [Gen.Trans.Dialer_init_loopCond, decide_eq_true_eq]
  simp only [Model.Dialer.attempts, Gen.Dialer.attempts]
  constructor <;> (intro _; omega)

/-- the value of `delay` at the `time.After` of iteration `n`, following the translated loop -/
def waitSeq : Nat → Dur
  | 0 => Gen.Trans.Dialer_init_delayInit
  | n + 1 => Gen.Trans.Dialer_init_afterBody (i := n) (delay := waitSeq n)

/-- the whole wait sequence of the translated loop is the model's `delay` -/
theorem dialer_waitSeq_equiv (n : Nat) :
    Gen.Trans.Dialer_init_after (waitSeq n) = Model.Dialer.delay n := by
  cases n with
  | zero => simp only [waitSeq, dialer_after_equiv, dialer_delayInit_equiv]
  | succ n => simp only [waitSeq, dialer_after_equiv, dialer_afterBody_equiv]

/-- non-trivial instance: the wait before the 12th call is capped (12 · 250 ms = 3 s is not above
    the cap, 13 · 250 ms is), on both sides; 50 calls at most -/
example : Gen.Trans.Dialer_init_after (waitSeq 12) = 3 * second ∧ Model.Dialer.delay 12 = 3 * second
    ∧ Gen.Trans.Dialer_init_after (waitSeq 11) = 2750 * ms ∧ Model.Dialer.delay 11 = 2750 * ms
    ∧ Gen.Trans.Dialer_init_after (waitSeq 13) = 3 * second ∧ Model.Dialer.delay 13 = 3 * second
    ∧ Gen.Trans.Dialer_init_loopCond 49 = true ∧ Gen.Trans.Dialer_init_loopCond 50 = false
    ∧ Model.Dialer.attempts = 50 := by
  decide

/-! ### the error classification of `(*Dialer).init` (tools/extract/translate_switch.go)

`Gen.Trans.Dialer_init_switch` is the tagless `switch` of `init`, re-translated on every run, over the
six tests it applies to the error value (`errors.As` to `*os.SyscallError` / `*fs.PathError`,
`errors.Is` with `os.ErrPermission` / `ErrLinkNotReady` / `ErrLinkChange`, `err == nil`):
0 = no error, 1 = fatal, 2 = recoverable (falls through to the retry loop).  -/

/-- the decision in closed form: recoverable iff a non-permission system call error (whichever of the
    two error types reports it), or — not being a system call error — link-not-ready or link-change;
    no error iff none of those and `err == nil`; fatal otherwise.  Moving a clause, dropping the
    permission test, classing `*fs.PathError` apart from `*os.SyscallError` (finding F-30), or
    testing `err == nil` first changes the translated definition and this stops checking. -/
theorem init_switch_spec (sys path perm lnr lc isNil : Bool) :
    Gen.Trans.Dialer_init_switch (As_os_SyscallError := sys) (As_fs_PathError := path)
        (Is_os_ErrPermission := perm) (Is_ErrLinkNotReady := lnr) (Is_ErrLinkChange := lc) (err_nil := isNil)
      = (if sys || path then (if perm then 1 else 2)
         else if lnr || lc then 2
         else if isNil then 0 else 1) := by
  cases sys <;> cases path <;> cases perm <;> cases lnr <;> cases lc <;> cases isNil <;> rfl

/-- the tests as they come out for the error classes of the model's `DialOut` (`viaPath`: the system
    call error is reported as a `*fs.PathError` rather than an `*os.SyscallError`) -/
def dialOutCode (o : Model.Dialer.DialOut) (viaPath : Bool) : Nat :=
  let isSys := o == .syscall || o == .permission
  Gen.Trans.Dialer_init_switch (As_os_SyscallError := isSys && !viaPath) (As_fs_PathError := isSys && viaPath)
    (Is_os_ErrPermission := o == .permission) (Is_ErrLinkNotReady := o == .linkNotReady)
    (Is_ErrLinkChange := false) (err_nil := o == .ok)

/-- **the translated switch decides the first dial's error exactly as `Model.Dialer.DialOut.next`**:
    recoverable classes enter the retry loop, the others end `Dial` with that error -/
theorem init_switch_dialOut (o : Model.Dialer.DialOut) (viaPath : Bool) (k : Nat) (ho : o ≠ .ok) :
    (dialOutCode o viaPath = 2 ↔ o.next k = Model.Dialer.enterRetry 0) ∧
    (dialOutCode o viaPath = 1 ↔ o.next k = .inl (.dial k)) ∧
    dialOutCode o viaPath ≠ 0 := by
  have hr : Model.Dialer.enterRetry 0 = .inr (.retry 0) := by
    unfold Model.Dialer.enterRetry
    have : (0 : Nat) < Model.Dialer.attempts := by decide
    simp [this]
  cases o <;> cases viaPath <;>
    simp [dialOutCode, init_switch_spec, Model.Dialer.DialOut.next, hr] at ho ⊢

/-- the same for what the task returned (`Model.Dialer.TaskOut.next`), for every class whose error
    reaches `init` (a task that returned nil does not; `context.Canceled` itself is classed fatal here
    and mapped to nil by `Dial`) -/
def taskOutCode (t : Model.Dialer.TaskOut) (viaPath : Bool) : Nat :=
  let isSys := t == .syscall || t == .permission
  Gen.Trans.Dialer_init_switch (As_os_SyscallError := isSys && !viaPath) (As_fs_PathError := isSys && viaPath)
    (Is_os_ErrPermission := t == .permission) (Is_ErrLinkNotReady := false)
    (Is_ErrLinkChange := t == .linkChange) (err_nil := false)

theorem init_switch_taskOut (t : Model.Dialer.TaskOut) (viaPath : Bool) (k : Nat)
    (h1 : t ≠ .nil) (h2 : t ≠ .cancelled) (h3 : t ≠ .cancelledErr) :
    (taskOutCode t viaPath = 2 ↔ t.next k = Model.Dialer.enterRetry 0) ∧
    (taskOutCode t viaPath = 1 ↔ t.next k = .inl (.task k)) := by
  have hr : Model.Dialer.enterRetry 0 = .inr (.retry 0) := by
    unfold Model.Dialer.enterRetry
    have : (0 : Nat) < Model.Dialer.attempts := by decide
    simp [this]
  cases t <;> cases viaPath <;>
    simp [taskOutCode, init_switch_spec, Model.Dialer.TaskOut.next, hr] at h1 h2 h3 ⊢

/-- non-vacuity: ENETDOWN from sendmsg re-dials, EPERM does not, a PathError{ENOENT} re-dials,
    a link change re-dials, a plain error does not -/
example :
    dialOutCode .syscall false = 2 ∧ dialOutCode .permission false = 1 ∧ dialOutCode .syscall true = 2 ∧
    dialOutCode .permission true = 1 ∧ dialOutCode .linkNotReady false = 2 ∧ dialOutCode .other false = 1 ∧
    taskOutCode .linkChange false = 2 ∧ taskOutCode .retries false = 1 ∧ taskOutCode .other true = 1 := by
  decide

end Corerad.Props.TransC10
