/-
  TransC14 — `betterRDNSS` / `isStable` (internal/plugin/plugin.go) tied to `Model/Wild.lean` by
  REGENERATION.

  1. Both functions are re-translated from the current source text into `Corerad.Gen.Trans` on
     every run (tools/extract/translate.go + translate_ext.go).  `system.IP` and `netip.Addr` are
     abstract types of the translation; what the functions read of them — the Boolean fields
     `ValidForever`, `ManageTemporaryAddresses`, `StablePrivacy`, `Address.IsValid()`,
     `Address.Addr()`, the class predicates `IsPrivate`, `IsGlobalUnicast`, `IsLinkLocalUnicast`
     and the order `Less` — are uninterpreted function parameters; the
     `for _, fn := range []func(netip.Addr) bool{…}` loop is unrolled in source order.  The
     theorems below instantiate the parameters with the model's functions and state equality with
     `Model.isStable` / `Model.betterRDNSS` for all inputs: reordering the class predicates,
     swapping the flag comparison and the class comparison, flipping a polarity or the tie-break
     changes the translated definition and the proof stops checking.
  2. `Corerad.Gen.Plugin` (tools/extract/better.go) carries the same decision structure in printed
     form, plus what the translation abstracts: `isEUI64` (`Model.isEUI64` reads bytes 11 and 12)
     and the fold of `(*RDNSS).current` (`best = betterRDNSS(best, a)` over the addresses that
     pass the exclusion test `Model.rdnssEligible`).  The `gen_*` lemmas pin them.
-/
import Corerad.Gen.Trans
import Corerad.Gen.Plugin
import Corerad.Model.Wild
import Corerad.Lemmas.LoopFold

set_option linter.unusedSimpArgs false

namespace Corerad.Props.TransC14

/- The printed statements of `betterRDNSS` are not pinned: `betterRDNSS_equiv` proves the translated
   function equal to the model for all inputs, which subsumes them and survives renames. -/

open Corerad Corerad.Model

/-! ### 1. the translated functions -/

/-- `isStable(ip)` as translated is the disjunction of its four terms, whatever the abstract types
    and projections are. -/
theorem isStable_bool {IPRec Addr : Type} (ip : IPRec) (vf mt sp : IPRec → Bool) (ad : IPRec → Addr)
    (eui : Addr → Bool) :
    Gen.Trans.isStable (ip := ip) (ValidForever := vf) (ManageTemporaryAddresses := mt)
        (StablePrivacy := sp) (Address_Addr := ad) (isEUI64 := eui)
      = (vf ip || mt ip || sp ip || eui (ad ip)) := by
  unfold Gen.Trans.isStable
  generalize vf ip = v
  generalize mt ip = m
  generalize sp ip = s
  generalize eui (ad ip) = e
  cases v <;> cases m <;> cases s <;> cases e <;> simp

/-- `isStable(ip)` as translated, read over the model's `SysIP`, is `Model.isStable`. -/
theorem isStable_equiv (a : SysIP) :
    Gen.Trans.isStable (ip := a) (ValidForever := fun x => x.validForever)
        (ManageTemporaryAddresses := fun x => x.manageTemp) (StablePrivacy := fun x => x.stablePrivacy)
        (Address_Addr := fun x => x.addr.addr) (isEUI64 := Model.isEUI64)
      = Model.isStable a := by
  rw [isStable_bool]; rfl

/-- `betterRDNSS(best, current)` as translated, read over the model's `SysIP` / `IP`, is
    `Model.betterRDNSS` (flag comparison first, then the three address classes in source order,
    lesser address on a tie and when no class matches). -/
theorem betterRDNSS_equiv (best cur : SysIP) :
    Gen.Trans.betterRDNSS (best := best) (current := cur)
        (Address_IsValid := fun x => x.addr.isValid) (isStable := Model.isStable)
        (Address_Addr := fun x => x.addr.addr)
        (IsPrivate := IP.isPrivate) (IsGlobalUnicast := IP.isGlobalUnicast)
        (IsLinkLocalUnicast := IP.isLinkLocalUnicast) (Less := IP.less)
      = Model.betterRDNSS best cur := by
  have hr : Gen.Plugin.rdnssRankingCodes = [0, 1, 2] := by decide
  unfold Gen.Trans.betterRDNSS Model.betterRDNSS
  simp only [hr, rankLoop, rankPred]
  generalize best.addr.isValid = bv
  generalize Model.isStable cur = sc
  generalize Model.isStable best = sb
  generalize cur.addr.addr.isPrivate = c1
  generalize best.addr.addr.isPrivate = b1
  generalize cur.addr.addr.isGlobalUnicast = c2
  generalize best.addr.addr.isGlobalUnicast = b2
  generalize cur.addr.addr.isLinkLocalUnicast = c3
  generalize best.addr.addr.isLinkLocalUnicast = b3
  generalize cur.addr.addr.less best.addr.addr = l
  cases bv <;> cases sc <;> cases sb <;> (try simp) <;>
    cases c1 <;> cases b1 <;> (try simp) <;>
    cases c2 <;> cases b2 <;> (try simp) <;>
    cases c3 <;> cases b3 <;> (try simp) <;> cases l <;> (try simp)

/-- …also with the translated `isStable` plugged into the translated `betterRDNSS`: the pair of
    translations equals the model, with only `isEUI64` and the `netip` predicates left abstract. -/
theorem betterRDNSS_full_equiv (best cur : SysIP) :
    Gen.Trans.betterRDNSS (best := best) (current := cur)
        (Address_IsValid := fun x => x.addr.isValid)
        (isStable := fun x => Gen.Trans.isStable (ip := x) (ValidForever := fun x => x.validForever)
          (ManageTemporaryAddresses := fun x => x.manageTemp) (StablePrivacy := fun x => x.stablePrivacy)
          (Address_Addr := fun x => x.addr.addr) (isEUI64 := Model.isEUI64))
        (Address_Addr := fun x => x.addr.addr)
        (IsPrivate := IP.isPrivate) (IsGlobalUnicast := IP.isGlobalUnicast)
        (IsLinkLocalUnicast := IP.isLinkLocalUnicast) (Less := IP.less)
      = Model.betterRDNSS best cur := by
  have h : (fun x => Gen.Trans.isStable (ip := x) (ValidForever := fun x => x.validForever)
      (ManageTemporaryAddresses := fun x => x.manageTemp) (StablePrivacy := fun x => x.stablePrivacy)
      (Address_Addr := fun x => x.addr.addr) (isEUI64 := Model.isEUI64)) = Model.isStable :=
    funext isStable_equiv
  rw [h]; exact betterRDNSS_equiv best cur

/-- whatever the abstract types and predicates are, the translated function returns one of its
    two arguments -/
theorem betterRDNSS_selects {IPRec Addr : Type} (best current : IPRec) (valid stable : IPRec → Bool)
    (addr : IPRec → Addr) (p g l : Addr → Bool) (less : Addr → Addr → Bool) :
    Gen.Trans.betterRDNSS (best := best) (current := current) (Address_IsValid := valid)
        (isStable := stable) (Address_Addr := addr) (IsPrivate := p) (IsGlobalUnicast := g)
        (IsLinkLocalUnicast := l) (Less := less) = best ∨
    Gen.Trans.betterRDNSS (best := best) (current := current) (Address_IsValid := valid)
        (isStable := stable) (Address_Addr := addr) (IsPrivate := p) (IsGlobalUnicast := g)
        (IsLinkLocalUnicast := l) (Less := less) = current := by
  unfold Gen.Trans.betterRDNSS
  simp only []
  generalize valid best = bv
  generalize stable current = sc
  generalize stable best = sb
  generalize p (addr current) = c1
  generalize p (addr best) = b1
  generalize g (addr current) = c2
  generalize g (addr best) = b2
  generalize l (addr current) = c3
  generalize l (addr best) = b3
  generalize less (addr current) (addr best) = lt
  cases bv <;> cases sc <;> cases sb <;> (try simp) <;>
    cases c1 <;> cases b1 <;> (try simp) <;>
    cases c2 <;> cases b2 <;> (try simp) <;>
    cases c3 <;> cases b3 <;> (try simp) <;> cases lt <;> (try simp)

/-- non-trivial instances, evaluated on both sides: a stable link-local address beats an unstable
    ULA; among equally (un)stable addresses ULA beats GUA beats link-local; on a class tie the
    lesser address wins; an invalid `best` always loses -/
example :
    let ula : SysIP := { addr := { addr := { val := 0xfd000000000000000000000000000001 }, bits := 64 } }
    let ula2 : SysIP := { addr := { addr := { val := 0xfd000000000000000000000000000002 }, bits := 64 } }
    let gua : SysIP := { addr := { addr := { val := 0x20010db8000000000000000000000001 }, bits := 64 } }
    let lla : SysIP := { addr := { addr := { val := 0xfe800000000000000000000000000001 }, bits := 64 } }
    let llaS : SysIP := { lla with validForever := true }
    let f (b c : SysIP) : SysIP :=
      Gen.Trans.betterRDNSS (best := b) (current := c) (Address_IsValid := fun x => x.addr.isValid)
        (isStable := Model.isStable) (Address_Addr := fun x => x.addr.addr) (IsPrivate := IP.isPrivate)
        (IsGlobalUnicast := IP.isGlobalUnicast) (IsLinkLocalUnicast := IP.isLinkLocalUnicast) (Less := IP.less)
    f ula llaS = llaS ∧ f llaS ula = llaS ∧ f gua ula = ula ∧ f ula gua = ula ∧ f lla gua = gua ∧
    f ula2 ula = ula ∧ f ula ula2 = ula ∧ f SysIP.zero lla = lla ∧
    Model.betterRDNSS ula llaS = llaS ∧ Model.betterRDNSS gua ula = ula ∧ Model.betterRDNSS ula2 ula = ula := by
  decide

/-! ### 2. regenerated decision structure (printed) -/

/-- the address classes, in order of preference (`Gen.Plugin.rdnssRanking` is the same list
    without the receiver type) -/
theorem gen_better_classes :
    Gen.Plugin.betterLoopHeader = "for _, fn := range []func(netip.Addr) bool" ∧
    Gen.Plugin.betterLoopElems =
      ["(netip.Addr).IsPrivate", "(netip.Addr).IsGlobalUnicast", "(netip.Addr).IsLinkLocalUnicast"] ∧
    Gen.Plugin.rdnssRanking = ["IsPrivate", "IsGlobalUnicast", "IsLinkLocalUnicast"] ∧
    Gen.Plugin.rdnssRankingCodes = [0, 1, 2] := by
  decide

/-- `isStable`: the disjunction of `Model.isStable`, and `isEUI64` = bytes 11, 12 are ff:fe
    (`Model.isEUI64`) -/
theorem gen_isStable :
    Gen.Plugin.isStableTerms =
      ["false", "ip.ValidForever", "ip.ManageTemporaryAddresses", "ip.StablePrivacy", "isEUI64(ip.Address.Addr())"] ∧
    Gen.Plugin.isEUI64Body = ["b := ip.As16()", "return b[11] == 0xff && b[12] == 0xfe"] := by
  decide

/-! ### 3. `(*RDNSS).current` — the fold, translated (tools/extract/translate_loop.go)

The printed body of the function (`Gen.Plugin.rdnssCurrentBody`) is no longer pinned: the loop is
re-translated into `Gen.Trans.RDNSS_current` (a left fold with the loop-carried `best` as its state)
and proved equal to `Model.currentRDNSS` for every address list, which subsumes the printed fact and
survives renames. -/

/-- the exclusion test of the loop -/
def skip (a : SysIP) : Bool := ((a.addr.addr.is4 || a.deprecated) || a.temporary) || a.tentative

theorem skip_eq (a : SysIP) : (!skip a) = rdnssEligible a := by
  unfold skip rdnssEligible
  cases a.addr.addr.is4 <;> cases a.deprecated <;> cases a.temporary <;> cases a.tentative <;> rfl

/-- **`(*RDNSS).current()` as translated from the source is `Model.currentRDNSS`**, for every
    address list: the loop that skips IPv4 / deprecated / temporary / tentative addresses and folds
    `betterRDNSS` from the zero `system.IP` (accumulator first), an invalid result being the error
    "interface has no usable IPv6 addresses".  The comparison function is left abstract here … -/
theorem RDNSS_current_equiv_gen (as : List SysIP) (better : SysIP → SysIP → SysIP) :
    Gen.Trans.RDNSS_current (Pfx := Prefix) (recv_Addrs := some as) (zero_IPRec := SysIP.zero)
        (IP_Address := fun a => a.addr) (Prefix_Addr := fun p => p.addr) (Addr_Is4 := IP.is4)
        (IP_Deprecated := fun a => a.deprecated) (IP_Temporary := fun a => a.temporary)
        (IP_Tentative := fun a => a.tentative) (betterRDNSS := better) (Addr_IsValid := fun a => a.valid)
      = (let best := (as.filter rdnssEligible).foldl better SysIP.zero
         if best.addr.addr.valid then some best.addr.addr else none) := by
  unfold Gen.Trans.RDNSS_current
  simp only []
  have hb : (fun (best : SysIP) (a : SysIP) =>
        if (((a.addr.addr.is4 || a.deprecated) || a.temporary) || a.tentative) = true then best else better best a)
      = (fun best a => if skip a = true then best else better best a) := rfl
  rw [hb, Corerad.Lemmas.LoopFold.foldl_skip]
  have hf : as.filter (fun a => !skip a) = as.filter rdnssEligible :=
    List.filter_congr (fun a _ => skip_eq a)
  rw [hf]
  cases ((as.filter rdnssEligible).foldl better SysIP.zero).addr.addr.valid <;> simp

/-- … and with the TRANSLATED `betterRDNSS` (itself containing the translated `isStable`) plugged in,
    the whole wildcard choice as read from the source equals the model. -/
theorem RDNSS_current_equiv (as : List SysIP) :
    Gen.Trans.RDNSS_current (Pfx := Prefix) (recv_Addrs := some as) (zero_IPRec := SysIP.zero)
        (IP_Address := fun a => a.addr) (Prefix_Addr := fun p => p.addr) (Addr_Is4 := IP.is4)
        (IP_Deprecated := fun a => a.deprecated) (IP_Temporary := fun a => a.temporary)
        (IP_Tentative := fun a => a.tentative)
        (betterRDNSS := fun b c =>
          Gen.Trans.betterRDNSS (best := b) (current := c) (Address_IsValid := fun x => x.addr.isValid)
            (isStable := fun x => Gen.Trans.isStable (ip := x) (ValidForever := fun x => x.validForever)
              (ManageTemporaryAddresses := fun x => x.manageTemp) (StablePrivacy := fun x => x.stablePrivacy)
              (Address_Addr := fun x => x.addr.addr) (isEUI64 := Model.isEUI64))
            (Address_Addr := fun x => x.addr.addr) (IsPrivate := IP.isPrivate)
            (IsGlobalUnicast := IP.isGlobalUnicast) (IsLinkLocalUnicast := IP.isLinkLocalUnicast)
            (Less := IP.less))
        (Addr_IsValid := fun a => a.valid)
      = Model.currentRDNSS as := by
  rw [RDNSS_current_equiv_gen]
  have h : (fun b c =>
      Gen.Trans.betterRDNSS (best := b) (current := c) (Address_IsValid := fun x => x.addr.isValid)
        (isStable := fun x => Gen.Trans.isStable (ip := x) (ValidForever := fun x => x.validForever)
          (ManageTemporaryAddresses := fun x => x.manageTemp) (StablePrivacy := fun x => x.stablePrivacy)
          (Address_Addr := fun x => x.addr.addr) (isEUI64 := Model.isEUI64))
        (Address_Addr := fun x => x.addr.addr) (IsPrivate := IP.isPrivate)
        (IsGlobalUnicast := IP.isGlobalUnicast) (IsLinkLocalUnicast := IP.isLinkLocalUnicast)
        (Less := IP.less)) = Model.betterRDNSS :=
    funext (fun b => funext (fun c => betterRDNSS_full_equiv b c))
  rw [h]
  rfl

/-- an error from the address source is an error of the choice (RA generation fails) -/
theorem RDNSS_current_error {IPRec Addr Pfx : Type} (z : IPRec) (ia : IPRec → Pfx) (pa : Pfx → Addr)
    (i4 : Addr → Bool) (d t n : IPRec → Bool) (b : IPRec → IPRec → IPRec) (v : Addr → Bool) :
    Gen.Trans.RDNSS_current (recv_Addrs := none) (zero_IPRec := z) (IP_Address := ia) (Prefix_Addr := pa)
        (Addr_Is4 := i4) (IP_Deprecated := d) (IP_Temporary := t) (IP_Tentative := n) (betterRDNSS := b)
        (Addr_IsValid := v) = none := rfl

/-- non-vacuity: a deprecated ULA, a tentative GUA, an eligible GUA and an eligible link-local → the GUA -/
example :
    Gen.Trans.RDNSS_current (Pfx := Prefix)
        (recv_Addrs := some [
          ({ addr := ⟨{ val := 0xfd000000000000000000000000000001 }, 64⟩, deprecated := true } : SysIP),
          { addr := ⟨{ val := 0x20010db8000000000000000000000001 }, 64⟩, tentative := true },
          { addr := ⟨{ val := 0xfe800000000000000000000000000001 }, 64⟩ },
          { addr := ⟨{ val := 0x20010db8000000000000000000000002 }, 64⟩ } ])
        (zero_IPRec := SysIP.zero)
        (IP_Address := fun a => a.addr) (Prefix_Addr := fun p => p.addr) (Addr_Is4 := IP.is4)
        (IP_Deprecated := fun a => a.deprecated) (IP_Temporary := fun a => a.temporary)
        (IP_Tentative := fun a => a.tentative) (betterRDNSS := Model.betterRDNSS)
        (Addr_IsValid := fun a => a.valid)
      = some { val := 0x20010db8000000000000000000000002 } := by
  decide +kernel

end Corerad.Props.TransC14
