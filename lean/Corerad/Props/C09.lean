/-
  C09 — invalid NDP messages are ignored and can never disrupt service.

  Theorems over EVERY script of reads — valid messages, messages with a bad hop limit, receive
  timeouts and read errors in any mix, number and order, from any attempt counter:

    erasure                   the run on a script = the run on the script without its invalid
                              messages, but for the invalid counter (which lists the erased
                              messages of the consumed prefix)
    invalid_never_delivered   (a) everything delivered is a hop-limit-255 message of the script
    insert_invalid_inert      (b) inserting invalid messages anywhere changes neither deliveries,
                              nor back-offs, nor the result
    exhausted_iff / readError_iff / running_iff / result_eq_expected
                              (c) the result is decided by the erased script: exhausted iff it has
                              5 consecutive timeouts before any error, …
    take_consumed / consumed_least   `consumed` is the shortest prefix that decides the result
    model_eq_expected / holds_model / holds_iff
                              the oracle of Spec/C09.lean accepts the model's output on every
                              script, and nothing else
  The `src_*` theorems state them for the listener of the source (`listenSrc`); they build only
  while the source's hop-limit branch does not consume a receive attempt.
  The older theorems over scripts of messages only (`messages_only` …) are kept as special cases.
-/
import Corerad.Spec.C09
import Corerad.Model.Advertiser
import Corerad.Gen.Dialer

namespace Corerad.Props.C09

open Corerad Corerad.Model

/-- constants of `receiveRetry` as found in the source, and: a message with a bad hop limit
    does NOT consume a receive attempt (this lemma fails to build on a tree where it does). -/
theorem gen_constants :
    Gen.Listener.retries = 5 ∧ Gen.Listener.backoffUnit = 50 * ms ∧
    Gen.Listener.invalidConsumesAttempt = false := by decide

/-- The socket the listener reads from is set up as the validation assumes (calls of `dialNDP` in
    source order, regenerated): link-local listener, an ICMPv6 filter that blocks everything but
    router solicitations and router advertisements, the hop limit delivered with every message
    (the 255 test reads it), membership of the all-routers group (solicitations are sent there).
    The kernel's behaviour behind these calls is outside the model. -/
theorem gen_socket_setup :
    Gen.Dialer.dialNDPCalls =
      ["ndp.Listen(ifi, ndp.LinkLocal)", "f.SetAll(true)", "f.Accept(ipv6.ICMPTypeRouterSolicitation)",
       "f.Accept(ipv6.ICMPTypeRouterAdvertisement)", "c.SetICMPFilter(&f)",
       "c.SetControlMessage(ipv6.FlagHopLimit, true)", "c.JoinGroup(netip.IPv6LinkLocalAllRouters())"] := by
  decide

/-- generalised over the attempt counter: on a script of messages the listener delivers the
    valid ones in order, counts the invalid ones, requests no back-off and keeps running -/
theorem messages_only (retries : Nat) (unit : Dur) :
    ∀ (script : List Read) (i : Nat), script.all Spec.C09.isMsg = true →
      listen retries unit false script i =
        { delivered := Spec.C09.validOf script, invalid := Spec.C09.invalidOf script, waits := [], result := .running }
  | [], _, _ => rfl
  | .err :: _, _, h => by simp [Spec.C09.isMsg] at h
  | .timeout :: _, _, h => by simp [Spec.C09.isMsg] at h
  | .msg k hop host :: rest, i, h => by
    have hr : rest.all Spec.C09.isMsg = true := by
      simp only [List.all_cons, Bool.and_eq_true] at h; exact h.2
    by_cases hh : hop = 255
    · subst hh
      simp [listen, Spec.C09.validOf, Spec.C09.invalidOf, messages_only retries unit rest 0 hr]
    · have hb : (hop == 255) = false := by simp [hh]
      simp [listen, hh, hb, Spec.C09.validOf, Spec.C09.invalidOf, messages_only retries unit rest i hr]

/-- **No number or pattern of invalid messages stops the listener**: on any script of messages
    it never returns an error… -/
theorem never_fails (script : List Read) (h : script.all Spec.C09.isMsg = true) :
    (listenSrc script).result = .running := by
  unfold listenSrc
  rw [gen_constants.2.2, messages_only _ _ script 0 h]

/-- …every valid message is delivered, in order… -/
theorem valid_all_delivered (script : List Read) (h : script.all Spec.C09.isMsg = true) :
    (listenSrc script).delivered = Spec.C09.validOf script := by
  unfold listenSrc
  rw [gen_constants.2.2, messages_only _ _ script 0 h]

/-- …and every invalid one is counted, once. -/
theorem invalid_counted (script : List Read) (h : script.all Spec.C09.isMsg = true) :
    (listenSrc script).invalid = Spec.C09.invalidOf script := by
  unfold listenSrc
  rw [gen_constants.2.2, messages_only _ _ script 0 h]

/-- the former oracle (scripts of messages only) on the model -/
theorem holdsMessagesOnly_model (script : List Read) : Spec.C09.holdsMessagesOnly script (listenSrc script) = true := by
  unfold Spec.C09.holdsMessagesOnly
  by_cases h : script.all Spec.C09.isMsg = true
  · unfold listenSrc
    rw [gen_constants.2.2, messages_only _ _ script 0 h]
    simp [h]
  · simp [h]

open Spec.C09

/-! ### erasure of invalid messages, over arbitrary scripts -/

theorem erase_err (r : List Read) : erase (.err :: r) = .err :: erase r := by
  simp [erase, isInvalid]

theorem erase_timeout (r : List Read) : erase (.timeout :: r) = .timeout :: erase r := by
  simp [erase, isInvalid]

theorem erase_valid (k h : Nat) (r : List Read) : erase (.msg k 255 h :: r) = .msg k 255 h :: erase r := by
  simp [erase, isInvalid]

theorem erase_invalid (k hop h : Nat) (r : List Read) (hh : hop ≠ 255) : erase (.msg k hop h :: r) = erase r := by
  simp [erase, isInvalid, hh]

theorem erase_append (a b : List Read) : erase (a ++ b) = erase a ++ erase b := by
  simp [erase]

theorem erase_all_invalid (inv : List Read) (h : inv.all isInvalid = true) : erase inv = [] := by
  simp only [List.all_eq_true] at h
  simp only [erase, List.filter_eq_nil_iff]
  intro a ha; simp [h a ha]

theorem erase_idem (s : List Read) : erase (erase s) = erase s := by
  simp [erase]

/-- an erased script has no invalid message -/
theorem erase_no_invalid (s : List Read) : ∀ r ∈ erase s, isInvalid r = false := by
  intro r hr
  simp only [erase, List.mem_filter] at hr
  simpa using hr.2

/-- field by field, generalised over the attempt counter -/
theorem erasure_fields (n : Nat) (unit : Dur) : ∀ (script : List Read) (i : Nat),
    (listen n unit false script i).delivered = (listen n unit false (erase script) i).delivered ∧
    (listen n unit false script i).waits = (listen n unit false (erase script) i).waits ∧
    (listen n unit false script i).result = (listen n unit false (erase script) i).result ∧
    (listen n unit false script i).invalid = invalidOf (script.take (consumed n script i)) ∧
    (listen n unit false (erase script) i).invalid = []
  | [], _ => by simp [erase, listen, consumed, invalidOf]
  | .err :: r, i => by simp [erase_err, listen, consumed, invalidOf]
  | .timeout :: r, i => by
    have ih := erasure_fields n unit r (i + 1)
    rw [erase_timeout]
    by_cases h : i + 1 ≥ n
    · simp [listen, consumed, h, invalidOf]
    · simp only [listen, consumed, h, if_false, List.take_succ_cons, invalidOf]
      exact ⟨ih.1, by rw [ih.2.1], ih.2.2.1, ih.2.2.2.1, ih.2.2.2.2⟩
  | .msg k hop host :: r, i => by
    by_cases hh : hop = 255
    · subst hh
      have ih := erasure_fields n unit r 0
      rw [erase_valid]
      simp only [listen, consumed, ne_eq, not_true_eq_false, if_false, beq_self_eq_true, if_true,
        List.take_succ_cons, invalidOf, bne_self_eq_false, Bool.false_eq_true]
      exact ⟨by rw [ih.1], ih.2.1, ih.2.2.1, ih.2.2.2.1, ih.2.2.2.2⟩
    · have ih := erasure_fields n unit r i
      have hb : (hop == 255) = false := by simp [hh]
      rw [erase_invalid k hop host r hh]
      simp only [listen, consumed, ne_eq, hh, not_false_eq_true, if_true, hb, Bool.false_eq_true, if_false,
        List.take_succ_cons, invalidOf, bne_iff_ne]
      exact ⟨ih.1, ih.2.1, ih.2.2.1, by rw [ih.2.2.2.1], ih.2.2.2.2⟩

/-- **Erasure.**  For ANY script (valid messages, invalid messages, timeouts, errors, in any mix,
    number and order) and any attempt counter: the listener's run on the script is its run on
    the script with every invalid message removed — same deliveries, same back-offs, same result
    — except that the invalid counter lists exactly the invalid messages among the reads the
    run consumed (`consumed`: up to and including the read that stopped it), in order; the run
    on the erased script counts none (`erased_counts_nothing`). -/
theorem erasure (n : Nat) (unit : Dur) (script : List Read) (i : Nat) :
    listen n unit false script i =
      { listen n unit false (erase script) i with
        invalid := invalidOf (script.take (consumed n script i)) } := by
  have h := erasure_fields n unit script i
  cases hs : listen n unit false script i
  cases he : listen n unit false (erase script) i
  simp only [hs, he] at h
  simp only [ListenOut.mk.injEq]
  exact ⟨h.1, h.2.2.2.1, h.2.1, h.2.2.1⟩

theorem erased_counts_nothing (n : Nat) (unit : Dur) (script : List Read) (i : Nat) :
    (listen n unit false (erase script) i).invalid = [] :=
  (erasure_fields n unit script i).2.2.2.2

theorem delivered_eq (n : Nat) (unit : Dur) : ∀ (script : List Read) (i : Nat),
    (listen n unit false script i).delivered = validOf (script.take (consumed n script i))
  | [], _ => by simp [listen, consumed, validOf]
  | .err :: r, i => by simp [listen, consumed, validOf]
  | .timeout :: r, i => by
    by_cases h : i + 1 ≥ n
    · simp [listen, consumed, h, validOf]
    · simp only [listen, consumed, h, if_false, List.take_succ_cons, validOf]
      exact delivered_eq n unit r (i + 1)
  | .msg k hop host :: r, i => by
    by_cases hh : hop = 255
    · subst hh
      simp only [listen, consumed, ne_eq, not_true_eq_false, if_false, beq_self_eq_true, if_true,
        List.take_succ_cons, validOf]
      rw [delivered_eq n unit r 0]
    · have hb : (hop == 255) = false := by simp [hh]
      simp only [listen, consumed, ne_eq, hh, not_false_eq_true, if_true, hb, Bool.false_eq_true, if_false,
        List.take_succ_cons, validOf]
      exact delivered_eq n unit r i

theorem invalid_eq (n : Nat) (unit : Dur) (script : List Read) (i : Nat) :
    (listen n unit false script i).invalid = invalidOf (script.take (consumed n script i)) :=
  (erasure_fields n unit script i).2.2.2.1

theorem waits_eq (n : Nat) (unit : Dur) : ∀ (script : List Read) (i : Nat),
    (listen n unit false script i).waits = backoffs unit (script.take (consumed n script i)) i
  | [], _ => by simp [listen, consumed, backoffs]
  | .err :: r, i => by simp [listen, consumed, backoffs]
  | .timeout :: r, i => by
    by_cases h : i + 1 ≥ n
    · simp [listen, consumed, h, backoffs]
    · simp only [listen, consumed, h, if_false, List.take_succ_cons, backoffs]
      rw [waits_eq n unit r (i + 1)]
  | .msg k hop host :: r, i => by
    by_cases hh : hop = 255
    · subst hh
      simp only [listen, consumed, ne_eq, not_true_eq_false, if_false, beq_self_eq_true, if_true,
        List.take_succ_cons, backoffs]
      exact waits_eq n unit r 0
    · have hb : (hop == 255) = false := by simp [hh]
      simp only [listen, consumed, ne_eq, hh, not_false_eq_true, if_true, hb, Bool.false_eq_true, if_false,
        List.take_succ_cons, backoffs]
      exact waits_eq n unit r i

/-! ### (a) an invalid message is never delivered -/

theorem mem_validOf : ∀ (s : List Read) (d : Nat × Nat), d ∈ validOf s → Read.msg d.1 255 d.2 ∈ s
  | [], d, h => by simp [validOf] at h
  | .err :: r, d, h => by
    simp only [validOf] at h
    exact List.mem_cons_of_mem _ (mem_validOf r d h)
  | .timeout :: r, d, h => by
    simp only [validOf] at h
    exact List.mem_cons_of_mem _ (mem_validOf r d h)
  | .msg k hop host :: r, d, h => by
    by_cases hh : hop = 255
    · subst hh
      simp only [validOf, beq_self_eq_true, if_true, List.mem_cons] at h
      rcases h with h | h
      · subst h; exact List.mem_cons_self
      · exact List.mem_cons_of_mem _ (mem_validOf r d h)
    · have hb : (hop == 255) = false := by simp [hh]
      simp only [validOf, hb, Bool.false_eq_true, if_false] at h
      exact List.mem_cons_of_mem _ (mem_validOf r d h)

/-- **(a)** Whatever the script and the attempt counter: everything delivered is a message of the
    script with hop limit 255 — a message with another hop limit is never delivered. -/
theorem invalid_never_delivered (n : Nat) (unit : Dur) (script : List Read) (i : Nat) (d : Nat × Nat)
    (h : d ∈ (listen n unit false script i).delivered) : Read.msg d.1 255 d.2 ∈ script := by
  rw [delivered_eq] at h
  exact List.mem_of_mem_take (mem_validOf _ d h)

/-- …in particular a script without a valid message delivers nothing, whatever else it holds -/
theorem nothing_valid_nothing_delivered (n : Nat) (unit : Dur) (script : List Read) (i : Nat)
    (h : ∀ k host, Read.msg k 255 host ∉ script) : (listen n unit false script i).delivered = [] := by
  apply List.eq_nil_iff_forall_not_mem.mpr
  intro d hd
  exact h _ _ (invalid_never_delivered n unit script i d hd)

/-! ### (b) invalid messages anywhere change nothing but the invalid counter -/

/-- two scripts that differ only in their invalid messages -/
theorem erase_eq_inert (n : Nat) (unit : Dur) (s s' : List Read) (i : Nat) (h : erase s = erase s') :
    (listen n unit false s i).delivered = (listen n unit false s' i).delivered ∧
    (listen n unit false s i).waits = (listen n unit false s' i).waits ∧
    (listen n unit false s i).result = (listen n unit false s' i).result := by
  have a := erasure_fields n unit s i
  have b := erasure_fields n unit s' i
  rw [h] at a
  exact ⟨a.1.trans b.1.symm, a.2.1.trans b.2.1.symm, a.2.2.1.trans b.2.2.1.symm⟩

/-- `InsertInvalid s s'`: `s'` is `s` with any number of invalid messages inserted anywhere -/
inductive InsertInvalid : List Read → List Read → Prop
  | nil : InsertInvalid [] []
  | keep (x : Read) {s s' : List Read} : InsertInvalid s s' → InsertInvalid (x :: s) (x :: s')
  | ins (x : Read) {s s' : List Read} : isInvalid x = true → InsertInvalid s s' → InsertInvalid s (x :: s')

theorem InsertInvalid.erase_eq {s s' : List Read} (h : InsertInvalid s s') : erase s = erase s' := by
  induction h with
  | nil => rfl
  | keep x _ ih => simp only [erase, List.filter_cons] at ih ⊢; rw [ih]
  | ins x hx _ ih => simp only [erase, List.filter_cons, hx] at ih ⊢; simpa using ih

/-- **(b)** Inserting any number of invalid messages anywhere into any script (timeouts, errors and
    valid messages included), at any attempt counter, changes neither what is delivered, nor the
    back-offs, nor the result: invalid messages can neither cause nor mask a failure, and neither
    reset nor advance the retry counter. -/
theorem insert_invalid_inert (n : Nat) (unit : Dur) (s s' : List Read) (i : Nat) (h : InsertInvalid s s') :
    (listen n unit false s' i).delivered = (listen n unit false s i).delivered ∧
    (listen n unit false s' i).waits = (listen n unit false s i).waits ∧
    (listen n unit false s' i).result = (listen n unit false s i).result :=
  erase_eq_inert n unit s' s i h.erase_eq.symm

/-- the same for one block of invalid messages between any two parts of a script -/
theorem insert_block_inert (n : Nat) (unit : Dur) (pre inv post : List Read) (i : Nat)
    (h : inv.all isInvalid = true) :
    (listen n unit false (pre ++ inv ++ post) i).delivered = (listen n unit false (pre ++ post) i).delivered ∧
    (listen n unit false (pre ++ inv ++ post) i).waits = (listen n unit false (pre ++ post) i).waits ∧
    (listen n unit false (pre ++ inv ++ post) i).result = (listen n unit false (pre ++ post) i).result := by
  apply erase_eq_inert
  simp [erase_append, erase_all_invalid inv h]

/-! ### (c) what decides the result -/

/-- a run of timeouts that reaches the retry budget exhausts it, at any attempt counter -/
theorem result_run (n : Nat) (unit : Dur) (post : List Read) : ∀ (k i : Nat), k > 0 → i + k ≥ n →
    (listen n unit false (List.replicate k Read.timeout ++ post) i).result = .retriesExhausted
  | 0, _, hk, _ => by omega
  | k + 1, i, _, h => by
    simp only [List.replicate_succ, List.cons_append, listen]
    by_cases h1 : i + 1 ≥ n
    · simp [h1]
    · simp only [h1, if_false]
      exact result_run n unit post k (i + 1) (by omega) (by omega)

/-- reads without an error lead to whatever follows them (at some attempt counter) or exhaust the
    retries before -/
theorem result_through (n : Nat) (unit : Dur) (s : List Read)
    (hs : ∀ j, (listen n unit false s j).result = .retriesExhausted) :
    ∀ (pre : List Read) (i : Nat), Read.err ∉ pre →
      (listen n unit false (pre ++ s) i).result = .retriesExhausted
  | [], i, _ => hs i
  | .err :: r, _, h => by simp at h
  | .timeout :: r, i, h => by
    simp only [List.cons_append, listen]
    by_cases h1 : i + 1 ≥ n
    · simp [h1]
    · simp only [h1, if_false]
      exact result_through n unit s hs r (i + 1) (fun hm => h (List.mem_cons_of_mem _ hm))
  | .msg k hop host :: r, i, h => by
    have hr : Read.err ∉ r := fun hm => h (List.mem_cons_of_mem _ hm)
    by_cases hh : hop = 255
    · simp only [List.cons_append, listen, hh, ne_eq, not_true_eq_false, if_false]
      exact result_through n unit s hs r 0 hr
    · simp only [List.cons_append, listen, ne_eq, hh, not_false_eq_true, if_true, Bool.false_eq_true, if_false]
      exact result_through n unit s hs r i hr

/-- exhaustion at attempt counter `i` shows a run of `n` timeouts in the erased script, the `i`
    timeouts already counted put in front -/
theorem exhausted_run (n : Nat) (unit : Dur) : ∀ (script : List Read) (i : Nat), i < n →
    (listen n unit false script i).result = .retriesExhausted →
    ∃ pre post, List.replicate i Read.timeout ++ erase script = pre ++ List.replicate n Read.timeout ++ post ∧
      Read.err ∉ pre
  | [], _, _, h => by simp [listen] at h
  | .err :: r, _, _, h => by simp [listen] at h
  | .timeout :: r, i, hi, h => by
    rw [erase_timeout]
    have e : List.replicate i Read.timeout ++ Read.timeout :: erase r =
        List.replicate (i + 1) Read.timeout ++ erase r := by
      rw [List.replicate_succ']; simp
    by_cases h1 : i + 1 ≥ n
    · have : i + 1 = n := by omega
      exact ⟨[], erase r, by rw [e, this]; simp, by simp⟩
    · simp only [listen, h1, if_false] at h
      obtain ⟨pre, post, hp, hn⟩ := exhausted_run n unit r (i + 1) (by omega) h
      exact ⟨pre, post, by rw [e, hp], hn⟩
  | .msg k hop host :: r, i, hi, h => by
    by_cases hh : hop = 255
    · subst hh
      simp only [listen, ne_eq, not_true_eq_false, if_false] at h
      obtain ⟨pre, post, hp, hn⟩ := exhausted_run n unit r 0 (by omega) h
      simp only [List.replicate_zero, List.nil_append] at hp
      refine ⟨List.replicate i Read.timeout ++ Read.msg k 255 host :: pre, post, ?_, ?_⟩
      · rw [erase_valid, hp]; simp
      · simp only [List.mem_append, List.mem_replicate, List.mem_cons, not_or]
        exact ⟨by simp, by simp, hn⟩
    · simp only [listen, ne_eq, hh, not_false_eq_true, if_true, Bool.false_eq_true, if_false] at h
      rw [erase_invalid k hop host r hh]
      exact exhausted_run n unit r i hi h

/-- **(c)** The result is `retriesExhausted` iff the script, its invalid messages erased, has `n`
    consecutive timeouts (not separated by a valid message) before any error. -/
theorem exhausted_iff (n : Nat) (unit : Dur) (hn : 0 < n) (script : List Read) :
    (listen n unit false script 0).result = .retriesExhausted ↔
      ∃ pre post, erase script = pre ++ List.replicate n Read.timeout ++ post ∧ Read.err ∉ pre := by
  constructor
  · intro h
    simpa using exhausted_run n unit script 0 hn h
  · rintro ⟨pre, post, hp, he⟩
    rw [(erasure_fields n unit script 0).2.2.1, hp, List.append_assoc]
    exact result_through n unit _ (fun j => result_run n unit post n j hn (by omega)) pre 0 he

/-- a read error shows an error in the erased script -/
theorem readError_mem (n : Nat) (unit : Dur) : ∀ (script : List Read) (i : Nat),
    (listen n unit false script i).result = .readError → Read.err ∈ erase script
  | [], _, h => by simp [listen] at h
  | .err :: r, _, _ => by simp [erase_err]
  | .timeout :: r, i, h => by
    rw [erase_timeout]
    by_cases h1 : i + 1 ≥ n
    · simp [listen, h1] at h
    · simp only [listen, h1, if_false] at h
      exact List.mem_cons_of_mem _ (readError_mem n unit r (i + 1) h)
  | .msg k hop host :: r, i, h => by
    by_cases hh : hop = 255
    · subst hh
      simp only [listen, ne_eq, not_true_eq_false, if_false] at h
      rw [erase_valid]
      exact List.mem_cons_of_mem _ (readError_mem n unit r 0 h)
    · simp only [listen, ne_eq, hh, not_false_eq_true, if_true, Bool.false_eq_true, if_false] at h
      rw [erase_invalid k hop host r hh]
      exact readError_mem n unit r i h

/-- a script with an error is stopped by it, unless the retries are exhausted before -/
theorem stops_at_error (n : Nat) (unit : Dur) (post : List Read) : ∀ (pre : List Read) (i : Nat),
    (listen n unit false (pre ++ Read.err :: post) i).result = .readError ∨
    (listen n unit false (pre ++ Read.err :: post) i).result = .retriesExhausted
  | [], _ => by simp [listen]
  | .err :: r, _ => by simp [listen]
  | .timeout :: r, i => by
    simp only [List.cons_append, listen]
    by_cases h1 : i + 1 ≥ n
    · simp [h1]
    · simp only [h1, if_false]
      exact stops_at_error n unit post r (i + 1)
  | .msg k hop host :: r, i => by
    by_cases hh : hop = 255
    · simp only [List.cons_append, listen, hh, ne_eq, not_true_eq_false, if_false]
      exact stops_at_error n unit post r 0
    · simp only [List.cons_append, listen, ne_eq, hh, not_false_eq_true, if_true, Bool.false_eq_true, if_false]
      exact stops_at_error n unit post r i

/-- splitting a list at the first occurrence -/
theorem split_first {α : Type} [DecidableEq α] (a : α) : ∀ (l : List α), a ∈ l →
    ∃ pre post, l = pre ++ a :: post ∧ a ∉ pre
  | [], h => by simp at h
  | x :: r, h => by
    by_cases hx : x = a
    · exact ⟨[], r, by simp [hx], by simp⟩
    · have hr : a ∈ r := by
        rcases List.mem_cons.mp h with h | h
        · exact absurd h.symm hx
        · exact h
      obtain ⟨pre, post, hp, hn⟩ := split_first a r hr
      refine ⟨x :: pre, post, by simp [hp], ?_⟩
      simp only [List.mem_cons, not_or]
      exact ⟨fun h => hx h.symm, hn⟩

/-- whatever avoids `a` and starts a list is inside the part before the first `a` -/
theorem prefix_of_first {α : Type} (a : α) : ∀ (x pre post y : List α),
    pre ++ a :: post = x ++ y → a ∉ pre → a ∉ x → ∃ z, pre = x ++ z
  | [], pre, _, _, _, _, _ => ⟨pre, rfl⟩
  | c :: x, [], post, y, h, _, hx => by
    simp only [List.nil_append, List.cons_append, List.cons.injEq] at h
    exact absurd (by simp [h.1]) hx
  | c :: x, p :: pre, post, y, h, hp, hx => by
    simp only [List.cons_append, List.cons.injEq] at h
    obtain ⟨z, hz⟩ := prefix_of_first a x pre post y h.2
      (fun hm => hp (List.mem_cons_of_mem _ hm)) (fun hm => hx (List.mem_cons_of_mem _ hm))
    exact ⟨z, by simp [h.1, hz]⟩

/-- `l` has `n` consecutive timeouts -/
def HasRun (n : Nat) (l : List Read) : Prop := ∃ a b, l = a ++ List.replicate n Read.timeout ++ b

/-- **(c)** The result is `readError` iff the erased script has an error and no `n` consecutive
    timeouts before it. -/
theorem readError_iff (n : Nat) (unit : Dur) (hn : 0 < n) (script : List Read) :
    (listen n unit false script 0).result = .readError ↔
      ∃ pre post, erase script = pre ++ Read.err :: post ∧ Read.err ∉ pre ∧ ¬ HasRun n pre := by
  constructor
  · intro h
    obtain ⟨pre, post, hp, he⟩ := split_first Read.err _ (readError_mem n unit script 0 h)
    refine ⟨pre, post, hp, he, ?_⟩
    rintro ⟨a, b, hab⟩
    have hx : (listen n unit false script 0).result = .retriesExhausted :=
      (exhausted_iff n unit hn script).mpr ⟨a, b ++ Read.err :: post, by rw [hp, hab]; simp,
        fun hm => he (by rw [hab]; simp [hm])⟩
    rw [hx] at h; cases h
  · rintro ⟨pre, post, hp, he, hr⟩
    have hs := stops_at_error n unit post pre 0
    rw [← hp, ← (erasure_fields n unit script 0).2.2.1] at hs
    rcases hs with hs | hs
    · exact hs
    · exfalso
      obtain ⟨a, b, hab, ha⟩ := (exhausted_iff n unit hn script).mp hs
      rw [hp, List.append_assoc] at hab
      have hx : Read.err ∉ a ++ List.replicate n Read.timeout := by
        simp only [List.mem_append, List.mem_replicate, not_or]
        exact ⟨ha, by simp⟩
      obtain ⟨z, hz⟩ := prefix_of_first Read.err (a ++ List.replicate n Read.timeout) pre post b
        (by rw [hab]; simp) he hx
      exact hr ⟨a, z, hz⟩

/-- **(c)** The listener is still running iff the erased script has neither an error nor `n`
    consecutive timeouts. -/
theorem running_iff (n : Nat) (unit : Dur) (hn : 0 < n) (script : List Read) :
    (listen n unit false script 0).result = .running ↔
      Read.err ∉ erase script ∧ ¬ HasRun n (erase script) := by
  constructor
  · intro h
    have he : Read.err ∉ erase script := by
      intro hm
      obtain ⟨pre, post, hp, _⟩ := split_first Read.err _ hm
      have hs := stops_at_error n unit post pre 0
      rw [← hp, ← (erasure_fields n unit script 0).2.2.1, h] at hs
      rcases hs with hs | hs <;> cases hs
    refine ⟨he, ?_⟩
    rintro ⟨a, b, hab⟩
    have hx : (listen n unit false script 0).result = .retriesExhausted :=
      (exhausted_iff n unit hn script).mpr ⟨a, b, hab, fun hm => he (by rw [hab]; simp [hm])⟩
    rw [hx] at h; cases h
  · rintro ⟨he, hr⟩
    cases h : (listen n unit false script 0).result with
    | running => rfl
    | retriesExhausted =>
      obtain ⟨a, b, hab, _⟩ := (exhausted_iff n unit hn script).mp h
      exact absurd ⟨a, b, hab⟩ hr
    | readError => exact absurd (readError_mem n unit script 0 h) he

/-- an attempt counter `i` is `i` timeouts already read -/
theorem result_counter (n : Nat) (unit : Dur) (s : List Read) : ∀ (i j : Nat), j + i < n →
    (listen n unit false (List.replicate i Read.timeout ++ s) j).result = (listen n unit false s (j + i)).result
  | 0, j, _ => by simp
  | i + 1, j, h => by
    have h1 : ¬ (j + 1 ≥ n) := by omega
    simp only [List.replicate_succ, List.cons_append, listen, h1, if_false]
    rw [result_counter n unit s i (j + 1) (by omega)]
    congr 2; omega

theorem erase_timeouts (i : Nat) : erase (List.replicate i Read.timeout) = List.replicate i Read.timeout := by
  simp only [erase, List.filter_eq_self, List.mem_replicate]
  rintro a ⟨_, rfl⟩; rfl

/-- **(c), at any attempt counter** `i < n` (the state inside one `receiveRetry` call after `i`
    timeouts): exhausted iff the `i` timeouts already counted, followed by the erased script, show
    `n` consecutive timeouts before any error. -/
theorem exhausted_iff_at (n : Nat) (unit : Dur) (script : List Read) (i : Nat) (hi : i < n) :
    (listen n unit false script i).result = .retriesExhausted ↔
      ∃ pre post, List.replicate i Read.timeout ++ erase script = pre ++ List.replicate n Read.timeout ++ post ∧
        Read.err ∉ pre := by
  constructor
  · exact exhausted_run n unit script i hi
  · intro h
    have e : erase (List.replicate i Read.timeout ++ script) = List.replicate i Read.timeout ++ erase script := by
      rw [erase_append, erase_timeouts]
    rw [← e] at h
    have := (exhausted_iff n unit (by omega) _).mpr h
    rw [result_counter n unit script i 0 (by omega)] at this
    simpa using this

/-! ### the decidable form of (c) used by the oracle -/

theorem hasTimeoutRun_iff (n : Nat) : ∀ (l : List Read), hasTimeoutRun n l = true ↔ HasRun n l
  | [] => by
    simp only [hasTimeoutRun, beq_iff_eq, HasRun]
    constructor
    · intro h; exact ⟨[], [], by simp [h]⟩
    · rintro ⟨a, b, h⟩
      have := congrArg List.length h
      simp at this; omega
  | x :: r => by
    simp only [hasTimeoutRun, Bool.or_eq_true, List.isPrefixOf_iff_prefix, hasTimeoutRun_iff n r, HasRun]
    constructor
    · rintro (⟨t, ht⟩ | ⟨a, b, h⟩)
      · exact ⟨[], t, by simp [ht]⟩
      · exact ⟨x :: a, b, by simp [h]⟩
    · rintro ⟨a, b, h⟩
      cases a with
      | nil => exact Or.inl ⟨b, by simp [h]⟩
      | cons c a =>
        simp only [List.cons_append, List.cons.injEq] at h
        exact Or.inr ⟨a, b, h.2⟩

theorem beforeErr_not_mem : ∀ (l : List Read), Read.err ∉ beforeErr l
  | [] => by simp [beforeErr]
  | x :: r => by
    have ih := beforeErr_not_mem r
    unfold beforeErr at ih ⊢
    by_cases hx : x = Read.err
    · simp [hx]
    · simp only [List.takeWhile_cons, bne_iff_ne, ne_eq, hx, not_false_eq_true, if_true,
        List.mem_cons, not_or]
      exact ⟨fun h => hx h.symm, ih⟩

theorem beforeErr_split : ∀ (l : List Read),
    (Read.err ∉ l ∧ beforeErr l = l) ∨ ∃ post, l = beforeErr l ++ Read.err :: post
  | [] => Or.inl ⟨by simp, rfl⟩
  | x :: r => by
    by_cases hx : x = Read.err
    · exact Or.inr ⟨r, by simp [beforeErr, hx]⟩
    · have e : beforeErr (x :: r) = x :: beforeErr r := by
        simp [beforeErr, hx]
      rcases beforeErr_split r with ⟨h1, h2⟩ | ⟨post, h⟩
      · refine Or.inl ⟨?_, by rw [e, h2]⟩
        simp only [List.mem_cons, not_or]
        exact ⟨fun h => hx h.symm, h1⟩
      · exact Or.inr ⟨post, by rw [e, List.cons_append, ← h]⟩

/-- **(c), decidable form.**  The result of the listener on any script is the one the oracle
    computes from the erased script. -/
theorem result_eq_expected (n : Nat) (unit : Dur) (hn : 0 < n) (script : List Read) :
    (listen n unit false script 0).result = expectedResultN n script := by
  unfold expectedResultN
  have hne := beforeErr_not_mem (erase script)
  by_cases h1 : hasTimeoutRun n (beforeErr (erase script)) = true
  · simp only [h1, if_true]
    obtain ⟨a, b, hab⟩ := (hasTimeoutRun_iff n _).mp h1
    have ha : Read.err ∉ a := fun hm => hne (by rw [hab]; simp [hm])
    apply (exhausted_iff n unit hn script).mpr
    rcases beforeErr_split (erase script) with ⟨_, h2⟩ | ⟨post, h2⟩
    · exact ⟨a, b, by rw [← h2, hab], ha⟩
    · exact ⟨a, b ++ Read.err :: post, by rw [h2, hab]; simp, ha⟩
  · simp only [h1, Bool.false_eq_true, if_false]
    have hr : ¬ HasRun n (beforeErr (erase script)) := fun h => h1 ((hasTimeoutRun_iff n _).mpr h)
    rcases beforeErr_split (erase script) with ⟨h2, h3⟩ | ⟨post, h2⟩
    · have : (erase script).contains Read.err = false := by
        simpa using h2
      simp only [this, Bool.false_eq_true, if_false]
      rw [h3] at hr
      exact (running_iff n unit hn script).mpr ⟨h2, hr⟩
    · have : (erase script).contains Read.err = true := by
        rw [h2]; simp
      simp only [this, if_true]
      exact (readError_iff n unit hn script).mpr ⟨_, post, h2, hne, hr⟩

/-! ### `consumed`: the reads the run depends on -/

theorem consumed_le (n : Nat) : ∀ (s : List Read) (i : Nat), consumed n s i ≤ s.length
  | [], _ => by simp [consumed]
  | .err :: r, _ => by simp [consumed]
  | .timeout :: r, i => by
    have := consumed_le n r (i + 1)
    simp only [consumed, List.length_cons]
    split <;> omega
  | .msg k hop host :: r, i => by
    have h0 := consumed_le n r 0
    have hi := consumed_le n r i
    simp only [consumed, List.length_cons]
    split <;> omega

/-- the reads after the consumed prefix do not matter: the whole observation is that of the prefix -/
theorem take_consumed (n : Nat) (unit : Dur) : ∀ (s : List Read) (i : Nat),
    listen n unit false (s.take (consumed n s i)) i = listen n unit false s i
  | [], _ => by simp [consumed]
  | .err :: r, _ => by simp [consumed, listen]
  | .timeout :: r, i => by
    by_cases h : i + 1 ≥ n
    · simp [consumed, listen, h]
    · simp only [consumed, h, if_false, List.take_succ_cons, listen]
      rw [take_consumed n unit r (i + 1)]
  | .msg k hop host :: r, i => by
    by_cases hh : hop = 255
    · subst hh
      simp only [consumed, beq_self_eq_true, if_true, List.take_succ_cons, listen, ne_eq,
        not_true_eq_false, if_false]
      rw [take_consumed n unit r 0]
    · have hb : (hop == 255) = false := by simp [hh]
      simp only [consumed, hb, Bool.false_eq_true, if_false, List.take_succ_cons, listen, ne_eq, hh,
        not_false_eq_true, if_true]
      rw [take_consumed n unit r i]

/-- …and no shorter prefix decides the result: on every strictly shorter prefix the listener is
    still running.  With `take_consumed`: `consumed` is the length of the shortest prefix on which
    a result other than `running` is reached (the whole script if there is none). -/
theorem consumed_least (n : Nat) (unit : Dur) : ∀ (s : List Read) (i m : Nat), m < consumed n s i →
    (listen n unit false (s.take m) i).result = .running
  | [], _, _, h => by simp [consumed] at h
  | _ :: _, _, 0, _ => by simp [listen]
  | .err :: r, _, m + 1, h => by simp [consumed] at h
  | .timeout :: r, i, m + 1, h => by
    by_cases h1 : i + 1 ≥ n
    · simp [consumed, h1] at h
    · simp only [consumed, h1, if_false] at h
      simp only [List.take_succ_cons, listen, h1, if_false]
      exact consumed_least n unit r (i + 1) m (by omega)
  | .msg k hop host :: r, i, m + 1, h => by
    by_cases hh : hop = 255
    · subst hh
      simp only [consumed, beq_self_eq_true, if_true] at h
      simp only [List.take_succ_cons, listen, ne_eq, not_true_eq_false, if_false]
      exact consumed_least n unit r 0 m (by omega)
    · have hb : (hop == 255) = false := by simp [hh]
      simp only [consumed, hb, Bool.false_eq_true, if_false] at h
      simp only [List.take_succ_cons, listen, ne_eq, hh, not_false_eq_true, if_true, Bool.false_eq_true, if_false]
      exact consumed_least n unit r i m (by omega)

/-- a listener that is still running has consumed the whole script -/
theorem consumed_running (n : Nat) (unit : Dur) : ∀ (s : List Read) (i : Nat),
    (listen n unit false s i).result = .running → consumed n s i = s.length
  | [], _, _ => by simp [consumed]
  | .err :: r, _, h => by simp [listen] at h
  | .timeout :: r, i, h => by
    by_cases h1 : i + 1 ≥ n
    · simp [listen, h1] at h
    · simp only [listen, h1, if_false] at h
      simp only [consumed, h1, if_false, List.length_cons, consumed_running n unit r (i + 1) h]
  | .msg k hop host :: r, i, h => by
    by_cases hh : hop = 255
    · subst hh
      simp only [listen, ne_eq, not_true_eq_false, if_false] at h
      simp only [consumed, beq_self_eq_true, if_true, List.length_cons, consumed_running n unit r 0 h]
    · have hb : (hop == 255) = false := by simp [hh]
      simp only [listen, ne_eq, hh, not_false_eq_true, if_true, Bool.false_eq_true, if_false] at h
      simp only [consumed, hb, Bool.false_eq_true, if_false, List.length_cons, consumed_running n unit r i h]

/-! ### the oracle accepts the model's output, and nothing else -/

theorem gen_eq_spec :
    Gen.Listener.retries = Spec.C09.retries ∧ Gen.Listener.backoffUnit = Spec.C09.backoffUnit ∧
    Gen.Listener.invalidConsumesAttempt = false := by decide

/-- On EVERY script (messages, invalid messages, timeouts, errors in any mix and number) the
    model's output is the observation the oracle computes from the script. -/
theorem model_eq_expected (script : List Read) : listenSrc script = expected script := by
  unfold listenSrc expected consumedPrefix expectedResult
  rw [gen_eq_spec.1, gen_eq_spec.2.1, gen_eq_spec.2.2]
  have hd := delivered_eq retries backoffUnit script 0
  have hi := invalid_eq retries backoffUnit script 0
  have hw := waits_eq retries backoffUnit script 0
  have hr := result_eq_expected retries backoffUnit (by decide) script
  cases h : listen retries backoffUnit false script 0
  simp only [h] at hd hi hw hr
  simp only [ListenOut.mk.injEq]
  exact ⟨hd, hi, hw, hr⟩

/-- the oracle accepts exactly one observation per script -/
theorem holds_iff (script : List Read) (o : ListenOut) : holds script o = true ↔ o = expected script := by
  constructor
  · intro h
    simp only [holds, deliveredOk, invalidOk, resultOk, waitsOk, Bool.and_eq_true, beq_iff_eq] at h
    obtain ⟨⟨⟨⟨_, hd⟩, hi⟩, hr⟩, hw⟩ := h
    cases o
    simp only [expected, ListenOut.mk.injEq]
    exact ⟨hd, hi, hw, hr⟩
  · rintro rfl
    have h1 : noInvalidDelivered script (expected script) = true := by
      simp only [noInvalidDelivered, List.all_eq_true, List.contains_iff_mem, expected, consumedPrefix]
      intro d hd
      exact List.mem_of_mem_take (mem_validOf _ d hd)
    simp only [holds, h1, Bool.true_and]
    simp [deliveredOk, invalidOk, resultOk, waitsOk, expected]

/-- **The model satisfies the oracle on every script.** -/
theorem holds_model (script : List Read) : holds script (listenSrc script) = true :=
  (holds_iff script _).mpr (model_eq_expected script)

/-- …and whatever the oracle accepts is the model's output: an implementation that passes the
    oracle on a script behaved, on that script, exactly as the model. -/
theorem holds_unique (script : List Read) (o : ListenOut) (h : holds script o = true) :
    o = listenSrc script := by
  rw [model_eq_expected]; exact (holds_iff script o).mp h

/-- the oracle is at least as strong as the former one (scripts of messages only) -/
theorem holds_messagesOnly (script : List Read) (o : ListenOut) (h : holds script o = true) :
    holdsMessagesOnly script o = true := by
  rw [holds_unique script o h]; exact holdsMessagesOnly_model script

/-- the note of the driver names a clause iff the oracle rejects -/
theorem failedClause_iff (script : List Read) (o : ListenOut) :
    failedClause script o = "" ↔ holds script o = true := by
  unfold failedClause holds
  cases noInvalidDelivered script o <;> cases deliveredOk script o <;> cases invalidOk script o <;>
    cases resultOk script o <;> cases waitsOk script o <;> simp

/-! ### the same for the listener as it is in the source

  `listenSrc` runs with the regenerated constants; `gen_eq_spec` fails to build on a tree where a
  message with a bad hop limit consumes a receive attempt, or with other retry constants. -/

theorem listenSrc_eq (script : List Read) : listenSrc script = listen retries backoffUnit false script 0 := by
  unfold listenSrc; rw [gen_eq_spec.1, gen_eq_spec.2.1, gen_eq_spec.2.2]

/-- **Erasure, for the source's listener.** -/
theorem src_erasure (script : List Read) :
    listenSrc script = { listenSrc (erase script) with invalid := invalidOf (consumedPrefix script) } := by
  rw [listenSrc_eq, listenSrc_eq]; exact erasure retries backoffUnit script 0

/-- **(a)** on any script, everything the source's listener delivers is a message of the script
    with hop limit 255 -/
theorem src_invalid_never_delivered (script : List Read) (d : Nat × Nat)
    (h : d ∈ (listenSrc script).delivered) : Read.msg d.1 255 d.2 ∈ script := by
  rw [listenSrc_eq] at h; exact invalid_never_delivered _ _ script 0 d h

/-- **(b)** any number of invalid messages inserted anywhere into any script: same deliveries,
    same back-offs, same result -/
theorem src_insert_invalid_inert (s s' : List Read) (h : InsertInvalid s s') :
    (listenSrc s').delivered = (listenSrc s).delivered ∧ (listenSrc s').waits = (listenSrc s).waits ∧
    (listenSrc s').result = (listenSrc s).result := by
  rw [listenSrc_eq, listenSrc_eq]; exact insert_invalid_inert _ _ s s' 0 h

/-- **(c)** the source's listener gives up iff the script without its invalid messages has five
    consecutive timeouts before any error.  The counter belongs to one `receiveRetry` call: a
    delivered message starts a new count, so "consecutive" means not separated by a valid message. -/
theorem src_exhausted_iff (script : List Read) :
    (listenSrc script).result = .retriesExhausted ↔
      ∃ pre post, erase script = pre ++ List.replicate 5 Read.timeout ++ post ∧ Read.err ∉ pre := by
  rw [listenSrc_eq]; exact exhausted_iff retries backoffUnit (by decide) script

/-- **No number or pattern of invalid messages, interleaved with timeouts or not, makes the
    listener fail**: if the script without its invalid messages has neither an error nor five
    consecutive timeouts, the listener is still running at its end, has consumed all of it and
    has delivered every valid message, in order — whatever invalid messages the script holds. -/
theorem src_never_fails (script : List Read)
    (he : Read.err ∉ erase script) (hr : ¬ HasRun 5 (erase script)) :
    (listenSrc script).result = .running ∧ (listenSrc script).delivered = validOf script ∧
    (listenSrc script).invalid = invalidOf script := by
  have h : (listen retries backoffUnit false script 0).result = .running :=
    (running_iff retries backoffUnit (by decide) script).mpr ⟨he, hr⟩
  have hc := consumed_running retries backoffUnit script 0 h
  rw [listenSrc_eq]
  refine ⟨h, ?_, ?_⟩
  · rw [delivered_eq, hc, List.take_length]
  · rw [invalid_eq, hc, List.take_length]

/-! ### the audit's two mis-judged observations are rejected -/

/-- a timeout, an invalid message, a valid one: "retries exhausted" was accepted by the former
    oracle (it looked at scripts of messages only); it is rejected -/
example : holdsMessagesOnly [.timeout, .msg 0 64 2, .msg 0 255 1] { result := .retriesExhausted } = true ∧
    holds [.timeout, .msg 0 64 2, .msg 0 255 1] { result := .retriesExhausted } = false := by decide

/-- the same script with the invalid message delivered: accepted before, rejected now (by the
    first clause) -/
example :
    holdsMessagesOnly [.timeout, .msg 0 64 2, .msg 0 255 1]
      { delivered := [(0, 2), (0, 1)], waits := [0], result := .running } = true ∧
    holds [.timeout, .msg 0 64 2, .msg 0 255 1]
      { delivered := [(0, 2), (0, 1)], waits := [0], result := .running } = false ∧
    noInvalidDelivered [.timeout, .msg 0 64 2, .msg 0 255 1]
      { delivered := [(0, 2), (0, 1)], waits := [0], result := .running } = false := by decide

/-- the one observation accepted on that script; each clause rejects on its own -/
example :
    holds [.timeout, .msg 0 64 2, .msg 0 255 1]
      { delivered := [(0, 1)], invalid := [0], waits := [0], result := .running } = true ∧
    deliveredOk [.timeout, .msg 0 64 2, .msg 0 255 1]
      { delivered := [], invalid := [0], waits := [0], result := .running } = false ∧
    invalidOk [.timeout, .msg 0 64 2, .msg 0 255 1]
      { delivered := [(0, 1)], invalid := [], waits := [0], result := .running } = false ∧
    resultOk [.timeout, .msg 0 64 2, .msg 0 255 1]
      { delivered := [(0, 1)], invalid := [0], waits := [0], result := .readError } = false ∧
    waitsOk [.timeout, .msg 0 64 2, .msg 0 255 1]
      { delivered := [(0, 1)], invalid := [0], waits := [50 * ms], result := .running } = false := by decide

/-! ### non-vacuity: one mixed script

  invalid, timeout, invalid, timeout, VALID, timeout, invalid, timeout, timeout, invalid, timeout,
  timeout (the fifth in a row: invalid messages in between do not restart the count, the valid
  message did), then a valid message and an error that are never read. -/

def mixed : List Read :=
  [.msg 0 64 2, .timeout, .msg 1 7 3, .timeout, .msg 0 255 1, .timeout, .msg 2 0 0, .timeout, .timeout,
   .msg 3 1 4, .timeout, .timeout, .msg 0 255 9, .err]

/-- `erasure`, `erased_counts_nothing`, `delivered_eq`, `invalid_eq`, `waits_eq`, `take_consumed`,
    `consumed_least` on the mixed script -/
example :
    erase mixed = [.timeout, .timeout, .msg 0 255 1, .timeout, .timeout, .timeout, .timeout, .timeout,
                   .msg 0 255 9, .err] ∧
    consumed 5 mixed 0 = 12 ∧
    listenSrc mixed = { delivered := [(0, 1)], invalid := [0, 1, 2, 3],
                        waits := [0, 50 * ms, 0, 50 * ms, 100 * ms, 150 * ms, 200 * ms],
                        result := .retriesExhausted } ∧
    listenSrc (erase mixed) = { delivered := [(0, 1)], invalid := [],
                                waits := [0, 50 * ms, 0, 50 * ms, 100 * ms, 150 * ms, 200 * ms],
                                result := .retriesExhausted } ∧
    invalidOf (mixed.take 12) = [0, 1, 2, 3] ∧ invalidOf mixed = [0, 1, 2, 3] ∧
    validOf (mixed.take 12) = [(0, 1)] ∧ validOf mixed = [(0, 1), (0, 9)] ∧
    listenSrc (mixed.take 12) = listenSrc mixed ∧ (listenSrc (mixed.take 11)).result = .running ∧
    holds mixed (listenSrc mixed) = true := by decide

/-- (c): the witnesses of `src_exhausted_iff` on the mixed script; with a valid message inside the
    run of five there is no exhaustion but the read error (`readError_iff`), and without the
    error the listener is still running (`running_iff`, `src_never_fails`) -/
example :
    (erase mixed = [.timeout, .timeout, .msg 0 255 1] ++ List.replicate 5 Read.timeout ++ [.msg 0 255 9, .err] ∧
      Read.err ∉ [Read.timeout, .timeout, .msg 0 255 1]) ∧
    (listenSrc [.timeout, .timeout, .msg 1 3 3, .timeout, .timeout, .msg 0 255 1, .timeout, .msg 1 3 3, .err,
                .timeout, .timeout, .timeout, .timeout, .timeout]).result = .readError ∧
    hasTimeoutRun 5 [.timeout, .timeout, .timeout, .timeout, .msg 0 255 1, .timeout] = false ∧
    (listenSrc [.timeout, .timeout, .msg 1 3 3, .timeout, .timeout, .msg 0 255 1, .timeout, .msg 1 3 3]).result
      = .running ∧
    (listenSrc [.timeout, .timeout, .msg 1 3 3, .timeout, .timeout, .msg 0 255 1, .timeout, .msg 1 3 3]).delivered
      = [(0, 1)] := by decide

/-- (b): invalid messages inserted at the head, between timeouts and before the error of a script
    (`InsertInvalid`, `src_insert_invalid_inert`); with `invalidConsumesAttempt = true` — the
    defect F-6 — the same insertion turns a surviving listener into a failed one -/
example :
    InsertInvalid [.timeout, .timeout, .timeout, .msg 0 255 1, .err]
      [.msg 0 1 1, .timeout, .msg 0 2 2, .msg 0 3 3, .timeout, .timeout, .msg 0 255 1, .msg 1 4 4, .err] ∧
    (listenSrc [.msg 0 1 1, .timeout, .msg 0 2 2, .msg 0 3 3, .timeout, .timeout, .msg 0 255 1, .msg 1 4 4, .err]).result
      = .readError ∧
    (listenSrc [.msg 0 1 1, .timeout, .msg 0 2 2, .msg 0 3 3, .timeout, .timeout, .msg 0 255 1, .msg 1 4 4, .err]).delivered
      = [(0, 1)] ∧
    (listen 5 (50 * ms) true
      [.msg 0 1 1, .timeout, .msg 0 2 2, .msg 0 3 3, .timeout, .timeout, .msg 0 255 1, .msg 1 4 4, .err] 0).result
      = .retriesExhausted ∧
    (listen 5 (50 * ms) true
      [.msg 0 1 1, .timeout, .msg 0 2 2, .msg 0 3 3, .timeout, .timeout, .msg 0 255 1, .msg 1 4 4, .err] 0).delivered
      = [] := by
  refine ⟨?_, by decide, by decide, by decide, by decide⟩
  exact .ins _ rfl (.keep _ (.ins _ rfl (.ins _ rfl (.keep _ (.keep _ (.keep _ (.ins _ rfl (.keep _ .nil))))))))

/-- Invalid messages are inert on an advertising interface: a message with a bad hop limit, or
    of a type other than router solicitation, never produces an RA request; only router
    advertisements (type 1) reach the consistency check. -/
theorem invalid_inert (e : AdvEvent) (h : e.hop ≠ 255 ∨ e.kind ≥ 2) : requestOf e = none := by
  unfold requestOf classify
  rcases h with h | h
  · simp [h]
  · by_cases hh : e.hop = 255
    · simp only [hh, ne_eq, not_true_eq_false, if_false]
      match hk : e.kind with
      | 0 => omega
      | 1 => omega
      | n+2 => simp
    · simp [hh]

/-- Receive timeouts are retried with increasing back-off: `k < 5` consecutive timeouts are
    survived with waits 0, 50, …, (k−1)·50 ms; the 5th exhausts the retries (C10). -/
theorem timeouts_retried :
    (listenSrc [.timeout, .timeout, .timeout, .timeout, .msg 0 255 1]).waits = [0, 50 * ms, 100 * ms, 150 * ms] ∧
    (listenSrc [.timeout, .timeout, .timeout, .timeout, .msg 0 255 1]).result = .running ∧
    (listenSrc [.timeout, .timeout, .timeout, .timeout, .timeout]).result = .retriesExhausted ∧
    (listenSrc [.timeout, .timeout, .timeout, .timeout, .timeout]).waits = [0, 50 * ms, 100 * ms, 150 * ms, 200 * ms] := by
  decide

/-- for any number `n` of consecutive timeouts: survived iff `n < retries` -/
theorem timeouts_general (retries : Nat) (unit : Dur) (ic : Bool) :
    ∀ (n i : Nat), (listen retries unit ic (List.replicate n .timeout) i).result =
      if i + n ≥ retries ∧ n > 0 then .retriesExhausted else .running
  | 0, i => by simp [listen]
  | n+1, i => by
    simp only [List.replicate_succ, listen]
    by_cases h : i + 1 ≥ retries
    · simp only [h, if_true]
      have : i + (n + 1) ≥ retries ∧ n + 1 > 0 := ⟨by omega, by omega⟩
      simp [this]
    · simp only [h, if_false]
      rw [timeouts_general retries unit ic n (i + 1)]
      by_cases h2 : i + 1 + n ≥ retries ∧ n > 0
      · have : i + (n + 1) ≥ retries ∧ n + 1 > 0 := ⟨by omega, by omega⟩
        simp [h2, this]
      · have h3 : ¬ (i + (n + 1) ≥ retries ∧ n + 1 > 0) := by
          intro ⟨a, _⟩
          by_cases hn : n = 0
          · subst hn; omega
          · exact h2 ⟨by omega, by omega⟩
        simp only [h2, h3, if_false]

/-- Non-vacuity, and the repaired defect F-6: seven messages with a bad hop limit followed by a
    valid solicitation — the solicitation is delivered (with `invalidConsumesAttempt = true`
    the listener died after the fifth). -/
example :
    let script := List.replicate 7 (Read.msg 0 64 2) ++ [Read.msg 0 255 1]
    (listenSrc script).delivered = [(0, 1)] ∧ (listenSrc script).result = .running ∧
    (listen 5 (50 * ms) true script 0).result = .retriesExhausted ∧
    (listen 5 (50 * ms) true script 0).delivered = [] := by
  decide


end Corerad.Props.C09
