/-
  C09 — invalid NDP messages are ignored and can never disrupt service.
  Theorems over every script of messages (any hop limits, any types, any run lengths).
-/
import Corerad.Spec.C09
import Corerad.Model.Advertiser
import Corerad.Gen.Dialer

namespace Corerad.Props.C09

open Corerad Corerad.Model

/-- constants of `receiveRetry` as found in the source, and: a message with a bad hop limit
    does NOT consume a receive attempt (this lemma fails to build on a tree where it does). -/
theorem gen_constants :
    Gen.Listener.retries = 5 ∧ Gen.Listener.backoffUnit = 50 * ms ∧
    Gen.Listener.invalidConsumesAttempt = false := by decide

/-- The socket the listener reads from is set up as the validation assumes (calls of `dialNDP` in
    source order, regenerated): link-local listener, an ICMPv6 filter that blocks everything but
    router solicitations and router advertisements, the hop limit delivered with every message
    (the 255 test reads it), membership of the all-routers group (solicitations are sent there).
    The kernel's behaviour behind these calls is outside the model. -/
theorem gen_socket_setup :
    Gen.Dialer.dialNDPCalls =
      ["ndp.Listen(ifi, ndp.LinkLocal)", "f.SetAll(true)", "f.Accept(ipv6.ICMPTypeRouterSolicitation)",
       "f.Accept(ipv6.ICMPTypeRouterAdvertisement)", "c.SetICMPFilter(&f)",
       "c.SetControlMessage(ipv6.FlagHopLimit, true)", "c.JoinGroup(netip.IPv6LinkLocalAllRouters())"] := by
  decide

/-- generalised over the attempt counter: on a script of messages the listener delivers the
    valid ones in order, counts the invalid ones, requests no back-off and keeps running -/
theorem messages_only (retries : Nat) (unit : Dur) :
    ∀ (script : List Read) (i : Nat), script.all Spec.C09.isMsg = true →
      listen retries unit false script i =
        { delivered := Spec.C09.validOf script, invalid := Spec.C09.invalidOf script, waits := [], result := .running }
  | [], _, _ => rfl
  | .err :: _, _, h => by simp [Spec.C09.isMsg] at h
  | .timeout :: _, _, h => by simp [Spec.C09.isMsg] at h
  | .msg k hop host :: rest, i, h => by
    have hr : rest.all Spec.C09.isMsg = true := by
      simp only [List.all_cons, Bool.and_eq_true] at h; exact h.2
    by_cases hh : hop = 255
    · subst hh
      simp [listen, Spec.C09.validOf, Spec.C09.invalidOf, messages_only retries unit rest 0 hr]
    · have hb : (hop == 255) = false := by simp [hh]
      simp [listen, hh, hb, Spec.C09.validOf, Spec.C09.invalidOf, messages_only retries unit rest i hr]

/-- **No number or pattern of invalid messages stops the listener**: on any script of messages
    it never returns an error… -/
theorem never_fails (script : List Read) (h : script.all Spec.C09.isMsg = true) :
    (listenSrc script).result = .running := by
  unfold listenSrc
  rw [gen_constants.2.2, messages_only _ _ script 0 h]

/-- …every valid message is delivered, in order… -/
theorem valid_all_delivered (script : List Read) (h : script.all Spec.C09.isMsg = true) :
    (listenSrc script).delivered = Spec.C09.validOf script := by
  unfold listenSrc
  rw [gen_constants.2.2, messages_only _ _ script 0 h]

/-- …and every invalid one is counted, once. -/
theorem invalid_counted (script : List Read) (h : script.all Spec.C09.isMsg = true) :
    (listenSrc script).invalid = Spec.C09.invalidOf script := by
  unfold listenSrc
  rw [gen_constants.2.2, messages_only _ _ script 0 h]

theorem holds_model (script : List Read) : Spec.C09.holdsMessagesOnly script (listenSrc script) = true := by
  unfold Spec.C09.holdsMessagesOnly
  by_cases h : script.all Spec.C09.isMsg = true
  · unfold listenSrc
    rw [gen_constants.2.2, messages_only _ _ script 0 h]
    simp [h]
  · simp [h]

/-- Invalid messages are inert on an advertising interface: a message with a bad hop limit, or
    of a type other than router solicitation, never produces an RA request; only router
    advertisements (type 1) reach the consistency check. -/
theorem invalid_inert (e : AdvEvent) (h : e.hop ≠ 255 ∨ e.kind ≥ 2) : requestOf e = none := by
  unfold requestOf classify
  rcases h with h | h
  · simp [h]
  · by_cases hh : e.hop = 255
    · simp only [hh, ne_eq, not_true_eq_false, if_false]
      match hk : e.kind with
      | 0 => omega
      | 1 => omega
      | n+2 => simp
    · simp [hh]

/-- Receive timeouts are retried with increasing back-off: `k < 5` consecutive timeouts are
    survived with waits 0, 50, …, (k−1)·50 ms; the 5th exhausts the retries (C10). -/
theorem timeouts_retried :
    (listenSrc [.timeout, .timeout, .timeout, .timeout, .msg 0 255 1]).waits = [0, 50 * ms, 100 * ms, 150 * ms] ∧
    (listenSrc [.timeout, .timeout, .timeout, .timeout, .msg 0 255 1]).result = .running ∧
    (listenSrc [.timeout, .timeout, .timeout, .timeout, .timeout]).result = .retriesExhausted ∧
    (listenSrc [.timeout, .timeout, .timeout, .timeout, .timeout]).waits = [0, 50 * ms, 100 * ms, 150 * ms, 200 * ms] := by
  decide

/-- for any number `n` of consecutive timeouts: survived iff `n < retries` -/
theorem timeouts_general (retries : Nat) (unit : Dur) (ic : Bool) :
    ∀ (n i : Nat), (listen retries unit ic (List.replicate n .timeout) i).result =
      if i + n ≥ retries ∧ n > 0 then .retriesExhausted else .running
  | 0, i => by simp [listen]
  | n+1, i => by
    simp only [List.replicate_succ, listen]
    by_cases h : i + 1 ≥ retries
    · simp only [h, if_true]
      have : i + (n + 1) ≥ retries ∧ n + 1 > 0 := ⟨by omega, by omega⟩
      simp [this]
    · simp only [h, if_false]
      rw [timeouts_general retries unit ic n (i + 1)]
      by_cases h2 : i + 1 + n ≥ retries ∧ n > 0
      · have : i + (n + 1) ≥ retries ∧ n + 1 > 0 := ⟨by omega, by omega⟩
        simp [h2, this]
      · have h3 : ¬ (i + (n + 1) ≥ retries ∧ n + 1 > 0) := by
          intro ⟨a, _⟩
          by_cases hn : n = 0
          · subst hn; omega
          · exact h2 ⟨by omega, by omega⟩
        simp only [h2, h3, if_false]

/-- Non-vacuity, and the repaired defect F-6: seven messages with a bad hop limit followed by a
    valid solicitation — the solicitation is delivered (with `invalidConsumesAttempt = true`
    the listener died after the fifth). -/
example :
    let script := List.replicate 7 (Read.msg 0 64 2) ++ [Read.msg 0 255 1]
    (listenSrc script).delivered = [(0, 1)] ∧ (listenSrc script).result = .running ∧
    (listen 5 (50 * ms) true script 0).result = .retriesExhausted ∧
    (listen 5 (50 * ms) true script 0).delivered = [] := by
  decide

end Corerad.Props.C09
