/-
  C19 — link-state subscribers get exactly what they asked for; the watcher never blocks.

  All trace theorems quantify over every history of `subscribe | notify | drain | endWatch`
  operations (any length, any number of subscribers, any change sets) and are proved by
  induction on the history.  Vocabulary (`offered`, `receivedBy`, `bufAt`, `closesOf`, `nsubs`)
  is defined in Lemmas/Watcher.lean; the model in Model/Watcher.lean; the oracle the check
  evaluates on the implementation's observations in Spec/C19.lean.

  Residue (not a theorem): "subscribing concurrently with notification is safe" is data-race
  freedom under `sync.RWMutex` — Go memory model, outside the model.
-/
import Corerad.Spec.C19
import Corerad.Lemmas.Watcher

namespace Corerad.Props.C19

open Corerad Corerad.Model.Watcher

/-! ### regenerated facts: the literals of the statements are the source's -/

theorem gen_subscriberBuf : Gen.Netstate.subscriberBuf = 8 := by decide

/-- `1 << iota` for the seven RFC 2863 states, in declaration order -/
theorem gen_bits :
    [Gen.Netstate.linkUp, Gen.Netstate.linkDown, Gen.Netstate.linkTesting, Gen.Netstate.linkUnknown,
     Gen.Netstate.linkDormant, Gen.Netstate.linkNotPresent, Gen.Netstate.linkLowerLayerDown]
      = [1, 2, 4, 8, 16, 32, 64] := by decide

/-- `LinkAny` is 127, the union of the seven bits -/
theorem gen_linkAny :
    Gen.Netstate.linkAny = 127 ∧
    Gen.Netstate.linkAny =
      (Gen.Netstate.linkUp ||| Gen.Netstate.linkDown ||| Gen.Netstate.linkTesting |||
       Gen.Netstate.linkUnknown ||| Gen.Netstate.linkDormant ||| Gen.Netstate.linkNotPresent |||
       Gen.Netstate.linkLowerLayerDown) := by decide

/-- every channel send in `notify` is a case of a `select` that has a `default` clause -/
theorem gen_notifySendHasDefault : Gen.Netstate.notifySendHasDefault = true := by decide

/-- the channels are closed in `Watch`'s deferred func, under `w.mu.Lock` -/
theorem gen_closeUnderLockInDefer : Gen.Netstate.closeUnderLockInDefer = true := by decide

/-- `notify` takes the Watcher's lock exactly once: no recursive read lock, which would deadlock
    against a concurrent `Subscribe` (the only part of "subscribing concurrently with notification
    is safe" that is visible in the source text; the rest is the Go memory model) -/
theorem gen_notify_no_nested_lock : Gen.Netstate.notifyNestedLock = false := by decide

/-- the condition under which `notify` skips a subscription bucket -/
theorem gen_notifyMaskTest : Gen.Netstate.notifyMaskTest = "k & change == 0" := by decide

/-! ### one notification step -/

/-- One change `c` on interface `i` is appended to subscriber `s`'s channel iff `i` is the
    subscriber's interface, its mask intersects `c`, and fewer than 8 events are pending. -/
theorem delivered_iff (i c : Nat) (s : Sub) :
    (deliver i c s).buf = s.buf ++ [c] ↔ s.iface = i ∧ s.mask &&& c ≠ 0 ∧ s.buf.length < 8 := by
  by_cases hw : Spec.C19.wants s.iface s.mask i c = true
  · obtain ⟨h1, h2⟩ := (wants_iff _ _ _ _).mp hw
    rw [deliver_of_wants hw]
    by_cases hlt : s.buf.length < 8
    · simp [hlt, h1, h2]
    · simp [hlt]
  · have hw' : Spec.C19.wants s.iface s.mask i c = false := by simpa using hw
    rw [deliver_of_not_wants hw']
    have : ¬ (s.iface = i ∧ s.mask &&& c ≠ 0) := fun h => hw ((wants_iff _ _ _ _).mpr h)
    constructor
    · intro h; simp at h
    · rintro ⟨h1, h2, _⟩; exact absurd ⟨h1, h2⟩ this

/-- …and otherwise the subscriber is left exactly as it was (nothing is queued elsewhere);
    interface, mask and closed-ness are never touched by a notification. -/
theorem not_delivered (i c : Nat) (s : Sub)
    (h : ¬ (s.iface = i ∧ s.mask &&& c ≠ 0 ∧ s.buf.length < 8)) : deliver i c s = s := by
  by_cases hw : Spec.C19.wants s.iface s.mask i c = true
  · obtain ⟨h1, h2⟩ := (wants_iff _ _ _ _).mp hw
    rw [deliver_of_wants hw]
    have : ¬ s.buf.length < 8 := fun h3 => h ⟨h1, h2, h3⟩
    simp [this]
  · exact deliver_of_not_wants (by simpa using hw)

/-- events beyond the 8-slot buffer are dropped, not queued -/
theorem overflow_dropped (i c : Nat) (s : Sub) (h : s.buf.length = 8) : deliver i c s = s :=
  not_delivered i c s (by omega)

/-- The state-level step is the per-subscriber step applied to every registered subscriber. -/
theorem notifyChange_pointwise (i c : Nat) (st : State) (j : Nat) :
    (notifyChange i st c)[j]? = st[j]?.map (deliver i c) := by
  unfold notifyChange; exact List.getElem?_map

/-! ### buffers never exceed 8 -/

/-- In every reachable state (after any history) every subscriber holds at most 8 events. -/
theorem buffer_bounded (ops : List Op) : ∀ s ∈ (run [] ops).1, s.buf.length ≤ 8 :=
  run_bounded [] ops (fun _ h => by simp at h)

/-- The bound is an invariant of every operation from any bounded state. -/
theorem buffer_bounded_step (st : State) (op : Op) (h : ∀ s ∈ st, s.buf.length ≤ 8) :
    ∀ s ∈ (step st op).1, s.buf.length ≤ 8 :=
  step_bounded st op h

/-! ### order -/

/-- What a subscriber registered at any point (id `j = st.length`) receives over the rest of
    the history — all its drains, then whatever is still buffered — is a subsequence of the
    changes on its interface that intersect its mask, in the order they occurred. -/
theorem order_preserved (st : State) (i m : Nat) (ops : List Op) :
    let r := run (subscribe st i m) ops
    (receivedBy st.length ops r.2 ++ bufAt st.length r.1).Sublist (offered i m ops) := by
  intro r
  have h0 : (subscribe st i m)[st.length]? = some { iface := i, mask := m } := by
    simp [subscribe]
  obtain ⟨s', hs', _, _, l, hl, heq⟩ := sub_track st.length ops _ _ h0
  have : bufAt st.length r.1 = s'.buf := by simp [bufAt, r, hs']
  rw [this, heq]
  simpa using hl

/-- …and it is exactly those changes when the subscriber never had 8 events pending (after
    every prefix of the history its buffer held fewer than 8). -/
theorem order_exact (st : State) (i m : Nat) (ops : List Op)
    (hroom : ∀ pre post, ops = pre ++ post →
      (bufAt st.length (run (subscribe st i m) pre).1).length < 8) :
    let r := run (subscribe st i m) ops
    receivedBy st.length ops r.2 ++ bufAt st.length r.1 = offered i m ops := by
  intro r
  have h0 : (subscribe st i m)[st.length]? = some { iface := i, mask := m } := by
    simp [subscribe]
  have := sub_track_exact st.length ops _ _ h0 hroom
  simpa using this

/-- In particular: up to 8 matching changes in total are all received, in order, however
    rarely (or never) the subscriber reads. -/
theorem order_exact_of_le_8 (st : State) (i m : Nat) (ops : List Op)
    (h : (offered i m ops).length ≤ 8) :
    let r := run (subscribe st i m) ops
    receivedBy st.length ops r.2 ++ bufAt st.length r.1 = offered i m ops := by
  intro r
  have h0 : (subscribe st i m)[st.length]? = some { iface := i, mask := m } := by
    simp [subscribe]
  have := sub_track_all st.length ops _ _ h0 (by simpa using h)
  simpa using this

/-! ### notification never waits -/

/-- Frame conditions of `notify`: the state it returns has the same subscribers with the same
    interface, mask and closed-ness, and each buffer is only extended at the end.  (That the real
    `notify` never WAITS is not a theorem — every Lean function is total: it rests on the
    regenerated fact `gen_notifySendHasDefault`, the only channel operation being a send in a
    `select` with `default`, and on the virtual-time watchdog of the harness.) -/
theorem notify_frame (st : State) (cs : List (Nat × List Nat)) :
    ∃ st', notify st cs = st' ∧ st'.length = st.length ∧
      ∀ (j : Nat) (s : Sub), st[j]? = some s → ∃ s' : Sub, st'[j]? = some s' ∧
        s'.iface = s.iface ∧ s'.mask = s.mask ∧ s'.closes = s.closes ∧ s.buf <+: s'.buf := by
  refine ⟨_, rfl, by simp [notify_eq_map], ?_⟩
  intro j s h
  refine ⟨deliverSet s cs, by simp [notify_eq_map, h], by simp, by simp, by simp, ?_⟩
  obtain ⟨l, _, hb⟩ := deliverSet_sublist s cs
  exact ⟨l, hb.symm⟩

/-! ### closing -/

/-- Before the watch ends no channel is closed. -/
theorem not_closed_before (ops : List Op) (h : Op.endWatch ∉ ops) :
    closesOf (run [] ops).1 = List.replicate (nsubs ops) 0 := by
  simpa [closesOf] using closesOf_run_of_no_end [] ops h

/-- After the end of the watch every subscriber registered before it has been closed exactly
    once, and the subscribers registered afterwards not at all — whatever else happens in the
    history before (`pre`) and after (`post`). -/
theorem closed_exactly_once (pre post : List Op) (hpre : Op.endWatch ∉ pre) (hpost : Op.endWatch ∉ post) :
    closesOf (run [] (pre ++ Op.endWatch :: post)).1 =
      List.replicate (nsubs pre) 1 ++ List.replicate (nsubs post) 0 := by
  rw [run_append]
  simp only
  rw [run_cons]
  simp only
  rw [closesOf_run_of_no_end _ post hpost, closesOf_step]
  simp only
  rw [not_closed_before pre hpre, List.map_replicate]

/-- `Watch` is single-use: on one Watcher the first call passes the guard and every later call
    panics — so the deferred close loop runs at most once and a history has at most one
    `endWatch` (the premise of `closed_exactly_once`). -/
theorem single_use (n : Nat) : watchCalls false (n + 1) = false :: List.replicate n true := by
  have h : ∀ n, watchCalls true n = List.replicate n true := by
    intro n
    induction n with
    | zero => rfl
    | succ n ih => simp [watchCalls, watchGuard, ih, List.replicate_succ]
  simp [watchCalls, watchGuard, h]

/-- Closing keeps what was buffered readable: the end of the watch changes no buffer. -/
theorem close_keeps_buffers (st : State) : (endWatch st).map (·.buf) = st.map (·.buf) := by
  simp [endWatch, List.map_map, Function.comp_def]

/-- A well-formed history (no `notify` or second `endWatch` after the end of the watch) is
    either without `endWatch` or of the shape `pre ++ endWatch :: post` used above. -/
theorem wf_shape (ops : List Op) (h : wf false ops = true) :
    Op.endWatch ∉ ops ∨
      ∃ pre post, ops = pre ++ Op.endWatch :: post ∧ Op.endWatch ∉ pre ∧ Op.endWatch ∉ post := by
  have after : ∀ ops, wf true ops = true → Op.endWatch ∉ ops := by
    intro ops
    induction ops with
    | nil => simp
    | cons op ops ih =>
      intro h
      cases op <;> simp_all [wf]
  induction ops with
  | nil => left; simp
  | cons op ops ih =>
    cases op with
    | endWatch =>
      right
      exact ⟨[], ops, rfl, by simp, after ops (by simpa [wf] using h)⟩
    | subscribe i m =>
      rcases ih (by simpa [wf] using h) with h' | ⟨pre, post, e, h1, h2⟩
      · left; simpa using h'
      · right; exact ⟨_ :: pre, post, by rw [e]; rfl, by simpa using h1, h2⟩
    | notify cs =>
      rcases ih (by simpa [wf] using h) with h' | ⟨pre, post, e, h1, h2⟩
      · left; simpa using h'
      · right; exact ⟨_ :: pre, post, by rw [e]; rfl, by simpa using h1, h2⟩
    | drain id n =>
      rcases ih (by simpa [wf] using h) with h' | ⟨pre, post, e, h1, h2⟩
      · left; simpa using h'
      · right; exact ⟨_ :: pre, post, by rw [e]; rfl, by simpa using h1, h2⟩

/-- Hence on every well-formed history no channel is ever closed twice. -/
theorem never_closed_twice (ops : List Op) (h : wf false ops = true) :
    ∀ k ∈ closesOf (run [] ops).1, k ≤ 1 := by
  rcases wf_shape ops h with h' | ⟨pre, post, rfl, h1, h2⟩
  · rw [not_closed_before ops h']
    intro k hk; rw [List.mem_replicate] at hk; omega
  · rw [closed_exactly_once pre post h1 h2]
    intro k hk
    rcases List.mem_append.mp hk with hk | hk <;> rw [List.mem_replicate] at hk <;> omega

/-! ### the mask table -/

/-- For every mask (the 127 non-empty subsets of the seven link states, and the empty one) and
    every single change: the mask test of `notify` lets the change through iff the change's bit
    is a member of the mask. -/
theorem mask_table :
    ∀ m : Fin 128, ∀ k : Fin 7,
      (m.val &&& [Gen.Netstate.linkUp, Gen.Netstate.linkDown, Gen.Netstate.linkTesting,
                  Gen.Netstate.linkUnknown, Gen.Netstate.linkDormant, Gen.Netstate.linkNotPresent,
                  Gen.Netstate.linkLowerLayerDown][k.val]! ≠ 0) ↔ m.val.testBit k.val = true := by
  decide

/-! ### the model meets the oracle -/

private theorem holdsFrom_run (ops : List Op) : ∀ (st : State) (e : Bool), wf e ops = true →
    Spec.C19.holdsFrom st.length ops (run st ops).2 ((finals (run st ops).1).drop st.length) = true := by
  induction ops with
  | nil =>
    intro st e _
    simp [run, Spec.C19.holdsFrom, finals]
  | cons op ops ih =>
    intro st e hwf
    rw [run_cons]
    cases op with
    | subscribe i m =>
      have hwf' : wf e ops = true := by simpa [wf] using hwf
      have h0 : (subscribe st i m)[st.length]? = some { iface := i, mask := m } := by
        simp [subscribe]
      obtain ⟨s', hs', hok, hp, hc, hacc⟩ :=
        sub_inv st.length i m ops (subscribe st i m) { iface := i, mask := m } {} e h0 rfl rfl
          ⟨rfl, rfl, rfl, rfl⟩ hwf' (fun _ => rfl)
      have hlen : st.length < (finals (run (subscribe st i m) ops).1).length := by
        obtain ⟨hlt, _⟩ := List.getElem?_eq_some_iff.mp hs'
        simpa [finals] using hlt
      have hget : (finals (run (subscribe st i m) ops).1)[st.length] =
          { got := s'.buf, closed := s'.closed } := by
        obtain ⟨hlt, hg⟩ := List.getElem?_eq_some_iff.mp hs'
        simp [finals, hg]
      have ih' := ih (subscribe st i m) e hwf'
      have hl1 : (subscribe st i m).length = st.length + 1 := by simp [subscribe]
      rw [hl1] at ih'
      simp only [step, List.nil_append]
      rw [List.drop_eq_getElem_cons hlen, hget]
      simp only [Spec.C19.holdsFrom, Bool.and_eq_true]
      refine ⟨?_, ih'⟩
      unfold Spec.C19.holdsSub
      simp [hok, hp, hc, hacc]
    | notify cs =>
      have hwf' : wf e ops = true := by
        simp only [wf, Bool.and_eq_true] at hwf; exact hwf.2
      have := ih (step st (.notify cs)).1 e hwf'
      rw [step_length_of_not_subscribe st _ (by intro i m h; cases h)] at this
      simpa [step, Spec.C19.holdsFrom] using this
    | drain id n =>
      have hwf' : wf e ops = true := by simpa [wf] using hwf
      have := ih (step st (.drain id n)).1 e hwf'
      rw [step_length_of_not_subscribe st _ (by intro i m h; cases h)] at this
      simpa [step, Spec.C19.holdsFrom] using this
    | endWatch =>
      have hwf' : wf true ops = true := by
        simp only [wf, Bool.and_eq_true] at hwf; exact hwf.2
      have := ih (step st .endWatch).1 true hwf'
      rw [step_length_of_not_subscribe st _ (by intro i m h; cases h)] at this
      simpa [step, Spec.C19.holdsFrom] using this

/-- The model's observations on every well-formed history — what each `drain` returned and the
    final read-out of every channel — satisfy the oracle that the check evaluates on the
    implementation's observations. -/
theorem holds_model (ops : List Op) (h : wf false ops = true) :
    Spec.C19.holds ops (run [] ops).2 (finals (run [] ops).1) = true := by
  have := holdsFrom_run ops [] false h
  simpa [Spec.C19.holds] using this

/-! ### non-vacuity -/

/-- A concrete history: subscriber 0 wants everything on interface 0, subscriber 1 only
    `LinkDown` there, subscriber 2 everything on interface 1.  Ten changes on interface 0 in one
    call: subscriber 0 keeps the first 8 (2 dropped), subscriber 1 the two `LinkDown`s,
    subscriber 2 nothing; a drain of 3 frees room for later changes; after the end of the watch
    all three are closed once and the buffered events are still there; the oracle accepts it. -/
example :
    let ops : List Op :=
      [.subscribe 0 127, .subscribe 0 2, .subscribe 1 127,
       .notify [(0, [1, 2, 4, 8, 16, 32, 64, 1, 2, 4])],
       .drain 0 3,
       .notify [(0, [64, 32]), (7, [1])],
       .endWatch, .drain 1 9]
    wf false ops = true ∧
    (run [] ops).2 = [{ got := [1, 2, 4], closed := false }, { got := [2, 2], closed := true }] ∧
    finals (run [] ops).1 =
      [{ got := [8, 16, 32, 64, 1, 64, 32], closed := true }, { got := [], closed := true },
       { got := [], closed := true }] ∧
    closesOf (run [] ops).1 = [1, 1, 1] ∧
    offered 0 127 (ops.drop 1) = [1, 2, 4, 8, 16, 32, 64, 1, 2, 4, 64, 32] ∧
    Spec.C19.holds ops (run [] ops).2 (finals (run [] ops).1) = true ∧
    -- the oracle rejects a lost event, a reordering, a queued ninth event and a missing close
    Spec.C19.holds ops [{ got := [1, 2, 4], closed := false }, { got := [2], closed := true }]
      (finals (run [] ops).1) = false ∧
    Spec.C19.holds ops (run [] ops).2
      [{ got := [8, 16, 32, 64, 1, 32, 64], closed := true }, { got := [], closed := true },
       { got := [], closed := true }] = false ∧
    Spec.C19.holds ops (run [] ops).2
      [{ got := [8, 16, 32, 64, 1, 2, 64, 32], closed := true }, { got := [], closed := true },
       { got := [], closed := true }] = false ∧
    Spec.C19.holds ops (run [] ops).2
      [{ got := [8, 16, 32, 64, 1, 64, 32], closed := true }, { got := [], closed := true },
       { got := [], closed := false }] = false := by
  decide

end Corerad.Props.C19
