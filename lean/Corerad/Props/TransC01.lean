/-
  TransC01 — the Go → Lean translation of the lifetime computed by `plugin.NewPREF64`
  (internal/plugin/plugin.go) — the constructor's body up to its final `return`, synthesised as a
  pure function of `maxInterval` by `tools/extract/translate_synth.go` (which also checks that the
  returned option carries exactly that lifetime and the prefix parameter unchanged) and regenerated
  into `Corerad.Gen.Trans.NewPREF64_lifetime` from the current source text on every run — equals the
  model's `pref64Lifetime`, the value the C01 theorems put into the PREF64 option: 3 × MaxRtrAdvInterval
  rounded up to a multiple of 8 s, capped at 8191 × 8 s (RFC 8781 §4.1), for ALL intervals.

  Only equivalence theorems live here.
-/
import Corerad.Gen.Trans
import Corerad.Model.Config
import Corerad.Model.RA

namespace Corerad.Props.TransC01

open Corerad Corerad.Model

/-- the translated computation = the model's, on the duration itself (the repair of F-20) -/
theorem NewPREF64_lifetime_equiv_dur (maxInterval : Dur) :
    Gen.Trans.NewPREF64_lifetime (maxInterval := maxInterval) = pref64LifetimeDur maxInterval := by
  simp only [Gen.Trans.NewPREF64_lifetime, pref64LifetimeDur, Gen.Plugin.maxPref64Lifetime, second]
  repeat' split
  all_goals first | rfl | omega | (simp_all; done) | (simp_all; omega)

/-- … and therefore the lifetime `Model.parsePref64` / `Model.routerAdvertisement` use -/
theorem NewPREF64_lifetime_equiv (maxInterval : Dur) :
    Gen.Trans.NewPREF64_lifetime (maxInterval := maxInterval) = pref64Lifetime maxInterval := by
  rw [NewPREF64_lifetime_equiv_dur]
  simp [pref64Lifetime, Gen.Plugin.pref64ScalesDuration]

/-- C01's clause on the model's computation: a multiple of 8 s, at least 3 × max and less than 8 s
    above it (below the cap; the configuration accepts 4 s … 1800 s, so the cap is never reached) -/
theorem pref64LifetimeDur_spec (m : Dur) (h0 : 0 ≤ m) (h : 3 * m < 65528000000000) :
    pref64LifetimeDur m % 8000000000 = 0 ∧ 3 * m ≤ pref64LifetimeDur m ∧ pref64LifetimeDur m < 3 * m + 8000000000 := by
  have hm : goMod (3 * m) 8000000000 = (3 * m) % 8000000000 := by
    unfold goMod; exact Int.tmod_eq_emod_of_nonneg (by omega)
  have h8 : (8 : Int) * second = 8000000000 := by decide
  simp only [pref64LifetimeDur, Gen.Plugin.maxPref64Lifetime, h8]
  generalize goMod (3 * m) 8000000000 = r at hm ⊢
  simp only [h, if_true]
  have hdiv : (3 * m) % 8000000000 + 8000000000 * ((3 * m) / 8000000000) = 3 * m := Int.emod_add_mul_ediv _ _
  have hlo : 0 ≤ (3 * m) % 8000000000 := Int.emod_nonneg _ (by decide)
  have hhi : (3 * m) % 8000000000 < 8000000000 := Int.emod_lt_of_pos _ (by decide)
  rw [← hm] at hdiv hlo hhi
  generalize (3 * m) / 8000000000 = q at hdiv
  clear hm h8
  split
  · have e : 3 * m + (8000000000 - r) = (8000000000 : Int) * (q + 1) := by omega
    refine ⟨?_, by omega, by omega⟩
    rw [e]; exact Int.mul_emod_right _ _
  · rename_i hr
    have hr0 : r = 0 := Int.le_antisymm (Int.not_lt.mp hr) hlo
    subst hr0
    have e : 3 * m = (8000000000 : Int) * q := by rw [← hdiv]; simp
    refine ⟨?_, Int.le_refl _, by clear hdiv e; omega⟩
    rw [e]; exact Int.mul_emod_right _ _

/-- … and on the translated definition itself -/
theorem NewPREF64_lifetime_spec (m : Dur) (h0 : 0 ≤ m) (h : 3 * m < 65528000000000) :
    Gen.Trans.NewPREF64_lifetime (maxInterval := m) % 8000000000 = 0 ∧
    3 * m ≤ Gen.Trans.NewPREF64_lifetime (maxInterval := m) ∧
    Gen.Trans.NewPREF64_lifetime (maxInterval := m) < 3 * m + 8000000000 := by
  rw [NewPREF64_lifetime_equiv_dur]; exact pref64LifetimeDur_spec m h0 h

/-- non-trivial instances: 5.5 s → 24 s (F-20: the whole-second computation gave 16 s), 8.1 s → 32 s
    (the seeded change C01j gave 24 s), 600 s → 1800 s, and the cap -/
example : Gen.Trans.NewPREF64_lifetime (5500 * ms) = 24 * second := by decide
example : Gen.Trans.NewPREF64_lifetime (8100 * ms) = 32 * second := by decide
example : Gen.Trans.NewPREF64_lifetime (600 * second) = 1800 * second := by decide
example : Gen.Trans.NewPREF64_lifetime (30000 * second) = 8191 * 8 * second := by decide

/-! ### The Apply methods of the plugins with a wildcard form (tools/extract/translate_apply.go)

`(*Prefix).Apply` / `apply`, `(*Route).Apply` / `apply`, `(*RDNSS).Apply` / `apply` re-translated from the
current source text; composed — the translated `Apply` given the translated `apply`, the lifetimes and
the wildcard expansion — they are the model's `Plugin.apply` for a prepared plugin (its source of system
state and its clock installed), for every stanza and every system state. -/

theorem Prefix_Apply_equiv (sys : SysState) (auto : Bool) (p : Prefix) (onLink autonomous : Bool)
    (valid pref : Dur) (dep : Bool) :
    Gen.Trans.Prefix_Apply (Auto := auto) (Addrs_nil := false) (Deprecated := dep) (TimeNow_nil := false) (Prefix := p)
        (current := sys.addrs.map (currentPrefixes p.bits))
        (apply := Gen.Trans.Prefix_apply onLink autonomous (prefixLifetimes dep sys.epoch valid pref sys.now))
      = Plugin.apply sys (.pfx auto p onLink autonomous valid pref dep) := by
  unfold Gen.Trans.Prefix_Apply Gen.Trans.Prefix_apply Plugin.apply
  cases auto <;> cases sys.addrs <;> simp

theorem Route_Apply_equiv (sys : SysState) (auto : Bool) (p : Prefix) (preference : Nat) (lifetime : Dur) (dep : Bool) :
    Gen.Trans.Route_Apply (Auto := auto) (Routes_nil := false) (Deprecated := dep) (TimeNow_nil := false) (Prefix := p)
        (current := sys.routes.map currentRoutes)
        (apply := Gen.Trans.Route_apply preference (routeLifetime dep sys.epoch lifetime sys.now))
      = Plugin.apply sys (.route auto p preference lifetime dep) := by
  unfold Gen.Trans.Route_Apply Gen.Trans.Route_apply Plugin.apply
  cases auto <;> cases sys.routes <;> simp

theorem RDNSS_Apply_equiv (sys : SysState) (auto : Bool) (lifetime : Dur) (servers : List IP) :
    Gen.Trans.RDNSS_Apply (Auto := auto) (Addrs_nil := false) (Servers := servers)
        (current := sys.addrs.bind currentRDNSS)
        (apply := Gen.Trans.RDNSS_apply lifetime)
      = Plugin.apply sys (.rdnss auto lifetime servers) := by
  unfold Gen.Trans.RDNSS_Apply Gen.Trans.RDNSS_apply Plugin.apply applyRDNSS
  cases auto
  · simp
  · cases h : sys.addrs with
    | none => simp [h]
    | some as => cases h2 : currentRDNSS as <;> simp [h, h2]

/-- a plugin that was never prepared (its source of system state or its clock is missing) fails: the
    guard of the translated `Apply` (F-12: a scrape before the first Prepare) -/
theorem Apply_not_prepared (p : Prefix) (cur : Option (List Prefix)) (ap : List Prefix → List Opt) :
    Gen.Trans.Prefix_Apply true true false false p cur ap = none ∧
    Gen.Trans.Prefix_Apply false false true true p cur ap = none ∧
    Gen.Trans.Route_Apply true true false false p cur ap = none ∧
    Gen.Trans.Route_Apply false false true true p cur ap = none := by
  simp [Gen.Trans.Prefix_Apply, Gen.Trans.Route_Apply]

end Corerad.Props.TransC01
