/-
  C05 ∘ C02 — the configuration validator hands the multicast loop intervals for which choosing
  the wait never fails and never yields a non-positive wait.

  `Props/C05` proves the bounds of `multicastDelay` under hypotheses on `(min, max)`;
  `Props/C02` proves that the parser accepts exactly the documented stanzas and resolves them to
  `expInterface`.  This file closes the gap: every accepted advertising stanza resolves to
  `(min, max)` with `2 s ≤ min ≤ max`, `4 s ≤ max ≤ 1800 s` — for EVERY nanosecond value of
  `max_interval`, not only the whole seconds of `C02.min_default_table` — hence meets the
  hypotheses of the C05 theorems.

  The float64 product `0.33 · float64(max)` is bounded by a relative error of 2⁻⁵² around the exact
  product (`floatMulTrunc_bounds`), which is ample: 0.33·x lies well inside [2 s, x].

  FINDING recorded here as theorems (`default_min_is_2s`, `default_min_below_documented`): the
  lower bound is 2 s, not the documented 3 s.  For 9 s ≤ max_interval ≤ 9.090909090 s the
  *default* min_interval is ⌊0.33·max⌋ₛ = 2 s, a value the validator rejects when it is written
  explicitly (`explicit_2s_rejected`).  From 9.090909091 s upwards the default is ≥ 3 s
  (`default_min_ge_3s`).
-/
import Corerad.Props.C02
import Corerad.Props.C05

namespace Corerad.Props.C05Range

open Corerad Corerad.Model Corerad.Spec.C02 Corerad.Props.C02

/-! ### float64 multiplication: relative error 2⁻⁵² -/

/-- `floatMulTrunc c e x = ⌊m / 2^e⌋` for some integer `m` (the rounded 53-bit product, scaled
    back) within a relative error of 2⁻⁵² of the exact product `x·c`.  No hypothesis. -/
theorem floatMulTrunc_bounds (c e x : Nat) :
    ∃ m : Nat, floatMulTrunc c e x = m / 2 ^ e ∧
      m * 4503599627370496 ≤ (x * c) * 4503599627370497 ∧
      (x * c) * 4503599627370495 ≤ m * 4503599627370496 := by
  unfold floatMulTrunc
  generalize x * c = n
  simp only []
  by_cases hb : (if n = 0 then 0 else n.log2 + 1) ≤ 53
  · rw [if_pos hb]
    exact ⟨n, rfl, by omega, by omega⟩
  · rw [if_neg hb]
    have hn : n ≠ 0 := by
      intro h
      simp [h] at hb
    simp only [hn, if_false] at hb ⊢
    generalize hsh : n.log2 + 1 - 53 = sh
    have hlog : n.log2 = sh + 52 := by omega
    have hP : 2 ^ sh * 4503599627370496 ≤ n := by
      have h1 := Nat.log2_self_le hn
      rw [hlog, Nat.pow_add] at h1
      have : (2:Nat) ^ 52 = 4503599627370496 := by decide
      rw [this] at h1
      exact h1
    have hPpos : 0 < 2 ^ sh := Nat.two_pow_pos sh
    have hdm := Nat.div_add_mod n (2 ^ sh)
    have hml := Nat.mod_lt n hPpos
    generalize hq : n / 2 ^ sh = q at *
    generalize hr : n % 2 ^ sh = r at *
    generalize hPP : 2 ^ sh = P at *
    generalize hhalf : 2 ^ (sh - 1) = half
    have hqP : P * q = q * P := Nat.mul_comm _ _
    rw [hqP] at hdm
    generalize hA : q * P = A at *
    have key : (A + P) * 4503599627370496 ≤ n * 4503599627370497 ∧
        A * 4503599627370496 ≤ n * 4503599627370497 ∧
        n * 4503599627370495 ≤ (A + P) * 4503599627370496 ∧
        n * 4503599627370495 ≤ A * 4503599627370496 := by
      clear hq hr hPP hhalf hA hqP hlog hsh hb hn
      omega
    refine ⟨(if r > half ∨ (r = half ∧ q % 2 = 1) then q + 1 else q) * P, rfl, ?_, ?_⟩
    · split
      · rw [Nat.add_mul, hA, Nat.one_mul]; exact key.1
      · rw [hA]; exact key.2.1
    · split
      · rw [Nat.add_mul, hA, Nat.one_mul]; exact key.2.2.1
      · rw [hA]; exact key.2.2.2

/-- the constants of 0.33 as an IEEE double: 5944751508129055 · 2⁻⁵⁴ -/
theorem mul033_bounds (x : Int) (h0 : 0 ≤ x) :
    ∃ m : Nat, mul033 x = ((m / 18014398509481984 : Nat) : Int) ∧
      (m : Int) * 4503599627370496 ≤ (x * 5944751508129055) * 4503599627370497 ∧
      (x * 5944751508129055) * 4503599627370495 ≤ (m : Int) * 4503599627370496 := by
  obtain ⟨m, hm, h1, h2⟩ := floatMulTrunc_bounds 5944751508129055 54 x.toNat
  have h54 : (2:Nat) ^ 54 = 18014398509481984 := by decide
  rw [h54] at hm
  refine ⟨m, ?_, ?_, ?_⟩
  · unfold mul033; rw [hm]
  · omega
  · omega

/-- `Truncate(1 s)` of a non-negative duration: the whole seconds below it -/
theorem truncate_spec (d : Dur) (hd : 0 ≤ d) :
    truncateDur d second % second = 0 ∧ truncateDur d second ≤ d ∧ d < truncateDur d second + second := by
  unfold truncateDur goMod
  have hs : ¬ (second ≤ 0) := by decide
  simp only [hs, if_false]
  rw [Int.tmod_eq_emod_of_nonneg hd]
  unfold second
  omega

/-- **Item 1.**  The default `min_interval` of every `max_interval` in [9 s, 1800 s], at nanosecond
    granularity: at least 2 s (NOT 3 s, see `default_min_is_2s`) and at most `max_interval`. -/
theorem mul033_le (x : Int) (h1 : 9 * second ≤ x) (h2 : x ≤ 1800 * second) :
    2 * second ≤ truncateDur (mul033 x) second ∧ truncateDur (mul033 x) second ≤ x := by
  obtain ⟨m, hm, hu, hl⟩ := mul033_bounds x (by unfold second at h1; omega)
  have hnn : 0 ≤ mul033 x := by rw [hm]; omega
  have ht := truncate_spec (mul033 x) hnn
  generalize truncateDur (mul033 x) second = T at *
  rw [hm] at ht
  unfold second at *
  omega

/-- a little more: the default is strictly below `max_interval` (so `Int63n` is called) and at
    most 0.34·max -/
theorem mul033_lt (x : Int) (h1 : 9 * second ≤ x) (h2 : x ≤ 1800 * second) :
    100 * truncateDur (mul033 x) second ≤ 34 * x ∧ truncateDur (mul033 x) second < x := by
  obtain ⟨m, hm, hu, hl⟩ := mul033_bounds x (by unfold second at h1; omega)
  have hnn : 0 ≤ mul033 x := by rw [hm]; omega
  have ht := truncate_spec (mul033 x) hnn
  generalize truncateDur (mul033 x) second = T at *
  rw [hm] at ht
  unfold second at *
  omega

/-- from 9.090909091 s upwards the default is at least the documented minimum of 3 s -/
theorem default_min_ge_3s (x : Int) (h1 : 9090909091 ≤ x) (h2 : x ≤ 1800 * second) :
    3 * second ≤ truncateDur (mul033 x) second := by
  obtain ⟨m, hm, hu, hl⟩ := mul033_bounds x (by omega)
  have hnn : 0 ≤ mul033 x := by rw [hm]; omega
  have ht := truncate_spec (mul033 x) hnn
  generalize truncateDur (mul033 x) second = T at *
  rw [hm] at ht
  unfold second at *
  omega

/-- **Finding.**  For every `max_interval` in [9 s, 9.090909090 s] the default `min_interval` is
    exactly 2 s — below the documented minimum of 3 s. -/
theorem default_min_is_2s (x : Int) (h1 : 9 * second ≤ x) (h2 : x ≤ 9090909090) :
    truncateDur (mul033 x) second = 2 * second := by
  obtain ⟨m, hm, hu, hl⟩ := mul033_bounds x (by unfold second at h1; omega)
  have hnn : 0 ≤ mul033 x := by rw [hm]; omega
  have ht := truncate_spec (mul033 x) hnn
  generalize truncateDur (mul033 x) second = T at *
  rw [hm] at ht
  unfold second at *
  omega

/-- the witnesses in closed form: 0.33 · 9 s = 2.97 s ↦ 2 s; the last nanosecond value with a
    2 s default and the first with a 3 s default -/
theorem default_min_below_documented :
    mul033 (9 * second) = 2970000000 ∧ truncateDur (mul033 (9 * second)) second = 2 * second ∧
    minDefault (9 * second) = 2 * second ∧
    mul033 9090909090 = 2999999999 ∧ minDefault 9090909090 = 2 * second ∧
    mul033 9090909091 = 3000000000 ∧ minDefault 9090909091 = 3 * second := by
  decide +kernel

/-- … whereas the same value written explicitly is rejected (and is not documented as valid) -/
theorem explicit_2s_rejected :
    parseMinInterval (.lit (2 * second)) (9 * second) = none ∧
    minOf (.lit (2 * second)) (9 * second) = none ∧
    parseMinInterval .empty (9 * second) = some (2 * second) := by
  decide +kernel

/-! ### the resolved intervals of an accepted advertising stanza -/

/-- the documented default of `min_interval` for an accepted `max_interval` -/
theorem minDefault_range (maxI : Dur) (h4 : 4 * second ≤ maxI) (h1800 : maxI ≤ 1800 * second) :
    2 * second ≤ minDefault maxI ∧ minDefault maxI ≤ maxI := by
  unfold minDefault
  split
  · rename_i h9; exact mul033_le maxI h9 h1800
  · unfold second at *; omega

/-- an explicit `min_interval` is within [3 s, ⌊0.75·max⌋ₛ] ⊂ [3 s, max] -/
theorem minUpper_le (maxI : Dur) (h4 : 4 * second ≤ maxI) (h1800 : maxI ≤ 1800 * second) :
    minUpper maxI ≤ maxI := by
  have h0 : 0 ≤ maxI := by unfold second at h4; omega
  have h51 : maxI < 2 ^ 51 := by
    have : (2:Int) ^ 51 = 2251799813685248 := by decide
    unfold second at h1800; omega
  rw [minUpper_eq maxI h0 h51]
  have ht := truncate_spec ((3 * maxI) / 4) (by omega)
  omega

theorem minOf_range (s : DurStr) (maxI m : Dur) (h4 : 4 * second ≤ maxI) (h1800 : maxI ≤ 1800 * second)
    (h : minOf s maxI = some m) : 2 * second ≤ m ∧ m ≤ maxI := by
  have hd := minDefault_range maxI h4 h1800
  have hu := minUpper_le maxI h4 h1800
  cases s with
  | lit d =>
    simp only [minOf] at h
    split at h
    · rename_i hc
      simp only [Option.some.injEq] at h
      subst h
      unfold second at *; omega
    · exact absurd h (by simp)
  | empty => simp only [minOf, Option.some.injEq] at h; subst h; exact hd
  | auto => simp only [minOf, Option.some.injEq] at h; subst h; exact hd
  | unset => simp only [minOf, Option.some.injEq] at h; subst h; exact hd
  | infinite => simp [minOf] at h
  | bad => simp [minOf] at h

/-- an explicit value is never below the documented 3 s: only the default can be -/
theorem explicit_min_ge_3s (d maxI m : Dur) (h : minOf (.lit d) maxI = some m) : 3 * second ≤ m := by
  simp only [minOf] at h
  split at h
  · rename_i hc
    simp only [Option.some.injEq] at h
    subst h
    exact hc.1
  · exact absurd h (by simp)

/-- **Item 2.**  The resolved intervals of every accepted advertising stanza.  The lower bound is
    the true one, 2 s (attained: `nonvacuous_2s`), not the documented 3 s. -/
theorem accepted_range (n : Nat) (i : RawInterface) (hdoc : docInterface i = true)
    (hadv : i.monitor = false) :
    let ifi := expInterface n i
    2 * second ≤ ifi.minInterval ∧ ifi.minInterval ≤ ifi.maxInterval ∧
      4 * second ≤ ifi.maxInterval ∧ ifi.maxInterval ≤ 1800 * second := by
  intro ifi
  have hda : docAdvertising i = true := by
    unfold docInterface at hdoc
    simpa [hadv] using hdoc
  rw [docAdvertising_eq] at hda
  cases hmax : plainDur i.maxInterval (600 * second) with
  | none => rw [hmax] at hda; exact absurd hda (by simp)
  | some maxI =>
    rw [hmax] at hda
    simp only [docScalars, Bool.and_eq_true, decide_eq_true_eq] at hda
    obtain ⟨⟨⟨⟨⟨⟨⟨⟨h4, h1800⟩, hmin⟩, -⟩, -⟩, -⟩, -⟩, -⟩, -⟩ := hda
    cases hm : minOf i.minInterval maxI with
    | none => rw [hm] at hmin; exact absurd hmin (by simp)
    | some m =>
      have hr := minOf_range i.minInterval maxI m h4 h1800 hm
      have e1 : ifi.minInterval = m := by
        show (expInterface n i).minInterval = m
        simp only [expInterface, hadv, hmax, hm, Option.getD_some, Bool.false_eq_true, if_false]
      have e2 : ifi.maxInterval = maxI := by
        show (expInterface n i).maxInterval = maxI
        simp only [expInterface, hadv, hmax, Option.getD_some, Bool.false_eq_true, if_false]
      rw [e1, e2]
      exact ⟨hr.1, hr.2, h4, h1800⟩

/-- the exact extent of the finding: outside `max_interval ∈ [9 s, 9.090909090 s]` the resolved
    `min_interval` of an accepted advertising stanza does respect the documented 3 s -/
theorem accepted_min_ge_3s (n : Nat) (i : RawInterface) (hdoc : docInterface i = true)
    (hadv : i.monitor = false)
    (hout : (expInterface n i).maxInterval < 9 * second ∨ 9090909091 ≤ (expInterface n i).maxInterval) :
    3 * second ≤ (expInterface n i).minInterval := by
  have hda : docAdvertising i = true := by
    unfold docInterface at hdoc
    simpa [hadv] using hdoc
  rw [docAdvertising_eq] at hda
  cases hmax : plainDur i.maxInterval (600 * second) with
  | none => rw [hmax] at hda; exact absurd hda (by simp)
  | some maxI =>
    rw [hmax] at hda
    simp only [docScalars, Bool.and_eq_true, decide_eq_true_eq] at hda
    obtain ⟨⟨⟨⟨⟨⟨⟨⟨h4, h1800⟩, hmin⟩, -⟩, -⟩, -⟩, -⟩, -⟩, -⟩ := hda
    have e2 : (expInterface n i).maxInterval = maxI := by
      simp only [expInterface, hadv, hmax, Option.getD_some, Bool.false_eq_true, if_false]
    rw [e2] at hout
    cases hm : minOf i.minInterval maxI with
    | none => rw [hm] at hmin; exact absurd hmin (by simp)
    | some m =>
      have e1 : (expInterface n i).minInterval = m := by
        simp only [expInterface, hadv, hmax, hm, Option.getD_some, Bool.false_eq_true, if_false]
      rw [e1]
      have hdef : 3 * second ≤ minDefault maxI := by
        unfold minDefault
        split
        · rename_i h9
          exact default_min_ge_3s maxI (by unfold second at hout h9; omega) h1800
        · unfold second at *; omega
      cases hs : i.minInterval with
      | lit d => rw [hs] at hm; exact explicit_min_ge_3s d maxI m hm
      | empty => rw [hs] at hm; simp only [minOf, Option.some.injEq] at hm; subst hm; exact hdef
      | auto => rw [hs] at hm; simp only [minOf, Option.some.injEq] at hm; subst hm; exact hdef
      | unset => rw [hs] at hm; simp only [minOf, Option.some.injEq] at hm; subst hm; exact hdef
      | infinite => rw [hs] at hm; simp [minOf] at hm
      | bad => rw [hs] at hm; simp [minOf] at hm

/-- **Item 3.**  For an accepted advertising stanza, choosing the wait never fails (`Int63n`'s
    argument is positive whenever it is evaluated, i.e. whenever `min ≠ max`) and never yields a
    non-positive wait: every wait is between 1 s and `MaxRtrAdvInterval` rounded to a second,
    whatever the draw and the index. -/
theorem accepted_delay_ok (n : Nat) (i : RawInterface) (hdoc : docInterface i = true)
    (hadv : i.monitor = false) :
    let ifi := expInterface n i
    (ifi.minInterval ≠ ifi.maxInterval → 0 < ifi.maxInterval - ifi.minInterval) ∧
    ∀ (d : Int) (k : Nat), 0 ≤ d →
      (ifi.minInterval = ifi.maxInterval ∨ d < ifi.maxInterval - ifi.minInterval) →
      second ≤ multicastDelay d k ifi.minInterval ifi.maxInterval ∧
      multicastDelay d k ifi.minInterval ifi.maxInterval ≤ roundDur ifi.maxInterval second := by
  intro ifi
  obtain ⟨h2, hle, -, -⟩ := accepted_range n i hdoc hadv
  have hmin : 500 * ms ≤ ifi.minInterval := by
    show 500 * ms ≤ (expInterface n i).minInterval
    unfold ms; unfold second at h2; omega
  have hpos : 0 < ifi.minInterval := by
    show 0 < (expInterface n i).minInterval
    unfold second at h2; omega
  refine ⟨fun hne => ?_, fun d k hd0 hd1 => ⟨?_, ?_⟩⟩
  · have : ifi.minInterval ≤ ifi.maxInterval := hle
    omega
  · exact C05.delay_pos d k _ _ hmin hle hd0
  · exact C05.delay_upper d k _ _ hpos hle hd0 hd1

/-- after the three initial advertisements the wait is also at least `MinRtrAdvInterval` rounded
    to a second, and the loop diverges in time -/
theorem accepted_delay_lower (n : Nat) (i : RawInterface) (hdoc : docInterface i = true)
    (hadv : i.monitor = false) :
    let ifi := expInterface n i
    (∀ (d : Int) (k : Nat), 0 ≤ d → 3 ≤ k →
      roundDur ifi.minInterval second ≤ multicastDelay d k ifi.minInterval ifi.maxInterval) ∧
    ∀ (draws : Nat → Int), (∀ j, 0 ≤ draws j) → ∀ j : Nat,
      (j : Int) * second ≤ requestTime draws ifi.minInterval ifi.maxInterval j := by
  intro ifi
  obtain ⟨h2, hle, -, -⟩ := accepted_range n i hdoc hadv
  have hmin : 500 * ms ≤ ifi.minInterval := by
    show 500 * ms ≤ (expInterface n i).minInterval
    unfold ms; unfold second at h2; omega
  have hpos : 0 < ifi.minInterval := by
    show 0 < (expInterface n i).minInterval
    unfold second at h2; omega
  exact ⟨fun d k hd0 hk => C05.delay_lower d k _ _ hpos hle hd0 hk,
    fun draws hd j => C05.loop_diverges draws _ _ hmin hle hd j⟩

/-! ### the same for the parser (`parseInterface`) -/

/-- what `parseInterface` returns for a well-formed stanza -/
theorem parsed_is_exp (n : Nat) (i : RawInterface) (hwf : wfIface i = true) (ifi : Interface)
    (h : parseInterface n i = some ifi) : docInterface i = true ∧ ifi = expInterface n i := by
  rw [parseInterface_eq n i hwf] at h
  cases hd : docInterface i with
  | false => rw [hd] at h; exact absurd h (by simp)
  | true => rw [hd] at h; simp only [if_true, Option.some.injEq] at h; exact ⟨rfl, h.symm⟩

/-- **Item 4.**  Every advertising interface returned by the parser has
    `2 s ≤ min ≤ max`, `4 s ≤ max ≤ 1800 s`; choosing the wait never fails and every wait is
    within [1 s, Round(max)]. -/
theorem parsed_range (n : Nat) (i : RawInterface) (hwf : wfIface i = true) (hadv : i.monitor = false)
    (ifi : Interface) (h : parseInterface n i = some ifi) :
    (2 * second ≤ ifi.minInterval ∧ ifi.minInterval ≤ ifi.maxInterval ∧
      4 * second ≤ ifi.maxInterval ∧ ifi.maxInterval ≤ 1800 * second) ∧
    (ifi.minInterval ≠ ifi.maxInterval → 0 < ifi.maxInterval - ifi.minInterval) ∧
    ∀ (d : Int) (k : Nat), 0 ≤ d →
      (ifi.minInterval = ifi.maxInterval ∨ d < ifi.maxInterval - ifi.minInterval) →
      second ≤ multicastDelay d k ifi.minInterval ifi.maxInterval ∧
      multicastDelay d k ifi.minInterval ifi.maxInterval ≤ roundDur ifi.maxInterval second := by
  obtain ⟨hdoc, rfl⟩ := parsed_is_exp n i hwf ifi h
  exact ⟨accepted_range n i hdoc hadv, accepted_delay_ok n i hdoc hadv⟩

/-- the hypothesis on the raw stanza can be read off the result -/
theorem parsed_monitor (n : Nat) (i : RawInterface) (hwf : wfIface i = true) (ifi : Interface)
    (h : parseInterface n i = some ifi) : ifi.monitor = i.monitor := by
  obtain ⟨-, rfl⟩ := parsed_is_exp n i hwf ifi h
  unfold expInterface
  cases i.monitor <;> rfl

/-! ### non-vacuity -/

/-- a stanza with `max_interval = "9.5s"` and everything else at its default -/
def exIface : RawInterface := { name := 1, advertise := true, maxInterval := .lit 9500000000 }

/-- it is well-formed, documented, accepted, not a monitor; it resolves to min 3 s (0.33 · 9.5 s =
    3.135 s), max 9.5 s, and the waits range from 3 s (draw 0) to 9 s (extreme draw), within [1 s, Round(9.5 s) = 10 s] -/
example : wfIface exIface = true ∧ docInterface exIface = true ∧ exIface.monitor = false ∧
    (parseInterface 1 exIface).isSome = true ∧
    (expInterface 1 exIface).minInterval = 3 * second ∧
    (expInterface 1 exIface).maxInterval = 9500000000 ∧
    multicastDelay (6500000000 - 1) 3 (3 * second) 9500000000 = 9 * second ∧
    roundDur 9500000000 second = 10 * second ∧
    multicastDelay 0 3 (3 * second) 9500000000 = 3 * second := by
  decide +kernel

/-- the finding as an accepted stanza: `max_interval = "9s"` resolves to `min_interval = 2 s` -/
def exIface9 : RawInterface := { name := 1, advertise := true, maxInterval := .lit (9 * second) }

theorem nonvacuous_2s : wfIface exIface9 = true ∧ docInterface exIface9 = true ∧
    (parseInterface 1 exIface9).map (·.minInterval) = some (2 * second) ∧
    (expInterface 1 exIface9).minInterval = 2 * second := by
  decide +kernel

end Corerad.Props.C05Range
