/-
  C11 / C04 glue — the Linux sysctl files behind `system.State` (Model/Sysctl.lean): what the
  dialer's "read, disable, restore" bracket does to the kernel's setting when it goes through
  the real `systemState`.
-/
import Corerad.Model.Sysctl

namespace Corerad.Props.C11Sysctl

open Corerad.Model.Sysctl

/-- Reading back what was written yields the written value. -/
theorem read_after_write (d : Dir) (v : Bool) :
    (apply (apply d (.setAutoconf v)).1 .getAutoconf).2 = some v := by
  cases v <;> rfl

/-- Writing autoconf never changes what forwarding reads (different files). -/
theorem write_keeps_forwarding (d : Dir) (v : Bool) :
    (apply (apply d (.setAutoconf v)).1 .getForwarding).2 = (apply d .getForwarding).2 := rfl

/-- The dialer's bracket over the real sysctl: read the previous value, disable, … restore — the
    file ends with the value it had, for either previous value, and forwarding is untouched. -/
theorem bracket_restores (fwd : Option Nat) (prev : Bool) :
    let d0 : Dir := (some (writeCode prev), fwd)
    let r := (apply d0 .getAutoconf).2
    let d1 := (apply d0 (.setAutoconf false)).1
    let d2 := (apply d1 (.setAutoconf prev)).1
    r = some prev ∧ (apply d1 .getAutoconf).2 = some false ∧ d2 = d0 := by
  cases prev <;> simp [apply, readBool, writeCode, isInt, nonZero]

/-- Every non-zero integer reads as true (C04: an interface whose `forwarding` is 2 forwards);
    an unreadable file or a content that is no integer is an error, never "false". -/
theorem read_true_iff (c : Option Nat) : readBool c = some true ↔ c = some 1 ∨ c = some 3 := by
  cases c with
  | none => simp [readBool]
  | some n =>
    unfold readBool isInt nonZero
    by_cases h2 : n = 2
    · subst h2; decide
    · by_cases h1 : n = 1 <;> by_cases h3 : n = 3 <;> simp [h1, h2, h3]

theorem read_false_iff (c : Option Nat) : readBool c = some false ↔ ∃ n, c = some n ∧ n ≠ 1 ∧ n ≠ 2 ∧ n ≠ 3 := by
  cases c with
  | none => simp [readBool]
  | some n =>
    unfold readBool isInt nonZero
    by_cases h2 : n = 2
    · subst h2; simp
    · by_cases h1 : n = 1 <;> by_cases h3 : n = 3 <;> simp [h1, h2, h3]

theorem read_error_iff (c : Option Nat) : readBool c = none ↔ c = none ∨ c = some 2 := by
  cases c with
  | none => simp [readBool]
  | some n =>
    unfold readBool isInt
    by_cases h2 : n = 2 <;> simp [h2]

end Corerad.Props.C11Sysctl
