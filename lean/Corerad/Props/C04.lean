import Corerad.Spec.C04
namespace Corerad.Props.C04
theorem placeholder : True := trivial
end Corerad.Props.C04
