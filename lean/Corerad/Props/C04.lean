/-
  C04 — a non-forwarding interface never advertises itself as a default router.

  Part 1 (single generation, ANY parsed interface `ifi`, any system state): the RA built with
  forwarding disabled is the RA built with forwarding enabled except that its router lifetime
  is 0; generation fails in one state iff it fails in the other; the
  `InterfaceNotForwarding` misconfiguration is reported iff a positive configured lifetime had
  to be zeroed; with forwarding enabled the configured lifetime is sent unchanged.
  The model zeroes the lifetime only when it is positive (Go: `ra.RouterLifetime > 0 &&
  !forwarding`), so "= 0" needs `0 ≤ ifi.defaultLifetime`; this holds for every accepted
  configuration (`accepted_lifetime_nonneg`), and `nofwd_lifetime_nonpos` is the
  hypothesis-free form.

  Part 2 (source facts regenerated from /repo on every check run): every function that
  generates an RA reads the live forwarding state and passes it to `RouterAdvertisement`.

  Part 3 (histories): a state machine over `setForwarding b | gen path` in which every
  generation reads the current forwarding value; `paths_track` by induction over the history.

  Part 4: the model meets the oracle `Spec.C04.holds` (uses C01's `ra_eq_spec`).
-/
import Corerad.Spec.C04
import Corerad.Props.C01
import Corerad.Gen.Advertise
import Corerad.Gen.Metrics

namespace Corerad.Props.C04

open Corerad Corerad.Model

/-! ### Part 1 — one generation -/

/-- the RA before the forwarding adjustment -/
def baseRA (ifi : Interface) (opts : List Opt) : RA :=
  { hopLimit := ifi.hopLimit, managed := ifi.managed, other := ifi.otherConfig,
    preference := ifi.preference, routerLifetime := ifi.defaultLifetime,
    reachable := ifi.reachable, retransmit := ifi.retransmit, options := opts }

/-- closed form of `routerAdvertisement` -/
theorem ra_shape (ifi : Interface) (sys : SysState) (fw : Bool) :
    routerAdvertisement ifi sys fw =
      (applyAll sys ifi.plugins).map fun opts =>
        if 0 < ifi.defaultLifetime ∧ fw = false then ({ baseRA ifi opts with routerLifetime := 0 }, true)
        else (baseRA ifi opts, false) := by
  unfold routerAdvertisement baseRA
  cases applyAll sys ifi.plugins with
  | none => rfl
  | some opts =>
    simp only [Option.map_some]
    cases fw
    · simp only [Bool.not_false, and_true, gt_iff_lt]
      split <;> rfl
    · simp

/-- whether generation succeeds does not depend on the forwarding state -/
theorem fail_indep (ifi : Interface) (sys : SysState) (fw fw' : Bool) :
    routerAdvertisement ifi sys fw = none ↔ routerAdvertisement ifi sys fw' = none := by
  rw [ra_shape, ra_shape]; simp

theorem nofwd_none_iff (ifi : Interface) (sys : SysState) :
    routerAdvertisement ifi sys false = none ↔ routerAdvertisement ifi sys true = none :=
  fail_indep ifi sys false true

/-- not forwarding: the router lifetime is never positive (no hypothesis on `ifi`) -/
theorem nofwd_lifetime_nonpos (ifi : Interface) (sys : SysState) (ra : RA) (mis : Bool)
    (h : routerAdvertisement ifi sys false = some (ra, mis)) : ra.routerLifetime ≤ 0 := by
  rw [ra_shape] at h
  cases ha : applyAll sys ifi.plugins with
  | none => rw [ha] at h; cases h
  | some opts =>
    rw [ha] at h
    simp only [Option.map_some, and_true, Option.some.injEq] at h
    by_cases hp : 0 < ifi.defaultLifetime
    · rw [if_pos hp] at h; cases h; exact Int.le_refl 0
    · rw [if_neg hp] at h; cases h; simp only [baseRA]; omega

/-- not forwarding: the router lifetime is 0 -/
theorem nofwd_lifetime_zero (ifi : Interface) (sys : SysState) (h0 : 0 ≤ ifi.defaultLifetime)
    (ra : RA) (mis : Bool) (h : routerAdvertisement ifi sys false = some (ra, mis)) :
    ra.routerLifetime = 0 := by
  rw [ra_shape] at h
  cases ha : applyAll sys ifi.plugins with
  | none => rw [ha] at h; cases h
  | some opts =>
    rw [ha] at h
    simp only [Option.map_some, and_true, Option.some.injEq] at h
    by_cases hp : 0 < ifi.defaultLifetime
    · rw [if_pos hp] at h; cases h; rfl
    · rw [if_neg hp] at h; cases h; simp only [baseRA]; omega

/-- not forwarding: everything except the router lifetime is what a forwarding router sends -/
theorem nofwd_rest_unchanged (ifi : Interface) (sys : SysState) (h0 : 0 ≤ ifi.defaultLifetime)
    (raF raT : RA) (mF mT : Bool)
    (hF : routerAdvertisement ifi sys false = some (raF, mF))
    (hT : routerAdvertisement ifi sys true = some (raT, mT)) :
    raF = { raT with routerLifetime := 0 } := by
  rw [ra_shape] at hF hT
  cases ha : applyAll sys ifi.plugins with
  | none => rw [ha] at hF; cases hF
  | some opts =>
    rw [ha] at hF hT
    simp only [Option.map_some, and_true, Option.some.injEq, Bool.true_eq_false, and_false, if_false] at hF hT
    cases hT
    by_cases hp : 0 < ifi.defaultLifetime
    · rw [if_pos hp] at hF; cases hF; rfl
    · rw [if_neg hp] at hF; cases hF
      have : ifi.defaultLifetime = 0 := by omega
      simp only [baseRA, this]

/-- both directions at once, as an equation between the two builds -/
theorem nofwd_eq_fwd_zeroed (ifi : Interface) (sys : SysState) (h0 : 0 ≤ ifi.defaultLifetime) :
    (routerAdvertisement ifi sys false).map (·.1) =
      (routerAdvertisement ifi sys true).map (fun r => { r.1 with routerLifetime := 0 }) := by
  rw [ra_shape, ra_shape]
  cases applyAll sys ifi.plugins with
  | none => rfl
  | some opts =>
    simp only [Option.map_some, and_true, Bool.true_eq_false, and_false, if_false]
    by_cases hp : 0 < ifi.defaultLifetime
    · rw [if_pos hp]
    · rw [if_neg hp]
      have : ifi.defaultLifetime = 0 := by omega
      simp only [baseRA, this]

/-- the misconfiguration is reported iff a positive configured lifetime had to be zeroed -/
theorem misconfig_iff (ifi : Interface) (sys : SysState) (fw : Bool) (ra : RA) (mis : Bool)
    (h : routerAdvertisement ifi sys fw = some (ra, mis)) :
    mis = true ↔ (fw = false ∧ 0 < ifi.defaultLifetime) := by
  rw [ra_shape] at h
  cases ha : applyAll sys ifi.plugins with
  | none => rw [ha] at h; cases h
  | some opts =>
    rw [ha] at h
    simp only [Option.map_some, Option.some.injEq] at h
    by_cases hp : 0 < ifi.defaultLifetime ∧ fw = false
    · rw [if_pos hp] at h; cases h; exact ⟨fun _ => ⟨hp.2, hp.1⟩, fun _ => rfl⟩
    · rw [if_neg hp] at h; cases h
      exact ⟨fun h => (by cases h), fun h => absurd ⟨h.2, h.1⟩ hp⟩

/-- forwarding: the configured lifetime is sent and nothing is reported -/
theorem fwd_exact (ifi : Interface) (sys : SysState) (fw : Bool) (hfw : fw = true) (ra : RA) (mis : Bool)
    (h : routerAdvertisement ifi sys fw = some (ra, mis)) :
    ra.routerLifetime = ifi.defaultLifetime ∧ mis = false := by
  subst hfw
  rw [ra_shape] at h
  cases ha : applyAll sys ifi.plugins with
  | none => rw [ha] at h; cases h
  | some opts =>
    rw [ha] at h
    simp only [Option.map_some, Bool.true_eq_false, and_false, if_false, Option.some.injEq] at h
    cases h; exact ⟨rfl, rfl⟩

/-- forwarding: the whole RA is the configured one -/
theorem fwd_whole (ifi : Interface) (sys : SysState) :
    routerAdvertisement ifi sys true = (applyAll sys ifi.plugins).map fun opts => (baseRA ifi opts, false) := by
  rw [ra_shape]; simp

/-- the router lifetime of every generated RA, in one formula -/
theorem lifetime_formula (ifi : Interface) (sys : SysState) (fw : Bool) (h0 : 0 ≤ ifi.defaultLifetime)
    (ra : RA) (mis : Bool) (h : routerAdvertisement ifi sys fw = some (ra, mis)) :
    ra.routerLifetime = if fw then ifi.defaultLifetime else 0 := by
  cases fw with
  | true => exact (fwd_exact ifi sys true rfl ra mis h).1
  | false => exact nofwd_lifetime_zero ifi sys h0 ra mis h

/-- every accepted advertising stanza resolves to a non-negative default lifetime (so the
    hypothesis `0 ≤ ifi.defaultLifetime` above holds for every parsed configuration) -/
theorem accepted_lifetime_nonneg (n : Nat) (i : RawInterface)
    (hdoc : Spec.C02.docInterface i = true) : 0 ≤ (Spec.C02.expInterface n i).defaultLifetime :=
  Props.C01.expInterface_lifetime_nonneg n i hdoc

theorem parsed_lifetime_nonneg (n : Nat) (i : RawInterface) (hwf : Props.C02.wfIface i = true)
    (ifi : Interface) (h : parseInterface n i = some ifi) : 0 ≤ ifi.defaultLifetime := by
  rw [Props.C02.parseInterface_eq n i hwf] at h
  cases hd : Spec.C02.docInterface i with
  | false => rw [hd] at h; cases h
  | true =>
    rw [hd] at h
    simp only [if_true, Option.some.injEq] at h
    subst h
    exact accepted_lifetime_nonneg n i hd

/-! ### Part 2 — every RA-generating path reads the live forwarding state (source facts) -/

theorem gen_buildRAReadsForwarding : Gen.Advertise.buildRAReadsForwarding = true := by decide
theorem gen_sendCalls_buildRA : Gen.Advertise.sendCalls_buildRA = true := by decide
theorem gen_handleCalls_buildRA : Gen.Advertise.handleCalls_buildRA = true := by decide
theorem gen_sendWorkerCalls_send : Gen.Advertise.sendWorkerCalls_send = true := by decide
theorem gen_shutdownCalls_send : Gen.Advertise.shutdownCalls_send = true := by decide
theorem gen_scrapeReadsForwarding : Gen.Metrics.scrapeReadsForwarding = true := by decide
theorem gen_apiReadsForwarding : Gen.Metrics.apiReadsForwarding = true := by decide

/-- the only non-test callers of `RouterAdvertisement` are `buildRA`, the metrics scrape and the
    HTTP API handler (breaks if a new call site appears) -/
theorem gen_raCallSites :
    Gen.Metrics.raCallSites =
      ["internal/corerad/advertise.go:buildRA", "internal/corerad/metrics.go:constScrape",
       "internal/crhttp/handler.go:interfaces"] := by decide

/-- all of the above: the three call sites of `RouterAdvertisement` each pass the live
    `state.IPv6Forwarding` result, and every advertiser path (`sendWorker`, `handle`,
    `shutdown`) reaches `RouterAdvertisement` only through `send`/`buildRA` -/
theorem every_path_reads_forwarding :
    Gen.Metrics.raCallSites.length = 3 ∧
    Gen.Advertise.buildRAReadsForwarding = true ∧ Gen.Metrics.scrapeReadsForwarding = true ∧
    Gen.Metrics.apiReadsForwarding = true ∧
    Gen.Advertise.sendCalls_buildRA = true ∧ Gen.Advertise.handleCalls_buildRA = true ∧
    Gen.Advertise.sendWorkerCalls_send = true ∧ Gen.Advertise.shutdownCalls_send = true := by decide

/-! ### Part 3 — histories -/

/-- the code paths that generate an RA: the initial and periodic multicasts and the solicited
    unicasts (`sendWorker → send → buildRA`), the final RA of `shutdown` (`send` with
    `DefaultLifetime = 0`), the comparison RA of `handle` (`buildRA`), the metrics scrape and
    the HTTP API -/
inductive Path where
  | initial | periodic | solicited | final | verify | scrape | api
deriving DecidableEq, Repr

/-- one event of a history: the operator (or anything else) changes the interface's forwarding
    state, or some path generates an RA -/
inductive Op where
  | setForwarding (b : Bool)
  | gen (p : Path)
deriving DecidableEq, Repr

/-- the configuration a path hands to `RouterAdvertisement`: `shutdown` copies the
    configuration and sets `DefaultLifetime = 0`, every other path uses it unchanged -/
def pathCfg (ifi : Interface) : Path → Interface
  | .final => { ifi with defaultLifetime := 0 }
  | _ => ifi

/-- Run a history from forwarding state `fw`: every `gen` reads the CURRENT forwarding value
    (Part 2) and calls `RouterAdvertisement`.  Output: one entry per generation, in order. -/
def run (ifi : Interface) (sys : SysState) : Bool → List Op → List (Path × Option (RA × Bool))
  | _, [] => []
  | _, .setForwarding b :: ops => run ifi sys b ops
  | fw, .gen p :: ops => (p, routerAdvertisement (pathCfg ifi p) sys fw) :: run ifi sys fw ops

/-- the forwarding state after a history prefix: the most recent `setForwarding`, or the
    initial value (defined independently of `run`, as a fold) -/
def fwAfter (init : Bool) (pre : List Op) : Bool :=
  pre.foldl (fun fw op => match op with | .setForwarding b => b | .gen _ => fw) init

/-- number of generations in a history -/
def gens : List Op → Nat
  | [] => 0
  | .setForwarding _ :: ops => gens ops
  | .gen _ :: ops => gens ops + 1

/-- what the configuration calls for on a path: 0 on the final RA, else the configured lifetime -/
def pathLifetime (ifi : Interface) (p : Path) : Dur := if p = .final then 0 else ifi.defaultLifetime

theorem pathCfg_lifetime (ifi : Interface) (p : Path) : (pathCfg ifi p).defaultLifetime = pathLifetime ifi p := by
  cases p <;> rfl

theorem run_length (ifi : Interface) (sys : SysState) (fw : Bool) (ops : List Op) :
    (run ifi sys fw ops).length = gens ops := by
  induction ops generalizing fw with
  | nil => rfl
  | cons op ops ih =>
    cases op with
    | setForwarding b => simp only [run, gens, ih]
    | gen p => simp only [run, gens, List.length_cons, ih]

/-- The k-th generation of any history was built from the forwarding value in force at that
    moment: for every split `ops = pre ++ gen p :: post`, entry number `gens pre` of the output
    is `RouterAdvertisement` of the path's configuration with `fwAfter init pre`. -/
theorem run_tracks (ifi : Interface) (sys : SysState) (init : Bool) (pre post : List Op) (p : Path) :
    (run ifi sys init (pre ++ Op.gen p :: post))[gens pre]? =
      some (p, routerAdvertisement (pathCfg ifi p) sys (fwAfter init pre)) := by
  induction pre generalizing init with
  | nil => rfl
  | cons op pre ih =>
    cases op with
    | setForwarding b => simp only [List.cons_append, run, gens, fwAfter, List.foldl_cons]; exact ih b
    | gen q =>
      simp only [List.cons_append, run, gens, fwAfter, List.foldl_cons, List.getElem?_cons_succ]
      exact ih init

/-- **History form.**  In every history, the router lifetime of the k-th generated RA is
    `if forwarding-at-that-moment then (if path = final then 0 else cfgLifetime) else 0`, and
    the misconfiguration is reported exactly when a positive lifetime was zeroed. -/
theorem paths_track (ifi : Interface) (sys : SysState) (h0 : 0 ≤ ifi.defaultLifetime)
    (init : Bool) (pre post : List Op) (p : Path) :
    ∃ res, (run ifi sys init (pre ++ Op.gen p :: post))[gens pre]? = some (p, res) ∧
      ∀ ra mis, res = some (ra, mis) →
        ra.routerLifetime = (if fwAfter init pre then (if p = .final then 0 else ifi.defaultLifetime) else 0) ∧
        (mis = true ↔ (fwAfter init pre = false ∧ p ≠ .final ∧ 0 < ifi.defaultLifetime)) := by
  refine ⟨_, run_tracks ifi sys init pre post p, ?_⟩
  intro ra mis h
  have hl0 : 0 ≤ (pathCfg ifi p).defaultLifetime := by
    rw [pathCfg_lifetime]; unfold pathLifetime; split <;> omega
  refine ⟨?_, ?_⟩
  · rw [lifetime_formula _ sys _ hl0 ra mis h, pathCfg_lifetime]; rfl
  · rw [misconfig_iff _ sys _ ra mis h, pathCfg_lifetime]
    unfold pathLifetime
    by_cases hp : p = .final
    · simp [hp]
    · simp [hp]

/-- consequence: while forwarding is off, NO path advertises a non-zero router lifetime —
    whatever happened earlier in the history -/
theorem never_default_router_while_not_forwarding (ifi : Interface) (sys : SysState)
    (h0 : 0 ≤ ifi.defaultLifetime) (init : Bool) (pre post : List Op) (p : Path)
    (hoff : fwAfter init pre = false) (ra : RA) (mis : Bool)
    (h : (run ifi sys init (pre ++ Op.gen p :: post))[gens pre]? = some (p, some (ra, mis))) :
    ra.routerLifetime = 0 := by
  obtain ⟨res, hres, hall⟩ := paths_track ifi sys h0 init pre post p
  rw [hres] at h
  simp only [Option.some.injEq, Prod.mk.injEq, true_and] at h
  have := (hall ra mis h).1
  rw [hoff] at this
  simpa using this

/-- non-vacuity: forwarding switched off after the initial RA and back on before the last
    periodic one; the final RA always carries 0 -/
example :
    let ifi : Interface := { defaultLifetime := 1800 * second, hopLimit := 64 }
    (run ifi {} true [.gen .initial, .setForwarding false, .gen .periodic, .gen .solicited, .gen .scrape,
        .setForwarding true, .gen .periodic, .gen .api, .gen .final]).map
      (fun e => e.2.map (fun r => (r.1.routerLifetime, r.2))) =
    [some (1800 * second, false), some (0, true), some (0, true), some (0, true),
     some (1800 * second, false), some (1800 * second, false), some (0, false)] := by decide

/-! ### Part 4 — the model meets the oracle -/

/-- The oracle accepts the model's output for every documented advertising stanza, every
    system state and both forwarding values. -/
theorem holds_model (n : Nat) (i : RawInterface) (sys : SysState) (fw : Bool)
    (hdoc : Spec.C02.docInterface i = true) (hadv : i.monitor = false) :
    (match routerAdvertisement (Spec.C02.expInterface n i) sys fw with
     | none => Spec.C04.holds i sys fw "err" none false
     | some (ra, mis) => Spec.C04.holds i sys fw "ok" (some ra) mis).1 = true := by
  have hspec := Props.C01.build_eq_spec n i sys fw hdoc hadv
  have hspecT := Props.C01.build_eq_spec n i sys true hdoc hadv
  have h0 := accepted_lifetime_nonneg n i hdoc
  cases h : routerAdvertisement (Spec.C02.expInterface n i) sys fw with
  | none => simp [Spec.C04.holds]
  | some r =>
    obtain ⟨ra, mis⟩ := r
    cases hT : routerAdvertisement (Spec.C02.expInterface n i) sys true with
    | none => exact absurd ((fail_indep _ sys true fw).mp hT) (by rw [h]; simp)
    | some rT =>
      obtain ⟨full, misT⟩ := rT
      rw [hT] at hspecT
      simp only [Option.map_some] at hspecT
      have hfull := (fwd_exact _ sys true rfl full misT hT).1
      simp only [Spec.C04.holds, bne_self_eq_false, Bool.false_eq_true, if_false, ← hspecT]
      cases fw with
      | true =>
        rw [hT] at h
        simp only [Option.some.injEq, Prod.mk.injEq] at h
        obtain ⟨rfl, rfl⟩ := h
        have := (fwd_exact _ sys true rfl full misT hT).2
        subst this
        simp
      | false =>
        have hz := nofwd_lifetime_zero _ sys h0 ra mis h
        have hrest := nofwd_rest_unchanged _ sys h0 ra full mis misT h hT
        have hmis := misconfig_iff _ sys false ra mis h
        simp only [Bool.false_eq_true, if_false, hz, bne_self_eq_false, ← hrest, hfull]
        have : mis = decide (0 < (Spec.C02.expInterface n i).defaultLifetime) := by
          rw [Bool.eq_iff_iff, hmis]; simp
        simp [this]

end Corerad.Props.C04
