/-
  TransC04 — `config.Interface.RouterAdvertisement` (internal/config/config.go) tied to
  `Model.routerAdvertisement` by REGENERATION (tools/extract/translate_ra.go).

  Every RA-generating path of the daemon — initial, periodic, solicited, final, consistency check,
  metrics scrape, debug API — ends in this one function (Gen/Advertise, Gen/Metrics pin the call
  sites and where their `forwarding` argument comes from).  It is re-translated from its current
  source text on every run: the header literal, the fold of the plugins' `Apply` over the RA under
  construction (the pointer threaded as a value, `Apply` an uninterpreted parameter), the
  RFC 4861 §6.2.5 rule.  `Interface_RouterAdvertisement_equiv` instantiates `Apply` with the model's
  plugins ("append the options `Plugin.apply` yields, or fail") and states equality with
  `Model.routerAdvertisement` — the function the C01 and C04 theorems are about — for EVERY
  interface, system state and forwarding value.  A swapped header field, `>=` for `>`, a dropped
  negation, the rule placed before the plugins, a second misconfiguration value, a plugin error that
  is swallowed: each changes the translated definition and the proof stops checking.
-/
import Corerad.Gen.Trans
import Corerad.Model.RA

namespace Corerad.Props.TransC04

open Corerad Corerad.Model

/-- what a model plugin does to the RA it is handed -/
def applyTo (sys : SysState) (p : Plugin) (ra : RA) : Option RA :=
  (p.apply sys).map fun os => { ra with options := ra.options ++ os }

/-- the fold of `Apply` over the RA under construction appends `applyAll`'s options, and fails
    exactly when `applyAll` does -/
theorem foldlM_applyTo (sys : SysState) (ps : List Plugin) (ra : RA) :
    List.foldlM (fun ra p => applyTo sys p ra) ra ps
      = (applyAll sys ps).map fun os => { ra with options := ra.options ++ os } := by
  induction ps generalizing ra with
  | nil => simp [applyAll]
  | cons p ps ih =>
    simp only [List.foldlM_cons, applyAll, applyTo]
    cases hp : p.apply sys with
    | none => simp
    | some os =>
      simp only [Option.map_some, Option.bind_eq_bind, Option.bind_some]
      have := ih { ra with options := ra.options ++ os }
      simp only [applyTo] at this
      rw [this]
      cases applyAll sys ps with
      | none => simp
      | some rest => simp [List.append_assoc]

/-- **`Interface.RouterAdvertisement(forwarding)` as translated from the source is
    `Model.routerAdvertisement`**: same RA, and the misconfiguration list is
    `[InterfaceNotForwarding]` exactly when the model flags the interface as not forwarding. -/
theorem Interface_RouterAdvertisement_equiv (ifi : Interface) (sys : SysState) (fw : Bool) :
    Gen.Trans.Interface_RouterAdvertisement ifi fw (applyTo sys)
      = (routerAdvertisement ifi sys fw).map fun r => (r.1, if r.2 then [1] else []) := by
  unfold Gen.Trans.Interface_RouterAdvertisement routerAdvertisement
  simp only [foldlM_applyTo]
  cases applyAll sys ifi.plugins with
  | none => simp
  | some os =>
    simp only [Option.map_some, List.nil_append]
    by_cases h : ifi.defaultLifetime > 0 <;> cases fw <;> simp [h]

/-- C04 in one line, read off the translated function: with forwarding off and a positive
    configured lifetime the RA built has router lifetime 0 and reports the misconfiguration;
    otherwise the configured lifetime is sent and nothing is reported. -/
theorem translated_lifetime_rule (ifi : Interface) (sys : SysState) (fw : Bool) (ra : RA) (ms : List Nat)
    (h : Gen.Trans.Interface_RouterAdvertisement ifi fw (applyTo sys) = some (ra, ms)) :
    (fw = false ∧ ifi.defaultLifetime > 0 → ra.routerLifetime = 0 ∧ ms = [1]) ∧
    (¬ (fw = false ∧ ifi.defaultLifetime > 0) → ra.routerLifetime = ifi.defaultLifetime ∧ ms = []) := by
  rw [Interface_RouterAdvertisement_equiv] at h
  unfold routerAdvertisement at h
  cases ha : applyAll sys ifi.plugins with
  | none => simp [ha] at h
  | some os =>
    simp only [ha] at h
    by_cases hl : ifi.defaultLifetime > 0 <;> cases fw <;> simp [hl] at h <;>
      obtain ⟨rfl, rfl⟩ := h <;> simp [hl]

/-- non-vacuity: a static prefix and an MTU option, forwarding off -/
example :
    Gen.Trans.Interface_RouterAdvertisement
      { hopLimit := 64, defaultLifetime := 1800 * second,
        plugins := [.pfx false ⟨{ val := 0x20010db8000000010000000000000000 }, 64⟩ true true (2 * hour) hour false, .mtu 1500] }
      false (applyTo {})
    = some ({ hopLimit := 64, routerLifetime := 0,
              options := [.pi { val := 0x20010db8000000010000000000000000 } 64 true true (2 * hour) hour, .mtu 1500] }, [1]) := by
  decide +kernel

end Corerad.Props.TransC04
