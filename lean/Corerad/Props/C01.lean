/-
  C01 — every RA carries exactly what the configuration calls for.

  The RA built by the model of `config.Interface.RouterAdvertisement` from the *parsed*
  interface (C02: `parseInterface n i = some (expInterface n i)` for a documented stanza)
  equals the declarative per-stanza RA `Spec.C01.expectedRA`: header fields from the
  configuration, then the options of every prefix, route, RDNSS, DNSSL stanza, MTU, source
  link-layer address, captive portal and PREF64 — in that order, and nothing else; generation
  fails on one side exactly when it fails on the other (`ra_eq_spec`, `parse_then_build`).

  Structure: per-stanza lemmas `(expX raw).apply sys = xOpts sys raw` (they hold for every raw
  stanza, documented or not), `applyAll = concatOpts ∘ map apply`, `concatOpts` over `++`,
  `options_eq_spec`, `build_eq_spec`; then the plugin order and counts (`kinds_eq`,
  `plugins_order`, `count_kinds`), the PREF64 lifetime formula, the failure characterisation
  (`ra_fail_iff`), idempotence of rebuilding, and `holds_model`.
-/
import Corerad.Spec.C01
import Corerad.Props.C02
import Corerad.Props.C16

namespace Corerad.Props.C01

open Corerad Corerad.Model Corerad.Spec.C02 Corerad.Spec.C01
open Corerad.Props.C02 (wfIface parseInterface_eq)

/-! ### per-stanza: the parsed plugin's `Apply` against the declarative options -/

theorem prefixLifetimes_eq (dep : Bool) (sys : SysState) (v pr : Dur) :
    prefixLifetimes dep sys.epoch v pr sys.now = (lifetimeNow dep sys v, lifetimeNow dep sys pr) := by
  unfold prefixLifetimes lifetimeNow
  cases dep
  · rfl
  · simp only [Bool.not_true, Bool.false_eq_true, if_false, if_true, Props.C16.eq_clamped_remaining]

theorem routeLifetime_eq (dep : Bool) (sys : SysState) (l : Dur) :
    routeLifetime dep sys.epoch l sys.now = lifetimeNow dep sys l := by
  unfold routeLifetime lifetimeNow
  cases dep
  · rfl
  · simp only [Bool.not_true, Bool.false_eq_true, if_false, if_true, Props.C16.eq_clamped_remaining]

/-- a `prefix` stanza: the static prefix, or one option per eligible /64 of the interface (the
    documented wildcard is `::/64`, so the expansion runs with `bits = 64`) -/
theorem prefix_apply (sys : SysState) (p : RawPrefix) : (expPrefix p).apply sys = prefixOpts sys p := by
  unfold expPrefix prefixOpts Plugin.apply
  simp only [prefixLifetimes_eq]
  generalize (pfxOf wildPrefix p.pstr).getD wildPrefix = q
  by_cases hq : q = wildPrefix
  · subst hq
    simp only [beq_self_eq_true, Bool.not_true, Bool.false_eq_true, if_false, if_true]
    cases sys.addrs <;> rfl
  · have : (q == wildPrefix) = false := by simpa using hq
    simp only [this, Bool.not_false, if_true, Bool.false_eq_true, if_false]

/-- a `route` stanza: the static route, or one option per maximal loopback route -/
theorem route_apply (sys : SysState) (r : RawRoute) : (expRoute r).apply sys = routeOpts sys r := by
  unfold expRoute routeOpts Plugin.apply
  simp only [routeLifetime_eq]
  generalize (pfxOf wildRoute r.pstr).getD wildRoute = q
  by_cases hq : q = wildRoute
  · subst hq
    simp only [beq_self_eq_true, Bool.not_true, Bool.false_eq_true, if_false, if_true]
    cases sys.routes <;> rfl
  · have : (q == wildRoute) = false := by simpa using hq
    simp only [this, Bool.not_false, if_true, Bool.false_eq_true, if_false]

/-- an `rdnss` stanza: the static servers in ascending order, preceded by the wildcard's choice -/
theorem rdnss_apply (sys : SysState) (maxI : Dur) (d : RawRDNSS) :
    (expRDNSS maxI d).apply sys = rdnssOpts sys maxI d := by
  unfold expRDNSS rdnssOpts Plugin.apply applyRDNSS
  simp only
  cases (d.servers.isEmpty || (d.servers.map serverAddr).any (·.isUnspecified)) with
  | false => rfl
  | true =>
    simp only [Bool.not_true, Bool.false_eq_true, if_false, if_true]
    cases sys.addrs with
    | none => rfl
    | some as =>
      dsimp only
      cases currentRDNSS as <;> rfl

theorem dnssl_apply (sys : SysState) (maxI : Dur) (d : RawDNSSL) :
    (expDNSSL maxI d).apply sys = some [Opt.dnssl ((resolve d.lifetime (3 * maxI)).getD 0) d.names] := rfl

theorem mtu_apply (sys : SysState) (m : Int) : (Plugin.mtu m).apply sys = some [Opt.mtu m] := rfl

theorem lla_apply (sys : SysState) :
    Plugin.lla.apply sys = some (match sys.mac with | none => [] | some (l, m) => [Opt.lla l m]) := by
  unfold Plugin.apply
  cases sys.mac with
  | none => rfl
  | some x => cases x; rfl

theorem portal_apply (sys : SysState) (u l : Nat) :
    (Plugin.captivePortal u l).apply sys = some [Opt.captivePortal u l] := rfl

theorem pref64_apply (sys : SysState) (p : Prefix) (l : Dur) :
    (Plugin.pref64 p l).apply sys = some [Opt.pref64 p l] := rfl

/-! ### `applyAll` is `concatOpts` of the per-plugin results -/

theorem applyAll_eq_concat (sys : SysState) (ps : List Plugin) :
    applyAll sys ps = concatOpts (ps.map (Plugin.apply sys)) := by
  induction ps with
  | nil => rfl
  | cons p ps ih =>
    simp only [applyAll, List.map_cons, ih]
    cases p.apply sys with
    | none => rfl
    | some os =>
      simp only [concatOpts]
      cases concatOpts (ps.map (Plugin.apply sys)) <;> rfl

/-- sequencing two option blocks: both must succeed -/
def optAppend (a b : Option (List Opt)) : Option (List Opt) :=
  match a, b with
  | some x, some y => some (x ++ y)
  | _, _ => none

theorem concatOpts_append (a b : List (Option (List Opt))) :
    concatOpts (a ++ b) = optAppend (concatOpts a) (concatOpts b) := by
  induction a with
  | nil => simp only [List.nil_append, concatOpts, optAppend]; cases concatOpts b <;> simp
  | cons x xs ih =>
    cases x with
    | none => simp [concatOpts, optAppend]
    | some o =>
      simp only [List.cons_append, concatOpts, ih]
      cases concatOpts xs <;> cases concatOpts b <;> simp [optAppend]

theorem applyAll_append (sys : SysState) (a b : List Plugin) :
    applyAll sys (a ++ b) = optAppend (applyAll sys a) (applyAll sys b) := by
  rw [applyAll_eq_concat, applyAll_eq_concat, applyAll_eq_concat, List.map_append, concatOpts_append]

theorem applyAll_map {α : Type} (sys : SysState) (e : α → Plugin) (f : α → Option (List Opt)) (l : List α)
    (h : ∀ x ∈ l, (e x).apply sys = f x) : applyAll sys (l.map e) = concatOpts (l.map f) := by
  rw [applyAll_eq_concat, List.map_map]
  congr 1
  apply List.map_congr_left
  intro x hx
  exact h x hx

/-- the options the parsed plugin list produces are exactly the options the stanza calls for
    (for every raw stanza and every `maxI`, documented or not) -/
theorem options_eq_spec (i : RawInterface) (sys : SysState) (maxI : Dur) :
    applyAll sys (expPlugins i maxI) = expectedOptions i sys maxI := by
  unfold expPlugins expectedOptions
  simp only [applyAll_append, concatOpts_append]
  rw [applyAll_map sys expPrefix (prefixOpts sys) i.prefixes (fun x _ => prefix_apply sys x),
    applyAll_map sys expRoute (routeOpts sys) i.routes (fun x _ => route_apply sys x),
    applyAll_map sys (expRDNSS maxI) (rdnssOpts sys maxI) i.rdnss (fun x _ => rdnss_apply sys maxI x),
    applyAll_map sys (expDNSSL maxI) _ i.dnssl (fun x _ => dnssl_apply sys maxI x),
    applyAll_map sys (fun p => Plugin.pref64 ((pref64Of p).getD wellKnown64) (Spec.C02.pref64Lifetime maxI)) _
      i.pref64 (fun x _ => pref64_apply sys _ _)]
  have hmtu : applyAll sys (if (i.mtu != 0) = true then [Plugin.mtu i.mtu] else []) =
      concatOpts [some (if (i.mtu != 0) = true then [Opt.mtu i.mtu] else [])] := by
    cases (i.mtu != 0) <;> rfl
  have hlla : applyAll sys (if i.sourceLLA.getD true = true then [Plugin.lla] else []) =
      concatOpts [some (if i.sourceLLA.getD true = true then
        (match sys.mac with | none => [] | some (l, m) => [Opt.lla l m]) else [])] := by
    cases i.sourceLLA.getD true with
    | false => rfl
    | true =>
      simp only [if_true, applyAll, lla_apply, concatOpts, Option.map_some, List.append_nil]
  rw [hmtu, hlla]
  cases i.captivePortal <;> rfl

/-! ### the whole RA -/

theorem lifetimeOf_nonneg (s : DurStr) (maxI : Dur) (h0 : 0 ≤ maxI) : 0 ≤ (lifetimeOf s maxI).getD 0 := by
  unfold lifetimeOf
  cases resolve s (3 * maxI) with
  | none => exact Int.le_refl 0
  | some l =>
    simp only
    split
    · rename_i h; simp only [Option.getD_some]; omega
    · exact Int.le_refl 0

/-- a documented advertising stanza has `4 s ≤ max_interval ≤ 1800 s` -/
theorem doc_maxI (i : RawInterface) (hdoc : docInterface i = true) (hadv : i.monitor = false) :
    ∃ maxI, plainDur i.maxInterval (600 * second) = some maxI ∧ 4 * second ≤ maxI ∧ maxI ≤ 1800 * second ∧
      Props.C02.docScalars i maxI = true ∧ Props.C02.docPlugins i maxI = true := by
  unfold docInterface at hdoc
  rw [hadv, Props.C02.docAdvertising_eq] at hdoc
  simp only [Bool.false_and, Bool.not_false, Bool.false_or, Bool.true_and] at hdoc
  cases hm : plainDur i.maxInterval (600 * second) with
  | none => rw [hm] at hdoc; cases hdoc
  | some maxI =>
    rw [hm] at hdoc
    simp only [Bool.and_eq_true] at hdoc
    refine ⟨maxI, rfl, ?_, ?_, hdoc.1, hdoc.2⟩
    · have := hdoc.1
      unfold Props.C02.docScalars at this
      simp only [Bool.and_eq_true, decide_eq_true_eq] at this
      exact this.1.1.1.1.1.1.1
    · have := hdoc.1
      unfold Props.C02.docScalars at this
      simp only [Bool.and_eq_true, decide_eq_true_eq] at this
      exact this.1.1.1.1.1.1.2

theorem expInterface_lifetime_nonneg (n : Nat) (i : RawInterface) (hdoc : docInterface i = true) :
    0 ≤ (expInterface n i).defaultLifetime := by
  unfold expInterface
  cases hmon : i.monitor with
  | true => exact Int.le_refl 0
  | false =>
    obtain ⟨maxI, hm, h4, _, _, _⟩ := doc_maxI i hdoc hmon
    simp only [Bool.false_eq_true, if_false, hm, Option.getD_some]
    apply lifetimeOf_nonneg
    unfold second at h4; omega

/-- **C01.**  The RA built from the resolved interface of a documented advertising stanza is
    the RA the stanza calls for — header and options, in order, nothing else — and generation
    fails exactly when the specification says it must. -/
theorem build_eq_spec (n : Nat) (i : RawInterface) (sys : SysState) (fw : Bool)
    (hdoc : docInterface i = true) (hadv : i.monitor = false) :
    (routerAdvertisement (expInterface n i) sys fw).map (·.1) = expectedRA i sys fw := by
  have h0 := expInterface_lifetime_nonneg n i hdoc
  revert h0
  unfold routerAdvertisement expectedRA expInterface
  simp only [hadv, Bool.false_eq_true, if_false, options_eq_spec]
  intro h0
  cases expectedOptions i sys ((plainDur i.maxInterval (600 * second)).getD 0) with
  | none => rfl
  | some opts =>
    simp only [Option.map_some]
    generalize (lifetimeOf i.defaultLifetime ((plainDur i.maxInterval (600 * second)).getD 0)).getD 0 = dl at h0
    cases fw with
    | true => simp
    | false =>
      by_cases hp : dl > 0
      · simp [hp]
      · have : dl = 0 := by omega
        simp [this]

/-- the statement with the input well-formedness hypothesis of C02 (not needed here: the
    per-stanza lemmas hold for every raw stanza) -/
theorem ra_eq_spec (n : Nat) (i : RawInterface) (sys : SysState) (fw : Bool) (_hwf : wfIface i = true)
    (hdoc : docInterface i = true) (hadv : i.monitor = false) :
    (routerAdvertisement (expInterface n i) sys fw).map (·.1) = expectedRA i sys fw :=
  build_eq_spec n i sys fw hdoc hadv

/-- parse, then build: whatever interface the parser returns for an advertising stanza, the RA
    built from it is the RA the stanza calls for -/
theorem parse_then_build (n : Nat) (i : RawInterface) (sys : SysState) (fw : Bool) (hwf : wfIface i = true)
    (hadv : i.monitor = false) (ifi : Interface) (h : parseInterface n i = some ifi) :
    (routerAdvertisement ifi sys fw).map (·.1) = expectedRA i sys fw := by
  rw [parseInterface_eq n i hwf] at h
  cases hd : docInterface i with
  | false => rw [hd] at h; cases h
  | true =>
    rw [hd] at h
    simp only [if_true, Option.some.injEq] at h
    subst h
    exact build_eq_spec n i sys fw hd hadv

/-- the misconfiguration flag of the same build: reported iff not forwarding and the stanza's
    resolved default lifetime is positive -/
theorem build_misconfig (n : Nat) (i : RawInterface) (sys : SysState) (fw : Bool) (hadv : i.monitor = false)
    (ra : RA) (mis : Bool) (h : routerAdvertisement (expInterface n i) sys fw = some (ra, mis)) :
    mis = (!fw && decide (0 < (lifetimeOf i.defaultLifetime ((plainDur i.maxInterval (600 * second)).getD 0)).getD 0)) := by
  revert h
  unfold routerAdvertisement expInterface
  simp only [hadv, Bool.false_eq_true, if_false]
  cases applyAll sys (expPlugins i ((plainDur i.maxInterval (600 * second)).getD 0)) with
  | none => intro h; cases h
  | some opts =>
    simp only
    generalize (lifetimeOf i.defaultLifetime ((plainDur i.maxInterval (600 * second)).getD 0)).getD 0 = dl
    cases fw <;> by_cases hp : dl > 0 <;> simp [hp] <;> intro _ h <;> exact h.symm

/-! ### plugin order and counts -/

/-- the kinds of the parsed plugin list: all prefixes, then all routes, RDNSS, DNSSL, at most
    one MTU (iff `mtu ≠ 0`), at most one source LLA (iff `source_lla` is unset or true), at
    most one captive portal (iff configured), then all PREF64 -/
theorem kinds_eq (i : RawInterface) (maxI : Dur) :
    (expPlugins i maxI).map Plugin.kind =
      List.replicate i.prefixes.length 0 ++ List.replicate i.routes.length 1 ++
      List.replicate i.rdnss.length 2 ++ List.replicate i.dnssl.length 3 ++
      List.replicate (if i.mtu ≠ 0 then 1 else 0) 4 ++
      List.replicate (if i.sourceLLA.getD true then 1 else 0) 5 ++
      List.replicate (match i.captivePortal with | .ok _ _ => 1 | _ => 0) 6 ++
      List.replicate i.pref64.length 7 := by
  have hconst : ∀ {α : Type} (l : List α) (f : α → Plugin) (k : Nat), (∀ x, (f x).kind = k) →
      (l.map f).map Plugin.kind = List.replicate l.length k := by
    intro α l f k h
    induction l with
    | nil => rfl
    | cons x xs ih => simp only [List.map_cons, List.length_cons, List.replicate_succ, h x]; rw [← ih]
  unfold expPlugins
  simp only [List.map_append]
  rw [hconst i.prefixes expPrefix 0 (fun _ => rfl), hconst i.routes expRoute 1 (fun _ => rfl),
    hconst i.rdnss (expRDNSS maxI) 2 (fun _ => rfl), hconst i.dnssl (expDNSSL maxI) 3 (fun _ => rfl),
    hconst i.pref64 _ 7 (fun _ => rfl)]
  congr 1; congr 1; congr 1; congr 1
  · by_cases h : i.mtu = 0 <;> simp [h, Plugin.kind]
  · cases i.sourceLLA.getD true <;> rfl
  · cases i.captivePortal <;> rfl

/-- the plugins are applied in the documented order: prefixes, routes, RDNSS, DNSSL, MTU,
    source LLA, captive portal, PREF64 -/
theorem plugins_order (i : RawInterface) (maxI : Dur) :
    ((expPlugins i maxI).map Plugin.kind).Pairwise (· ≤ ·) := by
  rw [kinds_eq]
  simp only [List.pairwise_append, List.pairwise_replicate, List.mem_append, List.mem_replicate]
  refine ⟨⟨⟨⟨⟨⟨⟨?_, ?_, ?_⟩, ?_, ?_⟩, ?_, ?_⟩, ?_, ?_⟩, ?_, ?_⟩, ?_, ?_⟩, ?_, ?_⟩ <;>
    first
      | (right; exact Nat.le_refl _)
      | (intro a ha b hb; omega)

/-- … and their options appear in that order in every RA (`ra_eq_spec`), because `applyAll`
    concatenates in list order -/
theorem count_kinds (i : RawInterface) (maxI : Dur) :
    let ks := (expPlugins i maxI).map Plugin.kind
    ks.count 0 = i.prefixes.length ∧ ks.count 1 = i.routes.length ∧ ks.count 2 = i.rdnss.length ∧
    ks.count 3 = i.dnssl.length ∧ ks.count 4 = (if i.mtu ≠ 0 then 1 else 0) ∧
    ks.count 5 = (if i.sourceLLA.getD true then 1 else 0) ∧
    ks.count 6 = (match i.captivePortal with | .ok _ _ => 1 | _ => 0) ∧
    ks.count 7 = i.pref64.length ∧ ks.length = i.prefixes.length + i.routes.length + i.rdnss.length +
      i.dnssl.length + (if i.mtu ≠ 0 then 1 else 0) + (if i.sourceLLA.getD true then 1 else 0) +
      (match i.captivePortal with | .ok _ _ => 1 | _ => 0) + i.pref64.length := by
  simp only [kinds_eq, List.count_append, List.count_replicate, List.length_append, List.length_replicate]
  simp

theorem mtu_iff (i : RawInterface) (maxI : Dur) (m : Int) :
    Plugin.mtu m ∈ expPlugins i maxI ↔ (i.mtu ≠ 0 ∧ m = i.mtu) := by
  unfold expPlugins
  by_cases h : i.mtu = 0 <;> cases i.sourceLLA.getD true <;> cases i.captivePortal <;>
    simp [expPrefix, expRoute, expRDNSS, expDNSSL, h]

theorem lla_iff (i : RawInterface) (maxI : Dur) : Plugin.lla ∈ expPlugins i maxI ↔ i.sourceLLA.getD true = true := by
  unfold expPlugins
  by_cases h : i.mtu = 0 <;> cases i.sourceLLA.getD true <;> cases i.captivePortal <;>
    simp [expPrefix, expRoute, expRDNSS, expDNSSL, h]

theorem portal_iff (i : RawInterface) (maxI : Dur) (u l : Nat) :
    Plugin.captivePortal u l ∈ expPlugins i maxI ↔ i.captivePortal = .ok u l := by
  unfold expPlugins
  by_cases h : i.mtu = 0 <;> cases i.sourceLLA.getD true <;> cases i.captivePortal <;>
    simp [expPrefix, expRoute, expRDNSS, expDNSSL, h] <;> exact ⟨fun h => ⟨h.1.symm, h.2.symm⟩, fun h => ⟨h.1.symm, h.2.symm⟩⟩

/-- the source order of the `append` calls in `parsePlugins` is the documented one (breaks if
    the source changes) -/
theorem gen_append_order :
    Gen.Config.pluginAppendOrder =
      ["p", "r", "rdnss", "dnssl", "plugin.NewMTU(ifi.MTU)", "&plugin.LLA{…}", "cp",
       "plugin.NewPREF64(prefix, maxInterval)"] := by decide

/-! ### the PREF64 lifetime -/

/-- for every accepted `max_interval` the PREF64 lifetime is 3·MaxRtrAdvInterval rounded up to a
    multiple of 8 s; at most 5400 s, so the 65528 s cap is never reached -/
theorem pref64_lifetime_formula (maxI : Dur) (h4 : 4 * second ≤ maxI) (h1800 : maxI ≤ 1800 * second) :
    Spec.C02.pref64Lifetime maxI = Spec.C02.ceil8s (3 * maxI) ∧
    Spec.C02.pref64Lifetime maxI ≤ 5400 * second ∧
    Spec.C02.pref64Lifetime maxI % (8 * second) = 0 := by
  unfold Spec.C02.pref64Lifetime Spec.C02.ceil8s second at *
  omega

theorem pref64_cap (maxI : Dur) (_h : 0 ≤ maxI) : Spec.C02.pref64Lifetime maxI ≤ 65528 * second := by
  unfold Spec.C02.pref64Lifetime
  omega

/-- never less than 3·MaxRtrAdvInterval (also for a fractional interval), and less than 8 s above -/
theorem pref64_lifetime_ge (maxI : Dur) (h4 : 4 * second ≤ maxI) (h1800 : maxI ≤ 1800 * second) :
    3 * maxI ≤ Spec.C02.pref64Lifetime maxI ∧
    Spec.C02.pref64Lifetime maxI < 3 * maxI + 8 * second := by
  unfold Spec.C02.pref64Lifetime Spec.C02.ceil8s second at *
  omega

/-- for a whole number of seconds this is `ceil8 (3·seconds)` seconds -/
theorem pref64_lifetime_whole_seconds (s : Int) (h4 : 4 ≤ s) (h1800 : s ≤ 1800) :
    Spec.C02.pref64Lifetime (s * second) = Spec.C02.ceil8 (3 * s) * second := by
  unfold Spec.C02.pref64Lifetime Spec.C02.ceil8s Spec.C02.ceil8 second
  omega

/-- the value the Go constructor computes is the documented one -/
theorem pref64_model_formula (maxI : Dur) (h4 : 4 * second ≤ maxI) (h1800 : maxI ≤ 1800 * second) :
    Model.pref64Lifetime maxI = Spec.C02.ceil8s (3 * maxI) := by
  rw [Props.C02.pref64_lifetime_eq maxI (by unfold second at h4; omega)]
  exact (pref64_lifetime_formula maxI h4 h1800).1

/-- F-20: what the pinned source computed (whole seconds first) falls short of 3·max for a
    fractional interval: 16 s for `max_interval = 5.5 s`, where 24 s is called for. -/
example : Model.pref64LifetimeWholeSeconds (5500 * ms) = 16 * second ∧
    Spec.C02.pref64Lifetime (5500 * ms) = 24 * second ∧ Model.pref64LifetimeDur (5500 * ms) = 24 * second := by
  decide

/-! ### when generation fails -/

theorem concatOpts_none_iff (l : List (Option (List Opt))) : concatOpts l = none ↔ none ∈ l := by
  induction l with
  | nil => simp [concatOpts]
  | cons x xs ih =>
    cases x with
    | none => simp [concatOpts]
    | some o => simp [concatOpts, ih]

/-- the stanza uses the `::/64` wildcard (key absent/empty, or written out) -/
def wildP (p : RawPrefix) : Bool := (pfxOf wildPrefix p.pstr).getD wildPrefix == wildPrefix
/-- the stanza uses the `::/0` wildcard -/
def wildR (r : RawRoute) : Bool := (pfxOf wildRoute r.pstr).getD wildRoute == wildRoute
/-- the stanza uses the `::` wildcard (no servers at all, or `::` among them) -/
def wildD (d : RawRDNSS) : Bool := d.servers.isEmpty || (d.servers.map serverAddr).any (·.isUnspecified)

theorem prefixOpts_none_iff (sys : SysState) (p : RawPrefix) :
    prefixOpts sys p = none ↔ (wildP p = true ∧ sys.addrs = none) := by
  unfold prefixOpts wildP
  simp only
  cases ((pfxOf wildPrefix p.pstr).getD wildPrefix == wildPrefix) <;> cases sys.addrs <;> simp

theorem routeOpts_none_iff (sys : SysState) (r : RawRoute) :
    routeOpts sys r = none ↔ (wildR r = true ∧ sys.routes = none) := by
  unfold routeOpts wildR
  simp only
  cases ((pfxOf wildRoute r.pstr).getD wildRoute == wildRoute) <;> cases sys.routes <;> simp

theorem rdnssOpts_none_iff (sys : SysState) (maxI : Dur) (d : RawRDNSS) :
    rdnssOpts sys maxI d = none ↔
      (wildD d = true ∧ (sys.addrs = none ∨ ∃ as, sys.addrs = some as ∧ currentRDNSS as = none)) := by
  unfold rdnssOpts wildD
  simp only
  cases (d.servers.isEmpty || (d.servers.map serverAddr).any (·.isUnspecified)) with
  | false => simp
  | true =>
    cases sys.addrs with
    | none => simp
    | some as => cases currentRDNSS as <;> simp

theorem expectedOptions_none_iff (i : RawInterface) (sys : SysState) (maxI : Dur) :
    expectedOptions i sys maxI = none ↔
      (∃ p ∈ i.prefixes, prefixOpts sys p = none) ∨ (∃ r ∈ i.routes, routeOpts sys r = none) ∨
      (∃ d ∈ i.rdnss, rdnssOpts sys maxI d = none) := by
  unfold expectedOptions
  rw [concatOpts_none_iff]
  simp only [List.mem_append, List.mem_map, List.mem_singleton, reduceCtorEq, and_false, exists_false, or_false]
  constructor
  · rintro ((⟨p, hp, h⟩ | ⟨r, hr, h⟩) | ⟨d, hd, h⟩)
    · exact Or.inl ⟨p, hp, h⟩
    · exact Or.inr (Or.inl ⟨r, hr, h⟩)
    · exact Or.inr (Or.inr ⟨d, hd, h⟩)
  · rintro (⟨p, hp, h⟩ | ⟨r, hr, h⟩ | ⟨d, hd, h⟩)
    · exact Or.inl (Or.inl ⟨p, hp, h⟩)
    · exact Or.inl (Or.inr ⟨r, hr, h⟩)
    · exact Or.inr ⟨d, hd, h⟩

/-- **Generation fails iff** a `::/64` prefix wildcard cannot list the interface's addresses,
    a `::/0` route wildcard cannot list the routes, or an RDNSS `::` wildcard cannot list the
    addresses or finds no usable one — and for no other reason. -/
theorem ra_fail_iff (i : RawInterface) (sys : SysState) (fw : Bool) :
    expectedRA i sys fw = none ↔
      ((∃ p ∈ i.prefixes, wildP p = true) ∧ sys.addrs = none) ∨
      ((∃ r ∈ i.routes, wildR r = true) ∧ sys.routes = none) ∨
      ((∃ d ∈ i.rdnss, wildD d = true) ∧
        (sys.addrs = none ∨ ∃ as, sys.addrs = some as ∧ currentRDNSS as = none)) := by
  unfold expectedRA
  simp only [Option.map_eq_none_iff, expectedOptions_none_iff, prefixOpts_none_iff, routeOpts_none_iff,
    rdnssOpts_none_iff]
  constructor
  · rintro (⟨p, hp, hw, h⟩ | ⟨r, hr, hw, h⟩ | ⟨d, hd, hw, h⟩)
    · exact Or.inl ⟨⟨p, hp, hw⟩, h⟩
    · exact Or.inr (Or.inl ⟨⟨r, hr, hw⟩, h⟩)
    · exact Or.inr (Or.inr ⟨⟨d, hd, hw⟩, h⟩)
  · rintro (⟨⟨p, hp, hw⟩, h⟩ | ⟨⟨r, hr, hw⟩, h⟩ | ⟨⟨d, hd, hw⟩, h⟩)
    · exact Or.inl ⟨p, hp, hw, h⟩
    · exact Or.inr (Or.inl ⟨r, hr, hw, h⟩)
    · exact Or.inr (Or.inr ⟨d, hd, hw, h⟩)

/-- the same for the model's build of an accepted stanza -/
theorem build_fail_iff (n : Nat) (i : RawInterface) (sys : SysState) (fw : Bool)
    (hdoc : docInterface i = true) (hadv : i.monitor = false) :
    routerAdvertisement (expInterface n i) sys fw = none ↔
      ((∃ p ∈ i.prefixes, wildP p = true) ∧ sys.addrs = none) ∨
      ((∃ r ∈ i.routes, wildR r = true) ∧ sys.routes = none) ∨
      ((∃ d ∈ i.rdnss, wildD d = true) ∧
        (sys.addrs = none ∨ ∃ as, sys.addrs = some as ∧ currentRDNSS as = none)) := by
  rw [← ra_fail_iff i sys fw, ← build_eq_spec n i sys fw hdoc hadv, Option.map_eq_none_iff]

/-- for a documented stanza the prefix wildcard is written as the empty key or as `::/64` -/
theorem wildP_iff (p : RawPrefix) (h : docPrefix p = true) :
    wildP p = true ↔ (p.pstr = .empty ∨ p.pstr = .ok wildPrefix) := by
  obtain ⟨q, hq⟩ := Props.C02.docPrefix_some p h
  unfold wildP
  cases hs : p.pstr with
  | empty => simp [pfxOf]
  | bad => rw [hs] at hq; simp [pfxOf] at hq
  | ok x =>
    rw [hs] at hq
    simp only [pfxOf] at hq ⊢
    split at hq
    · rename_i hc; simp [hc]
    · cases hq

theorem wildR_iff (r : RawRoute) (h : docRoute r = true) :
    wildR r = true ↔ (r.pstr = .empty ∨ r.pstr = .ok wildRoute) := by
  obtain ⟨q, hq⟩ := Props.C02.docRoute_some r h
  unfold wildR
  cases hs : r.pstr with
  | empty => simp [pfxOf]
  | bad => rw [hs] at hq; simp [pfxOf] at hq
  | ok x =>
    rw [hs] at hq
    simp only [pfxOf] at hq ⊢
    split at hq
    · rename_i hc; simp [hc]
    · cases hq

/-! ### rebuilding -/

/- "Building the RA again yields an identical RA and never alters the configuration": in the model
   a build is a pure function of (configuration, system state, forwarding), so the clause is
   definitional there and no theorem is stated for it. What can go wrong lives in the Go code — a
   build that writes into the slices of the configuration or of a plugin (seeded changes C01, C01b,
   C14) — and is observed on the real code: every case builds the RA three times and compares
   (`unstable`), and compares the configuration before and after (`config-mutated`). -/

/-! ### the model meets the oracle -/

/-- The oracle accepts the model's output on every documented advertising stanza. -/
theorem holds_model (n : Nat) (i : RawInterface) (sys : SysState) (fw : Bool)
    (hdoc : docInterface i = true) (hadv : i.monitor = false) :
    (match routerAdvertisement (expInterface n i) sys fw with
     | none => Spec.C01.holds i sys fw "err" none
     | some r => Spec.C01.holds i sys fw "ok" (some r.1)) = (true, "") := by
  have h := build_eq_spec n i sys fw hdoc hadv
  unfold Spec.C01.holds
  simp only [hdoc, Bool.not_true, Bool.false_eq_true, if_false]
  cases hr : routerAdvertisement (expInterface n i) sys fw with
  | none =>
    rw [hr] at h
    simp only [Option.map_none] at h
    rw [← h]
    decide
  | some r =>
    rw [hr] at h
    simp only [Option.map_some] at h
    rw [← h]
    simp only [beq_self_eq_true, if_true]
    decide

/-- an undocumented stanza is rejected by the parser, which is what the oracle demands -/
theorem holds_model_rej (n : Nat) (i : RawInterface) (sys : SysState) (fw : Bool) (hwf : wfIface i = true)
    (hdoc : docInterface i = false) :
    parseInterface n i = none ∧ Spec.C01.holds i sys fw "rej" none = (true, "") := by
  refine ⟨by rw [parseInterface_eq n i hwf, hdoc]; rfl, ?_⟩
  unfold Spec.C01.holds
  simp only [hdoc, Bool.not_false, if_true]
  decide

/-! ### non-vacuity -/

/-- an advertising stanza using every stanza kind: both prefix forms (one deprecated, with a
    sub-second lifetime), both route forms, an RDNSS stanza with a static server and the `::`
    wildcard, DNSSL, MTU, source LLA (default), captive portal and PREF64 -/
def exIface : RawInterface :=
  { name := 1, advertise := true, maxInterval := .lit (60 * second), hopLimit := some 32,
    defaultLifetime := .auto,
    prefixes := [ {}, { pstr := .ok { addr := { val := 0x20010db8000000010000000000000000 }, bits := 64 },
                        autonomous := some false, valid := .lit (3600 * second + 1),
                        preferred := .lit (1800 * second), deprecated := true } ],
    routes := [ { pstr := .ok { addr := { val := 0x20010db8ffff00000000000000000000 }, bits := 48 }, preference := 3 }, {} ],
    rdnss := [ { servers := [ .ok { val := 0x20010db8000000010000000000000053 }, .ok { val := 0 } ] } ],
    dnssl := [ { lifetime := .lit (100 * second), names := [7, 8] } ],
    pref64 := [ .unset ],
    mtu := 1500, captivePortal := .ok 9 30 }

def exSys : SysState :=
  { addrs := some [ { addr := { addr := { val := 0xfd000000000000010000000000000001 }, bits := 64 }, stablePrivacy := true },
                    { addr := { addr := { val := 0xfe800000000000000000000000000001 }, bits := 64 } } ],
    routes := some [ { addr := { val := 0x20010db8aaaa00000000000000000000 }, bits := 48 } ],
    mac := some (6, 0x0242ac110002), epoch := 0, now := 600 * second + 5 }

/-- the RA `exIface` calls for in `exSys`, 600.000000005 s after the epoch -/
def exRA : RA :=
  { hopLimit := 32, routerLifetime := 180 * second,
    options := [
      .pi { val := 0xfd000000000000010000000000000000 } 64 true true (24 * hour) (4 * hour),
      .pi { val := 0x20010db8000000010000000000000000 } 64 true false 2999999999996 1199999999995,
      .ri { val := 0x20010db8ffff00000000000000000000 } 48 prefHigh (24 * hour),
      .ri { val := 0x20010db8aaaa00000000000000000000 } 48 prefMedium (24 * hour),
      .rdnss (180 * second) [{ val := 0xfd000000000000010000000000000001 }, { val := 0x20010db8000000010000000000000053 }],
      .dnssl (100 * second) [7, 8], .mtu 1500, .lla 6 0x0242ac110002, .captivePortal 9 30,
      .pref64 { addr := { val := 0x0064ff9b000000000000000000000000 }, bits := 96 } (184 * second) ] }

theorem ex_expected : expectedRA exIface exSys true = some exRA := by decide +kernel


/-- the parser accepts `exIface`, and the RA built from the parsed interface is `exRA` -/
example : docInterface exIface = true ∧ parseInterface 1 exIface = some (expInterface 1 exIface) ∧
    routerAdvertisement (expInterface 1 exIface) exSys true = some (exRA, false) ∧
    routerAdvertisement (expInterface 1 exIface) exSys false = some ({ exRA with routerLifetime := 0 }, true) := by
  decide +kernel

/-- generation fails when the address source fails (`::/64` and `::` wildcards), when the route
    source fails (`::/0` wildcard), and when no address is usable for the RDNSS wildcard -/
example :
    routerAdvertisement (expInterface 1 exIface) { exSys with addrs := none } true = none ∧
    routerAdvertisement (expInterface 1 exIface) { exSys with routes := none } true = none ∧
    routerAdvertisement (expInterface 1 exIface) { exSys with addrs := some [] } true = none ∧
    (routerAdvertisement (expInterface 1 { exIface with prefixes := [], rdnss := [] }) { exSys with addrs := none } true).isSome = true := by
  decide +kernel

end Corerad.Props.C01
