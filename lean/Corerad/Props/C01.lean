import Corerad.Spec.C01
namespace Corerad.Props.C01
theorem placeholder : True := trivial
end Corerad.Props.C01
