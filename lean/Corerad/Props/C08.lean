/-
  C08 — on termination exactly one zero-lifetime RA is sent, last; on reload none.
  Theorems over every trace of the shutdown transition system: any number of transmissions
  pending or in flight, any latencies, either decision.

  Every proof goes through the per-event inversion lemmas of Lemmas/Shutdown.lean.
-/
import Corerad.Lemmas.Shutdown
import Corerad.Gen.Server

namespace Corerad.Props.C08

open Corerad Corerad.Model

/-- the scheduler's cancel branch waits for the transmissions its workers have in flight, and
    `shutdown` consults `terminate()` before sending (both extracted from the source; this
    lemma fails to build on a tree where the scheduler does not wait) -/
theorem gen_facts :
    Gen.Advertise.shutdownAwaitsInflight = true ∧ Gen.Advertise.shutdownChecksTerminate = true ∧
    Gen.Advertise.shutdownCalls_send = true := by decide

/-- The decision "terminate or reload" the advertiser acts on is the server's terminator, and the
    signal task sets it from the signal before it cancels the tasks' context (regenerated from
    `signalTask.Run`; the Serve scenarios of C20 also run under this property): a terminating
    advertiser that finds its context cancelled already sees `terminate() = true`. -/
theorem gen_terminate_visible_before_cancel :
    Gen.Server.signalSetBeforeCancel = true ∧ Gen.Server.termIsIsTerminal = true := by decide

/-- The send gate's protocol, as it stands in the source (statement lists, regenerated): `enter`
    refuses once the gate is closed and otherwise registers the transmission under the lock;
    `close` marks the gate closed under the lock and then waits for the registered transmissions;
    `leave` deregisters.  This is what the transition system's "no transmission begins after the
    scheduler has stopped, and those in flight are awaited" stands on. -/
theorem gen_send_gate :
    Gen.Advertise.gateEnterStmts =
      ["g.mu.Lock()", "defer g.mu.Unlock()", "if g.closed { return false }", "g.wg.Add(1)", "return true"] ∧
    Gen.Advertise.gateCloseStmts = ["g.mu.Lock()", "g.closed = true", "g.mu.Unlock()", "g.wg.Wait()"] ∧
    Gen.Advertise.gateLeaveStmts = ["g.wg.Done()"] := by
  decide

/-- …and there is no other way out of the scheduler's loop: every `return` inside it is preceded
    by that wait -/
theorem gen_all_exits_await : Gen.Advertise.scheduleAllExitsAwait = true := by decide

/-- invariant of the awaiting system -/
structure Inv (s : ShState) : Prop where
  final_le : s.final ≤ 2
  final_idle : s.final ≠ 0 → s.inflight = 0 ∧ s.cancelled = true ∧ s.terminate = true
  ret_idle : s.returned = true → s.inflight = 0 ∧ s.cancelled = true ∧ s.final = (if s.terminate then 2 else 0)

theorem inv_init (t : Bool) : Inv { terminate := t } :=
  ⟨Nat.zero_le 2, fun h => absurd rfl h, fun h => Bool.noConfusion h⟩

theorem inv_step (s s' : ShState) (e : ShEv) (h : Inv s) (hs : shStep true s e = some s') : Inv s' := by
  obtain ⟨h1, h2, h3⟩ := h
  cases e with
  | writeBegin =>
    -- final = 0, not returned
    obtain ⟨⟨hf, hr⟩, rfl⟩ := (shStep_writeBegin true s s').mp hs
    refine ⟨h1, ?_, ?_⟩
    · intro hf'; exact absurd hf hf'
    · intro hr'; rw [show s.returned = true from hr'] at hr; cases hr
  | writeEnd =>
    -- inflight > 0, so final = 0 and not returned
    obtain ⟨hpos, rfl⟩ := (shStep_writeEnd true s s').mp hs
    have hf : s.final = 0 := by
      by_cases hf : s.final = 0
      · exact hf
      · have := (h2 hf).1; omega
    have hr : s.returned = false := by
      cases hret : s.returned
      · rfl
      · have := (h3 hret).1; omega
    refine ⟨h1, ?_, ?_⟩
    · intro hf'; exact absurd hf hf'
    · intro hr'; rw [show s.returned = true from hr'] at hr; cases hr
  | cancel =>
    obtain ⟨⟨_, hr⟩, rfl⟩ := (shStep_cancel true s s').mp hs
    refine ⟨h1, ?_, ?_⟩
    · intro hf; exact ⟨(h2 hf).1, rfl, (h2 hf).2.2⟩
    · intro hr'; rw [show s.returned = true from hr'] at hr; cases hr
  | finalBegin =>
    obtain ⟨⟨hcan, hterm, _, hr, hidle⟩, rfl⟩ := (shStep_finalBegin true s s').mp hs
    refine ⟨(by decide : (1 : Nat) ≤ 2), ?_, ?_⟩
    · intro _; exact ⟨hidle rfl, hcan, hterm⟩
    · intro hr'; rw [show s.returned = true from hr'] at hr; cases hr
  | finalEnd =>
    obtain ⟨hf1, rfl⟩ := (shStep_finalEnd true s s').mp hs
    have hne : s.final ≠ 0 := by omega
    refine ⟨Nat.le_refl 2, ?_, ?_⟩
    · intro _; exact h2 hne
    · intro hr
      have hr' : s.returned = true := hr
      obtain ⟨a, b, c⟩ := h3 hr'
      have ht : s.terminate = true := (h2 hne).2.2
      rw [ht] at c
      -- c : s.final = 2, against hf1
      exact absurd (c.symm.trans hf1) (by decide)
  | runReturn =>
    obtain ⟨⟨hcan, _, hidle, hfin⟩, rfl⟩ := (shStep_runReturn true s s').mp hs
    refine ⟨h1, h2, ?_⟩
    intro _; exact ⟨hidle rfl, hcan, hfin⟩

theorem inv_run : ∀ (tr : List ShEv) (s s' : ShState), Inv s → shRun true s tr = some s' → Inv s'
  | [], s, s', h, hr => by rw [← (shRun_nil true s s').mp hr]; exact h
  | e :: es, s, s', h, hr => by
    obtain ⟨s1, hs1, hr1⟩ := (shRun_cons true s s' e es).mp hr
    exact inv_run es s1 s' (inv_step s s1 e h hs1) hr1

/-- once the final RA has begun, only its completion and `Run` returning are enabled, and the
    final RA stays begun -/
theorem step_after_final (s s1 : ShState) (e : ShEv) (h : Inv s) (hf : s.final ≠ 0)
    (hs : shStep true s e = some s1) :
    (e == ShEv.finalEnd || e == ShEv.runReturn) = true ∧ s1.final ≠ 0 := by
  obtain ⟨hidle, hcan, _⟩ := h.final_idle hf
  cases e with
  | writeBegin =>
    obtain ⟨⟨hf0, _⟩, _⟩ := (shStep_writeBegin true s s1).mp hs
    exact absurd hf0 hf
  | writeEnd =>
    obtain ⟨hpos, _⟩ := (shStep_writeEnd true s s1).mp hs
    omega
  | cancel =>
    -- cancel while the final RA is out: impossible, cancellation came first
    obtain ⟨⟨hnc, _⟩, _⟩ := (shStep_cancel true s s1).mp hs
    rw [hcan] at hnc; cases hnc
  | finalBegin =>
    obtain ⟨⟨_, _, hf0, _, _⟩, _⟩ := (shStep_finalBegin true s s1).mp hs
    exact absurd hf0 hf
  | finalEnd =>
    obtain ⟨_, rfl⟩ := (shStep_finalEnd true s s1).mp hs
    exact ⟨by decide, (by decide : (2 : Nat) ≠ 0)⟩
  | runReturn =>
    obtain ⟨_, rfl⟩ := (shStep_runReturn true s s1).mp hs
    exact ⟨by decide, hf⟩

/-- once the final RA has begun, only its completion and `Run` returning can follow -/
theorem after_final (s : ShState) (h : Inv s) (hf : s.final ≠ 0) :
    ∀ (tr : List ShEv) (s' : ShState), shRun true s tr = some s' →
      tr.all (fun e => e == .finalEnd || e == .runReturn) = true
  | [], _, _ => rfl
  | e :: es, s', hr => by
    obtain ⟨s1, hs1, hr1⟩ := (shRun_cons true s s' e es).mp hr
    have hinv1 := inv_step s s1 e h hs1
    have he := step_after_final s s1 e h hf hs1
    rw [List.all_cons, Bool.and_eq_true]
    exact ⟨he.1, after_final s1 hinv1 he.2 es s' hr1⟩

/-- **The final RA is the last packet**: in every trace, nothing but the final RA's own
    completion and `Run` returning follows the start of the final RA. -/
theorem final_is_last :
    ∀ (tr : List ShEv) (s s' : ShState), Inv s → s.final = 0 → shRun true s tr = some s' →
      Spec.C08.finalIsLast tr = true
  | [], _, _, _, _, _ => rfl
  | e :: es, s, s', h, hf0, hr => by
    obtain ⟨s1, hs1, hr1⟩ := (shRun_cons true s s' e es).mp hr
    have hinv1 := inv_step s s1 e h hs1
    have heff := (shStep_effect true s s1 e hs1).2.1
    by_cases he : e = .finalBegin
    · subst he
      have hne : s1.final ≠ 0 := by
        rcases heff with ⟨_, hne, _⟩ | ⟨_, _, h1⟩ | ⟨hfe, _, _⟩
        · exact absurd rfl hne
        · omega
        · cases hfe
      show (es.all fun e => e == .finalEnd || e == .runReturn) = true
      exact after_final s1 hinv1 hne es s' hr1
    · have hf1 : s1.final = 0 := by
        rcases heff with ⟨hsame, _, _⟩ | ⟨hfb, _, _⟩ | ⟨_, h1, _⟩
        · omega
        · exact absurd hfb he
        · omega
      have ih := final_is_last es s1 s' hinv1 hf1 hr1
      cases e with
      | finalBegin => exact absurd rfl he
      | writeBegin | writeEnd | cancel | finalEnd | runReturn => exact ih

/-- after `Run` has returned no event is enabled -/
theorem no_step_after_return (s s1 : ShState) (e : ShEv) (h : Inv s) (hret : s.returned = true)
    (hs : shStep true s e = some s1) : False := by
  obtain ⟨hidle, _, hfin⟩ := h.ret_idle hret
  cases e with
  | writeBegin =>
    obtain ⟨⟨_, hr⟩, _⟩ := (shStep_writeBegin true s s1).mp hs
    rw [hret] at hr; cases hr
  | writeEnd =>
    obtain ⟨hpos, _⟩ := (shStep_writeEnd true s s1).mp hs
    omega
  | cancel =>
    obtain ⟨⟨_, hr⟩, _⟩ := (shStep_cancel true s s1).mp hs
    rw [hret] at hr; cases hr
  | finalBegin =>
    obtain ⟨⟨_, _, _, hr, _⟩, _⟩ := (shStep_finalBegin true s s1).mp hs
    rw [hret] at hr; cases hr
  | finalEnd =>
    obtain ⟨hf1, _⟩ := (shStep_finalEnd true s s1).mp hs
    rw [hf1] at hfin
    cases ht : s.terminate <;> rw [ht] at hfin <;> exact absurd hfin (by decide)
  | runReturn =>
    obtain ⟨⟨_, hr, _, _⟩, _⟩ := (shStep_runReturn true s s1).mp hs
    rw [hret] at hr; cases hr

/-- **Nothing is transmitted after `Run` has returned**: `runReturn` ends every trace. -/
theorem nothing_after_return :
    ∀ (tr : List ShEv) (s s' : ShState), Inv s → s.returned = false → shRun true s tr = some s' →
      Spec.C08.nothingAfterReturn tr = true
  | [], _, _, _, _, _ => rfl
  | e :: es, s, s', h, hnr, hr => by
    obtain ⟨s1, hs1, hr1⟩ := (shRun_cons true s s' e es).mp hr
    have hinv1 := inv_step s s1 e h hs1
    have heff := (shStep_effect true s s1 e hs1).2.2.1
    by_cases he : e = .runReturn
    · subst he
      have hret : s1.returned = true := by
        rcases heff with ⟨_, hne⟩ | ⟨_, _, h1⟩
        · exact absurd rfl hne
        · exact h1
      cases es with
      | nil => rfl
      | cons e2 es2 =>
        obtain ⟨s2, hs2, _⟩ := (shRun_cons true s1 s' e2 es2).mp hr1
        exact (no_step_after_return s1 s2 e2 hinv1 hret hs2).elim
    · have hnr1 : s1.returned = false := by
        rcases heff with ⟨hsame, _⟩ | ⟨hrr, _, _⟩
        · rw [hsame]; exact hnr
        · exact absurd hrr he
      have ih := nothing_after_return es s1 s' hinv1 hnr1 hr1
      cases e with
      | runReturn => exact absurd rfl he
      | writeBegin | writeEnd | cancel | finalBegin | finalEnd => exact ih

/-- counting the final RA's starts and completions along a trace (no invariant needed) -/
theorem final_count :
    ∀ (tr : List ShEv) (s s' : ShState), shRun true s tr = some s' →
      Spec.C08.count .finalBegin tr + (if s.final = 0 then 0 else 1) = (if s'.final = 0 then 0 else 1)
        ∧ Spec.C08.count .finalEnd tr + (if s.final = 2 then 1 else 0) = (if s'.final = 2 then 1 else 0)
  | [], s, s', hr => by
    rw [← (shRun_nil true s s').mp hr]
    exact ⟨Nat.zero_add _, Nat.zero_add _⟩
  | e :: es, s, s', hr => by
    obtain ⟨s1, hs1, hr1⟩ := (shRun_cons true s s' e es).mp hr
    obtain ⟨ih1, ih2⟩ := final_count es s1 s' hr1
    rw [count_cons, count_cons]
    rcases (shStep_effect true s s1 e hs1).2.1 with ⟨hsame, hne1, hne2⟩ | ⟨rfl, h0, h1⟩ | ⟨rfl, h1, h2⟩
    · rw [if_neg hne1, if_neg hne2, ← hsame]
      exact ⟨ih1, ih2⟩
    · rw [h1] at ih1 ih2
      rw [h0, if_pos rfl, if_neg (by decide : ¬ ShEv.finalBegin = ShEv.finalEnd)]
      rw [if_neg (by decide : ¬ (1 = 0))] at ih1
      rw [if_neg (by decide : ¬ (1 = 2))] at ih2
      rw [if_pos rfl, if_neg (by decide : ¬ (0 = 2))]
      exact ⟨ih1, ih2⟩
    · rw [h2] at ih1 ih2
      rw [h1, if_pos rfl, if_neg (by decide : ¬ ShEv.finalEnd = ShEv.finalBegin)]
      rw [if_neg (by decide : ¬ (2 = 0))] at ih1
      rw [if_pos rfl] at ih2
      rw [if_neg (by decide : ¬ (1 = 0)), if_neg (by decide : ¬ (1 = 2))]
      exact ⟨ih1, ih2⟩

/-- **Exactly one final RA iff terminating**: in any complete run (one that ends with `Run`
    returning) the zero-lifetime RA was started and completed exactly once when terminating,
    and never when reloading. -/
theorem final_exactly_once_iff_terminate (t : Bool) (tr : List ShEv) (s' : ShState)
    (hr : shRun true { terminate := t } tr = some s') (hret : s'.returned = true) :
    Spec.C08.count .finalBegin tr = (if t then 1 else 0) ∧
    Spec.C08.count .finalEnd tr = (if t then 1 else 0) := by
  have hinv := inv_run tr _ s' (inv_init t) hr
  have hterm : s'.terminate = t := shRun_terminate true tr _ s' hr
  obtain ⟨_, _, hfin⟩ := hinv.ret_idle hret
  rw [hterm] at hfin
  obtain ⟨h1, h2⟩ := final_count tr _ s' hr
  have h1' : Spec.C08.count .finalBegin tr + 0 = (if s'.final = 0 then 0 else 1) := h1
  have h2' : Spec.C08.count .finalEnd tr + 0 = (if s'.final = 2 then 1 else 0) := h2
  cases t with
  | true =>
    have hfin' : s'.final = 2 := hfin
    rw [hfin'] at h1' h2'
    exact ⟨h1', h2'⟩
  | false =>
    have hfin' : s'.final = 0 := hfin
    rw [hfin'] at h1' h2'
    exact ⟨h1', h2'⟩

/-- The whole oracle holds of every complete trace of the system. -/
theorem holds_model (t : Bool) (tr : List ShEv) (s' : ShState)
    (hr : shRun true { terminate := t } tr = some s') (hret : s'.returned = true)
    (hone : Spec.C08.count .runReturn tr = 1) :
    Spec.C08.holds t tr = true := by
  obtain ⟨h1, h2⟩ := final_exactly_once_iff_terminate t tr s' hr hret
  unfold Spec.C08.holds
  simp only [Bool.and_eq_true, beq_iff_eq]
  refine ⟨⟨⟨⟨hone, h1⟩, by rw [h2, h1]⟩, ?_⟩, ?_⟩
  · exact final_is_last tr _ s' (inv_init t) rfl hr
  · exact nothing_after_return tr _ s' (inv_init t) rfl hr

/-- **Transmissions stop before the final RA and before `Run` returns**: in any accepted trace,
    every scheduled transmission begins before `Run` returns and before the final RA begins. -/
theorem writes_stop_after_cancel_returns (t : Bool) (tr pre post : List ShEv)
    (htr : tr = pre ++ [ShEv.writeBegin] ++ post) (hacc : shAccepts true t tr = true) :
    ShEv.finalBegin ∉ pre ∧ ShEv.runReturn ∉ pre := by
  subst htr
  obtain ⟨s', hr⟩ := (shAccepts_iff true t _).mp hacc
  obtain ⟨m, hr1, _⟩ := (shRun_append true _ post _ s').mp hr
  obtain ⟨s1, hpre, hw⟩ := (shRun_append true pre [ShEv.writeBegin] _ m).mp hr1
  obtain ⟨s2, hstep, _⟩ := (shRun_cons true s1 m .writeBegin []).mp hw
  obtain ⟨⟨hf, hnr⟩, _⟩ := (shStep_writeBegin true s1 s2).mp hstep
  exact ⟨(shRun_final_zero true pre _ s1 hpre hf).2, (shRun_not_returned true pre _ s1 hpre hnr).2⟩

/-- **`Run` returns only after cancellation**: in any accepted trace, `runReturn` is preceded by
    `cancel`. -/
theorem return_requires_cancel (t : Bool) (tr pre post : List ShEv)
    (htr : tr = pre ++ [ShEv.runReturn] ++ post) (hacc : shAccepts true t tr = true) :
    ShEv.cancel ∈ pre := by
  subst htr
  obtain ⟨s', hr⟩ := (shAccepts_iff true t _).mp hacc
  obtain ⟨m, hr1, _⟩ := (shRun_append true _ post _ s').mp hr
  obtain ⟨s1, hpre, hw⟩ := (shRun_append true pre [ShEv.runReturn] _ m).mp hr1
  obtain ⟨s2, hstep, _⟩ := (shRun_cons true s1 m .runReturn []).mp hw
  obtain ⟨⟨hcan, _⟩, _⟩ := (shStep_runReturn true s1 s2).mp hstep
  exact shRun_cancelled true pre _ s1 hpre rfl hcan

/-- The unrepaired ordering (F-5) — the scheduler returning without awaiting in-flight
    transmissions — admits a trace in which a transmission completes after the final RA and after
    `Run` has returned; the awaiting system rejects it. -/
theorem unrepaired_witness :
    let tr := [ShEv.writeBegin, .cancel, .finalBegin, .finalEnd, .runReturn, .writeEnd]
    shAccepts false true tr = true ∧ Spec.C08.holds true tr = false ∧ shAccepts true true tr = false := by
  decide

/-- Non-vacuity: a terminating run with one transmission in flight at the stop instant. -/
example :
    let tr := [ShEv.writeBegin, .writeEnd, .writeBegin, .cancel, .writeEnd, .finalBegin, .finalEnd, .runReturn]
    shAccepts true true tr = true ∧ Spec.C08.holds true tr = true ∧
    shAccepts true false [ShEv.writeBegin, .cancel, .writeEnd, .runReturn] = true ∧
    Spec.C08.holds false [ShEv.writeBegin, .cancel, .writeEnd, .runReturn] = true := by
  decide

end Corerad.Props.C08
