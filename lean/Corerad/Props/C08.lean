/-
  C08 — on termination exactly one zero-lifetime RA is sent, last; on reload none.
  (interim version: the inductive theorems over all traces are being proved separately and
  replace this file; what is here is kernel-checked.)
-/
import Corerad.Spec.C08

namespace Corerad.Props.C08

open Corerad Corerad.Model

/-- the scheduler's cancel branch waits for the transmissions its workers have in flight, and
    `shutdown` consults `terminate()` before sending (extracted from the source; this lemma
    fails to build on a tree where the scheduler does not wait) -/
theorem gen_facts :
    Gen.Advertise.shutdownAwaitsInflight = true ∧ Gen.Advertise.shutdownChecksTerminate = true ∧
    Gen.Advertise.shutdownCalls_send = true := by decide

/-- The unrepaired ordering (F-5) admits a trace in which a transmission completes after the
    final RA and after `Run` has returned; the awaiting system rejects it. -/
theorem unrepaired_witness :
    let tr := [ShEv.writeBegin, .cancel, .finalBegin, .finalEnd, .runReturn, .writeEnd]
    shAccepts false true tr = true ∧ Spec.C08.holds true tr = false ∧ shAccepts true true tr = false := by
  decide

example :
    let tr := [ShEv.writeBegin, .writeEnd, .writeBegin, .cancel, .writeEnd, .finalBegin, .finalEnd, .runReturn]
    shAccepts true true tr = true ∧ Spec.C08.holds true tr = true ∧
    shAccepts true false [ShEv.writeBegin, .cancel, .writeEnd, .runReturn] = true ∧
    Spec.C08.holds false [ShEv.writeBegin, .cancel, .writeEnd, .runReturn] = true := by
  decide

end Corerad.Props.C08
