/-
  TransC02 — the Go → Lean translations of `parseMinInterval`, `parseDefaultLifetime`
  (internal/config/interface.go) and `checkLifetime` (internal/config/plugin.go), regenerated into
  `Corerad.Gen.Trans` from the current source text on every run, equal the hand-written model
  definitions `Model.parseMinInterval`, `Model.parseDefaultLifetime`, `Model.lifetimeInRange`.

  Reading of the translation (tools/extract/translate.go): an error return is `none`; the pure
  external functions `time.ParseDuration` and (package config) `parseDuration` are function
  parameters applied to the translated arguments; `time.Duration(0.33 * float64(max))` and
  `time.Duration(0.75 * float64(max))` are `Model.mul033 max` / `Model.mul075 max` (the only float
  idioms the translator accepts, literal matched exactly); a `*string` is an `Option String`.
  `parseDuration` (internal/config/config.go) is itself translated and proved equal to
  `Model.parseDuration`, which closes the loop for `parseDefaultLifetime`.

  The model classifies a duration-valued key as a `Model.DurStr`; the Go functions see a string and
  what the parser returns for it.  `MinStr` is that correspondence for `min_interval` (a plain
  string: "infinite" is not special there, `time.ParseDuration` fails on it); it is total
  (`minStr_total`), so the equivalence covers every input of the Go function.
-/
import Corerad.Gen.Trans
import Corerad.Model.Config

namespace Corerad.Props.TransC02

open Corerad

/-- the string `s` of a `min_interval` key and the result `r` of `time.ParseDuration(s)`, as
    classified by the model -/
def MinStr (ds : Model.DurStr) (s : String) (r : Option Dur) : Prop :=
  match ds with
  | .unset | .empty => s = ""
  | .auto => s = "auto"
  | .infinite | .bad => s ≠ "" ∧ s ≠ "auto" ∧ r = none
  | .lit d => s ≠ "" ∧ s ≠ "auto" ∧ r = some d

/-- every (string, parse result) pair is the image of some model input -/
theorem minStr_total (s : String) (r : Option Dur) : ∃ ds, MinStr ds s r := by
  by_cases h1 : s = ""
  · exact ⟨.empty, h1⟩
  · by_cases h2 : s = "auto"
    · exact ⟨.auto, h2⟩
    · cases r with
      | none => exact ⟨.bad, h1, h2, rfl⟩
      | some d => exact ⟨.lit d, h1, h2, rfl⟩

/-- `parseMinInterval(s, max)` as translated from the source = the model, for every key, every
    maximum interval and every behaviour of `time.ParseDuration`. -/
theorem parseMinInterval_equiv (ds : Model.DurStr) (s : String) (parse : String → Option Dur) (max : Dur)
    (h : MinStr ds s (parse s)) :
    Gen.Trans.parseMinInterval (s := s) (max := max) (time_ParseDuration := parse)
      = Model.parseMinInterval ds max := by
  cases ds <;> simp only [MinStr] at h <;> (try obtain ⟨h1, h2, h3⟩ := h) <;>
    simp only [Gen.Trans.parseMinInterval, Model.parseMinInterval, *] <;>
    repeat' split
  all_goals first | omega | (simp_all; done) | (simp_all; omega) | (simp_all; intros; omega) | rfl | (try simp at *; omega)

/-- `parseDefaultLifetime(s, max)` as translated from the source = the model, whenever the
    package's `parseDuration` behaves on this key as the model's `parseDuration` does on its
    classification (that function is an external parameter of both). -/
theorem parseDefaultLifetime_equiv (ds : Model.DurStr) (s : Option String)
    (pdur : Option String → Dur → Option Dur) (max : Dur)
    (h : ∀ d, pdur s d = Model.parseDuration ds d) :
    Gen.Trans.parseDefaultLifetime (s := s) (max := max) (parseDuration := pdur)
      = Model.parseDefaultLifetime ds max := by
  simp only [Gen.Trans.parseDefaultLifetime, Model.parseDefaultLifetime, h]
  cases Model.parseDuration ds (3 * max) <;>
    simp only [bind, Option.bind, pure] <;>
    repeat' split
  all_goals first | omega | (simp_all; done) | (simp_all; omega) | (simp_all; intros; omega) | rfl | (try simp at *; omega)

/-- a duration-valued `*string` key as `parseDuration` sees it (`s`, and the behaviour `parse` of
    `time.ParseDuration` on what it points to), as classified by the model -/
def DurKey (ds : Model.DurStr) (s : Option String) (parse : String → Option Dur) : Prop :=
  match ds with
  | .unset => s = none
  | .auto => s = some "auto"
  | .infinite => s = some "infinite"
  | .empty => s = some ""
  | .bad => ∃ v, s = some v ∧ v ≠ "infinite" ∧ v ≠ "auto" ∧ v ≠ "" ∧ parse v = none
  | .lit d => ∃ v, s = some v ∧ v ≠ "infinite" ∧ v ≠ "auto" ∧ v ≠ "" ∧ parse v = some d

/-- every (`*string`, parser) pair is the image of some model input -/
theorem durKey_total (s : Option String) (parse : String → Option Dur) : ∃ ds, DurKey ds s parse := by
  cases s with
  | none => exact ⟨.unset, rfl⟩
  | some v =>
    by_cases h1 : v = "infinite"
    · exact ⟨.infinite, by simp only [DurKey, h1]⟩
    · by_cases h2 : v = "auto"
      · exact ⟨.auto, by simp only [DurKey, h2]⟩
      · by_cases h3 : v = ""
        · exact ⟨.empty, by simp only [DurKey, h3]⟩
        · cases h : parse v with
          | none => exact ⟨.bad, v, rfl, h1, h2, h3, h⟩
          | some d => exact ⟨.lit d, v, rfl, h1, h2, h3, h⟩

/-- `parseDuration(s, def)` (internal/config/config.go) as translated from the source = the model's
    `parseDuration`, for every key, default and behaviour of `time.ParseDuration`. -/
theorem parseDuration_equiv (ds : Model.DurStr) (s : Option String) (parse : String → Option Dur) (dflt : Dur)
    (h : DurKey ds s parse) :
    Gen.Trans.parseDuration (s := s) («def» := dflt) (time_ParseDuration := parse)
      = Model.parseDuration ds dflt := by
  cases ds <;> simp only [DurKey] at h <;> (try obtain ⟨v, h0, h1, h2, h3, h4⟩ := h) <;> subst_vars <;>
    simp only [Gen.Trans.parseDuration, Model.parseDuration, *] <;>
    repeat' split
  all_goals first | omega | (simp_all; done) | (simp_all; omega) | (simp_all; intros; omega) | rfl | (try simp at *; omega)

/-- end to end: `parseDefaultLifetime` calling the translated `parseDuration` = the model -/
theorem parseDefaultLifetime_parseDuration_equiv (ds : Model.DurStr) (s : Option String)
    (parse : String → Option Dur) (max : Dur) (h : DurKey ds s parse) :
    Gen.Trans.parseDefaultLifetime (s := s) (max := max)
        (parseDuration := fun s d => Gen.Trans.parseDuration (s := s) («def» := d) (time_ParseDuration := parse))
      = Model.parseDefaultLifetime ds max :=
  parseDefaultLifetime_equiv ds s _ max (fun d => parseDuration_equiv ds s parse d h)

/-- `checkLifetime(d)` returns nil exactly when the model's range check accepts. -/
theorem checkLifetime_equiv (d : Dur) :
    (Gen.Trans.checkLifetime (d := d)).isSome = Model.lifetimeInRange d := by
  rw [Bool.eq_iff_iff]
  simp only [Gen.Trans.checkLifetime, Model.lifetimeInRange, Bool.and_eq_true, decide_eq_true_eq]
  repeat' split
  all_goals simp only [infinity, second] at *
  all_goals first | omega | (simp_all; done) | (simp_all; omega) | (simp_all; intros; omega) | rfl | (try simp at *; omega)

/-- non-trivial instances, evaluated on both sides: the automatic minimum for `max = 10 s` is
    `trunc(0.33 · 10 s) = 3 s`; an explicit 7.5 s is the largest accepted for `max = 10 s`, 7.6 s
    is rejected -/
example :
    Gen.Trans.parseMinInterval (s := "auto") (max := 10 * second) (time_ParseDuration := fun _ => none) = some (3 * second)
    ∧ Model.parseMinInterval .auto (10 * second) = some (3 * second) := by
  decide +kernel

example :
    Gen.Trans.parseMinInterval (s := "7s") (max := 10 * second) (time_ParseDuration := fun _ => some (7 * second)) = some (7 * second)
    ∧ Model.parseMinInterval (.lit (7 * second)) (10 * second) = some (7 * second)
    ∧ Gen.Trans.parseMinInterval (s := "7.6s") (max := 10 * second) (time_ParseDuration := fun _ => some 7600000000) = none
    ∧ Model.parseMinInterval (.lit 7600000000) (10 * second) = none := by
  decide +kernel

/-- default lifetime: unset key ⇒ `3 · max`; 9001 s is out of range -/
example :
    Gen.Trans.parseDefaultLifetime (s := none) (max := 600 * second)
        (parseDuration := fun _ d => Model.parseDuration .unset d) = some (1800 * second)
    ∧ Model.parseDefaultLifetime .unset (600 * second) = some (1800 * second)
    ∧ Gen.Trans.parseDefaultLifetime (s := some "9001s") (max := 600 * second)
        (parseDuration := fun _ d => Model.parseDuration (.lit (9001 * second)) d) = none
    ∧ Model.parseDefaultLifetime (.lit (9001 * second)) (600 * second) = none := by
  decide +kernel

/-- `parseDuration`: "infinite" is `ndp.Infinity`, an unset key is the default, "90s" is parsed -/
example :
    Gen.Trans.parseDuration (s := some "infinite") («def» := 5) (time_ParseDuration := fun _ => none) = some infinity
    ∧ Model.parseDuration .infinite 5 = some infinity
    ∧ Gen.Trans.parseDuration (s := none) («def» := 5) (time_ParseDuration := fun _ => none) = some 5
    ∧ Model.parseDuration .unset 5 = some 5
    ∧ Gen.Trans.parseDuration (s := some "90s") («def» := 5) (time_ParseDuration := fun _ => some (90 * second)) = some (90 * second)
    ∧ Model.parseDuration (.lit (90 * second)) 5 = some (90 * second) := by
  decide

example : (Gen.Trans.checkLifetime (d := infinity + 1)).isSome = false ∧ Model.lifetimeInRange (infinity + 1) = false
    ∧ (Gen.Trans.checkLifetime (d := infinity)).isSome = true ∧ Model.lifetimeInRange infinity = true := by
  decide

/-! ### `parseInterface` — the interface-level validation (tools/extract/translate_iface.go)

`Gen.Trans.parseInterface` is `config.parseInterface` re-translated on every run over the model's
record types: the monitor/advertise exclusion, the monitor short-circuit, every bound with its default,
the order in which `min_interval`, `default_lifetime`, `preference` and the plugins are resolved, and
the fields of the resulting `Interface`.  The package functions it calls are parameters; instantiated
with the model's (whose own equivalences with the translated `parseMinInterval` /
`parseDefaultLifetime` are above), the translated function IS `Model.parseInterface` — the function
`accept_iff` (Props/C02) characterises by the documented constraints. -/

theorem parseInterface_equiv (name : Nat) (ifi : Model.RawInterface) :
    Gen.Trans.parseInterface name ifi (time_ParseDuration_orDefault := Model.parsePlainDur)
        (parseMinInterval := Model.parseMinInterval) (parseDefaultLifetime := Model.parseDefaultLifetime)
        (parsePreference := Model.parsePreference) (parsePlugins := Model.parsePlugins)
      = Model.parseInterface name ifi := by
  unfold Gen.Trans.parseInterface Model.parseInterface
  have c1 : Gen.Config.defaultMaxInterval = 600 * second := by decide
  have c2 : Gen.Config.maxIntervalLo = 4 * second := by decide
  have c3 : Gen.Config.maxIntervalHi = 1800 * second := by decide
  have c4 : Gen.Config.reachableLo = 0 * second := by decide
  have c5 : Gen.Config.reachableHi = 1 * hour := by decide
  have c6 : Gen.Config.retransLo = 0 * second := by decide
  have c7 : Gen.Config.retransHi = 1 * hour := by decide
  have c8 : Gen.Config.defaultHopLimit = 64 := by decide
  have c9 : Gen.Config.hopLimitLo = 0 := by decide
  have c10 : Gen.Config.hopLimitHi = 255 := by decide
  rw [c1, c2, c3, c4, c5, c6, c7, c8, c9, c10]
  cases hm : ifi.monitor <;> cases ha : ifi.advertise <;> simp
  all_goals
    cases h1 : Model.parsePlainDur ifi.maxInterval (600 * second) <;> simp
    split
    · rfl
    · cases h2 : Model.parseMinInterval ifi.minInterval _ <;> simp
      cases h3 : Model.parsePlainDur ifi.reachable 0 <;> simp
      split
      · rfl
      · cases h4 : Model.parsePlainDur ifi.retransmit 0 <;> simp
        split
        · rfl
        · cases h5 : ifi.hopLimit <;> simp
          · cases h6 : Model.parseDefaultLifetime ifi.defaultLifetime _ <;> simp
            cases h7 : Model.parsePreference ifi.preference <;> simp
            cases h8 : Model.parsePlugins ifi _ <;> simp
          · split
            · rfl
            · cases h6 : Model.parseDefaultLifetime ifi.defaultLifetime _ <;> simp
              cases h7 : Model.parsePreference ifi.preference <;> simp
              cases h8 : Model.parsePlugins ifi _ <;> simp

/-- non-vacuity: a monitoring interface, a rejected interval, an accepted advertising interface -/
example :
    Gen.Trans.parseInterface 7 { monitor := true, verbose := true } Model.parsePlainDur Model.parseMinInterval
        Model.parseDefaultLifetime Model.parsePreference Model.parsePlugins
      = some { name := 7, monitor := true, verbose := true } ∧
    Gen.Trans.parseInterface 7 { advertise := true, maxInterval := .lit (3 * second) } Model.parsePlainDur
        Model.parseMinInterval Model.parseDefaultLifetime Model.parsePreference Model.parsePlugins = none ∧
    (Gen.Trans.parseInterface 7 { advertise := true, maxInterval := .lit (10 * second), hopLimit := some 0 }
        Model.parsePlainDur Model.parseMinInterval Model.parseDefaultLifetime Model.parsePreference
        Model.parsePlugins).isSome = true := by
  decide +kernel

end Corerad.Props.TransC02
