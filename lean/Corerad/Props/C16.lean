/-
  C16 — deprecated prefixes and routes count down to zero at a fixed deadline.
-/
import Corerad.Model.Lifetime
import Corerad.Spec.C16
import Corerad.Gen.Main

namespace Corerad.Props.C16

open Corerad Corerad.Model

/-- The epoch handed to the configuration parser is the daemon's start-up instant
    (`config.Parse(f, time.Now())` in main): it is never the zero time, so the plugins' "zero
    epoch" panic is unreachable from the daemon, and "daemon start + configured lifetime" is the
    deadline the theorems below are about. -/
theorem gen_epoch_is_start_time : Gen.Main.epochIsStartTime = true := by decide

/-- The advertised lifetime is the time remaining until `epoch + L`, clamped at zero. -/
theorem eq_clamped_remaining (epoch : Time) (L : Dur) (now : Time) :
    lifetimeAt epoch L now = max 0 (epoch + L - now) := by
  unfold lifetimeAt
  simp only
  split <;> omega

theorem nonneg (epoch : Time) (L : Dur) (now : Time) : 0 ≤ lifetimeAt epoch L now := by
  rw [eq_clamped_remaining]; omega

/-- Zero from the deadline onwards. -/
theorem zero_from_deadline (epoch : Time) (L : Dur) (now : Time) (h : epoch + L ≤ now) :
    lifetimeAt epoch L now = 0 := by
  rw [eq_clamped_remaining]; omega

/-- Strictly positive before the deadline (so "zero" means "deadline reached"). -/
theorem pos_before_deadline (epoch : Time) (L : Dur) (now : Time) (h : now < epoch + L) :
    0 < lifetimeAt epoch L now := by
  rw [eq_clamped_remaining]; omega

/-- Never increases from one RA to a later one. -/
theorem antitone (epoch : Time) (L : Dur) (t t' : Time) (h : t ≤ t') :
    lifetimeAt epoch L t' ≤ lifetimeAt epoch L t := by
  rw [eq_clamped_remaining, eq_clamped_remaining]; omega

/-- A prefix's preferred lifetime never exceeds its valid lifetime, at any instant. -/
theorem pref_le_valid (deprecated : Bool) (epoch : Time) (V P : Dur) (now : Time) (h : P ≤ V) :
    (prefixLifetimes deprecated epoch V P now).2 ≤ (prefixLifetimes deprecated epoch V P now).1 := by
  unfold prefixLifetimes
  cases deprecated <;> simp only [Bool.not_false, Bool.not_true, if_true, Bool.false_eq_true, if_false]
  · exact h
  · rw [eq_clamped_remaining, eq_clamped_remaining]; omega

/-- Non-deprecated prefixes and routes always advertise the configured constants. -/
theorem not_deprecated_const (epoch : Time) (V P L : Dur) (now : Time) :
    prefixLifetimes false epoch V P now = (V, P) ∧ routeLifetime false epoch L now = L := by
  simp [prefixLifetimes, routeLifetime]

/-- The model satisfies the oracle at every instant (single observation). -/
theorem prefix_obs_ok (deprecated : Bool) (epoch : Time) (V P : Dur) (now : Time) (h : P ≤ V) :
    Spec.C16.prefixObsOk deprecated epoch V P
      (now, (prefixLifetimes deprecated epoch V P now).1, (prefixLifetimes deprecated epoch V P now).2) = true := by
  unfold Spec.C16.prefixObsOk prefixLifetimes Spec.C16.remaining
  cases deprecated
  · simp
  · simp only [Bool.not_true, Bool.false_eq_true, if_false, if_true, eq_clamped_remaining]
    simp only [Bool.and_eq_true, beq_iff_eq, decide_eq_true_eq, Bool.or_eq_true, true_and]
    omega

theorem route_obs_ok (deprecated : Bool) (epoch : Time) (L : Dur) (now : Time) :
    Spec.C16.routeObsOk deprecated epoch L (now, routeLifetime deprecated epoch L now) = true := by
  unfold Spec.C16.routeObsOk routeLifetime Spec.C16.remaining
  cases deprecated
  · simp
  · simp only [Bool.not_true, Bool.false_eq_true, if_false, if_true, eq_clamped_remaining]
    simp only [Bool.and_eq_true, beq_iff_eq, decide_eq_true_eq, Bool.or_eq_true, true_and]
    omega

/-- The model satisfies the whole-history oracle for every clock sequence (any length). -/
theorem holds_route (deprecated : Bool) (epoch : Time) (L : Dur) (ts : List Time) :
    Spec.C16.holdsRoute deprecated epoch L (ts.map fun t => (t, routeLifetime deprecated epoch L t)) = true := by
  unfold Spec.C16.holdsRoute
  simp only [Bool.and_eq_true, List.all_map, List.all_eq_true, Function.comp]
  refine ⟨fun t _ => route_obs_ok deprecated epoch L t, ?_⟩
  cases deprecated
  · simp
  · simp only [Bool.not_true, Bool.false_or]
    induction ts with
    | nil => rfl
    | cons t ts ih =>
      cases ts with
      | nil => rfl
      | cons t' ts' =>
        simp only [List.map, Spec.C16.antitoneR, Bool.and_eq_true, Bool.or_eq_true, decide_eq_true_eq]
        refine ⟨?_, by simpa using ih⟩
        by_cases hlt : t' < t
        · exact Or.inl hlt
        · right
          simp only [routeLifetime, Bool.not_true, Bool.false_eq_true, if_false]
          exact antitone epoch L t t' (by omega)

theorem holds_prefix (deprecated : Bool) (epoch : Time) (V P : Dur) (h : P ≤ V) (ts : List Time) :
    Spec.C16.holdsPrefix deprecated epoch V P
      (ts.map fun t => (t, (prefixLifetimes deprecated epoch V P t).1, (prefixLifetimes deprecated epoch V P t).2)) = true := by
  unfold Spec.C16.holdsPrefix
  simp only [Bool.and_eq_true, List.all_map, List.all_eq_true, Function.comp]
  refine ⟨fun t _ => prefix_obs_ok deprecated epoch V P t h, ?_⟩
  cases deprecated
  · simp
  · simp only [Bool.not_true, Bool.false_or]
    induction ts with
    | nil => rfl
    | cons t ts ih =>
      cases ts with
      | nil => rfl
      | cons t' ts' =>
        simp only [List.map, Spec.C16.antitone, Bool.and_eq_true, Bool.or_eq_true, decide_eq_true_eq]
        refine ⟨?_, by simpa using ih⟩
        by_cases hlt : t' < t
        · exact Or.inl hlt
        · right
          simp only [prefixLifetimes, Bool.not_true, Bool.false_eq_true, if_false]
          exact ⟨antitone epoch V t t' (by omega), antitone epoch P t t' (by omega)⟩

/-! ### a clock that moves while one RA is built (span observations) -/

/-- For a single reading the span oracle is the point oracle. -/
theorem span_point_prefix (deprecated : Bool) (epoch : Time) (V P : Dur) (t : Time) (v p : Dur) :
    Spec.C16.prefixSpanOk deprecated epoch V P (t, t, v, p) = Spec.C16.prefixObsOk deprecated epoch V P (t, v, p) := by
  unfold Spec.C16.prefixSpanOk Spec.C16.prefixObsOk Spec.C16.remaining
  cases deprecated
  · simp
  · rw [Bool.eq_iff_iff]
    simp only [if_true, Bool.and_eq_true, beq_iff_eq, decide_eq_true_eq, Bool.or_eq_true]
    omega

theorem span_point_route (deprecated : Bool) (epoch : Time) (L : Dur) (t : Time) (l : Dur) :
    Spec.C16.routeSpanOk deprecated epoch L (t, t, l) = Spec.C16.routeObsOk deprecated epoch L (t, l) := by
  unfold Spec.C16.routeSpanOk Spec.C16.routeObsOk Spec.C16.remaining
  cases deprecated
  · simp
  · rw [Bool.eq_iff_iff]
    simp only [if_true, Bool.and_eq_true, beq_iff_eq, decide_eq_true_eq, Bool.or_eq_true]
    omega

/-- The span oracle asks no more than the property: any implementation that derives the valid
    lifetime from a reading `a` and the preferred lifetime from a reading `b` no earlier than
    `a`, both within the span, is accepted (reading the clock twice is not by itself a
    violation). -/
theorem span_accepts_ordered_reads (epoch : Time) (V P : Dur) (lo hi a b : Time)
    (h : P ≤ V) (h1 : lo ≤ a) (h2 : a ≤ b) (h3 : b ≤ hi) :
    Spec.C16.prefixSpanOk true epoch V P (lo, hi, lifetimeAt epoch V a, lifetimeAt epoch P b) = true := by
  unfold Spec.C16.prefixSpanOk Spec.C16.remaining
  simp only [if_true, eq_clamped_remaining, Bool.and_eq_true, decide_eq_true_eq]
  omega

/-- …and it rejects the preferred lifetime taken from an earlier reading than the valid lifetime
    when that makes preferred exceed valid (5 s / 5 s, readings 0 and 400 ms). -/
example : Spec.C16.prefixSpanOk true 0 (5 * second) (5 * second)
    (0, 400 * ms, lifetimeAt 0 (5 * second) (400 * ms), lifetimeAt 0 (5 * second) 0) = false := by decide

theorem antitone_model_prefix (epoch : Time) (V P : Dur) (ts : List Time) :
    Spec.C16.antitone (ts.map fun t => (t, (prefixLifetimes true epoch V P t).1, (prefixLifetimes true epoch V P t).2)) = true := by
  induction ts with
  | nil => rfl
  | cons t ts ih =>
    cases ts with
    | nil => rfl
    | cons t' ts' =>
      simp only [List.map, Spec.C16.antitone, Bool.and_eq_true, Bool.or_eq_true, decide_eq_true_eq]
      refine ⟨?_, by simpa using ih⟩
      by_cases hlt : t' < t
      · exact Or.inl hlt
      · right
        simp only [prefixLifetimes, Bool.not_true, Bool.false_eq_true, if_false]
        exact ⟨antitone epoch V t t' (by omega), antitone epoch P t t' (by omega)⟩

/-- The model (one reading per RA, the first of the span) satisfies the span oracle for every
    sequence of spans of any length. -/
theorem holds_prefix_span (deprecated : Bool) (epoch : Time) (V P : Dur) (h : P ≤ V)
    (spans : List (Time × Time)) (hs : ∀ s ∈ spans, s.1 ≤ s.2) :
    Spec.C16.holdsPrefixSpan deprecated epoch V P
      (spans.map fun s => (s.1, s.2, (prefixLifetimes deprecated epoch V P s.1).1,
        (prefixLifetimes deprecated epoch V P s.1).2)) = true := by
  unfold Spec.C16.holdsPrefixSpan
  simp only [Bool.and_eq_true, List.all_map, List.all_eq_true, Function.comp]
  refine ⟨fun s hmem => ?_, ?_⟩
  · have hle := hs s hmem
    cases deprecated
    · simp [Spec.C16.prefixSpanOk, prefixLifetimes]
    · have := span_accepts_ordered_reads epoch V P s.1 s.2 s.1 s.1 h (by omega) (by omega) hle
      simpa [prefixLifetimes] using this
  · cases deprecated
    · simp
    · simp only [Bool.not_true, Bool.false_or, List.map_map]
      have := antitone_model_prefix epoch V P (spans.map fun s => s.1)
      rw [List.map_map] at this
      exact this

theorem route_span_accepts_any_read (epoch : Time) (L : Dur) (lo hi a : Time) (h1 : lo ≤ a) (h2 : a ≤ hi) :
    Spec.C16.routeSpanOk true epoch L (lo, hi, lifetimeAt epoch L a) = true := by
  unfold Spec.C16.routeSpanOk Spec.C16.remaining
  simp only [if_true, eq_clamped_remaining, Bool.and_eq_true, decide_eq_true_eq]
  omega

theorem antitone_model_route (epoch : Time) (L : Dur) (ts : List Time) :
    Spec.C16.antitoneR (ts.map fun t => (t, routeLifetime true epoch L t)) = true := by
  induction ts with
  | nil => rfl
  | cons t ts ih =>
    cases ts with
    | nil => rfl
    | cons t' ts' =>
      simp only [List.map, Spec.C16.antitoneR, Bool.and_eq_true, Bool.or_eq_true, decide_eq_true_eq]
      refine ⟨?_, by simpa using ih⟩
      by_cases hlt : t' < t
      · exact Or.inl hlt
      · right
        simp only [routeLifetime, Bool.not_true, Bool.false_eq_true, if_false]
        exact antitone epoch L t t' (by omega)

theorem holds_route_span (deprecated : Bool) (epoch : Time) (L : Dur)
    (spans : List (Time × Time)) (hs : ∀ s ∈ spans, s.1 ≤ s.2) :
    Spec.C16.holdsRouteSpan deprecated epoch L
      (spans.map fun s => (s.1, s.2, routeLifetime deprecated epoch L s.1)) = true := by
  unfold Spec.C16.holdsRouteSpan
  simp only [Bool.and_eq_true, List.all_map, List.all_eq_true, Function.comp]
  refine ⟨fun s hmem => ?_, ?_⟩
  · have hle := hs s hmem
    cases deprecated
    · simp [Spec.C16.routeSpanOk, routeLifetime]
    · have := route_span_accepts_any_read epoch L s.1 s.2 s.1 (by omega) hle
      simpa [routeLifetime] using this
  · cases deprecated
    · simp
    · simp only [Bool.not_true, Bool.false_or, List.map_map]
      have := antitone_model_route epoch L (spans.map fun s => s.1)
      rw [List.map_map] at this
      exact this

/-- Non-vacuity: a 10 s/5 s deprecated prefix observed just before, at and after each deadline. -/
example : Spec.C16.holdsPrefix true 100 10 5
    ([99, 104, 105, 106, 109, 110, 111].map fun t =>
      (t, (prefixLifetimes true 100 10 5 t).1, (prefixLifetimes true 100 10 5 t).2)) = true ∧
    (prefixLifetimes true 100 10 5 104) = (6, 1) ∧ (prefixLifetimes true 100 10 5 105) = (5, 0) := by
  decide

end Corerad.Props.C16
