/-
  C16 — deprecated prefixes and routes count down to zero at a fixed deadline.
-/
import Corerad.Model.Lifetime
import Corerad.Spec.C16
import Corerad.Gen.Main

namespace Corerad.Props.C16

open Corerad Corerad.Model

/-- The epoch handed to the configuration parser is the daemon's start-up instant
    (`config.Parse(f, time.Now())` in main): it is never the zero time, so the plugins' "zero
    epoch" panic is unreachable from the daemon, and "daemon start + configured lifetime" is the
    deadline the theorems below are about. -/
theorem gen_epoch_is_start_time : Gen.Main.epochIsStartTime = true := by decide

/-- The advertised lifetime is the time remaining until `epoch + L`, clamped at zero. -/
theorem eq_clamped_remaining (epoch : Time) (L : Dur) (now : Time) :
    lifetimeAt epoch L now = max 0 (epoch + L - now) := by
  unfold lifetimeAt
  simp only
  split <;> omega

theorem nonneg (epoch : Time) (L : Dur) (now : Time) : 0 ≤ lifetimeAt epoch L now := by
  rw [eq_clamped_remaining]; omega

/-- Zero from the deadline onwards. -/
theorem zero_from_deadline (epoch : Time) (L : Dur) (now : Time) (h : epoch + L ≤ now) :
    lifetimeAt epoch L now = 0 := by
  rw [eq_clamped_remaining]; omega

/-- Strictly positive before the deadline (so "zero" means "deadline reached"). -/
theorem pos_before_deadline (epoch : Time) (L : Dur) (now : Time) (h : now < epoch + L) :
    0 < lifetimeAt epoch L now := by
  rw [eq_clamped_remaining]; omega

/-- Never increases from one RA to a later one. -/
theorem antitone (epoch : Time) (L : Dur) (t t' : Time) (h : t ≤ t') :
    lifetimeAt epoch L t' ≤ lifetimeAt epoch L t := by
  rw [eq_clamped_remaining, eq_clamped_remaining]; omega

/-- A prefix's preferred lifetime never exceeds its valid lifetime, at any instant. -/
theorem pref_le_valid (deprecated : Bool) (epoch : Time) (V P : Dur) (now : Time) (h : P ≤ V) :
    (prefixLifetimes deprecated epoch V P now).2 ≤ (prefixLifetimes deprecated epoch V P now).1 := by
  unfold prefixLifetimes
  cases deprecated <;> simp only [Bool.not_false, Bool.not_true, if_true, Bool.false_eq_true, if_false]
  · exact h
  · rw [eq_clamped_remaining, eq_clamped_remaining]; omega

/-- Non-deprecated prefixes and routes always advertise the configured constants. -/
theorem not_deprecated_const (epoch : Time) (V P L : Dur) (now : Time) :
    prefixLifetimes false epoch V P now = (V, P) ∧ routeLifetime false epoch L now = L := by
  simp [prefixLifetimes, routeLifetime]

/-- The model satisfies the oracle at every instant (single observation). -/
theorem prefix_obs_ok (deprecated : Bool) (epoch : Time) (V P : Dur) (now : Time) (h : P ≤ V) :
    Spec.C16.prefixObsOk deprecated epoch V P
      (now, (prefixLifetimes deprecated epoch V P now).1, (prefixLifetimes deprecated epoch V P now).2) = true := by
  unfold Spec.C16.prefixObsOk prefixLifetimes Spec.C16.remaining
  cases deprecated
  · simp
  · simp only [Bool.not_true, Bool.false_eq_true, if_false, if_true, eq_clamped_remaining]
    simp only [Bool.and_eq_true, beq_iff_eq, decide_eq_true_eq, Bool.or_eq_true, true_and]
    omega

theorem route_obs_ok (deprecated : Bool) (epoch : Time) (L : Dur) (now : Time) :
    Spec.C16.routeObsOk deprecated epoch L (now, routeLifetime deprecated epoch L now) = true := by
  unfold Spec.C16.routeObsOk routeLifetime Spec.C16.remaining
  cases deprecated
  · simp
  · simp only [Bool.not_true, Bool.false_eq_true, if_false, if_true, eq_clamped_remaining]
    simp only [Bool.and_eq_true, beq_iff_eq, decide_eq_true_eq, Bool.or_eq_true, true_and]
    omega

/-- The model satisfies the whole-history oracle for every clock sequence (any length). -/
theorem holds_route (deprecated : Bool) (epoch : Time) (L : Dur) (ts : List Time) :
    Spec.C16.holdsRoute deprecated epoch L (ts.map fun t => (t, routeLifetime deprecated epoch L t)) = true := by
  unfold Spec.C16.holdsRoute
  simp only [Bool.and_eq_true, List.all_map, List.all_eq_true, Function.comp]
  refine ⟨fun t _ => route_obs_ok deprecated epoch L t, ?_⟩
  cases deprecated
  · simp
  · simp only [Bool.not_true, Bool.false_or]
    induction ts with
    | nil => rfl
    | cons t ts ih =>
      cases ts with
      | nil => rfl
      | cons t' ts' =>
        simp only [List.map, Spec.C16.antitoneR, Bool.and_eq_true, Bool.or_eq_true, decide_eq_true_eq]
        refine ⟨?_, by simpa using ih⟩
        by_cases hlt : t' < t
        · exact Or.inl hlt
        · right
          simp only [routeLifetime, Bool.not_true, Bool.false_eq_true, if_false]
          exact antitone epoch L t t' (by omega)

theorem holds_prefix (deprecated : Bool) (epoch : Time) (V P : Dur) (h : P ≤ V) (ts : List Time) :
    Spec.C16.holdsPrefix deprecated epoch V P
      (ts.map fun t => (t, (prefixLifetimes deprecated epoch V P t).1, (prefixLifetimes deprecated epoch V P t).2)) = true := by
  unfold Spec.C16.holdsPrefix
  simp only [Bool.and_eq_true, List.all_map, List.all_eq_true, Function.comp]
  refine ⟨fun t _ => prefix_obs_ok deprecated epoch V P t h, ?_⟩
  cases deprecated
  · simp
  · simp only [Bool.not_true, Bool.false_or]
    induction ts with
    | nil => rfl
    | cons t ts ih =>
      cases ts with
      | nil => rfl
      | cons t' ts' =>
        simp only [List.map, Spec.C16.antitone, Bool.and_eq_true, Bool.or_eq_true, decide_eq_true_eq]
        refine ⟨?_, by simpa using ih⟩
        by_cases hlt : t' < t
        · exact Or.inl hlt
        · right
          simp only [prefixLifetimes, Bool.not_true, Bool.false_eq_true, if_false]
          exact ⟨antitone epoch V t t' (by omega), antitone epoch P t t' (by omega)⟩

/-- Non-vacuity: a 10 s/5 s deprecated prefix observed just before, at and after each deadline. -/
example : Spec.C16.holdsPrefix true 100 10 5
    ([99, 104, 105, 106, 109, 110, 111].map fun t =>
      (t, (prefixLifetimes true 100 10 5 t).1, (prefixLifetimes true 100 10 5 t).2)) = true ∧
    (prefixLifetimes true 100 10 5 104) = (6, 1) ∧ (prefixLifetimes true 100 10 5 105) = (5, 0) := by
  decide

end Corerad.Props.C16
