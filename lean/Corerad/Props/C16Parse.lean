/-
  C16, parser side — what the configuration parser guarantees about every deprecated stanza it
  accepts: finite, positive lifetimes with preferred ≤ valid.  These are exactly the hypotheses
  under which the countdown theorems of Props/C16.lean are stated (`pref_le_valid`, `holds_prefix`),
  and without finiteness the countdown would not reach zero within the wire format's range.
  Derived from the per-stanza refinement of Props/C02.lean (`parsePrefix_eq`, `parseRoute_eq`).
-/
import Corerad.Props.C02

namespace Corerad.Props.C16Parse

open Corerad Corerad.Model Corerad.Spec.C02 Corerad.Props.C02

/-- Every prefix stanza the parser accepts has `0 < preferred ≤ valid ≤ infinity`; a deprecated
    one has both lifetimes finite. -/
theorem accepted_prefix_lifetimes (raw : RawPrefix) (hwf : wfPfx raw.pstr = true)
    (auto : Bool) (p : Prefix) (ol au : Bool) (valid preferred : Dur) (dep : Bool)
    (h : parsePrefix raw = some (.pfx auto p ol au valid preferred dep)) :
    0 < preferred ∧ preferred ≤ valid ∧ valid ≤ infinity ∧ dep = raw.deprecated ∧
    (dep = true → valid < infinity ∧ preferred < infinity) := by
  rw [parsePrefix_eq raw hwf] at h
  split at h
  · rename_i hdoc
    simp only [Option.some.injEq, expPrefix, Plugin.pfx.injEq] at h
    obtain ⟨_, _, _, _, hv, hp, hd⟩ := h
    unfold docPrefix at hdoc
    split at hdoc
    · rename_i q v pr _ hrv hrp
      rw [hrv] at hv; rw [hrp] at hp
      simp only [Option.getD_some] at hv hp
      subst hv hp hd
      simp only [inPos, Bool.and_eq_true, decide_eq_true_eq, Bool.or_eq_true, Bool.not_eq_true',
        bne_iff_ne, ne_eq, show infinity = maxLifetime from rfl] at hdoc ⊢
      obtain ⟨⟨⟨⟨⟨_, _⟩, hv1, hv2⟩, hp1, hp2⟩, hle⟩, hdep⟩ := hdoc
      refine ⟨hp1, hle, hv2, trivial, fun hd => ?_⟩
      rcases hdep with hdep | hdep
      · simp [hd] at hdep
      · omega
    · cases hdoc
  · cases h

/-- Every route stanza the parser accepts has `0 < lifetime ≤ infinity`, finite when deprecated. -/
theorem accepted_route_lifetime (raw : RawRoute) (hwf : wfPfx raw.pstr = true)
    (auto : Bool) (p : Prefix) (pref : Nat) (lt : Dur) (dep : Bool)
    (h : parseRoute raw = some (.route auto p pref lt dep)) :
    0 < lt ∧ lt ≤ infinity ∧ dep = raw.deprecated ∧ (dep = true → lt < infinity) := by
  rw [parseRoute_eq raw hwf] at h
  split at h
  · rename_i hdoc
    simp only [Option.some.injEq, expRoute, Plugin.route.injEq] at h
    obtain ⟨_, _, _, hl, hd⟩ := h
    unfold docRoute at hdoc
    split at hdoc
    · rename_i q l pc _ hrl _
      rw [hrl] at hl
      simp only [Option.getD_some] at hl
      subst hl hd
      simp only [inPos, Bool.and_eq_true, decide_eq_true_eq, Bool.or_eq_true, Bool.not_eq_true',
        bne_iff_ne, ne_eq, show infinity = maxLifetime from rfl] at hdoc ⊢
      obtain ⟨⟨_, hl1, hl2⟩, hdep⟩ := hdoc
      refine ⟨hl1, hl2, trivial, fun hd => ?_⟩
      rcases hdep with hdep | hdep
      · simp [hd] at hdep
      · omega
    · cases hdoc
  · cases h

end Corerad.Props.C16Parse
