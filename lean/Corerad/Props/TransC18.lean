/-
  TransC18 — the Go → Lean translation of `(*Monitor).handle` (internal/corerad/monitor.go),
  regenerated into `Corerad.Gen.Trans.Monitor_handle` from the current source text on every run — the
  list of metric operations the function performs for one received message, in program order — equals
  the hand-written `Model.Monitor.monitorHandle`, the function every C18 theorem (`Props/C18`) is about,
  for every message, sender and receipt time.

  Only equivalence theorems live here.
-/
import Corerad.Gen.Trans
import Corerad.Model.Monitor

namespace Corerad.Props.TransC18

open Corerad Corerad.Model.Monitor

/-- the translated function = the model's, for every message (an RA with any header and option
    list, or any other NDP type), every sender and every receipt time -/
theorem Monitor_handle_equiv (msg : Msg) (host : Nat) (now : Time) :
    Gen.Trans.Monitor_handle (msg := msg) (msgType := msg.typ) (host := host) (now := now)
      = monitorHandle msg host now := by
  cases msg with
  | ra r =>
    simp [Gen.Trans.Monitor_handle, monitorHandle, raOps]
    congr 1
  | other t => simp [Gen.Trans.Monitor_handle, monitorHandle]

/-- non-trivial instance: an RA with a router lifetime and two prefix options (one with a length no
    IPv6 prefix can have) yields 1 + 2 + 1 + 2·4 operations, the same on both sides -/
example :
    let ra : RA := { managed := true, other := false, routerLifetime := 1800 * second,
                     options := [.pi { addr := 1, len := 64, onLink := true, autonomous := true, preferred := 4 * hour, valid := 24 * hour },
                                 .other 25,
                                 .pi { addr := 0, len := 200, onLink := false, autonomous := true, preferred := 0, valid := infinity }] }
    (Gen.Trans.Monitor_handle (.ra ra) raType 7 1500000000).length = 12 ∧
    Gen.Trans.Monitor_handle (.ra ra) raType 7 1500000000 = monitorHandle (.ra ra) 7 1500000000 := by
  decide

end Corerad.Props.TransC18
