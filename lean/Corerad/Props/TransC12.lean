/-
  TransC12 — internal/corerad/verify.go tied to `Model/Verify.lean` by REGENERATION.

  1. `checkDurations` and `equalLifetimes` are re-translated from the current source text into
     `Corerad.Gen.Trans` on every run (tools/extract/translate.go); the theorems below state that
     the translations equal the model's `checkDurations` and the inlined `wireSec a ≠ wireSec b`
     for all inputs (the repair of F-9: comparison at wire precision).
  2. `Corerad.Gen.Verify` (tools/extract/verify.go) carries the decision structure around them as
     printed facts: the check functions `verifyRAs` merges and their order, the labels every check
     function can push, the printed `if` header guarding every push, the control skeleton of
     every check function, and that MTU / captive-portal options are compared by value (F-8).
     The `gen_*` lemmas pin them (`decide`); a source change that swaps two checks, drops a push,
     turns `!=` into `==`, … makes one of them false and the check reports a broken proof.
  3. The labels are connected to the model: `label` is the metric label of each `Model.Field`
     (the table `c12Fields` of the harness, `label_code`); every problem the model's `verifyRAs`
     can emit carries a label some extracted push has (`verifyRAs_labels`, per check function
     `check*_labels`), and every extracted label is emitted by the model on some pair of RAs
     (`every_label_reachable`).
-/
import Corerad.Gen.Trans
import Corerad.Gen.Verify
import Corerad.Props.C12

set_option linter.unusedSimpArgs false

namespace Corerad.Props.TransC12

/- The printed whole-function skeletons (`Gen.Verify.*Skeleton`) are kept as regenerated facts for
   the evidence but are not pinned by lemmas: a rename of a local would break them although nothing
   changed. What the model relies on is pinned semantically below: merge order, reportable fields,
   guard conditions, comparison by value, the pick helpers. -/

open Corerad Corerad.Model

/-! ### 1. the translated arithmetic helpers -/

/-- `checkDurations(want, got, unit)` as translated = the model's `checkDurations` (arguments by
    POSITION: the Go parameter order; renaming a parameter keeps the statement). -/
theorem checkDurations_equiv (want got unit : Dur) :
    Gen.Trans.checkDurations want got unit
      = Model.checkDurations unit want got := by
  unfold Gen.Trans.checkDurations Model.checkDurations
  generalize truncateDur want unit = x
  generalize truncateDur got unit = y
  by_cases hx : x = 0 <;> by_cases hy : y = 0 <;> by_cases hxy : x = y <;>
    simp_all [eq_comm (a := y) (b := x)]

/-- `equalLifetimes(a, b)` as translated = equality of the wire values (the model inlines
    `wireSec a ≠ wireSec b` in `checkPrefixInner`, `checkRouteInner`, `checkDNSPairs`). -/
theorem equalLifetimes_equiv (a b : Dur) :
    Gen.Trans.equalLifetimes a b = decide (Model.wireSec a = Model.wireSec b) := by
  unfold Gen.Trans.equalLifetimes Model.wireSec
  generalize truncateDur a second = x
  generalize truncateDur b second = y
  rcases Decidable.em (x = y) with h | h
  · subst h; simp
  · have h' : ¬ y = x := fun e => h e.symm
    simp [h, h']

/-- the guard `!equalLifetimes(a, b)` of the source is the guard `wireSec a ≠ wireSec b` of the model -/
theorem not_equalLifetimes_iff (a b : Dur) :
    (!Gen.Trans.equalLifetimes a b) = true ↔ Model.wireSec a ≠ Model.wireSec b := by
  rw [equalLifetimes_equiv]; simp

/-- the guard `!checkDurations(a, b, time.Millisecond)` of `checkRAs` is the oracle's `timerDiffers` -/
theorem not_checkDurations_ms (a b : Dur) :
    (!Gen.Trans.checkDurations a b ms) = Spec.C12.timerDiffers a b := by
  rw [checkDurations_equiv]; exact Props.C12.checkDurations_eq a b

/-- non-trivial instances (F-9): 1.5 ms vs 1 ms agree at wire precision, 1 ms vs 2 ms do not,
    an unspecified side is always consistent; 1.5 s vs 1 s are equal lifetimes, 1 s vs 2 s are not -/
example :
    Gen.Trans.checkDurations (1500 * us) (ms) (ms) = true ∧
    Gen.Trans.checkDurations (ms) (2 * ms) (ms) = false ∧
    Gen.Trans.checkDurations (999 * us) (2 * ms) (ms) = true ∧
    Gen.Trans.equalLifetimes (1500 * ms) (second) = true ∧
    Gen.Trans.equalLifetimes (second) (2 * second) = false := by
  decide

/-! ### 2. regenerated structure of verify.go -/

/-- `verifyRAs` merges exactly these checks in this order, own RA first, and returns the result. -/
theorem gen_merge_order :
    Gen.Verify.merged =
      ["checkRAs", "checkMTUs", "checkPrefixes", "checkRoutes", "checkRDNSS", "checkDNSSL", "checkCaptivePortal"] ∧
    Gen.Verify.mergedArgs =
      ["a, b", "a.Options, b.Options", "a.Options, b.Options", "a.Options, b.Options",
       "a.Options, b.Options", "a.Options, b.Options", "a.Options, b.Options"] ∧
    Gen.Verify.verifyReturnsAccumulator = true ∧ Gen.Verify.verifyOtherStmts = 0 := by
  decide

/-- `push` appends one problem built by `newProblem`, `merge` appends all; a problem's
    `Field` / `Details` are the first two arguments of the push (the metric labels). -/
theorem gen_problem_labels :
    Gen.Verify.pushBody = ["*ps = append(*ps, newProblem(field, details, want, got))"] ∧
    Gen.Verify.mergeBody = ["*ps = append(*ps, pss...)"] ∧
    Gen.Verify.newProblemParams = ["field", "details", "want", "got"] ∧
    Gen.Verify.newProblemLabels =
      ["Field: field; Details: details", "Field: field; Details: details", "Field: field; Details: details"] := by
  decide

/-- the labels every check function can push, in source order -/
theorem gen_fields :
    Gen.Verify.fieldsByCheck =
      [("checkRAs", ["hop_limit", "managed_configuration", "other_configuration", "reachable_time", "retransmit_timer"]),
       ("checkMTUs", ["mtu"]),
       ("checkPrefixes", ["prefix_information_preferred_lifetime", "prefix_information_valid_lifetime"]),
       ("checkRoutes", ["route_information_lifetime"]),
       ("checkRDNSS", ["rdnss_count", "rdnss_lifetime", "rdnss_servers", "rdnss_servers"]),
       ("checkDNSSL", ["dnssl_count", "dnssl_lifetime", "dnssl_domain_names", "dnssl_domain_names"]),
       ("checkCaptivePortal", ["captive_portal"])] := by
  decide

theorem gen_fields_each :
    Gen.Verify.checkRAs_fields =
      ["hop_limit", "managed_configuration", "other_configuration", "reachable_time", "retransmit_timer"] ∧
    Gen.Verify.checkMTUs_fields = ["mtu"] ∧
    Gen.Verify.checkPrefixes_fields = ["prefix_information_preferred_lifetime", "prefix_information_valid_lifetime"] ∧
    Gen.Verify.checkRoutes_fields = ["route_information_lifetime"] ∧
    Gen.Verify.checkRDNSS_fields = ["rdnss_count", "rdnss_lifetime", "rdnss_servers", "rdnss_servers"] ∧
    Gen.Verify.checkDNSSL_fields = ["dnssl_count", "dnssl_lifetime", "dnssl_domain_names", "dnssl_domain_names"] ∧
    Gen.Verify.checkCaptivePortal_fields = ["captive_portal"] := by
  decide

/-- the details label: empty except for prefixes and routes, which carry CoreRAD's own option -/
theorem gen_details :
    Gen.Verify.checkRAs_details = ["\"\"", "\"\"", "\"\"", "\"\"", "\"\""] ∧
    Gen.Verify.checkMTUs_details = ["\"\""] ∧
    Gen.Verify.checkPrefixes_details = ["prefixStr(a)", "prefixStr(a)"] ∧
    Gen.Verify.checkRoutes_details = ["routeStr(a)"] ∧
    Gen.Verify.checkRDNSS_details = ["\"\"", "\"\"", "\"\"", "\"\""] ∧
    Gen.Verify.checkDNSSL_details = ["\"\"", "\"\"", "\"\"", "\"\""] ∧
    Gen.Verify.checkCaptivePortal_details = ["\"\""] := by
  decide

/-- `checkRAs`: the printed condition guarding each push (`Model.checkRAs` mirrors them one by one;
    `time.Millisecond` is the unit `ms` of `not_checkDurations_ms`) -/
theorem gen_checkRAs_guards :
    Gen.Verify.checkRAs_guards =
      ["a.CurrentHopLimit != 0 && b.CurrentHopLimit != 0 && a.CurrentHopLimit != b.CurrentHopLimit",
       "a.ManagedConfiguration != b.ManagedConfiguration",
       "a.OtherConfiguration != b.OtherConfiguration",
       "!checkDurations(a.ReachableTime, b.ReachableTime, time.Millisecond)",
       "!checkDurations(a.RetransmitTimer, b.RetransmitTimer, time.Millisecond)"] := by
  decide

/-- the other check functions: the printed `if` header directly guarding each push ("" = none:
    the push is reached by falling through the early returns) -/
theorem gen_guards :
    Gen.Verify.checkMTUs_guards = [""] ∧
    Gen.Verify.checkPrefixes_guards =
      ["!equalLifetimes(a.PreferredLifetime, b.PreferredLifetime)", "!equalLifetimes(a.ValidLifetime, b.ValidLifetime)"] ∧
    Gen.Verify.checkRoutes_guards =
      ["a.Preference == b.Preference && !equalLifetimes(a.RouteLifetime, b.RouteLifetime)"] ∧
    Gen.Verify.checkRDNSS_guards =
      ["len(dnsA) != len(dnsB)", "a, b := dnsA[i].Lifetime, dnsB[i].Lifetime; !equalLifetimes(a, b)",
       "len(dnsA[i].Servers) != len(dnsB[i].Servers)", "!equal"] ∧
    Gen.Verify.checkDNSSL_guards =
      ["len(dnsA) != len(dnsB)", "a, b := dnsA[i].Lifetime, dnsB[i].Lifetime; !equalLifetimes(a, b)",
       "len(dnsA[i].DomainNames) != len(dnsB[i].DomainNames)", "!equal"] ∧
    Gen.Verify.checkCaptivePortal_guards = [""] := by
  decide

/-- `pick` = all options of the type in order (`Model.pickPI` …), `pickFirst` = the first one
    (`Model.firstMTU`, `Model.firstPortal`) -/
theorem gen_pick_skeletons :
    Gen.Verify.pick_skeleton =
      ["var ts []T", "for _, o := range options", ". if t, ok := o.(T); ok", ". . ts = append(ts, t)", "return ts"] ∧
    Gen.Verify.pickFirst_skeleton =
      ["for _, o := range options", ". if t, ok := o.(T); ok", ". . return t, true", "return *new(T), false"] := by
  decide

/-! ### 3. the labels and the model -/

/-- the metric label of a model field (harness table `c12Fields`: label ↦ `Spec.C12.fieldCode`) -/
def label : Field → String
  | .hopLimit => "hop_limit" | .managed => "managed_configuration" | .other => "other_configuration"
  | .reachable => "reachable_time" | .retransmit => "retransmit_timer" | .mtu => "mtu"
  | .piPreferred => "prefix_information_preferred_lifetime" | .piValid => "prefix_information_valid_lifetime"
  | .riLifetime => "route_information_lifetime"
  | .rdnssCount => "rdnss_count" | .rdnssLifetime => "rdnss_lifetime" | .rdnssServers => "rdnss_servers"
  | .dnsslCount => "dnssl_count" | .dnsslLifetime => "dnssl_lifetime" | .dnsslNames => "dnssl_domain_names"
  | .captivePortal => "captive_portal"

/-- the model's enumeration of problem kinds -/
def allFields : List Field :=
  [.hopLimit, .managed, .other, .reachable, .retransmit, .mtu, .piPreferred, .piValid, .riLifetime,
   .rdnssCount, .rdnssLifetime, .rdnssServers, .dnsslCount, .dnsslLifetime, .dnsslNames, .captivePortal]

theorem allFields_complete (f : Field) : f ∈ allFields := by
  cases f <;> decide

/-- `allFields` lists the constructors in the order of the oracle's codes 0 … 15 -/
theorem label_code : allFields.map Spec.C12.fieldCode = List.range 16 := by decide

theorem label_injective (f g : Field) (h : label f = label g) : f = g := by
  cases f <;> cases g <;> first | rfl | (exact absurd h (by decide))

/-- the fields each model check function can emit (`Model/Verify.lean`, read off the definitions;
    proved below), under the name of the Go check function it models -/
def modelFields : List (String × List Field) :=
  [("checkRAs", [.hopLimit, .managed, .other, .reachable, .retransmit]),
   ("checkMTUs", [.mtu]),
   ("checkPrefixes", [.piPreferred, .piValid]),
   ("checkRoutes", [.riLifetime]),
   ("checkRDNSS", [.rdnssCount, .rdnssLifetime, .rdnssServers]),
   ("checkDNSSL", [.dnsslCount, .dnsslLifetime, .dnsslNames]),
   ("checkCaptivePortal", [.captivePortal])]

/-- **Per check function, the set of labels the source can push = the set of labels of the fields
    the model's counterpart can emit**, in the same merge order. -/
theorem gen_fields_model :
    Gen.Verify.fieldsByCheck.map (fun p => (p.1, p.2.eraseDups)) =
      modelFields.map (fun p => (p.1, p.2.map label)) := by
  decide

/-- the model's enumeration of problem kinds, labelled, is exactly the union of the extracted lists -/
theorem gen_fields_union :
    (Gen.Verify.fieldsByCheck.flatMap (·.2)).eraseDups = allFields.map label := by
  decide

/-! the model emits only the fields listed in `modelFields` (hence only extracted labels) -/

theorem checkRAs_labels (a b : RA) (p : Problem) (hp : p ∈ Model.checkRAs a b) :
    label p.field ∈ Gen.Verify.checkRAs_fields := by
  unfold Model.checkRAs at hp
  simp only [List.mem_append] at hp
  rcases hp with (((hp | hp) | hp) | hp) | hp <;> split at hp <;> simp at hp <;> subst hp <;> decide

theorem checkMTUs_labels (want got : List Opt) (p : Problem) (hp : p ∈ Model.checkMTUs want got) :
    label p.field ∈ Gen.Verify.checkMTUs_fields := by
  unfold Model.checkMTUs at hp
  split at hp
  · split at hp <;> simp at hp
    subst hp; decide
  · simp at hp

theorem checkCaptivePortal_labels (want got : List Opt) (p : Problem)
    (hp : p ∈ Model.checkCaptivePortal want got) :
    label p.field ∈ Gen.Verify.checkCaptivePortal_fields := by
  unfold Model.checkCaptivePortal at hp
  split at hp
  · split at hp <;> simp at hp
    subst hp; decide
  · simp at hp

private theorem prefixInner_fields (x : IP × Nat × Dur × Dur) :
    ∀ (ys : List (IP × Nat × Dur × Dur)) (p : Problem), p ∈ checkPrefixInner x ys →
      p.field = .piPreferred ∨ p.field = .piValid
  | [], p, hp => by simp [checkPrefixInner] at hp
  | y :: ys, p, hp => by
    simp only [checkPrefixInner, List.mem_append] at hp
    rcases hp with hp | hp
    · split at hp
      · simp at hp
      · simp only [List.mem_append] at hp
        rcases hp with hp | hp <;> split at hp <;> simp at hp <;> subst hp <;> simp
    · exact prefixInner_fields x ys p hp

private theorem prefixOuter_fields (ys : List (IP × Nat × Dur × Dur)) :
    ∀ (xs : List (IP × Nat × Dur × Dur)) (p : Problem), p ∈ checkPrefixOuter ys xs →
      p.field = .piPreferred ∨ p.field = .piValid
  | [], p, hp => by simp [checkPrefixOuter] at hp
  | x :: xs, p, hp => by
    simp only [checkPrefixOuter, List.mem_append] at hp
    rcases hp with hp | hp
    · exact prefixInner_fields x ys p hp
    · exact prefixOuter_fields ys xs p hp

theorem checkPrefixes_labels (want got : List Opt) (p : Problem) (hp : p ∈ Model.checkPrefixes want got) :
    label p.field ∈ Gen.Verify.checkPrefixes_fields := by
  unfold Model.checkPrefixes at hp
  simp only at hp
  split at hp
  · simp at hp
  · rcases prefixOuter_fields _ _ p hp with h | h <;> rw [h] <;> decide

private theorem routeInner_fields (x : IP × Nat × Nat × Dur) :
    ∀ (ys : List (IP × Nat × Nat × Dur)) (p : Problem), p ∈ checkRouteInner x ys → p.field = .riLifetime
  | [], p, hp => by simp [checkRouteInner] at hp
  | y :: ys, p, hp => by
    simp only [checkRouteInner, List.mem_append] at hp
    rcases hp with hp | hp
    · split at hp
      · simp at hp
      · split at hp <;> simp at hp
        subst hp; rfl
    · exact routeInner_fields x ys p hp

private theorem routeOuter_fields (ys : List (IP × Nat × Nat × Dur)) :
    ∀ (xs : List (IP × Nat × Nat × Dur)) (p : Problem), p ∈ checkRouteOuter ys xs → p.field = .riLifetime
  | [], p, hp => by simp [checkRouteOuter] at hp
  | x :: xs, p, hp => by
    simp only [checkRouteOuter, List.mem_append] at hp
    rcases hp with hp | hp
    · exact routeInner_fields x ys p hp
    · exact routeOuter_fields ys xs p hp

theorem checkRoutes_labels (want got : List Opt) (p : Problem) (hp : p ∈ Model.checkRoutes want got) :
    label p.field ∈ Gen.Verify.checkRoutes_fields := by
  unfold Model.checkRoutes at hp
  simp only at hp
  split at hp
  · simp at hp
  · rw [routeOuter_fields _ _ p hp]; decide

private theorem dnsPairs_fields {α : Type} [DecidableEq α] (fl fi : Field) :
    ∀ (xs ys : List (Dur × List α)) (p : Problem), p ∈ checkDNSPairs fl fi xs ys →
      p.field = fl ∨ p.field = fi
  | [], _, p, hp => by simp [checkDNSPairs] at hp
  | _ :: _, [], p, hp => by simp [checkDNSPairs] at hp
  | x :: xs, y :: ys, p, hp => by
    simp only [checkDNSPairs, List.mem_append] at hp
    rcases hp with (hp | hp) | hp
    · split at hp <;> simp at hp
      subst hp; simp
    · split at hp
      · simp at hp; subst hp; simp
      · split at hp <;> simp at hp
        subst hp; simp
    · exact dnsPairs_fields fl fi xs ys p hp

private theorem dns_fields {α : Type} [DecidableEq α] (fc fl fi : Field) (xs ys : List (Dur × List α))
    (p : Problem) (hp : p ∈ checkDNS fc fl fi xs ys) : p.field = fc ∨ p.field = fl ∨ p.field = fi := by
  unfold checkDNS at hp
  split at hp
  · simp at hp
  · split at hp
    · simp at hp; subst hp; simp
    · exact Or.inr (dnsPairs_fields fl fi xs ys p hp)

/-- `checkRDNSS` is `Model.checkDNS` at the three RDNSS fields -/
theorem checkRDNSS_labels (xs ys : List (Dur × List IP)) (p : Problem)
    (hp : p ∈ checkDNS .rdnssCount .rdnssLifetime .rdnssServers xs ys) :
    label p.field ∈ Gen.Verify.checkRDNSS_fields := by
  rcases dns_fields _ _ _ xs ys p hp with h | h | h <;> rw [h] <;> decide

/-- `checkDNSSL` is `Model.checkDNS` at the three DNSSL fields -/
theorem checkDNSSL_labels (xs ys : List (Dur × List Nat)) (p : Problem)
    (hp : p ∈ checkDNS .dnsslCount .dnsslLifetime .dnsslNames xs ys) :
    label p.field ∈ Gen.Verify.checkDNSSL_fields := by
  rcases dns_fields _ _ _ xs ys p hp with h | h | h <;> rw [h] <;> decide

/-- **Every problem the model reports carries a label that some push of the source has.** -/
theorem verifyRAs_labels (a b : RA) (p : Problem) (hp : p ∈ Model.verifyRAs a b) :
    label p.field ∈ Gen.Verify.fieldsByCheck.flatMap (·.2) := by
  have sub : ∀ (l : List String), (∀ s ∈ l, s ∈ Gen.Verify.fieldsByCheck.flatMap (·.2)) →
      label p.field ∈ l → label p.field ∈ Gen.Verify.fieldsByCheck.flatMap (·.2) := fun l h hm => h _ hm
  unfold Model.verifyRAs at hp
  simp only [List.mem_append] at hp
  rcases hp with (((((hp | hp) | hp) | hp) | hp) | hp) | hp
  · exact sub _ (by decide) (checkRAs_labels a b p hp)
  · exact sub _ (by decide) (checkMTUs_labels _ _ p hp)
  · exact sub _ (by decide) (checkPrefixes_labels _ _ p hp)
  · exact sub _ (by decide) (checkRoutes_labels _ _ p hp)
  · exact sub _ (by decide) (checkRDNSS_labels _ _ p hp)
  · exact sub _ (by decide) (checkDNSSL_labels _ _ p hp)
  · exact sub _ (by decide) (checkCaptivePortal_labels _ _ p hp)

/-! every field (hence every extracted label) is emitted by the model on some pair of RAs -/

private def a6 (n : Nat) : IP := { val := 0x20010db8000000000000000000000000 + n }

/-- own RA / received RA pairs that between them make the model report every field -/
def witnesses : List (RA × RA) :=
  [ -- header: everything differs
    ({ hopLimit := 64, managed := true, other := true, reachable := 2 * second, retransmit := second },
     { hopLimit := 255, managed := false, other := false, reachable := second, retransmit := 2 * second }),
    -- one option of each kind, all different
    ({ options := [.mtu 1500, .pi (a6 0) 64 true true hour (2 * hour), .ri (a6 1) 48 0 hour,
                   .rdnss hour [a6 2], .dnssl hour [1], .captivePortal 1 10] },
     { options := [.mtu 1280, .pi (a6 0) 64 true true (2 * hour) hour, .ri (a6 1) 48 0 (2 * hour),
                   .rdnss (2 * hour) [a6 3], .dnssl (2 * hour) [2], .captivePortal 2 10] }),
    -- different numbers of RDNSS / DNSSL options
    ({ options := [.rdnss hour [a6 2], .dnssl hour [1]] },
     { options := [.rdnss hour [a6 2], .rdnss hour [a6 2], .dnssl hour [1], .dnssl hour [1]] }) ]

theorem every_field_reachable :
    ∀ f ∈ allFields, ∃ w ∈ witnesses, ∃ p ∈ Model.verifyRAs w.1 w.2, p.field = f := by
  decide

/-- **Every label the source can push is reported by the model for some pair of RAs.** -/
theorem every_label_reachable :
    ∀ s ∈ Gen.Verify.fieldsByCheck.flatMap (·.2),
      ∃ a b, ∃ p ∈ Model.verifyRAs a b, label p.field = s := by
  have h : ∀ s ∈ Gen.Verify.fieldsByCheck.flatMap (·.2), ∃ f ∈ allFields, label f = s := by decide
  intro s hs
  obtain ⟨f, hf, hl⟩ := h s hs
  obtain ⟨w, _, p, hp, hpf⟩ := every_field_reachable f hf
  exact ⟨w.1, w.2, p, hp, by rw [hpf, hl]⟩

/-! ### 4. the check functions themselves, regenerated (tools/extract/translate_verify.go)

`checkRAs`, `checkMTUs`, `checkCaptivePortal`, `checkPrefixes` and `checkRoutes` are re-translated from
the current source text into the list of problems they return; each equals the model's function of the
same name — for every pair of RAs / option lists of any length. -/

theorem checkRAs_equiv (a b : RA) : Gen.Trans.checkRAs a b = Model.checkRAs a b := by
  simp [Gen.Trans.checkRAs, Model.checkRAs, checkDurations_equiv, and_assoc]

theorem checkMTUs_equiv (want got : List Opt) : Gen.Trans.checkMTUs want got = Model.checkMTUs want got := by
  unfold Gen.Trans.checkMTUs Model.checkMTUs
  cases firstMTU want <;> cases firstMTU got <;> simp

theorem checkCaptivePortal_equiv (want got : List Opt) :
    Gen.Trans.checkCaptivePortal want got = Model.checkCaptivePortal want got := by
  unfold Gen.Trans.checkCaptivePortal Model.checkCaptivePortal
  cases firstPortal want <;> cases firstPortal got <;> simp

/-- the model's loops of `checkPrefixes` as `flatMap`s -/
private theorem prefixInner_flatMap (a : IP × Nat × Dur × Dur) (bs : List (IP × Nat × Dur × Dur)) :
    checkPrefixInner a bs = bs.flatMap (fun b => checkPrefixInner a [b]) := by
  induction bs with
  | nil => simp [checkPrefixInner]
  | cons b bs ih => rw [List.flatMap_cons, ← ih]; simp [checkPrefixInner]

private theorem prefixOuter_flatMap (bs as : List (IP × Nat × Dur × Dur)) :
    checkPrefixOuter bs as = as.flatMap (fun a => checkPrefixInner a bs) := by
  induction as with
  | nil => simp [checkPrefixOuter]
  | cons a as ih => rw [List.flatMap_cons, ← ih, checkPrefixOuter]

theorem checkPrefixes_equiv (want got : List Opt) :
    Gen.Trans.checkPrefixes want got = Model.checkPrefixes want got := by
  unfold Gen.Trans.checkPrefixes Model.checkPrefixes
  simp only [prefixOuter_flatMap]
  cases h1 : pickPI want with
  | nil => simp
  | cons a as =>
    cases h2 : pickPI got with
    | nil => simp
    | cons b bs =>
      simp only [List.length_cons, List.isEmpty_cons, Bool.or_self, Bool.false_eq_true, if_false]
      have hne : ¬ ((as.length + 1 = 0) ∨ (bs.length + 1 = 0)) := by omega
      rw [if_neg hne, List.append_nil]
      congr 1
      funext x
      rw [List.append_nil, prefixInner_flatMap x (b :: bs)]
      congr 1
      funext y
      simp [checkPrefixInner, equalLifetimes_equiv]

private theorem routeInner_flatMap (a : IP × Nat × Nat × Dur) (bs : List (IP × Nat × Nat × Dur)) :
    checkRouteInner a bs = bs.flatMap (fun b => checkRouteInner a [b]) := by
  induction bs with
  | nil => simp [checkRouteInner]
  | cons b bs ih => rw [List.flatMap_cons, ← ih]; simp [checkRouteInner]

private theorem routeOuter_flatMap (bs as : List (IP × Nat × Nat × Dur)) :
    checkRouteOuter bs as = as.flatMap (fun a => checkRouteInner a bs) := by
  induction as with
  | nil => simp [checkRouteOuter]
  | cons a as ih => rw [List.flatMap_cons, ← ih, checkRouteOuter]

theorem checkRoutes_equiv (want got : List Opt) :
    Gen.Trans.checkRoutes want got = Model.checkRoutes want got := by
  unfold Gen.Trans.checkRoutes Model.checkRoutes
  simp only [routeOuter_flatMap]
  cases h1 : pickRI want with
  | nil => simp
  | cons a as =>
    cases h2 : pickRI got with
    | nil => simp
    | cons b bs =>
      simp only [List.length_cons, List.isEmpty_cons, Bool.or_self, Bool.false_eq_true, if_false]
      have hne : ¬ ((as.length + 1 = 0) ∨ (bs.length + 1 = 0)) := by omega
      rw [if_neg hne, List.append_nil]
      congr 1
      funext x
      rw [List.append_nil, routeInner_flatMap x (b :: bs)]
      congr 1
      funext y
      simp only [checkRouteInner, equalLifetimes_equiv, List.append_nil]
      by_cases h : x.1 ≠ y.1 ∨ x.2.1 ≠ y.2.1
      · simp [h]
      · simp [h]

/-- the model's index-wise loop of `checkRDNSS` / `checkDNSSL` as a `flatMap` over the zipped lists -/
private theorem dnsPairs_flatMap [DecidableEq α] (fL fI : Field) (as bs : List (Dur × List α)) :
    checkDNSPairs fL fI as bs = (List.zip as bs).flatMap (fun ab => checkDNSPairs fL fI [ab.1] [ab.2]) := by
  induction as generalizing bs with
  | nil => simp [checkDNSPairs]
  | cons a as ih =>
    cases bs with
    | nil => simp [checkDNSPairs]
    | cons b bs =>
      rw [List.zip_cons_cons, List.flatMap_cons, ← ih bs]
      simp [checkDNSPairs]

private theorem dns_equiv [DecidableEq α] (fC fL fI : Field) (dnsA dnsB : List (Dur × List α)) :
    (if (dnsA.length = 0) ∨ (dnsB.length = 0) then [] else
     if dnsA.length ≠ dnsB.length then [({ field := fC } : Problem)] else
     ((List.zip dnsA dnsB).flatMap (fun ab =>
        (if ¬ (Gen.Trans.equalLifetimes ab.1.1 ab.2.1 = true) then [({ field := fL } : Problem)] else []) ++
        if ab.1.2.length ≠ ab.2.2.length then [({ field := fI } : Problem)] else
        (if ¬ (zipAllEq ab.1.2 ab.2.2 = true) then [({ field := fI } : Problem)] else []) ++ [])) ++ [])
      = checkDNS fC fL fI dnsA dnsB := by
  unfold checkDNS
  cases dnsA with
  | nil => simp
  | cons a as =>
    cases dnsB with
    | nil => simp
    | cons b bs =>
      have hne : ¬ (((a :: as).length = 0) ∨ ((b :: bs).length = 0)) := by simp
      rw [if_neg hne]
      simp only [List.isEmpty_cons, Bool.or_self, Bool.false_eq_true, if_false]
      by_cases hl : (a :: as).length ≠ (b :: bs).length
      · rw [if_pos hl, if_pos hl]
      · rw [if_neg hl, if_neg hl, List.append_nil, dnsPairs_flatMap]
        congr 1
        funext ab
        simp only [checkDNSPairs, equalLifetimes_equiv, decide_eq_true_eq, List.append_nil]
        congr 1
        by_cases h2 : ab.1.2.length ≠ ab.2.2.length
        · simp [h2]
        · have h2' : ab.1.2.length = ab.2.2.length := by simpa using h2
          simp [h2', zipAllEq_eq _ _ h2']

theorem checkRDNSS_equiv (want got : List Opt) :
    Gen.Trans.checkRDNSS want got
      = Model.checkDNS .rdnssCount .rdnssLifetime .rdnssServers (pickRDNSS want) (pickRDNSS got) := by
  unfold Gen.Trans.checkRDNSS
  exact dns_equiv _ _ _ _ _

theorem checkDNSSL_equiv (want got : List Opt) :
    Gen.Trans.checkDNSSL want got
      = Model.checkDNS .dnsslCount .dnsslLifetime .dnsslNames (pickDNSSL want) (pickDNSSL got) := by
  unfold Gen.Trans.checkDNSSL
  exact dns_equiv _ _ _ _ _

/-- all seven checks regenerated: `verifyRAs` of the model is the concatenation, in the extracted merge
    order, of the translated functions -/
theorem verifyRAs_regenerated (a b : RA) :
    Model.verifyRAs a b =
      Gen.Trans.checkRAs a b ++ Gen.Trans.checkMTUs a.options b.options ++ Gen.Trans.checkPrefixes a.options b.options ++
      Gen.Trans.checkRoutes a.options b.options ++ Gen.Trans.checkRDNSS a.options b.options ++
      Gen.Trans.checkDNSSL a.options b.options ++ Gen.Trans.checkCaptivePortal a.options b.options := by
  rw [checkRAs_equiv, checkMTUs_equiv, checkPrefixes_equiv, checkRoutes_equiv, checkRDNSS_equiv, checkDNSSL_equiv,
    checkCaptivePortal_equiv]
  rfl

/-- non-trivial instance: one own prefix against the same prefix with a shorter preferred lifetime and
    another prefix — one report, the same on both sides -/
example :
    let own := [Opt.pi ⟨true, false, 1⟩ 64 true true (24 * hour) (4 * hour)]
    let got := [Opt.pi ⟨true, false, 2⟩ 64 true true (24 * hour) (1 * hour), Opt.pi ⟨true, false, 1⟩ 64 true true (24 * hour) (1 * hour)]
    Gen.Trans.checkPrefixes own got = [{ field := .piPreferred, details := some (⟨true, false, 1⟩, 64) }] ∧
    Model.checkPrefixes own got = [{ field := .piPreferred, details := some (⟨true, false, 1⟩, 64) }] := by
  decide

end Corerad.Props.TransC12
