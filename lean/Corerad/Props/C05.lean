/-
  C05 — unsolicited multicast RAs recur forever; waits within [Min,Max]RtrAdvInterval.

  Property theorems.  Statements use the RFC 4861 literals; the model uses the constants
  regenerated from /repo (`Gen.Advertise`), so a changed constant breaks `gen_constants` and
  everything that depends on it.  "To one-second granularity" is read as the `Round`ed end
  points (DESIGN §7).
-/
import Corerad.Model.Delay

namespace Corerad.Props.C05

open Corerad Corerad.Model

/-- The constants of RFC 4861 §10 as found in the source on this run. -/
theorem gen_constants :
    Gen.Advertise.maxInitialAdv = 3 ∧ Gen.Advertise.maxInitialAdvInterval = 16 * second := by
  decide

/-- The multicast loop waits on a fresh `time.After` timer for every wait (regenerated structural
    fact): a timer kept across waits or incarnations could deliver a stale tick, which the
    virtual-time scenarios (asynctimerchan=0, required by testing/synctest) cannot exhibit. -/
theorem gen_multicastWaitsOnFreshTimer : Gen.Advertise.multicastWaitsOnFreshTimer = true := by decide

/-- For non-negative `d`, Go's `Round(1s)` is the nearest whole second (half rounds up). -/
theorem round_spec (d : Dur) (hd : 0 ≤ d) :
    roundDur d second % second = 0 ∧ 2 * (d - roundDur d second) < second ∧
      2 * (roundDur d second - d) ≤ second := by
  unfold roundDur goMod
  have hs : ¬ (second ≤ 0) := by decide
  have hn : ¬ (d < 0) := by omega
  simp only [hs, hn, if_false]
  rw [Int.tmod_eq_emod_of_nonneg hd]
  unfold second
  split <;> omega

/-- Every wait is a whole number of seconds. -/
theorem delay_whole_second (draw : Int) (i : Nat) (min max : Dur)
    (hmin : 0 < min) (hle : min ≤ max) (hd0 : 0 ≤ draw) :
    multicastDelay draw i min max % second = 0 := by
  unfold multicastDelay
  simp only [gen_constants.1, gen_constants.2]
  have h1 := round_spec max (by omega)
  have h2 := round_spec (min + draw) (by omega)
  generalize roundDur max second = R1 at *
  generalize roundDur (min + draw) second = R2 at *
  unfold second at *
  split <;> split <;> omega

/-- Upper bound: never above `MaxRtrAdvInterval` (rounded to a second). -/
theorem delay_upper (draw : Int) (i : Nat) (min max : Dur)
    (hmin : 0 < min) (hle : min ≤ max) (hd0 : 0 ≤ draw) (hd1 : min = max ∨ draw < max - min) :
    multicastDelay draw i min max ≤ roundDur max second := by
  unfold multicastDelay
  simp only [gen_constants.1, gen_constants.2]
  have h1 := round_spec max (by omega)
  have h2 := round_spec (min + draw) (by omega)
  generalize roundDur max second = R1 at *
  generalize roundDur (min + draw) second = R2 at *
  unfold second at *
  split <;> split <;> omega

/-- Lower bound after the initial advertisements: never below `MinRtrAdvInterval` (rounded). -/
theorem delay_lower (draw : Int) (i : Nat) (min max : Dur)
    (hmin : 0 < min) (hle : min ≤ max) (hd0 : 0 ≤ draw) (hi : 3 ≤ i) :
    roundDur min second ≤ multicastDelay draw i min max := by
  unfold multicastDelay
  simp only [gen_constants.1, gen_constants.2]
  have h0 := round_spec min (by omega)
  have h1 := round_spec max (by omega)
  have h2 := round_spec (min + draw) (by omega)
  by_cases hmm : min = max
  · subst hmm
    generalize roundDur min second = R0 at *
    unfold second at *
    simp only [if_true]
    split <;> omega
  · generalize roundDur min second = R0 at *
    generalize roundDur max second = R1 at *
    generalize roundDur (min + draw) second = R2 at *
    unfold second at *
    simp only [hmm, if_false]
    split <;> omega

/-- The first three waits are capped at 16 s, and the cap is the only way to fall below Min. -/
theorem delay_initial (draw : Int) (i : Nat) (min max : Dur)
    (hmin : 0 < min) (hle : min ≤ max) (hd0 : 0 ≤ draw) (hi : i < 3) :
    multicastDelay draw i min max ≤ 16 * second ∧
    (multicastDelay draw i min max < roundDur min second →
      multicastDelay draw i min max = 16 * second) := by
  unfold multicastDelay
  simp only [gen_constants.1, gen_constants.2]
  have h0 := round_spec min (by omega)
  have h1 := round_spec max (by omega)
  have h2 := round_spec (min + draw) (by omega)
  by_cases hmm : min = max
  · subst hmm
    generalize roundDur min second = R0 at *
    unfold second at *
    simp only [if_true]
    split <;> omega
  · generalize roundDur min second = R0 at *
    generalize roundDur max second = R1 at *
    generalize roundDur (min + draw) second = R2 at *
    unfold second at *
    simp only [hmm, if_false]
    split <;> omega

/-- The wait is at least a second whenever `min ≥ 0.5 s` (an accepted configuration has
    `min ≥ 3 s`, see `C02`): choosing a wait never yields a non-positive wait. -/
theorem delay_pos (draw : Int) (i : Nat) (min max : Dur)
    (hmin : 500 * ms ≤ min) (hle : min ≤ max) (hd0 : 0 ≤ draw) :
    second ≤ multicastDelay draw i min max := by
  unfold multicastDelay
  simp only [gen_constants.1, gen_constants.2]
  have h1 := round_spec max (by unfold ms at hmin; omega)
  have h2 := round_spec (min + draw) (by unfold ms at hmin; omega)
  generalize roundDur max second = R1 at *
  generalize roundDur (min + draw) second = R2 at *
  unfold second ms at *
  split <;> split <;> omega

/-- The multicast loop diverges in time: the `n`-th request is issued no earlier than `n`
    seconds after the first, whatever the draws — it recurs forever and never spins. -/
theorem loop_diverges (draws : Nat → Int) (min max : Dur)
    (hmin : 500 * ms ≤ min) (hle : min ≤ max) (hd : ∀ n, 0 ≤ draws n) (n : Nat) :
    (n : Int) * second ≤ requestTime draws min max n := by
  induction n with
  | zero => simp [requestTime]
  | succ k ih =>
    have := delay_pos (draws k) k min max hmin hle (hd k)
    simp only [requestTime]
    have : ((k + 1 : Nat) : Int) * second = (k : Int) * second + second := by
      rw [Int.natCast_add, Int.add_mul]; simp
    omega

/-- Non-vacuity: the default configuration (min 198 s, max 600 s) with the extreme draw
    `range − 1` meets the hypotheses of every theorem above and attains the upper bound. -/
example : (0 : Int) < 198 * second ∧ 198 * second ≤ 600 * second ∧
    (0 : Int) ≤ 402 * second - 1 ∧ (402 * second - 1 < 600 * second - 198 * second) ∧
    multicastDelay (402 * second - 1) 3 (198 * second) (600 * second) = 600 * second := by
  decide

end Corerad.Props.C05
