/-
  TransC13 — `(*Prefix).current` (internal/plugin/plugin.go) tied to `Model.currentPrefixes` by
  REGENERATION.

  The function is re-translated from its current source text into `Corerad.Gen.Trans.Prefix_current`
  on every run (tools/extract/translate_loop.go): the `for _, a := range addrs` loop becomes a left
  fold whose state is the pair (`prefixes`, `seen`), every `continue` yields the state unchanged,
  `seen[pfx] = struct{}{}` / `_, ok := seen[pfx]` are insertion into / membership in a set,
  `slices.SortStableFunc` is `Model.sortStableFunc` with the translated comparator.  `system.IP`,
  `netip.Prefix`, `netip.Addr` are abstract types of the translation and everything the function
  reads of them is an uninterpreted parameter.

  `Prefix_current_equiv` instantiates the parameters with the model's `SysIP` / `Prefix` / `IP` and
  states, for EVERY address list, equality with the declarative model
  `sortBy addrKey ∘ dedupe ∘ map masked ∘ filter prefixEligible` — the function the C13 theorems
  (membership iff, strictly ascending, duplicate-free, permutation- and multiplicity-invariant) are
  about.  Dropping or adding an exclusion test, testing the flags of the wrong record, masking before
  the length test, keying `seen` by something else, appending before the `seen` test, sorting by
  another key or not at all: each changes the translated definition and this proof stops checking.
-/
import Corerad.Gen.Trans
import Corerad.Model.Wild
import Corerad.Lemmas.LoopFold

namespace Corerad.Props.TransC13

open Corerad Corerad.Model Corerad.Lemmas.LoopFold

/-- `netip.Prefix.Bits()`: the prefix length, `-1` for an invalid prefix -/
def goBits (p : Prefix) : Int := if p.isValid then (p.bits : Int) else -1

/-- `netip.Addr.Compare` as the integer `slices.SortStableFunc` consumes -/
def compareInt (a b : IP) : Int :=
  match IP.compare a b with
  | .lt => -1
  | .eq => 0
  | .gt => 1

/-- On well-formed addresses (`val` below 2^128) `Compare` orders as the model's sort key does. -/
theorem compareInt_le_iff (a b : IP) (ha : a.val < 2^128) (hb : b.val < 2^128) :
    compareInt a b ≤ 0 ↔ addrKey a ≤ addrKey b := by
  unfold compareInt IP.compare addrKey
  by_cases h1 : a.bitLen < b.bitLen
  · simp only [h1, if_true]
    constructor
    · intro _
      have : (a.bitLen + 1) * 2^128 ≤ b.bitLen * 2^128 := Nat.mul_le_mul_right _ h1
      have h2 : (a.bitLen + 1) * 2^128 = a.bitLen * 2^128 + 2^128 := by
        rw [Nat.add_mul, Nat.one_mul]
      omega
    · intro _; decide
  · simp only [h1, if_false]
    by_cases h2 : a.bitLen > b.bitLen
    · simp only [h2, if_true]
      constructor
      · intro h; exact absurd h (by decide)
      · intro h
        have : (b.bitLen + 1) * 2^128 ≤ a.bitLen * 2^128 := Nat.mul_le_mul_right _ h2
        have h3 : (b.bitLen + 1) * 2^128 = b.bitLen * 2^128 + 2^128 := by
          rw [Nat.add_mul, Nat.one_mul]
        omega
    · simp only [h2, if_false]
      have he : a.bitLen = b.bitLen := by omega
      rw [he]
      by_cases h3 : a.val < b.val
      · simp only [h3, if_true]
        constructor
        · intro _; omega
        · intro _; decide
      · simp only [h3, if_false]
        by_cases h4 : a.val > b.val
        · simp only [h4, if_true]
          constructor
          · intro h; exact absurd h (by decide)
          · intro h; omega
        · simp only [h4, if_false]
          constructor
          · intro _; omega
          · intro _; decide

theorem maskVal_le (len bits val : Nat) : Prefix.maskVal len bits val ≤ val := by
  unfold Prefix.maskVal
  split
  · exact Nat.le_refl _
  · exact Nat.div_mul_le_self _ _

theorem natCast_bne (m n : Nat) : ((m : Int) != (n : Int)) = (m != n) := by
  by_cases h : m = n
  · subst h; simp
  · have h2 : (m : Int) ≠ (n : Int) := by omega
    rw [bne_iff_ne.mpr h, bne_iff_ne.mpr h2]

theorem neg1_bne (n : Nat) : ((-1 : Int) != (n : Int)) = true := by
  have : (-1 : Int) ≠ (n : Int) := by omega
  exact bne_iff_ne.mpr this

/-- the two `continue` tests of the loop, joined -/
def skip (bits : Nat) (a : SysIP) : Bool :=
  ((a.addr.addr.is4 || a.addr.addr.isLinkLocalUnicast) || (goBits a.addr != goBits ⟨{}, bits⟩))
    || (a.temporary || a.tentative)

theorem skip_eq (bits : Nat) (hb : bits ≤ 128) (a : SysIP) : (!skip bits a) = prefixEligible bits a := by
  have hr : goBits ⟨{}, bits⟩ = (bits : Int) := by
    have : (⟨{}, bits⟩ : Prefix).isValid = true := by
      unfold Prefix.isValid IP.bitLen
      simp
      omega
    unfold goBits
    rw [this]
    simp
  unfold skip prefixEligible
  rw [hr]
  by_cases hv : a.addr.isValid = true
  · have hg : goBits a.addr = (a.addr.bits : Int) := by simp [goBits, hv]
    rw [hg, hv, natCast_bne]
    cases a.addr.addr.is4 <;> cases a.addr.addr.isLinkLocalUnicast <;> cases (a.addr.bits != bits) <;>
      cases a.temporary <;> cases a.tentative <;> rfl
  · have hv' : a.addr.isValid = false := by simpa using hv
    have hg : goBits a.addr = -1 := by simp [goBits, hv']
    rw [hg, hv', neg1_bne]
    cases a.addr.addr.is4 <;> cases a.addr.addr.isLinkLocalUnicast <;> rfl

/-- **`(*Prefix).current()` as translated from the source is `Model.currentPrefixes`**, for every
    address list the operating system can hand over (any length, order, multiplicity) and every
    stanza length `bits ≤ 128` (the configuration only admits 64): the loop with its `seen` set is
    `dedupe ∘ map masked ∘ filter eligible`, and the stable sort by `Addr().Compare` is the model's
    sort by address key. -/
theorem Prefix_current_equiv (bits : Nat) (hb : bits ≤ 128) (as : List SysIP)
    (hwf : ∀ a ∈ as, a.addr.addr.val < 2^128) :
    Gen.Trans.Prefix_current (recv_Addrs := some as) (IP_Address := fun a => a.addr)
        (Prefix_Addr := fun p => p.addr) (Addr_Is4 := IP.is4)
        (Addr_IsLinkLocalUnicast := IP.isLinkLocalUnicast) (Prefix_Bits := goBits)
        (recv_Prefix := ⟨{}, bits⟩) (IP_Temporary := fun a => a.temporary)
        (IP_Tentative := fun a => a.tentative) (Prefix_Masked := Prefix.masked)
        (Addr_Compare := compareInt)
      = some (currentPrefixes bits as) := by
  unfold Gen.Trans.Prefix_current currentPrefixes
  simp only [Option.some.injEq]
  -- the loop body is `step skip masked`
  have hbody : (fun (st : List Prefix × List Prefix) (a : SysIP) =>
        if ((a.addr.addr.is4 || a.addr.addr.isLinkLocalUnicast) || (goBits a.addr != goBits ⟨{}, bits⟩)) = true then
          (st.1, st.2)
        else if (a.temporary || a.tentative) = true then (st.1, st.2)
        else if decide (a.addr.masked ∈ st.2) = true then (st.1, st.2)
        else (st.1 ++ [a.addr.masked], a.addr.masked :: st.2))
      = step (skip bits) (fun a => a.addr.masked) := by
    funext st a
    unfold step skip
    cases h1 : ((a.addr.addr.is4 || a.addr.addr.isLinkLocalUnicast) || (goBits a.addr != goBits ⟨{}, bits⟩)) <;>
      cases h2 : (a.temporary || a.tentative) <;> simp
  rw [hbody, foldl_step_nil]
  have hf : as.filter (fun a => !skip bits a) = as.filter (prefixEligible bits) := by
    apply List.filter_congr
    intro a _
    exact skip_eq bits hb a
  rw [hf]
  apply sortStableFunc_eq_sortBy
  intro x hx y hy
  have hval : ∀ z ∈ dedupe ((as.filter (prefixEligible bits)).map (fun a => a.addr.masked)), z.addr.val < 2^128 := by
    intro z hz
    rw [mem_dedupe] at hz
    obtain ⟨a, ha, rfl⟩ := List.mem_map.mp hz
    have ha' := (List.mem_filter.mp ha).1
    exact Nat.lt_of_le_of_lt (maskVal_le _ _ _) (hwf a ha')
  exact compareInt_le_iff _ _ (hval x hx) (hval y hy)

/-- an error from the address source is an error of the expansion (RA generation fails) -/
theorem Prefix_current_error {IPRec Addr Pfx : Type} [DecidableEq Pfx] (ia : IPRec → Pfx) (pa : Pfx → Addr)
    (i4 ll : Addr → Bool) (pb : Pfx → Int) (rp : Pfx) (tmp tnt : IPRec → Bool) (pm : Pfx → Pfx)
    (cmp : Addr → Addr → Int) :
    Gen.Trans.Prefix_current (recv_Addrs := none) (IP_Address := ia) (Prefix_Addr := pa) (Addr_Is4 := i4)
        (Addr_IsLinkLocalUnicast := ll) (Prefix_Bits := pb) (recv_Prefix := rp) (IP_Temporary := tmp)
        (IP_Tentative := tnt) (Prefix_Masked := pm) (Addr_Compare := cmp) = none := rfl

/-- non-vacuity: a list with a duplicate /64, a link-local, a temporary and a /128 address -/
example :
    Gen.Trans.Prefix_current
        (recv_Addrs := some [
          { addr := ⟨{ val := 0x20010db8000000020000000000000001 }, 64⟩ },
          { addr := ⟨{ val := 0xfe800000000000000000000000000001 }, 64⟩ },
          { addr := ⟨{ val := 0x20010db8000000010000000000000001 }, 64⟩ },
          { addr := ⟨{ val := 0x20010db8000000020000000000000002 }, 64⟩ },
          { addr := ⟨{ val := 0x20010db8000000030000000000000001 }, 64⟩, temporary := true },
          { addr := ⟨{ val := 0x20010db8000000040000000000000001 }, 128⟩ } ])
        (IP_Address := fun (a : SysIP) => a.addr)
        (Prefix_Addr := fun p => p.addr) (Addr_Is4 := IP.is4)
        (Addr_IsLinkLocalUnicast := IP.isLinkLocalUnicast) (Prefix_Bits := goBits)
        (recv_Prefix := ⟨{}, 64⟩) (IP_Temporary := fun a => a.temporary)
        (IP_Tentative := fun a => a.tentative) (Prefix_Masked := Prefix.masked)
        (Addr_Compare := compareInt)
      = some [⟨{ val := 0x20010db8000000010000000000000000 }, 64⟩,
              ⟨{ val := 0x20010db8000000020000000000000000 }, 64⟩] := by
  decide +kernel

end Corerad.Props.TransC13
