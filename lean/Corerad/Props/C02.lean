import Corerad.Spec.C02
namespace Corerad.Props.C02
theorem placeholder : True := trivial
end Corerad.Props.C02
