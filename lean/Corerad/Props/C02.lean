/-
  C02 — the configuration parser accepts exactly the documented configurations and resolves
  every default exactly as documented.

  Refinement of the procedural model `Model.parseConfig` (Go control flow, early returns) to the
  declarative specification `Spec.C02.documented` / `Spec.C02.expConfig`:

      parseConfig c = if documented c then some (expConfig c) else none

  for every raw document `c` whose successfully parsed `prefix`/`route` CIDRs have at most 128
  bits (`wfConfig`; implied by `netip.Prefix.IsValid`, which `netip.ParsePrefix` guarantees).
  The hypothesis is necessary: `parse_eq_spec_needs_wf` below exhibits an ill-formed input on
  which model and specification differ.

  Structure: per-stanza lemmas `parseX raw = if docX raw then some (expX raw) else none`
  (`parsePrefix_eq`, `parseRoute_eq`, `parseRDNSS_eq`, `parseDNSSL_eq`, `parsePref64_eq` with
  `pref64_lifetime_eq`), `parsePlugins_eq`, `parseInterface_eq`, `parseInterfaces_eq`,
  `parseAll_eq` (the `seen` set against `nodupNat (allNames …)`), `parse_eq_spec` and its
  corollaries `accept_iff`, `defaults_exact`, `holds_model`; then the float64 facts
  (`min_upper_exact`, `min_default_table`) and concrete examples.  Helper lemmas (lists, the
  `rdnss` server loop, `docAdvertising = docScalars && docPlugins`) are in `Corerad.Lemmas.Config`.
  The model reads the constants regenerated from the Go source (`Gen.*`), the specification uses
  literals: `gen_constants` (proved by `decide`) ties them together and breaks if the source changes.
-/
import Corerad.Spec.C02
import Corerad.Lemmas.Config

namespace Corerad.Props.C02

open Corerad Corerad.Model Corerad.Spec.C02

/-- the constants extracted from the Go source are the documented ones (breaks if the source changes) -/
theorem gen_constants :
    Gen.Config.defaultMaxInterval = 600 * second ∧
    Gen.Config.maxIntervalLo = 4 * second ∧ Gen.Config.maxIntervalHi = 1800 * second ∧
    Gen.Config.reachableLo = 0 ∧ Gen.Config.reachableHi = hour ∧
    Gen.Config.retransLo = 0 ∧ Gen.Config.retransHi = hour ∧
    Gen.Config.hopLimitLo = 0 ∧ Gen.Config.hopLimitHi = 255 ∧ Gen.Config.defaultHopLimit = 64 ∧
    Gen.Config.mtuLo = 0 ∧ Gen.Config.mtuHi = 65536 ∧
    Gen.Plugin.maxPref64Lifetime = 65528 * second := by decide

theorem gen_maxPref64Lifetime : Gen.Plugin.maxPref64Lifetime = 65528 * second := by decide

theorem gen_mtu : Gen.Config.mtuLo = 0 ∧ Gen.Config.mtuHi = 65536 := by decide

/-! ### per-stanza refinement -/

theorem parsePrefix_eq (p : RawPrefix) (hwf : wfPfx p.pstr = true) :
    parsePrefix p = if docPrefix p then some (expPrefix p) else none := by
  unfold parsePrefix docPrefix expPrefix
  simp only [bind, pure, Option.bind, parseDuration_eq, show autoPrefix = wildPrefix from rfl]
  rcases pfx_cases wildPrefix rfl (by decide) p.pstr hwf with ⟨h0, h1⟩ | ⟨p0, q, h0, hq, h1, h6, hb⟩
  · rw [h0, h1]; rfl
  · rw [h0, h1]
    simp only [hq, Option.getD_some, is6_isSingleIP q h6 hb]
    cases resolve p.valid (24 * hour) with
    | none => simp
    | some v =>
      cases resolve p.preferred (4 * hour) with
      | none => simp
      | some pr =>
        simp only [Option.getD_some, inPos, lifetimeInRange, show infinity = maxLifetime from rfl]
        simp only [show maxLifetime = 4294967295000000000 from by decide]
        cases (q.bits == 128) <;> cases q.addr.isUnspecified <;> cases hb64 : (q.bits == 64) <;>
          cases p.deprecated <;> simp [bne, hb64] <;> (repeat' split) <;> first | rfl | omega

theorem parseRoute_eq (r : RawRoute) (hwf : wfPfx r.pstr = true) :
    parseRoute r = if docRoute r then some (expRoute r) else none := by
  unfold parseRoute docRoute expRoute
  simp only [bind, pure, Option.bind, parseDuration_eq, parsePreference_eq, show autoRoute = wildRoute from rfl]
  rcases pfx_cases wildRoute rfl (by decide) r.pstr hwf with ⟨h0, h1⟩ | ⟨p0, q, h0, hq, h1, h6, hb⟩
  · simp [h0, h1]
  · rw [h0, h1]
    simp only [hq, Option.getD_some]
    cases prefCode r.preference with
    | none => simp
    | some pc =>
    cases resolve r.lifetime (24 * hour) with
    | none => simp
    | some l =>
      simp only [Option.getD_some, inPos, lifetimeInRange, show infinity = maxLifetime from rfl, maxLifetime_val]
      cases q.addr.isUnspecified <;> cases hb0 : (q.bits == 0) <;>
          cases r.deprecated <;> simp [bne, hb0] <;> (repeat' split) <;> first | rfl | omega

theorem parseRDNSS_eq (d : RawRDNSS) (maxI : Dur) :
    parseRDNSS d maxI = if docRDNSS maxI d then some (expRDNSS maxI d) else none := by
  unfold parseRDNSS docRDNSS expRDNSS
  simp only [bind, pure, Option.bind, parseDuration_eq]
  cases resolve d.lifetime (3 * maxI) with
  | none => simp
  | some l =>
    simp only [Option.getD_some, show lifetimeInRange l = inNonneg l from rfl]
    cases inNonneg l with
    | false => simp
    | true =>
      simp only [Bool.not_true, Bool.false_eq_true, if_false, Bool.true_and]
      cases hs : d.servers with
      | nil => simp [nodupIP, sortBy]
      | cons a rest =>
        simp only [List.isEmpty_cons, Bool.false_eq_true, if_false, Bool.false_or]
        rw [parseServers_eq]
        simp only [Bool.false_eq_true, if_false, Nat.add_zero, List.contains_nil, Bool.not_false,
          Bool.false_or, List.nil_append]
        show _ = if (List.all (a :: rest) serverOk && decide ((unspecs (a :: rest)).length ≤ 1) && nodupIP (specs (a :: rest))) = true then
          some (Plugin.rdnss ((List.map serverAddr (a :: rest)).any (·.isUnspecified)) l (sortBy addrKey (specs (a :: rest)))) else none
        have hall : ((specs (a :: rest)).all fun _ => true) = true := by simp
        rw [hall, Bool.and_true]
        generalize ((a :: rest).all serverOk && decide ((unspecs (a :: rest)).length ≤ 1) && nodupIP (specs (a :: rest))) = b
        cases b <;> rfl

theorem parseDNSSL_eq (d : RawDNSSL) (maxI : Dur) :
    parseDNSSL d maxI = if docDNSSL maxI d then some (expDNSSL maxI d) else none := by
  unfold parseDNSSL docDNSSL expDNSSL hasDupOrEmpty
  simp only [bind, pure, Option.bind, parseDuration_eq, hasDup_eq]
  cases resolve d.lifetime (3 * maxI) with
  | none => simp
  | some l =>
    simp only [Option.getD_some, show lifetimeInRange l = inNonneg l from rfl]
    cases inNonneg l <;> cases d.names.isEmpty <;> cases d.names.contains 0 <;> cases nodupNat d.names <;> simp

/-- the source scales the duration itself (regenerated; the repair of F-20) -/
theorem gen_pref64_scales_duration : Gen.Plugin.pref64ScalesDuration = true := by decide

theorem pref64_lifetime_eq (maxI : Dur) (h : 0 ≤ maxI) :
    Model.pref64Lifetime maxI = Spec.C02.pref64Lifetime maxI := by
  unfold Model.pref64Lifetime
  rw [gen_pref64_scales_duration]
  simp only [if_true]
  have h8 : (8 * second : Int) = 8000000000 := by decide
  have hcap : Gen.Plugin.maxPref64Lifetime = 65528000000000 := by rw [gen_maxPref64Lifetime]; decide
  have hcap' : (65528 * second : Int) = 65528000000000 := by decide
  unfold Model.pref64LifetimeDur Spec.C02.pref64Lifetime ceil8s goMod
  simp only [h8, hcap, hcap']
  clear h8 hcap hcap'
  have hm : (3 * maxI).tmod 8000000000 = (3 * maxI) % 8000000000 :=
    Int.tmod_eq_emod_of_nonneg (by omega)
  rw [hm]
  clear hm
  generalize 3 * maxI = y at *
  by_cases h1 : y < 65528000000000
  · by_cases h2 : y % 8000000000 > 0
    · rw [if_pos h1, if_pos h2]; omega
    · rw [if_pos h1, if_neg h2]; omega
  · rw [if_neg h1]; omega

theorem parsePref64_eq (p : RawPref64) (maxI : Dur) (h : 0 ≤ maxI) :
    parsePref64 p maxI =
      if docPref64 p then some (Plugin.pref64 ((pref64Of p).getD wellKnown64) (Spec.C02.pref64Lifetime maxI))
      else none := by
  unfold parsePref64 docPref64
  rw [pref64_lifetime_eq maxI h]
  have hb : ∀ b, pref64Bits b = nat64Len b := fun _ => rfl
  have hd : defaultPref64 = wellKnown64 := rfl
  cases p with
  | unset => rfl
  | empty => rfl
  | str s =>
    cases s with
    | empty => rfl
    | bad => simp [pref64Of, parseIPPrefix]
    | ok q =>
      simp only [pref64Of, parseIPPrefix, canonical6, hb]
      by_cases hm : q.masked = q <;> by_cases h6 : q.addr.is6 = true <;> by_cases h4 : q.addr.is4In6 = true <;>
        simp [hm, h6, h4]

/-- `docAdvertising` is literally the conjunction of its scalar part and its plugin part -/
theorem docAdvertising_eq (i : RawInterface) :
    docAdvertising i =
      match plainDur i.maxInterval (600 * second) with
      | none => false
      | some maxI => docScalars i maxI && docPlugins i maxI := by
  unfold docAdvertising docScalars docPlugins overlapPrefixes overlapRoutes
  cases plainDur i.maxInterval (600 * second) with
  | none => rfl
  | some maxI => simp only [Bool.and_assoc]; rfl

theorem parsePlugins_eq (i : RawInterface) (maxI : Dur) (hwf : wfIface i = true) (hmax : 0 ≤ maxI) :
    parsePlugins i maxI = if docPlugins i maxI then some (expPlugins i maxI) else none := by
  unfold wfIface at hwf
  simp only [Bool.and_eq_true, List.all_eq_true] at hwf
  unfold parsePlugins docPlugins expPlugins
  simp only [bind, pure, Option.bind]
  rw [mapM'_eq (d := docPrefix) (e := expPrefix) i.prefixes (fun x hx => parsePrefix_eq x (hwf.1 x hx)),
    mapM'_eq (d := docRoute) (e := expRoute) i.routes (fun x hx => parseRoute_eq x (hwf.2 x hx)),
    mapM'_eq (d := docRDNSS maxI) (e := expRDNSS maxI) i.rdnss (fun x _ => parseRDNSS_eq x maxI),
    mapM'_eq (d := docDNSSL maxI) (e := expDNSSL maxI) i.dnssl (fun x _ => parseDNSSL_eq x maxI),
    mapM'_eq (d := docPref64) (e := fun p => Plugin.pref64 ((pref64Of p).getD wellKnown64) (Spec.C02.pref64Lifetime maxI))
      i.pref64 (fun x _ => parsePref64_eq x maxI hmax)]
  have hover1 : i.prefixes.all docPrefix = true →
      anyPair (fun a b => (pluginPrefixOf a).overlaps (pluginPrefixOf b)) (List.map expPrefix i.prefixes)
      = !pairwiseNot overlapPrefixes i.prefixes := by
    intro h1
    rw [List.all_eq_true] at h1
    rw [anyPair_eq, pairwiseNot_map expPrefix _ overlapPrefixes]
    intro a ha b hb
    obtain ⟨qa, hqa⟩ := docPrefix_some a (h1 a ha)
    obtain ⟨qb, hqb⟩ := docPrefix_some b (h1 b hb)
    simp only [overlapPrefixes, expPrefix, pluginPrefixOf, hqa, hqb, Option.getD_some]
  have hover2 : i.routes.all docRoute = true →
      anyPair (fun a b => pluginPrefixOf a != autoRoute && pluginPrefixOf b != autoRoute &&
                      (pluginPrefixOf a).overlaps (pluginPrefixOf b)) (List.map expRoute i.routes)
      = !pairwiseNot overlapRoutes i.routes := by
    intro h3
    rw [List.all_eq_true] at h3
    rw [anyPair_eq, pairwiseNot_map expRoute _ overlapRoutes]
    intro a ha b hb
    obtain ⟨qa, hqa⟩ := docRoute_some a (h3 a ha)
    obtain ⟨qb, hqb⟩ := docRoute_some b (h3 b hb)
    simp only [overlapRoutes, expRoute, pluginPrefixOf, hqa, hqb, Option.getD_some,
      show autoRoute = wildRoute from rfl]
  cases h1 : i.prefixes.all docPrefix with
  | false => simp
  | true =>
    simp only [if_true, hover1 h1]
    cases h2 : pairwiseNot overlapPrefixes i.prefixes with
    | false => simp
    | true =>
      cases h3 : i.routes.all docRoute with
      | false => simp
      | true =>
        simp only [if_true, hover2 h3]
        cases h4 : pairwiseNot overlapRoutes i.routes with
        | false => simp
        | true =>
          cases h5 : i.rdnss.all (docRDNSS maxI) with
          | false => simp
          | true =>
            cases h6 : i.dnssl.all (docDNSSL maxI) with
            | false => simp
            | true =>
              simp only [if_true, gen_mtu.1, gen_mtu.2, Bool.not_true, Bool.false_eq_true, if_false, Bool.true_and]
              by_cases hm1 : i.mtu < 0
              · have : ¬ (0 ≤ i.mtu) := by omega
                simp [hm1, this]
              · by_cases hm2 : i.mtu > 65536
                · have : ¬ (i.mtu ≤ 65536) := by omega
                  simp [hm2, this]
                · have hm3 : 0 ≤ i.mtu := by omega
                  have hm4 : i.mtu ≤ 65536 := by omega
                  simp only [hm1, hm2, hm3, hm4, decide_true, decide_false, Bool.or_self, Bool.false_eq_true,
                    if_false, Bool.true_and]
                  cases h7 : i.pref64.all docPref64 with
                  | false => cases i.captivePortal <;> simp [portalOk] <;> split <;> simp
                  | true =>
                    cases i.captivePortal with
                    | empty => simp [portalOk]
                    | bad => simp [portalOk]
                    | ok u l =>
                      simp only [portalOk, maxPortalLen]
                      by_cases hl : l > 246
                      · have : ¬ l ≤ 246 := by omega
                        simp [hl, this]
                      · have : l ≤ 246 := by omega
                        simp [hl, this]

/-! ### interfaces and the whole document -/

theorem parsePlainDur_eq (s : DurStr) (d : Dur) : parsePlainDur s d = plainDur s d := by
  cases s <;> rfl

theorem parseMinInterval_eq (s : DurStr) (maxI : Dur) : parseMinInterval s maxI = minOf s maxI := by
  cases s with
  | lit d =>
    simp only [parseMinInterval, minOf]
    show (if d < 3 * second ∨ d > minUpper maxI then none else some d) = _
    by_cases h : 3 * second ≤ d ∧ d ≤ minUpper maxI
    · have : ¬ (d < 3 * second ∨ d > minUpper maxI) := by omega
      rw [if_pos h, if_neg this]
    · have : d < 3 * second ∨ d > minUpper maxI := by omega
      rw [if_neg h, if_pos this]
  | _ => first | rfl | (simp only [parseMinInterval, minOf, minDefault]; (repeat' split) <;> first | rfl | omega)

theorem parseDefaultLifetime_eq (s : DurStr) (maxI : Dur) :
    parseDefaultLifetime s maxI = lifetimeOf s maxI := by
  unfold parseDefaultLifetime lifetimeOf
  simp only [bind, pure, Option.bind, parseDuration_eq]
  cases resolve s (3 * maxI) with
  | none => rfl
  | some l =>
    simp only []
    (repeat' split) <;> first | rfl | omega

theorem parseInterface_eq (n : Nat) (i : RawInterface) (hwf : wfIface i = true) :
    parseInterface n i = if docInterface i then some (expInterface n i) else none := by
  unfold parseInterface docInterface expInterface
  obtain ⟨g1, g2, g3, g4, g5, g6, g7, g8, g9, g10, -, -, -⟩ := gen_constants
  simp only [bind, pure, Option.bind, parsePlainDur_eq, parseMinInterval_eq, parseDefaultLifetime_eq,
    parsePreference_eq, g1, g2, g3, g4, g5, g6, g7, g8, g9, g10, docAdvertising_eq]
  cases hmon : i.monitor with
  | true => cases i.advertise <;> simp
  | false =>
    simp only [Bool.false_and, Bool.false_eq_true, if_false, Bool.not_false, Bool.true_and, Bool.false_or]
    cases hmax : plainDur i.maxInterval (600 * second) with
    | none => simp
    | some maxI =>
      simp only [Option.getD_some, docScalars]
      by_cases hr : maxI < 4 * second ∨ maxI > 1800 * second
      · have h1 : (decide (4 * second ≤ maxI) && decide (maxI ≤ 1800 * second)) = false := by
          rw [Bool.and_eq_false_iff, decide_eq_false_iff_not, decide_eq_false_iff_not]; omega
        simp only [hr, if_true, h1, Bool.false_and, Bool.false_eq_true, if_false]
      · have h1 : (decide (4 * second ≤ maxI) && decide (maxI ≤ 1800 * second)) = true := by
          rw [Bool.and_eq_true, decide_eq_true_eq, decide_eq_true_eq]; omega
        have h0 : 0 ≤ maxI := by unfold second at hr; omega
        simp only [hr, if_false, h1, Bool.true_and, parsePlugins_eq i maxI hwf h0]
        cases hmin : minOf i.minInterval maxI with
        | none => simp
        | some minI =>
          cases hre : plainDur i.reachable 0 with
          | none => simp [within]
          | some re =>
            cases hrt : plainDur i.retransmit 0 with
            | none => simp [within]
            | some rt =>
              cases hlt : lifetimeOf i.defaultLifetime maxI with
              | none => simp
              | some lt =>
                cases hpc : prefCode i.preference with
                | none => simp
                | some pc =>
                  simp only [Option.isSome_some, Bool.true_and, Bool.and_true, within, Option.getD_some]
                  generalize expPlugins i maxI = pl
                  generalize hour = H
                  cases docPlugins i maxI <;> cases i.hopLimit <;> simp <;>
                    (repeat' split) <;> first | rfl | omega

theorem all_const {α : Type} (l : List α) (b : Bool) (h : l ≠ []) : l.all (fun _ => b) = b := by
  cases l with
  | nil => exact absurd rfl h
  | cons x xs => cases b <;> simp

/-- the resolved interfaces of one stanza: one per name -/
def expStanza (i : RawInterface) : List Interface :=
  ((stanzaNames i).getD []).map (fun n => expInterface n i)

theorem parseInterfaces_eq (i : RawInterface) (hwf : wfIface i = true) :
    parseInterfaces i =
      if (stanzaNames i).isSome && docInterface i then some (expStanza i) else none := by
  unfold parseInterfaces stanzaNames expStanza stanzaNames
  have hm : ∀ ns : List Nat, ns ≠ [] → mapM' (fun n => parseInterface n i) ns =
      if docInterface i then some (ns.map (fun n => expInterface n i)) else none := by
    intro ns hns
    rw [mapM'_eq (d := fun _ => docInterface i) (e := fun n => expInterface n i) ns
      (fun n _ => parseInterface_eq n i hwf), all_const ns _ hns]
  cases hn : (i.name != 0) <;> cases hns : i.names with
  | nil => simp [hm]
  | cons x xs => simp [hm]

theorem expInterface_name (n : Nat) (i : RawInterface) : (expInterface n i).name = n := by
  unfold expInterface; split <;> rfl

theorem expStanza_names (i : RawInterface) : (expStanza i).map (·.name) = (stanzaNames i).getD [] := by
  unfold expStanza
  rw [List.map_map]
  have : ((fun x : Interface => x.name) ∘ fun n => expInterface n i) = id := by
    funext n; exact expInterface_name n i
  rw [this, List.map_id]

theorem nodupNat_iff (l : List Nat) : nodupNat l = true ↔ l.Nodup := by
  induction l with
  | nil => simp [nodupNat]
  | cons x xs ih => simp [nodupNat, ih]

theorem seen_step (seen a b : List Nat) :
    (nodupNat (a ++ b) && (a ++ b).all (fun x => !seen.contains x)) =
    (!(a.any seen.contains || hasDup a) && (nodupNat b && b.all (fun x => !(seen ++ a).contains x))) := by
  rw [Bool.eq_iff_iff, hasDup_eq]
  simp only [Bool.and_eq_true, Bool.not_eq_true', Bool.or_eq_false_iff, Bool.not_eq_false', nodupNat_iff,
    List.nodup_append, List.all_eq_true, List.any_eq_false, List.contains_eq_mem, decide_eq_true_eq,
    decide_eq_false_iff_not, List.mem_append]
  constructor
  · rintro ⟨⟨ha, hb, hab⟩, hs⟩
    refine ⟨⟨fun x hx => hs x (Or.inl hx), ha⟩, hb, ?_⟩
    rintro x hx (h | h)
    · exact hs x (Or.inr hx) h
    · exact hab x h x hx rfl
  · rintro ⟨⟨hs, ha⟩, hb, hsb⟩
    refine ⟨⟨ha, hb, ?_⟩, ?_⟩
    · rintro x hx y hy rfl; exact hsb x hy (Or.inr hx)
    · rintro x (hx | hx)
      · exact hs x hx
      · exact fun h => hsb x hx (Or.inl h)

def namesOk (seen : List Nat) (l : List RawInterface) : Bool :=
  match allNames l with
  | none => false
  | some ns => nodupNat ns && ns.all (fun x => !seen.contains x)

theorem namesOk_cons (seen a : List Nat) (r : RawInterface) (rs : List RawInterface)
    (hs : stanzaNames r = some a) :
    namesOk seen (r :: rs) = (!(a.any seen.contains || hasDup a) && namesOk (seen ++ a) rs) := by
  unfold namesOk
  simp only [allNames, hs]
  cases allNames rs with
  | none => simp
  | some b => exact seen_step seen a b

theorem parseAll_eq (l : List RawInterface) (seen : List Nat) (hwf : l.all wfIface = true) :
    parseAll l seen =
      if l.all docInterface && namesOk seen l then some (l.flatMap expStanza) else none := by
  induction l generalizing seen with
  | nil => simp [parseAll, namesOk, allNames, nodupNat]
  | cons r rs ih =>
    rw [List.all_cons, Bool.and_eq_true] at hwf
    simp only [parseAll, bind, pure, Option.bind, parseInterfaces_eq r hwf.1, ih _ hwf.2]
    cases hs : stanzaNames r with
    | none => simp [namesOk, allNames, hs]
    | some a =>
      cases hd : docInterface r with
      | false => simp [hd]
      | true =>
        simp only [Option.isSome_some, Bool.and_self, if_true, expStanza_names, hs, Option.getD_some,
          List.all_cons, hd, Bool.true_and, namesOk_cons seen a r rs hs, List.flatMap_cons]
        cases (a.any seen.contains || hasDup a) with
        | true => simp
        | false =>
          simp only [Bool.false_eq_true, if_false, Bool.not_false, Bool.true_and]
          cases (rs.all docInterface && namesOk (seen ++ a) rs) <;> rfl

/-- input well-formedness of a document -/
def wfConfig (c : RawConfig) : Bool := c.interfaces.all wfIface

theorem namesOk_nil (l : List RawInterface) :
    namesOk [] l = (match allNames l with | none => false | some ns => nodupNat ns) := by
  unfold namesOk
  cases allNames l with
  | none => rfl
  | some ns => simp

theorem parse_eq_spec (c : RawConfig) (hwf : wfConfig c = true) :
    parseConfig c = if documented c then some (expConfig c) else none := by
  unfold parseConfig documented expConfig
  simp only [bind, pure, Option.bind, parseAll_eq c.interfaces [] hwf, namesOk_nil]
  cases he : c.interfaces.isEmpty with
  | true => simp
  | false =>
    simp only [Bool.false_eq_true, if_false, Bool.not_false, Bool.true_and]
    rw [show (fun i => List.map (fun n => expInterface n i) ((stanzaNames i).getD [])) = expStanza from rfl]
    generalize List.flatMap expStanza c.interfaces = ifs
    cases allNames c.interfaces with
    | none =>
      by_cases h0 : c.debugAddr = 0
      · cases (c.interfaces.all docInterface) <;> simp [h0]
      · by_cases h1 : c.debugAddr = 1
        · cases (c.interfaces.all docInterface) <;> simp [h1]
        · simp [h0, h1]
    | some ns =>
      simp only []
      by_cases hall : c.interfaces.all docInterface = true <;> by_cases hnd : nodupNat ns = true <;>
        by_cases h0 : c.debugAddr = 0
      all_goals first
        | (simp [h0, hall, hnd]; done)
        | (by_cases h1 : c.debugAddr = 1 <;> simp [h0, h1, hall, hnd])

/-- acceptance is exactly the documented predicate -/
theorem accept_iff (c : RawConfig) (hwf : wfConfig c = true) : (parseConfig c).isSome = documented c := by
  rw [parse_eq_spec c hwf]; cases documented c <;> rfl

/-- every accepted document resolves to exactly the documented defaults/values -/
theorem defaults_exact (c : RawConfig) (hwf : wfConfig c = true) (cfg : Config)
    (h : parseConfig c = some cfg) : cfg = expConfig c := by
  rw [parse_eq_spec c hwf] at h
  cases hd : documented c with
  | false => rw [hd] at h; simp at h
  | true => rw [hd] at h; simp only [if_true, Option.some.injEq] at h; exact h.symm

/-! ### float64 facts of `parseMinInterval` -/

theorem floatMulTrunc_small (c e x : Nat) (h : x * c < 2 ^ 53) : floatMulTrunc c e x = x * c / 2 ^ e := by
  unfold floatMulTrunc
  have hb : (if x * c = 0 then 0 else (x * c).log2 + 1) ≤ 53 := by
    split
    · omega
    · rename_i hn
      have := (Nat.log2_lt hn).mpr h
      omega
  simp only [hb, if_true]

/-- 0.75·x is exact in float64 for 0 ≤ x < 2^51 ns: the `min_interval` upper bound is ⌊3x/4⌋ -/
theorem min_upper_exact_51 (x : Int) (h0 : 0 ≤ x) (h1 : x < 2 ^ 51) : mul075 x = (3 * x) / 4 := by
  unfold mul075
  have hx : x.toNat * 3 < 2 ^ 53 := by
    have : (2:Int) ^ 51 = 2251799813685248 := by decide
    have : (2:Nat) ^ 53 = 9007199254740992 := by decide
    omega
  rw [floatMulTrunc_small 3 2 x.toNat hx]
  have : (2:Nat) ^ 2 = 4 := by decide
  rw [this]
  omega

/-- the statement asked for (2^50 ns ≈ 13 days; MaxRtrAdvInterval ≤ 1800 s is far below) -/
theorem min_upper_exact (x : Int) (h0 : 0 ≤ x) (h1 : x < 2 ^ 50) : mul075 x = (3 * x) / 4 :=
  min_upper_exact_51 x h0 (by
    have : (2:Int) ^ 50 = 1125899906842624 := by decide
    have : (2:Int) ^ 51 = 2251799813685248 := by decide
    omega)

/-- hence the documented upper bound of `min_interval` is ⌊3·max/4⌋ truncated to a whole second -/
theorem minUpper_eq (maxI : Dur) (h0 : 0 ≤ maxI) (h1 : maxI < 2 ^ 51) :
    minUpper maxI = truncateDur ((3 * maxI) / 4) second := by
  unfold minUpper; rw [min_upper_exact_51 maxI h0 h1]

/-- one row of the table: for `k` whole seconds (k ≥ 9) the float64 computation
    `⌊0.33·k s⌋` truncated to a second is `⌊33k/100⌋ s` -/
def tableOk (k : Nat) : Bool :=
  !(decide (9 ≤ k)) || decide (minDefault ((k : Int) * second) = (((33 * k) / 100 : Nat) : Int) * second)

/-- kernel evaluation of all 1801 rows (`decide +kernel`: the kernel runs the model's float
    arithmetic with GMP naturals; no native code is trusted) -/
theorem table_all : (List.range 1801).all tableOk = true := by decide +kernel

theorem min_default_table (k : Nat) (h9 : 9 ≤ k) (h1800 : k ≤ 1800) :
    minDefault ((k : Int) * second) = (((33 * k) / 100 : Nat) : Int) * second := by
  have h := List.all_eq_true.mp table_all k (List.mem_range.mpr (by omega))
  unfold tableOk at h
  simpa [h9] using h

/-- a valid `netip.Prefix` is well-formed in the sense needed here -/
theorem wfPfx_of_isValid (p : Prefix) (h : p.isValid = true) : wfPfx (.ok p) = true := by
  unfold Prefix.isValid IP.bitLen at h
  simp only [wfPfx, decide_eq_true_eq]
  simp only [Bool.and_eq_true, decide_eq_true_eq] at h
  have := h.2
  split at this
  · omega
  · split at this <;> omega

/-- The model meets the oracle that the check evaluates on the implementation's output. -/
theorem holds_model (c : RawConfig) (hwf : wfConfig c = true) :
    Spec.C02.holds c (parseConfig c) = (true, "") := by
  rw [parse_eq_spec c hwf]
  unfold Spec.C02.holds
  cases hd : documented c with
  | false => simp
  | true => simp [cfgEq]

/-! ### the well-formedness hypothesis is necessary -/

/-- `bits = 200 > 128`: the model substitutes the `::/0` wildcard (`!prefix.IsValid()`), the
    specification rejects (`::` with a non-zero length). -/
def illFormedRoute : RawRoute := { pstr := .ok { addr := { val := 0 }, bits := 200 } }

theorem parseRoute_eq_needs_wf :
    parseRoute illFormedRoute ≠ if docRoute illFormedRoute then some (expRoute illFormedRoute) else none := by
  decide

def illFormedPrefix : RawPrefix :=
  { pstr := .ok { addr := { val := 0x20010db8000000000000000000000000 }, bits := 200 } }

/-- both accept, but the model resolves to the `::/64` wildcard and the specification to the
    (impossible) 200-bit prefix -/
theorem parsePrefix_eq_needs_wf :
    docPrefix illFormedPrefix = true ∧ parsePrefix illFormedPrefix ≠ some (expPrefix illFormedPrefix) := by
  decide

theorem parse_eq_spec_needs_wf :
    ∃ c : RawConfig, parseConfig c ≠ if documented c then some (expConfig c) else none := by
  refine ⟨{ interfaces := [{ name := 1, maxInterval := .lit (4 * second), routes := [illFormedRoute] }] }, ?_⟩
  have h1 : documented { interfaces := [{ name := 1, maxInterval := .lit (4 * second), routes := [illFormedRoute] }] } = false := by
    decide +kernel
  have h2 : (parseConfig { interfaces := [{ name := 1, maxInterval := .lit (4 * second), routes := [illFormedRoute] }] }).isSome = true := by
    decide +kernel
  rw [h1]
  intro h
  rw [h] at h2
  exact absurd h2 (by decide)

/-! ### non-vacuity -/

deriving instance DecidableEq for Corerad.Model.Config

/-- Non-vacuity: an advertising stanza using most stanza kinds and several defaults, plus a
    two-name monitoring stanza whose advertising keys are garbage (`max_interval` unparsable). -/
def exGood : RawConfig :=
  { interfaces := [
      { name := 1, advertise := true, maxInterval := .lit (60 * second), hopLimit := some 32,
        defaultLifetime := .auto,
        prefixes := [ {}, { pstr := .ok { addr := { val := 0x20010db8000000010000000000000000 }, bits := 64 },
                            autonomous := some false, valid := .infinite, preferred := .lit (2 * hour) } ],
        routes := [ { pstr := .ok { addr := { val := 0x20010db8ffff00000000000000000000 }, bits := 48 }, preference := 3 } ],
        rdnss := [ { servers := [ .ok { val := 0x20010db8000000010000000000000053 }, .ok { val := 0 } ] } ],
        dnssl := [ { lifetime := .lit (100 * second), names := [7, 8] } ],
        pref64 := [ .unset ],
        mtu := 1500, captivePortal := .ok 9 30 },
      { names := [2, 3], monitor := true, verbose := true, maxInterval := .bad } ],
    debugAddr := 1, prometheus := true }

/-- what `exGood` resolves to: min_interval 19 s (⌊0.33·60⌋), default lifetime 180 s, RDNSS lifetime
    180 s with the `::` wildcard, PREF64 64:ff9b::/96 for 184 s (180 rounded up to a multiple of 8) -/
def exGoodResolved : Config :=
  { interfaces := [
      { name := 1, advertise := true, minInterval := 19 * second, maxInterval := 60 * second,
        hopLimit := 32, defaultLifetime := 180 * second,
        plugins := [
          .pfx true { addr := { val := 0 }, bits := 64 } true true (24 * hour) (4 * hour) false,
          .pfx false { addr := { val := 0x20010db8000000010000000000000000 }, bits := 64 } true false
            (4294967295 * second) (2 * hour) false,
          .route false { addr := { val := 0x20010db8ffff00000000000000000000 }, bits := 48 } prefHigh (24 * hour) false,
          .rdnss true (180 * second) [{ val := 0x20010db8000000010000000000000053 }],
          .dnssl (100 * second) [7, 8],
          .mtu 1500, .lla, .captivePortal 9 30,
          .pref64 { addr := { val := 0x0064ff9b000000000000000000000000 }, bits := 96 } (184 * second) ] },
      { name := 2, monitor := true, verbose := true },
      { name := 3, monitor := true, verbose := true } ],
    debugAddr := 1, prometheus := true }

example : wfConfig exGood = true ∧ documented exGood = true ∧ parseConfig exGood = some exGoodResolved ∧
    expConfig exGood = exGoodResolved := by decide +kernel

/-- the same document with the wildcard `::/64` prefix stanza repeated is rejected (overlap) -/
def exBad : RawConfig :=
  { exGood with interfaces := exGood.interfaces.map (fun i => { i with prefixes := {} :: i.prefixes }) }

example : wfConfig exBad = true ∧ documented exBad = false ∧ parseConfig exBad = none := by decide +kernel

/-- a name used by two stanzas is rejected -/
example : let c : RawConfig := { interfaces := [{ name := 1 }, { names := [2, 1] }] }
    documented c = false ∧ parseConfig c = none := by decide +kernel

/-- `min_interval = 46 s > 0.75·60 s` is rejected, 45 s is accepted -/
example :
    parseConfig { interfaces := [{ name := 1, maxInterval := .lit (60 * second), minInterval := .lit (46 * second) }] } = none ∧
    (parseConfig { interfaces := [{ name := 1, maxInterval := .lit (60 * second), minInterval := .lit (45 * second) }] }).isSome = true := by
  decide +kernel

end Corerad.Props.C02
