/-
  C20 / C17 glue — the retry loop that keeps the debug HTTP server's listener up
  (`serve`, internal/corerad/server.go; model: Model/ServeRetry.lean).  For every script of
  listener outcomes and durations, every delay and every cancellation instant.
-/
import Corerad.Model.ServeRetry
import Corerad.Gen.Server

namespace Corerad.Props.C20Serve

open Corerad Corerad.Model.ServeRetry

theorem gen_attempts : Gen.Server.serveAttempts = 40 := by decide

/-- `fn` is called at most `left` more times. -/
theorem loop_calls_le (delay : Dur) : ∀ (left : Nat) (first : Bool) (now : Time) (c : Option Time)
    (s : List (FnOut × Dur)), (loop delay left first now c s).1.length ≤ left
  | 0, _, _, _, _ => by simp [loop]
  | left+1, first, now, c, s => by
    unfold loop
    split
    · simp
    · split
      · simp
      · cases s with
        | nil => simp
        | cons h rest =>
          obtain ⟨o, d⟩ := h
          cases o <;> simp only [List.length_cons, List.length_nil] <;> try omega
          have := loop_calls_le delay left false ((if first = true then now else now + delay) + d) c rest
          omega

/-- At most `attempts` calls of `fn`, whatever happens. -/
theorem calls_le (attempts : Nat) (delay : Dur) (c : Option Time) (s : List (FnOut × Dur)) :
    (serve attempts delay c s).1.length ≤ attempts :=
  loop_calls_le delay attempts true 0 c s

/-- No call of `fn` is made at or after the cancellation. -/
theorem loop_no_call_after_cancel (delay : Dur) (hd : 0 ≤ delay) (cAt : Time) :
    ∀ (left : Nat) (first : Bool) (now : Time) (s : List (FnOut × Dur)),
      (∀ p ∈ s, 0 ≤ p.2) → ∀ t ∈ (loop delay left first now (some cAt) s).1, t < cAt
  | 0, _, _, _, _ => by simp [loop]
  | left+1, first, now, s, hs => by
    unfold loop
    split
    · simp
    · rename_i hnc
      split
      · simp
      · rename_i hnw
        simp only [cancelled, decide_eq_true_eq, Int.not_le, Bool.and_eq_true, Bool.not_eq_true',
          not_and] at hnc hnw
        have ht : (if first = true then now else now + delay) < cAt := by
          cases first
          · simp only [Bool.false_eq_true, if_false]; have := hnw rfl; omega
          · simp only [if_true]; exact hnc
        cases s with
        | nil => intro t hmem; simp only [List.mem_cons, List.not_mem_nil, or_false] at hmem; subst hmem; exact ht
        | cons h rest =>
          obtain ⟨o, d⟩ := h
          have hd0 : 0 ≤ d := hs (o, d) (by simp)
          cases o <;> intro t hmem <;> simp only [List.mem_cons, List.not_mem_nil, or_false] at hmem <;>
            try (subst hmem; exact ht)
          rcases hmem with rfl | hmem
          · exact ht
          · exact loop_no_call_after_cancel delay hd cAt left false _ rest
              (fun p hp => hs p (by simp [hp])) t hmem

theorem no_call_after_cancel (attempts : Nat) (delay : Dur) (hd : 0 ≤ delay) (cAt : Time)
    (s : List (FnOut × Dur)) (hs : ∀ p ∈ s, 0 ≤ p.2) :
    ∀ t ∈ (serve attempts delay (some cAt) s).1, t < cAt :=
  loop_no_call_after_cancel delay hd cAt attempts true 0 s hs

/-- Cancelled before it starts: nothing is called, nil is returned. -/
theorem cancelled_at_start (attempts : Nat) (delay : Dur) (cAt : Time) (h : cAt ≤ 0)
    (s : List (FnOut × Dur)) : serve (attempts + 1) delay (some cAt) s = ([], .nil, 0) := by
  simp [serve, loop, cancelled, h]

/-- Without cancellation: as long as the listener keeps failing with a network error the loop
    goes on, and it gives up exactly after `left` such failures. -/
theorem loop_all_opErr (delay : Dur) : ∀ (left : Nat) (first : Bool) (now : Time) (s : List (FnOut × Dur)),
    left ≤ s.length → (∀ p ∈ s.take left, p.1 = .opErr) →
    (loop delay left first now none s).2.1 = .timeout ∧ (loop delay left first now none s).1.length = left
  | 0, _, _, _, _, _ => by simp [loop]
  | left+1, first, now, s, hl, ha => by
    cases s with
    | nil => simp at hl
    | cons h rest =>
      obtain ⟨o, d⟩ := h
      have ho : o = .opErr := ha (o, d) (by simp)
      subst ho
      have ih := fun t => loop_all_opErr delay left false t rest (by simpa using hl)
        (fun p hp => ha p (by simp [List.take_succ_cons, hp]))
      unfold loop
      simp only [cancelled, Bool.false_eq_true, if_false, Bool.and_false, List.length_cons]
      exact ⟨(ih _).1, by have := (ih ((if first = true then now else now + delay) + d)).2; omega⟩

theorem gives_up_after_attempts (attempts : Nat) (delay : Dur) (s : List (FnOut × Dur))
    (hl : attempts ≤ s.length) (ha : ∀ p ∈ s.take attempts, p.1 = .opErr) :
    (serve attempts delay none s).2.1 = .timeout ∧ (serve attempts delay none s).1.length = attempts :=
  loop_all_opErr delay attempts true 0 s hl ha

/-- Non-vacuity: two listener errors (the second after the server ran for 5 s), then the
    expected shutdown: calls at 0, 3 s and 11 s, nil returned. -/
example : serve 40 (3 * second) none [(.opErr, 0), (.opErr, 5 * second), (.closed, 7 * second)] =
    ([0, 3 * second, 11 * second], .nil, 18 * second) := by decide

/-- cancellation during the second wait -/
example : serve 40 (3 * second) (some (4 * second)) [(.opErr, 0), (.opErr, 0), (.closed, 0)] =
    ([0, 3 * second], .nil, 4 * second) := by decide

end Corerad.Props.C20Serve
