/-
  C06 — multicast RAs are rate limited to one per MIN_DELAY_BETWEEN_RAS, and every trigger is
  still served within MIN_DELAY_BETWEEN_RAS.  Theorems over every arrival history of any
  length (sorted by arrival time, starting no earlier than the initial RA), any interleaving
  of unicast solicitations and any jitter draws.
-/
import Corerad.Model.Scheduler
import Corerad.Spec.C06

namespace Corerad.Props.C06

open Corerad Corerad.Model

/-- RFC 4861 §10 constants as found in the source; the Advertiser's field defaults to the constant -/
theorem gen_constants :
    Gen.Advertise.minDelayBetweenRAs = 3 * second ∧ Gen.Advertise.fieldMinDelayIsConst = true := by
  decide

/-- arrival times are non-decreasing and not before `lo` -/
def SortedFrom : Time → List (Time × Req) → Prop
  | _, [] => True
  | lo, (t, _) :: rest => lo ≤ t ∧ SortedFrom t rest

/-- **Spacing**: the multicast transmissions scheduled after a multicast transmission at
    `s.next` are, in order, at least `minDelay` apart from it and from each other — for every
    history, sorted or not. -/
theorem spacing_from (minDelay : Dur) :
    ∀ (reqs : List (Time × Req)) (s : SchedState) (draws : List Int),
      Spec.C06.spaced minDelay (s.next :: mcSends (schedule minDelay false s reqs draws)) = true
  | [], s, draws => by simp [schedule, mcSends, Spec.C06.spaced]
  | (t, .uc h) :: rest, s, draws => by
    have ih := spacing_from minDelay rest s draws.tail
    simpa [schedule, mcSends] using ih
  | (t, .mc) :: rest, s, draws => by
    simp only [schedule, schedStep, Bool.false_eq_true, if_false]
    by_cases hp : s.next > t
    · simp only [hp, if_true]
      exact spacing_from minDelay rest s draws
    · simp only [hp, if_false]
      have ih := spacing_from minDelay rest
        { next := if s.next + minDelay < t then t else s.next + minDelay } draws
      simp only [mcSends, List.filter_cons, if_true, List.map_cons] at ih ⊢
      simp only [Spec.C06.spaced, Bool.and_eq_true, decide_eq_true_eq]
      refine ⟨?_, ih⟩
      split <;> omega

/-- From the initial advertisement (at `start`) on, all-nodes RAs are never scheduled less than
    3 s apart, whatever mixture of triggers arrives. -/
theorem multicast_spacing (start : Time) (reqs : List (Time × Req)) (draws : List Int) :
    Spec.C06.spaced (3 * second)
      (start :: mcSends (schedule Gen.Advertise.minDelayBetweenRAs false { next := start } reqs draws)) = true := by
  rw [gen_constants.1]
  exact spacing_from (3 * second) reqs { next := start } draws

/-- the invariant that makes coalescing safe: the latest scheduled multicast RA is due no later
    than `minDelay` after the current instant -/
private theorem served_aux (minDelay : Dur) (hm : 0 ≤ minDelay) :
    ∀ (reqs : List (Time × Req)) (lo : Time) (s : SchedState) (draws : List Int),
      SortedFrom lo reqs → s.next ≤ lo + minDelay →
      ∀ t, (t, Req.mc) ∈ reqs →
        ∃ x ∈ s.next :: mcSends (schedule minDelay false s reqs draws), t ≤ x ∧ x ≤ t + minDelay
  | [], _, _, _, _, _, t, h => by simp at h
  | (t', .uc h) :: rest, lo, s, draws, hs, hn, t, hmem => by
    have hmem' : (t, Req.mc) ∈ rest := by
      rcases List.mem_cons.mp hmem with h | h
      · cases h
      · exact h
    obtain ⟨x, hx, hb⟩ := served_aux minDelay hm rest t' s draws.tail hs.2 (by have := hs.1; omega) t hmem'
    refine ⟨x, ?_, hb⟩
    simpa [schedule, mcSends] using hx
  | (t', .mc) :: rest, lo, s, draws, hs, hn, t, hmem => by
    simp only [schedule, schedStep, Bool.false_eq_true, if_false]
    by_cases hp : s.next > t'
    · simp only [hp, if_true]
      rcases List.mem_cons.mp hmem with h | h
      · -- this request is served by the pending transmission at `s.next`
        have : t = t' := by cases h; rfl
        subst this
        exact ⟨s.next, List.mem_cons_self, by omega, by have := hs.1; omega⟩
      · exact served_aux minDelay hm rest t' s draws hs.2 (by have := hs.1; omega) t h
    · simp only [hp, if_false]
      let s' : SchedState := { next := if s.next + minDelay < t' then t' else s.next + minDelay }
      have hn' : s'.next ≤ t' + minDelay := by
        show (if s.next + minDelay < t' then t' else s.next + minDelay) ≤ t' + minDelay
        split <;> omega
      rcases List.mem_cons.mp hmem with h | h
      · have : t = t' := by cases h; rfl
        subst this
        refine ⟨s'.next, ?_, ?_, hn'⟩
        · simp [mcSends, s']
        · show t ≤ (if s.next + minDelay < t then t else s.next + minDelay)
          split <;> omega
      · obtain ⟨x, hx, hb⟩ := served_aux minDelay hm rest t' s' draws hs.2 hn' t h
        refine ⟨x, ?_, hb⟩
        simp only [mcSends, List.filter_cons, if_true, List.map_cons] at hx ⊢
        exact List.mem_cons_of_mem _ hx

/-- **Every trigger is still satisfied**: a multicast trigger arriving at `t` is followed by an
    all-nodes RA due within `[t, t + 3 s]` (the initial RA counts only if `t = start`… it cannot:
    triggers arrive at or after `start`, and a transmission at `start` serves a trigger at `start`). -/
theorem multicast_served (start : Time) (reqs : List (Time × Req)) (draws : List Int)
    (hs : SortedFrom start reqs) (t : Time) (ht : (t, Req.mc) ∈ reqs) :
    ∃ x ∈ start :: mcSends (schedule Gen.Advertise.minDelayBetweenRAs false { next := start } reqs draws),
      t ≤ x ∧ x ≤ t + 3 * second := by
  rw [gen_constants.1]
  exact served_aux (3 * second) (by decide) reqs start { next := start } draws hs
    (by show start ≤ start + 3 * second; unfold second; omega) t ht

/-- In unicast-only mode no all-nodes RA is ever scheduled. -/
theorem unicast_only_no_multicast (minDelay : Dur) :
    ∀ (reqs : List (Time × Req)) (s : SchedState) (draws : List Int),
      mcSends (schedule minDelay true s reqs draws) = []
  | [], _, _ => rfl
  | (t, .uc h) :: rest, s, draws => by
    have ih := unicast_only_no_multicast minDelay rest s draws.tail
    simpa [schedule, mcSends] using ih
  | (t, .mc) :: rest, s, draws => by
    simp only [schedule, schedStep, if_true]
    exact unicast_only_no_multicast minDelay rest s draws

/-- Non-vacuity, and the repaired defect F-3: triggers at 1.0 s, 1.1 s and 4.5 s after the
    initial RA are served by RAs at 3 s and 6 s (the unrepaired code sent at 4.0, 4.1, 4.5 s). -/
example :
    mcSends (schedule (3 * second) false { next := 0 }
      [(1 * second, .mc), (1100 * ms, .mc), (1200 * ms, .uc 7), (4500 * ms, .mc)] [250 * ms])
      = [3 * second, 6 * second] ∧
    SortedFrom 0 [(1 * second, Req.mc), (1100 * ms, .mc), (1200 * ms, .uc 7), (4500 * ms, .mc)] := by
  refine ⟨by decide, ?_⟩
  simp only [SortedFrom]
  decide

end Corerad.Props.C06
