/-
  C06 / C07 — independence of the two kinds of traffic and of their interleaving.

  The scheduler consumes requests in the order they arrive on `ipC`; the listener and the
  multicast loop are separate goroutines, so the *relative* order of a unicast request and a
  multicast request arriving together is up to the Go scheduler.  These theorems show that this
  order cannot matter: the multicast transmissions are a function of the multicast requests
  alone, the unicast transmissions of the unicast requests (and their draws) alone.  Hence any
  two arrival orders that agree on the multicast subsequence give the same multicast
  transmissions, and any two that agree on the unicast subsequence give the same unicast
  transmissions — for every history, every draw sequence, every minimum delay, both modes.
-/
import Corerad.Model.Scheduler

namespace Corerad.Props.C06Order

open Corerad Corerad.Model

def isMc : Time × Req → Bool
  | (_, .mc) => true
  | _ => false

def isUc (p : Time × Req) : Bool := !isMc p

/-- Multicast transmissions do not depend on the unicast requests interleaved with the
    multicast ones, nor on the jitter drawn for them. -/
theorem mc_independent_of_unicast (md : Dur) (uo : Bool) :
    ∀ (reqs : List (Time × Req)) (s : SchedState) (draws draws' : List Int),
      mcSends (schedule md uo s reqs draws) = mcSends (schedule md uo s (reqs.filter isMc) draws')
  | [], _, _, _ => by simp [schedule, mcSends]
  | (t, .mc) :: rest, s, draws, draws' => by
    simp only [List.filter_cons, isMc, if_true, schedule]
    cases h : (schedStep md uo s t .mc 0).2 with
    | none => simp only []; exact mc_independent_of_unicast md uo rest _ draws draws'
    | some x =>
      simp only [mcSends, List.filter_cons]
      have ih := mc_independent_of_unicast md uo rest (schedStep md uo s t .mc 0).1 draws draws'
      simp only [mcSends] at ih
      split <;> simp [ih]
  | (t, .uc h) :: rest, s, draws, draws' => by
    simp only [List.filter_cons, isMc, Bool.false_eq_true, if_false, schedule]
    have ih := mc_independent_of_unicast md uo rest s draws.tail draws'
    simp only [mcSends, List.filter_cons] at ih ⊢
    simpa using ih

/-- Two arrival orders with the same multicast subsequence give the same multicast
    transmissions (whatever unicast traffic is interleaved, however). -/
theorem mc_interleaving_invariant (md : Dur) (uo : Bool) (s : SchedState)
    (reqs reqs' : List (Time × Req)) (draws draws' : List Int)
    (h : reqs.filter isMc = reqs'.filter isMc) :
    mcSends (schedule md uo s reqs draws) = mcSends (schedule md uo s reqs' draws') := by
  rw [mc_independent_of_unicast md uo reqs s draws [], mc_independent_of_unicast md uo reqs' s draws' [], h]

/-- the unicast transmissions expected for a list of unicast requests and their draws -/
def ucExpected : List (Time × Req) → List Int → List (Time × Nat)
  | [], _ => []
  | (t, .uc h) :: rest, draws => (t + draws.headD 0, h) :: ucExpected rest draws.tail
  | (_, .mc) :: rest, draws => ucExpected rest draws

/-- Every unicast request is answered exactly once, to its host, after its own draw — whatever
    multicast requests are interleaved and whatever the scheduler's multicast state. -/
theorem uc_exact (md : Dur) (uo : Bool) :
    ∀ (reqs : List (Time × Req)) (s : SchedState) (draws : List Int),
      ucSends (schedule md uo s reqs draws) = ucExpected (reqs.filter isUc) draws
  | [], _, _ => by simp [schedule, ucSends, ucExpected]
  | (t, .mc) :: rest, s, draws => by
    simp only [List.filter_cons, isUc, isMc, Bool.not_true, Bool.false_eq_true, if_false, schedule]
    cases h : (schedStep md uo s t .mc 0).2 with
    | none => simp only []; exact uc_exact md uo rest _ draws
    | some x =>
      have hx : x.mc = true := by
        simp only [schedStep] at h
        split at h
        · cases h
        · split at h
          · cases h
          · simp only [Option.some.injEq] at h; subst h; rfl
      have ih := uc_exact md uo rest (schedStep md uo s t .mc 0).1 draws
      simp only [ucSends, List.filter_cons, hx, Bool.not_true, Bool.false_eq_true, if_false] at ih ⊢
      exact ih
  | (t, .uc h) :: rest, s, draws => by
    simp only [List.filter_cons, isUc, isMc, Bool.not_false, if_true, schedule, ucExpected]
    have ih := uc_exact md uo rest s draws.tail
    simp only [ucSends, List.filter_cons, Bool.not_false, if_true, List.map_cons] at ih ⊢
    rw [ih]

/-- Two arrival orders with the same unicast subsequence (and the same draws) give the same
    unicast transmissions. -/
theorem uc_interleaving_invariant (md : Dur) (uo uo' : Bool) (s s' : SchedState)
    (reqs reqs' : List (Time × Req)) (draws : List Int)
    (h : reqs.filter isUc = reqs'.filter isUc) :
    ucSends (schedule md uo s reqs draws) = ucSends (schedule md uo' s' reqs' draws) := by
  rw [uc_exact, uc_exact, h]

/-- Non-vacuity: a solicitation from host 7 and a periodic tick arriving at the same instant, in
    either order: same multicast and same unicast transmissions. -/
example :
    let a := [((5 : Time) * second, Req.uc 7), (5 * second, Req.mc)]
    let b := [((5 : Time) * second, Req.mc), (5 * second, Req.uc 7)]
    mcSends (schedule (3 * second) false { next := 0 } a [9]) = [5 * second] ∧
    mcSends (schedule (3 * second) false { next := 0 } b [9]) = [5 * second] ∧
    ucSends (schedule (3 * second) false { next := 0 } a [9]) = [(5 * second + 9, 7)] ∧
    ucSends (schedule (3 * second) false { next := 0 } b [9]) = [(5 * second + 9, 7)] := by
  decide

end Corerad.Props.C06Order
