/-
  C04, history form, stated of the model the check executes (Model/Paths.lean: several
  interfaces, forwarding flips and RA generations on the seven paths in any order).
-/
import Corerad.Model.Paths

namespace Corerad.Props.C04Paths

open Corerad Corerad.Model.Paths

/-- the forwarding state of every interface after a history prefix (a fold, defined
    independently of `runOps`) -/
def fwAfter (init : Nat → Bool) (pre : List Op) : Nat → Bool :=
  pre.foldl (fun fw op => match op with | .setFw i b => setAt fw i b | .gen _ _ => fw) init

/-- number of generations in a history -/
def gens : List Op → Nat
  | [] => 0
  | .setFw _ _ :: ops => gens ops
  | .gen _ _ :: ops => gens ops + 1

/-- Every generation of every history, on whatever path and interface, is built from the
    forwarding value of ITS interface in force at THAT moment. -/
theorem runOps_tracks (cfg : Nat → Dur) (init : Nat → Bool) (pre post : List Op) (i : Nat) (p : Path) :
    (runOps cfg init (pre ++ Op.gen i p :: post))[gens pre]? =
      some (generate cfg (fwAfter init pre i) i p) := by
  induction pre generalizing init with
  | nil => rfl
  | cons op pre ih =>
    cases op with
    | setFw j b => simp only [List.cons_append, runOps, gens, fwAfter, List.foldl_cons]; exact ih _
    | gen j q =>
      simp only [List.cons_append, runOps, gens, fwAfter, List.foldl_cons, List.getElem?_cons_succ]
      exact ih init

/-- What one generation yields: the configured lifetime (0 on the final RA) when forwarding, 0
    otherwise; the misconfiguration is reported exactly when a positive lifetime was zeroed. -/
theorem generate_spec (cfg : Nat → Dur) (fw : Bool) (i : Nat) (p : Path) (h0 : 0 ≤ cfg i) :
    (generate cfg fw i p).lifetime = (if fw then cfgLifetime cfg i p else 0) ∧
    ((generate cfg fw i p).misconfig = true ↔ (fw = false ∧ 0 < cfgLifetime cfg i p)) ∧
    (generate cfg fw i p).iface = i ∧ (generate cfg fw i p).path = p := by
  unfold generate cfgLifetime
  cases fw <;> by_cases hp : p = .final <;> simp [hp] <;> (try split) <;> simp_all <;> omega

/-- **Never a default router while not forwarding**: in every history over any number of
    interfaces, a generation that happens while its interface is not forwarding has router
    lifetime 0 — on every one of the seven paths. -/
theorem not_forwarding_lifetime_zero (cfg : Nat → Dur) (init : Nat → Bool) (pre post : List Op)
    (i : Nat) (p : Path) (h0 : 0 ≤ cfg i) (hf : fwAfter init pre i = false) :
    ∃ o, (runOps cfg init (pre ++ Op.gen i p :: post))[gens pre]? = some o ∧ o.lifetime = 0 ∧
      (o.misconfig = true ↔ 0 < cfgLifetime cfg i p) := by
  refine ⟨_, runOps_tracks cfg init pre post i p, ?_, ?_⟩
  · rw [(generate_spec cfg _ i p h0).1, hf]; rfl
  · rw [(generate_spec cfg _ i p h0).2.1, hf]; simp

/-- Forwarding flips of OTHER interfaces never change what an interface advertises. -/
theorem other_interfaces_irrelevant (init : Nat → Bool) (pre : List Op) (i : Nat) :
    fwAfter init pre i =
      fwAfter init (pre.filter fun op => match op with | .setFw j _ => j == i | .gen _ _ => true) i := by
  induction pre generalizing init with
  | nil => rfl
  | cons op pre ih =>
    cases op with
    | gen j q => simp only [fwAfter, List.foldl_cons, List.filter_cons, if_true] at *; exact ih init
    | setFw j b =>
      by_cases hj : j = i
      · subst hj
        simp only [fwAfter, List.foldl_cons, List.filter_cons, beq_self_eq_true, if_true] at *
        exact ih _
      · have hne : (j == i) = false := by simp [hj]
        simp only [fwAfter, List.foldl_cons, List.filter_cons, hne, Bool.false_eq_true, if_false] at *
        rw [ih (setAt init j b)]
        -- the two folds start from states that agree at `i`; a fold over ops filtered to `i`'s
        -- own flips only ever overwrites `i`
        have key : ∀ (l : List Op) (f g : Nat → Bool), f i = g i →
            (l.foldl (fun fw op => match op with | .setFw i b => setAt fw i b | .gen _ _ => fw) f) i =
            (l.foldl (fun fw op => match op with | .setFw i b => setAt fw i b | .gen _ _ => fw) g) i := by
          intro l
          induction l with
          | nil => intro f g h; exact h
          | cons op l ihl =>
            intro f g h
            cases op with
            | gen _ _ => exact ihl f g h
            | setFw k c =>
              apply ihl
              simp only [setAt]
              by_cases hk : i = k <;> simp [hk, h]
        exact key _ _ _ (by simp [setAt, Ne.symm hj])

/-- Non-vacuity: two interfaces, interface 1 stops forwarding, a scrape of interface 1 and a
    periodic RA of interface 0 follow, then the final RA of interface 1. -/
example :
    runOps (fun _ => 1800 * second) (fun _ => true)
      [.gen 0 .initial, .setFw 1 false, .gen 1 .scrape, .gen 0 .periodic, .gen 1 .final] =
    [⟨0, .initial, 1800 * second, false⟩, ⟨1, .scrape, 0, true⟩, ⟨0, .periodic, 1800 * second, false⟩,
     ⟨1, .final, 0, false⟩] := by decide

end Corerad.Props.C04Paths
