/-
  TransC07 — the Go → Lean translation of the decision of `(*Advertiser).handle`
  (internal/corerad/advertise.go), regenerated into `Corerad.Gen.Trans.Advertiser_handle` from the
  current source text on every run, equals what the model's classification (`Model.classify`,
  `Model.requestOf` — the functions the C07 / C09 theorems are about) says about a delivered message,
  for every message kind, sender and outcome of the consistency check.

  Only equivalence theorems and their immediate corollaries live here.
-/
import Corerad.Gen.Trans
import Corerad.Model.Handle

namespace Corerad.Props.TransC07

open Corerad Corerad.Model

/-- the translated decision = the model's, for every kind of message, every sender (0 = the
    unspecified address) and both outcomes of `buildRA` and of `verifyRAs` -/
theorem handle_equiv (kind host : Nat) (buildFails problemsEmpty : Bool) :
    Gen.Trans.Advertiser_handle (kind := kind) (host_IsUnspecified := decide (host = 0))
        (buildRA_fails := buildFails) (problems_empty := problemsEmpty)
      = handleModel kind host buildFails problemsEmpty := by
  unfold Gen.Trans.Advertiser_handle handleModel classify requestOf classify
  match kind with
  | 0 => by_cases h : host = 0 <;> simp [h]
  | 1 => cases buildFails <;> cases problemsEmpty <;> simp
  | n + 2 => simp

/-- C07 on the translated decision: a valid solicitation is answered — by unicast to its source, or
    by multicast when the source is the unspecified address — and nothing else is ever answered -/
theorem handle_responds (kind : Nat) (unspec buildFails problemsEmpty : Bool) :
    (Gen.Trans.Advertiser_handle kind unspec buildFails problemsEmpty).respond =
      if kind = 0 then (if unspec then 2 else 1) else 0 := by
  unfold Gen.Trans.Advertiser_handle
  match kind with
  | 0 => cases unspec <;> simp
  | 1 => cases buildFails <;> cases problemsEmpty <;> simp
  | n + 2 => simp

/-- C09 on the translated decision: every delivered message is counted received, and counted
    invalid exactly when it is neither a router solicitation nor a router advertisement -/
theorem handle_counts (kind : Nat) (unspec buildFails problemsEmpty : Bool) :
    (Gen.Trans.Advertiser_handle kind unspec buildFails problemsEmpty).received = true ∧
    (Gen.Trans.Advertiser_handle kind unspec buildFails problemsEmpty).invalid = decide (2 ≤ kind) := by
  unfold Gen.Trans.Advertiser_handle
  match kind with
  | 0 => cases unspec <;> simp
  | 1 => cases buildFails <;> cases problemsEmpty <;> simp
  | n + 2 => simp

/-- C12 on the translated decision: another router's RA is compared with the own RA whenever that
    can be built, and reported (counter per problem and hook) exactly when problems were found -/
theorem handle_reports (unspec buildFails problemsEmpty : Bool) :
    let o := Gen.Trans.Advertiser_handle 1 unspec buildFails problemsEmpty
    o.built = true ∧ o.fails = buildFails ∧ o.verified = !buildFails ∧
    o.reports = (!buildFails && !problemsEmpty) ∧ o.hook = o.reports := by
  cases buildFails <;> cases problemsEmpty <;> simp [Gen.Trans.Advertiser_handle]

example : (Gen.Trans.Advertiser_handle 0 true false true).respond = 2 := by decide
example : (Gen.Trans.Advertiser_handle 0 false false true).respond = 1 := by decide
example : (Gen.Trans.Advertiser_handle 3 false false true).invalid = true := by decide

end Corerad.Props.TransC07
