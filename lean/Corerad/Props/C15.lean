/-
  C15 — the `::/0` wildcard expands to the maximal, non-overlapping loopback routes.
  All theorems quantify over every route dump (any length, order, multiplicity) whose
  entries are valid canonical prefixes, as the kernel reports them.
-/
import Corerad.Spec.C15
import Corerad.Model.RA
import Corerad.Lemmas.ListUtil

namespace Corerad.Props.C15

open Corerad Corerad.Model

/-- Well-formed dump: every entry is a valid, canonical (masked) prefix. -/
def WF (rs : List Prefix) : Prop := ∀ r ∈ rs, r.isValid = true ∧ r.masked = r

theorem kept_eq_wanted (rs : List Prefix) (p : Prefix) : routeKept rs p = Spec.C15.wanted rs p := by
  unfold routeKept Spec.C15.wanted Spec.C15.covers
  cases p.addr.is4 <;> cases p.isSingleIP <;> simp

/-- Membership: exactly the IPv6 routes of the dump that are not /128 and not covered by a
    different, strictly shorter route. -/
theorem mem_iff (rs : List Prefix) (p : Prefix) :
    p ∈ currentRoutes rs ↔ p ∈ rs ∧ Spec.C15.wanted rs p = true := by
  unfold currentRoutes
  simp only [mem_sortBy, mem_dedupe, List.mem_filter, kept_eq_wanted]

private theorem wanted_shape (rs : List Prefix) (p : Prefix) (hwf : WF rs) (hp : p ∈ currentRoutes rs) :
    p.addr.valid = true ∧ p.addr.v4 = false ∧ p.isValid = true ∧ p.masked = p ∧
      ∀ q ∈ rs, ¬ (q.bits < p.bits ∧ q.contains p.addr = true) := by
  obtain ⟨hmem, hw⟩ := (mem_iff rs p).mp hp
  obtain ⟨hv, hm⟩ := hwf p hmem
  unfold Spec.C15.wanted Spec.C15.covers at hw
  simp only [Bool.and_eq_true, Bool.not_eq_true', List.any_eq_false, decide_eq_true_eq] at hw
  have hvalid : p.addr.valid = true := by
    unfold Prefix.isValid at hv; simp only [Bool.and_eq_true] at hv; exact hv.1
  refine ⟨hvalid, ?_, hv, hm, ?_⟩
  · have := hw.1.1; unfold IP.is4 at this; simpa [hvalid] using this
  · rintro q hq ⟨hlt, hc⟩
    have := hw.2 q hq
    simp_all

private theorem eq_of_val_bits (p q : Prefix) (hpv : p.addr.valid = true) (hqv : q.addr.valid = true)
    (hp4 : p.addr.v4 = false) (hq4 : q.addr.v4 = false) (hval : p.addr.val = q.addr.val)
    (hbits : p.bits = q.bits) : p = q := by
  cases p with | mk pa pbits => cases q with | mk qa qbits =>
  cases pa with | mk a1 a2 a3 => cases qa with | mk b1 b2 b3 =>
  simp_all

/-- a shorter valid prefix with the same base address contains it -/
private theorem contains_same_val (p q : Prefix) (hpv : p.isValid = true) (hqv : q.addr.valid = true)
    (hp4 : p.addr.v4 = false) (hq4 : q.addr.v4 = false) (hval : p.addr.val = q.addr.val) :
    p.contains q.addr = true := by
  unfold Prefix.contains
  have hb : q.addr.bitLen = p.addr.bitLen := by
    unfold IP.bitLen
    have : p.addr.valid = true := by
      unfold Prefix.isValid at hpv; simp only [Bool.and_eq_true] at hpv; exact hpv.1
    simp [this, hqv, hp4, hq4]
  simp [hpv, hqv, hp4, hq4, hval, hb]

/-- Strictly ascending by address: each route once, and no two routes share a base address. -/
theorem sorted_strict (rs : List Prefix) (hwf : WF rs) :
    (currentRoutes rs).Pairwise (fun p q => addrKey p.addr < addrKey q.addr) := by
  apply strict_of_sorted_nodup
  · exact sorted_sortBy _ _
  · exact nodup_sortBy (nodup_dedupe _)
  · intro p hp q hq hk
    obtain ⟨pv, p4, pval, _, pmax⟩ := wanted_shape rs p hwf hp
    obtain ⟨qv, q4, qval, _, qmax⟩ := wanted_shape rs q hwf hq
    have pmem := ((mem_iff rs p).mp hp).1
    have qmem := ((mem_iff rs q).mp hq).1
    unfold addrKey IP.bitLen at hk
    simp only [pv, qv, p4, q4, Bool.not_true, Bool.false_eq_true, if_false] at hk
    have hval : p.addr.val = q.addr.val := by omega
    by_cases hlt : p.bits < q.bits
    · exact absurd ⟨hlt, contains_same_val p q pval qv p4 q4 hval⟩ (qmax p pmem)
    · by_cases hgt : q.bits < p.bits
      · exact absurd ⟨hgt, contains_same_val q p qval pv q4 p4 hval.symm⟩ (pmax q qmem)
      · exact eq_of_val_bits p q pv qv p4 q4 hval (by omega)

theorem nodup (rs : List Prefix) : (currentRoutes rs).Nodup :=
  nodup_sortBy (nodup_dedupe _)

/-- No two advertised routes overlap — the rule the configuration enforces for static routes. -/
theorem non_overlapping (rs : List Prefix) (hwf : WF rs) (p q : Prefix)
    (hp : p ∈ currentRoutes rs) (hq : q ∈ currentRoutes rs) (hne : p ≠ q) :
    p.overlaps q = false := by
  obtain ⟨pv, p4, pval, pm, pmax⟩ := wanted_shape rs p hwf hp
  obtain ⟨qv, q4, qval, qm, qmax⟩ := wanted_shape rs q hwf hq
  have pmem := ((mem_iff rs p).mp hp).1
  have qmem := ((mem_iff rs q).mp hq).1
  have hbl : p.addr.bitLen = 128 ∧ q.addr.bitLen = 128 := by
    unfold IP.bitLen; simp [pv, qv, p4, q4]
  apply Bool.eq_false_iff.mpr
  intro hov
  unfold Prefix.overlaps at hov
  simp only [Bool.and_eq_true, beq_iff_eq, hbl.1, hbl.2] at hov
  obtain ⟨_, hmask⟩ := hov
  by_cases hlt : p.bits < q.bits
  · apply qmax p pmem
    refine ⟨hlt, ?_⟩
    unfold Prefix.contains
    have : min p.bits q.bits = p.bits := by omega
    rw [this] at hmask
    simp [pval, qv, p4, q4, hbl.1, hbl.2, hmask]
  · by_cases hgt : q.bits < p.bits
    · apply pmax q qmem
      refine ⟨hgt, ?_⟩
      unfold Prefix.contains
      have : min p.bits q.bits = q.bits := by omega
      rw [this] at hmask
      simp [qval, pv, p4, q4, hbl.1, hbl.2, hmask]
    · have hb : p.bits = q.bits := by omega
      have : min p.bits q.bits = p.bits := by omega
      rw [this] at hmask
      -- both canonical at the same length: masked values are the values themselves
      have hpm : Prefix.maskVal 128 p.bits p.addr.val = p.addr.val := by
        have := congrArg (fun x => x.addr.val) pm
        simpa [Prefix.masked, hbl.1] using this
      have hqm : Prefix.maskVal 128 q.bits q.addr.val = q.addr.val := by
        have := congrArg (fun x => x.addr.val) qm
        simpa [Prefix.masked, hbl.2] using this
      rw [hpm, hb, hqm] at hmask
      exact hne (eq_of_val_bits p q pv qv p4 q4 hmask hb)

private theorem wanted_congr (rs ss : List Prefix) (h : ∀ r, r ∈ rs ↔ r ∈ ss) (p : Prefix) :
    Spec.C15.wanted rs p = Spec.C15.wanted ss p := by
  unfold Spec.C15.wanted
  congr 2
  apply Bool.eq_iff_iff.mpr
  simp only [List.any_eq_true]
  constructor
  · rintro ⟨q, hq, r⟩; exact ⟨q, (h q).mp hq, r⟩
  · rintro ⟨q, hq, r⟩; exact ⟨q, (h q).mpr hq, r⟩

/-- The result depends only on *which* routes the dump contains: not on their order and not
    on how often each is listed. -/
theorem ext_invariant (rs ss : List Prefix) (hwf : WF rs) (h : ∀ r, r ∈ rs ↔ r ∈ ss) :
    currentRoutes rs = currentRoutes ss := by
  have hwf' : WF ss := fun r hr => hwf r ((h r).mpr hr)
  apply eq_of_strict_sorted (sorted_strict rs hwf) (sorted_strict ss hwf')
  intro p
  rw [mem_iff, mem_iff, wanted_congr rs ss h, h p]

theorem perm_invariant (rs ss : List Prefix) (hwf : WF rs) (h : rs.Perm ss) :
    currentRoutes rs = currentRoutes ss :=
  ext_invariant rs ss hwf (fun _ => h.mem_iff)

theorem multiplicity_invariant (rs : List Prefix) (hwf : WF rs) :
    currentRoutes (rs ++ rs) = currentRoutes rs := by
  have hwf2 : WF (rs ++ rs) := by
    intro r hr
    rcases List.mem_append.mp hr with h | h <;> exact hwf r h
  exact ext_invariant _ _ hwf2 (fun a => by simp)

private theorem strictAsc_of_pairwise :
    ∀ (l : List Prefix), l.Pairwise (fun p q => addrKey p.addr < addrKey q.addr) → Spec.C15.strictAsc l = true
  | [], _ => rfl
  | [_], _ => rfl
  | p :: q :: r, h => by
    rw [List.pairwise_cons] at h
    simp only [Spec.C15.strictAsc, Bool.and_eq_true, decide_eq_true_eq]
    exact ⟨h.1 q List.mem_cons_self, strictAsc_of_pairwise (q :: r) h.2⟩

private theorem noOverlap_of :
    ∀ (l : List Prefix), l.Nodup → (∀ p ∈ l, ∀ q ∈ l, p ≠ q → p.overlaps q = false) → Spec.C15.noOverlap l = true
  | [], _, _ => rfl
  | p :: r, hn, h => by
    rw [List.nodup_cons] at hn
    simp only [Spec.C15.noOverlap, Bool.and_eq_true, List.all_eq_true, Bool.not_eq_true']
    refine ⟨?_, noOverlap_of r hn.2 (fun a ha b hb => h a (List.mem_cons_of_mem _ ha) b (List.mem_cons_of_mem _ hb))⟩
    intro q hq
    exact h p List.mem_cons_self q (List.mem_cons_of_mem _ hq) (fun e => hn.1 (e ▸ hq))

/-- The model meets the oracle that the check evaluates on the implementation's output. -/
theorem holds_model (rs : List Prefix) (hwf : WF rs) :
    Spec.C15.holds rs (currentRoutes rs) = true := by
  unfold Spec.C15.holds
  simp only [Bool.and_eq_true, List.all_eq_true, Bool.or_eq_true, Bool.not_eq_true',
    List.contains_eq_mem, decide_eq_true_eq]
  refine ⟨⟨⟨?_, ?_⟩, strictAsc_of_pairwise _ (sorted_strict rs hwf)⟩,
    noOverlap_of _ (nodup rs) (fun p hp q hq => non_overlapping rs hwf p q hp hq)⟩
  · intro p hp; exact (mem_iff rs p).mp hp
  · intro p hp
    by_cases hw : Spec.C15.wanted rs p = true
    · right; exact (mem_iff rs p).mpr ⟨hp, hw⟩
    · left; simpa using hw

/-- Every option the `::/0` stanza yields is a Route Information option for one of the expanded
    routes with the stanza's preference and (possibly counted-down) lifetime — one per expanded
    route, in order. Stated of the model's `Plugin.apply` (the transcription of `(*Route).Apply`,
    tied to the source by the differential runs of this check). -/
theorem uniform_stanza (sys : SysState) (p : Prefix) (preference : Nat) (lifetime : Dur) (dep : Bool)
    (rs : List Prefix) (hs : sys.routes = some rs) :
    Plugin.apply sys (.route true p preference lifetime dep) =
      some ((currentRoutes rs).map fun q =>
        Opt.ri q.addr q.bits preference (routeLifetime dep sys.epoch lifetime sys.now)) := by
  simp [Plugin.apply, hs]

theorem wildcard_fails_with_source (sys : SysState) (p : Prefix) (preference : Nat) (lifetime : Dur)
    (dep : Bool) (hs : sys.routes = none) :
    Plugin.apply sys (.route true p preference lifetime dep) = none := by
  simp [Plugin.apply, hs]

/-- Non-vacuity and the repaired defect F-11: /48 and /64 at one base address keep the /48,
    a duplicated entry is advertised once, host routes and IPv4 are skipped. -/
example :
    let a48 : Prefix := { addr := { val := 0x20010db8000000000000000000000000 }, bits := 48 }
    let a64 : Prefix := { addr := { val := 0x20010db8000000000000000000000000 }, bits := 64 }
    let b64 : Prefix := { addr := { val := 0x20010db8000100020000000000000000 }, bits := 64 }
    let h   : Prefix := { addr := { val := 0x20010db8000000000000000000000001 }, bits := 128 }
    let v4  : Prefix := { addr := { v4 := true, val := 0x0a000000 }, bits := 8 }
    WF [b64, a64, h, a48, v4, b64] ∧ currentRoutes [b64, a64, h, a48, v4, b64] = [a48, b64] := by
  refine ⟨?_, by decide⟩
  intro r hr
  simp only [List.mem_cons, List.mem_nil_iff, or_false] at hr
  rcases hr with rfl | rfl | rfl | rfl | rfl | rfl <;> decide

end Corerad.Props.C15
