/-
  TransC06 — the Go → Lean translation of the multicast rate limit of `(*Advertiser).schedule`
  (internal/corerad/advertise.go) — what the scheduler's loop does with ONE request taken off its
  channel, synthesised as a pure function by `tools/extract/translate_synth.go` and regenerated into
  `Corerad.Gen.Trans.Advertiser_schedule_mc` from the current source text on every run — equals the
  step function `Corerad.Model.schedStep` that the C06 theorems (`Props/C06`: `multicast_spacing`,
  `multicast_served`) are about, for ALL states, instants and requests.

  Only equivalence theorems live here.
-/
import Corerad.Gen.Trans
import Corerad.Model.Scheduler

namespace Corerad.Props.TransC06

open Corerad Corerad.Model

/-- a multicast request (periodic tick, or a solicitation from `::`): the new value of
    `nextMulticast` is the model's `next`, and a transmission is handed to the timer group exactly
    when the model schedules one — for the instant `nextMulticast` then holds -/
theorem schedule_mc_equiv (next now : Time) (minDelay : Dur) (unicastOnly : Bool) :
    Gen.Trans.Advertiser_schedule_mc (nextMulticast := next) (now := now) (minDelayBetweenRAs := minDelay)
        (unicastOnly := unicastOnly) (ipIsMulticast := true)
      = ((schedStep minDelay unicastOnly { next := next } now .mc 0).1.next,
         (schedStep minDelay unicastOnly { next := next } now .mc 0).2.isSome) := by
  simp only [Gen.Trans.Advertiser_schedule_mc, schedStep]
  repeat' split
  all_goals first | rfl | (simp_all; done) | (simp_all; omega) | omega

/-- … and the transmission the model schedules is a multicast one, due at that value -/
theorem schedule_mc_due (next now : Time) (minDelay : Dur) (unicastOnly : Bool) (s : Send)
    (h : (schedStep minDelay unicastOnly { next := next } now .mc 0).2 = some s) :
    s.mc = true ∧ s.t = (Gen.Trans.Advertiser_schedule_mc (nextMulticast := next) (now := now)
        (minDelayBetweenRAs := minDelay) (unicastOnly := unicastOnly) (ipIsMulticast := true)).1 := by
  simp only [Gen.Trans.Advertiser_schedule_mc, schedStep] at *
  repeat' split at h
  all_goals simp_all
  all_goals (subst h; simp; try (repeat' split) <;> omega)

/-- a unicast request never touches the multicast schedule (and the model's state is unchanged) -/
theorem schedule_uc_equiv (next now : Time) (minDelay : Dur) (unicastOnly : Bool) (h : Nat) (draw : Int) :
    Gen.Trans.Advertiser_schedule_mc (nextMulticast := next) (now := now) (minDelayBetweenRAs := minDelay)
        (unicastOnly := unicastOnly) (ipIsMulticast := false)
      = ((schedStep minDelay unicastOnly { next := next } now (.uc h) draw).1.next, false) := by
  simp [Gen.Trans.Advertiser_schedule_mc, schedStep]

/-- non-trivial instances: a request 2.9 s after the previous RA is scheduled for 3.0 s; one 0.1 s
    before a pending RA is coalesced; one long after the previous RA is sent at once -/
example : Gen.Trans.Advertiser_schedule_mc 0 (2900 * ms) (3 * second) false true = (3 * second, true) := by decide
example : Gen.Trans.Advertiser_schedule_mc (3 * second) (2900 * ms) (3 * second) false true = (3 * second, false) := by decide
example : Gen.Trans.Advertiser_schedule_mc (3 * second) (60 * second) (3 * second) false true = (60 * second, true) := by decide
example : Gen.Trans.Advertiser_schedule_mc (3 * second) (60 * second) (3 * second) true true = (3 * second, false) := by decide

end Corerad.Props.TransC06
