/-
  C17 — Prometheus metrics and the debug API are always answerable and mirror the current RA.

  The model (Model/Observe.lean) is parameterised by what the source does (`Src`): which nil
  sources the plugins guard, which option kinds `collectMetrics` and `packOptions` handle, how
  the two optional routes are gated.  `Src.gen` is read off /repo on every run.  The theorems
  are stated for every `Src` with the required facts as hypotheses (`…_of`), instantiated at
  `Src.gen` through the expectation lemmas `gen_*` — which are closed by `decide` and therefore
  FAIL TO BUILD on a tree whose plugins call a nil source before `Prepare` (F-12) or whose JSON
  rendering lacks an option kind (F-13).  Witness theorems state those failures on the model.

  Quantifiers: every list of interfaces (any plugin list, hence every accepted configuration),
  every per-interface lifecycle point (never / initialised / re-initialising), every system
  state, every combination of sysctl read failures.

  Residue (not theorems): "without blocking", the data race between `Prepare` and a concurrent
  scrape, and the Prometheus registry running collectors on their own goroutines (so that a
  collector panic ends the process) are runtime facts outside the model.
-/
import Corerad.Spec.C17
import Corerad.Lemmas.ListUtil
import Corerad.Model.Config
import Corerad.Gen.Main

namespace Corerad.Props.C17

/-- How main wires observability: one pedantic Prometheus registry feeds both the metrics and the
    /metrics handler (so a duplicate sample makes the gather fail, as modelled), and the metrics
    collector and the debug API read the same `State` and the same parsed interfaces as the
    advertisers. -/
theorem gen_main_wiring :
    Gen.Main.pedanticRegistry = true ∧ Gen.Main.sameStateAndConfig = true := by decide

open Corerad Corerad.Model Corerad.Model.Observe

/-! ### regenerated facts -/

/-- every plugin source that is nil before `Prepare` is checked before it is called
    (false on a tree with F-12: the build of this lemma fails) -/
theorem gen_unprepared_guarded : Src.gen.guards = Guards.all := by decide

/-- the type switch of `packOptions` has a case for every option kind CoreRAD can advertise
    (false on a tree with F-13: `PREF64` is missing) -/
theorem gen_pack_kinds : Src.gen.pack = PackKinds.all := by decide

/-- `collectMetrics` picks and reports PI, RI, RDNSS and DNSSL options -/
theorem gen_collect_kinds : Src.gen.collect = CollectKinds.all := by decide

/-- `/metrics` is registered only under `cfg.Debug.Prometheus`, `/debug/pprof/…` only under
    `cfg.Debug.PProf` -/
theorem gen_gated : Src.gen.metricsGated = true ∧ Src.gen.pprofGated = true := by decide

/-- both observation paths pass the live `State.IPv6Forwarding` result to
    `RouterAdvertisement`, and they are, with `buildRA`, its only callers -/
theorem gen_reads_forwarding :
    Gen.Metrics.scrapeReadsForwarding = true ∧ Gen.Metrics.apiReadsForwarding = true ∧
    Gen.Metrics.raCallSites =
      ["internal/corerad/advertise.go:buildRA", "internal/corerad/metrics.go:constScrape",
       "internal/crhttp/handler.go:interfaces"] := by decide

/-- the source is the one the property calls for -/
theorem gen_src_sound : Src.gen = Src.sound := by
  have h1 := gen_unprepared_guarded
  have h2 := gen_pack_kinds
  have h3 := gen_collect_kinds
  have h4 := gen_gated
  cases h : Src.gen with
  | mk g c p m q =>
    rw [h] at h1 h2 h3 h4
    simp only at h1 h2 h3 h4
    obtain ⟨h4, h5⟩ := h4
    subst h1 h2 h3 h4 h5
    rfl

/-! ### results -/

theorem bind_ne_panic {r : Result α} {f : α → Result β}
    (hr : r ≠ .panic) (hf : ∀ x, f x ≠ .panic) : r.bind f ≠ .panic := by
  cases r with
  | ok x => exact hf x
  | error => simp
  | panic => exact absurd rfl hr

theorem bind_eq_ok {r : Result α} {f : α → Result β} {y : β}
    (h : r.bind f = .ok y) : ∃ x, r = .ok x ∧ f x = .ok y := by
  cases r with
  | ok x => exact ⟨x, rfl, h⟩
  | error => simp at h
  | panic => simp at h

theorem ofOption_ne_panic (o : Option α) : Result.ofOption o ≠ .panic := by
  cases o <;> simp [Result.ofOption]

theorem ofOption_eq_ok {o : Option α} {x : α} : Result.ofOption o = .ok x ↔ o = some x := by
  cases o <;> simp [Result.ofOption]

/-! ### never a panic -/

theorem nilOutcome_guarded (auto dep : Bool) : nilOutcome auto true dep true ≠ .panic := by
  cases auto <;> cases dep <;> simp [nilOutcome]

theorem nilCall_all_ne_panic (p : Plugin) : nilCall Guards.all p ≠ .panic := by
  cases p <;> simp [nilCall, Guards.all, nilOutcome_guarded]
  case rdnss auto _ _ => cases auto <;> simp [nilOutcome]

/-- a prepared plugin never reaches a nil source, whatever the source guards -/
theorem applyPlugin_prepared (g : Guards) (sys : SysState) (p : Plugin) :
    applyPlugin g true sys p = Result.ofOption (p.apply sys) := by
  simp [applyPlugin]

theorem applyPlugin_ne_panic_of (g : Guards) (prepared : Bool) (sys : SysState) (p : Plugin)
    (h : prepared = true ∨ g = Guards.all) : applyPlugin g prepared sys p ≠ .panic := by
  cases prepared with
  | true => rw [applyPlugin_prepared]; exact ofOption_ne_panic _
  | false =>
    have hg : g = Guards.all := by simpa using h
    subst hg
    unfold applyPlugin
    simp only [Bool.false_eq_true, if_false]
    have := nilCall_all_ne_panic p
    cases hn : nilCall Guards.all p with
    | panic => exact absurd hn this
    | error => simp
    | ok _ => exact ofOption_ne_panic _

theorem applyAllR_ne_panic_of (g : Guards) (prepared : Bool) (sys : SysState) (ps : List Plugin)
    (h : prepared = true ∨ g = Guards.all) : applyAllR g prepared sys ps ≠ .panic := by
  induction ps with
  | nil => simp [applyAllR]
  | cons p ps ih =>
    unfold applyAllR
    exact bind_ne_panic (applyPlugin_ne_panic_of g prepared sys p h)
      (fun _ => bind_ne_panic ih (fun _ => by simp))

theorem routerAdvertisementR_ne_panic_of (g : Guards) (prepared : Bool) (ifi : Interface)
    (sys : SysState) (fw : Bool) (h : prepared = true ∨ g = Guards.all) :
    routerAdvertisementR g prepared ifi sys fw ≠ .panic :=
  bind_ne_panic (applyAllR_ne_panic_of g prepared sys ifi.plugins h) (fun _ => by simp)

theorem scrapeIface_ne_panic_of (s : Src) (ifi : Interface) (e : IfEnv)
    (h : e.lifecycle.prepared = true ∨ s.guards = Guards.all) : scrapeIface s ifi e ≠ .panic := by
  unfold scrapeIface
  cases e.autoconf with
  | none => simp
  | some auto =>
    cases e.forwarding with
    | none => simp
    | some fw =>
      by_cases ha : ifi.advertise = true
      · simp only [ha, if_true]
        exact bind_ne_panic (routerAdvertisementR_ne_panic_of _ _ _ _ _ h) (fun _ => by simp)
      · simp [ha]

theorem gather_ne_panic (ss : List Sample) : gather ss ≠ .panic := by
  unfold gather; split <;> simp

theorem collectAll_ne_panic_of (s : Src) (envs : List (Interface × IfEnv))
    (h : ∀ x ∈ envs, x.2.lifecycle.prepared = true ∨ s.guards = Guards.all) :
    collectAll s envs ≠ .panic := by
  induction envs with
  | nil => simp [collectAll]
  | cons x rest ih =>
    obtain ⟨ifi, e⟩ := x
    unfold collectAll
    refine bind_ne_panic (scrapeIface_ne_panic_of s ifi e (h (ifi, e) (by simp))) (fun _ => ?_)
    exact bind_ne_panic (ih (fun y hy => h y (by simp [hy]))) (fun _ => by simp)

/-- **scrape_total**, for any source that guards its nil sources: for every list of
    interfaces, every lifecycle point of each, every system state and every combination of
    failing sysctl reads, a scrape yields samples or an error — never a panic. -/
theorem scrape_total_of (s : Src) (hg : s.guards = Guards.all) (envs : List (Interface × IfEnv)) :
    scrape s envs ≠ .panic :=
  bind_ne_panic (collectAll_ne_panic_of s envs (fun _ _ => Or.inr hg)) gather_ne_panic

/-- **scrape_total** on the source as it is (through `gen_unprepared_guarded`). -/
theorem scrape_total (envs : List (Interface × IfEnv)) : scrape Src.gen envs ≠ .panic :=
  scrape_total_of Src.gen gen_unprepared_guarded envs

/-- Once every interface has been initialised no source is nil: no panic whatever the source
    guards.  (So F-12 concerns exactly the interfaces that never came up.) -/
theorem scrape_total_initialised (s : Src) (envs : List (Interface × IfEnv))
    (h : ∀ x ∈ envs, x.2.lifecycle ≠ .never) : scrape s envs ≠ .panic := by
  refine bind_ne_panic (collectAll_ne_panic_of s envs (fun x hx => Or.inl ?_)) gather_ne_panic
  have := h x hx
  cases hl : x.2.lifecycle <;> simp_all [Lifecycle.prepared]

/-- which stanzas of a never-initialised interface reach a nil func when nothing is guarded:
    exactly the wildcard and the deprecated ones -/
theorem unguarded_panics_iff (sys : SysState) (p : Plugin) :
    applyPlugin Guards.none false sys p = .panic ↔ Spec.C17.needsSource p = true := by
  cases p with
  | pfx auto _ _ _ _ _ dep =>
    cases auto <;> cases dep <;>
      simp [applyPlugin, nilCall, nilOutcome, Guards.none, Spec.C17.needsSource, ofOption_ne_panic]
  | route auto _ _ _ dep =>
    cases auto <;> cases dep <;>
      simp [applyPlugin, nilCall, nilOutcome, Guards.none, Spec.C17.needsSource, ofOption_ne_panic]
  | rdnss auto _ _ =>
    cases auto <;>
      simp [applyPlugin, nilCall, nilOutcome, Guards.none, Spec.C17.needsSource, ofOption_ne_panic]
  | _ => simp [applyPlugin, nilCall, Spec.C17.needsSource, ofOption_ne_panic]

/-- `config.Minimal`'s advertising interface: one wildcard prefix and the link-layer address -/
def minimalIface : Interface :=
  { name := 1, advertise := true, minInterval := 198 * second, maxInterval := 600 * second,
    hopLimit := 64, defaultLifetime := 1800 * second,
    plugins := [.pfx true { addr := { val := 0 }, bits := 64 } true true (24 * hour) (4 * hour) false, .lla] }

/-- **F-12 on the model**: without the guards, scraping the minimal configuration before its
    interface has come up panics; so does the API request. -/
theorem unguarded_minimal_panics :
    scrape { Src.sound with guards := Guards.none } [(minimalIface, { lifecycle := .never })] = .panic ∧
    api { Src.sound with guards := Guards.none } [(minimalIface, { lifecycle := .never })] = .panic := by
  constructor <;> rfl

/-! ### what an ok scrape reports -/

/-- the plugin loop at a lifecycle point, when it succeeds, is `applyAll` on the state the
    plugins can see at that point -/
theorem applyPlugin_ok {g : Guards} {prepared : Bool} {sys : SysState} {p : Plugin} {os : List Opt}
    (h : applyPlugin g prepared sys p = .ok os) : p.apply (effSys prepared sys) = some os := by
  cases prepared with
  | true => rw [applyPlugin_prepared] at h; simpa [effSys] using ofOption_eq_ok.mp h
  | false =>
    unfold applyPlugin at h
    simp only [Bool.false_eq_true, if_false] at h
    cases hn : nilCall g p with
    | panic => simp [hn] at h
    | error => simp [hn] at h
    | ok _ => simp only [hn] at h; simpa [effSys] using ofOption_eq_ok.mp h

theorem applyAllR_ok {g : Guards} {prepared : Bool} {sys : SysState} {ps : List Plugin} {os : List Opt}
    (h : applyAllR g prepared sys ps = .ok os) : applyAll (effSys prepared sys) ps = some os := by
  induction ps generalizing os with
  | nil => simp [applyAllR] at h; simp [applyAll, h]
  | cons p ps ih =>
    unfold applyAllR at h
    obtain ⟨a, ha, h⟩ := bind_eq_ok h
    obtain ⟨b, hb, h⟩ := bind_eq_ok h
    simp at h
    simp [applyAll, applyPlugin_ok ha, ih hb, h]

/-- `routerAdvertisement` is the plugin fold followed by the header copy and forwarding rule -/
theorem routerAdvertisement_eq (ifi : Interface) (sys : SysState) (fw : Bool) :
    routerAdvertisement ifi sys fw = (applyAll sys ifi.plugins).map (finishRA ifi fw) := by
  unfold routerAdvertisement finishRA
  cases applyAll sys ifi.plugins with
  | none => rfl
  | some opts => simp only [Option.map]; split <;> rfl

/-- an RA generated at a lifecycle point is the RA `Interface.RouterAdvertisement` returns on
    the state visible at that point (the real one once prepared; without the hardware address
    before) -/
theorem routerAdvertisementR_ok {g : Guards} {prepared : Bool} {ifi : Interface} {sys : SysState}
    {fw : Bool} {r : RA × Bool} (h : routerAdvertisementR g prepared ifi sys fw = .ok r) :
    routerAdvertisement ifi (effSys prepared sys) fw = some r := by
  unfold routerAdvertisementR at h
  obtain ⟨opts, ho, h⟩ := bind_eq_ok h
  simp at h
  rw [routerAdvertisement_eq, applyAllR_ok ho, ← h]; rfl

/-- once prepared, the lifecycle-aware builder *is* `routerAdvertisement` -/
theorem applyAllR_prepared (g : Guards) (sys : SysState) (ps : List Plugin) :
    applyAllR g true sys ps = Result.ofOption (applyAll sys ps) := by
  induction ps with
  | nil => rfl
  | cons p ps ih =>
    unfold applyAllR applyAll
    rw [applyPlugin_prepared, ih]
    cases p.apply sys with
    | none => rfl
    | some os => cases applyAll sys ps <;> rfl

theorem routerAdvertisementR_prepared (g : Guards) (ifi : Interface) (sys : SysState) (fw : Bool) :
    routerAdvertisementR g true ifi sys fw = Result.ofOption (routerAdvertisement ifi sys fw) := by
  unfold routerAdvertisementR
  rw [applyAllR_prepared, routerAdvertisement_eq]
  cases applyAll sys ifi.plugins <;> rfl

/-- The render of what `routerAdvertisement` returns at that moment, for one interface:
    `none` when a sysctl read fails or the RA cannot be generated. -/
def mirrorIface (ck : CollectKinds) (ifi : Interface) (e : IfEnv) : Option (List Sample) :=
  match e.autoconf, e.forwarding with
  | some auto, some fw =>
    if ifi.advertise then
      (routerAdvertisement ifi (effSys e.lifecycle.prepared e.sys) fw).map fun r =>
        collectMetrics ck ifi auto fw (some r)
    else some (collectMetrics ck ifi auto fw none)
  | _, _ => none

def mirrorAll (ck : CollectKinds) : List (Interface × IfEnv) → Option (List Sample)
  | [] => some []
  | (ifi, e) :: rest =>
    match mirrorIface ck ifi e, mirrorAll ck rest with
    | some a, some b => some (a ++ b)
    | _, _ => none

theorem scrapeIface_ok {s : Src} {ifi : Interface} {e : IfEnv} {ss : List Sample}
    (h : scrapeIface s ifi e = .ok ss) : mirrorIface s.collect ifi e = some ss := by
  unfold scrapeIface at h
  unfold mirrorIface
  cases ha : e.autoconf with
  | none => simp [ha] at h
  | some auto =>
    cases hf : e.forwarding with
    | none => simp [ha, hf] at h
    | some fw =>
      simp only [ha, hf] at h ⊢
      by_cases hadv : ifi.advertise = true
      · simp only [hadv, if_true] at h ⊢
        obtain ⟨r, hr, h⟩ := bind_eq_ok h
        simp at h
        simp [routerAdvertisementR_ok hr, h]
      · simp only [hadv] at h ⊢
        simpa using h

theorem collectAll_ok {s : Src} {envs : List (Interface × IfEnv)} {ss : List Sample}
    (h : collectAll s envs = .ok ss) : mirrorAll s.collect envs = some ss := by
  induction envs generalizing ss with
  | nil => simp [collectAll] at h; simp [mirrorAll, h]
  | cons x rest ih =>
    obtain ⟨ifi, e⟩ := x
    unfold collectAll at h
    obtain ⟨a, ha, h⟩ := bind_eq_ok h
    obtain ⟨b, hb, h⟩ := bind_eq_ok h
    simp at h
    simp [mirrorAll, scrapeIface_ok ha, ih hb, h]

/-- **scrape_mirrors**: when a scrape succeeds, for every source, what it reports is — in
    configuration order — the render of the RA that `Interface.RouterAdvertisement` returns at
    that moment for every advertising interface (on the state its plugins can see), the gauges
    of every interface with the values just read, and no two samples share family and labels. -/
theorem scrape_mirrors {s : Src} {envs : List (Interface × IfEnv)} {ss : List Sample}
    (h : scrape s envs = .ok ss) : mirrorAll s.collect envs = some ss ∧ Observe.hasDup ss = false := by
  unfold scrape at h
  obtain ⟨all, hc, hg⟩ := bind_eq_ok h
  unfold gather at hg
  split at hg
  · simp at hg
  · simp at hg; subst hg
    exact ⟨collectAll_ok hc, by simpa using ‹¬Observe.hasDup all = true›⟩

theorem collectAll_of_mirror (s : Src) (envs : List (Interface × IfEnv)) (ss : List Sample)
    (hp : ∀ x ∈ envs, x.2.lifecycle.prepared = true)
    (hm : mirrorAll s.collect envs = some ss) : collectAll s envs = .ok ss := by
  induction envs generalizing ss with
  | nil => simp [mirrorAll] at hm; simp [collectAll, hm]
  | cons x rest ih =>
    obtain ⟨ifi, e⟩ := x
    have hpe : e.lifecycle.prepared = true := hp (ifi, e) (by simp)
    unfold mirrorAll at hm
    cases hi : mirrorIface s.collect ifi e with
    | none => simp [hi] at hm
    | some a =>
      cases hr : mirrorAll s.collect rest with
      | none => simp [hi, hr] at hm
      | some b =>
        simp [hi, hr] at hm
        have hb := ih b (fun y hy => hp y (by simp [hy])) hr
        have ha : scrapeIface s ifi e = .ok a := by
          unfold mirrorIface at hi
          unfold scrapeIface
          cases hau : e.autoconf with
          | none => simp [hau] at hi
          | some auto =>
            cases hf : e.forwarding with
            | none => simp [hau, hf] at hi
            | some fw =>
              simp only [hau, hf] at hi ⊢
              by_cases hadv : ifi.advertise = true
              · simp only [hadv, if_true, hpe, effSys] at hi ⊢
                rw [routerAdvertisementR_prepared]
                cases hra : routerAdvertisement ifi e.sys fw with
                | none => simp [hra] at hi
                | some r => simp [hra] at hi; simp [Result.ofOption, hi]
              · simp only [hadv] at hi ⊢
                simpa using hi
        unfold collectAll
        simp [ha, hb, hm]

/-- Conversely, with every interface initialised a scrape succeeds exactly when everything can
    be read and generated and no two samples collide; nothing else makes it fail. -/
theorem scrape_ok_iff_initialised (s : Src) (envs : List (Interface × IfEnv)) (ss : List Sample)
    (hp : ∀ x ∈ envs, x.2.lifecycle.prepared = true) :
    scrape s envs = .ok ss ↔ mirrorAll s.collect envs = some ss ∧ Observe.hasDup ss = false := by
  refine ⟨scrape_mirrors, ?_⟩
  rintro ⟨hm, hd⟩
  unfold scrape gather
  simp [collectAll_of_mirror s envs ss hp hm, hd]

/-! ### one sample per option, flags and lifetimes, the gauges -/

/-- with all four kinds collected, the model's per-option samples are the oracle's: four
    series per Prefix Information option (both flags, both lifetimes), one lifetime per Route
    Information, RDNSS and DNSSL option, labelled with interface and CIDR / servers / domains;
    nothing for the other kinds -/
theorem optSamples_all (name : Nat) (o : Opt) :
    optSamples CollectKinds.all name o = Spec.C17.optSeries name o := by
  cases o <;> rfl

theorem optSamples_count (name : Nat) (o : Opt) :
    (optSamples CollectKinds.all name o).length =
      match o with
      | .pi .. => 4
      | .ri .. | .rdnss .. | .dnssl .. => 1
      | _ => 0 := by
  cases o <;> rfl

/-- the four gauges of every interface carry the configuration's roles and the values read -/
theorem gauges_reported (ck : CollectKinds) (ifi : Interface) (auto fw : Bool) (ra : Option (RA × Bool)) :
    (⟨.advertising, .iface ifi.name, b2v ifi.advertise⟩ : Sample) ∈ collectMetrics ck ifi auto fw ra ∧
    (⟨.monitoring, .iface ifi.name, b2v ifi.monitor⟩ : Sample) ∈ collectMetrics ck ifi auto fw ra ∧
    (⟨.autoconfiguration, .iface ifi.name, b2v auto⟩ : Sample) ∈ collectMetrics ck ifi auto fw ra ∧
    (⟨.forwarding, .iface ifi.name, b2v fw⟩ : Sample) ∈ collectMetrics ck ifi auto fw ra := by
  simp [collectMetrics, gauges]

/-- per-option samples belong to the five option families -/
theorem optSamples_family {ck : CollectKinds} {name : Nat} {o : Opt} {x : Sample}
    (hx : x ∈ optSamples ck name o) : 5 ≤ x.family.id ∧ x.labels.ifaceOf = name := by
  cases o with
  | pi a len ol au v p =>
    by_cases hk : ck.pinfo = true
    · simp [optSamples, hk] at hx
      rcases hx with h | h | h | h <;> subst h <;> simp [Family.id, Labels.ifaceOf]
    · simp [optSamples, hk] at hx
  | ri a len pr lt =>
    by_cases hk : ck.route = true
    · simp [optSamples, hk] at hx; subst hx; simp [Family.id, Labels.ifaceOf]
    · simp [optSamples, hk] at hx
  | rdnss lt l =>
    by_cases hk : ck.rdnss = true
    · simp [optSamples, hk] at hx; subst hx; simp [Family.id, Labels.ifaceOf]
    · simp [optSamples, hk] at hx
  | dnssl lt l =>
    by_cases hk : ck.dnssl = true
    · simp [optSamples, hk] at hx; subst hx; simp [Family.id, Labels.ifaceOf]
    · simp [optSamples, hk] at hx
  | mtu _ => simp [optSamples] at hx
  | lla _ _ => simp [optSamples] at hx
  | captivePortal _ _ => simp [optSamples] at hx
  | pref64 _ _ => simp [optSamples] at hx

theorem finishRA_mis (ifi : Interface) (fw : Bool) (opts : List Opt) :
    (finishRA ifi fw opts).2 = decide (fw = false ∧ 0 < ifi.defaultLifetime) ∧
    (finishRA ifi fw opts).1.options = opts := by
  unfold finishRA
  by_cases h : ifi.defaultLifetime > 0 ∧ (!fw) = true
  · simp only [h, and_self, if_true]; simp at h; simp [h]
  · simp only [h, if_false]; simp at h; simp; intro hf; simpa [hf] using h

theorem finishRA_preference (ifi : Interface) (fw : Bool) (opts : List Opt) :
    (finishRA ifi fw opts).1.preference = ifi.preference := by
  unfold finishRA
  by_cases h : ifi.defaultLifetime > 0 ∧ (!fw) = true
  · simp only [h, and_self, if_true]
  · simp only [h, if_false]

/-- the misconfiguration gauge is reported iff the interface does not forward although a
    non-zero router lifetime is configured (C04's condition) -/
theorem misconfiguration_iff (ck : CollectKinds) (ifi : Interface) (auto fw : Bool) (opts : List Opt) :
    (∃ x ∈ collectMetrics ck ifi auto fw (some (finishRA ifi fw opts)), x.family = .misconfiguration) ↔
      (fw = false ∧ 0 < ifi.defaultLifetime) := by
  obtain ⟨hmis, _⟩ := finishRA_mis ifi fw opts
  constructor
  · rintro ⟨x, hx, hf⟩
    simp only [collectMetrics, gauges, List.mem_append, List.mem_cons, List.mem_flatMap] at hx
    rcases hx with hx | hx | hx
    · rcases hx with h | h | h | h | h <;> simp_all
    · rw [hmis] at hx
      by_cases hc : fw = false ∧ 0 < ifi.defaultLifetime
      · exact hc
      · simp [hc] at hx
    · obtain ⟨o, _, hxo⟩ := hx
      have := (optSamples_family hxo).1
      rw [hf] at this
      simp [Family.id] at this
  · intro hc
    refine ⟨⟨.misconfiguration, .details ifi.name, second⟩, ?_, rfl⟩
    simp only [collectMetrics, List.mem_append]
    right; left
    rw [hmis]
    simp [hc]

/-! ### the JSON rendering -/

/-- is the option's kind handled by the type switch? -/
def handles (pk : PackKinds) : Opt → Bool
  | .captivePortal .. => pk.captivePortal
  | .dnssl .. => pk.dnssl
  | .lla .. => pk.lla
  | .mtu _ => pk.mtu
  | .pi .. => pk.pinfo
  | .rdnss .. => pk.rdnss
  | .ri .. => pk.route
  | .pref64 .. => pk.pref64

/-- what the parser guarantees about an option: a route's preference is Low/Medium/High -/
def optOK : Opt → Bool
  | .ri _ _ preference _ => prefValid preference
  | _ => true

theorem handles_all (o : Opt) : handles PackKinds.all o = true := by cases o <;> rfl

/-- one step of the type switch panics exactly on an unhandled kind (or an invalid
    preference); it never fails otherwise -/
theorem packOpt_panic_iff (pk : PackKinds) (out : JOptions) (o : Opt) :
    packOpt pk out o = .panic ↔ (handles pk o = false ∨ optOK o = false) := by
  cases o <;> simp only [packOpt, handles, optOK] <;> split <;> (try split) <;> simp_all

theorem packOpt_ne_error (pk : PackKinds) (out : JOptions) (o : Opt) : packOpt pk out o ≠ .error := by
  cases o <;> simp only [packOpt] <;> split <;> (try split) <;> simp

/-- a handled kind is rendered the same way whatever else the switch handles -/
theorem packOpt_mono {pk : PackKinds} {out j : JOptions} {o : Opt}
    (h : packOpt pk out o = .ok j) : packOpt PackKinds.all out o = .ok j := by
  cases o <;> simp only [packOpt, PackKinds.all, if_true] at h ⊢ <;> (split at h) <;>
    (try split at h) <;> simp_all

theorem packFrom_mono {pk : PackKinds} {out j : JOptions} {opts : List Opt}
    (h : packFrom pk out opts = .ok j) : packFrom PackKinds.all out opts = .ok j := by
  induction opts generalizing out with
  | nil => simpa [packFrom] using h
  | cons o os ih =>
    unfold packFrom at h ⊢
    obtain ⟨out', ho, h⟩ := bind_eq_ok h
    rw [packOpt_mono ho]
    exact ih h

theorem packFrom_ne_error (pk : PackKinds) (out : JOptions) (opts : List Opt) :
    packFrom pk out opts ≠ .error := by
  induction opts generalizing out with
  | nil => simp [packFrom]
  | cons o os ih =>
    unfold packFrom
    cases h : packOpt pk out o with
    | ok x => exact ih x
    | error => exact absurd h (packOpt_ne_error pk out o)
    | panic => simp

/-- `packOptions` panics iff some option is of an unhandled kind (or carries an invalid
    preference) -/
theorem packFrom_panic_iff (pk : PackKinds) (out : JOptions) (opts : List Opt) :
    packFrom pk out opts = .panic ↔ ∃ o ∈ opts, handles pk o = false ∨ optOK o = false := by
  induction opts generalizing out with
  | nil => simp [packFrom]
  | cons o os ih =>
    unfold packFrom
    cases h : packOpt pk out o with
    | ok x =>
      have hn : ¬ (handles pk o = false ∨ optOK o = false) := by
        intro hc; have := (packOpt_panic_iff pk out o).mpr hc; simp [h] at this
      simp only [Result.bind_ok, ih x, List.mem_cons, exists_eq_or_imp]
      constructor
      · intro hx; exact Or.inr hx
      · rintro (hx | hx)
        · exact absurd hx hn
        · exact hx
    | error => exact absurd h (packOpt_ne_error pk out o)
    | panic =>
      have := (packOpt_panic_iff pk out o).mp h
      simp only [Result.bind_panic, List.mem_cons, exists_eq_or_imp, true_iff]
      exact Or.inl this

/-- **json_covers_all_kinds**, for a switch that handles every kind: every option CoreRAD can
    advertise is rendered; `Opt` is the set of kinds CoreRAD can advertise, so a kind added
    later breaks this proof.  (`optOK`: what the parser guarantees for a route's preference.) -/
theorem json_covers_all_kinds_of (pk : PackKinds) (hk : pk = PackKinds.all) (o : Opt) (ho : optOK o = true) :
    packOptions pk [o] ≠ .panic := by
  subst hk
  intro h
  obtain ⟨o', ho', hc⟩ := (packFrom_panic_iff _ _ _).mp h
  simp at ho'; subst ho'
  rcases hc with hc | hc
  · rw [handles_all] at hc; simp at hc
  · rw [ho] at hc; simp at hc

/-- **json_covers_all_kinds** on the source as it is (through `gen_pack_kinds`). -/
theorem json_covers_all_kinds (o : Opt) (ho : optOK o = true) : packOptions Src.gen.pack [o] ≠ .panic :=
  json_covers_all_kinds_of _ gen_pack_kinds o ho

/-- **F-13 on the model**: a switch without the PREF64 case panics on every RA that carries a
    PREF64 option — i.e. for every configuration with a `pref64` stanza. -/
theorem pref64_unhandled_panics (pk : PackKinds) (hk : pk.pref64 = false) (opts : List Opt)
    (p : Prefix) (lt : Dur) (h : Opt.pref64 p lt ∈ opts) : packOptions pk opts = .panic :=
  (packFrom_panic_iff pk {} opts).mpr ⟨_, h, Or.inl (by simp [handles, hk])⟩

/-- the accumulator form of the per-kind comprehensions of `Spec.C17.jsonOptionsOf` -/
def accum (out : JOptions) (opts : List Opt) : JOptions :=
  { dnssl := out.dnssl ++ opts.filterMap fun | .dnssl lt names => some (wholeSeconds lt, names) | _ => none,
    mtu := ((opts.filterMap fun | .mtu m => some m | _ => none).getLast?).getD out.mtu,
    prefixes := out.prefixes ++ opts.filterMap fun
      | .pi a len ol au v p => some ⟨a, len, ol, au, wholeSeconds v, wholeSeconds p⟩ | _ => none,
    rdnss := out.rdnss ++ opts.filterMap fun | .rdnss lt servers => some (wholeSeconds lt, servers) | _ => none,
    routes := out.routes ++ opts.filterMap fun | .ri a len pref lt => some ⟨a, len, pref, wholeSeconds lt⟩ | _ => none,
    lla := ((opts.filterMap fun | .lla len mac => some (len, mac) | _ => none).getLast?).or out.lla,
    captivePortal := ((opts.filterMap fun | .captivePortal u l => some (u, l) | _ => none).getLast?).or out.captivePortal,
    pref64 := out.pref64 ++ opts.filterMap fun | .pref64 p lt => some (p, wholeSeconds lt) | _ => none }

theorem accum_empty (opts : List Opt) : accum {} opts = Spec.C17.jsonOptionsOf opts := by
  simp only [accum, Spec.C17.jsonOptionsOf, List.nil_append, Option.or_none]
  rfl

theorem getLast?_or_some (l : List α) (x : α) : l.getLast?.or (some x) = some (l.getLast?.getD x) := by
  cases l.getLast? <;> rfl

/-- one step of the switch, with every kind handled, extends the accumulator as the
    comprehensions do -/
theorem packOpt_all_step (out : JOptions) (o : Opt) (os : List Opt) (ho : optOK o = true) :
    ∃ out', packOpt PackKinds.all out o = .ok out' ∧ accum out' os = accum out (o :: os) := by
  cases o with
  | pi a len ol au v p => exact ⟨_, rfl, by simp [accum]⟩
  | ri a len pref lt =>
    have hp : prefValid pref = true := ho
    exact ⟨{ out with routes := out.routes ++ [⟨a, len, pref, wholeSeconds lt⟩] },
      by simp [packOpt, PackKinds.all, hp], by simp [accum]⟩
  | rdnss lt l => exact ⟨_, rfl, by simp [accum]⟩
  | dnssl lt l => exact ⟨_, rfl, by simp [accum]⟩
  | mtu m => exact ⟨_, rfl, by simp [accum, List.getLast?_cons]⟩
  | lla len mac => exact ⟨_, rfl, by simp [accum, List.getLast?_cons, getLast?_or_some]⟩
  | captivePortal u l => exact ⟨_, rfl, by simp [accum, List.getLast?_cons, getLast?_or_some]⟩
  | pref64 q lt => exact ⟨_, rfl, by simp [accum]⟩

theorem packFrom_all (out : JOptions) (opts : List Opt) (hok : ∀ o ∈ opts, optOK o = true) :
    packFrom PackKinds.all out opts = .ok (accum out opts) := by
  induction opts generalizing out with
  | nil => simp [packFrom, accum]
  | cons o os ih =>
    obtain ⟨out', h1, h2⟩ := packOpt_all_step out o os (hok o (by simp))
    unfold packFrom
    rw [h1, Result.bind_ok, ih out' (fun o h => hok o (by simp [h])), h2]

/-- the loop with its accumulator and early panics computes the per-kind comprehensions -/
theorem packOptions_all (opts : List Opt) (hok : ∀ o ∈ opts, optOK o = true) :
    packOptions PackKinds.all opts = .ok (Spec.C17.jsonOptionsOf opts) := by
  unfold packOptions; rw [packFrom_all _ _ hok, accum_empty]

/-- whenever `packRA` returns — with whatever subset of kinds the switch handles — the result
    is the declarative JSON rendering of the RA -/
theorem packRA_ok {pk : PackKinds} {ra : RA} {j : JRA} (h : packRA pk ra = .ok j) :
    j = Spec.C17.jsonOf ra ∧ (∀ o ∈ ra.options, optOK o = true) := by
  unfold packRA at h
  split at h
  · simp at h
  · obtain ⟨o, ho, h⟩ := bind_eq_ok h
    have hall := packFrom_mono ho
    have hok : ∀ x ∈ ra.options, optOK x = true := by
      intro x hx
      cases hc : optOK x with
      | true => rfl
      | false =>
        have := (packFrom_panic_iff pk {} ra.options).mpr ⟨x, hx, Or.inr hc⟩
        unfold packOptions at ho; rw [this] at ho; simp at ho
    have e1 : packOptions PackKinds.all ra.options = .ok o := hall
    rw [packOptions_all _ hok] at e1
    have e2 : Spec.C17.jsonOptionsOf ra.options = o := by simpa using e1
    simp at h
    subst e2
    exact ⟨by rw [← h]; rfl, hok⟩

theorem packRA_all (ra : RA) (hp : prefValid ra.preference = true) (hok : ∀ o ∈ ra.options, optOK o = true) :
    packRA PackKinds.all ra = .ok (Spec.C17.jsonOf ra) := by
  unfold packRA
  simp [hp, packOptions_all _ hok, Spec.C17.jsonOf]

/-- options built from parser-approved plugins are parser-approved -/
theorem apply_optOK {sys : SysState} {p : Plugin} {os : List Opt}
    (hp : Spec.C17.pluginOK p = true) (h : p.apply sys = some os) : ∀ o ∈ os, optOK o = true := by
  cases p with
  | route auto q preference lifetime dep =>
    have hpv : prefValid preference = true := hp
    simp only [Plugin.apply] at h
    by_cases ha : auto = true
    · simp only [ha, Bool.not_true, Bool.false_eq_true, if_false] at h
      cases hr : sys.routes with
      | none => simp [hr] at h
      | some rs =>
        simp [hr] at h; subst h
        intro o ho; simp at ho; obtain ⟨_, _, rfl⟩ := ho; exact hpv
    · simp [ha] at h; subst h
      intro o ho; simp at ho; subst ho; exact hpv
  | pfx auto q ol au v pr dep =>
    simp only [Plugin.apply] at h
    generalize prefixLifetimes dep sys.epoch v pr sys.now = vp at h
    obtain ⟨v', pr'⟩ := vp
    by_cases ha : auto = true
    · simp only [ha, Bool.not_true, Bool.false_eq_true, if_false] at h
      cases hr : sys.addrs with
      | none => simp [hr] at h
      | some as =>
        simp [hr] at h; subst h
        intro o ho; simp at ho; obtain ⟨_, _, rfl⟩ := ho; rfl
    · simp [ha] at h; subst h
      intro o ho; simp at ho; subst ho; rfl
  | rdnss auto lt servers =>
    simp only [Plugin.apply, Option.map_eq_some_iff] at h
    obtain ⟨s, _, rfl⟩ := h
    intro o ho; simp at ho; subst ho; rfl
  | lla =>
    simp only [Plugin.apply] at h
    cases hm : sys.mac with
    | none => simp [hm] at h; subst h; simp
    | some m => obtain ⟨l, v⟩ := m; simp [hm] at h; subst h; intro o ho; simp at ho; subst ho; rfl
  | dnssl _ _ => simp [Plugin.apply] at h; subst h; intro o ho; simp at ho; subst ho; rfl
  | mtu _ => simp [Plugin.apply] at h; subst h; intro o ho; simp at ho; subst ho; rfl
  | captivePortal _ _ => simp [Plugin.apply] at h; subst h; intro o ho; simp at ho; subst ho; rfl
  | pref64 _ _ => simp [Plugin.apply] at h; subst h; intro o ho; simp at ho; subst ho; rfl

theorem applyAll_optOK {sys : SysState} {ps : List Plugin} {os : List Opt}
    (hp : ps.all Spec.C17.pluginOK = true) (h : applyAll sys ps = some os) : ∀ o ∈ os, optOK o = true := by
  induction ps generalizing os with
  | nil => simp [applyAll] at h; subst h; simp
  | cons p ps ih =>
    simp only [List.all_cons, Bool.and_eq_true] at hp
    unfold applyAll at h
    cases ha : p.apply sys with
    | none => simp [ha] at h
    | some a =>
      cases hb : applyAll sys ps with
      | none => simp [ha, hb] at h
      | some b =>
        simp [ha, hb] at h; subst h
        intro o ho
        rcases List.mem_append.mp ho with ho | ho
        · exact apply_optOK hp.1 ha o ho
        · exact ih hp.2 hb o ho

/-- **api_total**, for a source that guards its nil sources and renders every kind: for every
    list of parser-approved interfaces, at every lifecycle point, with any failing read, the
    request yields a body or an error — never a panic. -/
theorem api_total_of (s : Src) (hg : s.guards = Guards.all) (hk : s.pack = PackKinds.all)
    (envs : List (Interface × IfEnv)) (hok : ∀ x ∈ envs, Spec.C17.ifaceOK x.1 = true) :
    api s envs ≠ .panic := by
  induction envs with
  | nil => simp [api]
  | cons x rest ih =>
    obtain ⟨ifi, e⟩ := x
    have hi : Spec.C17.ifaceOK ifi = true := hok (ifi, e) (by simp)
    simp only [Spec.C17.ifaceOK, Bool.and_eq_true] at hi
    obtain ⟨⟨hpref, _⟩, hpl⟩ := hi
    unfold api
    refine bind_ne_panic ?_ (fun _ => bind_ne_panic (ih (fun y hy => hok y (by simp [hy]))) (fun _ => by simp))
    unfold apiIface
    split
    · simp
    · cases e.forwarding with
      | none => simp
      | some fw =>
        simp only
        cases hr : routerAdvertisementR s.guards e.lifecycle.prepared ifi e.sys fw with
        | panic => exact absurd hr (routerAdvertisementR_ne_panic_of _ _ _ _ _ (Or.inr hg))
        | error => simp
        | ok r =>
          simp only [Result.bind_ok]
          have hra := routerAdvertisementR_ok hr
          rw [routerAdvertisement_eq] at hra
          cases hopts : applyAll (effSys e.lifecycle.prepared e.sys) ifi.plugins with
          | none => simp [hopts] at hra
          | some opts =>
            simp [hopts] at hra
            have h1 : r.1.options = opts := by rw [← hra]; exact (finishRA_mis ifi fw opts).2
            have h2 : r.1.preference = ifi.preference := by
              rw [← hra]; exact finishRA_preference ifi fw opts
            have hp' : prefValid r.1.preference = true := by rw [h2]; exact hpref
            have hopt : ∀ o ∈ r.1.options, optOK o = true := by rw [h1]; exact applyAll_optOK hpl hopts
            rw [hk, packRA_all r.1 hp' hopt]
            simp

/-- **api_total** on the source as it is (through `gen_unprepared_guarded`, `gen_pack_kinds`). -/
theorem api_total (envs : List (Interface × IfEnv)) (hok : ∀ x ∈ envs, Spec.C17.ifaceOK x.1 = true) :
    api Src.gen envs ≠ .panic :=
  api_total_of Src.gen gen_unprepared_guarded gen_pack_kinds envs hok

/-- what the API must report for one interface -/
def mirrorApiIface (ifi : Interface) (e : IfEnv) : Option JIface :=
  if !ifi.advertise then some { name := ifi.name, advertise := false, advertisement := none }
  else match e.forwarding with
    | none => none
    | some fw =>
      (routerAdvertisement ifi (effSys e.lifecycle.prepared e.sys) fw).map fun r =>
        { name := ifi.name, advertise := true, advertisement := some (Spec.C17.jsonOf r.1) }

def mirrorApi : List (Interface × IfEnv) → Option (List JIface)
  | [] => some []
  | (ifi, e) :: rest =>
    match mirrorApiIface ifi e, mirrorApi rest with
    | some a, some b => some (a :: b)
    | _, _ => none

/-- **api_mirrors**: when the request succeeds — for every source — the body lists every
    configured interface in order, with a null advertisement for those that do not advertise
    and, for the others, the JSON rendering (every option kind, lifetimes in whole seconds,
    timers in whole milliseconds) of the RA `Interface.RouterAdvertisement` returns at that
    moment with the forwarding state just read. -/
theorem api_mirrors {s : Src} {envs : List (Interface × IfEnv)} {js : List JIface}
    (h : api s envs = .ok js) : mirrorApi envs = some js := by
  induction envs generalizing js with
  | nil => simp [api] at h; simp [mirrorApi, h]
  | cons x rest ih =>
    obtain ⟨ifi, e⟩ := x
    unfold api at h
    obtain ⟨a, ha, h⟩ := bind_eq_ok h
    obtain ⟨b, hb, h⟩ := bind_eq_ok h
    simp at h
    have hia : mirrorApiIface ifi e = some a := by
      unfold apiIface at ha
      unfold mirrorApiIface
      split at ha
      · rename_i hadv; simp at ha; simp [hadv, ha]
      · rename_i hadv
        simp only [hadv, if_false]
        cases hf : e.forwarding with
        | none => simp [hf] at ha
        | some fw =>
          simp only [hf] at ha ⊢
          obtain ⟨r, hr, ha⟩ := bind_eq_ok ha
          obtain ⟨j, hj, ha⟩ := bind_eq_ok ha
          simp at ha
          rw [routerAdvertisementR_ok hr, ← ha, (packRA_ok hj).1]
          rfl
    simp [mirrorApi, hia, ih hb, h]

/-! ### gating -/

/-- **gating**, for a handler that registers the two optional routes under their flags:
    `/metrics` is served iff `debug.prometheus`, `/debug/pprof/…` iff `debug.pprof`; `/` and
    the interfaces API always; nothing else. -/
theorem gating_of (s : Src) (hm : s.metricsGated = true) (hp : s.pprofGated = true) (prometheus pprof : Bool) :
    (served s prometheus pprof .metrics = true ↔ prometheus = true) ∧
    (served s prometheus pprof .pprofIndex = true ↔ pprof = true) ∧
    (served s prometheus pprof .pprofCmdline = true ↔ pprof = true) ∧
    served s prometheus pprof .root = true ∧ served s prometheus pprof .interfaces = true ∧
    served s prometheus pprof .unknown = false := by
  simp [served, hm, hp]

/-- **gating** on the source as it is (through `gen_gated`). -/
theorem gating (prometheus pprof : Bool) :
    (served Src.gen prometheus pprof .metrics = true ↔ prometheus = true) ∧
    (served Src.gen prometheus pprof .pprofIndex = true ↔ pprof = true) ∧
    (served Src.gen prometheus pprof .pprofCmdline = true ↔ pprof = true) :=
  let h := gating_of Src.gen gen_gated.1 gen_gated.2 prometheus pprof
  ⟨h.1, h.2.1, h.2.2.1⟩

/-- the failure the gating facts exclude: an ungated route answers with the feature off -/
theorem ungated_served (s : Src) (pprof : Bool) (h : s.metricsGated = false) :
    served s false pprof .metrics = true := by
  simp [served, h]

/-! ### duplicate label sets (F-14) -/

theorem sameSeries_iff (a b : Sample) :
    sameSeries a b = true ↔ a.family = b.family ∧ a.labels = b.labels := by
  simp [sameSeries]

theorem hasDup_false_iff (ss : List Sample) :
    Observe.hasDup ss = false ↔ ss.Pairwise (fun a b => sameSeries a b = false) := by
  induction ss with
  | nil => simp [Observe.hasDup]
  | cons x xs ih =>
    simp only [Observe.hasDup, Bool.or_eq_false_iff, List.pairwise_cons, ih, List.any_eq_false]
    constructor
    · rintro ⟨h1, h2⟩; exact ⟨fun y hy => by simpa using h1 y hy, h2⟩
    · rintro ⟨h1, h2⟩; exact ⟨fun y hy => by simpa using h1 y hy, h2⟩

theorem not_pairwise_false_iff {R : α → α → Bool} (l : List α) :
    ¬ l.Pairwise (fun a b => R a b = false) ↔ ∃ a b, [a, b].Sublist l ∧ R a b = true := by
  rw [List.pairwise_iff_forall_sublist]
  constructor
  · intro h
    apply Classical.byContradiction
    intro hne
    apply h
    intro a b hab
    cases hr : R a b with
    | false => rfl
    | true => exact absurd ⟨a, b, hab, hr⟩ hne
  · rintro ⟨a, b, hab, hr⟩ h
    have := h hab
    rw [hr] at this
    exact absurd this (by simp)

theorem hasDup_iff (ss : List Sample) :
    Observe.hasDup ss = true ↔ ∃ a b, [a, b].Sublist ss ∧ sameSeries a b = true := by
  rw [← not_pairwise_false_iff, ← hasDup_false_iff]
  cases Observe.hasDup ss <;> simp

/-- **dup_labels_fail**: the gather fails iff two samples (at different positions) belong to one
    family and carry equal label values; it never panics, and otherwise returns every sample. -/
theorem dup_labels_fail (ss : List Sample) :
    gather ss = .error ↔ ∃ a b, [a, b].Sublist ss ∧ a.family = b.family ∧ a.labels = b.labels := by
  have h := hasDup_iff ss
  simp only [sameSeries_iff] at h
  rw [← h]
  unfold gather
  cases Observe.hasDup ss <;> simp

theorem gather_ok_iff (ss out : List Sample) :
    gather ss = .ok out ↔ out = ss ∧ ss.Pairwise (fun a b => ¬ (a.family = b.family ∧ a.labels = b.labels)) := by
  have h := hasDup_false_iff ss
  unfold gather
  cases hd : Observe.hasDup ss with
  | true =>
    simp only [if_true]
    constructor
    · intro h'; cases h'
    · rintro ⟨_, hp⟩
      rw [hd] at h
      have : ss.Pairwise (fun a b => sameSeries a b = false) :=
        hp.imp (fun {a b} hab => by
          cases hs : sameSeries a b with
          | false => rfl
          | true => exact absurd ((sameSeries_iff a b).mp hs) hab)
      exact absurd (h.mpr this) (by simp)
  | false =>
    rw [hd] at h
    have hp := h.mp rfl
    simp only [Bool.false_eq_true, if_false]
    constructor
    · intro h'; cases h'
      exact ⟨rfl, hp.imp (fun {a b} hab hc => by
        have := (sameSeries_iff a b).mpr hc; rw [hab] at this; exact absurd this (by simp))⟩
    · rintro ⟨rfl, _⟩; rfl

/-- two options whose samples collide: the same kind with the same label — equal CIDR for two
    prefixes or two routes, equal server lists, equal domain lists -/
def optClash : Opt → Opt → Bool
  | .pi a l _ _ _ _, .pi a' l' _ _ _ _ => a == a' && l == l'
  | .ri a l _ _, .ri a' l' _ _ => a == a' && l == l'
  | .rdnss _ s, .rdnss _ s' => s == s'
  | .dnssl _ n, .dnssl _ n' => n == n'
  | _, _ => false

theorem optSamples_self (ck : CollectKinds) (name : Nat) (o : Opt) : Observe.hasDup (optSamples ck name o) = false := by
  cases o <;> simp only [optSamples] <;> (try split) <;> simp [Observe.hasDup, sameSeries]

theorem optSamples_cross (name : Nat) (o1 o2 : Opt) :
    (∀ x ∈ optSamples CollectKinds.all name o1, ∀ y ∈ optSamples CollectKinds.all name o2, sameSeries x y = false) ↔
      optClash o1 o2 = false := by
  cases o1 <;> cases o2 <;> simp [optSamples, CollectKinds.all, sameSeries, optClash]

/-- samples rendered from a list of options collide iff two of the options clash -/
theorem options_dup_false_iff (name : Nat) (opts : List Opt) :
    Observe.hasDup (opts.flatMap (optSamples CollectKinds.all name)) = false ↔
      opts.Pairwise (fun a b => optClash a b = false) := by
  rw [hasDup_false_iff, List.pairwise_flatMap]
  constructor
  · rintro ⟨_, h⟩
    exact h.imp (fun {a b} hab => (optSamples_cross name a b).mp hab)
  · intro h
    refine ⟨fun o _ => (hasDup_false_iff _).mp (optSamples_self _ name o), ?_⟩
    exact h.imp (fun {a b} hab => (optSamples_cross name a b).mpr hab)

theorem options_dup_iff (name : Nat) (opts : List Opt) :
    Observe.hasDup (opts.flatMap (optSamples CollectKinds.all name)) = true ↔
      ∃ o1 o2, [o1, o2].Sublist opts ∧ optClash o1 o2 = true := by
  rw [← not_pairwise_false_iff, ← options_dup_false_iff]
  cases Observe.hasDup _ <;> simp

theorem sameSeries_false_of_family {a b : Sample} (h : a.family.id ≠ b.family.id) : sameSeries a b = false := by
  cases hs : sameSeries a b with
  | false => rfl
  | true => exact absurd (congrArg Family.id ((sameSeries_iff a b).mp hs).1) h

/-- **F-14's class, on one interface**: the samples of an interface collide iff its RA carries
    two options of the same kind with the same label (the gauges never collide). -/
theorem collect_dup_iff (ifi : Interface) (auto fw : Bool) (r : RA × Bool) :
    Observe.hasDup (collectMetrics CollectKinds.all ifi auto fw (some r)) = true ↔
      ∃ o1 o2, [o1, o2].Sublist r.1.options ∧ optClash o1 o2 = true := by
  obtain ⟨ra, mis⟩ := r
  rw [← options_dup_iff ifi.name]
  have key : Observe.hasDup (collectMetrics CollectKinds.all ifi auto fw (some (ra, mis))) = false ↔
      Observe.hasDup (ra.options.flatMap (optSamples CollectKinds.all ifi.name)) = false := by
    rw [hasDup_false_iff, hasDup_false_iff]
    simp only [collectMetrics, List.pairwise_append]
    constructor
    · rintro ⟨_, ⟨_, h, _⟩, _⟩; exact h
    · intro h
      have hopt : ∀ y ∈ ra.options.flatMap (optSamples CollectKinds.all ifi.name), 5 ≤ y.family.id := by
        intro y hy
        obtain ⟨o, _, hyo⟩ := List.mem_flatMap.mp hy
        exact (optSamples_family hyo).1
      refine ⟨by simp [gauges, sameSeries], ⟨?_, h, ?_⟩, ?_⟩
      · split <;> simp
      · intro a ha b hb
        split at ha
        · simp at ha; subst ha
          have h4 : Family.id .misconfiguration = 4 := rfl
          exact sameSeries_false_of_family (by
            have := hopt b hb
            show Family.id .misconfiguration ≠ b.family.id
            omega)
        · simp at ha
      · intro a ha b hb
        have hal : a.family.id ≤ 3 := by
          simp [gauges] at ha
          rcases ha with h | h | h | h <;> subst h <;> simp [Family.id]
        rcases List.mem_append.mp hb with hb | hb
        · split at hb
          · simp at hb; subst hb
            have h4 : Family.id .misconfiguration = 4 := rfl
            exact sameSeries_false_of_family (by
              show a.family.id ≠ Family.id .misconfiguration
              omega)
          · simp at hb
        · exact sameSeries_false_of_family (by have := hopt b hb; omega)
  cases h1 : Observe.hasDup (collectMetrics CollectKinds.all ifi auto fw (some (ra, mis))) <;>
    cases h2 : Observe.hasDup (ra.options.flatMap (optSamples CollectKinds.all ifi.name)) <;> simp_all

/-- an interface that does not advertise never contributes a collision -/
theorem collect_none_nodup (ck : CollectKinds) (ifi : Interface) (auto fw : Bool) :
    Observe.hasDup (collectMetrics ck ifi auto fw none) = false := by
  simp [collectMetrics, gauges, Observe.hasDup, sameSeries]

/-- every sample of an interface is labelled with that interface -/
theorem collect_ifaceOf {ck : CollectKinds} {ifi : Interface} {auto fw : Bool} {r : Option (RA × Bool)}
    {x : Sample} (hx : x ∈ collectMetrics ck ifi auto fw r) : x.labels.ifaceOf = ifi.name := by
  simp only [collectMetrics, List.mem_append] at hx
  rcases hx with hx | hx
  · simp [gauges] at hx
    rcases hx with h | h | h | h <;> subst h <;> rfl
  · cases r with
    | none => simp at hx
    | some r =>
      obtain ⟨ra, mis⟩ := r
      simp only [List.mem_append] at hx
      rcases hx with hx | hx
      · split at hx
        · simp at hx; subst hx; rfl
        · simp at hx
      · obtain ⟨o, _, hxo⟩ := List.mem_flatMap.mp hx
        exact (optSamples_family hxo).2

theorem mirrorIface_ifaceOf {ck : CollectKinds} {ifi : Interface} {e : IfEnv} {part : List Sample}
    (h : mirrorIface ck ifi e = some part) : ∀ x ∈ part, x.labels.ifaceOf = ifi.name := by
  unfold mirrorIface at h
  split at h
  · split at h
    · simp only [Option.map_eq_some_iff] at h
      obtain ⟨r, _, rfl⟩ := h
      exact fun x hx => collect_ifaceOf hx
    · simp at h; subst h
      exact fun x hx => collect_ifaceOf hx
  · simp at h

theorem mirrorAll_ifaceOf {ck : CollectKinds} {envs : List (Interface × IfEnv)} {ss : List Sample}
    (h : mirrorAll ck envs = some ss) : ∀ x ∈ ss, x.labels.ifaceOf ∈ envs.map (·.1.name) := by
  induction envs generalizing ss with
  | nil => simp [mirrorAll] at h; subst h; simp
  | cons y rest ih =>
    obtain ⟨ifi, e⟩ := y
    unfold mirrorAll at h
    cases hi : mirrorIface ck ifi e with
    | none => simp [hi] at h
    | some a =>
      cases hr : mirrorAll ck rest with
      | none => simp [hi, hr] at h
      | some b =>
        simp [hi, hr] at h; subst h
        intro x hx
        rcases List.mem_append.mp hx with hx | hx
        · simp [mirrorIface_ifaceOf hi x hx]
        · have := ih hr x hx
          simp only [List.map_cons, List.mem_cons]; exact Or.inr this

/-- **F-14's class, on a scrape**: interface names being distinct (the parser's uniqueness
    rule), the samples of a whole scrape collide iff those of some single interface do. -/
theorem scrape_dup_iff (ck : CollectKinds) (envs : List (Interface × IfEnv)) (ss : List Sample)
    (hn : (envs.map (·.1.name)).Nodup) (hm : mirrorAll ck envs = some ss) :
    Observe.hasDup ss = true ↔
      ∃ x ∈ envs, ∃ part, mirrorIface ck x.1 x.2 = some part ∧ Observe.hasDup part = true := by
  induction envs generalizing ss with
  | nil => simp [mirrorAll] at hm; subst hm; simp [Observe.hasDup]
  | cons y rest ih =>
    obtain ⟨ifi, e⟩ := y
    unfold mirrorAll at hm
    cases hi : mirrorIface ck ifi e with
    | none => simp [hi] at hm
    | some a =>
      cases hr : mirrorAll ck rest with
      | none => simp [hi, hr] at hm
      | some b =>
        simp [hi, hr] at hm; subst hm
        simp only [List.map_cons, List.nodup_cons] at hn
        have ihb := ih b hn.2 hr
        have hcross : ∀ x ∈ a, ∀ z ∈ b, sameSeries x z = false := by
          intro x hx z hz
          cases hs : sameSeries x z with
          | false => rfl
          | true =>
            have hl := ((sameSeries_iff x z).mp hs).2
            have h1 := mirrorIface_ifaceOf hi x hx
            have h2 := mirrorAll_ifaceOf hr z hz
            rw [← hl, h1] at h2
            exact absurd h2 hn.1
        have hsplit : Observe.hasDup (a ++ b) = false ↔ Observe.hasDup a = false ∧ Observe.hasDup b = false := by
          rw [hasDup_false_iff, hasDup_false_iff, hasDup_false_iff, List.pairwise_append]
          exact ⟨fun h => ⟨h.1, h.2.1⟩, fun h => ⟨h.1, h.2, hcross⟩⟩
        constructor
        · intro hd
          cases hda : Observe.hasDup a with
          | true => exact ⟨(ifi, e), by simp, a, hi, hda⟩
          | false =>
            cases hdb : Observe.hasDup b with
            | true =>
              obtain ⟨x, hx, part, hp, hdp⟩ := ihb.mp hdb
              exact ⟨x, by simp [hx], part, hp, hdp⟩
            | false => rw [hsplit.mpr ⟨hda, hdb⟩] at hd; exact absurd hd (by simp)
        · rintro ⟨x, hx, part, hp, hdp⟩
          cases hd : Observe.hasDup (a ++ b) with
          | true => rfl
          | false =>
            obtain ⟨hda, hdb⟩ := hsplit.mp hd
            rcases List.mem_cons.mp hx with hx | hx
            · subst hx; rw [hi] at hp; cases hp; rw [hda] at hdp; exact absurd hdp (by simp)
            · have := ihb.mpr ⟨x, hx, part, hp, hdp⟩
              rw [hdb] at this; exact absurd this (by simp)

/-! ### the oracle's declarative RA is the model's -/

theorem lifetimeAt_eq (epoch L now : Int) : lifetimeAt epoch L now = max 0 (epoch + L - now) := by
  unfold lifetimeAt
  simp only [Int.max_def]
  split <;> split <;> omega

/-- the per-stanza description of the oracle (C13/C14/C15 expansions, C16 lifetimes) is what
    `Apply` computes -/
theorem optionsOf_eq_apply (sys : SysState) (p : Plugin) : Spec.C17.optionsOf sys p = p.apply sys := by
  cases p with
  | pfx auto q ol au v pr dep =>
    simp only [Spec.C17.optionsOf, Plugin.apply, prefixLifetimes, Spec.C17.lifetimeNow, lifetimeAt_eq]
    cases dep <;> cases auto <;> simp <;> cases sys.addrs <;> simp
  | route auto q pref lt dep =>
    simp only [Spec.C17.optionsOf, Plugin.apply, routeLifetime, Spec.C17.lifetimeNow, lifetimeAt_eq]
    cases dep <;> cases auto <;> simp <;> cases sys.routes <;> simp
  | rdnss auto lt servers =>
    simp only [Spec.C17.optionsOf, Plugin.apply, applyRDNSS]
    cases auto <;> simp
    cases sys.addrs with
    | none => simp
    | some as => simp; cases currentRDNSS as <;> simp
  | lla => simp only [Spec.C17.optionsOf, Plugin.apply]; cases sys.mac <;> rfl
  | dnssl _ _ => rfl
  | mtu _ => rfl
  | captivePortal _ _ => rfl
  | pref64 _ _ => rfl

theorem expectedOptions_eq (ifi : Interface) (sys : SysState) :
    Spec.C17.expectedOptions ifi sys = applyAll sys ifi.plugins := by
  unfold Spec.C17.expectedOptions
  induction ifi.plugins with
  | nil => rfl
  | cons p ps ih =>
    simp only [List.map_cons, applyAll, ← optionsOf_eq_apply]
    cases Spec.C17.optionsOf sys p with
    | none => rfl
    | some a =>
      simp only [Spec.C17.concatOpts, ih]
      cases applyAll sys ps <;> rfl

/-- for a parser-approved interface the oracle's expected RA and misconfiguration condition are
    those of `Interface.RouterAdvertisement` -/
theorem expectedRA_eq (ifi : Interface) (sys : SysState) (fw : Bool) (h : 0 ≤ ifi.defaultLifetime) :
    routerAdvertisement ifi sys fw =
      (Spec.C17.expectedRA ifi sys fw).map fun ra => (ra, Spec.C17.misconfigured ifi fw) := by
  rw [routerAdvertisement_eq]
  unfold Spec.C17.expectedRA
  rw [expectedOptions_eq]
  cases applyAll sys ifi.plugins with
  | none => rfl
  | some opts =>
    simp only [Option.map_some, Option.some.injEq]
    unfold finishRA Spec.C17.misconfigured
    cases fw with
    | true => simp
    | false =>
      by_cases hz : ifi.defaultLifetime = 0
      · simp [hz]
      · have : ifi.defaultLifetime > 0 := by omega
        simp [this]

/-- with all four kinds collected, `collectMetrics` on that RA is the oracle's sample list -/
theorem collect_eq_spec (ifi : Interface) (auto fw : Bool) (ra : RA) :
    collectMetrics CollectKinds.all ifi auto fw (some (ra, Spec.C17.misconfigured ifi fw)) =
      Spec.C17.ifaceSamples ifi auto fw (some ra) := by
  simp only [collectMetrics, gauges, Spec.C17.ifaceSamples]
  have : optSamples CollectKinds.all ifi.name = Spec.C17.optSeries ifi.name :=
    funext (optSamples_all ifi.name)
  rw [this]

/-! ### every accepted configuration is covered: what the parser guarantees -/

theorem parsePreference_ok {c p : Nat} (h : parsePreference c = some p) : Spec.C17.prefOK p = true := by
  unfold parsePreference at h
  split at h <;> simp at h <;> subst h <;> decide

theorem mapOpt_all {f : α → Option β} {P : β → Bool} (hf : ∀ a b, f a = some b → P b = true) :
    ∀ {l : List α} {r : List β}, mapM' f l = some r → r.all P = true := by
  intro l
  induction l with
  | nil => intro r h; simp [mapM'] at h; subst h; rfl
  | cons a l ih =>
    intro r h
    unfold mapM' at h
    cases ha : f a with
    | none => simp [ha] at h
    | some b =>
      cases hl : mapM' f l with
      | none => simp [ha, hl] at h
      | some bs =>
        simp [ha, hl] at h; subst h
        simp [hf a b ha, ih hl]

theorem parseRoute_ok {r : RawRoute} {p : Plugin} (h : parseRoute r = some p) : Spec.C17.pluginOK p = true := by
  simp [parseRoute, bind, Option.bind_eq_some_iff, pure] at h
  obtain ⟨_, _, _, pref, hpref, _, _, _, _, _, rfl⟩ := h
  exact parsePreference_ok hpref

theorem parsePrefix_ok {r : RawPrefix} {p : Plugin} (h : parsePrefix r = some p) : Spec.C17.pluginOK p = true := by
  simp [parsePrefix, bind, Option.bind_eq_some_iff, pure] at h
  obtain ⟨_, _, _, _, _, _, _, _, _, _, _, _, _, rfl⟩ := h
  rfl

theorem parseRDNSS_ok {r : RawRDNSS} {m : Dur} {p : Plugin} (h : parseRDNSS r m = some p) : Spec.C17.pluginOK p = true := by
  simp [parseRDNSS, bind, Option.bind_eq_some_iff, pure] at h
  obtain ⟨_, _, _, h⟩ := h
  split at h
  · simp at h; subst h; rfl
  · simp [Option.bind_eq_some_iff] at h
    rcases h with ⟨_, _, rfl⟩ | ⟨_, _, rfl⟩ <;> rfl

theorem parseDNSSL_ok {r : RawDNSSL} {m : Dur} {p : Plugin} (h : parseDNSSL r m = some p) : Spec.C17.pluginOK p = true := by
  simp [parseDNSSL, bind, Option.bind_eq_some_iff, pure] at h
  obtain ⟨_, _, _, _, _, rfl⟩ := h
  rfl

theorem parsePref64_ok {r : RawPref64} {m : Dur} {p : Plugin} (h : parsePref64 r m = some p) : Spec.C17.pluginOK p = true := by
  unfold parsePref64 at h
  simp only at h
  split at h
  · simp at h
  · split at h
    · simp at h; subst h; rfl
    · simp at h

theorem parsePlugins_ok {raw : RawInterface} {maxI : Dur} {ps : List Plugin}
    (h : parsePlugins raw maxI = some ps) : ps.all Spec.C17.pluginOK = true := by
  simp [parsePlugins, bind, Option.bind_eq_some_iff, pure] at h
  obtain ⟨a, ha, _, a1, ha1, _, a2, ha2, a3, ha3, _, a4, ha4, a5, ha5, rfl⟩ := h
  have h4 : a4.all Spec.C17.pluginOK = true := by
    split at ha4
    · simp at ha4; subst ha4; rfl
    · simp at ha4
    · split at ha4
      · simp at ha4
      · simp at ha4; subst ha4; rfl
  simp only [List.all_append, Bool.and_eq_true]
  refine ⟨mapOpt_all (fun _ _ => parsePrefix_ok) ha, mapOpt_all (fun _ _ => parseRoute_ok) ha1,
    mapOpt_all (fun _ _ => parseRDNSS_ok) ha2, mapOpt_all (fun _ _ => parseDNSSL_ok) ha3, ?_, ?_, h4,
    mapOpt_all (fun _ _ => parsePref64_ok) ha5⟩
  · split <;> rfl
  · split <;> rfl

theorem parseDefaultLifetime_nonneg {s : DurStr} {max lt : Dur} (hmax : 0 ≤ max)
    (h : parseDefaultLifetime s max = some lt) : 0 ≤ lt := by
  simp [parseDefaultLifetime, bind, Option.bind_eq_some_iff, pure] at h
  obtain ⟨_, hx⟩ := h
  by_cases h0 : lt = 0
  · omega
  · have := hx h0; omega

/-- every interface the parser returns is `ifaceOK` -/
theorem parseInterface_ok {n : Nat} {raw : RawInterface} {ifi : Interface}
    (h : parseInterface n raw = some ifi) : Spec.C17.ifaceOK ifi = true := by
  simp [parseInterface, bind, pure] at h
  obtain ⟨_, h⟩ := h
  split at h
  · simp at h; subst h; simp [Spec.C17.ifaceOK, Spec.C17.prefOK, prefMedium]
  · simp [Option.bind_eq_some_iff] at h
    obtain ⟨maxI, _, hmax, _, _, _, _, _, _, _, _, _, lt, hlt, pref, hpref, ps, hps, rfl⟩ := h
    have hlo : (0 : Int) ≤ Gen.Config.maxIntervalLo := by decide
    have h0 : 0 ≤ lt := parseDefaultLifetime_nonneg (by omega) hlt
    simp [Spec.C17.ifaceOK, parsePreference_ok hpref, h0, parsePlugins_ok hps]

theorem parseInterfaces_ok {raw : RawInterface} {ifis : List Interface}
    (h : parseInterfaces raw = some ifis) : ifis.all Spec.C17.ifaceOK = true := by
  unfold parseInterfaces at h
  simp only at h
  split at h
  · simp at h
  · split at h
    · exact mapOpt_all (fun _ _ => parseInterface_ok) h
    · split at h
      · exact mapOpt_all (fun _ _ => parseInterface_ok) h
      · simp at h

theorem parseAll_ok {raws : List RawInterface} {seen : List Nat} {ifis : List Interface}
    (h : parseAll raws seen = some ifis) : ifis.all Spec.C17.ifaceOK = true := by
  induction raws generalizing seen ifis with
  | nil => simp [parseAll] at h; subst h; rfl
  | cons r rs ih =>
    simp [parseAll, bind, Option.bind_eq_some_iff, pure] at h
    obtain ⟨a, ha, _, b, hb, rfl⟩ := h
    simp [List.all_append, parseInterfaces_ok ha, ih hb]

/-- every interface of an accepted configuration satisfies what the renderers rely on -/
theorem accepted_ifaceOK {c : RawConfig} {cfg : Config} (h : parseConfig c = some cfg) :
    ∀ i ∈ cfg.interfaces, Spec.C17.ifaceOK i = true := by
  simp [parseConfig, bind, Option.bind_eq_some_iff, pure] at h
  obtain ⟨_, _, ifis, hifis, h⟩ := h
  have hall := parseAll_ok hifis
  have : cfg.interfaces = ifis := by split at h <;> (simp at h; subst h; rfl)
  rw [this]
  exact fun i hi => List.all_eq_true.mp hall i hi

/-- **api_total / scrape_total for accepted configurations**: for every raw configuration the
    validator accepts and every assignment of lifecycle point, system state and sysctl read
    results to its interfaces, neither observation path panics. -/
theorem accepted_total {c : RawConfig} {cfg : Config} (h : parseConfig c = some cfg) (es : List IfEnv) :
    scrape Src.gen (cfg.interfaces.zip es) ≠ .panic ∧ api Src.gen (cfg.interfaces.zip es) ≠ .panic := by
  refine ⟨scrape_total _, api_total _ (fun x hx => ?_)⟩
  exact accepted_ifaceOK h x.1 (List.of_mem_zip hx).1

/-! ### the model, on the sound source, meets the oracle the check evaluates -/

theorem nilCall_all_of_needs {p : Plugin} (h : Spec.C17.needsSource p = true) :
    nilCall Guards.all p = .error := by
  cases p with
  | pfx auto _ _ _ _ _ dep => cases auto <;> cases dep <;> simp_all [nilCall, nilOutcome, Guards.all, Spec.C17.needsSource]
  | route auto _ _ _ dep => cases auto <;> cases dep <;> simp_all [nilCall, nilOutcome, Guards.all, Spec.C17.needsSource]
  | rdnss auto _ _ => cases auto <;> simp_all [nilCall, nilOutcome, Guards.all, Spec.C17.needsSource]
  | _ => simp [Spec.C17.needsSource] at h

theorem nilCall_all_of_not_needs {p : Plugin} (h : Spec.C17.needsSource p = false) :
    nilCall Guards.all p = .ok () := by
  cases p with
  | pfx auto _ _ _ _ _ dep => cases auto <;> cases dep <;> simp_all [nilCall, nilOutcome, Guards.all, Spec.C17.needsSource]
  | route auto _ _ _ dep => cases auto <;> cases dep <;> simp_all [nilCall, nilOutcome, Guards.all, Spec.C17.needsSource]
  | rdnss auto _ _ => cases auto <;> simp_all [nilCall, nilOutcome, Guards.all, Spec.C17.needsSource]
  | _ => rfl

/-- never prepared, every source guarded: an error as soon as some stanza needs its source;
    otherwise the static RA on the state without hardware address -/
theorem applyAllR_unprepared (sys : SysState) (ps : List Plugin) :
    applyAllR Guards.all false sys ps =
      if ps.any Spec.C17.needsSource then .error else Result.ofOption (applyAll (unpreparedSys sys) ps) := by
  induction ps with
  | nil => rfl
  | cons p ps ih =>
    unfold applyAllR applyAll
    rw [ih]
    cases hn : Spec.C17.needsSource p with
    | true => simp [applyPlugin, nilCall_all_of_needs hn, hn]
    | false =>
      simp only [applyPlugin, nilCall_all_of_not_needs hn, List.any_cons, hn, Bool.false_or,
        Bool.false_eq_true, if_false]
      cases p.apply (unpreparedSys sys) with
      | none => simp [Result.ofOption]
      | some os =>
        simp only [Result.ofOption, Result.bind_ok]
        split
        · rfl
        · cases applyAll (unpreparedSys sys) ps <;> rfl

/-- one interface: what the model reports is what the oracle wants -/
theorem scrapeIface_meets (ifi : Interface) (e : IfEnv) (hok : 0 ≤ ifi.defaultLifetime) :
    match scrapeIface Src.sound ifi e with
    | .ok a => Spec.C17.wantIfaceSamples ifi e = .mustOk a ∨ Spec.C17.wantIfaceSamples ifi e = .okOrErr a
    | .error => Spec.C17.wantIfaceSamples ifi e = .mustErr
    | .panic => False := by
  unfold scrapeIface Spec.C17.wantIfaceSamples
  cases e.autoconf with
  | none => simp
  | some auto =>
    cases e.forwarding with
    | none => simp
    | some fw =>
      simp only
      by_cases hadv : ifi.advertise = true
      · simp only [hadv, if_true]
        unfold Spec.C17.wantRA
        cases hp : e.lifecycle.prepared with
        | true =>
          simp only [Src.sound, routerAdvertisementR_prepared, expectedRA_eq ifi e.sys fw hok, if_true]
          cases Spec.C17.expectedRA ifi e.sys fw with
          | none => simp [Result.ofOption, Spec.C17.Want.map]
          | some ra => simp [Result.ofOption, Spec.C17.Want.map, collect_eq_spec]
        | false =>
          simp only [Src.sound, routerAdvertisementR, applyAllR_unprepared, Bool.false_eq_true, if_false]
          cases hany : ifi.plugins.any Spec.C17.needsSource with
          | true => simp [Spec.C17.Want.map]
          | false =>
            simp only [Bool.false_eq_true, if_false]
            have h := expectedRA_eq ifi (unpreparedSys e.sys) fw hok
            rw [routerAdvertisement_eq] at h
            cases ho : applyAll (unpreparedSys e.sys) ifi.plugins with
            | none =>
              rw [ho] at h
              cases hx : Spec.C17.expectedRA ifi (unpreparedSys e.sys) fw with
              | none => simp [Result.ofOption, Spec.C17.Want.map]
              | some ra => rw [hx] at h; simp at h
            | some opts =>
              rw [ho] at h
              cases hx : Spec.C17.expectedRA ifi (unpreparedSys e.sys) fw with
              | none => rw [hx] at h; simp at h
              | some ra =>
                rw [hx] at h; simp at h
                simp [Result.ofOption, Spec.C17.Want.map, h, collect_eq_spec]
      · simp only [hadv]
        simp [collectMetrics, gauges, Spec.C17.ifaceSamples, Src.sound]

theorem collectAll_meets (envs : List (Interface × IfEnv)) (hok : ∀ x ∈ envs, 0 ≤ x.1.defaultLifetime) :
    match collectAll Src.sound envs with
    | .ok a => Spec.C17.wantSamples envs = .mustOk a ∨ Spec.C17.wantSamples envs = .okOrErr a
    | .error => Spec.C17.wantSamples envs = .mustErr ∨ ∃ a, Spec.C17.wantSamples envs = .okOrErr a
    | .panic => False := by
  induction envs with
  | nil => simp [collectAll, Spec.C17.wantSamples]
  | cons x rest ih =>
    obtain ⟨ifi, e⟩ := x
    have h1 := scrapeIface_meets ifi e (hok (ifi, e) (by simp))
    have h2 := ih (fun y hy => hok y (by simp [hy]))
    unfold collectAll Spec.C17.wantSamples
    cases hs : scrapeIface Src.sound ifi e with
    | panic => rw [hs] at h1; exact h1
    | error =>
      rw [hs] at h1; simp only at h1
      simp [h1, Spec.C17.Want.seq]
    | ok a =>
      rw [hs] at h1; simp only at h1
      cases hc : collectAll Src.sound rest with
      | panic => rw [hc] at h2; exact h2
      | error =>
        rw [hc] at h2; simp only at h2
        simp only [Result.bind_ok, Result.bind_error]
        rcases h1 with h1 | h1 <;> rcases h2 with h2 | ⟨b, h2⟩ <;> simp [h1, h2, Spec.C17.Want.seq]
      | ok b =>
        rw [hc] at h2; simp only at h2
        simp only [Result.bind_ok]
        rcases h1 with h1 | h1 <;> rcases h2 with h2 | h2 <;> simp [h1, h2, Spec.C17.Want.seq]

/-- **The model on the sound source satisfies the oracle**, except for F-14's class: for every
    list of interfaces (configured lifetimes not negative), lifecycle points, system states
    and read failures, the oracle `Spec.C17.holdsScrape` accepts what the model reports — or
    the model reports an error whose only cause is a duplicate label set, which the oracle
    rejects with the class tag. -/
theorem model_meets_oracle (envs : List (Interface × IfEnv)) (hok : ∀ x ∈ envs, 0 ≤ x.1.defaultLifetime) :
    match scrape Src.sound envs with
    | .ok ss => (Spec.C17.holdsScrape envs "ok" ss).1 = true
    | .error => (Spec.C17.holdsScrape envs "err" []).1 = true ∨
        ∃ ss, Spec.C17.wantSamples envs = .mustOk ss ∧ Spec.C17.dupClass ss = true
    | .panic => False := by
  have h := collectAll_meets envs hok
  unfold scrape
  cases hc : collectAll Src.sound envs with
  | panic => rw [hc] at h; exact h
  | error =>
    rw [hc] at h; simp only at h
    simp only [Result.bind_error]
    left
    rcases h with h | ⟨a, h⟩ <;> simp [Spec.C17.holdsScrape, h]
  | ok a =>
    rw [hc] at h; simp only at h
    simp only [Result.bind_ok, gather]
    cases hd : Observe.hasDup a with
    | true =>
      simp only [if_true]
      rcases h with h | h
      · right; exact ⟨a, h, hd⟩
      · left; simp [Spec.C17.holdsScrape, h]
    | false =>
      simp only [Bool.false_eq_true, if_false]
      rcases h with h | h <;> simp [Spec.C17.holdsScrape, h]

/-! ### the four configuration classes of F-14 (all accepted by the parser) -/

/-- two DNSSL stanzas with the same names -/
example : optClash (.dnssl (30 * minute) [1, 2]) (.dnssl hour [1, 2]) = true := by decide
/-- two RDNSS stanzas with the same servers -/
example : optClash (.rdnss (30 * minute) [{ val := 83 }]) (.rdnss hour [{ val := 83 }]) = true := by decide
/-- `::/64` expanding onto a static prefix -/
example : optClash (.pi { val := 2^64 } 64 true true hour hour) (.pi { val := 2^64 } 64 true false hour hour) = true := by
  decide
/-- two `::/0` stanzas expanding onto the same loopback route -/
example : optClash (.ri { val := 2^80 } 48 prefMedium hour) (.ri { val := 2^80 } 48 prefHigh hour) = true := by
  decide

/-- a whole scrape of such a configuration fails although the interface is up, readable and
    its RA can be generated — and it fails on *every* scrape (the model is a function) -/
example :
    scrape Src.sound [({ name := 1, advertise := true, defaultLifetime := 1800 * second,
                         plugins := [.dnssl hour [1, 2], .dnssl (2 * hour) [1, 2]] }, {})] = .error := by
  decide

/-! ### non-vacuity -/

/-- the minimal configuration, never initialised, on the sound source: an error, not a panic -/
example : scrape Src.sound [(minimalIface, { lifecycle := .never })] = .error := by decide

/-- a static configuration, never initialised: a result (without the link-layer address) -/
example :
    api Src.sound [({ name := 1, advertise := true, hopLimit := 64, defaultLifetime := 1800 * second,
                      plugins := [.mtu 1500, .lla, .pref64 { addr := { val := 2^96 }, bits := 96 } (1800 * second)] },
                    { lifecycle := .never, sys := { mac := some (6, 1) } })] =
      .ok [{ name := 1, advertise := true,
             advertisement := some { hopLimit := 64, managed := false, other := false, preference := 0,
                                     routerLifetimeSeconds := 1800, reachableMs := 0, retransmitMs := 0,
                                     options := { mtu := 1500, pref64 := [({ addr := { val := 2^96 }, bits := 96 }, 1800)] } } }] := by
  decide

/-- initialised, not forwarding: the misconfiguration gauge, router lifetime 0 in the API -/
example :
    (scrape Src.sound [({ name := 1, advertise := true, defaultLifetime := 1800 * second, plugins := [] },
                        { forwarding := some false })]) =
      .ok [⟨.advertising, .iface 1, second⟩, ⟨.monitoring, .iface 1, 0⟩, ⟨.autoconfiguration, .iface 1, 0⟩,
           ⟨.forwarding, .iface 1, 0⟩, ⟨.misconfiguration, .details 1, second⟩] := by
  decide

/-- `ifaceOK` is satisfiable by an interface with a route (hypothesis of `api_total`) -/
example : Spec.C17.ifaceOK { minimalIface with plugins := [.route false { addr := { val := 2^80 }, bits := 48 } prefHigh hour false] } = true := by
  decide

end Corerad.Props.C17
