/-
  C10, dialer part (model 1 of 3) — recovery policy of `Dialer.Dial` / `Dialer.init`:
  classification of the cause, exact back-off, at most 50 dial attempts per
  re-initialisation, prompt clean return on cancellation.

  Every trace theorem quantifies over every configuration (mode, initial autoconf value,
  cancellation instant), both ways `dial()` may treat its error path, and every script — any
  number of `DialFunc` calls with any outcome in {ok, link-not-ready, syscall, permission,
  other}, any State fault, any task outcome in {nil, link change, syscall, permission, retries
  exhausted, other, cancelled (nil), cancelled (context.Canceled)} — and is proved by induction
  on the script (`Lemmas.Dialer.goRun_induct` with the invariant `Inv10` of the policy
  automaton at the loop heads of `Dial`/`init`).  The model is Model/Dialer.lean; the automaton
  the check evaluates on the implementation's observed trace is Spec/C10Dialer.lean.

  Models 2 (`receiveRetry`) and 3 (teardown LTS of `advertise()`/`monitor()`) of C10 live in
  other files.

  Residue (not a theorem): a cancellation at the very instant a wait ends, or before a
  zero-length wait (the first re-dial of a re-initialisation): Go's `select` then chooses among
  the ready cases at random; at most one more `DialFunc` call results.
-/
import Corerad.Spec.C10Dialer
import Corerad.Lemmas.Dialer

namespace Corerad.Props.C10Dialer

open Corerad Corerad.Model.Dialer Corerad.Spec.C10Dialer

/-! ### regenerated facts: the literals of the statements are the source's -/

/-- `const attempts = 50`, `delay = time.Duration(i+1) * 250 * time.Millisecond`,
    `maxDelay = 3 * time.Second` in `init` -/
theorem gen_constants :
    Gen.Dialer.attempts = 50 ∧ Gen.Dialer.step = 250 * ms ∧ Gen.Dialer.maxDelay = 3 * second := by
  decide

/-- the duration `init` passes to `time.After` before the `i`-th re-dial is the documented
    `min (i · 250 ms) 3 s`, for every `i` -/
theorem delay_closed_form (i : Nat) : delay i = min ((i : Int) * (250 * ms)) (3 * second) := by
  rw [delay_eq]; rfl

/-- …that is 0, 250 ms, 500 ms, … 2.75 s, then 3 s for ever -/
theorem delay_table :
    (List.range 15).map delay =
      [0, 250000000, 500000000, 750000000, 1000000000, 1250000000, 1500000000, 1750000000,
       2000000000, 2250000000, 2500000000, 2750000000, 3000000000, 3000000000, 3000000000] ∧
    ∀ i, 12 ≤ i → delay i = 3 * second := by
  refine ⟨by decide, ?_⟩
  intro i hi
  rw [delay_eq]
  unfold backoff second
  omega

/-! ### the four verdicts on every run -/

private theorem policy_run (leak : Bool) (cfg : Cfg) (s : List Attempt) :
    Fin10 (run (dialRunWith leak cfg s).evs) (dialRunWith leak cfg s).ret (dialRunWith leak cfg s).ac := by
  have := goRun_induct leak cfg Spec.C10Dialer.step (Inv10 cfg) Fin10
    (fun ph st a x h => step10 leak cfg ph st a x h)
    s .first { k := 0, now := 0, ac := cfg.ac0 } {} (by simp [Inv10])
  simpa [run, dialRunWith] using this

/-- In every run: the error of the very first `DialFunc` call and every error the task returns
    is classified — link-not-ready, link-change and non-permission system-call errors are
    followed by re-dialling; any other error ends the run with exactly that error reported, no
    further `DialFunc` call and no waiting; a task that returns nil (or was cancelled) ends the
    run with nil; the time-out error and nil-by-cancellation are the only other returns. -/
theorem classification (cfg : Cfg) (s : List Attempt) :
    (run (dialRun cfg s).evs).okClass = true :=
  (policy_run _ cfg s).2.1

/-- In every run the `i`-th `DialFunc` call of every re-initialisation is preceded by exactly
    `min (i · 250 ms) 3 s` of waiting (0, 250 ms, 500 ms, …, 3 s, 3 s, …), nothing else ever
    waits, no wait is negative, a wait cut short by cancellation is strictly shorter, and
    `Dial` returns without a pending wait. -/
theorem backoff_exact (cfg : Cfg) (s : List Attempt) :
    (run (dialRun cfg s).evs).okBackoff = true :=
  (policy_run _ cfg s).2.2.1

/-- In every run a re-initialisation makes at most 50 `DialFunc` calls, and the time-out error
    is returned exactly after the 50th failed one. -/
theorem attempts_le_50 (cfg : Cfg) (s : List Attempt) :
    (run (dialRun cfg s).evs).okAttempts = true :=
  (policy_run _ cfg s).2.2.2.1

/-- In every run, once the context is cancelled — during any back-off wait, or while the task
    runs — there is no further `DialFunc` call and no further wait, and `Dial` returns nil (or
    the clean-up error of the connection it still held). -/
theorem cancel_prompt (cfg : Cfg) (s : List Attempt) :
    (run (dialRun cfg s).evs).okCancel = true :=
  (policy_run _ cfg s).2.2.2.2

/-- The model's trace satisfies, for every configuration and script, the oracle that the check
    evaluates on the implementation's observed trace. -/
theorem holds_model (cfg : Cfg) (s : List Attempt) : holds (dialRun cfg s).evs = true := by
  obtain ⟨h0, h1, h2, h3, h4⟩ := policy_run Gen.Dialer.dialLeaksConnOnAutoconfError cfg s
  unfold holds dialRun
  simp [h0, h1, h2, h3, h4]

/-! ### the same, read off the model directly -/

/-- A cancellation during a wait: the wait ends at the instant of the cancellation, the very
    next event is the return of nil — whatever the rest of the script holds. -/
theorem cancel_in_wait (leak : Bool) (cfg : Cfg) (i : Nat) (st : St) (a : Attempt)
    (as : List Attempt) (T : Nat) (hT : cfg.cancelAt = some T) (h : (T : Int) < st.now + delay i) :
    goRun leak cfg (.retry i) st (a :: as) =
      { evs := [.wait (T - st.now), .ctxDone, .ret .nil], ret := .nil, ac := st.ac } := by
  have hc : cancelledBefore cfg (st.now + delay i) = true := by
    simp [cancelledBefore, hT, h]
  rw [goRun_cons_inl leak cfg (.retry i) st a as .nil (by simp [stepAttempt, hc])]
  simp [finish, stepAttempt, hc, cancelInstant, hT]

/-- An unrecoverable first dial error (permission, or anything that is not link-not-ready or a
    system-call error) is returned at once: one `DialFunc` call, no wait. -/
theorem first_dial_fatal (leak : Bool) (cfg : Cfg) (o : DialOut) (as : List Attempt)
    (h : o = .permission ∨ o = .other) :
    dialRunWith leak cfg ({ pre := o } :: as) =
      { evs := [.dial 0, .dialRet 0 o, .ret (.dial 0)], ret := .dial 0, ac := cfg.ac0 } := by
  rcases h with rfl | rfl <;>
    simp [dialRunWith, goRun, stepAttempt, afterDial, dialFn, DialOut.next, finish]

/-- After a recoverable cause, 50 failed re-dials — of whatever class, permission included —
    end the run with the time-out error; the run has made 51 `DialFunc` calls in all and waited
    0 + 0.25 + … + 2.75 + 38 · 3 = 130.5 s. -/
theorem fifty_failures_time_out :
    let r := dialRunWith false { adv := false }
      ({ pre := .syscall } :: List.replicate 50 { pre := .permission })
    r.ret = .timeout ∧ dialCalls r.evs = 51 ∧
    (r.evs.filterMap fun e => match e with | .wait d => some d | _ => none).sum = 130500000000 := by
  decide

/-! ### non-vacuity -/

/-- The oracle accepts the model's trace of a run with a recoverable dial error, a re-dial
    that fails with a permission error (not a cause: retried), a link change and a fatal task
    error; and rejects that trace when the fatal error is followed by a re-dial, when the
    second back-off is 0 instead of 250 ms, and when a dial follows the cancellation. -/
example :
    let r := dialRunWith false { adv := false }
      [{ pre := .linkNotReady }, { pre := .permission }, { task := .linkChange }, { task := .permission }]
    r.evs =
      [.dial 0, .dialRet 0 .linkNotReady,
       .wait 0, .dial 1, .dialRet 1 .permission,
       .wait 250000000, .dial 2, .open 2, .dialRet 2 .ok, .fnStart 2, .fnReturn 2 .linkChange,
       .leave 2, .cleanup 2,
       .wait 0, .dial 3, .open 3, .dialRet 3 .ok, .fnStart 3, .fnReturn 3 .permission,
       .leave 3, .cleanup 3, .ret (.task 3)] ∧
    holds r.evs = true := by
  decide

example :
    holds [.dial 0, .dialRet 0 .ok, .fnStart 0, .fnReturn 0 .permission,
           .dial 1, .dialRet 1 .ok, .fnStart 1, .fnReturn 1 .nil, .ret .nil] = false ∧
    -- a permission error on the first dial retried
    holds [.dial 0, .dialRet 0 .permission, .dial 1, .dialRet 1 .ok, .fnStart 1, .fnReturn 1 .nil,
           .ret .nil] = false ∧
    -- a recoverable error reported instead of retried
    holds [.dial 0, .dialRet 0 .ok, .fnStart 0, .fnReturn 0 .linkChange, .ret (.task 0)] = false ∧
    -- the second re-dial without its 250 ms
    holds [.dial 0, .dialRet 0 .syscall, .dial 1, .dialRet 1 .syscall, .dial 2, .dialRet 2 .ok,
           .fnStart 2, .fnReturn 2 .nil, .ret .nil] = false ∧
    -- back-off without the 3 s cap: 3.25 s before the 13th re-dial
    (run ([.dial 0, .dialRet 0 .syscall] ++
          ((List.range 14).flatMap fun i =>
            [.wait ((i : Int) * 250000000), .dial (i + 1), .dialRet (i + 1) .syscall]))).okBackoff
      = false ∧
    -- a dial after the cancellation
    holds [.dial 0, .dialRet 0 .syscall, .dial 1, .dialRet 1 .syscall, .wait 100, .ctxDone,
           .dial 2, .dialRet 2 .ok, .fnStart 2, .fnReturn 2 .nil, .ret .nil] = false ∧
    -- a non-nil return after the cancellation
    holds [.dial 0, .dialRet 0 .syscall, .dial 1, .dialRet 1 .syscall, .wait 100, .ctxDone,
           .ret .timeout] = false := by
  decide

set_option maxRecDepth 20000 in
/-- 51 `DialFunc` calls in one re-initialisation are rejected (and 50 followed by the time-out
    error accepted). -/
example :
    let retries (n : Nat) : List Ev :=
      (List.range n).flatMap fun i =>
        [.wait (backoff i), .dial (i + 1), .dialRet (i + 1) .linkNotReady]
    holds ([.dial 0, .dialRet 0 .syscall] ++ retries 50 ++ [.ret .timeout]) = true ∧
    (run ([.dial 0, .dialRet 0 .syscall] ++ retries 51 ++ [.ret .timeout])).okAttempts = false ∧
    (run ([.dial 0, .dialRet 0 .syscall] ++ retries 49 ++ [.ret .timeout])).okAttempts = false := by
  decide

end Corerad.Props.C10Dialer
