/-
  TransC16 — the Go → Lean translations of `(*Prefix).lifetimes` and `(*Route).lifetime`
  (internal/plugin/plugin.go), regenerated into `Corerad.Gen.Trans` from the current source text
  on every run, equal the hand-written models `Model.prefixLifetimes` / `Model.routeLifetime`.

  Reading of the translation (tools/extract/translate.go):
  * every `TimeNow()` call site is its own parameter `now0`, `now1`, … in source order.  The
    theorems below supply exactly ONE clock reading; a rewrite that reads the clock twice yields a
    definition with a further parameter and these statements no longer type-check.
  * `Epoch.IsZero()` is the Boolean parameter `Epoch_IsZero` (an `Int` timeline has no
    distinguished zero instant); `panic` is `none`.  Equivalence is stated for a non-zero epoch
    (`Epoch_IsZero := false`; `Props.C16.gen_epoch_is_start_time` is why the daemon never has a
    zero epoch), and the panic is characterised separately: it happens iff the stanza is
    deprecated and the epoch is zero.
-/
import Corerad.Gen.Trans
import Corerad.Model.Lifetime

namespace Corerad.Props.TransC16

open Corerad

/-- `(*Prefix).lifetimes()` with a non-zero epoch and the single clock reading `now`. -/
theorem prefixLifetimes_equiv (deprecated : Bool) (epoch : Time) (valid pref : Dur) (now : Time) :
    Gen.Trans.Prefix_lifetimes (Deprecated := deprecated) (Epoch := epoch) (Epoch_IsZero := false)
        (ValidLifetime := valid) (PreferredLifetime := pref) (now0 := now)
      = some (Model.prefixLifetimes deprecated epoch valid pref now) := by
  simp only [Gen.Trans.Prefix_lifetimes, Model.prefixLifetimes, Model.lifetimeAt]
  repeat' split
  all_goals first | omega | (simp_all; done) | (simp_all; omega) | (simp_all; intros; omega) | rfl | (try simp at *; omega)

/-- `(*Prefix).lifetimes()` panics iff the prefix is deprecated and its epoch is the zero time. -/
theorem prefixLifetimes_panics_iff (deprecated isZero : Bool) (epoch : Time) (valid pref : Dur) (now : Time) :
    Gen.Trans.Prefix_lifetimes (Deprecated := deprecated) (Epoch := epoch) (Epoch_IsZero := isZero)
        (ValidLifetime := valid) (PreferredLifetime := pref) (now0 := now) = none
      ↔ (deprecated = true ∧ isZero = true) := by
  simp only [Gen.Trans.Prefix_lifetimes]
  repeat' split
  all_goals first | omega | (simp_all; done) | (simp_all; omega) | (simp_all; intros; omega) | rfl | (try simp at *; omega)

/-- `(*Route).lifetime()` with a non-zero epoch and the single clock reading `now`. -/
theorem routeLifetime_equiv (deprecated : Bool) (epoch : Time) (lt : Dur) (now : Time) :
    Gen.Trans.Route_lifetime (Deprecated := deprecated) (Epoch := epoch) (Epoch_IsZero := false)
        (Lifetime := lt) (now0 := now)
      = some (Model.routeLifetime deprecated epoch lt now) := by
  simp only [Gen.Trans.Route_lifetime, Model.routeLifetime, Model.lifetimeAt]
  repeat' split
  all_goals first | omega | (simp_all; done) | (simp_all; omega) | (simp_all; intros; omega) | rfl | (try simp at *; omega)

/-- `(*Route).lifetime()` panics iff the route is deprecated and its epoch is the zero time. -/
theorem routeLifetime_panics_iff (deprecated isZero : Bool) (epoch : Time) (lt : Dur) (now : Time) :
    Gen.Trans.Route_lifetime (Deprecated := deprecated) (Epoch := epoch) (Epoch_IsZero := isZero)
        (Lifetime := lt) (now0 := now) = none
      ↔ (deprecated = true ∧ isZero = true) := by
  simp only [Gen.Trans.Route_lifetime]
  repeat' split
  all_goals first | omega | (simp_all; done) | (simp_all; omega) | (simp_all; intros; omega) | rfl | (try simp at *; omega)

/-- non-trivial instance: deprecated prefix, valid 100 s / preferred 40 s after epoch 1000 s, read
    at 1060 s: the preferred lifetime has run out, 40 s of validity remain — on both sides -/
example :
    Gen.Trans.Prefix_lifetimes (Deprecated := true) (Epoch := 1000 * second) (Epoch_IsZero := false)
        (ValidLifetime := 100 * second) (PreferredLifetime := 40 * second) (now0 := 1060 * second)
      = some (40 * second, 0)
    ∧ Model.prefixLifetimes true (1000 * second) (100 * second) (40 * second) (1060 * second)
      = (40 * second, 0) := by
  decide

/-- non-trivial instance: deprecated route, 1 ns before its deadline -/
example :
    Gen.Trans.Route_lifetime (Deprecated := true) (Epoch := 5) (Epoch_IsZero := false)
        (Lifetime := 30 * second) (now0 := 30 * second + 4) = some 1
    ∧ Model.routeLifetime true 5 (30 * second) (30 * second + 4) = 1 := by
  decide

end Corerad.Props.TransC16
