/-
  TransC09 — the retry arithmetic of `(*listener).receiveRetry` (internal/corerad/listener.go) as
  translated from the current source text (`Corerad.Gen.Trans.receiveRetry_*`: the loop header
  `for i := 0; i < retries;` and the argument of `time.After(time.Duration(i) * 50 * time.Millisecond)`)
  equals what the listener model `Model.listen` / `Model.listenSrc` uses: back-off `i * unit` after
  the `i`-th consecutive timeout and exhaustion when `i + 1 ≥ retries`, with the regenerated
  constants `Gen.Listener.backoffUnit`, `Gen.Listener.retries`.
-/
import Corerad.Gen.Trans
import Corerad.Model.Listener

namespace Corerad.Props.TransC09

open Corerad

/-- the wait requested after a timeout in attempt `i` is `i · unit`, as in `Model.listen` -/
theorem receiveRetry_backoff_equiv (i : Nat) :
    Gen.Trans.receiveRetry_after (i : Int) = (i : Int) * Gen.Listener.backoffUnit := by
  simp only [Gen.Trans.receiveRetry_after, Gen.Listener.backoffUnit, ms]
  omega

/-- the attempt counter starts at 0 (`Model.listenSrc` starts `Model.listen` at attempt 0) -/
theorem receiveRetry_loopInit_equiv : Gen.Trans.receiveRetry_loopInit = 0 := by
  simp only [Gen.Trans.receiveRetry_loopInit]

/-- the loop header itself never advances the attempt counter: only the timeout branch does
    (`i++` after the back-off), so messages with a bad hop limit do not consume attempts -/
theorem receiveRetry_loopPost_equiv (i : Int) : Gen.Trans.receiveRetry_loopPost i = i := by
  simp only [Gen.Trans.receiveRetry_loopPost]

/-- the loop continues exactly while fewer than `retries` attempts were consumed … -/
theorem receiveRetry_loopCond_equiv (i : Nat) :
    Gen.Trans.receiveRetry_loopCond (i : Int) = decide (i < Gen.Listener.retries) := by
  rw [Bool.eq_iff_iff]
  simp only [Gen.Trans.receiveRetry_loopCond, decide_eq_true_eq]
  simp only [Gen.Listener.retries]
  constructor <;> (intro _; omega)

/-- … so the loop is left after the timeout of attempt `i` exactly when the model reports
    `retriesExhausted` (`i + 1 ≥ retries` in `Model.listen`) -/
theorem receiveRetry_exhausted_equiv (i : Nat) :
    Gen.Trans.receiveRetry_loopCond ((i : Int) + 1) = false ↔ i + 1 ≥ Gen.Listener.retries := by
  simp only [Gen.Trans.receiveRetry_loopCond, decide_eq_false_iff_not]
  simp only [Gen.Listener.retries]
  constructor <;> (intro _; omega)

/-- non-trivial instance: the 4th consecutive timeout (attempt index 3) waits 150 ms, and a 5th
    attempt (index 4) is still made while index 5 is not — on both sides -/
example : Gen.Trans.receiveRetry_after 3 = 150 * ms
    ∧ (Model.listenSrc [.timeout, .timeout, .timeout, .timeout]).waits = [0, 50 * ms, 100 * ms, 150 * ms]
    ∧ Gen.Trans.receiveRetry_loopCond 4 = true ∧ Gen.Trans.receiveRetry_loopCond 5 = false
    ∧ (Model.listenSrc [.timeout, .timeout, .timeout, .timeout]).result = .running
    ∧ (Model.listenSrc [.timeout, .timeout, .timeout, .timeout, .timeout]).result = .retriesExhausted := by
  decide

end Corerad.Props.TransC09
