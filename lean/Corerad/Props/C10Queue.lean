/-
  C10 (and the "stops promptly" clause of C08) — the goroutine group refined by the request
  channel `ipC` (Model/GroupQ.lean): producers that send on a channel whose only consumer, the
  scheduler, may have stopped receiving.

  With guarded sends (`select { case ipC <- ip: case <-ctx.Done(): }`) the task is never
  half-alive: in every reachable state, for every number of solicitations and timer ticks and
  every interleaving, once something has failed or the task was cancelled and no internal step is
  possible, either the scheduler is still waiting for a transmission in flight to complete (the
  operating system owes `inflightDone`) or every goroutine and the group have returned.  With
  bare sends (`ipC <- ip`) there is a checked trace into a state that is stuck for ever
  (`bare_send_half_alive_witness`) — F-17.
-/
import Corerad.Model.GroupQ
import Corerad.Gen.Advertise
import Corerad.Gen.Listener

namespace Corerad.Props.C10Queue

open Corerad Corerad.Model.GroupQ
open Corerad.Model.Group (LPc)

/-- The source sends on `ipC` only inside a `select` that also watches `ctx.Done()`, at every
    send site (regenerated; fails to build on a tree with a bare send). The channel's capacity
    (`Gen.Advertise.ipCCap`, used by the driver) is immaterial: the theorems hold for any. -/
theorem gen_sends_guarded : Gen.Advertise.ipcSendsGuarded = true := by decide

/-- inductive invariant (repaired defer order, any `guarded`, any capacity) -/
structure Inv (x : St) : Prop where
  i_dl : x.i = true → x.dl = true
  cw_ctx : x.l = .cancelWait → x.ctxDone = true
  done_ctx : x.l = .done → x.ctxDone = true
  ew_lctx : x.l = .errWait → x.lctx = true
  s_ctx : x.s = .done → x.ctxDone = true
  ls_reading : x.ls = true → x.l = .reading
  ret_all : x.ret = true → x.l = .done ∧ x.i = true ∧ x.s = .done ∧ x.m = .done ∧ x.w = true

theorem inv_init (uo : Bool) : Inv (init uo) := by
  constructor <;> simp [init]

theorem inv_step (g : Bool) (cap : Nat) (x y : St) (e : Ev) (h : Inv x)
    (hs : step true g cap x e = some y) : Inv y := by
  obtain ⟨h1, h2, h3, h4, h5, h6, h7⟩ := h
  cases e <;> simp only [step] at hs <;> split at hs <;> (try (cases hs; done)) <;>
    rename_i hc <;> simp only [Option.some.injEq] at hs <;> subst hs <;>
    constructor <;> simp_all [St.ctxDone]

theorem inv_run (g : Bool) (cap : Nat) : ∀ (es : List Ev) (x y : St), Inv x → run true g cap x es = some y → Inv y
  | [], x, y, h, hr => by simp only [run, Option.some.injEq] at hr; subst hr; exact h
  | e :: es, x, y, h, hr => by
    simp only [run] at hr
    split at hr
    · cases hr
    · rename_i x1 hx1
      exact inv_run g cap es x1 y (inv_step g cap x x1 e h hx1) hr

/-- **Never half-alive, with the request channel**: for guarded sends, any channel capacity,
    any reachable state (any number of solicitations and ticks, any interleaving of the
    goroutines' steps): if something has failed or the task was cancelled and no internal step is
    possible any more, then either the scheduler is waiting for transmissions in flight, or
    everything has returned. -/
theorem no_half_alive (uo : Bool) (cap : Nat) (es : List Ev) (x : St)
    (hr : run true true cap (init uo) es = some x) (hq : quiescent true true cap x = true)
    (ht : triggered x = true) :
    x.s = .stopping ∨
      (x.ret = true ∧ x.l = .done ∧ x.i = true ∧ x.s = .done ∧ x.m = .done ∧ x.w = true ∧ x.ls = false) := by
  have hinv := inv_run true cap es _ x (inv_init uo) hr
  obtain ⟨h1, h2, h3, h4, h5, h6, _⟩ := hinv
  simp only [quiescent, internal, List.all_cons, List.all_nil, Bool.and_true, Bool.and_eq_true,
    Option.isNone_iff_eq_none] at hq
  obtain ⟨q1, q2, q3, q4, q5, q6, q7, q8, _q9, q10, _q11, q12, _q13, q14⟩ := hq
  simp only [step] at q1 q2 q3 q4 q5 q6 q7 q8 q10 q12 q14
  have g1 : ¬ ((!x.i) = true ∧ (x.ctxDone || x.lctx) = true) := fun h => by rw [if_pos h] at q1; cases q1
  have g2 : ¬ (x.l = .reading ∧ (!x.ls) = true ∧ x.ctxDone = true ∧ x.dl = true) := fun h => by rw [if_pos h] at q2; cases q2
  have g3 : ¬ (x.l = .cancelWait ∧ x.i = true) := fun h => by rw [if_pos h] at q3; cases q3
  have g4 : ¬ (x.l = .errPath) := fun h => by rw [if_pos h] at q4; cases q4
  have g5 : ¬ (x.l = .errWait ∧ x.i = true) := fun h => by rw [if_pos h] at q5; cases q5
  have g6 : ¬ (x.s = .consuming ∧ x.ctxDone = true) := fun h => by rw [if_pos h] at q6; cases q6
  have g7 : ¬ (x.m = .idle ∧ x.ctxDone = true) := fun h => by rw [if_pos h] at q7; cases q7
  have g8 : ¬ ((!x.w) = true ∧ x.ctxDone = true) := fun h => by rw [if_pos h] at q8; cases q8
  have g10 : ¬ (x.ls = true ∧ True ∧ x.ctxDone = true) := fun h => by rw [if_pos h] at q10; cases q10
  have g12 : ¬ (x.m = .sending ∧ True ∧ x.ctxDone = true) := fun h => by rw [if_pos h] at q12; cases q12
  have g14 : ¬ (x.l = .done ∧ x.i = true ∧ x.s = .done ∧ x.m = .done ∧ x.w = true ∧ (!x.ret) = true) :=
    fun h => by rw [if_pos h] at q14; cases q14
  by_cases hst : x.s = .stopping
  · exact Or.inl hst
  right
  simp only [triggered, Bool.or_eq_true, bne_iff_ne, ne_eq] at ht
  by_cases hc : x.ctxDone = true
  · have hi : x.i = true := by
      cases hi : x.i
      · exact absurd ⟨by simp [hi], by simp [hc]⟩ g1
      · rfl
    have hdl := h1 hi
    have hls : x.ls = false := by
      cases hls : x.ls
      · rfl
      · exact absurd ⟨hls, trivial, hc⟩ g10
    have hl : x.l = .done := by
      cases hl : x.l
      · exact absurd ⟨hl, by simp [hls], hc, hdl⟩ g2
      · exact absurd hl g4
      · exact absurd ⟨hl, hi⟩ g5
      · exact absurd ⟨hl, hi⟩ g3
      · rfl
    have hs : x.s = .done := by
      cases hs : x.s
      · exact absurd ⟨hs, hc⟩ g6
      · exact absurd hs hst
      · rfl
    have hm : x.m = .done := by
      cases hm : x.m
      · exact absurd ⟨hm, hc⟩ g7
      · exact absurd ⟨hm, trivial, hc⟩ g12
      · rfl
    have hw : x.w = true := by
      cases hw : x.w
      · exact absurd ⟨by simp [hw], hc⟩ g8
      · rfl
    have hret : x.ret = true := by
      cases hret : x.ret
      · exact absurd ⟨hl, hi, hs, hm, hw, by simp [hret]⟩ g14
      · rfl
    exact ⟨hret, hl, hi, hs, hm, hw, hls⟩
  · -- the context is not cancelled: the trigger is a listener or scheduler that left its loop
    exfalso
    have hc' : x.ctxDone = false := by cases h : x.ctxDone <;> simp_all
    have hpe : x.parent = false ∧ x.eg = false := by
      simp only [St.ctxDone, Bool.or_eq_false_iff] at hc'; exact hc'
    have hs : x.s = .consuming := by
      cases hs : x.s
      · rfl
      · exact absurd hs hst
      · exact absurd (h5 hs) hc
    rcases ht with ((hp | he) | hl) | hs'
    · simp [hpe.1] at hp
    · simp [hpe.2] at he
    · cases hl' : x.l
      · exact hl hl'
      · exact g4 hl'
      · have hlctx := h4 hl'
        have hi : x.i = true := by
          cases hi : x.i
          · exact absurd ⟨by simp [hi], by simp [hlctx]⟩ g1
          · rfl
        exact g5 ⟨hl', hi⟩
      · exact hc (h2 hl')
      · exact hc (h3 hl')
    · exact hs' hs

/-- `run` over a concatenation -/
theorem run_append (cbw g : Bool) (cap : Nat) : ∀ (es fs : List Ev) (x : St),
    run cbw g cap x (es ++ fs) = (run cbw g cap x es).bind fun y => run cbw g cap y fs
  | [], _, _ => rfl
  | e :: es, fs, x => by
    simp only [List.cons_append, run]
    cases step cbw g cap x e with
    | none => rfl
    | some y => exact run_append cbw g cap es fs y

/-- The remaining disjunct of `no_half_alive` is not a resting place: a scheduler that is waiting
    for transmissions in flight is released by their completion (`inflightDone` is enabled in
    every such state), and from there on every quiescent state is the fully returned one. So "a
    transmit error stops every activity together" holds as soon as the operating system has
    completed (or failed) the transmissions that were in flight — the model has no clock, the
    bound on that is the harness's (`grpq`: latency of the write in flight + 1.1 s). -/
theorem stopping_resolves (uo : Bool) (cap : Nat) (es : List Ev) (x : St)
    (hr : run true true cap (init uo) es = some x) (hs : x.s = .stopping) :
    ∃ y, step true true cap x .inflightDone = some y ∧
      ∀ (fs : List Ev) (z : St), run true true cap y fs = some z → quiescent true true cap z = true →
        z.ret = true ∧ z.l = .done ∧ z.i = true ∧ z.s = .done ∧ z.m = .done ∧ z.w = true := by
  refine ⟨{ x with s := .done, eg := true }, by simp [step, hs], ?_⟩
  intro fs z hz hq
  have hreach : run true true cap (init uo) (es ++ .inflightDone :: fs) = some z := by
    rw [run_append, hr]
    simp only [Option.bind_some, run, step, hs, if_true]
    exact hz
  have hinv := inv_run true cap _ _ z (inv_init uo) hreach
  have htrig : triggered z = true := by
    -- the errgroup's context stays cancelled: `eg` is never reset
    have hmono : ∀ (fs : List Ev) (a b : St), a.eg = true → run true true cap a fs = some b → b.eg = true := by
      intro fs
      induction fs with
      | nil => intro a b ha hb; simp only [run, Option.some.injEq] at hb; subst hb; exact ha
      | cons e fs ih =>
        intro a b ha hb
        simp only [run] at hb
        cases hst : step true true cap a e with
        | none => rw [hst] at hb; cases hb
        | some a' =>
          rw [hst] at hb
          refine ih a' b ?_ hb
          cases e <;> simp only [step] at hst <;> split at hst <;> (try (cases hst; done)) <;>
            simp only [Option.some.injEq] at hst <;> subst hst <;> simp_all
    have := hmono fs _ z (by rfl) hz
    simp [triggered, this]
  have hns : z.s ≠ .stopping := by
    -- a scheduler that has returned stays returned
    have hdone : ∀ (fs : List Ev) (a b : St), a.s = .done → run true true cap a fs = some b → b.s = .done := by
      intro fs
      induction fs with
      | nil => intro a b ha hb; simp only [run, Option.some.injEq] at hb; subst hb; exact ha
      | cons e fs ih =>
        intro a b ha hb
        simp only [run] at hb
        cases hst : step true true cap a e with
        | none => rw [hst] at hb; cases hb
        | some a' =>
          rw [hst] at hb
          refine ih a' b ?_ hb
          cases e <;> simp only [step] at hst <;> split at hst <;> (try (cases hst; done)) <;>
            simp only [Option.some.injEq] at hst <;> subst hst <;> simp_all
    have := hdone fs _ z (by rfl) hz
    simp [this]
  rcases no_half_alive uo cap _ z hreach hq htrig with h | h
  · exact absurd h hns
  · exact ⟨h.1, h.2.1, h.2.2.1, h.2.2.2.1, h.2.2.2.2.1, h.2.2.2.2.2.1⟩

/-- Every internal step strictly decreases the measure — the wind-down terminates however the
    goroutines interleave, for either kind of send, any defer order and any capacity; completing a
    send buffers a request but removes a heavier pending send. -/
theorem teardown_terminates (cbw g : Bool) (cap : Nat) (x y : St) (e : Ev) (he : e ∈ internal)
    (hs : step cbw g cap x e = some y) : work y < work x := by
  simp only [internal, List.mem_cons, List.not_mem_nil, or_false] at he
  rcases he with rfl | rfl | rfl | rfl | rfl | rfl | rfl | rfl | rfl | rfl | rfl | rfl | rfl | rfl <;>
    simp only [step] at hs <;> split at hs <;> (try (cases hs; done)) <;>
    rename_i hc <;> simp only [Option.some.injEq] at hs <;> subst hs <;>
    simp only [work] <;>     (try (obtain ⟨hc1, hc2⟩ := hc)) <;> simp_all <;> (try omega)

/-- F-17: with bare sends the task can be left half-alive for ever.  A transmission fails while
    another is in flight (the scheduler stops consuming but the context is not cancelled yet), 17
    solicitations arrive: 16 fill the channel, the listener's callback blocks in the 17th send;
    the transmission in flight completes, the scheduler returns its error, the context is
    cancelled, everything else winds down — and the listener stays in its send: no internal step
    is possible, something failed, and the group has not returned. -/
theorem bare_send_half_alive_witness :
    let fill : List Ev := (List.replicate 16 [Ev.solicit, Ev.lSend]).flatten
    let es := [Ev.writeErrInflight] ++ fill ++ [Ev.solicit, .inflightDone, .iRun, .mRet, .wRet]
    ∃ x, run true false 16 (init false) es = some x ∧ quiescent true false 16 x = true ∧
      triggered x = true ∧ x.s = .done ∧ x.ls = true ∧ x.l = .reading ∧ x.ret = false := by
  decide +kernel

/-- The same schedule with guarded sends ends with the whole group returned. -/
example :
    let fill : List Ev := (List.replicate 16 [Ev.solicit, Ev.lSend]).flatten
    let es := [Ev.writeErrInflight] ++ fill ++
      [Ev.solicit, .inflightDone, .iRun, .lAbort, .lSeeCancel, .lCancelWaitDone, .mRet, .wRet, .groupReturn]
    ∃ x, run true true 16 (init false) es = some x ∧ quiescent true true 16 x = true ∧ x.ret = true := by
  decide +kernel

/-! ### relation to the coarser group of Model/Group.lean -/

/-- the coarse event a refined event stands for, if any -/
def coarse : Ev → Option Model.Group.Ev
  | .cancelParent => some .cancelParent | .readErr => some .readErr | .linkChange => some .linkChange
  | .writeErr => some .writeErr | .iRun => some .iRun | .lSeeCancel => some .lSeeCancel
  | .lCancelWaitDone => some .lCancelWaitDone | .lErrDefer => some .lErrDefer
  | .lErrWaitDone => some .lErrWaitDone | .sRet => some .sRet | .mRet => some .mRet | .wRet => some .wRet
  | .groupReturn => some .groupReturn
  | _ => none

/-- events of the request channel that the coarse group does not see at all -/
def stutter : Ev → Bool
  | .writeErrInflight | .solicit | .tick | .lSend | .lAbort | .mSend | .mAbort | .sConsume => true
  | _ => false

/-- **Refinement** (1): every refined step labelled with a coarse event is that step of the
    coarse group on the projected states. -/
theorem refines (cbw g : Bool) (cap : Nat) (x y : St) (e : Ev) (e' : Model.Group.Ev)
    (hs : step cbw g cap x e = some y) (he : coarse e = some e') :
    Model.Group.step cbw (abs x) e' = some (abs y) := by
  cases e <;> simp only [coarse, Option.some.injEq, reduceCtorEq] at he <;> subst he <;>
    simp only [step] at hs <;> split at hs <;> (try (cases hs; done)) <;>
    rename_i hc <;> simp only [Option.some.injEq] at hs <;> subst hs <;>
    simp_all [Model.Group.step, abs, St.ctxDone, Model.Group.St.ctxDone]

/-- **Refinement** (2): every step of the request channel leaves the projection unchanged. (The
    one remaining event, `inflightDone`, is the coarse `writeErr` delayed until the transmissions
    in flight have completed.) -/
theorem stutters (cbw g : Bool) (cap : Nat) (x y : St) (e : Ev)
    (hs : step cbw g cap x e = some y) (he : stutter e = true) : abs y = abs x := by
  cases e <;> simp only [stutter, Bool.false_eq_true] at he <;>
    simp only [step] at hs <;> split at hs <;> (try (cases hs; done)) <;>
    rename_i hc <;> simp only [Option.some.injEq] at hs <;> subst hs <;>
    simp_all [abs] <;> decide

theorem abs_ret (x : St) : (abs x).ret = x.ret := rfl

end Corerad.Props.C10Queue
