import Corerad.Spec.C07
namespace Corerad.Props.C07
theorem placeholder : True := trivial
end Corerad.Props.C07
