/-
  C07 — each valid RS is answered exactly once, to the right destination, in time.
  Theorems over every request history of any length, any jitter draws.
-/
import Corerad.Model.Advertiser
import Corerad.Spec.C07

namespace Corerad.Props.C07

open Corerad Corerad.Model

/-- MAX_RA_DELAY_TIME as found in the source -/
theorem gen_constants : Gen.Advertise.maxRADelay = 500 * ms := by decide

/-- the unicast requests of a history paired with their jitter draws, in arrival order -/
def ucExpected : List (Time × Req) → List Int → List (Time × Nat × Int)
  | [], _ => []
  | (_, .mc) :: r, ds => ucExpected r ds
  | (t, .uc h) :: r, ds => (t, h, ds.headD 0) :: ucExpected r ds.tail

/-- **Exactly once, to the right destination**: the unicast transmissions the scheduler makes
    are, in order, one per unicast request — to that request's source, due at its arrival
    instant plus its own jitter draw.  Nothing is lost, nothing is answered twice, whatever
    multicast traffic is interleaved and whatever mode the interface is in. -/
theorem unicast_exactly_once (minDelay : Dur) (uo : Bool) :
    ∀ (reqs : List (Time × Req)) (s : SchedState) (draws : List Int),
      ucSends (schedule minDelay uo s reqs draws) = (ucExpected reqs draws).map fun x => (x.1 + x.2.2, x.2.1)
  | [], _, _ => rfl
  | (t, .uc h) :: rest, s, draws => by
    have ih := unicast_exactly_once minDelay uo rest s draws.tail
    simp only [schedule, ucSends, ucExpected, List.filter_cons, List.map_cons] at ih ⊢
    simpa using ih
  | (t, .mc) :: rest, s, draws => by
    simp only [schedule, schedStep, ucExpected]
    by_cases hu : uo = true
    · simp only [hu, if_true]
      exact unicast_exactly_once minDelay true rest s draws
    · have hu' : uo = false := by simpa using hu
      subst hu'
      simp only [Bool.false_eq_true, if_false]
      by_cases hp : s.next > t
      · simp only [hp, if_true]
        exact unicast_exactly_once minDelay false rest s draws
      · simp only [hp, if_false]
        have ih := unicast_exactly_once minDelay false rest
          { next := if s.next + minDelay < t then t else s.next + minDelay } draws
        simpa [ucSends] using ih

/-- one answer per solicitation: as many unicast transmissions as unicast requests -/
theorem unicast_count (minDelay : Dur) (uo : Bool) (reqs : List (Time × Req)) (s : SchedState) (draws : List Int) :
    (ucSends (schedule minDelay uo s reqs draws)).length =
      (reqs.filter fun r => match r.2 with | .uc _ => true | .mc => false).length := by
  rw [unicast_exactly_once, List.length_map]
  induction reqs generalizing draws with
  | nil => rfl
  | cons r rest ih =>
    obtain ⟨t, q⟩ := r
    cases q with
    | mc => simpa [ucExpected] using ih draws
    | uc h => simpa [ucExpected] using ih draws.tail

/-- **In time**: when every draw is in `[0, MAX_RA_DELAY_TIME)` (what `Int63n` returns) and
    there is a draw for every request, each answer is due in `[t, t + 500 ms)`. -/
theorem delay_in_window :
    ∀ (reqs : List (Time × Req)) (draws : List Int),
      (∀ d ∈ draws, 0 ≤ d ∧ d < Gen.Advertise.maxRADelay) →
      (reqs.filter fun r => match r.2 with | .uc _ => true | .mc => false).length ≤ draws.length →
      ∀ x ∈ ucExpected reqs draws, x.1 ≤ x.1 + x.2.2 ∧ x.1 + x.2.2 < x.1 + 500 * ms
  | [], _, _, _, x, hx => by simp [ucExpected] at hx
  | (_, .mc) :: rest, draws, hd, hl, x, hx => by
    exact delay_in_window rest draws hd (by simpa using hl) x (by simpa [ucExpected] using hx)
  | (t, .uc h) :: rest, draws, hd, hl, x, hx => by
    cases draws with
    | nil => simp at hl
    | cons d ds =>
      simp only [ucExpected, List.headD_cons, List.tail_cons, List.mem_cons] at hx
      rcases hx with rfl | hx
      · have := hd d List.mem_cons_self
        rw [gen_constants] at this
        simp only
        omega
      · exact delay_in_window rest ds (fun d' hd' => hd d' (List.mem_cons_of_mem _ hd'))
          (by simp at hl; omega) x hx

/-- A solicitation from the unspecified address asks for an all-nodes multicast RA, one from a
    specified address for a unicast RA to that address; nothing else asks for anything. -/
theorem request_destination (e : AdvEvent) :
    requestOf e =
      if e.hop = 255 ∧ e.kind = 0 then some (e.t, if e.host = 0 then Req.mc else Req.uc e.host) else none := by
  unfold requestOf classify
  by_cases hh : e.hop = 255
  · simp only [hh, ne_eq, not_true_eq_false, if_false, true_and]
    match hk : e.kind with
    | 0 => simp
    | 1 => simp
    | n+2 => simp
  · simp [hh]

/-- An interface in unicast-only mode never transmits to a multicast destination. -/
theorem unicast_only_no_multicast (minDelay : Dur) :
    ∀ (reqs : List (Time × Req)) (s : SchedState) (draws : List Int),
      mcSends (schedule minDelay true s reqs draws) = []
  | [], _, _ => rfl
  | (t, .uc h) :: rest, s, draws => by
    have ih := unicast_only_no_multicast minDelay rest s draws.tail
    simpa [schedule, mcSends] using ih
  | (t, .mc) :: rest, s, draws => by
    simp only [schedule, schedStep, if_true]
    exact unicast_only_no_multicast minDelay rest s draws

/-! ### counters -/

/-- the counter updates `receiveRetry` + `handle` make for one message: (received by type,
    invalid by type) -/
def countStep (c : List Nat × List Nat) (e : AdvEvent) : List Nat × List Nat :=
  let bump := fun (l : List Nat) => l.mapIdx fun i n => if i = e.kind then n + 1 else n
  match classify e with
  | .invalidHop => (c.1, bump c.2)
  | .solicit | .advert => (bump c.1, c.2)
  | .otherType => (bump c.1, bump c.2)

private theorem classify_spec (e : AdvEvent) :
    (classify e = .invalidHop ↔ e.hop ≠ 255) ∧
    (classify e = .solicit ↔ e.hop = 255 ∧ e.kind = 0) ∧
    (classify e = .advert ↔ e.hop = 255 ∧ e.kind = 1) ∧
    (classify e = .otherType ↔ e.hop = 255 ∧ e.kind ≥ 2) := by
  unfold classify
  by_cases hh : e.hop = 255
  · simp only [hh, ne_eq, not_true_eq_false, if_false, true_and]
    match hk : e.kind with
    | 0 => simp
    | 1 => simp
    | n+2 => simp
  · simp [hh]

/-- **received-by-type = validated messages delivered to the handler; invalid = messages that
    failed validation**, for every message sequence -/
theorem counters_exact (evs : List AdvEvent) (k : Nat) (hk : k < 4) :
    let c := evs.foldl countStep ([0, 0, 0, 0], [0, 0, 0, 0])
    c.1[k]! = countKind evs (fun e => e.hop == 255) k ∧
    c.2[k]! = countKind evs (fun e => e.hop != 255 || decide (e.kind ≥ 2)) k := by
  suffices h : ∀ (a b : List Nat), a.length = 4 → b.length = 4 →
      ((evs.foldl countStep (a, b)).1[k]! = a[k]! + countKind evs (fun e => e.hop == 255) k ∧
       (evs.foldl countStep (a, b)).2[k]! = b[k]! + countKind evs (fun e => e.hop != 255 || decide (e.kind ≥ 2)) k) by
    have := h [0, 0, 0, 0] [0, 0, 0, 0] rfl rfl
    have h0 : ([0, 0, 0, 0] : List Nat)[k]! = 0 := by
      match k, hk with
      | 0, _ => rfl | 1, _ => rfl | 2, _ => rfl | 3, _ => rfl
    simpa [h0] using this
  induction evs with
  | nil => intro a b _ _; simp [countKind]
  | cons e rest ih =>
    intro a b ha hb
    simp only [List.foldl_cons]
    have bumpLen : ∀ (l : List Nat), (l.mapIdx fun i n => if i = e.kind then n + 1 else n).length = l.length := by
      intro l; simp
    have bumpGet : ∀ (l : List Nat), l.length = 4 →
        (l.mapIdx fun i n => if i = e.kind then n + 1 else n)[k]! = l[k]! + (if k = e.kind then 1 else 0) := by
      intro l hl
      have hkl : k < l.length := by omega
      simp only [getElem!_pos, List.length_mapIdx, hkl, List.getElem_mapIdx]
      split <;> simp
    cases hc : classify e with
    | invalidHop =>
      have hh : e.hop ≠ 255 := (classify_spec e).1.mp hc
      have hs : countStep (a, b) e = (a, b.mapIdx fun i n => if i = e.kind then n + 1 else n) := by
        simp only [countStep, hc]
      rw [hs]
      obtain ⟨i1, i2⟩ := ih a _ ha (by rw [bumpLen]; exact hb)
      rw [i1, i2, bumpGet b hb]
      simp only [countKind, List.filter_cons]
      by_cases hke : k = e.kind
      · subst hke; simp [hh]; omega
      · have : (e.kind == k) = false := by simp [Ne.symm hke]
        simp [hke, this]
    | solicit =>
      have hh : e.hop = 255 ∧ e.kind = 0 := (classify_spec e).2.1.mp hc
      have hs : countStep (a, b) e = (a.mapIdx (fun i n => if i = e.kind then n + 1 else n), b) := by
        simp only [countStep, hc]
      rw [hs]
      obtain ⟨i1, i2⟩ := ih _ b (by rw [bumpLen]; exact ha) hb
      rw [i1, i2, bumpGet a ha]
      simp only [countKind, List.filter_cons]
      by_cases hke : k = e.kind
      · subst hke; simp [hh.1, hh.2]; omega
      · have : (e.kind == k) = false := by simp [Ne.symm hke]
        simp [hke, this]
    | advert =>
      have hh : e.hop = 255 ∧ e.kind = 1 := (classify_spec e).2.2.1.mp hc
      have hs : countStep (a, b) e = (a.mapIdx (fun i n => if i = e.kind then n + 1 else n), b) := by
        simp only [countStep, hc]
      rw [hs]
      obtain ⟨i1, i2⟩ := ih _ b (by rw [bumpLen]; exact ha) hb
      rw [i1, i2, bumpGet a ha]
      simp only [countKind, List.filter_cons]
      by_cases hke : k = e.kind
      · subst hke; simp [hh.1, hh.2]; omega
      · have : (e.kind == k) = false := by simp [Ne.symm hke]
        simp [hke, this]
    | otherType =>
      have hh : e.hop = 255 ∧ e.kind ≥ 2 := (classify_spec e).2.2.2.mp hc
      have hs : countStep (a, b) e = (a.mapIdx (fun i n => if i = e.kind then n + 1 else n),
          b.mapIdx fun i n => if i = e.kind then n + 1 else n) := by
        simp only [countStep, hc]
      rw [hs]
      obtain ⟨i1, i2⟩ := ih _ _ (by rw [bumpLen]; exact ha) (by rw [bumpLen]; exact hb)
      rw [i1, i2, bumpGet a ha, bumpGet b hb]
      simp only [countKind, List.filter_cons]
      by_cases hke : k = e.kind
      · subst hke; simp [hh.1, hh.2]; omega
      · have : (e.kind == k) = false := by simp [Ne.symm hke]
        simp [hke, this]

/-- Non-vacuity: two solicitations from one host 100 ms apart and one from `::` are answered by
    two unicast RAs (one each) and one multicast RA. -/
example :
    let reqs := [(1000 * ms, Req.uc 1), (1100 * ms, Req.uc 1), (1200 * ms, Req.mc)]
    ucSends (schedule (3 * second) false { next := 0 } reqs [400 * ms, 10 * ms]) = [(1400 * ms, 1), (1110 * ms, 1)] ∧
    mcSends (schedule (3 * second) false { next := 0 } reqs [400 * ms, 10 * ms]) = [3 * second] ∧
    Spec.C07.unicastExactlyOnce (10 * second) [(1000 * ms, 1), (1100 * ms, 1)] [(1110 * ms, 1), (1400 * ms, 1)] = true ∧
    Spec.C07.unicastExactlyOnce (10 * second) [(1000 * ms, 1), (1100 * ms, 1)] [(1110 * ms, 1)] = false := by
  decide

end Corerad.Props.C07
