import Corerad.Spec.C03
namespace Corerad.Props.C03
theorem placeholder : True := trivial
end Corerad.Props.C03
