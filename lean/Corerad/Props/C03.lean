/-
  C03 — an accepted configuration yields a wire-encodable, meaning-preserving RA.

  Part 1 (codec, `Model/Codec.lean`): for every wire-safe RA, decoding the encoded RA returns
  the RA with every duration truncated to its field's unit (`roundtrip`), and truncation is
  the only change (`truncate_meaning`, `truncate_aligned`, `trunc_bounds`).

  Part 2: the RA an accepted advertising stanza calls for (`Spec.C01.expectedRA`, which is the
  RA the model builds by C01 `ra_eq_spec`) is wire safe (`accepted_wireSafe`, `built_wireSafe`,
  `accepted_roundtrip`), per option kind (`prefix_opts_encodable`, `route_opts_encodable`,
  `rdnss_opts_encodable`, `dnssl_opt_encodable`, `mtu_opt_encodable`, `lla_opt_encodable`,
  `portal_opt_encodable`, `pref64_opt_encodable`) and for the header (`header_wireSafe`).

  Hypotheses of Part 2, each shown necessary by a concrete witness at the end of the file:
    * input well-formedness: parsed CIDRs have ≤ 128 bits (C02 `wfIface`) and 128-bit address
      values (`wfVals`; `wfVals_needed`) — both guaranteed by `netip`;
    * the clock does not run before the epoch (`clock_needed`);
    * the hardware address, if any, has 6 bytes;
    * the address dump is well-formed (C14 `WF`), the route dump valid, canonical, 128-bit (`WFr`);
    * an `rdnss` stanza lists at most 127 servers (`count_needed`: the documented constraints
      put no limit on the count);
    * a configured captive portal has a non-empty URI (`portal_len_needed`).
-/
import Corerad.Spec.C03
import Corerad.Model.Codec
import Corerad.Props.C01
import Corerad.Props.C13
import Corerad.Props.C14
import Corerad.Props.C15

namespace Corerad.Props.C03

open Corerad Corerad.Model Corerad.Spec.C03

/-! ### Part 1 — the codec round trip -/

theorem second_pos : 0 < second := by decide
theorem ms_pos : 0 < ms := by decide
theorem sec8_pos : 0 < 8 * second := by decide

/-- one duration field: encode, then decode, is truncation to the unit — provided the value
    fits the field -/
theorem dur_roundtrip (d unit : Dur) (bits : Nat) (hu : 0 < unit) (h : fits d unit bits = true) :
    decodeDur (encodeDur d unit bits) unit = trunc d unit := by
  unfold fits at h
  simp only [Bool.and_eq_true, decide_eq_true_eq] at h
  obtain ⟨h0, hlt⟩ := h
  have hq0 : 0 ≤ d / unit := Int.ediv_nonneg h0 (Int.le_of_lt hu)
  have hlt' : (d / unit).toNat < 2 ^ bits := by
    rw [Int.toNat_lt hq0, Int.natCast_pow]; exact hlt
  unfold decodeDur encodeDur trunc
  rw [Nat.mod_eq_of_lt hlt', Int.toNat_of_nonneg hq0, Int.emod_def, Int.mul_comm]
  omega

/-- a field whose value is a multiple of the unit survives unchanged -/
theorem dur_roundtrip_exact (d unit : Dur) (bits : Nat) (hu : 0 < unit) (h : fits d unit bits = true)
    (hm : d % unit = 0) : decodeDur (encodeDur d unit bits) unit = d := by
  rw [dur_roundtrip d unit bits hu h]; unfold trunc; omega

theorem opt_roundtrip (o : Opt) (h : encodable o = true) : decodeOpt (encodeOpt o) = truncOpt o := by
  cases o with
  | pi a len ol au v p =>
    simp only [encodable, Bool.and_eq_true] at h
    simp only [encodeOpt, decodeOpt, truncOpt, dur_roundtrip _ _ _ second_pos h.1.2,
      dur_roundtrip _ _ _ second_pos h.2]
  | ri a len pref l =>
    simp only [encodable, Bool.and_eq_true] at h
    simp only [encodeOpt, decodeOpt, truncOpt, dur_roundtrip _ _ _ second_pos h.2]
  | rdnss l s =>
    simp only [encodable, Bool.and_eq_true] at h
    simp only [encodeOpt, decodeOpt, truncOpt, dur_roundtrip _ _ _ second_pos h.2]
  | dnssl l n =>
    simp only [encodable, Bool.and_eq_true] at h
    simp only [encodeOpt, decodeOpt, truncOpt, dur_roundtrip _ _ _ second_pos h.2]
  | mtu m =>
    simp only [encodable, Bool.and_eq_true, decide_eq_true_eq] at h
    simp only [encodeOpt, decodeOpt, truncOpt, Opt.mtu.injEq]
    have : (2:Int) ^ 32 = 4294967296 := by decide
    have : (2:Nat) ^ 32 = 4294967296 := by decide
    omega
  | lla len mac => rfl
  | captivePortal u len => rfl
  | pref64 p l =>
    simp only [encodable, Bool.and_eq_true, decide_eq_true_eq, beq_iff_eq] at h
    obtain ⟨⟨⟨_, h0⟩, hm⟩, hq⟩ := h
    have hf : fits l (8 * second) 13 = true := by
      unfold fits
      simp only [Bool.and_eq_true, decide_eq_true_eq]
      refine ⟨h0, ?_⟩
      have : (2:Int) ^ 13 = 8192 := by decide
      omega
    simp only [encodeOpt, decodeOpt, truncOpt, dur_roundtrip_exact _ _ _ sec8_pos hf hm]

/-- **Round trip.**  Decoding the encoding of a wire-safe RA returns its truncation. -/
theorem roundtrip (ra : RA) (h : wireSafe ra = true) : decodeFields (encodeFields ra) = truncateRA ra := by
  unfold wireSafe at h
  simp only [Bool.and_eq_true, decide_eq_true_eq, List.all_eq_true] at h
  obtain ⟨⟨⟨⟨⟨hh, hp⟩, hrl⟩, hre⟩, hrt⟩, hopts⟩ := h
  unfold decodeFields encodeFields truncateRA
  simp only [dur_roundtrip _ _ _ second_pos hrl, dur_roundtrip _ _ _ ms_pos hre,
    dur_roundtrip _ _ _ ms_pos hrt, List.map_map]
  have hhl : ra.hopLimit % 2 ^ 8 = ra.hopLimit := Nat.mod_eq_of_lt (by omega)
  have hpr : ra.preference % 2 ^ 2 = ra.preference := by
    simp only [Bool.or_eq_true, beq_iff_eq] at hp
    rcases hp with (hp | hp) | hp <;> rw [hp]
  have hmap : ra.options.map (decodeOpt ∘ encodeOpt) = ra.options.map truncOpt :=
    List.map_congr_left (fun o ho => opt_roundtrip o (hopts o ho))
  rw [hhl, hpr, hmap]

/-- encoding is insensitive to the sub-unit part: an RA and its truncation have the same bytes -/
theorem encode_trunc_dur (d unit : Dur) (bits : Nat) (hu : 0 < unit) :
    encodeDur (trunc d unit) unit bits = encodeDur d unit bits := by
  unfold encodeDur trunc
  have : (d - d % unit) / unit = d / unit := by
    rw [Int.emod_def, show d - (d - unit * (d / unit)) = unit * (d / unit) by omega]
    exact Int.mul_ediv_cancel_left _ (by omega)
  rw [this]

/-! #### truncation is the only change -/

/-- the truncation is the largest multiple of the unit not above the value -/
theorem trunc_bounds (d unit : Dur) (hu : 0 < unit) :
    trunc d unit ≤ d ∧ d - unit < trunc d unit ∧ trunc d unit % unit = 0 := by
  unfold trunc
  have h1 := Int.emod_nonneg d (Int.ne_of_gt hu)
  have h2 := Int.emod_lt_of_pos d hu
  refine ⟨by omega, by omega, ?_⟩
  rw [Int.emod_def d unit, show d - (d - unit * (d / unit)) = unit * (d / unit) by omega]
  exact Int.mul_emod_right _ _

theorem trunc_nonneg (d unit : Dur) (hu : 0 < unit) (h0 : 0 ≤ d) : 0 ≤ trunc d unit := by
  unfold trunc
  have hq : 0 ≤ d / unit := Int.ediv_nonneg h0 (Int.le_of_lt hu)
  rw [Int.emod_def d unit, show d - (d - unit * (d / unit)) = unit * (d / unit) by omega]
  exact Int.mul_nonneg (Int.le_of_lt hu) hq

theorem trunc_eq_self_iff (d unit : Dur) : trunc d unit = d ↔ d % unit = 0 := by
  unfold trunc; omega

theorem trunc_idem (d unit : Dur) (hu : 0 < unit) : trunc (trunc d unit) unit = trunc d unit := by
  rw [trunc_eq_self_iff]; exact (trunc_bounds d unit hu).2.2

/-- every duration of the RA is a whole number of its field's unit -/
def alignedOpt : Opt → Bool
  | .pi _ _ _ _ v p => v % second == 0 && p % second == 0
  | .ri _ _ _ l => l % second == 0
  | .rdnss l _ => l % second == 0
  | .dnssl l _ => l % second == 0
  | _ => true

def aligned (ra : RA) : Bool :=
  ra.routerLifetime % second == 0 && ra.reachable % ms == 0 && ra.retransmit % ms == 0 &&
  ra.options.all alignedOpt

theorem truncOpt_aligned (o : Opt) (h : alignedOpt o = true) : truncOpt o = o := by
  cases o <;> simp only [alignedOpt, Bool.and_eq_true, beq_iff_eq] at h <;>
    simp only [truncOpt, trunc] <;> (try rfl)
  · obtain ⟨h1, h2⟩ := h; rw [h1, h2]; simp
  · rw [h]; simp
  · rw [h]; simp
  · rw [h]; simp

/-- on RAs whose durations are whole units, truncation is the identity: the decoded RA *is*
    the advertisement -/
theorem truncate_aligned (ra : RA) (h : aligned ra = true) : truncateRA ra = ra := by
  unfold aligned at h
  simp only [Bool.and_eq_true, beq_iff_eq, List.all_eq_true] at h
  obtain ⟨⟨⟨h1, h2⟩, h3⟩, h4⟩ := h
  unfold truncateRA trunc
  have hmap : ra.options.map truncOpt = ra.options := by
    have := List.map_congr_left (f := truncOpt) (g := id) (fun o ho => truncOpt_aligned o (h4 o ho))
    rw [this, List.map_id]
  rw [h1, h2, h3, hmap]
  simp

/-- **Meaning.**  `truncateRA ra` differs from `ra` only in its duration fields, each of which
    becomes `d - d % unit`: flags, hop limit, preference, the number and order of options,
    and every non-duration component of every option are unchanged. -/
theorem truncate_meaning (ra : RA) :
    (truncateRA ra).hopLimit = ra.hopLimit ∧ (truncateRA ra).managed = ra.managed ∧
    (truncateRA ra).other = ra.other ∧ (truncateRA ra).preference = ra.preference ∧
    (truncateRA ra).routerLifetime = ra.routerLifetime - ra.routerLifetime % second ∧
    (truncateRA ra).reachable = ra.reachable - ra.reachable % ms ∧
    (truncateRA ra).retransmit = ra.retransmit - ra.retransmit % ms ∧
    (truncateRA ra).options.length = ra.options.length ∧
    ∀ k (hk : k < ra.options.length), ∃ o', (truncateRA ra).options[k]? = some o' ∧
      match ra.options[k], o' with
      | .pi a len ol au v p, .pi a' len' ol' au' v' p' =>
        a' = a ∧ len' = len ∧ ol' = ol ∧ au' = au ∧ v' = v - v % second ∧ p' = p - p % second
      | .ri a len pref l, .ri a' len' pref' l' => a' = a ∧ len' = len ∧ pref' = pref ∧ l' = l - l % second
      | .rdnss l s, .rdnss l' s' => l' = l - l % second ∧ s' = s
      | .dnssl l n, .dnssl l' n' => l' = l - l % second ∧ n' = n
      | o, o' => o' = o := by
  refine ⟨rfl, rfl, rfl, rfl, rfl, rfl, rfl, by simp [truncateRA], ?_⟩
  intro k hk
  refine ⟨truncOpt ra.options[k], by simp [truncateRA, hk], ?_⟩
  cases ra.options[k] <;> simp [truncOpt, trunc]

theorem truncateRA_idem (ra : RA) : truncateRA (truncateRA ra) = truncateRA ra := by
  apply truncate_aligned
  unfold aligned truncateRA
  simp only [Bool.and_eq_true, beq_iff_eq, List.all_eq_true, List.mem_map]
  refine ⟨⟨⟨(trunc_bounds _ _ second_pos).2.2, (trunc_bounds _ _ ms_pos).2.2⟩, (trunc_bounds _ _ ms_pos).2.2⟩, ?_⟩
  rintro _ ⟨o, _, rfl⟩
  cases o <;> simp only [truncOpt, alignedOpt, Bool.and_eq_true, beq_iff_eq] <;>
    first | rfl | exact (trunc_bounds _ _ second_pos).2.2 |
      exact ⟨(trunc_bounds _ _ second_pos).2.2, (trunc_bounds _ _ second_pos).2.2⟩

/-- the wire image of an RA is determined by its truncation: no sub-unit information is sent -/
theorem encode_truncate (ra : RA) : encodeFields (truncateRA ra) = encodeFields ra := by
  unfold encodeFields truncateRA
  simp only [encode_trunc_dur _ _ _ second_pos, encode_trunc_dur _ _ _ ms_pos, List.map_map]
  congr 1
  apply List.map_congr_left
  intro o _
  cases o <;> simp only [Function.comp, truncOpt, encodeOpt, encode_trunc_dur _ _ _ second_pos]

open Corerad.Spec.C02 (docPrefix docRoute docRDNSS docDNSSL docPref64 pfxOf wildPrefix wildRoute resolve inPos inNonneg)
open Corerad.Props.C02 (wfPfx)

/-! ### Part 2 — accepted configurations are wire safe -/

/-! #### arithmetic of masks -/

theorem maskVal_idem (len b v : Nat) : Prefix.maskVal len b (Prefix.maskVal len b v) = Prefix.maskVal len b v := by
  unfold Prefix.maskVal
  split
  · rfl
  · rw [Nat.mul_div_cancel _ (Nat.pow_pos (by decide : 0 < 2))]

theorem maskVal_le (len b v : Nat) : Prefix.maskVal len b v ≤ v := by
  unfold Prefix.maskVal
  split
  · exact Nat.le_refl _
  · exact Nat.div_mul_le_self _ _

theorem masked_idem (p : Prefix) : p.masked.masked = p.masked := by
  unfold Prefix.masked
  have hb : ({ p.addr with val := Prefix.maskVal p.addr.bitLen p.bits p.addr.val } : IP).bitLen = p.addr.bitLen := rfl
  simp only [hb, maskVal_idem]

theorem is6_parts (a : IP) (h : a.is6 = true) : a.valid = true ∧ a.v4 = false := by
  unfold IP.is6 at h
  simpa using h

theorem is6_bitLen (a : IP) (h : a.is6 = true) : a.bitLen = 128 := by
  obtain ⟨hv, h4⟩ := is6_parts a h
  unfold IP.bitLen; simp [hv, h4]

/-- a masked (canonical) valid IPv6 prefix with a 128-bit value is canonical on the wire -/
theorem canonical_of_masked (q : Prefix) (h6 : q.addr.is6 = true) (hm : q.masked = q) (hb : q.bits ≤ 128)
    (hv : q.addr.val < 2 ^ 128) : canonical6 q.addr q.bits = true := by
  have hval : Prefix.maskVal 128 q.bits q.addr.val = q.addr.val := by
    have := congrArg (fun x => x.addr.val) hm
    simpa [Prefix.masked, is6_bitLen q.addr h6] using this
  unfold canonical6
  simp [h6, hb, hval, hv]

theorem canonical_of_c02 (q : Prefix) (hc : Spec.C02.canonical6 q = true) (hb : q.bits ≤ 128)
    (hv : q.addr.val < 2 ^ 128) : canonical6 q.addr q.bits = true := by
  unfold Spec.C02.canonical6 at hc
  simp only [Bool.and_eq_true, beq_iff_eq, Bool.not_eq_true'] at hc
  exact canonical_of_masked q hc.1.2 hc.1.1 hb hv

/-! #### lifetimes -/

theorem fits_sec32 (d : Dur) (h0 : 0 ≤ d) (h : d ≤ Spec.C02.maxLifetime) : fits d second 32 = true := by
  unfold fits
  simp only [Bool.and_eq_true, decide_eq_true_eq]
  refine ⟨h0, ?_⟩
  unfold Spec.C02.maxLifetime second at *
  omega

theorem lifetimeNow_bounds (dep : Bool) (sys : SysState) (l : Dur) (hclock : sys.epoch ≤ sys.now) (h0 : 0 ≤ l) :
    0 ≤ Spec.C01.lifetimeNow dep sys l ∧ Spec.C01.lifetimeNow dep sys l ≤ l := by
  unfold Spec.C01.lifetimeNow
  cases dep <;> simp <;> omega

theorem fits_lifetimeNow (dep : Bool) (sys : SysState) (l : Dur) (hclock : sys.epoch ≤ sys.now)
    (h0 : 0 ≤ l) (h : l ≤ Spec.C02.maxLifetime) : fits (Spec.C01.lifetimeNow dep sys l) second 32 = true := by
  have := lifetimeNow_bounds dep sys l hclock h0
  exact fits_sec32 _ this.1 (by omega)

theorem inPos_bounds (d : Dur) (h : Spec.C02.inPos d = true) : 0 ≤ d ∧ d ≤ Spec.C02.maxLifetime := by
  unfold Spec.C02.inPos at h
  simp only [Bool.and_eq_true, decide_eq_true_eq] at h
  exact ⟨by omega, h.2⟩

theorem inNonneg_bounds (d : Dur) (h : Spec.C02.inNonneg d = true) : 0 ≤ d ∧ d ≤ Spec.C02.maxLifetime := by
  unfold Spec.C02.inNonneg at h
  simpa using h

/-! #### what `pfxOf` returns -/

theorem pfxOf_cases (wild : Prefix) (s : PfxStr) (q : Prefix) (h : Spec.C02.pfxOf wild s = some q) :
    q = wild ∨ (s = .ok q ∧ Spec.C02.canonical6 q = true) := by
  cases s with
  | empty => simp only [Spec.C02.pfxOf, Option.some.injEq] at h; exact Or.inl h.symm
  | bad => cases h
  | ok p =>
    simp only [Spec.C02.pfxOf] at h
    split at h
    · rename_i hc
      simp only [Option.some.injEq] at h
      subst h
      exact Or.inr ⟨rfl, hc⟩
    · cases h


/-- value well-formedness of a successfully parsed CIDR: `netip` addresses are 128-bit values -/
def wfVal : PfxStr → Prop
  | .ok p => p.addr.val < 2 ^ 128
  | _ => True

/-- well-formed route dump: valid, canonical prefixes (C15's `WF`) with 128-bit values -/
def WFr (rs : List Prefix) : Prop := Props.C15.WF rs ∧ ∀ r ∈ rs, r.addr.val < 2 ^ 128

theorem isValid_valid (p : Prefix) (h : p.isValid = true) : p.addr.valid = true := by
  unfold Prefix.isValid at h; simp only [Bool.and_eq_true] at h; exact h.1

theorem not_is4_is6 (a : IP) (hv : a.valid = true) (h4 : a.is4 = false) : a.is6 = true := by
  unfold IP.is4 at h4; unfold IP.is6
  simp only [hv, Bool.true_and] at h4 ⊢
  simp [h4]

/-- every prefix the `::/64` wildcard expands to is a canonical IPv6 /64 -/
theorem wild_prefix_canonical (as : List SysIP) (hwf : Props.C14.WF as) (x : Prefix)
    (hx : x ∈ currentPrefixes 64 as) : canonical6 x.addr x.bits = true := by
  obtain ⟨a, ha, he, rfl⟩ := (Props.C13.mem_iff 64 as x).mp hx
  obtain ⟨_, hval⟩ := hwf a ha
  unfold Spec.C13.eligible at he
  simp only [Bool.and_eq_true, Bool.not_eq_true', beq_iff_eq] at he
  obtain ⟨⟨⟨⟨⟨hv, h4⟩, _⟩, hb⟩, _⟩, _⟩ := he
  have h6 : a.addr.masked.addr.is6 = true := not_is4_is6 _ (isValid_valid _ hv) h4
  apply canonical_of_masked _ h6 (masked_idem _)
  · show a.addr.bits ≤ 128; omega
  · exact Nat.lt_of_le_of_lt (maskVal_le _ _ _) hval

theorem docPrefix_parts (p : RawPrefix) (h : docPrefix p = true) :
    ∃ q v pr, pfxOf wildPrefix p.pstr = some q ∧ resolve p.valid (24 * hour) = some v ∧
      resolve p.preferred (4 * hour) = some pr ∧ inPos v = true ∧ inPos pr = true := by
  unfold docPrefix at h
  cases hq : pfxOf wildPrefix p.pstr with
  | none => rw [hq] at h; simp at h
  | some q =>
    cases hv : resolve p.valid (24 * hour) with
    | none => rw [hq, hv] at h; simp at h
    | some v =>
      cases hpr : resolve p.preferred (4 * hour) with
      | none => rw [hq, hv, hpr] at h; simp at h
      | some pr =>
        rw [hq, hv, hpr] at h
        simp only [Bool.and_eq_true] at h
        exact ⟨q, v, pr, rfl, rfl, rfl, h.1.1.1.2, h.1.1.2⟩

/-- every option of a documented `prefix` stanza is encodable -/
theorem prefix_opts_encodable (sys : SysState) (p : RawPrefix) (hdoc : docPrefix p = true)
    (hwf : wfPfx p.pstr = true) (hval : wfVal p.pstr) (hclock : sys.epoch ≤ sys.now)
    (haddrs : ∀ as, sys.addrs = some as → Props.C14.WF as)
    (l : List Opt) (h : Spec.C01.prefixOpts sys p = some l) : ∀ o ∈ l, encodable o = true := by
  obtain ⟨q, v, pr, hq, hv, hpr, hvp, hprp⟩ := docPrefix_parts p hdoc
  have hfv := fits_lifetimeNow p.deprecated sys v hclock (inPos_bounds v hvp).1 (inPos_bounds v hvp).2
  have hfp := fits_lifetimeNow p.deprecated sys pr hclock (inPos_bounds pr hprp).1 (inPos_bounds pr hprp).2
  unfold Spec.C01.prefixOpts at h
  simp only [hq, hv, hpr, Option.getD_some] at h
  by_cases hw : q = wildPrefix
  · subst hw
    simp only [beq_self_eq_true, if_true] at h
    cases hs : sys.addrs with
    | none => rw [hs] at h; cases h
    | some as =>
      rw [hs] at h
      simp only [Option.map_some, Option.some.injEq] at h
      subst h
      intro o ho
      obtain ⟨x, hx, rfl⟩ := List.mem_map.mp ho
      simp only [encodable, Bool.and_eq_true]
      exact ⟨⟨wild_prefix_canonical as (haddrs as hs) x hx, hfv⟩, hfp⟩
  · have hne : (q == wildPrefix) = false := by simpa using hw
    simp only [hne, Bool.false_eq_true, if_false, Option.some.injEq] at h
    subst h
    intro o ho
    simp only [List.mem_singleton] at ho
    subst ho
    rcases pfxOf_cases _ _ _ hq with hq' | ⟨hs, hc⟩
    · exact absurd hq' hw
    · rw [hs] at hwf hval
      simp only [wfPfx, decide_eq_true_eq] at hwf
      simp only [encodable, Bool.and_eq_true]
      exact ⟨⟨canonical_of_c02 q hc hwf hval, hfv⟩, hfp⟩

/-! #### routes -/

theorem prefCode_vals (c pc : Nat) (h : Spec.C02.prefCode c = some pc) : pc = 0 ∨ pc = 1 ∨ pc = 3 := by
  match c, h with
  | 0, h => simp [Spec.C02.prefCode] at h; omega
  | 1, h => simp [Spec.C02.prefCode] at h; omega
  | 2, h => simp [Spec.C02.prefCode] at h; omega
  | 3, h => simp [Spec.C02.prefCode] at h; omega
  | _ + 4, h => simp [Spec.C02.prefCode] at h

theorem pref_ok (pc : Nat) (h : pc = 0 ∨ pc = 1 ∨ pc = 3) : (pc == 0 || pc == 1 || pc == 3) = true := by
  rcases h with rfl | rfl | rfl <;> rfl

/-- every route the `::/0` wildcard expands to is a canonical IPv6 prefix -/
theorem wild_route_canonical (rs : List Prefix) (hwf : WFr rs) (x : Prefix)
    (hx : x ∈ currentRoutes rs) : canonical6 x.addr x.bits = true := by
  obtain ⟨hmem, hw⟩ := (Props.C15.mem_iff rs x).mp hx
  obtain ⟨hv, hm⟩ := hwf.1 x hmem
  have hval := hwf.2 x hmem
  unfold Spec.C15.wanted at hw
  simp only [Bool.and_eq_true, Bool.not_eq_true'] at hw
  have h6 : x.addr.is6 = true := not_is4_is6 _ (isValid_valid _ hv) hw.1.1
  have hb : x.bits ≤ 128 := by
    unfold Prefix.isValid at hv
    simp only [Bool.and_eq_true, decide_eq_true_eq, is6_bitLen _ h6] at hv
    exact hv.2
  exact canonical_of_masked x h6 hm hb hval

theorem docRoute_parts (r : RawRoute) (h : docRoute r = true) :
    ∃ q l pc, pfxOf wildRoute r.pstr = some q ∧ resolve r.lifetime (24 * hour) = some l ∧
      Spec.C02.prefCode r.preference = some pc ∧ inPos l = true := by
  unfold docRoute at h
  cases hq : pfxOf wildRoute r.pstr with
  | none => rw [hq] at h; simp at h
  | some q =>
    cases hl : resolve r.lifetime (24 * hour) with
    | none => rw [hq, hl] at h; simp at h
    | some l =>
      cases hpc : Spec.C02.prefCode r.preference with
      | none => rw [hq, hl, hpc] at h; simp at h
      | some pc =>
        rw [hq, hl, hpc] at h
        simp only [Bool.and_eq_true] at h
        exact ⟨q, l, pc, rfl, rfl, rfl, h.1.2⟩

/-- every option of a documented `route` stanza is encodable -/
theorem route_opts_encodable (sys : SysState) (r : RawRoute) (hdoc : docRoute r = true)
    (hwf : wfPfx r.pstr = true) (hval : wfVal r.pstr) (hclock : sys.epoch ≤ sys.now)
    (hroutes : ∀ rs, sys.routes = some rs → WFr rs)
    (l : List Opt) (h : Spec.C01.routeOpts sys r = some l) : ∀ o ∈ l, encodable o = true := by
  obtain ⟨q, lt, pc, hq, hl, hpc, hlp⟩ := docRoute_parts r hdoc
  have hfl := fits_lifetimeNow r.deprecated sys lt hclock (inPos_bounds lt hlp).1 (inPos_bounds lt hlp).2
  have hpref := pref_ok pc (prefCode_vals _ _ hpc)
  unfold Spec.C01.routeOpts at h
  simp only [hq, hl, hpc, Option.getD_some] at h
  by_cases hw : q = wildRoute
  · subst hw
    simp only [beq_self_eq_true, if_true] at h
    cases hs : sys.routes with
    | none => rw [hs] at h; cases h
    | some rs =>
      rw [hs] at h
      simp only [Option.map_some, Option.some.injEq] at h
      subst h
      intro o ho
      obtain ⟨x, hx, rfl⟩ := List.mem_map.mp ho
      simp only [encodable, Bool.and_eq_true]
      exact ⟨⟨wild_route_canonical rs (hroutes rs hs) x hx, hpref⟩, hfl⟩
  · have hne : (q == wildRoute) = false := by simpa using hw
    simp only [hne, Bool.false_eq_true, if_false, Option.some.injEq] at h
    subst h
    intro o ho
    simp only [List.mem_singleton] at ho
    subst ho
    rcases pfxOf_cases _ _ _ hq with hq' | ⟨hs, hc⟩
    · exact absurd hq' hw
    · rw [hs] at hwf hval
      simp only [wfPfx, decide_eq_true_eq] at hwf
      simp only [encodable, Bool.and_eq_true]
      exact ⟨⟨canonical_of_c02 q hc hwf hval, hpref⟩, hfl⟩

/-! #### RDNSS -/

theorem serverOk_is6 (s : AddrStr) (h : Spec.C02.serverOk s = true) : (Spec.C02.serverAddr s).is6 = true := by
  cases s with
  | bad => cases h
  | ok a => simp only [Spec.C02.serverOk, Bool.and_eq_true] at h; exact h.1

/-- the address the `::` wildcard chooses is an IPv6 address -/
theorem wild_rdnss_is6 (as : List SysIP) (hwf : Props.C14.WF as) (ip : IP) (h : currentRDNSS as = some ip) :
    ip.is6 = true := by
  obtain ⟨a, ha, he, rfl, _⟩ := (Props.C14.some_iff as hwf ip).mp h
  unfold Spec.C14.eligible at he
  simp only [Bool.and_eq_true, Bool.not_eq_true'] at he
  exact not_is4_is6 _ (isValid_valid _ (hwf a ha).1) he.1.1.1

theorem docRDNSS_parts (maxI : Dur) (d : RawRDNSS) (h : docRDNSS maxI d = true) :
    ∃ l, resolve d.lifetime (3 * maxI) = some l ∧ inNonneg l = true ∧ d.servers.all Spec.C02.serverOk = true := by
  unfold docRDNSS at h
  cases hl : resolve d.lifetime (3 * maxI) with
  | none => rw [hl] at h; cases h
  | some l =>
    rw [hl] at h
    simp only [Bool.and_eq_true] at h
    exact ⟨l, rfl, h.1.1.1, h.1.1.2⟩

/-- every option of a documented `rdnss` stanza with at most 127 servers is encodable -/
theorem rdnss_opts_encodable (sys : SysState) (maxI : Dur) (d : RawRDNSS) (hdoc : docRDNSS maxI d = true)
    (hcount : d.servers.length ≤ 127) (haddrs : ∀ as, sys.addrs = some as → Props.C14.WF as)
    (l : List Opt) (h : Spec.C01.rdnssOpts sys maxI d = some l) : ∀ o ∈ l, encodable o = true := by
  obtain ⟨lt, hl, hlp, hok⟩ := docRDNSS_parts maxI d hdoc
  have hfl := fits_sec32 lt (inNonneg_bounds lt hlp).1 (inNonneg_bounds lt hlp).2
  rw [List.all_eq_true] at hok
  unfold Spec.C01.rdnssOpts at h
  simp only [hl, Option.getD_some] at h
  -- the static servers
  have hlen : (sortBy addrKey ((d.servers.map Spec.C02.serverAddr).filter (fun a => !a.isUnspecified))).length =
      ((d.servers.map Spec.C02.serverAddr).filter (fun a => !a.isUnspecified)).length :=
    (sortBy_perm _ _).length_eq
  have hall6 : ∀ x ∈ sortBy addrKey ((d.servers.map Spec.C02.serverAddr).filter (fun a => !a.isUnspecified)),
      x.is6 = true := by
    intro x hx
    rw [mem_sortBy, List.mem_filter, List.mem_map] at hx
    obtain ⟨⟨s, hs, rfl⟩, _⟩ := hx
    exact serverOk_is6 s (hok s hs)
  generalize hst : sortBy addrKey ((d.servers.map Spec.C02.serverAddr).filter (fun a => !a.isUnspecified)) = static at *
  by_cases hauto : (d.servers.isEmpty || (d.servers.map Spec.C02.serverAddr).any (·.isUnspecified)) = true
  · rw [if_pos hauto] at h
    cases hs : sys.addrs with
    | none => rw [hs] at h; cases h
    | some as =>
      rw [hs] at h
      simp only at h
      cases hc : currentRDNSS as with
      | none => rw [hc] at h; cases h
      | some ip =>
        rw [hc] at h
        simp only [Option.map_some, Option.some.injEq] at h
        subst h
        intro o ho
        simp only [List.mem_singleton] at ho
        subst ho
        have hlt : static.length + 1 ≤ 127 := by
          rw [hlen]
          simp only [Bool.or_eq_true, List.isEmpty_iff, List.any_eq_true] at hauto
          rcases hauto with he | ⟨x, hx, hu⟩
          · simp [he]
          · have : ((d.servers.map Spec.C02.serverAddr).filter (fun a => !a.isUnspecified)).length <
                (d.servers.map Spec.C02.serverAddr).length :=
              List.length_filter_lt_length_iff_exists.mpr ⟨x, hx, by simp [hu]⟩
            rw [List.length_map] at this
            omega
        simp only [encodable, Bool.and_eq_true, List.isEmpty_cons, Bool.not_false, List.length_cons,
          decide_eq_true_eq, List.all_cons, true_and]
        exact ⟨⟨hlt, wild_rdnss_is6 as (haddrs as hs) ip hc, List.all_eq_true.mpr hall6⟩, hfl⟩
  · rw [if_neg hauto] at h
    simp only [Option.some.injEq] at h
    subst h
    intro o ho
    simp only [List.mem_singleton] at ho
    subst ho
    simp only [Bool.or_eq_true, not_or, Bool.not_eq_true, List.any_eq_false] at hauto
    obtain ⟨hne, hnu⟩ := hauto
    have hfull : (d.servers.map Spec.C02.serverAddr).filter (fun a => !a.isUnspecified) = d.servers.map Spec.C02.serverAddr :=
      List.filter_eq_self.mpr (fun x hx => by simpa using hnu x hx)
    rw [hfull, List.length_map] at hlen
    have hpos : 0 < d.servers.length := by
      cases hd : d.servers with
      | nil => rw [hd] at hne; simp at hne
      | cons _ _ => simp
    have hnem : static.isEmpty = false := by
      cases static with
      | nil => simp at hlen; omega
      | cons _ _ => rfl
    simp only [encodable, Bool.and_eq_true, hnem, Bool.not_false, decide_eq_true_eq, true_and]
    exact ⟨⟨by omega, List.all_eq_true.mpr hall6⟩, hfl⟩

/-! #### DNSSL, MTU, source LLA, captive portal, PREF64 -/

theorem dnssl_opt_encodable (maxI : Dur) (d : RawDNSSL) (hdoc : docDNSSL maxI d = true) :
    encodable (Opt.dnssl ((resolve d.lifetime (3 * maxI)).getD 0) d.names) = true := by
  unfold docDNSSL at hdoc
  cases hl : resolve d.lifetime (3 * maxI) with
  | none => rw [hl] at hdoc; cases hdoc
  | some l =>
    rw [hl] at hdoc
    simp only [Bool.and_eq_true] at hdoc
    obtain ⟨⟨⟨hlp, hne⟩, hne0⟩, _⟩ := hdoc
    simp only [Option.getD_some, encodable, Bool.and_eq_true]
    exact ⟨⟨hne, hne0⟩, fits_sec32 l (inNonneg_bounds l hlp).1 (inNonneg_bounds l hlp).2⟩

theorem mtu_opt_encodable (m : Int) (h0 : 0 ≤ m) (h1 : m ≤ 65536) : encodable (Opt.mtu m) = true := by
  simp only [encodable, Bool.and_eq_true, decide_eq_true_eq]
  have : (2:Int) ^ 32 = 4294967296 := by decide
  omega

theorem lla_opt_encodable (len mac : Nat) (h : len = 6) : encodable (Opt.lla len mac) = true := by
  subst h; rfl

theorem portal_opt_encodable (u len : Nat) (h1 : 1 ≤ len) (h2 : len ≤ 246) :
    encodable (Opt.captivePortal u len) = true := by
  simp only [encodable, Bool.and_eq_true, decide_eq_true_eq]; exact ⟨h1, h2⟩

theorem nat64Len_eq (b : Nat) : Spec.C03.nat64Len b = Spec.C02.nat64Len b := rfl

theorem pref64_opt_encodable (maxI : Dur) (p : RawPref64) (hdoc : docPref64 p = true)
    (h4 : 4 * second ≤ maxI) (h1800 : maxI ≤ 1800 * second) :
    encodable (Opt.pref64 ((Spec.C02.pref64Of p).getD Spec.C02.wellKnown64) (Spec.C02.pref64Lifetime maxI)) = true := by
  obtain ⟨hf, hle, hmod⟩ := Props.C01.pref64_lifetime_formula maxI h4 h1800
  have hge := (Props.C01.pref64_lifetime_ge maxI h4 h1800).1
  have hlt : 0 ≤ Spec.C02.pref64Lifetime maxI ∧ Spec.C02.pref64Lifetime maxI / (8 * second) ≤ 8191 := by
    unfold second at *; omega
  unfold docPref64 at hdoc
  cases hq : Spec.C02.pref64Of p with
  | none => rw [hq] at hdoc; cases hdoc
  | some q =>
    rw [hq] at hdoc
    simp only at hdoc
    have hcanon : q.addr.is6 = true ∧ q.addr.is4In6 = false ∧ q.masked = q := by
      cases p with
      | unset => simp only [Spec.C02.pref64Of, Option.some.injEq] at hq; subst hq; decide
      | empty => simp only [Spec.C02.pref64Of, Option.some.injEq] at hq; subst hq; decide
      | str s =>
        cases s with
        | empty => simp only [Spec.C02.pref64Of, Option.some.injEq] at hq; subst hq; decide
        | bad => cases hq
        | ok x =>
          simp only [Spec.C02.pref64Of] at hq
          split at hq
          · rename_i hc
            simp only [Option.some.injEq] at hq
            subst hq
            unfold Spec.C02.canonical6 at hc
            simp only [Bool.and_eq_true, beq_iff_eq, Bool.not_eq_true'] at hc
            exact ⟨hc.1.2, hc.2, hc.1.1⟩
          · cases hq
    simp only [Option.getD_some, encodable, Bool.and_eq_true, decide_eq_true_eq, beq_iff_eq, Bool.not_eq_true',
      nat64Len_eq]
    exact ⟨⟨⟨⟨⟨⟨hcanon.1, hcanon.2.1⟩, hdoc⟩, hcanon.2.2⟩, hlt.1⟩, hmod⟩, hlt.2⟩

/-! #### the header -/

theorem plainDur_within (s : DurStr) (h : Spec.C02.within 0 hour (Spec.C02.plainDur s 0) = true) :
    fits ((Spec.C02.plainDur s 0).getD 0) ms 32 = true := by
  cases hp : Spec.C02.plainDur s 0 with
  | none => rw [hp] at h; cases h
  | some d =>
    rw [hp] at h
    simp only [Spec.C02.within, Bool.and_eq_true, decide_eq_true_eq] at h
    simp only [Option.getD_some, fits, Bool.and_eq_true, decide_eq_true_eq]
    refine ⟨h.1, ?_⟩
    have := h.2
    unfold hour second at this
    unfold ms
    omega

theorem lifetimeOf_fits (s : DurStr) (maxI : Dur) (h4 : 4 * second ≤ maxI) :
    fits ((Spec.C02.lifetimeOf s maxI).getD 0) second 16 = true := by
  unfold Spec.C02.lifetimeOf
  have hz : fits 0 second 16 = true := by decide
  cases resolve s (3 * maxI) with
  | none => exact hz
  | some l =>
    simp only
    split
    · rename_i h
      simp only [Option.getD_some, fits, Bool.and_eq_true, decide_eq_true_eq]
      have : (2:Int) ^ 16 = 65536 := by decide
      unfold second at *
      omega
    · exact hz

/-- the header of the RA an accepted advertising stanza calls for is within every field's range -/
theorem header_wireSafe (i : RawInterface) (maxI : Dur) (fw : Bool) (h4 : 4 * second ≤ maxI)
    (hsc : Props.C02.docScalars i maxI = true) :
    (i.hopLimit.getD 64).toNat ≤ 255 ∧
    (((Spec.C02.prefCode i.preference).getD 0 == 0 || (Spec.C02.prefCode i.preference).getD 0 == 1 ||
      (Spec.C02.prefCode i.preference).getD 0 == 3) = true) ∧
    fits (if fw then (Spec.C02.lifetimeOf i.defaultLifetime maxI).getD 0 else 0) second 16 = true ∧
    fits ((Spec.C02.plainDur i.reachable 0).getD 0) ms 32 = true ∧
    fits ((Spec.C02.plainDur i.retransmit 0).getD 0) ms 32 = true := by
  unfold Props.C02.docScalars at hsc
  simp only [Bool.and_eq_true] at hsc
  obtain ⟨⟨⟨⟨⟨_, hre⟩, hrt⟩, hhop⟩, _⟩, hpc⟩ := hsc
  refine ⟨?_, ?_, ?_, plainDur_within _ hre, plainDur_within _ hrt⟩
  · cases hh : i.hopLimit with
    | none => decide
    | some h =>
      rw [hh] at hhop
      simp only [Bool.and_eq_true, decide_eq_true_eq] at hhop
      simp only [Option.getD_some]
      omega
  · cases hp : Spec.C02.prefCode i.preference with
    | none => rw [hp] at hpc; cases hpc
    | some pc => exact pref_ok pc (prefCode_vals _ _ hp)
  · cases fw
    · exact (by decide : fits 0 second 16 = true)
    · exact lifetimeOf_fits _ _ h4

/-! #### assembly -/

theorem concatOpts_mem (L : List (Option (List Opt))) (opts : List Opt) (h : Spec.C01.concatOpts L = some opts) :
    ∀ o ∈ opts, ∃ l, some l ∈ L ∧ o ∈ l := by
  induction L generalizing opts with
  | nil =>
    simp only [Spec.C01.concatOpts, Option.some.injEq] at h
    subst h
    intro o ho; cases ho
  | cons x xs ih =>
    cases x with
    | none => cases h
    | some a =>
      simp only [Spec.C01.concatOpts] at h
      cases hr : Spec.C01.concatOpts xs with
      | none => rw [hr] at h; cases h
      | some rest =>
        rw [hr] at h
        simp only [Option.map_some, Option.some.injEq] at h
        subst h
        intro o ho
        rcases List.mem_append.mp ho with ho | ho
        · exact ⟨a, List.mem_cons_self, ho⟩
        · obtain ⟨l, hl, hol⟩ := ih rest hr o ho
          exact ⟨l, List.mem_cons_of_mem _ hl, hol⟩

/-- input well-formedness beyond C02's `wfIface`: the addresses of successfully parsed
    `prefix`/`route` CIDRs are 128-bit values (as every `netip.Addr` is) -/
def wfVals (i : RawInterface) : Prop :=
  (∀ p ∈ i.prefixes, wfVal p.pstr) ∧ (∀ r ∈ i.routes, wfVal r.pstr)

/-- every option an accepted advertising stanza calls for is encodable -/
theorem options_encodable (i : RawInterface) (sys : SysState) (maxI : Dur)
    (hwf : Props.C02.wfIface i = true) (hvals : wfVals i)
    (h4 : 4 * second ≤ maxI) (h1800 : maxI ≤ 1800 * second) (hpl : Props.C02.docPlugins i maxI = true)
    (hclock : sys.epoch ≤ sys.now) (hmac : ∀ l m, sys.mac = some (l, m) → l = 6)
    (haddrs : ∀ as, sys.addrs = some as → Props.C14.WF as)
    (hroutes : ∀ rs, sys.routes = some rs → WFr rs)
    (hcount : ∀ d ∈ i.rdnss, d.servers.length ≤ 127)
    (hportal : ∀ u l, i.captivePortal = .ok u l → 1 ≤ l)
    (opts : List Opt) (h : Spec.C01.expectedOptions i sys maxI = some opts) :
    ∀ o ∈ opts, encodable o = true := by
  unfold Props.C02.wfIface at hwf
  simp only [Bool.and_eq_true, List.all_eq_true] at hwf
  unfold Props.C02.docPlugins at hpl
  simp only [Bool.and_eq_true, List.all_eq_true, decide_eq_true_eq] at hpl
  obtain ⟨⟨⟨⟨⟨⟨⟨⟨⟨hdp, _⟩, hdr⟩, _⟩, hdd⟩, hds⟩, hm0⟩, hm1⟩, hcp⟩, hd64⟩ := hpl
  intro o ho
  unfold Spec.C01.expectedOptions at h
  obtain ⟨l, hl, hol⟩ := concatOpts_mem _ _ h o ho
  simp only [List.mem_append, List.mem_map, List.mem_singleton, Option.some.injEq] at hl
  rcases hl with ((((((⟨p, hp, hpo⟩ | ⟨r, hr, hro⟩) | ⟨d, hd, hdo⟩) | ⟨d, hd, hdo⟩) | hmtu) | hlla) | hport) | ⟨p, hp, hpo⟩
  · exact prefix_opts_encodable sys p (hdp p hp) (hwf.1 p hp) (hvals.1 p hp) hclock haddrs l hpo o hol
  · exact route_opts_encodable sys r (hdr r hr) (hwf.2 r hr) (hvals.2 r hr) hclock hroutes l hro o hol
  · exact rdnss_opts_encodable sys maxI d (hdd d hd) (hcount d hd) haddrs l hdo o hol
  · subst hdo
    simp only [List.mem_singleton] at hol
    subst hol
    exact dnssl_opt_encodable maxI d (hds d hd)
  · subst hmtu
    split at hol
    · simp only [List.mem_singleton] at hol
      subst hol
      exact mtu_opt_encodable _ hm0 hm1
    · cases hol
  · subst hlla
    split at hol
    · cases hmc : sys.mac with
      | none => rw [hmc] at hol; cases hol
      | some x =>
        obtain ⟨len, mac⟩ := x
        rw [hmc] at hol
        simp only [List.mem_singleton] at hol
        subst hol
        exact lla_opt_encodable _ _ (hmac len mac hmc)
    · cases hol
  · subst hport
    cases hc : i.captivePortal with
    | empty => rw [hc] at hol; cases hol
    | bad => rw [hc] at hol; cases hol
    | ok u len =>
      rw [hc] at hol hcp
      simp only [List.mem_singleton] at hol
      subst hol
      simp only [Spec.C02.portalOk, decide_eq_true_eq] at hcp
      exact portal_opt_encodable u len (hportal u len hc) hcp
  · subst hpo
    simp only [List.mem_singleton] at hol
    subst hol
    exact pref64_opt_encodable maxI p (hd64 p hp) h4 h1800

/-- **Accepted ⇒ wire safe.**  The RA an accepted advertising stanza calls for — in every
    system state with a non-decreasing clock, a 6-byte hardware address (if any) and well-formed
    address/route dumps, with forwarding on or off — has every duration within its field's
    range and every option encodable. -/
theorem accepted_wireSafe (i : RawInterface) (sys : SysState) (fw : Bool)
    (hwf : Props.C02.wfIface i = true) (hvals : wfVals i)
    (hdoc : Spec.C02.docInterface i = true) (hadv : i.monitor = false)
    (hclock : sys.epoch ≤ sys.now) (hmac : ∀ l m, sys.mac = some (l, m) → l = 6)
    (haddrs : ∀ as, sys.addrs = some as → Props.C14.WF as)
    (hroutes : ∀ rs, sys.routes = some rs → WFr rs)
    (hcount : ∀ d ∈ i.rdnss, d.servers.length ≤ 127)
    (hportal : ∀ u l, i.captivePortal = .ok u l → 1 ≤ l)
    (ra : RA) (h : Spec.C01.expectedRA i sys fw = some ra) : wireSafe ra = true := by
  obtain ⟨maxI, hm, h4, h1800, hsc, hpl⟩ := Props.C01.doc_maxI i hdoc hadv
  unfold Spec.C01.expectedRA at h
  simp only [hm, Option.getD_some] at h
  cases ho : Spec.C01.expectedOptions i sys maxI with
  | none => rw [ho] at h; cases h
  | some opts =>
    rw [ho] at h
    simp only [Option.map_some, Option.some.injEq] at h
    subst h
    obtain ⟨hh, hp, hrl, hre, hrt⟩ := header_wireSafe i maxI fw h4 hsc
    have hopts := options_encodable i sys maxI hwf hvals h4 h1800 hpl hclock hmac haddrs hroutes hcount hportal opts ho
    unfold wireSafe
    simp only [Bool.and_eq_true, decide_eq_true_eq, List.all_eq_true]
    exact ⟨⟨⟨⟨⟨hh, hp⟩, hrl⟩, hre⟩, hrt⟩, hopts⟩

/-- the source only appends the option for a 48-bit hardware address (regenerated from
    `(*LLA).Apply`; fails to build on a tree without that test) -/
theorem gen_lla_requires_ethernet : Gen.Plugin.llaRequiresEthernet = true := by decide

/-- …and for an interface with **any** hardware address (none, 48-bit, or another length), once
    the `source_lla` plugin only uses a 48-bit one (`normSys true`, the repair of F-19): the
    hypothesis on the hardware address is discharged, not assumed. -/
theorem accepted_wireSafe_any_hw (i : RawInterface) (sys : SysState) (fw : Bool)
    (hwf : Props.C02.wfIface i = true) (hvals : wfVals i)
    (hdoc : Spec.C02.docInterface i = true) (hadv : i.monitor = false)
    (hclock : sys.epoch ≤ sys.now)
    (haddrs : ∀ as, sys.addrs = some as → Props.C14.WF as)
    (hroutes : ∀ rs, sys.routes = some rs → WFr rs)
    (hcount : ∀ d ∈ i.rdnss, d.servers.length ≤ 127)
    (hportal : ∀ u l, i.captivePortal = .ok u l → 1 ≤ l)
    (ra : RA) (h : Spec.C01.expectedRA i (normSys true sys) fw = some ra) : wireSafe ra = true := by
  apply accepted_wireSafe i (normSys true sys) fw hwf hvals hdoc hadv
    (by simpa [normSys] using hclock) ?_ (by simpa [normSys] using haddrs) (by simpa [normSys] using hroutes)
    hcount hportal ra h
  intro l m hm
  simp only [normSys, if_true] at hm
  cases hmac : sys.mac with
  | none => simp [hmac] at hm
  | some p =>
    simp only [hmac, Option.filter] at hm
    split at hm
    · rename_i hp
      simp only [Option.some.injEq] at hm
      subst hm
      simpa using hp
    · cases hm

/-- the pinned source's treatment: a 20-byte hardware address yields an option no RA can carry -/
example : wireSafe ({ hopLimit := 64, routerLifetime := 1800 * second, options := [Opt.lla 20 4660] } : RA) = false := by
  decide

/-- the same for the RA the model builds from the resolved interface -/
theorem built_wireSafe (n : Nat) (i : RawInterface) (sys : SysState) (fw : Bool)
    (hwf : Props.C02.wfIface i = true) (hvals : wfVals i)
    (hdoc : Spec.C02.docInterface i = true) (hadv : i.monitor = false)
    (hclock : sys.epoch ≤ sys.now) (hmac : ∀ l m, sys.mac = some (l, m) → l = 6)
    (haddrs : ∀ as, sys.addrs = some as → Props.C14.WF as)
    (hroutes : ∀ rs, sys.routes = some rs → WFr rs)
    (hcount : ∀ d ∈ i.rdnss, d.servers.length ≤ 127)
    (hportal : ∀ u l, i.captivePortal = .ok u l → 1 ≤ l)
    (ra : RA) (mis : Bool) (h : routerAdvertisement (Spec.C02.expInterface n i) sys fw = some (ra, mis)) :
    wireSafe ra = true := by
  apply accepted_wireSafe i sys fw hwf hvals hdoc hadv hclock hmac haddrs hroutes hcount hportal
  rw [← Props.C01.build_eq_spec n i sys fw hdoc hadv, h]
  rfl

/-- parse, build, encode, decode: whatever the parser accepts yields an RA whose decoded wire
    image is the RA itself with every duration truncated to its field's unit -/
theorem accepted_roundtrip (n : Nat) (i : RawInterface) (sys : SysState) (fw : Bool)
    (hwf : Props.C02.wfIface i = true) (hvals : wfVals i) (hadv : i.monitor = false)
    (hclock : sys.epoch ≤ sys.now) (hmac : ∀ l m, sys.mac = some (l, m) → l = 6)
    (haddrs : ∀ as, sys.addrs = some as → Props.C14.WF as)
    (hroutes : ∀ rs, sys.routes = some rs → WFr rs)
    (hcount : ∀ d ∈ i.rdnss, d.servers.length ≤ 127)
    (hportal : ∀ u l, i.captivePortal = .ok u l → 1 ≤ l)
    (ifi : Interface) (hparse : parseInterface n i = some ifi)
    (ra : RA) (mis : Bool) (h : routerAdvertisement ifi sys fw = some (ra, mis)) :
    wireSafe ra = true ∧ decodeFields (encodeFields ra) = truncateRA ra := by
  rw [Props.C02.parseInterface_eq n i hwf] at hparse
  cases hd : Spec.C02.docInterface i with
  | false => rw [hd] at hparse; cases hparse
  | true =>
    rw [hd] at hparse
    simp only [if_true, Option.some.injEq] at hparse
    subst hparse
    have hs := built_wireSafe n i sys fw hwf hvals hd hadv hclock hmac haddrs hroutes hcount hportal ra mis h
    exact ⟨hs, roundtrip ra hs⟩

/-- The model (with the field-level codec) meets the oracle that the check evaluates on the
    implementation's output. -/
theorem holds_model (ra : RA) (h : wireSafe ra = true) :
    Spec.C03.holds "ok" (some ra) "wire" (some (decodeFields (encodeFields ra))) = (true, "") := by
  unfold Spec.C03.holds
  rw [roundtrip ra h]
  simp only [h, Bool.not_true, Bool.false_eq_true, if_false, beq_self_eq_true, if_true]
  decide

/-! ### non-vacuity and the necessity of the hypotheses -/

open Corerad.Props.C01 (exIface exSys exRA ex_expected)

/-- every hypothesis of `accepted_wireSafe` is satisfiable at once, and the theorem then yields
    wire safety of a 10-option RA; its decoded wire image truncates the two sub-second
    lifetimes (2999.999999996 s → 2999 s, 1199.999999995 s → 1199 s) and nothing else -/
example : wireSafe exRA = true ∧
    decodeFields (encodeFields exRA) =
      { exRA with options := (exRA.options.set 1
          (.pi { val := 0x20010db8000000010000000000000000 } 64 true false (2999 * second) (1199 * second))) } := by
  have hs : wireSafe exRA = true := by
    apply accepted_wireSafe exIface exSys true (by decide) ?_ (by decide +kernel) rfl (by decide) ?_ ?_ ?_ ?_ ?_ exRA
      ex_expected
    · refine ⟨?_, ?_⟩ <;> intro p hp <;> simp only [exIface, List.mem_cons, List.not_mem_nil, or_false] at hp <;>
        rcases hp with rfl | rfl <;> simp [wfVal]
    · intro l m h; simp only [exSys, Option.some.injEq, Prod.mk.injEq] at h; exact h.1.symm
    · intro as h
      simp only [exSys, Option.some.injEq] at h
      subst h
      intro a ha
      simp only [List.mem_cons, List.not_mem_nil, or_false] at ha
      rcases ha with rfl | rfl <;> exact ⟨by decide, by decide⟩
    · intro rs h
      simp only [exSys, Option.some.injEq] at h
      subst h
      refine ⟨?_, ?_⟩ <;> intro r hr <;> simp only [List.mem_cons, List.not_mem_nil, or_false] at hr <;> subst hr
      · exact ⟨by decide, by decide⟩
      · decide
    · intro d hd
      simp only [exIface, List.mem_cons, List.not_mem_nil, or_false] at hd
      subst hd; decide
    · intro u l h
      simp only [exIface, CPStr.ok.injEq] at h
      omega
  exact ⟨hs, by rw [roundtrip exRA hs]; decide +kernel⟩

/-- `hportal` is necessary: the documented constraints (and the parser) accept a captive
    portal whose recorded length is 0, which no wire-safe RA can carry.  (`ndp.NewCaptivePortal`
    never returns an empty URI for a non-empty string, so the raw value cannot occur.) -/
theorem portal_len_needed :
    Spec.C02.portalOk (.ok 9 0) = true ∧ encodable (.captivePortal 9 0) = false := by decide

/-- `wfVals` is necessary: a value of 2^128 passes the documented canonical-prefix test (it is
    its own /64 mask) but is not a 128-bit address.  (`netip.Addr` cannot hold it.) -/
theorem wfVals_needed :
    let q : Prefix := { addr := { val := 2 ^ 128 }, bits := 64 }
    Spec.C02.docPrefix { pstr := .ok q } = true ∧ wfPfx (.ok q) = true ∧
    canonical6 q.addr q.bits = false := by decide +kernel

/-- `hclock` is necessary: with the clock *before* the epoch, a deprecated lifetime exceeds its
    configured value and may leave the 32-bit range -/
theorem clock_needed :
    let p : RawPrefix := { pstr := .ok { addr := { val := 0x20010db8000000010000000000000000 }, bits := 64 },
                           valid := .lit (4294967294 * second), preferred := .lit second, deprecated := true }
    Spec.C02.docPrefix p = true ∧
    (Spec.C01.prefixOpts { epoch := 10 * second, now := 0 } p).map (·.all encodable) = some false := by
  decide +kernel

/-- `hcount` is necessary: 128 distinct static servers are documented (no limit is) but do not
    fit one RDNSS option's 8-bit length -/
theorem count_needed :
    let d : RawRDNSS := { servers := (List.range 128).map fun k => .ok { val := 0x20010db8000000000000000000000001 + k } }
    Spec.C02.docRDNSS (600 * second) d = true ∧
    (Spec.C01.rdnssOpts {} (600 * second) d).map (·.all encodable) = some false := by
  decide +kernel

end Corerad.Props.C03
