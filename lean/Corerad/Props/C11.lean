/-
  C11 — connections cleaned up exactly once; IPv6 autoconf always restored.

  Every trace theorem quantifies over every configuration (mode, initial autoconf value,
  cancellation instant) and every script — any number of `DialFunc` calls, each with any
  lookup/dialNDP outcome, any get/set/restore fault in {none, permission, not-exist, other} and
  any task outcome — and is proved by induction on the script (`Lemmas.Dialer.goRun_induct`:
  an invariant of the oracle automaton's state at the loop heads of `Dial`/`init`).  The model
  is Model/Dialer.lean, the automata the check evaluates on the implementation's call log are in
  Spec/C11.lean.

  `dial()`'s treatment of the socket when `setAutoconf` fails is a regenerated fact.  The bracket
  theorem is stated under `Gen.Dialer.dialLeaksConnOnAutoconfError = false`; `gen_no_leak` is
  the obligation that the source is in that state (it fails to check on a leaking tree, and
  `bracket_fails_when_leaking` is the kernel-checked reason why the theorem cannot hold
  there).  The autoconf theorems hold for either composition.

  Residue (not a theorem): what the operating system does behind `system.State` and the raw
  socket; a write is assumed to take effect iff it returns nil.
-/
import Corerad.Spec.C11
import Corerad.Lemmas.Dialer

namespace Corerad.Props.C11

open Corerad Corerad.Model.Dialer Corerad.Spec.C11

/-! ### regenerated facts -/

/-- `dial()` closes the socket on the path `restore, err = d.setAutoconf(); err != nil` -/
theorem gen_no_leak : Gen.Dialer.dialLeaksConnOnAutoconfError = false := by decide

/-- the `done` closure leaves the group, closes the socket, then restores autoconf -/
theorem gen_doneCalls : Gen.Dialer.doneCalls = ["conn.LeaveGroup", "conn.Close", "restore"] := by
  decide

/-! ### bracket -/

/-- When `dial()` closes the socket on its error path: in every run the connection events are
    `(open k · [fnStart k · fnReturn k] · leave k · cleanup k)* · ret` with increasing `k` —
    each connection is cleaned up exactly once, after its task returned, before the next one is
    opened and before `Dial` returns; and the trace ends with the return. -/
theorem bracket_of_no_leak (cfg : Cfg) (s : List Attempt) :
    bracketOk (dialRunWith false cfg s).evs = true := by
  have := goRun_induct false cfg bStep (fun _ st b => InvB st b)
    (fun b _ _ => b.ok = true ∧ b.done = true)
    (by
      intro ph st a b h
      have hs := stepAttempt_bracket cfg ph st a b h
      cases hn : (stepAttempt false cfg ph st a).next with
      | inr ph' => exact hs
      | inl e =>
        obtain ⟨hc, _, hd, hok⟩ := hs
        simp [bStep, hc, hd, hok])
    s .first { k := 0, now := 0, ac := cfg.ac0 } {} (by simp [InvB])
  simpa [bracketOk, bRun, dialRunWith] using this

/-- The bracket property of `Dialer.Dial` as the source composes `dial()`. -/
theorem bracket (h : Gen.Dialer.dialLeaksConnOnAutoconfError = false) (cfg : Cfg)
    (s : List Attempt) : bracketOk (dialRun cfg s).evs = true := by
  unfold dialRun
  rw [h]
  exact bracket_of_no_leak cfg s

/-- If `dial()` returns without closing the socket when `setAutoconf` fails, the bracket
    property is false: one `DialFunc` call whose autoconf read fails opens connection 0 and the
    run returns without ever cleaning it up. -/
theorem bracket_fails_when_leaking :
    ¬ ∀ (cfg : Cfg) (s : List Attempt), bracketOk (dialRunWith true cfg s).evs = true := by
  intro h
  exact absurd (h {} [{ get := .other }]) (by decide)

/-- …and so is it after a recoverable first failure, in the retry loop, where the leaked socket
    is followed by further dials: a second connection is opened while the first is still open. -/
theorem bracket_fails_when_leaking_retry :
    bracketOk (dialRunWith true {} [{ pre := .linkNotReady }, { set := .other }, {}]).evs = false := by
  decide

/-! ### autoconf -/

/-- no event changes what the automaton took as the initial value -/
private theorem aRun_init (ac0 : Bool) (evs : List Ev) : (aRun ac0 evs).init = ac0 := by
  have h : ∀ (evs : List Ev) (x : AAcc), (evs.foldl aStep x).init = x.init := by
    intro evs
    induction evs with
    | nil => intro x; rfl
    | cons e evs ih =>
      intro x
      rw [List.foldl_cons, ih]
      cases e <;> simp only [aStep, aPre] <;> (repeat' split) <;> rfl
  exact h evs _

private theorem autoconf_run (leak : Bool) (cfg : Cfg) (s : List Attempt) :
    let x := aRun cfg.ac0 (dialRunWith leak cfg s).evs
    x.okHeld = true ∧ x.okRestore = true ∧ x.okErrors = true ∧ x.okRestored = true ∧
      x.value = (dialRunWith leak cfg s).ac ∧ (x.setFailed = false → x.value = x.init) := by
  have := goRun_induct leak cfg aStep (fun _ st x => InvA st none x)
    (fun x _ ac => x.okHeld = true ∧ x.okRestore = true ∧ x.okErrors = true ∧
      x.okRestored = true ∧ x.value = ac ∧ (x.setFailed = false → x.value = x.init))
    (by
      intro ph st a x h
      have hs := stepAttempt_autoconf leak cfg ph st a x h
      cases hn : (stepAttempt leak cfg ph st a).next with
      | inr ph' => rw [hn] at hs; exact hs
      | inl e =>
        rw [hn] at hs
        obtain ⟨hp, hm, hv, hsf, h1, h2, h3, h4⟩ := hs
        cases e <;> cases hf : (List.foldl aStep x (stepAttempt leak cfg ph st a).evs).setFailed <;>
          simp_all [aStep, aPre, mustOf])
    s .first { k := 0, now := 0, ac := cfg.ac0 } { init := cfg.ac0, value := cfg.ac0 }
    (by simp [InvA])
  simpa [aRun, dialRunWith] using this

/-- In every run every write of the autoconf setting is either the disabling write — value
    `false`, on a connection that is open and not yet handed to the task, after its previous
    value was read, at most once per connection — or the restoring write that directly follows
    that connection's `cleanup`.  So the setting is forced off only while a connection is held. -/
theorem autoconf_disabled_only_while_held (cfg : Cfg) (s : List Attempt) :
    (aRun cfg.ac0 (dialRun cfg s).evs).okHeld = true :=
  (autoconf_run _ cfg s).1

/-- In every run the event right after `cleanup k` of an advertising connection (one whose
    disabling write was issued and did not make `dial` fail) is a write of exactly the value
    read on connection `k` at its opening, and no other restoring write occurs. -/
theorem restore_value (cfg : Cfg) (s : List Attempt) :
    (aRun cfg.ac0 (dialRun cfg s).evs).okRestore = true :=
  (autoconf_run _ cfg s).2.1

/-- In every run a restoring write that fails with permission-denied or not-exist is
    tolerated (the run goes on as after a successful one); any other failure on connection `k`
    makes `Dial` return the clean-up error of `k` at once; and `Dial` returns a clean-up error
    in no other situation. -/
theorem restore_errors (cfg : Cfg) (s : List Attempt) :
    (aRun cfg.ac0 (dialRun cfg s).evs).okErrors = true :=
  (autoconf_run _ cfg s).2.2.1

/-- In every run the replay of the successful writes from the initial value is the value the
    interface has when `Dial` returns, and if no write of the setting failed — on any exit path:
    nil, a reported error, the time-out, a cancellation — that value is the initial value. -/
theorem restored_on_every_exit (cfg : Cfg) (s : List Attempt) :
    let x := aRun cfg.ac0 (dialRun cfg s).evs
    x.okRestored = true ∧ x.value = (dialRun cfg s).ac ∧
      (x.setFailed = false → (dialRun cfg s).ac = cfg.ac0) := by
  have h := autoconf_run Gen.Dialer.dialLeaksConnOnAutoconfError cfg s
  refine ⟨h.2.2.2.1, h.2.2.2.2.1, ?_⟩
  intro hsf
  have hv := h.2.2.2.2.2 hsf
  have hi := aRun_init cfg.ac0 (dialRun cfg s).evs
  have hval := h.2.2.2.2.1
  unfold dialRun at hi hv ⊢
  rw [← hval, hv, hi]

/-- The same at the level of the script: if no `SetIPv6Autoconf` call of the script fails
    (reads, dials and the task may fail in any way), the interface has its initial value when
    `Dial` returns. -/
theorem restored_of_no_set_fault (cfg : Cfg) (s : List Attempt)
    (h : ∀ a ∈ s, a.set = .none ∧ a.rst = .none) : (dialRun cfg s).ac = cfg.ac0 := by
  have key : ∀ (s : List Attempt) (ph : Phase) (st : St),
      (∀ a ∈ s, a.set = .none ∧ a.rst = .none) →
      (goRun Gen.Dialer.dialLeaksConnOnAutoconfError cfg ph st s).ac = st.ac := by
    intro s
    induction s with
    | nil =>
      intro ph st _
      obtain ⟨e, he⟩ := default_next Gen.Dialer.dialLeaksConnOnAutoconfError cfg ph st
      rw [goRun_nil _ _ _ _ _ he]
      exact stepAttempt_ac _ cfg ph st {} ⟨rfl, rfl⟩
    | cons a as ih =>
      intro ph st hs
      have ha := stepAttempt_ac Gen.Dialer.dialLeaksConnOnAutoconfError cfg ph st a
        (hs a (by simp))
      cases hn : (stepAttempt Gen.Dialer.dialLeaksConnOnAutoconfError cfg ph st a).next with
      | inl e => rw [goRun_cons_inl _ _ _ _ _ _ _ hn]; exact ha
      | inr ph' =>
        rw [goRun_cons_inr _ _ _ _ _ _ _ hn]
        simp only
        rw [ih ph' _ (fun a' ha' => hs a' (by simp [ha'])), ha]
  exact key s .first _ h

/-! ### the model meets the oracle -/

/-- On a tree whose `dial()` closes the socket on its error path, the model's trace and final
    autoconf value satisfy, for every configuration and script, the oracle that the check
    evaluates on the implementation's call log. -/
theorem holds_model (hg : Gen.Dialer.dialLeaksConnOnAutoconfError = false) (cfg : Cfg)
    (s : List Attempt) :
    holds cfg.ac0 (dialRun cfg s).evs (dialRun cfg s).ac = true := by
  have hb := bracket hg cfg s
  have h := autoconf_run Gen.Dialer.dialLeaksConnOnAutoconfError cfg s
  obtain ⟨h1, h2, h3, h4, h5, _⟩ := h
  unfold holds autoconfOk
  simp only [hb, Bool.true_and]
  unfold dialRun
  simp [h1, h2, h3, h4, h5]

/-! ### non-vacuity -/

set_option maxRecDepth 20000 in
/-- A concrete run on an advertising interface whose autoconf was on: the first dial fails
    (link not ready); the second opens connection 1 and disables autoconf, the task reports a
    link change, the restore fails with permission-denied (tolerated, so the setting stays
    off); connection 2 is opened at once (the retry loop starts over), reads `false`, the task
    fails fatally, the restore succeeds, `Dial` reports the task's error.  The oracle accepts
    it. -/
example :
    let cfg : Cfg := { adv := true, ac0 := true }
    let s : List Attempt :=
      [{ pre := .linkNotReady }, { task := .linkChange, rst := .permission }, { task := .other }]
    let r := dialRunWith false cfg s
    r.evs =
      [.dial 0, .dialRet 0 .linkNotReady,
       .wait 0, .dial 1, .open 1, .getAutoconf true .none, .setAutoconf false .none, .dialRet 1 .ok,
       .fnStart 1, .fnReturn 1 .linkChange, .leave 1, .cleanup 1, .setAutoconf true .permission,
       .wait 0, .dial 2, .open 2, .getAutoconf false .none, .setAutoconf false .none, .dialRet 2 .ok,
       .fnStart 2, .fnReturn 2 .other, .leave 2, .cleanup 2, .setAutoconf false .none,
       .ret (.task 2)] ∧
    r.ret = .task 2 ∧ r.ac = false ∧
    holds true r.evs r.ac = true := by
  decide

/-- The oracle rejects: connection 0 never closed before connection 1 is opened; -/
example :
    holds true
      [.dial 0, .open 0, .getAutoconf true .none, .setAutoconf false .none, .dialRet 0 .ok,
       .fnStart 0, .fnReturn 0 .linkChange,
       .dial 1, .open 1, .getAutoconf false .none, .setAutoconf false .none, .dialRet 1 .ok,
       .fnStart 1, .fnReturn 1 .nil, .leave 1, .cleanup 1, .setAutoconf false .none, .ret .nil]
      false = false := by
  decide

/-- a connection closed twice; -/
example :
    holds true
      [.dial 0, .open 0, .dialRet 0 .ok, .fnStart 0, .fnReturn 0 .nil, .leave 0, .cleanup 0,
       .cleanup 0, .ret .nil] true = false := by
  decide

/-- the restore writing `true` although `false` was read; -/
example :
    holds false
      [.dial 0, .open 0, .getAutoconf false .none, .setAutoconf false .none, .dialRet 0 .ok,
       .fnStart 0, .fnReturn 0 .nil, .leave 0, .cleanup 0, .setAutoconf true .none, .ret .nil]
      true = false := by
  decide

/-- a restore failure that is not tolerated, swallowed; -/
example :
    holds true
      [.dial 0, .open 0, .getAutoconf true .none, .setAutoconf false .none, .dialRet 0 .ok,
       .fnStart 0, .fnReturn 0 .nil, .leave 0, .cleanup 0, .setAutoconf true .other, .ret .nil]
      false = false := by
  decide

/-- a tolerated restore failure reported as a clean-up error; -/
example :
    holds true
      [.dial 0, .open 0, .getAutoconf true .none, .setAutoconf false .none, .dialRet 0 .ok,
       .fnStart 0, .fnReturn 0 .nil, .leave 0, .cleanup 0, .setAutoconf true .notExist,
       .ret (.cleanup 0)]
      false = false := by
  decide

/-- no restore at all; -/
example :
    holds true
      [.dial 0, .open 0, .getAutoconf true .none, .setAutoconf false .none, .dialRet 0 .ok,
       .fnStart 0, .fnReturn 0 .nil, .leave 0, .cleanup 0, .ret .nil]
      false = false := by
  decide

/-- autoconf disabled while the task already runs. -/
example :
    holds true
      [.dial 0, .open 0, .getAutoconf true .none, .dialRet 0 .ok,
       .fnStart 0, .setAutoconf false .none, .fnReturn 0 .nil, .leave 0, .cleanup 0,
       .setAutoconf true .none, .ret .nil]
      true = false := by
  decide

/-- On a Monitor interface the setting is never read or written. -/
example :
    (dialRunWith false { adv := false } [{ task := .syscall }, { pre := .syscall }, {}]).evs =
      [.dial 0, .open 0, .dialRet 0 .ok, .fnStart 0, .fnReturn 0 .syscall, .leave 0, .cleanup 0,
       .wait 0, .dial 1, .dialRet 1 .syscall,
       .wait 250000000, .dial 2, .open 2, .dialRet 2 .ok, .fnStart 2, .fnReturn 2 .nil, .leave 2,
       .cleanup 2, .ret .nil] := by
  decide

end Corerad.Props.C11
