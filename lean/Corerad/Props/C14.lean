/-
  C14 — the `::` RDNSS wildcard picks the best eligible interface address, deterministically.
  All theorems quantify over every address list (any length, order, multiplicity) whose
  entries are valid prefixes with 128-bit values.
-/
import Corerad.Spec.C14
import Corerad.Lemmas.ListUtil

namespace Corerad.Props.C14

open Corerad Corerad.Model

/-- The ranking predicates appear in the source in the documented order
    (unique-local, global unicast, link-local). -/
theorem gen_ranking : Gen.Plugin.rdnssRankingCodes = [0, 1, 2] := by decide

/-- well-formed system address: a valid prefix whose address value fits 128 bits -/
def WFa (a : SysIP) : Prop := a.addr.isValid = true ∧ a.addr.addr.val < 2^128
def WF (as : List SysIP) : Prop := ∀ a ∈ as, WFa a

theorem eligible_eq (a : SysIP) : rdnssEligible a = Spec.C14.eligible a := by
  unfold rdnssEligible Spec.C14.eligible
  cases a.addr.addr.is4 <;> cases a.deprecated <;> cases a.temporary <;> cases a.tentative <;> rfl

theorem key_lt (a : SysIP) (h : WFa a) : addrKey a.addr.addr < 2^136 := by
  unfold addrKey IP.bitLen
  have := h.2
  split <;> (try split) <;> omega

theorem less_iff (a b : IP) (ha : a.val < 2^128) (hb : b.val < 2^128) :
    a.less b = true ↔ addrKey a < addrKey b := by
  unfold IP.less IP.compare addrKey
  have : a.bitLen ≤ 128 := by unfold IP.bitLen; split <;> (try split) <;> omega
  have : b.bitLen ≤ 128 := by unfold IP.bitLen; split <;> (try split) <;> omega
  generalize a.bitLen = la at *
  generalize b.bitLen = lb at *
  split
  · simp; omega
  · split
    · simp; omega
    · split
      · simp; omega
      · split <;> simp <;> omega

/-- `betterRDNSS` returns the argument with the smaller ranking key (ties keep `best`): the
    ranking is a total order — stability first, then unique-local < global < link-local <
    other, then the numerically lowest address. -/
theorem better_is_min (best cur : SysIP) (hb : WFa best) (hc : WFa cur) :
    betterRDNSS best cur = if Spec.C14.rank cur < Spec.C14.rank best then cur else best := by
  unfold betterRDNSS
  simp only [hb.1, Bool.not_true, Bool.false_eq_true, if_false, gen_ranking, rankLoop, rankPred]
  have hlt := less_iff cur.addr.addr best.addr.addr hc.2 hb.2
  have hkc := key_lt cur hc
  have hkb := key_lt best hb
  unfold Spec.C14.rank Spec.C14.addrClass
  generalize addrKey cur.addr.addr = kc at *
  generalize addrKey best.addr.addr = kb at *
  generalize cur.addr.addr.less best.addr.addr = lt at *
  generalize isStable cur = sc
  generalize isStable best = sb
  generalize cur.addr.addr.isPrivate = pc
  generalize best.addr.addr.isPrivate = pb
  generalize cur.addr.addr.isGlobalUnicast = gc
  generalize best.addr.addr.isGlobalUnicast = gb
  generalize cur.addr.addr.isLinkLocalUnicast = lc
  generalize best.addr.addr.isLinkLocalUnicast = lb
  cases sc <;> cases sb <;> cases pc <;> cases pb <;> cases gc <;> cases gb <;> cases lc <;> cases lb <;>
    cases lt <;> simp at hlt ⊢ <;> omega

/-- equal ranking keys mean equal addresses (for well-formed IPv6 entries) -/
theorem addr_eq_of_rank_eq (a b : SysIP) (ha : WFa a) (hb : WFa b)
    (ha6 : a.addr.addr.is4 = false) (hb6 : b.addr.addr.is4 = false)
    (h : Spec.C14.rank a = Spec.C14.rank b) : a.addr.addr = b.addr.addr := by
  have hka := key_lt a ha
  have hkb := key_lt b hb
  have hk : addrKey a.addr.addr = addrKey b.addr.addr := by
    unfold Spec.C14.rank Spec.C14.addrClass at h
    generalize addrKey a.addr.addr = ka at *
    generalize addrKey b.addr.addr = kb at *
    split at h <;> split at h <;> (try split at h) <;> (try split at h) <;> (try split at h) <;>
      (try split at h) <;> (try split at h) <;> (try split at h) <;> omega
  have hav : a.addr.addr.valid = true := by
    have := ha.1; unfold Prefix.isValid at this; simp only [Bool.and_eq_true] at this; exact this.1
  have hbv : b.addr.addr.valid = true := by
    have := hb.1; unfold Prefix.isValid at this; simp only [Bool.and_eq_true] at this; exact this.1
  have ha4 : a.addr.addr.v4 = false := by unfold IP.is4 at ha6; simpa [hav] using ha6
  have hb4 : b.addr.addr.v4 = false := by unfold IP.is4 at hb6; simpa [hbv] using hb6
  unfold addrKey IP.bitLen at hk
  simp only [hav, hbv, ha4, hb4, Bool.not_true, Bool.false_eq_true, if_false] at hk
  have hval : a.addr.addr.val = b.addr.addr.val := by omega
  generalize a.addr.addr = x at *
  generalize b.addr.addr = y at *
  cases x; cases y; simp_all

/-- the fold keeps a rank-minimal element seen so far -/
theorem fold_min : ∀ (l : List SysIP) (best : SysIP), (∀ a ∈ l, WFa a) → WFa best →
    (l.foldl betterRDNSS best = best ∨ l.foldl betterRDNSS best ∈ l) ∧
    WFa (l.foldl betterRDNSS best) ∧
    Spec.C14.rank (l.foldl betterRDNSS best) ≤ Spec.C14.rank best ∧
    ∀ a ∈ l, Spec.C14.rank (l.foldl betterRDNSS best) ≤ Spec.C14.rank a
  | [], best, _, hb => ⟨Or.inl rfl, hb, Nat.le_refl _, fun _ h => absurd h (by simp)⟩
  | x :: xs, best, hl, hb => by
    have hx : WFa x := hl x List.mem_cons_self
    have hxs : ∀ a ∈ xs, WFa a := fun a ha => hl a (List.mem_cons_of_mem _ ha)
    simp only [List.foldl_cons]
    rw [better_is_min best x hb hx]
    by_cases hlt : Spec.C14.rank x < Spec.C14.rank best
    · simp only [hlt, if_true]
      obtain ⟨h1, h2, h3, h4⟩ := fold_min xs x hxs hx
      refine ⟨?_, h2, by omega, ?_⟩
      · right
        rcases h1 with h | h
        · rw [h]; exact List.mem_cons_self
        · exact List.mem_cons_of_mem _ h
      · intro a ha
        rcases List.mem_cons.mp ha with rfl | ha
        · exact h3
        · exact h4 a ha
    · simp only [hlt, if_false]
      obtain ⟨h1, h2, h3, h4⟩ := fold_min xs best hxs hb
      refine ⟨?_, h2, h3, ?_⟩
      · rcases h1 with h | h
        · exact Or.inl h
        · exact Or.inr (List.mem_cons_of_mem _ h)
      · intro a ha
        rcases List.mem_cons.mp ha with rfl | ha
        · omega
        · exact h4 a ha

private theorem zero_invalid : SysIP.zero.addr.isValid = false := by decide

private theorem better_zero (x : SysIP) : betterRDNSS SysIP.zero x = x := by
  unfold betterRDNSS; simp [zero_invalid]

private theorem valid_of_wf (a : SysIP) (h : WFa a) : a.addr.addr.valid = true := by
  have := h.1; unfold Prefix.isValid at this; simp only [Bool.and_eq_true] at this; exact this.1

/-- If no address is eligible, RA generation fails instead of advertising an unusable server. -/
theorem none_iff (as : List SysIP) (hwf : WF as) :
    currentRDNSS as = none ↔ ∀ a ∈ as, Spec.C14.eligible a = false := by
  unfold currentRDNSS
  simp only
  cases hel : as.filter rdnssEligible with
  | nil =>
    simp only [List.foldl_nil]
    constructor
    · intro _ a ha
      have : a ∉ as.filter rdnssEligible := by rw [hel]; simp
      rw [List.mem_filter] at this
      rw [← eligible_eq]
      cases h : rdnssEligible a
      · rfl
      · exact absurd ⟨ha, h⟩ this
    · intro _; decide
  | cons x xs =>
    have hmem : ∀ a ∈ x :: xs, a ∈ as ∧ rdnssEligible a = true := by
      intro a ha; rw [← hel] at ha; exact List.mem_filter.mp ha
    have hx : WFa x := hwf x (hmem x List.mem_cons_self).1
    have hxs : ∀ a ∈ xs, WFa a := fun a ha => hwf a (hmem a (List.mem_cons_of_mem _ ha)).1
    simp only [List.foldl_cons, better_zero]
    obtain ⟨_, h2, _, _⟩ := fold_min xs x hxs hx
    simp only [valid_of_wf _ h2, if_true]
    constructor
    · intro h; cases h
    · intro h
      have := h x (hmem x List.mem_cons_self).1
      rw [← eligible_eq, (hmem x List.mem_cons_self).2] at this
      cases this

/-- The chosen server is the address of a rank-minimal eligible entry of the list. -/
theorem some_iff (as : List SysIP) (hwf : WF as) (ip : IP) :
    currentRDNSS as = some ip ↔
      ∃ a ∈ as, Spec.C14.eligible a = true ∧ a.addr.addr = ip ∧
        ∀ b ∈ as, Spec.C14.eligible b = true → Spec.C14.rank a ≤ Spec.C14.rank b := by
  unfold currentRDNSS
  simp only
  cases hel : as.filter rdnssEligible with
  | nil =>
    simp only [List.foldl_nil]
    constructor
    · intro h; simp [SysIP.zero, IP.zero] at h
    · rintro ⟨a, ha, he, _⟩
      have : a ∈ as.filter rdnssEligible := List.mem_filter.mpr ⟨ha, by rw [eligible_eq]; exact he⟩
      rw [hel] at this; exact absurd this (by simp)
  | cons x xs =>
    have hmem : ∀ a, a ∈ x :: xs ↔ a ∈ as ∧ Spec.C14.eligible a = true := by
      intro a; rw [← hel, List.mem_filter, eligible_eq]
    have hx : WFa x := hwf x ((hmem x).mp List.mem_cons_self).1
    have hxs : ∀ a ∈ xs, WFa a := fun a ha => hwf a ((hmem a).mp (List.mem_cons_of_mem _ ha)).1
    simp only [List.foldl_cons, better_zero]
    obtain ⟨h1, h2, h3, h4⟩ := fold_min xs x hxs hx
    generalize xs.foldl betterRDNSS x = r at *
    have hr : r ∈ x :: xs := by
      rcases h1 with h | h
      · rw [h]; exact List.mem_cons_self
      · exact List.mem_cons_of_mem _ h
    have hrmin : ∀ b ∈ as, Spec.C14.eligible b = true → Spec.C14.rank r ≤ Spec.C14.rank b := by
      intro b hb he
      rcases List.mem_cons.mp ((hmem b).mpr ⟨hb, he⟩) with rfl | hb'
      · exact h3
      · exact h4 b hb'
    simp only [valid_of_wf _ h2, if_true, Option.some.injEq]
    constructor
    · intro h
      exact ⟨r, ((hmem r).mp hr).1, ((hmem r).mp hr).2, h, hrmin⟩
    · rintro ⟨a, ha, he, rfl, hmin⟩
      have h6 : ∀ c, Spec.C14.eligible c = true → c.addr.addr.is4 = false := by
        intro c hc
        unfold Spec.C14.eligible at hc
        simp only [Bool.and_eq_true, Bool.not_eq_true'] at hc
        exact hc.1.1.1
      have hre := ((hmem r).mp hr)
      have : Spec.C14.rank r = Spec.C14.rank a := by
        have := hrmin a ha he
        have := hmin r hre.1 hre.2
        omega
      exact addr_eq_of_rank_eq r a h2 (hwf a ha) (h6 r hre.2) (h6 a he) this

/-- The choice does not depend on the order (or multiplicity) in which addresses are listed. -/
theorem ext_invariant (as bs : List SysIP) (hwf : WF as) (h : ∀ a, a ∈ as ↔ a ∈ bs) :
    currentRDNSS as = currentRDNSS bs := by
  have hwf' : WF bs := fun a ha => hwf a ((h a).mpr ha)
  cases hb : currentRDNSS bs with
  | none =>
    rw [none_iff bs hwf'] at hb
    rw [none_iff as hwf]
    exact fun a ha => hb a ((h a).mp ha)
  | some ip =>
    rw [some_iff bs hwf'] at hb
    rw [some_iff as hwf]
    obtain ⟨a, ha, he, hip, hmin⟩ := hb
    exact ⟨a, (h a).mpr ha, he, hip, fun b hb' => hmin b ((h b).mp hb')⟩

theorem perm_invariant (as bs : List SysIP) (hwf : WF as) (h : as.Perm bs) :
    currentRDNSS as = currentRDNSS bs :=
  ext_invariant as bs hwf (fun _ => h.mem_iff)

/-- Statically configured servers follow the chosen address unchanged; a failing address
    source or an empty choice fails RA generation. -/
theorem apply_shape (static : List IP) (src : Option (List SysIP)) :
    applyRDNSS true static src =
      match src with
      | none => none
      | some as => (currentRDNSS as).map (fun ip => ip :: static) := by
  unfold applyRDNSS
  cases src with
  | none => rfl
  | some as => cases h : currentRDNSS as <;> simp [h]

/-- The model meets the oracle that the check evaluates on the implementation's output. -/
theorem holds_model (static : List IP) (as : List SysIP) (hwf : WF as) :
    Spec.C14.holds static as (applyRDNSS true static (some as)) = true := by
  rw [apply_shape]
  simp only
  cases hc : currentRDNSS as with
  | none =>
    simp only [Option.map_none, Spec.C14.holds, List.all_eq_true, Bool.not_eq_true']
    exact (none_iff as hwf).mp hc
  | some ip =>
    obtain ⟨a, ha, he, hip, hmin⟩ := (some_iff as hwf ip).mp hc
    simp only [Option.map_some, Spec.C14.holds, Bool.and_eq_true, beq_self_eq_true, true_and,
      List.any_eq_true, List.all_eq_true, Bool.or_eq_true, Bool.not_eq_true', decide_eq_true_eq,
      beq_iff_eq]
    refine ⟨a, ha, ⟨he, hip⟩, ?_⟩
    intro b hb
    cases hbe : Spec.C14.eligible b
    · exact Or.inl rfl
    · exact Or.inr (hmin b hb hbe)

/-- Non-vacuity: a stable global address beats an unstable unique-local one; among unstable
    addresses the unique-local one wins; deprecated entries are ignored. -/
example :
    let ula : SysIP := { addr := { addr := { val := 0xfd000000000000000000000000000005 }, bits := 64 } }
    let gua : SysIP := { addr := { addr := { val := 0x20010db8000000000000000000000005 }, bits := 64 } }
    let guaS : SysIP := { addr := { addr := { val := 0x20010db8000000000000000000000002 }, bits := 64 }, stablePrivacy := true }
    let dep : SysIP := { addr := { addr := { val := 0xfd000000000000000000000000000001 }, bits := 64 }, deprecated := true, validForever := true }
    currentRDNSS [gua, ula, dep] = some ula.addr.addr ∧
    currentRDNSS [ula, guaS, gua, dep] = some guaS.addr.addr ∧
    currentRDNSS [dep] = none := by
  decide

end Corerad.Props.C14
