/-
  C18 — monitor metrics describe every received message exactly.

  Everything is stated for every message, sender and receipt time, and for message sequences
  of any length (induction over the sequence).  `Model.monitorHandle` is the transcription of
  `(*Monitor).handle`; `Spec.C18` is the declarative reading of the property.

  Prefix lengths.  The model labels a Prefix Information option with `PI.label` = what `cidrStr`
  renders: `addr/len` for `len ≤ 128`, the one literal `invalid Prefix` for the length bytes
  129..255 that `ndp` decodes without complaint.  The theorems below are stated for *every*
  length, in terms of `PI.label` (`per_prefix_four`, `prefix_writes_only_from_pi`,
  `per_prefix_store`, `holds_model`, …: no length hypothesis, so they also say what happens to
  a malformed option).  Where the statement speaks of "the prefix in CIDR form" the hypothesis
  `len ≤ 128` is explicit (`per_prefix_four_cidr`, `prefix_writes_only_from_pi_cidr`,
  `label_of_wellFormed`, `label_injective_of_wellFormed`), for whole sequences the decidable
  `Spec.C18.wellFormedLens`; `opsOf_eq_legacy` shows that under it the model is, operation for
  operation, the earlier model keyed by (address, length), `holds_unique_wellFormed` that the
  oracle is then exact on every series.  `malformed_collide`, `no_cidr_label_above_128`,
  `lastPI_cidr_ignores_malformed` and the last `example` describe the malformed case.
-/
import Corerad.Model.Monitor
import Corerad.Spec.C18
import Corerad.Lemmas.ListUtil

namespace Corerad.Props.C18

open Corerad Corerad.Model.Monitor Corerad.Spec.C18

/-! ### Operation-level vocabulary (proof side only) -/

def isCounter : Series → Bool
  | .received _ _ => true
  | _ => false

/-- What `metricslite` accepts without panicking: counters only grow (`Counter` panics on a
    negative value) and every call goes to a series of its own kind. -/
def accepted : MetricOp → Prop
  | .inc s v => isCounter s = true ∧ 0 ≤ v
  | .set s _ => isCounter s = false

/-- well-formed operation of this monitor: counters are bumped by exactly 1 -/
def opWf : MetricOp → Prop
  | .inc s v => isCounter s = true ∧ v = 1
  | .set s _ => isCounter s = false

def isInc : MetricOp → Bool
  | .inc _ _ => true
  | .set _ _ => false

/-- value of the last `set` on `s` in an operation list -/
def lastSet? (s : Series) : List MetricOp → Option Int
  | [] => none
  | op :: r =>
    match lastSet? s r with
    | some v => some v
    | none =>
      match op with
      | .set k v => if k = s then some v else none
      | .inc _ _ => none

/-- number of `inc`s on `s` in an operation list -/
def incCount (s : Series) : List MetricOp → Nat
  | [] => 0
  | .inc k _ :: r => incCount s r + (if k = s then 1 else 0)
  | .set _ _ :: r => incCount s r

/-- counter after `n` bumps by one -/
def bump (o : Option Int) (n : Nat) : Option Int :=
  if n = 0 then o else some (o.getD 0 + n)

/-! ### The store -/

private theorem run_cons (st : Store) (op : MetricOp) (ops : List MetricOp) :
    run st (op :: ops) = run (st.apply op) ops := rfl

private theorem run_append (st : Store) (a b : List MetricOp) :
    run st (a ++ b) = run (run st a) b := by
  simp [run, List.foldl_append]

/-- a series no operation addresses keeps its sample -/
private theorem run_untouched (s : Series) :
    ∀ (ops : List MetricOp) (st : Store), (∀ op ∈ ops, op.key ≠ s) → run st ops s = st s := by
  intro ops
  induction ops with
  | nil => intro st _; rfl
  | cons op r ih =>
    intro st h
    rw [run_cons, ih _ (fun o ho => h o (List.mem_cons_of_mem _ ho))]
    have h0 := h op (List.mem_cons_self ..)
    cases op with
    | inc k v =>
      have : s ≠ k := fun e => h0 e.symm
      simp [Store.apply, this]
    | set k v =>
      have : s ≠ k := fun e => h0 e.symm
      simp [Store.apply, this]

private theorem run_keeps_some (s : Series) :
    ∀ (ops : List MetricOp) (st : Store), (st s).isSome → (run st ops s).isSome := by
  intro ops
  induction ops with
  | nil => intro st h; exact h
  | cons op r ih =>
    intro st h
    rw [run_cons]
    apply ih
    cases op with
    | inc k v => simp only [Store.apply]; split <;> simp [h]
    | set k v => simp only [Store.apply]; split <;> simp [h]

/-- a series some operation addresses has a sample afterwards -/
private theorem run_some_of_mem (s : Series) :
    ∀ (ops : List MetricOp) (st : Store), (∃ op ∈ ops, op.key = s) → (run st ops s).isSome := by
  intro ops
  induction ops with
  | nil => intro st ⟨_, h, _⟩; cases h
  | cons op r ih =>
    intro st ⟨o, ho, hk⟩
    rw [run_cons]
    rcases List.mem_cons.mp ho with rfl | ho
    · apply run_keeps_some
      cases o with
      | inc k v => simp [Store.apply, MetricOp.key] at hk ⊢; simp [hk]
      | set k v => simp [Store.apply, MetricOp.key] at hk ⊢; simp [hk]
    · exact ih _ ⟨o, ho, hk⟩

/-- gauges: the store holds the last value set, or what it held before -/
private theorem run_gauge (s : Series) (hs : isCounter s = false) :
    ∀ (ops : List MetricOp) (st : Store), (∀ op ∈ ops, opWf op) →
      run st ops s = match lastSet? s ops with | some v => some v | none => st s := by
  intro ops
  induction ops with
  | nil => intro st _; rfl
  | cons op r ih =>
    intro st h
    rw [run_cons, ih _ (fun o ho => h o (List.mem_cons_of_mem _ ho))]
    simp only [lastSet?]
    cases hr : lastSet? s r with
    | some v => rfl
    | none =>
      have h0 := h op (List.mem_cons_self ..)
      cases op with
      | inc k v =>
        have : s ≠ k := by
          intro e; subst e; simp [opWf, hs] at h0
        simp [Store.apply, this]
      | set k v =>
        by_cases e : k = s
        · subst e; simp [Store.apply]
        · have : s ≠ k := fun e' => e e'.symm
          simp [Store.apply, e, this]

private theorem bump_bump (o : Option Int) (a b : Nat) : bump (bump o a) b = bump o (a + b) := by
  unfold bump
  by_cases ha : a = 0
  · subst ha; simp
  · by_cases hb : b = 0
    · subst hb; simp [ha]
    · have : ¬ (a + b = 0) := by omega
      simp only [ha, hb, this, if_false, Option.getD_some, Option.some.injEq]
      omega

/-- counters: the store holds the previous sample plus the number of increments -/
private theorem run_counter (s : Series) (hs : isCounter s = true) :
    ∀ (ops : List MetricOp) (st : Store), (∀ op ∈ ops, opWf op) →
      run st ops s = bump (st s) (incCount s ops) := by
  intro ops
  induction ops with
  | nil => intro st _; simp [run, incCount, bump]
  | cons op r ih =>
    intro st h
    rw [run_cons, ih _ (fun o ho => h o (List.mem_cons_of_mem _ ho))]
    have h0 := h op (List.mem_cons_self ..)
    cases op with
    | inc k v =>
      obtain ⟨_, hv⟩ := h0
      subst hv
      simp only [incCount]
      by_cases e : k = s
      · subst e
        have : (Store.apply st (.inc k 1)) k = bump (st k) 1 := by simp [Store.apply, bump]
        rw [this, bump_bump, Nat.add_comm]
        simp
      · have : s ≠ k := fun e' => e e'.symm
        simp [Store.apply, e, this]
    | set k v =>
      have : s ≠ k := by
        intro e; subst e; simp [opWf, hs] at h0
      simp [Store.apply, incCount, this]

/-! ### Structure of the operation lists -/

private theorem lastSet?_append (s : Series) (a b : List MetricOp) :
    lastSet? s (a ++ b) =
      match lastSet? s b with | some v => some v | none => lastSet? s a := by
  induction a with
  | nil => simp only [List.nil_append, lastSet?]; cases lastSet? s b <;> rfl
  | cons op r ih =>
    simp only [List.cons_append, lastSet?, ih]
    cases lastSet? s b <;> rfl

private theorem lastSet?_none (s : Series) (ops : List MetricOp) (h : ∀ op ∈ ops, op.key ≠ s) :
    lastSet? s ops = none := by
  induction ops with
  | nil => rfl
  | cons op r ih =>
    simp only [lastSet?, ih (fun o ho => h o (List.mem_cons_of_mem _ ho))]
    have h0 := h op (List.mem_cons_self ..)
    cases op with
    | inc k v => rfl
    | set k v => simp [MetricOp.key] at h0; simp [h0]

private theorem incCount_append (s : Series) (a b : List MetricOp) :
    incCount s (a ++ b) = incCount s a + incCount s b := by
  induction a with
  | nil => simp [incCount]
  | cons op r ih =>
    cases op with
    | inc k v => simp only [List.cons_append, incCount, ih]; omega
    | set k v => simp only [List.cons_append, incCount, ih]

private theorem incCount_zero (s : Series) (ops : List MetricOp) (h : ∀ op ∈ ops, isInc op = false) :
    incCount s ops = 0 := by
  induction ops with
  | nil => rfl
  | cons op r ih =>
    have h0 := h op (List.mem_cons_self ..)
    cases op with
    | inc k v => simp [isInc] at h0
    | set k v => simpa [incCount] using ih (fun o ho => h o (List.mem_cons_of_mem _ ho))

/-- `pick[*ndp.PrefixInformation]` is the declarative "Prefix Information options, in order". -/
theorem pick_eq_prefixesOf (ra : RA) : pickPI ra.options = prefixesOf ra := by
  unfold prefixesOf
  induction ra.options with
  | nil => rfl
  | cons o r ih => cases o <;> simp [pickPI, ih]

private theorem mem_raOps (ra : RA) (h : Nat) (t : Time) (op : MetricOp) :
    op ∈ raOps ra h t ↔
      op = .set (.flagManaged h) (b2i ra.managed) ∨ op = .set (.flagOther h) (b2i ra.other) ∨
      (ra.routerLifetime ≠ 0 ∧ op = .set (.defaultRoute h) (unixSec (t + ra.routerLifetime))) ∨
      ∃ p ∈ pickPI ra.options,
        op = .set (.prefixAutonomous p.label h) (b2i p.autonomous) ∨
        op = .set (.prefixOnLink p.label h) (b2i p.onLink) ∨
        op = .set (.prefixPreferred p.label h) (unixSec (t + p.preferred)) ∨
        op = .set (.prefixValid p.label h) (unixSec (t + p.valid)) := by
  unfold raOps
  by_cases hl : ra.routerLifetime = 0 <;>
    simp [hl, List.mem_flatMap, prefixOps]

private theorem raOps_wf (ra : RA) (h : Nat) (t : Time) : ∀ op ∈ raOps ra h t, opWf op ∧ isInc op = false := by
  intro op hop
  rcases (mem_raOps ra h t op).mp hop with rfl | rfl | ⟨_, rfl⟩ | ⟨p, _, rfl | rfl | rfl | rfl⟩ <;>
    simp [opWf, isCounter, isInc]

private theorem handle_wf (m : Msg) (h : Nat) (t : Time) : ∀ op ∈ monitorHandle m h t, opWf op := by
  intro op hop
  unfold monitorHandle at hop
  rcases List.mem_cons.mp hop with rfl | hop
  · simp [opWf, isCounter]
  · cases m with
    | ra ra => exact (raOps_wf ra h t op hop).1
    | other ty => cases hop

private theorem opsOf_cons (e : Event) (evs : List Event) :
    opsOf (e :: evs) = monitorHandle e.msg e.host e.now ++ opsOf evs := by
  simp [opsOf, List.flatMap_cons]

private theorem opsOf_append (a b : List Event) : opsOf (a ++ b) = opsOf a ++ opsOf b := by
  simp [opsOf, List.flatMap_append]

private theorem opsOf_wf (evs : List Event) : ∀ op ∈ opsOf evs, opWf op := by
  intro op hop
  obtain ⟨e, _, he⟩ := List.mem_flatMap.mp hop
  exact handle_wf _ _ _ op he

/-! ### What one message writes, per series -/

private theorem lastSet_prefixAutonomous (pl : PLabel) (r h : Nat) (t : Time) (ps : List PI) :
    lastSet? (.prefixAutonomous pl r) (ps.flatMap (prefixOps h t)) =
      if r = h then (lastPI? pl ps).map (fun p => b2i p.autonomous) else none := by
  induction ps with
  | nil => simp [lastSet?, lastPI?]
  | cons p ps ih =>
    rw [List.flatMap_cons, lastSet?_append, ih]
    by_cases hr : r = h
    · subst hr
      simp only [if_true, lastPI?]
      cases lastPI? pl ps with
      | some q => simp
      | none =>
        by_cases hp : p.label = pl
        · simp [prefixOps, lastSet?, hp]
        · simp [prefixOps, lastSet?, hp]
    · have : ¬ h = r := fun e => hr e.symm
      simp [hr, this, prefixOps, lastSet?]

private theorem lastSet_prefixOnLink (pl : PLabel) (r h : Nat) (t : Time) (ps : List PI) :
    lastSet? (.prefixOnLink pl r) (ps.flatMap (prefixOps h t)) =
      if r = h then (lastPI? pl ps).map (fun p => b2i p.onLink) else none := by
  induction ps with
  | nil => simp [lastSet?, lastPI?]
  | cons p ps ih =>
    rw [List.flatMap_cons, lastSet?_append, ih]
    by_cases hr : r = h
    · subst hr
      simp only [if_true, lastPI?]
      cases lastPI? pl ps with
      | some q => simp
      | none =>
        by_cases hp : p.label = pl
        · simp [prefixOps, lastSet?, hp]
        · simp [prefixOps, lastSet?, hp]
    · have : ¬ h = r := fun e => hr e.symm
      simp [hr, this, prefixOps, lastSet?]

private theorem lastSet_prefixPreferred (pl : PLabel) (r h : Nat) (t : Time) (ps : List PI) :
    lastSet? (.prefixPreferred pl r) (ps.flatMap (prefixOps h t)) =
      if r = h then (lastPI? pl ps).map (fun p => unixSec (t + p.preferred)) else none := by
  induction ps with
  | nil => simp [lastSet?, lastPI?]
  | cons p ps ih =>
    rw [List.flatMap_cons, lastSet?_append, ih]
    by_cases hr : r = h
    · subst hr
      simp only [if_true, lastPI?]
      cases lastPI? pl ps with
      | some q => simp
      | none =>
        by_cases hp : p.label = pl
        · simp [prefixOps, lastSet?, hp]
        · simp [prefixOps, lastSet?, hp]
    · have : ¬ h = r := fun e => hr e.symm
      simp [hr, this, prefixOps, lastSet?]

private theorem lastSet_prefixValid (pl : PLabel) (r h : Nat) (t : Time) (ps : List PI) :
    lastSet? (.prefixValid pl r) (ps.flatMap (prefixOps h t)) =
      if r = h then (lastPI? pl ps).map (fun p => unixSec (t + p.valid)) else none := by
  induction ps with
  | nil => simp [lastSet?, lastPI?]
  | cons p ps ih =>
    rw [List.flatMap_cons, lastSet?_append, ih]
    by_cases hr : r = h
    · subst hr
      simp only [if_true, lastPI?]
      cases lastPI? pl ps with
      | some q => simp
      | none =>
        by_cases hp : p.label = pl
        · simp [prefixOps, lastSet?, hp]
        · simp [prefixOps, lastSet?, hp]
    · have : ¬ h = r := fun e => hr e.symm
      simp [hr, this, prefixOps, lastSet?]

private theorem expiry_eq (t : Time) (lt : Dur) : expiry t lt = unixSec (t + lt) := rfl

/-- Operation level = declarative level, for one message: the last value `handle` sets on a
    series is what `Spec.eventGauge` says the message means for it. -/
private theorem lastSet?_handle (m : Msg) (h : Nat) (t : Time) (s : Series) :
    lastSet? s (monitorHandle m h t) = eventGauge ⟨m, h, t⟩ s := by
  unfold monitorHandle eventGauge
  cases m with
  | other ty => simp [lastSet?]
  | ra ra =>
    simp only [lastSet?]
    have hdr : lastSet? s (raOps ra h t) = if seriesHost s = h then raGauge ra t s else none := by
      unfold raOps
      rw [lastSet?_append, lastSet?_append]
      cases s with
      | received h' ty =>
        rw [lastSet?_none _ ((pickPI ra.options).flatMap _)]
        · by_cases hl : ra.routerLifetime = 0 <;> simp [hl, lastSet?, raGauge]
        · intro op hop
          obtain ⟨p, _, hp⟩ := List.mem_flatMap.mp hop
          simp [prefixOps] at hp
          rcases hp with rfl | rfl | rfl | rfl <;> simp [MetricOp.key]
      | flagManaged r =>
        rw [lastSet?_none _ ((pickPI ra.options).flatMap _)]
        · by_cases hr : r = h
          · subst hr
            by_cases hl : ra.routerLifetime = 0 <;> simp [hl, lastSet?, raGauge, seriesHost]
          · have hr' : ¬ h = r := fun e => hr e.symm
            by_cases hl : ra.routerLifetime = 0 <;> simp [hl, hr, hr', lastSet?, seriesHost]
        · intro op hop
          obtain ⟨p, _, hp⟩ := List.mem_flatMap.mp hop
          simp [prefixOps] at hp
          rcases hp with rfl | rfl | rfl | rfl <;> simp [MetricOp.key]
      | flagOther r =>
        rw [lastSet?_none _ ((pickPI ra.options).flatMap _)]
        · by_cases hr : r = h
          · subst hr
            by_cases hl : ra.routerLifetime = 0 <;> simp [hl, lastSet?, raGauge, seriesHost]
          · have hr' : ¬ h = r := fun e => hr e.symm
            by_cases hl : ra.routerLifetime = 0 <;> simp [hl, hr, hr', lastSet?, seriesHost]
        · intro op hop
          obtain ⟨p, _, hp⟩ := List.mem_flatMap.mp hop
          simp [prefixOps] at hp
          rcases hp with rfl | rfl | rfl | rfl <;> simp [MetricOp.key]
      | defaultRoute r =>
        rw [lastSet?_none _ ((pickPI ra.options).flatMap _)]
        · by_cases hr : r = h
          · subst hr
            by_cases hl : ra.routerLifetime = 0 <;> simp [hl, lastSet?, raGauge, seriesHost, expiry_eq]
          · have hr' : ¬ h = r := fun e => hr e.symm
            by_cases hl : ra.routerLifetime = 0 <;> simp [hl, hr, hr', lastSet?, seriesHost]
        · intro op hop
          obtain ⟨p, _, hp⟩ := List.mem_flatMap.mp hop
          simp [prefixOps] at hp
          rcases hp with rfl | rfl | rfl | rfl <;> simp [MetricOp.key]
      | prefixAutonomous pl r =>
        rw [lastSet_prefixAutonomous]
        by_cases hr : r = h
        · simp only [hr, if_true, seriesHost, raGauge]
          rw [← pick_eq_prefixesOf]
          cases lastPI? pl (pickPI ra.options) with
          | some q => rfl
          | none => by_cases hl : ra.routerLifetime = 0 <;> simp [hl, lastSet?]
        · by_cases hl : ra.routerLifetime = 0 <;> simp [hl, hr, lastSet?, seriesHost]
      | prefixOnLink pl r =>
        rw [lastSet_prefixOnLink]
        by_cases hr : r = h
        · simp only [hr, if_true, seriesHost, raGauge]
          rw [← pick_eq_prefixesOf]
          cases lastPI? pl (pickPI ra.options) with
          | some q => rfl
          | none => by_cases hl : ra.routerLifetime = 0 <;> simp [hl, lastSet?]
        · by_cases hl : ra.routerLifetime = 0 <;> simp [hl, hr, lastSet?, seriesHost]
      | prefixPreferred pl r =>
        rw [lastSet_prefixPreferred]
        by_cases hr : r = h
        · simp only [hr, if_true, seriesHost, raGauge]
          rw [← pick_eq_prefixesOf]
          cases lastPI? pl (pickPI ra.options) with
          | some q => rfl
          | none => by_cases hl : ra.routerLifetime = 0 <;> simp [hl, lastSet?]
        · by_cases hl : ra.routerLifetime = 0 <;> simp [hl, hr, lastSet?, seriesHost]
      | prefixValid pl r =>
        rw [lastSet_prefixValid]
        by_cases hr : r = h
        · simp only [hr, if_true, seriesHost, raGauge]
          rw [← pick_eq_prefixesOf]
          cases lastPI? pl (pickPI ra.options) with
          | some q => rfl
          | none => by_cases hl : ra.routerLifetime = 0 <;> simp [hl, lastSet?]
        · by_cases hl : ra.routerLifetime = 0 <;> simp [hl, hr, lastSet?, seriesHost]
    rw [hdr]
    cases (if seriesHost s = h then raGauge ra t s else none) <;> rfl

private theorem incCount_handle (m : Msg) (h : Nat) (t : Time) (s : Series) :
    incCount s (monitorHandle m h t) = if Series.received h m.typ = s then 1 else 0 := by
  unfold monitorHandle
  simp only [incCount]
  rw [incCount_zero]
  · simp
  · intro op hop
    cases m with
    | ra ra => exact (raOps_wf ra h t op hop).2
    | other ty => cases hop

/-! ### Sequences: operation level = declarative level -/

private theorem lastSet?_opsOf (s : Series) (evs : List Event) :
    lastSet? s (opsOf evs) = lastWrite? s evs := by
  induction evs with
  | nil => rfl
  | cons e r ih =>
    rw [opsOf_cons, lastSet?_append, ih, lastSet?_handle]
    rfl

private theorem incCount_opsOf (h ty : Nat) (evs : List Event) :
    incCount (.received h ty) (opsOf evs) = countOf evs h ty := by
  induction evs with
  | nil => rfl
  | cons e r ih =>
    rw [opsOf_cons, incCount_append, ih, incCount_handle]
    unfold countOf
    rw [List.countP_cons, Nat.add_comm]
    congr 1
    by_cases h1 : e.host = h <;> by_cases h2 : e.msg.typ = ty <;> simp [h1, h2]

/-- The store reached by the transcription of `handle` over any message sequence is, series by
    series, the declaratively expected one. -/
theorem final_store_eq_expected (evs : List Event) (s : Series) :
    finalStore evs s = expected evs s := by
  unfold finalStore
  cases s with
  | received h ty =>
    rw [run_counter _ rfl _ _ (opsOf_wf evs), incCount_opsOf]
    simp [bump, expected, Store.empty]
  | flagManaged r =>
    rw [run_gauge _ rfl _ _ (opsOf_wf evs), lastSet?_opsOf]
    simp only [expected, Store.empty]; cases lastWrite? _ evs <;> rfl
  | flagOther r =>
    rw [run_gauge _ rfl _ _ (opsOf_wf evs), lastSet?_opsOf]
    simp only [expected, Store.empty]; cases lastWrite? _ evs <;> rfl
  | defaultRoute r =>
    rw [run_gauge _ rfl _ _ (opsOf_wf evs), lastSet?_opsOf]
    simp only [expected, Store.empty]; cases lastWrite? _ evs <;> rfl
  | prefixAutonomous pl r =>
    rw [run_gauge _ rfl _ _ (opsOf_wf evs), lastSet?_opsOf]
    simp only [expected, Store.empty]; cases lastWrite? _ evs <;> rfl
  | prefixOnLink pl r =>
    rw [run_gauge _ rfl _ _ (opsOf_wf evs), lastSet?_opsOf]
    simp only [expected, Store.empty]; cases lastWrite? _ evs <;> rfl
  | prefixPreferred pl r =>
    rw [run_gauge _ rfl _ _ (opsOf_wf evs), lastSet?_opsOf]
    simp only [expected, Store.empty]; cases lastWrite? _ evs <;> rfl
  | prefixValid pl r =>
    rw [run_gauge _ rfl _ _ (opsOf_wf evs), lastSet?_opsOf]
    simp only [expected, Store.empty]; cases lastWrite? _ evs <;> rfl

/-! ## The property theorems -/

/-- The timestamps are floors: `unixSec t` is the unique whole number of seconds `v` with
    `v s ≤ t < (v + 1) s` (also for instants before 1970). -/
theorem unixSec_floor (t : Time) (v : Int) :
    v = unixSec t ↔ v * 1000000000 ≤ t ∧ t < (v + 1) * 1000000000 := by
  unfold unixSec; omega

/-- `handle` is a total function without an error path, and no operation it performs is one
    that the metrics registry rejects (a counter is only ever increased, every call addresses a
    series of its own kind with the right label arity — the latter by typing of `Series`). -/
theorem never_fails (m : Msg) (h : Nat) (t : Time) :
    (∃ ops, monitorHandle m h t = ops) ∧ ∀ op ∈ monitorHandle m h t, accepted op := by
  refine ⟨⟨_, rfl⟩, fun op hop => ?_⟩
  have := handle_wf m h t op hop
  cases op with
  | inc k v => exact ⟨this.1, by have := this.2; omega⟩
  | set k v => exact this

/-- … and so for every sequence of messages. -/
theorem never_fails_sequence (evs : List Event) : ∀ op ∈ opsOf evs, accepted op := by
  intro op hop
  obtain ⟨e, _, he⟩ := List.mem_flatMap.mp hop
  exact (never_fails _ _ _).2 op he

/-- Every message, of whatever kind, is counted exactly once, under (sender, message type):
    the only counter operation is one increment by 1; in terms of the store, that sample goes up
    by one and every other counter sample is left alone. -/
theorem counts_once (m : Msg) (h : Nat) (t : Time) (st : Store) :
    (monitorHandle m h t).filter isInc = [.inc (.received h m.typ) 1] ∧
    run st (monitorHandle m h t) (.received h m.typ) = some ((st (.received h m.typ)).getD 0 + 1) ∧
    ∀ h' ty, ¬ (h' = h ∧ ty = m.typ) →
      run st (monitorHandle m h t) (.received h' ty) = st (.received h' ty) := by
  refine ⟨?_, ?_, ?_⟩
  · cases m with
    | other ty => rfl
    | ra ra =>
      have hrest : List.filter isInc (raOps ra h t) = [] := by
        rw [List.filter_eq_nil_iff]
        intro op hop
        simp [(raOps_wf ra h t op hop).2]
      show List.filter isInc (_ :: raOps ra h t) = _
      rw [List.filter_cons, hrest]
      simp [isInc]
  · rw [run_counter _ rfl _ _ (handle_wf m h t), incCount_handle]
    simp [bump]
  · intro h' ty hne
    rw [run_counter _ rfl _ _ (handle_wf m h t), incCount_handle]
    have : ¬ (Series.received h m.typ = Series.received h' ty) := by
      intro e; injection e with e1 e2; exact hne ⟨e1.symm, e2.symm⟩
    simp [bump, this]

/-- Over a sequence the counter of (sender, type) is the number of such messages; the series
    does not exist when there were none. -/
theorem counts_sequence (evs : List Event) (h ty : Nat) :
    finalStore evs (.received h ty) =
      if countOf evs h ty = 0 then none else some (countOf evs h ty : Int) := by
  rw [final_store_eq_expected]; rfl

/-- An RA sets the managed and other flag gauges of its sender to the header bits (whatever
    was there before). -/
theorem flags_set (ra : RA) (h : Nat) (t : Time) (st : Store) :
    run st (monitorHandle (.ra ra) h t) (.flagManaged h) = some (b2i ra.managed) ∧
    run st (monitorHandle (.ra ra) h t) (.flagOther h) = some (b2i ra.other) := by
  constructor <;>
  · rw [run_gauge _ rfl _ _ (handle_wf _ h t), lastSet?_handle]
    simp [eventGauge, seriesHost, raGauge]

/-- The default-route gauge is written iff the router lifetime is non-zero; it is written for
    the sender only, with `⌊(receipt + lifetime) / 1 s⌋`; an RA with lifetime 0 leaves the gauge
    as it was. -/
theorem default_route_iff (ra : RA) (h : Nat) (t : Time) (st : Store) :
    ((∃ v, MetricOp.set (.defaultRoute h) v ∈ monitorHandle (.ra ra) h t) ↔ ra.routerLifetime ≠ 0) ∧
    (∀ r v, MetricOp.set (.defaultRoute r) v ∈ monitorHandle (.ra ra) h t →
      r = h ∧ v * 1000000000 ≤ t + ra.routerLifetime ∧ t + ra.routerLifetime < (v + 1) * 1000000000) ∧
    run st (monitorHandle (.ra ra) h t) (.defaultRoute h) =
      if ra.routerLifetime ≠ 0 then some ((t + ra.routerLifetime) / 1000000000)
      else st (.defaultRoute h) := by
  have mem : ∀ r v, MetricOp.set (.defaultRoute r) v ∈ monitorHandle (.ra ra) h t ↔
      ra.routerLifetime ≠ 0 ∧ r = h ∧ v = unixSec (t + ra.routerLifetime) := by
    intro r v
    simp only [monitorHandle, List.mem_cons, mem_raOps]
    constructor
    · rintro (h0 | h0 | h0 | ⟨hl, h0⟩ | ⟨p, _, h0 | h0 | h0 | h0⟩) <;> try cases h0
      exact ⟨hl, rfl, rfl⟩
    · rintro ⟨hl, rfl, rfl⟩
      exact Or.inr (Or.inr (Or.inr (Or.inl ⟨hl, rfl⟩)))
  refine ⟨⟨fun ⟨v, hv⟩ => ((mem h v).mp hv).1, fun hl => ⟨_, (mem h _).mpr ⟨hl, rfl, rfl⟩⟩⟩, ?_, ?_⟩
  · intro r v hv
    obtain ⟨_, rfl, rfl⟩ := (mem r v).mp hv
    exact ⟨rfl, (unixSec_floor _ _).mp rfl⟩
  · rw [run_gauge _ rfl _ _ (handle_wf _ h t), lastSet?_handle]
    by_cases hl : ra.routerLifetime = 0 <;>
      simp [eventGauge, seriesHost, raGauge, hl, expiry, second]

private theorem mem_pickPI (p : PI) (opts : List Opt) : p ∈ pickPI opts ↔ Opt.pi p ∈ opts := by
  induction opts with
  | nil => simp [pickPI]
  | cons o r ih => cases o <;> simp [pickPI, ih]

/-- Each Prefix Information option of an RA — whatever its length byte — writes the four gauges
    labelled by its label (`PI.label`: `addr/len`, or `invalid Prefix` for a length above 128) and
    the sender: the two flags and the two expiry timestamps `⌊(receipt + lifetime) / 1 s⌋`.
    `per_prefix_four_cidr` is the form with the CIDR label spelled out. -/
theorem per_prefix_four (ra : RA) (h : Nat) (t : Time) (p : PI) (hp : Opt.pi p ∈ ra.options) :
    MetricOp.set (.prefixAutonomous p.label h) (b2i p.autonomous) ∈ monitorHandle (.ra ra) h t ∧
    MetricOp.set (.prefixOnLink p.label h) (b2i p.onLink) ∈ monitorHandle (.ra ra) h t ∧
    MetricOp.set (.prefixPreferred p.label h) ((t + p.preferred) / 1000000000) ∈ monitorHandle (.ra ra) h t ∧
    MetricOp.set (.prefixValid p.label h) ((t + p.valid) / 1000000000) ∈ monitorHandle (.ra ra) h t := by
  have hp' := (mem_pickPI p ra.options).mpr hp
  simp only [monitorHandle, List.mem_cons, mem_raOps]
  refine ⟨?_, ?_, ?_, ?_⟩ <;> right <;> right <;> right <;> right <;> refine ⟨p, hp', ?_⟩
  · exact Or.inl rfl
  · exact Or.inr (Or.inl rfl)
  · exact Or.inr (Or.inr (Or.inl rfl))
  · exact Or.inr (Or.inr (Or.inr rfl))

/-- Nothing but a Prefix Information option of this RA writes a prefix gauge: every such write
    is labelled with the sender and with the label of an option that carries exactly that value.
    (Other options — also Route Information for the same prefix — are ignored.)
    `prefix_writes_only_from_pi_cidr` spells this out for a label `a/l`. -/
theorem prefix_writes_only_from_pi (ra : RA) (h : Nat) (t : Time) (pl : PLabel) (r : Nat) (v : Int) :
    (MetricOp.set (.prefixAutonomous pl r) v ∈ monitorHandle (.ra ra) h t →
      r = h ∧ ∃ p, Opt.pi p ∈ ra.options ∧ p.label = pl ∧ v = b2i p.autonomous) ∧
    (MetricOp.set (.prefixOnLink pl r) v ∈ monitorHandle (.ra ra) h t →
      r = h ∧ ∃ p, Opt.pi p ∈ ra.options ∧ p.label = pl ∧ v = b2i p.onLink) ∧
    (MetricOp.set (.prefixPreferred pl r) v ∈ monitorHandle (.ra ra) h t →
      r = h ∧ ∃ p, Opt.pi p ∈ ra.options ∧ p.label = pl ∧ v = (t + p.preferred) / 1000000000) ∧
    (MetricOp.set (.prefixValid pl r) v ∈ monitorHandle (.ra ra) h t →
      r = h ∧ ∃ p, Opt.pi p ∈ ra.options ∧ p.label = pl ∧ v = (t + p.valid) / 1000000000) := by
  simp only [monitorHandle, List.mem_cons, mem_raOps]
  refine ⟨?_, ?_, ?_, ?_⟩ <;>
  · rintro (h0 | h0 | h0 | ⟨_, h0⟩ | ⟨p, hp, h0 | h0 | h0 | h0⟩) <;> try cases h0
    exact ⟨rfl, p, (mem_pickPI p _).mp hp, rfl, rfl⟩

/-- In terms of the store: after an RA, each prefix gauge of the sender holds the value of the
    last option with that label in the RA (a prefix repeated in one RA: last one wins; for
    `pl = .invalid`: the last malformed option wins, whatever its address and length), and is
    untouched when the RA carries no option with that label. -/
theorem per_prefix_store (ra : RA) (h : Nat) (t : Time) (pl : PLabel) (st : Store) :
    run st (monitorHandle (.ra ra) h t) (.prefixAutonomous pl h) =
      (match lastPI? pl (prefixesOf ra) with
       | some p => some (b2i p.autonomous) | none => st (.prefixAutonomous pl h)) ∧
    run st (monitorHandle (.ra ra) h t) (.prefixOnLink pl h) =
      (match lastPI? pl (prefixesOf ra) with
       | some p => some (b2i p.onLink) | none => st (.prefixOnLink pl h)) ∧
    run st (monitorHandle (.ra ra) h t) (.prefixPreferred pl h) =
      (match lastPI? pl (prefixesOf ra) with
       | some p => some ((t + p.preferred) / 1000000000) | none => st (.prefixPreferred pl h)) ∧
    run st (monitorHandle (.ra ra) h t) (.prefixValid pl h) =
      (match lastPI? pl (prefixesOf ra) with
       | some p => some ((t + p.valid) / 1000000000) | none => st (.prefixValid pl h)) := by
  refine ⟨?_, ?_, ?_, ?_⟩ <;>
  · rw [run_gauge _ rfl _ _ (handle_wf _ h t), lastSet?_handle]
    simp only [eventGauge, seriesHost, raGauge, if_true]
    generalize lastPI? pl (prefixesOf ra) = last
    cases last <;> rfl

/-- `lastPI?` is "the last option with this label", declaratively. -/
theorem lastPI_iff (pl : PLabel) (ps : List PI) (p : PI) :
    lastPI? pl ps = some p ↔
      ∃ pre post, ps = pre ++ p :: post ∧ p.label = pl ∧ ∀ q ∈ post, ¬ q.label = pl := by
  have none_iff : ∀ ps : List PI, lastPI? pl ps = none ↔ ∀ q ∈ ps, ¬ q.label = pl := by
    intro ps
    induction ps with
    | nil => simp [lastPI?]
    | cons q r ih =>
      simp only [lastPI?, List.mem_cons, forall_eq_or_imp]
      cases hq : lastPI? pl r with
      | some x => simp only [reduceCtorEq, false_iff]; intro hh; exact absurd (ih.mpr hh.2) (by simp [hq])
      | none =>
        have := ih.mp hq
        by_cases hc : q.label = pl
        · simp [hc]
        · simp only [hc, if_false, not_false_eq_true, true_and, true_iff]
          exact this
  induction ps with
  | nil => simp [lastPI?]
  | cons q r ih =>
    simp only [lastPI?]
    cases hq : lastPI? pl r with
    | some x =>
      simp only [Option.some.injEq]
      constructor
      · rintro rfl
        obtain ⟨pre, post, rfl, h1, h3⟩ := ih.mp hq
        exact ⟨q :: pre, post, rfl, h1, h3⟩
      · rintro ⟨pre, post, he, h1, h3⟩
        cases pre with
        | nil =>
          simp only [List.nil_append, List.cons.injEq] at he
          obtain ⟨_, rfl⟩ := he
          exact absurd ((none_iff _).mpr h3) (by simp [hq])
        | cons q' pre' =>
          simp only [List.cons_append, List.cons.injEq] at he
          obtain ⟨_, rfl⟩ := he
          have := ih.mpr ⟨pre', post, rfl, h1, h3⟩
          rw [hq] at this; exact Option.some.inj this
    | none =>
      have hn := (none_iff _).mp hq
      constructor
      · intro hh
        by_cases hc : q.label = pl
        · simp only [hc, if_true, Option.some.injEq] at hh
          subst hh
          exact ⟨[], r, rfl, hc, hn⟩
        · simp [hc] at hh
      · rintro ⟨pre, post, he, h1, h3⟩
        cases pre with
        | nil =>
          simp only [List.nil_append, List.cons.injEq] at he
          obtain ⟨rfl, rfl⟩ := he
          simp [h1]
        | cons q' pre' =>
          simp only [List.cons_append, List.cons.injEq] at he
          obtain ⟨_, rfl⟩ := he
          exact absurd h1 (hn p (by simp))

/-- A message that is not an RA (RS, NS, NA, anything else) is counted and nothing more: one
    counter increment, no gauge is written, every gauge keeps its sample. -/
theorem non_ra_only_counted (ty h : Nat) (t : Time) (st : Store) :
    monitorHandle (.other ty) h t = [.inc (.received h ty) 1] ∧
    ∀ s, isCounter s = false → run st (monitorHandle (.other ty) h t) s = st s := by
  refine ⟨rfl, fun s hs => ?_⟩
  rw [run_gauge _ hs _ _ (handle_wf _ h t), lastSet?_handle]
  rfl

/-! ### Sequences -/

private theorem lastWrite_none_iff (s : Series) (evs : List Event) :
    lastWrite? s evs = none ↔ ∀ e ∈ evs, eventGauge e s = none := by
  induction evs with
  | nil => simp [lastWrite?]
  | cons e r ih =>
    simp only [lastWrite?, List.mem_cons, forall_eq_or_imp]
    cases hq : lastWrite? s r with
    | some x =>
      simp only [reduceCtorEq, false_iff]
      intro hh; exact absurd (ih.mpr hh.2) (by simp [hq])
    | none =>
      have := ih.mp hq
      simp only [iff_self_and]
      exact fun _ => this

/-- One more message: it is counted, it overrides exactly the gauges it says something about,
    and every other gauge keeps the value it had (repeated senders and prefixes: the later
    message wins). -/
theorem sequence_step (evs : List Event) (e : Event) (s : Series) :
    finalStore (evs ++ [e]) s =
      match s with
      | .received h ty =>
        if h = e.host ∧ ty = e.msg.typ then some ((finalStore evs s).getD 0 + 1) else finalStore evs s
      | _ => match eventGauge e s with
        | some v => some v
        | none => finalStore evs s := by
  have hrun : finalStore (evs ++ [e]) = run (finalStore evs) (monitorHandle e.msg e.host e.now) := by
    unfold finalStore
    rw [opsOf_append, run_append]
    simp [opsOf]
  rw [hrun]
  cases s with
  | received h ty =>
    by_cases hh : h = e.host ∧ ty = e.msg.typ
    · obtain ⟨rfl, rfl⟩ := hh
      simpa using (counts_once e.msg e.host e.now (finalStore evs)).2.1
    · simpa [hh] using (counts_once e.msg e.host e.now (finalStore evs)).2.2 h ty hh
  | flagManaged r => rw [run_gauge _ rfl _ _ (handle_wf _ _ _), lastSet?_handle]
  | flagOther r => rw [run_gauge _ rfl _ _ (handle_wf _ _ _), lastSet?_handle]
  | defaultRoute r => rw [run_gauge _ rfl _ _ (handle_wf _ _ _), lastSet?_handle]
  | prefixAutonomous pl r => rw [run_gauge _ rfl _ _ (handle_wf _ _ _), lastSet?_handle]
  | prefixOnLink pl r => rw [run_gauge _ rfl _ _ (handle_wf _ _ _), lastSet?_handle]
  | prefixPreferred pl r => rw [run_gauge _ rfl _ _ (handle_wf _ _ _), lastSet?_handle]
  | prefixValid pl r => rw [run_gauge _ rfl _ _ (handle_wf _ _ _), lastSet?_handle]

/-- Last write wins, for sequences of any length: a gauge reads `v` at the end iff some
    message of the sequence says `v` about it and no later message says anything about it;
    it does not exist iff no message says anything about it. -/
theorem sequence_last_write_wins (evs : List Event) (s : Series) (hs : isCounter s = false) :
    (∀ v, finalStore evs s = some v ↔
      ∃ pre e post, evs = pre ++ e :: post ∧ eventGauge e s = some v ∧
        ∀ e' ∈ post, eventGauge e' s = none) ∧
    (finalStore evs s = none ↔ ∀ e ∈ evs, eventGauge e s = none) := by
  have hexp : finalStore evs s = lastWrite? s evs := by
    rw [final_store_eq_expected]
    cases s <;> first | rfl | simp [isCounter] at hs
  rw [hexp]
  refine ⟨fun v => ?_, lastWrite_none_iff s evs⟩
  clear hexp
  induction evs with
  | nil => simp [lastWrite?]
  | cons e0 r ih =>
    simp only [lastWrite?]
    cases hq : lastWrite? s r with
    | some x =>
      simp only [Option.some.injEq]
      constructor
      · rintro rfl
        obtain ⟨pre, e, post, rfl, h1, h2⟩ := ih.mp hq
        exact ⟨e0 :: pre, e, post, rfl, h1, h2⟩
      · rintro ⟨pre, e, post, he, h1, h2⟩
        cases pre with
        | nil =>
          simp only [List.nil_append, List.cons.injEq] at he
          obtain ⟨_, rfl⟩ := he
          exact absurd ((lastWrite_none_iff s _).mpr h2) (by simp [hq])
        | cons q' pre' =>
          simp only [List.cons_append, List.cons.injEq] at he
          obtain ⟨_, rfl⟩ := he
          have := ih.mpr ⟨pre', e, post, rfl, h1, h2⟩
          rw [hq] at this; exact Option.some.inj this
    | none =>
      have hn := (lastWrite_none_iff s _).mp hq
      constructor
      · intro hh
        exact ⟨[], e0, r, rfl, hh, hn⟩
      · rintro ⟨pre, e, post, he, h1, h2⟩
        cases pre with
        | nil =>
          simp only [List.nil_append, List.cons.injEq] at he
          obtain ⟨rfl, rfl⟩ := he
          exact h1
        | cons q' pre' =>
          simp only [List.cons_append, List.cons.injEq] at he
          obtain ⟨_, rfl⟩ := he
          have := hn e (by simp)
          rw [this] at h1; cases h1

/-! ### The model meets the oracle -/

private theorem touchedBy_eq (e : Event) :
    touchedBy e = (monitorHandle e.msg e.host e.now).map MetricOp.key := by
  unfold touchedBy monitorHandle
  cases hm : e.msg with
  | other ty => simp [MetricOp.key]
  | ra ra =>
    simp only [raOps, List.map_cons, List.map_append, MetricOp.key, List.map_flatMap, prefixOps,
      List.map_nil, pick_eq_prefixesOf]
    by_cases hl : ra.routerLifetime = 0 <;> simp [hl, MetricOp.key]

private theorem touched_eq (evs : List Event) : touched evs = (opsOf evs).map MetricOp.key := by
  unfold touched opsOf
  rw [List.map_flatMap]
  congr 1
  funext e
  exact touchedBy_eq e

/-- The spec's enumeration of series is exact: a series is expected to exist iff some message
    of the sequence gives rise to it. -/
theorem touched_exact (evs : List Event) (s : Series) :
    s ∈ touched evs ↔ expected evs s ≠ none := by
  rw [touched_eq, ← final_store_eq_expected]
  constructor
  · intro hm
    obtain ⟨op, hop, hk⟩ := List.mem_map.mp hm
    have := run_some_of_mem s (opsOf evs) Store.empty ⟨op, hop, hk⟩
    intro hn; unfold finalStore at hn; rw [hn] at this; cases this
  · intro hne
    apply Classical.byContradiction
    intro hnm
    apply hne
    unfold finalStore
    rw [run_untouched s]
    · rfl
    · intro op hop hk
      exact hnm (List.mem_map.mpr ⟨op, hop, hk⟩)

private theorem keys_observe_sublist (f : Series → Option Int) (l : List Series) :
    ((l.filterMap fun s => match f s with | some v => some (s, v) | none => none).map Prod.fst).Sublist l := by
  induction l with
  | nil => simp
  | cons a r ih =>
    rw [List.filterMap_cons]
    cases f a with
    | none => exact List.Sublist.cons _ ih
    | some v => exact List.Sublist.cons_cons _ ih

private theorem mem_observe (evs : List Event) (s : Series) (v : Int) :
    (s, v) ∈ observe evs ↔ s ∈ touched evs ∧ finalStore evs s = some v := by
  unfold observe
  rw [List.mem_filterMap, touched_eq]
  constructor
  · rintro ⟨k, hk, hv⟩
    cases hf : finalStore evs k with
    | none => simp [hf] at hv
    | some w =>
      simp only [hf, Option.some.injEq, Prod.mk.injEq] at hv
      obtain ⟨rfl, rfl⟩ := hv
      exact ⟨Model.mem_dedupe.mp hk, hf⟩
  · rintro ⟨hk, hv⟩
    exact ⟨s, Model.mem_dedupe.mpr hk, by simp [hv]⟩

/-! ### Labels: CIDR form and the malformed lengths -/

/-- An option is labelled `a/l` iff that is its address and length and the length is one an
    IPv6 prefix can have. -/
theorem label_eq_cidr_iff (p : PI) (a l : Nat) :
    p.label = .cidr a l ↔ p.addr = a ∧ p.len = l ∧ l ≤ 128 := by
  unfold PI.label
  by_cases h : p.len ≤ 128
  · simp only [h, if_true, PLabel.cidr.injEq]
    constructor
    · rintro ⟨rfl, rfl⟩; exact ⟨rfl, rfl, h⟩
    · rintro ⟨rfl, rfl, _⟩; exact ⟨rfl, rfl⟩
  · simp only [h, if_false, reduceCtorEq, false_iff]
    rintro ⟨_, rfl, hl⟩; exact h hl
 
/-- An option gets the literal label `invalid Prefix` iff its length is malformed (> 128). -/
theorem label_eq_invalid_iff (p : PI) : p.label = .invalid ↔ p.malformed = true := by
  unfold PI.label PI.malformed
  by_cases h : p.len ≤ 128
  · have : ¬ 128 < p.len := by omega
    simp [h, this]
  · have : 128 < p.len := by omega
    simp [h, this]

/-- "labelled by the prefix in CIDR form": a well-formed option is labelled by exactly its
    (address, length). -/
theorem label_of_wellFormed (p : PI) (h : p.len ≤ 128) : p.label = .cidr p.addr p.len :=
  (label_eq_cidr_iff p p.addr p.len).mpr ⟨rfl, rfl, h⟩

/-- Well-formed options never share a label unless they are for the same (address, length) … -/
theorem label_injective_of_wellFormed (p q : PI) (hq : q.len ≤ 128) :
    p.label = q.label ↔ p.addr = q.addr ∧ p.len = q.len := by
  rw [label_of_wellFormed q hq, label_eq_cidr_iff]
  exact ⟨fun ⟨h1, h2, _⟩ => ⟨h1, h2⟩, fun ⟨h1, h2⟩ => ⟨h1, h2, hq⟩⟩

/-- … whereas all malformed ones collide on one label, whatever their addresses and lengths
    (this is where the model keyed by `(addr, len)` diverged from the code), and never with a
    well-formed one. -/
theorem malformed_collide (p q : PI) (hp : 128 < p.len) (hq : 128 < q.len) :
    p.label = q.label ∧ ∀ w : PI, w.len ≤ 128 → w.label ≠ p.label := by
  have h1 : p.label = .invalid := (label_eq_invalid_iff p).mpr (by simp [PI.malformed, hp])
  have h2 : q.label = .invalid := (label_eq_invalid_iff q).mpr (by simp [PI.malformed, hq])
  refine ⟨h1.trans h2.symm, fun w hw => ?_⟩
  rw [h1, label_of_wellFormed w hw]
  exact fun h => by cases h

/-- No series labelled `a/l` with `l > 128` is ever written. -/
theorem no_cidr_label_above_128 (ra : RA) (h : Nat) (t : Time) (a l : Nat) (hl : 128 < l)
    (op : MetricOp) (hop : op ∈ monitorHandle (.ra ra) h t) (r : Nat) :
    op.key ≠ .prefixAutonomous (.cidr a l) r ∧ op.key ≠ .prefixOnLink (.cidr a l) r ∧
    op.key ≠ .prefixPreferred (.cidr a l) r ∧ op.key ≠ .prefixValid (.cidr a l) r := by
  have hno : ∀ p : PI, p.label ≠ .cidr a l := fun p hp => by
    have := ((label_eq_cidr_iff p a l).mp hp).2.2; omega
  simp only [monitorHandle, List.mem_cons, mem_raOps] at hop
  rcases hop with rfl | rfl | rfl | ⟨_, rfl⟩ | ⟨p, _, rfl | rfl | rfl | rfl⟩ <;>
    simp [MetricOp.key, hno]

/-- The statement's form of `per_prefix_four`: a Prefix Information option whose length is a
    prefix length (≤ 128) writes the four gauges labelled by its prefix in CIDR form,
    (address, length), and the sender. -/
theorem per_prefix_four_cidr (ra : RA) (h : Nat) (t : Time) (p : PI) (hp : Opt.pi p ∈ ra.options)
    (hl : p.len ≤ 128) :
    MetricOp.set (.prefixAutonomous (.cidr p.addr p.len) h) (b2i p.autonomous) ∈ monitorHandle (.ra ra) h t ∧
    MetricOp.set (.prefixOnLink (.cidr p.addr p.len) h) (b2i p.onLink) ∈ monitorHandle (.ra ra) h t ∧
    MetricOp.set (.prefixPreferred (.cidr p.addr p.len) h) ((t + p.preferred) / 1000000000) ∈ monitorHandle (.ra ra) h t ∧
    MetricOp.set (.prefixValid (.cidr p.addr p.len) h) ((t + p.valid) / 1000000000) ∈ monitorHandle (.ra ra) h t := by
  have := per_prefix_four ra h t p hp
  rwa [label_of_wellFormed p hl] at this

/-- A write to a gauge labelled `a/l` comes from a Prefix Information option of this RA with
    exactly that address and length, the length being ≤ 128: a malformed option never writes
    (or overwrites) a CIDR-labelled series. -/
theorem prefix_writes_only_from_pi_cidr (ra : RA) (h : Nat) (t : Time) (a l r : Nat) (v : Int) :
    (MetricOp.set (.prefixAutonomous (.cidr a l) r) v ∈ monitorHandle (.ra ra) h t →
      r = h ∧ ∃ p, Opt.pi p ∈ ra.options ∧ p.addr = a ∧ p.len = l ∧ l ≤ 128 ∧ v = b2i p.autonomous) ∧
    (MetricOp.set (.prefixOnLink (.cidr a l) r) v ∈ monitorHandle (.ra ra) h t →
      r = h ∧ ∃ p, Opt.pi p ∈ ra.options ∧ p.addr = a ∧ p.len = l ∧ l ≤ 128 ∧ v = b2i p.onLink) ∧
    (MetricOp.set (.prefixPreferred (.cidr a l) r) v ∈ monitorHandle (.ra ra) h t →
      r = h ∧ ∃ p, Opt.pi p ∈ ra.options ∧ p.addr = a ∧ p.len = l ∧ l ≤ 128 ∧ v = (t + p.preferred) / 1000000000) ∧
    (MetricOp.set (.prefixValid (.cidr a l) r) v ∈ monitorHandle (.ra ra) h t →
      r = h ∧ ∃ p, Opt.pi p ∈ ra.options ∧ p.addr = a ∧ p.len = l ∧ l ≤ 128 ∧ v = (t + p.valid) / 1000000000) := by
  obtain ⟨h1, h2, h3, h4⟩ := prefix_writes_only_from_pi ra h t (.cidr a l) r v
  refine ⟨fun hm => ?_, fun hm => ?_, fun hm => ?_, fun hm => ?_⟩
  · obtain ⟨hr, p, hp, hlab, hv⟩ := h1 hm
    obtain ⟨ha, hl, hle⟩ := (label_eq_cidr_iff p a l).mp hlab
    exact ⟨hr, p, hp, ha, hl, hle, hv⟩
  · obtain ⟨hr, p, hp, hlab, hv⟩ := h2 hm
    obtain ⟨ha, hl, hle⟩ := (label_eq_cidr_iff p a l).mp hlab
    exact ⟨hr, p, hp, ha, hl, hle, hv⟩
  · obtain ⟨hr, p, hp, hlab, hv⟩ := h3 hm
    obtain ⟨ha, hl, hle⟩ := (label_eq_cidr_iff p a l).mp hlab
    exact ⟨hr, p, hp, ha, hl, hle, hv⟩
  · obtain ⟨hr, p, hp, hlab, hv⟩ := h4 hm
    obtain ⟨ha, hl, hle⟩ := (label_eq_cidr_iff p a l).mp hlab
    exact ⟨hr, p, hp, ha, hl, hle, hv⟩

/-- The well-formed options of an RA are reported as if its malformed ones were not there: the
    value of a CIDR-labelled gauge (see `per_prefix_store`) depends on the well-formed options
    only. -/
theorem lastPI_cidr_ignores_malformed (a l : Nat) (ps : List PI) :
    lastPI? (.cidr a l) ps = lastPI? (.cidr a l) (ps.filter fun p => !p.malformed) := by
  induction ps with
  | nil => rfl
  | cons p r ih =>
    by_cases hm : p.malformed = true
    · have hne : ¬ p.label = .cidr a l := by
        rw [(label_eq_invalid_iff p).mpr hm]; exact fun h => by cases h
      rw [List.filter_cons]
      simp only [hm, Bool.not_true, Bool.false_eq_true, if_false, lastPI?, ih, hne]
      cases lastPI? (.cidr a l) (r.filter fun p => !p.malformed) <;> rfl
    · rw [List.filter_cons]
      simp only [hm, Bool.not_false, if_true, lastPI?, ih]

/-! ### Agreement with the model keyed by (address, length)

  `legacyHandle` is the transcription as it stood before malformed lengths were modelled: the
  label of every option is `addr/len`, whatever `len`.  On every message all of whose Prefix
  Information lengths are ≤ 128 the two agree operation for operation; the non-vacuity example
  below shows them apart. -/

private theorem flatMap_congr' {α β : Type} (f g : α → List β) :
    ∀ l : List α, (∀ x ∈ l, f x = g x) → l.flatMap f = l.flatMap g := by
  intro l
  induction l with
  | nil => intro _; rfl
  | cons a r ih =>
    intro h
    rw [List.flatMap_cons, List.flatMap_cons, h a (List.mem_cons_self ..),
      ih (fun x hx => h x (List.mem_cons_of_mem _ hx))]

def legacyPrefixOps (host : Nat) (now : Time) (p : PI) : List MetricOp :=
  [ .set (.prefixAutonomous (.cidr p.addr p.len) host) (b2i p.autonomous),
    .set (.prefixOnLink (.cidr p.addr p.len) host) (b2i p.onLink),
    .set (.prefixPreferred (.cidr p.addr p.len) host) (unixSec (now + p.preferred)),
    .set (.prefixValid (.cidr p.addr p.len) host) (unixSec (now + p.valid)) ]

def legacyHandle (msg : Msg) (host : Nat) (now : Time) : List MetricOp :=
  .inc (.received host msg.typ) 1 ::
  match msg with
  | .ra ra =>
    [ .set (.flagManaged host) (b2i ra.managed), .set (.flagOther host) (b2i ra.other) ] ++
    (if ra.routerLifetime ≠ 0 then
      [ .set (.defaultRoute host) (unixSec (now + ra.routerLifetime)) ] else []) ++
    (pickPI ra.options).flatMap (legacyPrefixOps host now)
  | .other _ => []

def legacyOpsOf (evs : List Event) : List MetricOp :=
  evs.flatMap fun e => legacyHandle e.msg e.host e.now

theorem handle_eq_legacy (m : Msg) (h : Nat) (t : Time) (hw : wellFormedMsg m = true) :
    monitorHandle m h t = legacyHandle m h t := by
  cases m with
  | other ty => rfl
  | ra ra =>
    simp only [wellFormedMsg, wellFormedRA, ← pick_eq_prefixesOf, List.all_eq_true] at hw
    have : (pickPI ra.options).flatMap (prefixOps h t) =
        (pickPI ra.options).flatMap (legacyPrefixOps h t) := by
      apply flatMap_congr'
      intro p hp
      have hl : p.len ≤ 128 := by
        have := hw p hp
        simp only [PI.malformed, Bool.not_eq_true', decide_eq_false_iff_not] at this
        omega
      simp only [prefixOps, legacyPrefixOps, label_of_wellFormed p hl]
    simp only [monitorHandle, legacyHandle, raOps, this]

/-- For sequences in which every Prefix Information length is ≤ 128, the extended model performs
    exactly the operations of the model keyed by (address, length) — hence the same store, the
    same observation and the same canonical output. -/
theorem opsOf_eq_legacy (evs : List Event) (hw : wellFormedLens evs = true) :
    opsOf evs = legacyOpsOf evs ∧ finalStore evs = run Store.empty (legacyOpsOf evs) := by
  have h : opsOf evs = legacyOpsOf evs := by
    unfold opsOf legacyOpsOf
    apply flatMap_congr'
    intro e he
    simp only [wellFormedLens, List.all_eq_true] at hw
    exact handle_eq_legacy _ _ _ (hw e he)
  exact ⟨h, by unfold finalStore; rw [h]⟩

/-! ### The oracle and the malformed lengths -/

private theorem sentMalformed_of_touched (evs : List Event) (s : Series) (ho : outOfScope s = true)
    (hs : s ∈ touched evs) : sentMalformed evs (seriesHost s) = true := by
  obtain ⟨e, he, hse⟩ := List.mem_flatMap.mp hs
  unfold sentMalformed
  rw [List.any_eq_true]
  refine ⟨e, he, ?_⟩
  unfold touchedBy at hse
  rcases List.mem_cons.mp hse with rfl | hse
  · simp [outOfScope] at ho
  · cases hm : e.msg with
    | other ty => rw [hm] at hse; cases hse
    | ra ra =>
      rw [hm] at hse
      simp only [List.mem_append, List.mem_cons, List.mem_flatMap, List.not_mem_nil, or_false] at hse
      rcases hse with ((rfl | rfl) | hse) | ⟨p, hp, hse⟩
      · simp [outOfScope] at ho
      · simp [outOfScope] at ho
      · by_cases hl : ra.routerLifetime = 0
        · simp [hl] at hse
        · simp only [hl, ne_eq, not_false_eq_true, if_true, List.mem_cons, List.not_mem_nil, or_false] at hse
          subst hse; simp [outOfScope] at ho
      · have hlab : p.label = .invalid ∧ seriesHost s = e.host := by
          rcases hse with rfl | rfl | rfl | rfl <;>
          · cases hq : p.label with
            | invalid => exact ⟨rfl, rfl⟩
            | cidr a l => rw [hq] at ho; simp [outOfScope] at ho
        have hmal := (label_eq_invalid_iff p).mp hlab.1
        have : wellFormedRA ra = false := by
          cases hwf : wellFormedRA ra with
          | false => rfl
          | true =>
            simp only [wellFormedRA, List.all_eq_true] at hwf
            have := hwf p hp; simp [hmal] at this
        simp [hlab.2, wellFormedMsg, this]

private theorem not_sentMalformed_of_wellFormed (evs : List Event) (hw : wellFormedLens evs = true)
    (r : Nat) : sentMalformed evs r = false := by
  simp only [wellFormedLens, List.all_eq_true] at hw
  cases h : sentMalformed evs r with
  | false => rfl
  | true =>
    simp only [sentMalformed, List.any_eq_true, Bool.and_eq_true, Bool.not_eq_true'] at h
    obtain ⟨e, he, _, hf⟩ := h
    rw [hw e he] at hf; cases hf

/-- The canonical output of the model (what `vfdriver` prints and the harness compares with the
    implementation's series) satisfies the oracle, for every message sequence — malformed
    prefix lengths included. -/
theorem holds_model (evs : List Event) : holds evs (canonical (observe evs)) = true := by
  unfold holds
  simp only [Bool.and_eq_true]
  refine ⟨⟨?_, ?_⟩, ?_⟩
  · -- no label tuple twice
    unfold uniqueKeys keys canonical
    rw [decide_eq_true_eq, ((Model.sortBy_perm _ _).map Prod.fst).nodup_iff]
    exact (keys_observe_sublist (finalStore evs) _).nodup (Model.nodup_dedupe _)
  · -- every reported sample is the expected one
    unfold sound canonical
    rw [List.all_eq_true]
    rintro ⟨s, v⟩ hm
    have hobs := (mem_observe evs s v).mp (Model.mem_sortBy.mp hm)
    by_cases ho : outOfScope s = true
    · simp only [ho, if_true]
      exact sentMalformed_of_touched evs s ho hobs.1
    · have := hobs.2
      rw [final_store_eq_expected] at this
      simp [ho, this]
  · -- every expected series is reported
    unfold complete keys canonical
    rw [List.all_eq_true]
    intro s hs
    have hne := (touched_exact evs s).mp hs
    cases hv : expected evs s with
    | none => exact absurd hv hne
    | some v =>
      have : (s, v) ∈ observe evs := (mem_observe evs s v).mpr ⟨hs, by rw [final_store_eq_expected]; exact hv⟩
      simp only [Bool.or_eq_true, List.contains_eq_mem, List.mem_map, decide_eq_true_eq]
      exact Or.inr ⟨(s, v), Model.mem_sortBy.mpr this, rfl⟩

/-- The oracle pins the observation down on every series the statement speaks about — all of
    them but the prefix gauges under the literal label `invalid Prefix`: whatever satisfies it
    reads there exactly what the model computes.  In particular, also in the presence of
    malformed options, the message counter counts the RA and every well-formed option of the
    same RA is reported exactly (so the oracle accepts nothing that loses or misreports them). -/
theorem holds_unique (evs : List Event) (obs : List (Series × Int)) (h : holds evs obs = true)
    (s : Series) (hs : outOfScope s = false) (v : Int) :
    (s, v) ∈ obs ↔ finalStore evs s = some v := by
  unfold holds at h
  simp only [Bool.and_eq_true] at h
  obtain ⟨⟨hu, hsound⟩, hcomp⟩ := h
  unfold sound at hsound; rw [List.all_eq_true] at hsound
  unfold complete at hcomp; rw [List.all_eq_true] at hcomp
  rw [final_store_eq_expected]
  constructor
  · intro hm
    have := hsound (s, v) hm
    simpa [hs] using this
  · intro he
    have hst : s ∈ touched evs := (touched_exact evs s).mpr (by rw [he]; simp)
    have := hcomp s hst
    simp only [hs, Bool.false_or, keys, List.contains_eq_mem, List.mem_map, decide_eq_true_eq] at this
    obtain ⟨⟨s', w⟩, hm, rfl⟩ := this
    have hw := hsound (s', w) hm
    simp only [hs, Bool.false_eq_true, if_false, beq_iff_eq] at hw
    rw [he] at hw
    cases hw
    exact hm

/-- The out-of-scope series are only tolerated for a router that did send a malformed option. -/
theorem holds_invalid_only_if_sent (evs : List Event) (obs : List (Series × Int))
    (h : holds evs obs = true) (s : Series) (hs : outOfScope s = true) (v : Int)
    (hm : (s, v) ∈ obs) : sentMalformed evs (seriesHost s) = true := by
  unfold holds at h
  simp only [Bool.and_eq_true] at h
  have hsound := h.1.2
  unfold sound at hsound; rw [List.all_eq_true] at hsound
  simpa [hs] using hsound (s, v) hm

/-- For sequences in which every Prefix Information length is ≤ 128 — the inputs on which "the
    prefix in CIDR form" exists throughout — the oracle is exact on *every* series, as before:
    no `invalid Prefix` series may be reported and none is computed. -/
theorem holds_unique_wellFormed (evs : List Event) (hw : wellFormedLens evs = true)
    (obs : List (Series × Int)) (h : holds evs obs = true) (s : Series) (v : Int) :
    (s, v) ∈ obs ↔ finalStore evs s = some v := by
  cases hs : outOfScope s with
  | false => exact holds_unique evs obs h s hs v
  | true =>
    have hno := not_sentMalformed_of_wellFormed evs hw (seriesHost s)
    constructor
    · intro hm
      rw [holds_invalid_only_if_sent evs obs h s hs v hm] at hno; cases hno
    · intro hf
      have hst : s ∈ touched evs :=
        (touched_exact evs s).mpr (by rw [← final_store_eq_expected, hf]; simp)
      rw [sentMalformed_of_touched evs s hs hst] at hno; cases hno

/-! ### Non-vacuity -/

/-- Two routers; router 1 sends an RA (lifetime 1800 s, prefix 100/64 twice, an MTU option in
    between) at 1.5 s, an RS, then an RA with lifetime 0 and infinite preferred lifetime at 10 s;
    router 2 sends an NA.  The default-route gauge of router 1 survives the lifetime-0 RA, the
    prefix gauges are overwritten, flags follow the last RA. -/
example :
    let pi1 : PI := { addr := 100, len := 64, onLink := true, autonomous := false,
                      preferred := 60 * second, valid := 120 * second }
    let pi2 : PI := { pi1 with autonomous := true, valid := 90 * second + 700000000 }
    let pi3 : PI := { pi1 with onLink := false, preferred := infinity, valid := 0 }
    let evs : List Event := [
      ⟨.ra { managed := true, other := false, routerLifetime := 1800 * second,
             options := [.pi pi1, .other 5, .pi pi2] }, 1, 1500000000⟩,
      ⟨.other 133, 1, 2000000000⟩,
      ⟨.other 136, 2, 3000000000⟩,
      ⟨.ra { managed := false, other := true, routerLifetime := 0, options := [.pi pi3] }, 1,
        10 * second⟩ ]
    wellFormedLens evs = true ∧
    holds evs (canonical (observe evs)) = true ∧
    finalStore evs (.received 1 134) = some 2 ∧ finalStore evs (.received 1 133) = some 1 ∧
    finalStore evs (.received 2 136) = some 1 ∧ finalStore evs (.received 2 134) = none ∧
    finalStore evs (.flagManaged 1) = some 0 ∧ finalStore evs (.flagOther 1) = some 1 ∧
    finalStore evs (.flagManaged 2) = none ∧
    finalStore evs (.defaultRoute 1) = some 1801 ∧
    finalStore (evs.take 1) (.prefixAutonomous (.cidr 100 64) 1) = some 1 ∧
    finalStore (evs.take 1) (.prefixValid (.cidr 100 64) 1) = some 92 ∧
    finalStore evs (.prefixOnLink (.cidr 100 64) 1) = some 0 ∧
    finalStore evs (.prefixPreferred (.cidr 100 64) 1) = some 4294967305 ∧
    finalStore evs (.prefixValid (.cidr 100 64) 1) = some 10 ∧
    (canonical (observe evs)).length = 10 := by
  decide

/-- The oracle rejects what the mutations of the drill produce: a default-route gauge for a
    lifetime-0 RA, and swapped preferred/valid timestamps. -/
example :
    let ev0 : List Event := [⟨.ra { managed := false, other := true, routerLifetime := 0, options := [] }, 1, 0⟩]
    holds ev0 [(.received 1 134, 1), (.flagManaged 1, 0), (.flagOther 1, 1), (.defaultRoute 1, 0)] = false ∧
    holds ev0 [(.received 1 134, 1), (.flagManaged 1, 0), (.flagOther 1, 1)] = true ∧
    holds ev0 [(.received 1 134, 1), (.flagManaged 1, 0)] = false := by
  decide

/-- Malformed prefix lengths.  One RA from router 1 at t = 0 carries, in this order, a Prefix
    Information option 100/200 (malformed), the well-formed 100/64 (same address), and 7/255
    (malformed).  What the model — like `handle` — does: both malformed options land on the one
    label `invalid Prefix`, the later (7/255) overwrites the earlier, so there are 3 + 4 + 4 = 11
    series where the (address, length)-keyed transcription has 15; 100/64 is reported exactly;
    nothing is labelled 100/200.  What the oracle does: it accepts this observation, it accepts
    equally an observation without the `invalid Prefix` series or with other values there, and
    it rejects: a series labelled 100/200, a lost or wrong well-formed series, a missing message
    count, and an `invalid Prefix` series for a router that sent no malformed option. -/
example :
    let bad1 : PI := { addr := 100, len := 200, onLink := false, autonomous := true,
                       preferred := 10 * second, valid := 20 * second }
    let good : PI := { addr := 100, len := 64, onLink := true, autonomous := false,
                       preferred := 60 * second, valid := 120 * second }
    let bad2 : PI := { addr := 7, len := 255, onLink := true, autonomous := false,
                       preferred := 30 * second, valid := 40 * second }
    let ra : RA := { managed := false, other := false, routerLifetime := 0,
                     options := [.pi bad1, .pi good, .pi bad2] }
    let evs : List Event := [⟨.ra ra, 1, 0⟩]
    let obs := canonical (observe evs)
    let inScope := obs.filter fun x => !outOfScope x.1
    wellFormedLens evs = false ∧
    bad1.label = .invalid ∧ bad2.label = .invalid ∧ good.label = .cidr 100 64 ∧
    monitorHandle (.ra ra) 1 0 ≠ legacyHandle (.ra ra) 1 0 ∧
    obs.length = 11 ∧ (Model.dedupe ((legacyOpsOf evs).map MetricOp.key)).length = 15 ∧
    finalStore evs (.received 1 134) = some 1 ∧
    finalStore evs (.prefixOnLink (.cidr 100 64) 1) = some 1 ∧
    finalStore evs (.prefixValid (.cidr 100 64) 1) = some 120 ∧
    finalStore evs (.prefixAutonomous .invalid 1) = some 0 ∧
    finalStore evs (.prefixPreferred .invalid 1) = some 30 ∧
    finalStore evs (.prefixValid .invalid 1) = some 40 ∧
    finalStore evs (.prefixValid (.cidr 100 200) 1) = none ∧
    finalStore evs (.prefixValid (.cidr 7 255) 1) = none ∧
    holds evs obs = true ∧
    inScope.length = 7 ∧ holds evs inScope = true ∧
    holds evs ((.prefixValid .invalid 1, 20) :: inScope) = true ∧
    holds evs ((.prefixValid (.cidr 100 200) 1, 20) :: obs) = false ∧
    holds evs (obs.filter fun x => x.1 != .prefixValid (.cidr 100 64) 1) = false ∧
    holds evs (obs.map fun x => if x.1 = .prefixValid (.cidr 100 64) 1 then (x.1, 40) else x) = false ∧
    holds evs (obs.filter fun x => x.1 != .received 1 134) = false ∧
    holds evs ((.prefixValid .invalid 2, 40) :: obs) = false ∧
    holds [⟨.ra { ra with options := [.pi good] }, 1, 0⟩]
      ((.prefixValid .invalid 1, 40) :: canonical (observe [⟨.ra { ra with options := [.pi good] }, 1, 0⟩])) = false := by
  decide

end Corerad.Props.C18
