/-
  Model of the configuration validator (internal/config: config.go, interface.go, plugin.go),
  following the Go control flow.  The TOML decoder and the standard parsers
  (`time.ParseDuration`, `netip.ParsePrefix`, `netip.ParseAddr`, `ndp.NewCaptivePortal`,
  `net.ResolveTCPAddr`) are *external*: their results are inputs of the model (DESIGN §3).
  `none` = the configuration is rejected.
-/
import Corerad.Basic
import Corerad.Model.RA
import Corerad.Gen.Config
import Corerad.Gen.Plugin

namespace Corerad.Model

open Corerad

/-- a duration-valued key: `*string` as seen by `parseDuration`, or a plain `string` where only
    `empty`/`lit`/`bad` (and for `min_interval` also `auto`) occur -/
inductive DurStr where
  | unset | auto | infinite | empty
  | lit (d : Dur)      -- time.ParseDuration succeeded
  | bad                -- time.ParseDuration failed
deriving DecidableEq, Repr, Inhabited

/-- a prefix-valued key: empty string, or the result of `netip.ParsePrefix` -/
inductive PfxStr where
  | empty | bad | ok (p : Prefix)
deriving DecidableEq, Repr, Inhabited

/-- an address-valued element: the result of `netip.ParseAddr` -/
inductive AddrStr where
  | bad | ok (a : IP)
deriving DecidableEq, Repr, Inhabited

/-- `captive_portal`: empty, or the result of `ndp.NewCaptivePortal` (URI id and byte length) -/
inductive CPStr where
  | empty | bad | ok (uri len : Nat)
deriving DecidableEq, Repr, Inhabited

structure RawPrefix where
  pstr : PfxStr := .empty
  onLink : Option Bool := none
  autonomous : Option Bool := none
  valid : DurStr := .unset
  preferred : DurStr := .unset
  deprecated : Bool := false
deriving DecidableEq, Repr, Inhabited

structure RawRoute where
  pstr : PfxStr := .empty
  preference : Nat := 0            -- 0 "", 1 "low", 2 "medium", 3 "high", other = invalid string
  lifetime : DurStr := .unset
  deprecated : Bool := false
deriving DecidableEq, Repr, Inhabited

structure RawRDNSS where
  lifetime : DurStr := .unset
  servers : List AddrStr := []
deriving DecidableEq, Repr, Inhabited

structure RawDNSSL where
  lifetime : DurStr := .unset
  names : List Nat := []
deriving DecidableEq, Repr, Inhabited

/-- `pref64.prefix`: key absent, empty string, or a string handed to `netip.ParsePrefix` -/
inductive RawPref64 where
  | unset | empty | str (p : PfxStr)
deriving DecidableEq, Repr, Inhabited

structure RawInterface where
  name : Nat := 0                   -- 0 = ""
  names : List Nat := []
  monitor : Bool := false
  advertise : Bool := false
  verbose : Bool := false
  maxInterval : DurStr := .empty
  minInterval : DurStr := .empty
  managed : Bool := false
  otherConfig : Bool := false
  reachable : DurStr := .empty
  retransmit : DurStr := .empty
  hopLimit : Option Int := none
  defaultLifetime : DurStr := .unset
  unicastOnly : Bool := false
  preference : Nat := 0
  prefixes : List RawPrefix := []
  routes : List RawRoute := []
  rdnss : List RawRDNSS := []
  dnssl : List RawDNSSL := []
  pref64 : List RawPref64 := []
  mtu : Int := 0
  sourceLLA : Option Bool := none
  captivePortal : CPStr := .empty
deriving Repr, Inhabited

structure RawConfig where
  interfaces : List RawInterface := []
  /-- 0 = "", 1 = resolvable, otherwise `net.ResolveTCPAddr` fails -/
  debugAddr : Nat := 0
  prometheus : Bool := false
  pprof : Bool := false
deriving Repr, Inhabited

structure Config where
  interfaces : List Interface := []
  debugAddr : Nat := 0
  prometheus : Bool := false
  pprof : Bool := false
deriving Repr, Inhabited

/-! ### float64 factors of `parseMinInterval` -/

/-- `int64(c·2^-e · float64(x))` for an IEEE double constant `c·2^-e` (`c < 2^53`) and an integer
    `0 ≤ x < 2^53`: exact product, rounded to 53 significant bits (nearest, ties to even), then
    truncated. -/
def floatMulTrunc (c e x : Nat) : Nat :=
  let n := x * c
  let bits := if n = 0 then 0 else n.log2 + 1
  if bits ≤ 53 then n / 2^e
  else
    let sh := bits - 53
    let q := n / 2^sh
    let r := n % 2^sh
    let half := 2^(sh - 1)
    let q' := if r > half ∨ (r = half ∧ q % 2 = 1) then q + 1 else q
    (q' * 2^sh) / 2^e

/-- `time.Duration(0.33 * float64(max))`; 0.33 is the double 5944751508129055·2^-54 -/
def mul033 (max : Dur) : Dur := (floatMulTrunc 5944751508129055 54 max.toNat : Nat)
/-- `time.Duration(0.75 * float64(max))`; 0.75 = 3·2^-2 -/
def mul075 (max : Dur) : Dur := (floatMulTrunc 3 2 max.toNat : Nat)

/-! ### the parser -/

/-- `parseDuration(s, def)` -/
def parseDuration (s : DurStr) (dflt : Dur) : Option Dur :=
  match s with
  | .unset => some dflt
  | .auto => some dflt
  | .infinite => some infinity
  | .empty => some 0
  | .lit d => some d
  | .bad => none

/-- `parsePreference` -/
def parsePreference (code : Nat) : Option Nat :=
  match code with
  | 0 => some prefMedium
  | 2 => some prefMedium
  | 1 => some prefLow
  | 3 => some prefHigh
  | _ => none

/-- the zero `netip.Prefix` -/
def Prefix.zero : Prefix := { addr := IP.zero, bits := 0 }

/-- `parseIPPrefix` -/
def parseIPPrefix (s : PfxStr) : Option Prefix :=
  match s with
  | .empty => some Prefix.zero
  | .bad => none
  | .ok p =>
    if p.masked ≠ p then none
    else if !p.addr.is6 || p.addr.is4In6 then none
    else some p

def autoPrefix : Prefix := { addr := { valid := true, v4 := false, val := 0 }, bits := 64 }
def autoRoute : Prefix := { addr := { valid := true, v4 := false, val := 0 }, bits := 0 }

/-- `checkLifetime` (the repair of F-1): a lifetime must fit the 32-bit seconds field -/
def lifetimeInRange (d : Dur) : Bool := decide (0 ≤ d) && decide (d ≤ infinity)

/-- `parsePrefix` -/
def parsePrefix (p : RawPrefix) : Option Plugin := do
  let prefix0 ← parseIPPrefix p.pstr
  let prefix_ := if !prefix0.isValid then autoPrefix else prefix0
  if prefix_.isSingleIP then none
  if prefix_.addr.isUnspecified && prefix_.bits != 64 then none
  let valid ← parseDuration p.valid (24 * hour)
  if valid = 0 then none
  let preferred ← parseDuration p.preferred (4 * hour)
  if preferred = 0 then none
  if preferred > valid then none
  if !lifetimeInRange valid || !lifetimeInRange preferred then none
  if p.deprecated && (preferred = infinity || valid = infinity) then none
  pure (.pfx (prefix_ == autoPrefix) prefix_ (p.onLink.getD true) (p.autonomous.getD true)
          valid preferred p.deprecated)

/-- `parseRoute` -/
def parseRoute (r : RawRoute) : Option Plugin := do
  let prefix0 ← parseIPPrefix r.pstr
  let prefix_ := if !prefix0.isValid then autoRoute else prefix0
  if prefix_.addr.isUnspecified && prefix_.bits != 0 then none
  let pref ← parsePreference r.preference
  let lt ← parseDuration r.lifetime (24 * hour)
  if lt = 0 then none
  if !lifetimeInRange lt then none
  if r.deprecated && lt = infinity then none
  pure (.route (prefix_ == autoRoute) prefix_ pref lt r.deprecated)

/-- the server loop of `parseRDNSS`: returns (auto, static servers in input order) -/
def parseServers : List AddrStr → Bool → List IP → Option (Bool × List IP)
  | [], auto, acc => some (auto, acc)
  | .bad :: _, _, _ => none
  | .ok ip :: rest, auto, acc =>
    if !ip.is6 || ip.is4In6 then none
    else if ip.isUnspecified then
      (if auto then none else parseServers rest true acc)
    else if acc.contains ip then none
    else parseServers rest auto (acc ++ [ip])

/-- `parseRDNSS` -/
def parseRDNSS (d : RawRDNSS) (maxInterval : Dur) : Option Plugin := do
  let lifetime ← parseDuration d.lifetime (3 * maxInterval)
  if !lifetimeInRange lifetime then none
  if d.servers.isEmpty then pure (.rdnss true lifetime [])
  else
    let (auto, ips) ← parseServers d.servers false []
    pure (.rdnss auto lifetime (sortBy addrKey ips))

def hasDup : List Nat → Bool
  | [] => false
  | x :: xs => xs.contains x || hasDup xs

/-- the name loop of `parseDNSSL`: an empty name (id 0) or a name seen before ends it with an error -/
def hasDupOrEmpty (names : List Nat) : Bool := names.contains 0 || hasDup names

/-- `parseDNSSL` -/
def parseDNSSL (d : RawDNSSL) (maxInterval : Dur) : Option Plugin := do
  let lifetime ← parseDuration d.lifetime (3 * maxInterval)
  if !lifetimeInRange lifetime then none
  if d.names.isEmpty then none
  if hasDupOrEmpty d.names then none
  pure (.dnssl lifetime d.names)

/-- `plugin.NewPREF64` lifetime as the pinned source computed it: 3·(max truncated to whole
    seconds) rounded up to a multiple of 8 s, capped (F-20: for a fractional `max_interval` this is
    less than 3·max, e.g. 16 s for 5.5 s) -/
def pref64LifetimeWholeSeconds (maxInterval : Dur) : Dur :=
  let maxLt := Gen.Plugin.maxPref64Lifetime
  if wholeSeconds maxInterval * 3 < wholeSeconds maxLt then
    let ls := wholeSeconds maxInterval * 3
    let r := goMod ls 8
    let ls := if r > 0 then ls + (8 - r) else ls
    ls * second
  else maxLt

/-- …and computed on the duration itself: 3·max rounded up to a multiple of 8 s, capped -/
def pref64LifetimeDur (maxInterval : Dur) : Dur :=
  let maxLt := Gen.Plugin.maxPref64Lifetime
  let scaled := 3 * maxInterval
  if scaled < maxLt then
    let r := goMod scaled (8 * second)
    if r > 0 then scaled + (8 * second - r) else scaled
  else maxLt

/-- `plugin.NewPREF64` lifetime, as the source has it (regenerated: `Gen.Plugin.pref64ScalesDuration`) -/
def pref64Lifetime (maxInterval : Dur) : Dur :=
  if Gen.Plugin.pref64ScalesDuration then pref64LifetimeDur maxInterval
  else pref64LifetimeWholeSeconds maxInterval

/-- `64:ff9b::/96` -/
def defaultPref64 : Prefix := { addr := { valid := true, v4 := false, val := 0x0064ff9b000000000000000000000000 }, bits := 96 }

def pref64Bits (b : Nat) : Bool := b == 96 || b == 64 || b == 56 || b == 48 || b == 40 || b == 32

/-- one `pref64` stanza (with the repair of F-2: canonical IPv6 prefix of a NAT64 length) -/
def parsePref64 (p : RawPref64) (maxInterval : Dur) : Option Plugin :=
  let base : Option Prefix := match p with
    | .unset => some defaultPref64
    | .empty => some defaultPref64
    | .str s => match s with
      | .empty => some defaultPref64
      | s => parseIPPrefix s
  match base with
  | none => none
  | some pfx => if pref64Bits pfx.bits then some (.pref64 pfx (pref64Lifetime maxInterval)) else none

def mapM' (f : α → Option β) : List α → Option (List β)
  | [] => some []
  | x :: xs => match f x with
    | none => none
    | some y => match mapM' f xs with
      | none => none
      | some ys => some (y :: ys)

def pluginPrefixOf : Plugin → Prefix
  | .pfx _ p .. => p
  | .route _ p .. => p
  | _ => Prefix.zero

/-- some pair of *distinct positions* satisfies `bad` -/
def anyPair (bad : α → α → Bool) : List α → Bool
  | [] => false
  | x :: xs => xs.any (fun y => bad x y || bad y x) || anyPair bad xs

/-- largest URI (bytes) whose captive-portal option still encodes (F-15) -/
def maxPortalLen : Nat := 246

/-- `parsePlugins` -/
def parsePlugins (ifi : RawInterface) (maxInterval : Dur) : Option (List Plugin) := do
  let prefixes ← mapM' parsePrefix ifi.prefixes
  if anyPair (fun a b => (pluginPrefixOf a).overlaps (pluginPrefixOf b)) prefixes then none
  let routes ← mapM' parseRoute ifi.routes
  if anyPair (fun a b => pluginPrefixOf a != autoRoute && pluginPrefixOf b != autoRoute &&
      (pluginPrefixOf a).overlaps (pluginPrefixOf b)) routes then none
  let rdnss ← mapM' (fun r => parseRDNSS r maxInterval) ifi.rdnss
  let dnssl ← mapM' (fun d => parseDNSSL d maxInterval) ifi.dnssl
  if ifi.mtu < Gen.Config.mtuLo || ifi.mtu > Gen.Config.mtuHi then none
  let mtu := if ifi.mtu != 0 then [Plugin.mtu ifi.mtu] else []
  let lla := if ifi.sourceLLA.getD true then [Plugin.lla] else []
  let cp ← (match ifi.captivePortal with
    | .empty => some []
    | .bad => none
    | .ok uri len => if len > maxPortalLen then none else some [Plugin.captivePortal uri len])
  let p64 ← mapM' (fun p => parsePref64 p maxInterval) ifi.pref64
  pure (prefixes ++ routes ++ rdnss ++ dnssl ++ mtu ++ lla ++ cp ++ p64)

/-- `parseMinInterval` -/
def parseMinInterval (s : DurStr) (max : Dur) : Option Dur :=
  match s with
  | .empty | .auto | .unset =>
    if max ≥ 9 * second then some (truncateDur (mul033 max) second) else some max
  | .bad => none
  | .infinite => none            -- "infinite" is not special here: ParseDuration fails
  | .lit min =>
    let upper := truncateDur (mul075 max) second
    if min < 3 * second ∨ min > upper then none else some min

/-- `parseDefaultLifetime` -/
def parseDefaultLifetime (s : DurStr) (max : Dur) : Option Dur := do
  let lt ← parseDuration s (3 * max)
  if lt ≠ 0 ∧ (lt < max ∨ lt > 9000 * second) then none
  pure lt

/-- a plain-string duration key with a default for the empty string -/
def parsePlainDur (s : DurStr) (dflt : Dur) : Option Dur :=
  match s with
  | .empty => some dflt
  | .lit d => some d
  | _ => none

/-- `parseInterface(name, ifi, epoch)` -/
def parseInterface (name : Nat) (ifi : RawInterface) : Option Interface := do
  if ifi.monitor && ifi.advertise then none
  if ifi.monitor then
    pure { name := name, monitor := true, verbose := ifi.verbose }
  else
    let maxInterval ← parsePlainDur ifi.maxInterval Gen.Config.defaultMaxInterval
    if maxInterval < Gen.Config.maxIntervalLo ∨ maxInterval > Gen.Config.maxIntervalHi then none
    let minInterval ← parseMinInterval ifi.minInterval maxInterval
    let reachable ← parsePlainDur ifi.reachable 0
    if reachable < Gen.Config.reachableLo ∨ reachable > Gen.Config.reachableHi then none
    let retrans ← parsePlainDur ifi.retransmit 0
    if retrans < Gen.Config.retransLo ∨ retrans > Gen.Config.retransHi then none
    let hopLimit := ifi.hopLimit.getD Gen.Config.defaultHopLimit
    if hopLimit < Gen.Config.hopLimitLo ∨ hopLimit > Gen.Config.hopLimitHi then none
    let lifetime ← parseDefaultLifetime ifi.defaultLifetime maxInterval
    let pref ← parsePreference ifi.preference
    let plugins ← parsePlugins ifi maxInterval
    pure { name := name, monitor := false, advertise := ifi.advertise, verbose := ifi.verbose,
           minInterval := minInterval, maxInterval := maxInterval, managed := ifi.managed,
           otherConfig := ifi.otherConfig, reachable := reachable, retransmit := retrans,
           hopLimit := hopLimit.toNat, defaultLifetime := lifetime, unicastOnly := ifi.unicastOnly,
           preference := pref, plugins := plugins }

/-- `parseInterfaces` -/
def parseInterfaces (ifi : RawInterface) : Option (List Interface) :=
  let hasName := ifi.name != 0
  let hasNames := !ifi.names.isEmpty
  if hasName && hasNames then none
  else if hasName then mapM' (fun n => parseInterface n ifi) [ifi.name]
  else if hasNames then mapM' (fun n => parseInterface n ifi) ifi.names
  else none

/-- the interface loop of `Parse` with its `seen` set -/
def parseAll : List RawInterface → List Nat → Option (List Interface)
  | [], _ => some []
  | r :: rs, seen => do
    let ifis ← parseInterfaces r
    let names := ifis.map (·.name)
    if names.any seen.contains || hasDup names then none
    let rest ← parseAll rs (seen ++ names)
    pure (ifis ++ rest)

/-- `config.Parse` after TOML decoding -/
def parseConfig (c : RawConfig) : Option Config := do
  if c.interfaces.isEmpty then none
  if c.debugAddr != 0 && c.debugAddr != 1 then none
  let ifis ← parseAll c.interfaces []
  if c.debugAddr = 0 then pure { interfaces := ifis }
  else pure { interfaces := ifis, debugAddr := c.debugAddr, prometheus := c.prometheus, pprof := c.pprof }

end Corerad.Model
