/-
  Model of `(*Advertiser).schedule` (internal/corerad/advertise.go): the loop body consumes RA
  requests at their arrival instants (it never blocks) and hands transmissions to timers.

  Multicast requests are rate limited on the instant of the latest *scheduled* multicast
  transmission (`next`, initially the instant of the initial RA) and coalesced into a pending
  transmission — the repair of F-3.  In unicast-only mode multicast requests are dropped
  (nothing is transmitted and nothing is counted) — the repair of F-4.
-/
import Corerad.Basic
import Corerad.Gen.Advertise

namespace Corerad.Model

open Corerad

/-- an RA request as it arrives on `ipC`: all-nodes multicast, or unicast to a host -/
inductive Req where
  | mc
  | uc (host : Nat)
deriving DecidableEq, Repr, Inhabited

/-- a scheduled transmission: due instant and destination (all-nodes multicast, or a host) -/
structure Send where
  t : Time
  mc : Bool
  host : Nat := 0
deriving DecidableEq, Repr, Inhabited

/-- scheduler state: instant of the latest scheduled multicast transmission -/
structure SchedState where
  next : Time
deriving Repr, Inhabited

/-- one loop iteration: request `r` arriving at `t`; `draw` is the jitter drawn for a unicast
    request (`prng.Int63n(maxRADelay)`); returns the new state and the transmission scheduled,
    if any -/
def schedStep (minDelay : Dur) (unicastOnly : Bool) (s : SchedState) (t : Time) (r : Req) (draw : Int) :
    SchedState × Option Send :=
  match r with
  | .uc h => (s, some { t := t + draw, mc := false, host := h })
  | .mc =>
    if unicastOnly then (s, none)
    else if s.next > t then (s, none)                      -- a pending multicast RA serves it
    else
      let at_ := if s.next + minDelay < t then t else s.next + minDelay
      ({ next := at_ }, some { t := at_, mc := true })

/-- the whole run: requests in arrival order, unicast draws consumed in order -/
def schedule (minDelay : Dur) (unicastOnly : Bool) :
    SchedState → List (Time × Req) → List Int → List Send
  | _, [], _ => []
  | s, (t, .mc) :: rest, draws =>
    let (s', o) := schedStep minDelay unicastOnly s t .mc 0
    match o with
    | some x => x :: schedule minDelay unicastOnly s' rest draws
    | none => schedule minDelay unicastOnly s' rest draws
  | s, (t, .uc h) :: rest, draws =>
    let d := draws.headD 0
    { t := t + d, mc := false, host := h } :: schedule minDelay unicastOnly s rest draws.tail

/-- multicast transmissions of a run -/
def mcSends (l : List Send) : List Time := (l.filter (·.mc)).map (·.t)

/-- unicast transmissions of a run -/
def ucSends (l : List Send) : List (Time × Nat) := (l.filter (!·.mc)).map (fun x => (x.t, x.host))

end Corerad.Model
