/-
  Model of the Linux sysctl glue behind `system.State` (internal/system/interface_linux.go):
  a boolean sysctl is true iff the file reads exactly "1\n" (the kernel's rendering), a read
  failure is an error; enabling writes "1", disabling "0"; autoconfiguration is the key
  `autoconf`, forwarding the key `forwarding`, both under the interface's IPv6 conf directory.
  File contents and keys are small codes (strings are compared by the harness side only as
  whole values): content 0 = "0\n", 1 = "1\n", 2 = anything else, none = unreadable.
-/
import Corerad.Basic

namespace Corerad.Model.Sysctl

/-- the content of a sysctl file as a code: 0 = "0\n", 1 = "1\n" (the kernel's rendering of 0 and
    1), 2 = not an integer, 3 = another non-zero integer ("2\n": the kernel keeps whatever integer
    is written to `forwarding` and forwards for every non-zero value), 4 = another rendering of
    zero. -/
def isInt (c : Nat) : Bool := c != 2
def nonZero (c : Nat) : Bool := c == 1 || c == 3

/-- `sysctlBool`: `some b` or `none` for an error. The value is an integer and enabled means
    non-zero (finding F-29: the pinned tree compared with "1\n", so `forwarding = 2` read as
    "not forwarding"); a content that is not an integer is an error. -/
def readBool (content : Option Nat) : Option Bool :=
  match content with
  | none => none
  | some c => if isInt c then some (nonZero c) else none

/-- what `sysctlEnable` writes: code 1 = "1", 0 = "0" -/
def writeCode (enable : Bool) : Nat := if enable then 1 else 0

/-- which file of the interface's directory an operation touches: 0 = autoconf, 1 = forwarding -/
inductive Op where
  | getAutoconf | getForwarding | setAutoconf (v : Bool)
deriving DecidableEq, Repr

def Op.key : Op → Nat
  | .getAutoconf => 0 | .getForwarding => 1 | .setAutoconf _ => 0

/-- the two files of an interface: (autoconf, forwarding) contents; a write stores what the
    kernel would render: "1" → "1\n", "0" → "0\n" -/
abbrev Dir := Option Nat × Option Nat

def apply (d : Dir) : Op → Dir × Option Bool
  | .getAutoconf => (d, readBool d.1)
  | .getForwarding => (d, readBool d.2)
  | .setAutoconf v => ((some (writeCode v), d.2), some v)

end Corerad.Model.Sysctl
