/-
  Model of `(*listener).Listen` / `receiveRetry` (internal/corerad/listener.go) over a script
  of `ReadFrom` results.  Whether a message with a bad hop limit consumes one of the
  `retries` receive attempts is taken from the source (`Gen.Listener.invalidConsumesAttempt`):
  it does not — the repair of F-6.
-/
import Corerad.Basic
import Corerad.Gen.Listener

namespace Corerad.Model

open Corerad

/-- one `ReadFrom` result: a message (NDP type, IPv6 hop limit, source), a timeout, or any
    other error -/
inductive Read where
  | msg (kind hop host : Nat)
  | timeout
  | err
deriving DecidableEq, Repr, Inhabited

inductive ListenResult where
  | running            -- script exhausted, still reading
  | retriesExhausted   -- errRetriesExhausted
  | readError          -- a non-timeout read error
deriving DecidableEq, Repr, Inhabited

structure ListenOut where
  delivered : List (Nat × Nat) := []   -- (type, host) handed to the callback, in order
  invalid : List Nat := []             -- types counted in corerad_messages_received_invalid_total
  waits : List Dur := []               -- back-off waits requested after timeouts
  result : ListenResult := .running
deriving DecidableEq, Repr, Inhabited

/-- `Listen`'s loop over `receiveRetry`; `i` is the attempt counter of the current
    `receiveRetry` call -/
def listen (retries : Nat) (unit : Dur) (invalidCounts : Bool) : List Read → Nat → ListenOut
  | [], _ => {}
  | .err :: _, _ => { result := .readError }
  | .timeout :: rest, i =>
    -- back off `i * unit`, then the loop's `i++`
    if i + 1 ≥ retries then { waits := [i * unit], result := .retriesExhausted }
    else
      let o := listen retries unit invalidCounts rest (i + 1)
      { o with waits := (i * unit) :: o.waits }
  | .msg kind hop host :: rest, i =>
    if hop ≠ 255 then
      if invalidCounts then
        (if i + 1 ≥ retries then { invalid := [kind], result := .retriesExhausted }
         else
           let o := listen retries unit invalidCounts rest (i + 1)
           { o with invalid := kind :: o.invalid })
      else
        let o := listen retries unit invalidCounts rest i
        { o with invalid := kind :: o.invalid }
    else
      -- delivered; the next `receiveRetry` call starts at attempt 0
      let o := listen retries unit invalidCounts rest 0
      { o with delivered := (kind, host) :: o.delivered }

/-- the listener as it is in the source -/
def listenSrc (script : List Read) : ListenOut :=
  listen Gen.Listener.retries Gen.Listener.backoffUnit Gen.Listener.invalidConsumesAttempt script 0

end Corerad.Model
