/-
  Model of internal/system/dialer.go (C10 model 1, C11):
    (*Dialer).Dial        — init → fn → done() → classify, in a loop
    (*Dialer).init        — classification of the cause, then ≤ `attempts` re-dials with back-off
    (*Dialer).dial        — lookup/check/dialNDP, (Advertise only) setAutoconf, the `done` closure
    (*Dialer).setAutoconf — read previous, disable, the `restore` closure with its tolerated errors
    DialContext.done      — LeaveGroup, Close, restore

  A run is driven by a *script*: one `Attempt` per call of `DialFunc`, consumed in order.  An
  attempt fixes what the operating system does during that call (the outcome of
  lookup/check/dialNDP, the faults of the autoconf read and of the disabling write) and, when the
  dial succeeds, what happens while the connection is held (the task's outcome, the fault of the
  restoring write).  When the script is exhausted `DialFunc` succeeds without faults and the
  task returns nil, so every script denotes one complete run.  A cancellation point is an instant
  `T` of virtual time: everything but the back-off waits takes no time, so `T` falls into (at
  most) one wait, which then ends early with `ctx.Done()`.

  The model is a transcription: `goRun` is the `for` loop of `Dial` fused with the `for` loop of
  `init` (one iteration per `DialFunc` call); `stepAttempt` is one iteration; `dialFn` is
  `dial()`+`setAutoconf()`; `doneFn` is the `done` closure with `restore` inlined.

  `leak` is the regenerated fact `Gen.Dialer.dialLeaksConnOnAutoconfError`: does `dial()` return
  without closing the socket when `setAutoconf` fails after `dialNDP` succeeded.

  Not modelled (residue): the instant at which `ctx` is cancelled coinciding with the end of a
  wait or with a zero-length wait (Go's `select` then chooses among ready cases at random; the
  harness only generates instants strictly inside a wait); logging.

  Core Lean only: linked into `vfdriver`.
-/
import Corerad.Basic
import Corerad.Gen.Dialer

namespace Corerad.Model.Dialer

open Corerad

/-- the class of what `DialFunc` returned, as `init` tells classes apart -/
inductive DialOut where
  | ok
  /-- wraps `ErrLinkNotReady` -/
  | linkNotReady
  /-- an `*os.SyscallError` that is not a permission error -/
  | syscall
  /-- an `*os.SyscallError` wrapping `os.ErrPermission` -/
  | permission
  /-- anything else -/
  | other
deriving DecidableEq, Repr, Inhabited

/-- what the task `fn` did -/
inductive TaskOut where
  | nil
  /-- `ErrLinkChange` -/
  | linkChange
  /-- an `*os.SyscallError` that is not a permission error -/
  | syscall
  /-- an `*os.SyscallError` wrapping `os.ErrPermission` -/
  | permission
  /-- `errRetriesExhausted` (receive time-outs exhausted) -/
  | retries
  | other
  /-- `ctx` was cancelled while the task ran; it returned nil (the `Task` contract:
      `Advertiser.Run`/`Monitor.Run` map `context.Canceled` to nil) -/
  | cancelled
  /-- `ctx` was cancelled while the task ran; it returned `context.Canceled` itself -/
  | cancelledErr
deriving DecidableEq, Repr, Inhabited

/-- failure of one `State` call -/
inductive Fault where
  | none
  /-- `os.ErrPermission` -/
  | permission
  /-- `os.ErrNotExist` -/
  | notExist
  | other
deriving DecidableEq, Repr, Inhabited

/-- what the environment does during one `DialFunc` call and while its connection is held -/
structure Attempt where
  /-- outcome of lookupInterface / checkInterface / dialNDP -/
  pre : DialOut := .ok
  /-- `state.IPv6Autoconf` in `setAutoconf` -/
  get : Fault := .none
  /-- `state.SetIPv6Autoconf(iface, false)` in `setAutoconf` -/
  set : Fault := .none
  /-- `state.SetIPv6Autoconf(iface, prev)` in the `restore` closure -/
  rst : Fault := .none
  task : TaskOut := .nil
deriving DecidableEq, Repr, Inhabited

/-- what `Dial` returned, by the origin of the reported error -/
inductive Ret where
  | nil
  /-- "failed to reinitialize …: %w" of the error of `DialFunc` call `k` -/
  | dial (k : Nat)
  /-- "failed to reinitialize …: %w" of the error the task returned on connection `k` -/
  | task (k : Nat)
  /-- "failed to reinitialize …: timed out trying to initialize after error: …" -/
  | timeout
  /-- "failed to clean up connection: …" (the `done` closure of connection `k` failed) -/
  | cleanup (k : Nat)
deriving DecidableEq, Repr, Inhabited

/-- observable events.  `k` is the index of the `DialFunc` call (from 0); the connection a call
    opens carries the call's index. -/
inductive Ev where
  /-- `Dial` slept `d` ns of virtual time (a `time.After` that fired, or one cut short) -/
  | wait (d : Int)
  /-- `ctx` was cancelled during the wait just recorded -/
  | ctxDone
  /-- `DialFunc` is called for the `k`-th time -/
  | dial (k : Nat)
  /-- …and returned a result of class `o` -/
  | dialRet (k : Nat) (o : DialOut)
  /-- `dialNDP` succeeded: a socket exists -/
  | open (k : Nat)
  /-- `state.IPv6Autoconf` returned `v` / failed with `r` -/
  | getAutoconf (v : Bool) (r : Fault)
  /-- `state.SetIPv6Autoconf(iface, v)` returned `r` -/
  | setAutoconf (v : Bool) (r : Fault)
  | fnStart (k : Nat)
  | fnReturn (k : Nat) (t : TaskOut)
  /-- `conn.LeaveGroup` -/
  | leave (k : Nat)
  /-- `conn.Close` -/
  | cleanup (k : Nat)
  /-- `Dial` returned -/
  | ret (e : Ret)
deriving DecidableEq, Repr, Inhabited

structure Cfg where
  /-- `DialerMode`: `Advertise` (true) or `Monitor` -/
  adv : Bool := true
  /-- the interface's autoconf value before `Dial` -/
  ac0 : Bool := true
  /-- the instant (ns of virtual time since `Dial` was called) at which `ctx` is cancelled from
      outside, if at all -/
  cancelAt : Option Nat := none
deriving DecidableEq, Repr, Inhabited

/-! ### constants of `init` -/

def attempts : Nat := Gen.Dialer.attempts.toNat
def step : Int := Gen.Dialer.step
def maxDelay : Int := Gen.Dialer.maxDelay

/-- the duration passed to `time.After` in iteration `i` of the retry loop:
    `var delay time.Duration` (zero) for `i = 0`; afterwards the value assigned in iteration
    `i-1`: `delay = time.Duration(i) * 250ms; if delay > maxDelay { delay = maxDelay }` -/
def delay (i : Nat) : Int :=
  if i = 0 then 0 else if (i : Int) * step > maxDelay then maxDelay else (i : Int) * step

/-! ### `dial()` and `setAutoconf()` -/

/-- the result of one `DialFunc` call -/
structure DialRes where
  evs : List Ev
  out : DialOut
  /-- the `restore` closure: `none` = nil closure (Monitor), `some prev` -/
  restore : Option Bool
  /-- the interface's autoconf value afterwards -/
  ac : Bool
deriving DecidableEq, Repr

/-- `conn.LeaveGroup(…)`, `conn.Close()` -/
def closeEvs (k : Nat) : List Ev := [.leave k, .cleanup k]

/-- what `dial()` does with the socket on the path `restore, err = d.setAutoconf(); err != nil` -/
def errTail (leak : Bool) (k : Nat) : List Ev := if leak then [] else closeEvs k

/-- `dial()`.  `ac` is the interface's current autoconf value; a `State` write takes effect iff
    it does not fail. -/
def dialFn (leak adv : Bool) (k : Nat) (ac : Bool) (a : Attempt) : DialRes :=
  match a.pre with
  | .ok =>
    if !adv then { evs := [.open k], out := .ok, restore := none, ac := ac }
    else
      -- setAutoconf(): prev, err := d.state.IPv6Autoconf(d.iface)
      match a.get with
      | .none =>
        -- d.state.SetIPv6Autoconf(d.iface, false)
        match a.set with
        | .none =>
          { evs := [.open k, .getAutoconf ac .none, .setAutoconf false .none],
            out := .ok, restore := some ac, ac := false }
        | .permission =>
          -- "continue anyway"
          { evs := [.open k, .getAutoconf ac .none, .setAutoconf false .permission],
            out := .ok, restore := some ac, ac := ac }
        | f =>
          -- "failed to disable IPv6 autoconfiguration …: %v"
          { evs := [.open k, .getAutoconf ac .none, .setAutoconf false f] ++ errTail leak k,
            out := .other, restore := none, ac := ac }
      | f =>
        -- "failed to get IPv6 autoconfiguration state …: %v"
        { evs := [.open k, .getAutoconf false f] ++ errTail leak k,
          out := .other, restore := none, ac := ac }
  | o => { evs := [], out := o, restore := none, ac := ac }

/-- the result of the `done` closure -/
structure DoneRes where
  evs : List Ev
  /-- `done()` returned a non-nil error -/
  failed : Bool
  ac : Bool
deriving DecidableEq, Repr

/-- `done()`: LeaveGroup, Close, then `restore()`:
    nil / permission / not-exist ⇒ nil; anything else ⇒ "failed to restore …". -/
def doneFn (k : Nat) (restore : Option Bool) (rst : Fault) (ac : Bool) : DoneRes :=
  match restore with
  | none => { evs := closeEvs k, failed := false, ac := ac }
  | some prev =>
    { evs := closeEvs k ++ [.setAutoconf prev rst],
      failed := rst == .other,
      ac := if rst == .none then prev else ac }

/-! ### `Dial` and `init` -/

/-- where the fused loop stands: before the first `DialFunc` call of `Dial`, or at the head of
    iteration `i` of the retry loop of `init` -/
inductive Phase where
  | first
  | retry (i : Nat)
deriving DecidableEq, Repr, Inhabited

structure St where
  /-- number of `DialFunc` calls so far -/
  k : Nat := 0
  /-- virtual time since `Dial` was called -/
  now : Int := 0
  /-- the interface's autoconf value -/
  ac : Bool := true
deriving DecidableEq, Repr, Inhabited

/-- `for i := 0; i < attempts; i++` is (re-)entered at `i`; falling out of the loop is
    "timed out trying to initialize" -/
def enterRetry (i : Nat) : Sum Ret Phase :=
  if i < attempts then .inr (.retry i) else .inl .timeout

/-- the `switch` of `init` on the error of the *first* `DialFunc` call -/
def DialOut.next (o : DialOut) (k : Nat) : Sum Ret Phase :=
  match o with
  | .ok => .inl .nil            -- not used: a successful dial goes on to the task
  | .linkNotReady => enterRetry 0
  | .syscall => enterRetry 0
  | .permission => .inl (.dial k)
  | .other => .inl (.dial k)

/-- `Dial` after `fn` returned and `done()` succeeded: nil ends the run; otherwise `init(ctx,
    err)` classifies the error; `context.Canceled` is unrecoverable there and mapped to nil by
    `Dial` -/
def TaskOut.next (t : TaskOut) (k : Nat) : Sum Ret Phase :=
  match t with
  | .nil => .inl .nil
  | .cancelled => .inl .nil
  | .cancelledErr => .inl .nil
  | .linkChange => enterRetry 0
  | .syscall => enterRetry 0
  | .permission => .inl (.task k)
  | .retries => .inl (.task k)
  | .other => .inl (.task k)

structure StepRes where
  evs : List Ev
  st : St
  /-- `Dial` returns, or the loop goes on in the given phase -/
  next : Sum Ret Phase

/-- one `DialFunc` call and everything up to the next loop head -/
def afterDial (leak : Bool) (cfg : Cfg) (ph : Phase) (st : St) (a : Attempt) : StepRes :=
  let k := st.k
  let D := dialFn leak cfg.adv k st.ac a
  let pre := [Ev.dial k] ++ D.evs ++ [Ev.dialRet k D.out]
  match D.out with
  | .ok =>
    -- err = fn(ctx, dctx); if derr := dctx.done(); derr != nil { return "failed to clean up" }
    let C := doneFn k D.restore a.rst D.ac
    { evs := pre ++ [.fnStart k, .fnReturn k a.task] ++ C.evs,
      st := { k := k + 1, now := st.now, ac := C.ac },
      next := if C.failed then .inl (.cleanup k) else a.task.next k }
  | o =>
    { evs := pre,
      st := { k := k + 1, now := st.now, ac := D.ac },
      next := match ph with
        | .first => o.next k
        | .retry i => enterRetry (i + 1) }   -- `continue`: the error is not classified again

/-- has `ctx` been cancelled (from outside) before the instant `t` -/
def cancelledBefore (cfg : Cfg) (t : Int) : Bool :=
  match cfg.cancelAt with
  | some T => decide ((T : Int) < t)
  | none => false

/-- the instant of the external cancellation (0 when there is none) -/
def cancelInstant (cfg : Cfg) : Int :=
  match cfg.cancelAt with
  | some T => (T : Int)
  | none => 0

/-- one iteration: in the retry loop, first the `select` on `ctx.Done()` / `time.After(delay)` -/
def stepAttempt (leak : Bool) (cfg : Cfg) (ph : Phase) (st : St) (a : Attempt) : StepRes :=
  match ph with
  | .first => afterDial leak cfg ph st a
  | .retry i =>
    let d := delay i
    if cancelledBefore cfg (st.now + d) then
      -- case <-ctx.Done(): return nil, ctx.Err()  ⇒  Dial returns nil
      let T := cancelInstant cfg
      { evs := [.wait (T - st.now), .ctxDone], st := { st with now := T }, next := .inl .nil }
    else
      let r := afterDial leak cfg ph { st with now := st.now + d } a
      { r with evs := .wait d :: r.evs }

/-- what `Dial` returned, the trace (ending with `ret`), the autoconf value left behind -/
structure Out where
  evs : List Ev
  ret : Ret
  ac : Bool
deriving DecidableEq, Repr

def finish (r : StepRes) (e : Ret) : Out := { evs := r.evs ++ [.ret e], ret := e, ac := r.st.ac }

/-- the fused loops.  Past the end of the script `DialFunc` succeeds without faults and the
    task returns nil, which ends the run (`stepAttempt … {}` never continues). -/
def goRun (leak : Bool) (cfg : Cfg) : Phase → St → List Attempt → Out
  | ph, st, [] =>
    let r := stepAttempt leak cfg ph st {}
    match r.next with
    | .inl e => finish r e
    | .inr _ => finish r .nil
  | ph, st, a :: as =>
    let r := stepAttempt leak cfg ph st a
    match r.next with
    | .inl e => finish r e
    | .inr ph' =>
      let o := goRun leak cfg ph' r.st as
      { o with evs := r.evs ++ o.evs }

def dialRunWith (leak : Bool) (cfg : Cfg) (s : List Attempt) : Out :=
  goRun leak cfg .first { k := 0, now := 0, ac := cfg.ac0 } s

/-- `Dialer.Dial` as the source has it -/
def dialRun (cfg : Cfg) (s : List Attempt) : Out :=
  dialRunWith Gen.Dialer.dialLeaksConnOnAutoconfError cfg s

/-- how many attempts of the script the run consumed (`DialFunc` calls) -/
def dialCalls (evs : List Ev) : Nat :=
  (evs.filter fun e => match e with | .dial _ => true | _ => false).length

end Corerad.Model.Dialer
